import RtcModel.Drv.C18
open RtcModel.Drv

/-- one request line `<prop> <stream> <id> args…` → one response line `<prop> <stream> <id> out` -/
def respond (line : String) : String :=
  match words line with
  | prop :: stream :: id :: args =>
    let out := match prop with
      | "c18" => C18.handle stream args
      | _ => "bad-prop"
    s!"{prop} {stream} {id} {out}"
  | _ => "bad-line"

partial def loop (hin : IO.FS.Stream) (hout : IO.FS.Stream) : IO Unit := do
  let line ← hin.getLine
  if line.isEmpty then return ()
  hout.putStrLn (respond line)
  loop hin hout

def main : IO Unit := do
  let hin ← IO.getStdin
  let hout ← IO.getStdout
  loop hin hout
  hout.flush
