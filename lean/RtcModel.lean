-- Root of the `RtcModel` library: models (core Lean only) and property theorems.
import RtcModel.Generated.Consts
import RtcModel.Latch
import RtcModel.Theorems.C18
