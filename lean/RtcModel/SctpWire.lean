/-
Wire level of `src/transports/sctp.rs`: CRC-32C, the common header and chunk walk of
`handle_packet`, the chunk encoders (`send_chunk`, `create_data_chunk`, `create_sack_chunk`,
`create_forward_tsn_chunk`), packet assembly (`send_packet_with_tag`) and MTU batching
(`transmit_chunks_with_tag`).  Core Lean only.
-/
import RtcModel.SctpDcep

namespace RtcModel.Sctp
open RtcModel.Generated

/-! ### CRC-32C (Castagnoli), reflected polynomial 0x82F63B78 -/

def crcStep (c : UInt32) : UInt32 := if c &&& 1 == 1 then (c >>> 1) ^^^ 0x82F63B78 else c >>> 1

def crcByteSlow (c : UInt32) : UInt32 := crcStep (crcStep (crcStep (crcStep (crcStep (crcStep (crcStep (crcStep c)))))))

def crcTable : Array UInt32 := Array.ofFn (n := 256) fun i => crcByteSlow (UInt32.ofNat i.val)

/-- one byte: `table[(c ^ b) & 0xff] ^ (c >> 8)` -/
def crcByte (c : UInt32) (b : UInt8) : UInt32 :=
  crcTable[((c ^^^ b.toUInt32) &&& 0xFF).toNat]! ^^^ (c >>> 8)

/-- `sctp_crc32c_append(crc, data)` -/
def crc32cAppend (crc : UInt32) (data : Bytes) : UInt32 :=
  (data.foldl crcByte (crc ^^^ 0xFFFFFFFF)) ^^^ 0xFFFFFFFF

/-- `sctp_crc32c(data)` -/
def crc32c (data : Bytes) : UInt32 := crc32cAppend 0 data

/-! ### big-endian fields -/

def le32 (x : UInt32) : Bytes :=
  [UInt8.ofNat (x.toNat % 256), UInt8.ofNat (x.toNat / 256 % 256), UInt8.ofNat (x.toNat / 65536 % 256),
   UInt8.ofNat (x.toNat / 16777216)]

/-! ### chunks -/

structure RawChunk where
  ty    : UInt8
  flags : UInt8
  value : Bytes
deriving DecidableEq, Repr, Inhabited

def pad4 (n : Nat) : Nat := (4 - n % 4) % 4

/-- the `while buf.has_remaining()` chunk walk of `handle_packet` (fuel: every iteration consumes
at least the 4 header bytes) -/
def parseChunks : Nat → Bytes → List RawChunk
  | 0, _ => []
  | fuel + 1, buf =>
    match buf with
    | ty :: fl :: l0 :: l1 :: rest =>
      let len := (rd16 l0 l1).toNat
      if len < sctpChunkHdr || rest.length < len - sctpChunkHdr then []
      else
        let value := rest.take (len - sctpChunkHdr)
        let rest1 := rest.drop (len - sctpChunkHdr)
        let p := pad4 len
        let rest2 := if rest1.length ≥ p then rest1.drop p else rest1
        { ty := ty, flags := fl, value := value } :: parseChunks fuel rest2
    | _ => []

structure Packet where
  srcPort : UInt16
  dstPort : UInt16
  vtag    : UInt32
  chunks  : List RawChunk
deriving DecidableEq, Repr, Inhabited

/-- header parse + checksum verification of `handle_packet`; `none` = packet ignored -/
def parsePacket (p : Bytes) : Option Packet :=
  match p with
  | s0 :: s1 :: d0 :: d1 :: v0 :: v1 :: v2 :: v3 :: c0 :: c1 :: c2 :: c3 :: body =>
    let received := rd32 c3 c2 c1 c0
    let crc := crc32cAppend (crc32cAppend (crc32c [s0, s1, d0, d1, v0, v1, v2, v3]) [0, 0, 0, 0]) body
    if crc != received then none
    else some { srcPort := rd16 s0 s1, dstPort := rd16 d0 d1, vtag := rd32 v0 v1 v2 v3,
                chunks := parseChunks body.length body }
  | _ => none

/-- `send_chunk`'s chunk encoding: header, value, zero padding to 4 bytes -/
def encChunk (ty flags : UInt8) (value : Bytes) : Bytes :=
  let len := sctpChunkHdr + value.length
  [ty, flags] ++ be16 (UInt16.ofNat len) ++ value ++ List.replicate (pad4 len) 0

/-- `create_data_chunk` -/
def encData (c : DChunk) : Bytes :=
  let len := 4 + (sctpDataHdr + c.data.length)
  [UInt8.ofNat ctData, c.flags] ++ be16 (UInt16.ofNat len) ++ be32 c.tsn ++ be16 c.sid ++ be16 c.ssn ++
    be32 c.ppid ++ c.data ++ List.replicate (pad4 len) 0

/-- the value `handle_data` / `process_data_payload` read back (`none`: shorter than 12 bytes) -/
def parseData (flags : UInt8) (v : Bytes) : Option DChunk :=
  match v with
  | t0 :: t1 :: t2 :: t3 :: s0 :: s1 :: q0 :: q1 :: p0 :: p1 :: p2 :: p3 :: data =>
    some { tsn := rd32 t0 t1 t2 t3, flags := flags, sid := rd16 s0 s1, ssn := rd16 q0 q1,
           ppid := rd32 p0 p1 p2 p3, data := data }
  | _ => none

/-- `create_sack_chunk` (encoding of the content computed by `createSack`) -/
def encSack (k : Sack) : Bytes :=
  encChunk (UInt8.ofNat ctSack) 0
    (be32 k.cum ++ be32 (UInt32.ofNat k.arwnd) ++ be16 (UInt16.ofNat k.gaps.length) ++
      be16 (UInt16.ofNat k.dups.length) ++
      (k.gaps.map (fun g => be16 g.1 ++ be16 g.2)).flatten ++ (k.dups.map be32).flatten)

def parseGaps : Nat → Bytes → List (UInt16 × UInt16)
  | 0, _ => []
  | n + 1, a :: b :: c :: d :: rest => (rd16 a b, rd16 c d) :: parseGaps n rest
  | _ + 1, _ => []

def parseU32s : Bytes → List UInt32
  | a :: b :: c :: d :: rest => rd32 a b c d :: parseU32s rest
  | _ => []

/-- what `handle_sack` reads from a SACK value (`none`: shorter than 12 bytes) -/
def parseSack (v : Bytes) : Option (UInt32 × UInt32 × List (UInt16 × UInt16) × Bytes) :=
  match v with
  | c0 :: c1 :: c2 :: c3 :: r0 :: r1 :: r2 :: r3 :: g0 :: g1 :: _ :: _ :: rest =>
    let ng := (rd16 g0 g1).toNat
    let gaps := parseGaps ng rest
    some (rd32 c0 c1 c2 c3, rd32 r0 r1 r2 r3, gaps, rest.drop (gaps.length * 4))
  | _ => none

/-- `send_packet_with_tag`: common header with the CRC filled in -/
def encPacket (srcPort dstPort : UInt16) (tag : UInt32) (chunks : List Bytes) : Bytes :=
  let hdr := be16 srcPort ++ be16 dstPort ++ be32 tag
  let body := chunks.flatten
  hdr ++ le32 (crc32c (hdr ++ [0, 0, 0, 0] ++ body)) ++ body

/-- `transmit_chunks_with_tag`: greedy batching of already encoded chunks into packets -/
def batchGo : List Bytes → List Bytes → Nat → List (List Bytes)
  | [], cur, _ => if cur.isEmpty then [] else [cur]
  | c :: rest, cur, curLen =>
    if !cur.isEmpty && curLen + c.length > sctpMaxPacket then
      cur :: batchGo rest [c] (sctpCommonHdr + c.length)
    else batchGo rest (cur ++ [c]) (curLen + c.length)

def batch (chunks : List Bytes) : List (List Bytes) := batchGo chunks [] sctpCommonHdr

end RtcModel.Sctp
