/-
Model of `IceCandidate::to_sdp` / `IceCandidate::from_sdp` (`src/transports/ice/mod.rs`), strings as
`List Char`.  The standard library's `IpAddr: Display` and `SocketAddr: FromStr` are *parameters*
(`AddrText`); `u16/u32: FromStr/Display`, `split_whitespace`, `to_ascii_lowercase`,
`trim_start_matches` are modelled concretely.  Core Lean only.
-/
import RtcModel.Stun
import RtcModel.IcePrio

namespace RtcModel.IceCand
open RtcModel.Stun RtcModel.IcePrio

abbrev Str := List Char

/-- std: `IpAddr::to_string` and `str::parse::<SocketAddr>` -/
structure AddrText where
  showIp : Addr → Str
  parseSock : Str → Option Addr

/-! ### std string functions -/

/-- `char::is_whitespace` (Unicode White_Space) -/
def isWs (c : Char) : Bool :=
  let n := c.toNat
  (9 ≤ n && n ≤ 13) || n = 32 || n = 0x85 || n = 0xA0 || n = 0x1680 || (0x2000 ≤ n && n ≤ 0x200A) ||
  n = 0x2028 || n = 0x2029 || n = 0x202F || n = 0x205F || n = 0x3000

def splitWsAux : Str → Str → List Str
  | [], cur => if cur.isEmpty then [] else [cur.reverse]
  | c :: cs, cur =>
    if isWs c then (if cur.isEmpty then splitWsAux cs [] else cur.reverse :: splitWsAux cs [])
    else splitWsAux cs (c :: cur)

/-- `str::split_whitespace().collect()` -/
def splitWs (s : Str) : List Str := splitWsAux s []

/-- `parts.join(" ")` -/
def joinSp : List Str → Str
  | [] => []
  | [t] => t
  | t :: rest => t ++ ' ' :: joinSp rest

def lowerChar (c : Char) : Char := if 'A' ≤ c ∧ c ≤ 'Z' then Char.ofNat (c.toNat + 32) else c
/-- `str::to_ascii_lowercase` -/
def toAsciiLower (s : Str) : Str := s.map lowerChar

def candidatePrefix : Str := "candidate:".toList

/-- `trim_start_matches("candidate:")` — strips the prefix repeatedly -/
def trimCandidatePrefix (s : Str) : Str :=
  let rec go (fuel : Nat) (s : Str) : Str :=
    match fuel with
    | 0 => s
    | fuel + 1 => if candidatePrefix.isPrefixOf s then go fuel (s.drop candidatePrefix.length) else s
  go s.length s

def digitChar (d : Nat) : Char := Char.ofNat (48 + d)

/-- `u16/u32: Display` -/
def showDec (n : Nat) : Str :=
  if _h : n < 10 then [digitChar n] else showDec (n / 10) ++ [digitChar (n % 10)]
decreasing_by omega

def digitVal (c : Char) : Option Nat := if '0' ≤ c ∧ c ≤ '9' then some (c.toNat - 48) else none

def parseDigits : Str → Nat → Option Nat
  | [], acc => some acc
  | c :: cs, acc => match digitVal c with
    | some d => parseDigits cs (acc * 10 + d)
    | none => none

/-- `<unsigned>::from_str` with maximum `max`: optional single leading `+`, ASCII digits, no overflow. -/
def parseUInt (max : Nat) (s : Str) : Option Nat :=
  match s with
  | [] => none
  | ['+'] => none
  | ['-'] => none
  | c :: cs =>
    let digits := if c = '+' then cs else c :: cs
    match parseDigits digits 0 with
    | some v => if v ≤ max then some v else none
    | none => none

/-! ### the candidate -/

structure Cand where
  foundation : Str
  priority : Nat
  address : Addr
  typ : CandType
  transport : Str
  tcpType : Option TcpType
  related : Option Addr
  component : Nat
deriving DecidableEq, Repr

def typStr : CandType → Str
  | .host => "host".toList | .srflx => "srflx".toList | .prflx => "prflx".toList | .relay => "relay".toList

def typOfStr (s : Str) : Option CandType :=
  if s = "host".toList then some .host else if s = "srflx".toList then some .srflx
  else if s = "prflx".toList then some .prflx else if s = "relay".toList then some .relay else none

def tcpTypeStr : TcpType → Str
  | .active => "active".toList | .passive => "passive".toList | .so => "so".toList

/-- `TcpType::from_str` -/
def tcpTypeOfStr (s : Str) : Option TcpType :=
  if s = "active".toList then some .active else if s = "passive".toList then some .passive
  else if s = "so".toList then some .so else none

def Addr.port : Addr → Nat
  | .v4 _ p => p | .v6 _ p => p

/-- `to_sdp`: the `parts` vector -/
def toParts (T : AddrText) (c : Cand) : List Str :=
  [c.foundation, showDec c.component, toAsciiLower c.transport, showDec c.priority,
   T.showIp c.address, showDec (Addr.port c.address), "typ".toList, typStr c.typ]
  ++ (match c.tcpType with | some t => ["tcptype".toList, tcpTypeStr t] | none => [])
  ++ (match c.related with
      | some a => if c.typ ≠ .host then ["raddr".toList, T.showIp a, "rport".toList, showDec (Addr.port a)] else []
      | none => [])

/-- `IceCandidate::to_sdp` -/
def toSdp (T : AddrText) (c : Cand) : Str := joinSp (toParts T c)

inductive SdpErr where
  | few | int | addr | typ
deriving DecidableEq, Repr

/-- `if ip_str.contains(':') { format!("[{}]:{}", ip_str, port) } else { format!("{}:{}", ip_str, port) }` -/
def sockText (ip : Str) (port : Nat) : Str :=
  if ip.contains ':' then '[' :: ip ++ "]:".toList ++ showDec port else ip ++ ':' :: showDec port

/-- the `tcptype` scan: even positions from index 8 on -/
def scanTcpType : List Str → Option TcpType
  | k :: v :: rest => if k = "tcptype".toList then tcpTypeOfStr v else scanTcpType rest
  | _ => none

/-- the `raddr … rport …` scan (same positions; needs four tokens) -/
def scanRelated (T : AddrText) : List Str → Option Addr
  | k :: v :: k2 :: v2 :: rest =>
    if k = "raddr".toList ∧ k2 = "rport".toList then
      match parseUInt 65535 v2 with
      | some rport => T.parseSock (sockText v rport)
      | none => none
    else scanRelated T (k2 :: v2 :: rest)
  | _ => none

/-- `IceCandidate::from_sdp` -/
def fromSdp (T : AddrText) (line : Str) : Except SdpErr Cand :=
  match splitWs line with
  | p0 :: p1 :: p2 :: p3 :: p4 :: p5 :: _ :: p7 :: ext =>
    let foundation := trimCandidatePrefix p0
    match parseUInt 65535 p1 with
    | none => .error .int
    | some component =>
      let transport := toAsciiLower p2
      match parseUInt 4294967295 p3 with
      | none => .error .int
      | some priority =>
        match parseUInt 65535 p5 with
        | none => .error .int
        | some port =>
          match T.parseSock (sockText p4 port) with
          | none => .error .addr
          | some address =>
            match typOfStr p7 with
            | none => .error .typ
            | some typ =>
              let tcpType := if transport = "tcp".toList then scanTcpType ext else none
              .ok { foundation, priority, address, typ, transport, tcpType,
                    related := scanRelated T ext, component }
  | _ => .error .few

end RtcModel.IceCand
