/-
Model of answer generation in `src/peer_connection.rs` / `src/sdp.rs` / `src/rtx.rs`:
`build_description(SdpType::Answer)` (section → transceiver matching and ordering, `ensure_mid`,
direction mapping and downgrade, protocol), `populate_media_capabilities`
(`MediaSection::apply_config`, the re-INVITE-only audio intersection
`reinvite_answer_audio_capabilities` / `derive_answer_audio_capabilities` /
`MediaSection::to_audio_capabilities`, `strip_rtx_from_section`, `merge_remote_rtx_into_answer`,
header-extension echo `get_remote_extmap_id`, DTLS `setup` from the role), rtcp-mux echo, BUNDLE
echo and mid clearing.

What is produced is the answer restricted to what property C08 talks about: per section kind, mid,
protocol, direction, formats and the attributes `rtcp-mux rtpmap fmtp rtcp-fb extmap setup sctp-port
T38*` in the order the code emits them; session level: the BUNDLE group.  ICE / fingerprint / SSRC /
msid / crypto / candidate / `rtcp` attributes, ports and `c=` lines are not modelled.

`rtx_pt_for_primary` iterates a `HashMap`: when two RTX payload types name the same primary the code's
choice is not deterministic; the model takes the smallest one and the generators avoid the case.

Core Lean only (linked into `rtcdrv`).
-/
import RtcModel.SdpLines
import RtcModel.Generated.Consts

namespace RtcModel.Answer
open RtcModel.Text RtcModel.SdpLines RtcModel.Generated

inductive Mode | webrtc | srtp | rtp
deriving DecidableEq, Repr

structure ACap where
  pt : Nat
  name : Str
  clock : Nat
  channels : Nat
  fmtp : Option Str
  fbs : List Str
deriving DecidableEq, Repr

structure VCap where
  pt : Nat
  name : Str
  clock : Nat
  fmtp : Option Str
  fbs : List Str
  rtx : Option Nat
deriving DecidableEq, Repr

/-- `T38Capability` (the fields `apply_image_config` writes) -/
structure T38Cap where
  pt : Nat
  version : Nat
  maxBitrate : Nat
  rate : Str            -- `T38FaxRateManagement` as printed
  maxBuffer : Nat
  maxDatagram : Nat
  ec : Str              -- `T38UdpEC` as printed
deriving DecidableEq, Repr

structure Cfg where
  mode : Mode
  legacySip : Bool            -- `sdp_compatibility == LegacySip`
  muxRequire : Bool           -- `rtcp_mux_policy == Require`
  audio : List ACap           -- `media_capabilities.audio` (empty = not configured)
  video : List VCap
  sctpPort : Nat              -- `media_capabilities.application.sctp_port` (default 5000)
  image : List T38Cap := []   -- `media_capabilities.image` (empty = not configured)
deriving DecidableEq, Repr

def defaultACap : ACap :=
  ⟨defAudioPt, "opus".toList, defAudioClock, defAudioChannels, some "minptime=10;useinbandfec=1;stereo=1".toList, []⟩

def defaultVCap : VCap :=
  ⟨defVideoPt, "VP8".toList, defVideoClock, none,
   ["nack".toList, "nack pli".toList, "ccm fir".toList, "goog-remb".toList, "transport-cc".toList], none⟩

def Cfg.audioCaps (c : Cfg) : List ACap := if c.audio.isEmpty then [defaultACap] else c.audio
def Cfg.videoCaps (c : Cfg) : List VCap := if c.video.isEmpty then [defaultVCap] else c.video

/-- what `build_description` reads of a transceiver -/
structure TrxView where
  kind : Kind
  mid : Option Str
  dir : Dir
  hasSender : Bool
  hasSenderSsrc : Bool
deriving DecidableEq, Repr

def RID_URI : Str := "urn:ietf:params:rtp-hdrext:sdes:rtp-stream-id".toList
def RRID_URI : Str := "urn:ietf:params:rtp-hdrext:sdes:repaired-rtp-stream-id".toList
def ABS_URI : Str := "http://www.webrtc.org/experiments/rtp-hdrext/abs-send-time".toList
def MID_URI : Str := "urn:ietf:params:rtp-hdrext:sdes:mid".toList

def attr (k : String) (v : Str) : Attr := ⟨k.toList, some v⟩
def flag (k : String) : Attr := ⟨k.toList, none⟩

/-! ### directions -/

/-- `TransceiverDirection::answer_direction` -/
def answerDirection : Dir → Dir
  | .sendrecv => .sendrecv | .sendonly => .recvonly | .recvonly => .sendonly | .inactive => .inactive

def sends (d : Dir) : Bool := d = .sendrecv || d = .sendonly

/-- `remote_expects_media`; `o` is the offered section this answer section responds to — the remote
section AT THE SAME INDEX (round-3 `fix:`; before it: the first remote section with the transceiver's mid) -/
def remoteExpectsMedia (o : Media) : Bool := o.dir = .sendrecv || o.dir = .sendonly

def downgrade : Dir → Dir
  | .sendrecv => .recvonly | .sendonly => .inactive | d => d

def finalDirection (t : TrxView) (o : Media) : Dir :=
  let d := answerDirection t.dir
  if sends d && !t.hasSender && !t.hasSenderSsrc && t.kind != .application && t.kind != .image &&
      !remoteExpectsMedia o then downgrade d else d

/-! ### `apply_config` -/

def rtpmapAudio (c : ACap) : Str :=
  if c.channels = 1 then natStr c.pt ++ sp ++ c.name ++ ['/'] ++ natStr c.clock
  else natStr c.pt ++ sp ++ c.name ++ ['/'] ++ natStr c.clock ++ ['/'] ++ natStr c.channels

def audioCapAttrs (c : ACap) : List Attr :=
  [attr "rtpmap" (rtpmapAudio c)] ++
  (match c.fmtp with | some f => [attr "fmtp" (natStr c.pt ++ sp ++ f)] | none => []) ++
  c.fbs.map (fun fb => attr "rtcp-fb" (natStr c.pt ++ sp ++ fb))

/-- `rtx::append_rtx_to_section` -/
def appendRtx (fa : List Str × List Attr) (primary rtx clock : Nat) : List Str × List Attr :=
  let formats := if fa.1.any (· = natStr rtx) then fa.1 else fa.1 ++ [natStr rtx]
  let rtpmap := natStr rtx ++ " rtx/".toList ++ natStr clock
  if fa.2.any (fun a => a.key = "rtpmap".toList && a.value = some rtpmap) then (formats, fa.2)
  else (formats, fa.2 ++ [attr "rtpmap" rtpmap, attr "fmtp" (natStr rtx ++ " apt=".toList ++ natStr primary)])

def muxAttr (c : Cfg) : List Attr := if c.muxRequire && !c.legacySip then [flag "rtcp-mux"] else []

def applyAudioConfig (c : Cfg) : List Str × List Attr :=
  (c.audioCaps.map (fun a => natStr a.pt), muxAttr c ++ c.audioCaps.flatMap audioCapAttrs)

def videoCapStep (fa : List Str × List Attr) (v : VCap) : List Str × List Attr :=
  let attrs := fa.2 ++ [attr "rtpmap" (natStr v.pt ++ sp ++ v.name ++ ['/'] ++ natStr v.clock)] ++
    (match v.fmtp with | some f => [attr "fmtp" (natStr v.pt ++ sp ++ f)] | none => []) ++
    v.fbs.map (fun fb => attr "rtcp-fb" (natStr v.pt ++ sp ++ fb))
  match v.rtx with
  | some r => appendRtx (fa.1, attrs) v.pt r v.clock
  | none => (fa.1, attrs)

def applyVideoConfig (c : Cfg) : List Str × List Attr :=
  c.videoCaps.foldl videoCapStep (c.videoCaps.map (fun v => natStr v.pt), muxAttr c)

def defaultT38 : T38Cap :=
  ⟨defT38Pt, 0, defT38MaxBitrate, "transferredTCF".toList, 1024, 238, "t38UDPRedundancy".toList⟩

def t38AttrsOf (t : T38Cap) : List Attr :=
  [attr "T38FaxVersion" (natStr t.version), attr "T38MaxBitRate" (natStr t.maxBitrate),
   attr "T38FaxRateManagement" t.rate, attr "T38FaxMaxBuffer" (natStr t.maxBuffer),
   attr "T38FaxMaxDatagram" (natStr t.maxDatagram), attr "T38FaxUdpEC" t.ec]

/-- `apply_image_config`: one format and six attributes PER configured T.38 capability -/
def imageCaps (c : Cfg) : List T38Cap := if c.image.isEmpty then [defaultT38] else c.image

/-! ### reading capabilities back from a remote section (`to_audio_capabilities`, video clock) -/

/-- value of an attribute split at the FIRST space (`split_once(' ')`) with the left part a `u8` -/
def ptRest (v : Str) : Option (Nat × Str) :=
  match splitOnce ' ' v with
  | some (p, rest) => (parseU8 p).map (fun n => (n, rest))
  | none => none

def attrVals (attrs : List Attr) (key : String) : List Str :=
  attrs.filterMap (fun a => if a.key = key.toList then a.value else none)

def audioDefaults (pt : Nat) : Str × Nat × Nat :=
  if pt = 0 then ("PCMU".toList, 8000, 1) else if pt = 8 then ("PCMA".toList, 8000, 1)
  else if pt = 9 then ("G722".toList, 8000, 1) else if pt = 18 then ("G729".toList, 8000, 1)
  else if pt = 111 then ("opus".toList, 48000, 2) else if pt = 101 then ("telephone-event".toList, 8000, 1)
  else ("unknown".toList, 8000, 1)

/-- the rtpmap loop of `to_audio_capabilities` for one payload type (every matching line is applied) -/
def audioRtpmapStep (pt : Nat) (acc : Str × Nat × Nat) (v : Str) : Str × Nat × Nat :=
  match ptRest v with
  | some (p, rest) =>
    if p = pt then
      match splitOn '/' rest with
      | name :: more =>
        let clock := match more with | c :: _ => (parseU32 c).getD acc.2.1 | [] => acc.2.1
        let ch := match more with | _ :: h :: _ => (parseU8 h).getD acc.2.2 | _ => acc.2.2
        (name, clock, ch)
      | [] => acc
    else acc
  | none => acc

def remoteAudioCap (m : Media) (pt : Nat) : ACap :=
  let r := (attrVals m.attrs "rtpmap").foldl (audioRtpmapStep pt) ([], 8000, 1)
  let r := if r.1.isEmpty then audioDefaults pt else r
  let fmtp := (attrVals m.attrs "fmtp").findSome? (fun v =>
    match ptRest v with | some (p, rest) => if p = pt then some rest else none | none => none)
  let fmtp := match fmtp with | some f => some f | none => if pt = 101 then some "0-16".toList else none
  let fbs := (attrVals m.attrs "rtcp-fb").filterMap (fun v =>
    match ptRest v with | some (p, rest) => if p = pt then some rest else none | none => none)
  ⟨pt, r.1, r.2.1, r.2.2, fmtp, fbs⟩

/-- `MediaSection::to_audio_capabilities` -/
def toAudioCaps (m : Media) : List ACap :=
  if m.kind != .audio then [] else (m.formats.filterMap parseU8).map (remoteAudioCap m)

/-- `derive_answer_audio_capabilities` -/
def deriveAnswerAudio (remote : Media) (loc : List ACap) : List ACap :=
  (toAudioCaps remote).filterMap fun rc =>
    match loc.find? (fun lc => eqIgnoreAsciiCase lc.name rc.name && lc.clock = rc.clock && lc.channels = rc.channels) with
    | some lc =>
      some { lc with pt := rc.pt, name := rc.name, clock := rc.clock, channels := rc.channels,
                     fmtp := if eqIgnoreAsciiCase rc.name "telephone-event".toList
                             then (match rc.fmtp with | some f => some f | none => lc.fmtp) else lc.fmtp }
    | none => none

/-- `reinvite_answer_audio_capabilities` (answers only): the local audio capabilities intersected with
the offered section at the same index, if that section is an audio section and the intersection is not
empty. (Round 2: taken on first negotiations too. Round 3: the section is found by index, not by mid.) -/
def reinviteAudioCaps (c : Cfg) (o : Media) : Option (List ACap) :=
  if o.kind = .audio then
    let caps := deriveAnswerAudio o c.audioCaps
    if caps.isEmpty then none else some caps
  else none

/-- `apply_audio_capabilities` -/
def applyAudioCaps (fa : List Str × List Attr) (caps : List ACap) : List Str × List Attr :=
  (caps.map (fun a => natStr a.pt),
   fa.2.filter (fun a => a.key != "rtpmap".toList && a.key != "fmtp".toList && a.key != "rtcp-fb".toList)
     ++ caps.flatMap audioCapAttrs)

/-! ### RTX (`rtx.rs`, `strip_rtx_from_section`, `merge_remote_rtx_into_answer`) -/

def stripPrefix (p s : Str) : Option Str := if p.isPrefixOf s then some (s.drop p.length) else none

/-- `rtx::parse_apt` -/
def parseApt (fmtp : Str) : Option Nat :=
  (splitOn ';' fmtp).findSome? (fun part =>
    let part := trim part
    match (match stripPrefix "apt=".toList part with | some r => some r | none => stripPrefix "APT=".toList part) with
    | some rest => some (parseU8 (trim rest))
    | none => none) |>.join

def aptInsert (e : Nat × Nat) : List (Nat × Nat) → List (Nat × Nat)
  | [] => [e]
  | d :: rest => if e.1 < d.1 then e :: d :: rest else if e.1 = d.1 then e :: rest else d :: aptInsert e rest

/-- `extract_rtx_apt_map_from_attrs`: RTX pt ↦ primary pt, sorted by RTX pt -/
def aptMap (attrs : List Attr) : List (Nat × Nat) :=
  (attrVals attrs "fmtp").foldl (fun m v =>
    match ptRest v with
    | some (pt, fmtp) => match parseApt fmtp with | some primary => aptInsert (pt, primary) m | none => m
    | none => m) []

/-- `rtx_pt_for_primary` (smallest RTX pt when several map to the primary — see header) -/
def rtxFor (m : List (Nat × Nat)) (primary : Nat) : Option Nat := (m.find? (·.2 = primary)).map (·.1)

def firstTokenU8 (v : Str) : Option Nat := match splitWs v with | t :: _ => parseU8 t | [] => none

/-- `strip_rtx_from_section` -/
def stripRtx (fa : List Str × List Attr) : List Str × List Attr :=
  let fromApt := (aptMap fa.2).map (·.1)
  let fromName := (attrVals fa.2 "rtpmap").filterMap fun v =>
    match splitWs v with
    | p :: codec :: _ =>
      match parseU8 p with
      | some pt => if eqIgnoreAsciiCase ((splitOn '/' codec).headD []) "rtx".toList then some pt else none
      | none => none
    | _ => none
  let rtxPts := fromApt ++ fromName
  if rtxPts.isEmpty then fa else
  (fa.1.filter (fun f => match parseU8 f with | some pt => !rtxPts.contains pt | none => true),
   fa.2.filter (fun a =>
     if a.key = "rtpmap".toList || a.key = "fmtp".toList || a.key = "rtcp-fb".toList then
       match a.value with
       | some v => match firstTokenU8 v with | some pt => !rtxPts.contains pt | none => true
       | none => true
     else true))

/-- clock rate `to_video_capabilities()` reports for `primary` in the remote section (90000 if absent) -/
def remoteVideoClock (m : Media) (primary : Nat) : Nat :=
  if m.kind != .video then rtxDefaultClock else
  if !(m.formats.filterMap parseU8).contains primary then rtxDefaultClock else
  let r := (attrVals m.attrs "rtpmap").foldl (fun (acc : Str × Nat) v =>
    match ptRest v with
    | some (p, rest) =>
      if p = primary then
        match splitOn '/' rest with
        | name :: more => (name, match more with | c :: _ => (parseU32 c).getD acc.2 | [] => acc.2)
        | [] => acc
      else acc
    | none => acc) ([], 90000)
  if eqIgnoreAsciiCase r.1 "rtx".toList then 90000 else r.2

/-- `merge_remote_rtx_into_answer` -/
def mergeRemoteRtx (r : Media) (fa : List Str × List Attr) : List Str × List Attr :=
  let am := aptMap r.attrs
  if am.isEmpty then fa else
  let primaries := (fa.1.filterMap parseU8).filter (fun pt => !(am.any (·.1 = pt)))
  primaries.foldl (fun fa p =>
    match rtxFor am p with
    | some rtx => appendRtx fa p rtx (remoteVideoClock r p)
    | none => fa) fa

/-! ### header extensions -/

/-- `get_remote_extmap_id` -/
def remoteExtId (r : Media) (uri : Str) : Option Str :=
  let rec go : List Attr → Option Str
    | [] => none
    | a :: rest =>
      if a.key != "extmap".toList then go rest
      else match a.value with
        | none => none                       -- `attr.value.as_ref()?` leaves the function
        | some v =>
          -- "<id> <URI> …": the URI is the second token (round-3 `fix:`; before: `val.contains(uri)`)
          match splitWs v with
          | t :: u :: _ => if u = uri then some t else go rest
          | _ => go rest
  go r.attrs

def extAttr (id : Str) (uri : Str) : Attr := attr "extmap" (id ++ sp ++ uri)

def extmapAttrs (c : Cfg) (kind : Kind) (o : Media) : List Attr :=
  (if kind = .video then
     (match remoteExtId o RID_URI with | some id => [extAttr id RID_URI] | none => []) ++
     (match remoteExtId o RRID_URI with | some id => [extAttr id RRID_URI] | none => [])
   else []) ++
  (match remoteExtId o ABS_URI with | some id => [extAttr id ABS_URI] | none => []) ++
  (if c.legacySip then [] else
     match remoteExtId o MID_URI with | some id => [extAttr id MID_URI] | none => [])

def setupAttrs (c : Cfg) (role : Option Bool) : List Attr :=
  if c.mode = .webrtc then
    [attr "setup" (match role with | some true => "active".toList | some false => "passive".toList | none => "active".toList)]
  else []

/-! ### one answer section -/

def protoFor (c : Cfg) (k : Kind) : Str :=
  match k with
  | .application => "UDP/DTLS/SCTP".toList
  | .image => "udptl".toList
  | _ => match c.mode with
    | .rtp => "RTP/AVP".toList | .srtp => "RTP/SAVP".toList | .webrtc => "UDP/TLS/RTP/SAVPF".toList

/-- `apply_config` + the answer-only codec adjustments of `populate_media_capabilities` -/
def codecPart (c : Cfg) (k : Kind) (o : Media) : List Str × List Attr :=
  match k with
  | .audio =>
    let fa := applyAudioConfig c
    match reinviteAudioCaps c o with
    | some caps => applyAudioCaps fa caps
    | none => fa
  | .video => mergeRemoteRtx o (stripRtx (applyVideoConfig c))
  | .application => (["webrtc-datachannel".toList], [attr "sctp-port" (natStr c.sctpPort)])
  | .image => ((imageCaps c).map (fun t => natStr t.pt), (imageCaps c).flatMap t38AttrsOf)

def secHasMux (s : Media) : Bool := s.attrs.any (fun a => a.key = "rtcp-mux".toList)

/-- `populate_media_capabilities(.., Answer)` followed by the rtcp-mux retain (`o` offered `a=rtcp-mux`?) -/
def capabilities (c : Cfg) (k : Kind) (o : Media) (role : Option Bool) : List Str × List Attr :=
  let fa := codecPart c k o
  -- `a=setup` (with `a=fingerprint`) is pushed with the transport attributes, BEFORE the codec attributes
  -- (round-3 `fix:` "attributes in the order the serialiser writes them")
  let attrs := setupAttrs c role ++ fa.2 ++ extmapAttrs c k o
  (fa.1, if secHasMux o then attrs else attrs.filter (fun a => a.key != "rtcp-mux".toList))

/-- the answer section built from transceiver `t` for the offered section `o`; `mid` = the transceiver's mid -/
def answerSection (c : Cfg) (t : TrxView) (o : Media) (role : Option Bool) (mid : Str) : Media :=
  let fa := capabilities c t.kind o role
  { kind := t.kind, mid, port := newSectionPort, proto := protoFor c t.kind, formats := fa.1,
    dir := finalDirection t o, attrs := fa.2, connection := none }

/-! ### the description -/

def findIdxFrom (p : Nat → TrxView → Bool) : List TrxView → Nat → Option Nat
  | [], _ => none
  | t :: rest, i => if p i t then some i else findIdxFrom p rest (i + 1)

/-- section → transceiver matching, in the offer's order: for every offered section the index of the
transceiver that answers it, paired with that section (the answer's i-th section responds to the offer's
i-th section); `none` = "No transceiver found for mid … in answer generation" -/
def answerOrder (ts : List TrxView) : List Media → List Nat → List (Nat × Media) → Option (List (Nat × Media))
  | [], _, acc => some acc.reverse
  | s :: rest, used, acc =>
    let found :=
      if !s.mid.isEmpty then findIdxFrom (fun i t => !used.contains i && t.kind = s.kind && t.mid = some s.mid) ts 0
      else findIdxFrom (fun i t => !used.contains i && t.kind = s.kind) ts 0
    match found with
    | some i => answerOrder ts rest (i :: used) ((i, s) :: acc)
    | none => none

def offeredBundle (sessionAttrs : List Attr) : Bool :=
  sessionAttrs.any fun a => a.key = "group".toList &&
    (match a.value with | some v => startsWith v "BUNDLE".toList | none => false)

inductive AErr | noTransceivers | noRemote | noMatch
deriving DecidableEq, Repr

structure Answer where
  group : Option Str           -- value of the `a=group` attribute, when emitted
  sections : List Media
deriving DecidableEq, Repr

/-- the section loop: `ensure_mid` then build; `mids` are allocated from `nextMid` in loop order -/
def buildSections (c : Cfg) (ts : List TrxView) (role : Option Bool) :
    List (Nat × Media) → Nat → List Media → List Media
  | [], _, acc => acc.reverse
  | (i, o) :: rest, nextMid, acc =>
    match ts[i]? with
    | none => buildSections c ts role rest nextMid acc
    | some t =>
      let (mid, nextMid') := match t.mid with
        | some m => (m, nextMid)
        | none => (natStr nextMid, (nextMid + 1) % 65536)
      buildSections c ts role rest nextMid' (answerSection c t o role mid :: acc)

def answer (c : Cfg) (ts : List TrxView) (nextMid : Nat) (role : Option Bool)
    (remote : Option Desc) : Except AErr Answer :=
  if ts.isEmpty then .error .noTransceivers else
  match remote with
  | none => .error .noRemote
  | some r =>
    match answerOrder ts r.media [] [] with
    | none => .error .noMatch
    | some order =>
      let secs := buildSections c ts role order nextMid []
      let willBundle := !c.legacySip && offeredBundle r.session.attrs
      let group := if !secs.isEmpty && willBundle then
          some ("BUNDLE ".toList ++ join sp (secs.map (·.mid))) else none
      let secs := if c.legacySip then secs.map (fun s => { s with mid := [] })
        else if !willBundle && secs.length > 1 then secs.map (fun s => { s with mid := [] })
        else secs
      .ok { group, sections := secs }

/-! ### validity of an answer (RFC 3264 / JSEP, as far as property C08 states it) -/

def extIds (m : Media) : List Str :=
  (attrVals m.attrs "extmap").filterMap (fun v => (splitWs v).head?)

def hasAttr (m : Media) (k : String) : Bool := m.attrs.any (fun a => a.key = k.toList)

def setupOf (m : Media) : Option Str := (attrVals m.attrs "setup").head?

def dirCompatible (offer ans : Dir) : Bool :=
  match offer with
  | .sendrecv => true
  | .sendonly => ans = .recvonly || ans = .inactive
  | .recvonly => ans = .sendonly || ans = .inactive
  | .inactive => ans = .inactive

/-- the answerer's `setup` is one the offerer can accept (RFC 5763 / 4145) -/
def setupCompatible (offer : Option Str) (ans : Str) : Bool :=
  if ans = "actpass".toList then false
  else match offer with
    | some o =>
      if o = "active".toList then ans = "passive".toList
      else if o = "passive".toList then ans = "active".toList
      else ans = "active".toList || ans = "passive".toList
    | none => ans = "active".toList || ans = "passive".toList

def groupMids (v : Str) : List Str := (splitWs v).drop 1

def offerGroup (sessionAttrs : List Attr) : Option Str :=
  (sessionAttrs.find? (fun a => a.key = "group".toList &&
    (match a.value with | some v => startsWith v "BUNDLE".toList | none => false))).bind (·.value)

/-- per-section clauses -/
def secAligned (o a : Media) : Bool := o.kind = a.kind && o.mid = a.mid
def secPtsOk (o a : Media) : Bool := a.formats.all (fun f => o.formats.contains f)
def secRtxOk (o a : Media) : Bool := (aptMap a.attrs).all (fun p => (aptMap o.attrs).contains p)
/-- `(id token, URI)` of every `a=extmap` -/
def extPairs (m : Media) : List (Str × Str) :=
  (attrVals m.attrs "extmap").filterMap (fun v => match splitWs v with | i :: u :: _ => some (i, u) | _ => none)
/-- only offered extension ids — an id is offered FOR A URI: the answer keeps the offered (id, URI) binding
(RFC 8285 §6) — and no duplicate ids -/
def secExtOk (o a : Media) : Bool :=
  (extIds a).all (fun i => (extIds o).contains i) && (extPairs a).all (fun p => (extPairs o).contains p) && (extIds a).Nodup
def secMuxOk (o a : Media) : Bool := !hasAttr a "rtcp-mux" || hasAttr o "rtcp-mux"
def secDirOk (o a : Media) : Bool := dirCompatible o.dir a.dir
def secSetupOk (o a : Media) : Bool :=
  match setupOf a with | some s => setupCompatible (setupOf o) s | none => true

/-- the offerer's `a=setup` for a section: media level, else session level (RFC 8866: a session-level
attribute applies to every section that does not override it) -/
def sessionSetup (sess : List Attr) : Option Str := (sess.find? (fun a => a.key = "setup".toList)).bind (·.value)
def offeredSetup (sess : List Attr) (o : Media) : Option Str :=
  match setupOf o with | some v => some v | none => sessionSetup sess
def secSetupOkS (sess : List Attr) (o a : Media) : Bool :=
  match setupOf a with | some s => setupCompatible (offeredSetup sess o) s | none => true

/-- `(payload type, codec name, clock)` of every `a=rtpmap` -/
def bindings (m : Media) : List (Str × Str × Str) :=
  (attrVals m.attrs "rtpmap").filterMap fun v =>
    match splitOnce ' ' v with
    | none => none
    | some (pt, rest) =>
      match splitOn '/' (trim rest) with
      | n :: c :: _ => some (pt, n, c)
      | [n] => some (pt, n, [])
      | [] => none

/-- reported separately (NOT a conjunct of `validAnswer`, the property speaks of payload type numbers only):
an offered payload type that the answer uses is bound to the codec the offer bound it to -/
def secBindOk (o a : Media) : Bool :=
  (bindings a).all fun x => !o.formats.contains x.1 ||
    (bindings o).all fun y => y.1 != x.1 || (eqIgnoreAsciiCase y.2.1 x.2.1 && y.2.2 = x.2.2)

def secValid (o a : Media) : Bool :=
  secAligned o a && secPtsOk o a && secRtxOk o a && secExtOk o a && secMuxOk o a && secDirOk o a && secSetupOk o a

def bundleOk (offerAttrs : List Attr) (a : Answer) : Bool :=
  match a.group with
  | none => true
  | some g =>
    match offerGroup offerAttrs with
    | some og => (groupMids g).all (fun m => (groupMids og).contains m)
    | none => false

def zipAll (f : Media → Media → Bool) : List Media → List Media → Bool
  | [], [] => true
  | o :: os, a :: as => f o a && zipAll f os as
  | _, _ => false

/-- **ValidAnswer** -/
def validAnswer (offer : Desc) (a : Answer) : Bool :=
  zipAll secValid offer.media a.sections && bundleOk offer.session.attrs a &&
    zipAll (secSetupOkS offer.session.attrs) offer.media a.sections

end RtcModel.Answer
