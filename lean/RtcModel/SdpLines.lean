/-
Model of the SDP parser / printer of `src/sdp.rs`
(`SessionDescription::parse`, `to_sdp_string`, `SessionSection::write_lines`,
`MediaSection::{from_m_line, apply_attribute, write_lines}`, `Attribute::{from_line, write_line}`,
`Origin::parse`, `Timing::parse`).

Two levels:
* character level — `Attr`, the m-line, `o=`, `t=`: text ↔ structure;
* line level — a description is printed as a list of lines `prefix=value` and parsed back from it;
  `printText` / `parseText` add the CRLF framing (`str::lines()`, `trim()`, `split_once('=')`).

The printer is NOT the inverse of the parser on attribute order: `MediaSection::write_lines` emits
the transport attributes (`ice-ufrag`, `ice-pwd`, `fingerprint`, `setup`, `candidate`) before
`a=mid` and the direction, all others after (a stable partition) — `norm`.

Core Lean only (linked into `rtcdrv`).
-/
import RtcModel.Base.C08Text

namespace RtcModel.SdpLines
open RtcModel.Text

/-! ### attributes -/

structure Attr where
  key : Str
  value : Option Str
deriving DecidableEq, Repr

/-- `Attribute::from_line` (argument: the text after `a=`) -/
def Attr.fromLine (line : Str) : Attr :=
  match splitOnce ':' line with
  | some (k, v) => ⟨k, some v⟩
  | none => ⟨line, none⟩

/-- the text after `a=` written by `Attribute::write_line` -/
def Attr.text (a : Attr) : Str :=
  match a.value with
  | some v => a.key ++ ':' :: v
  | none => a.key

/-! ### media kind / direction -/

inductive Kind | audio | video | application | image
deriving DecidableEq, Repr

def Kind.str : Kind → Str
  | .audio => "audio".toList | .video => "video".toList
  | .application => "application".toList | .image => "image".toList

def Kind.parse (s : Str) : Option Kind :=
  if s = "audio".toList then some .audio
  else if s = "video".toList then some .video
  else if s = "application".toList then some .application
  else if s = "image".toList then some .image
  else none

inductive Dir | sendrecv | sendonly | recvonly | inactive
deriving DecidableEq, Repr

def Dir.str : Dir → Str
  | .sendrecv => "sendrecv".toList | .sendonly => "sendonly".toList
  | .recvonly => "recvonly".toList | .inactive => "inactive".toList

/-- `Direction::from_attribute` -/
def Dir.parse (s : Str) : Option Dir :=
  if s = "sendrecv".toList then some .sendrecv
  else if s = "sendonly".toList then some .sendonly
  else if s = "recvonly".toList then some .recvonly
  else if s = "inactive".toList then some .inactive
  else none

/-! ### structures -/

structure Media where
  kind : Kind
  mid : Str
  port : Nat
  proto : Str
  formats : List Str
  dir : Dir
  attrs : List Attr
  connection : Option Str
deriving DecidableEq, Repr

structure Origin where
  username : Str
  sessionId : Nat
  sessionVersion : Nat
  ipv6 : Bool
  address : Str
deriving DecidableEq, Repr

structure Session where
  version : Nat
  origin : Origin
  name : Str
  start : Nat
  stop : Nat
  connection : Option Str
  attrs : List Attr
deriving DecidableEq, Repr

structure Desc where
  session : Session
  media : List Media
deriving DecidableEq, Repr

inductive PErr
  | invalidLine | badVersion | badOrigin | badTiming | badMedia
  | missingV | missingO | missingS | missingT
deriving DecidableEq, Repr

/-! ### character level: `o=`, `t=`, `m=` -/

def sp : Str := [' ']

def Origin.text (o : Origin) : Str :=
  o.username ++ sp ++ natStr o.sessionId ++ sp ++ natStr o.sessionVersion ++ sp ++ "IN".toList ++ sp ++
    (if o.ipv6 then "IP6".toList else "IP4".toList) ++ sp ++ o.address

def upperAscii (c : Char) : Char := if 'a' ≤ c && c ≤ 'z' then Char.ofNat (c.toNat - 32) else c

/-- `Origin::parse` -/
def Origin.parse (v : Str) : Option Origin :=
  match splitWs v with
  | u :: sid :: sv :: nt :: aty :: addr :: _ =>
    match parseU64 sid, parseU64 sv with
    | some sid, some sv =>
      if nt = "IN".toList ∨ nt = "in".toList then
        let atU := aty.map upperAscii
        if atU = "IP4".toList then some ⟨u, sid, sv, false, addr⟩
        else if atU = "IP6".toList then some ⟨u, sid, sv, true, addr⟩
        else none
      else none
    | _, _ => none
  | _ => none

/-- `Timing::parse` -/
def parseTiming (v : Str) : Option (Nat × Nat) :=
  match splitWs v with
  | a :: b :: _ =>
    match parseU64 a, parseU64 b with
    | some a, some b => some (a, b)
    | _, _ => none
  | _ => none

def timingText (a b : Nat) : Str := natStr a ++ sp ++ natStr b

def mLineText (m : Media) : Str :=
  m.kind.str ++ sp ++ natStr m.port ++ sp ++ m.proto ++ sp ++ join sp m.formats

/-- `MediaSection::from_m_line` -/
def parseMLine (v : Str) : Option Media :=
  match splitWs v with
  | k :: port :: proto :: f :: fs =>
    match Kind.parse k, parseU16 port with
    | some k, some port =>
      some { kind := k, mid := [], port, proto, formats := f :: fs, dir := .sendrecv, attrs := [], connection := none }
    | _, _ => none
  | _ => none

/-! ### line level -/

structure Line where
  pre : Str
  value : Str
deriving DecidableEq, Repr

def aLine (a : Attr) : Line := ⟨['a'], a.text⟩

def isTransportKey (k : Str) : Bool :=
  k = "ice-ufrag".toList || k = "ice-pwd".toList || k = "fingerprint".toList || k = "setup".toList ||
  k = "candidate".toList

/-- `SessionSection::write_lines` -/
def printSession (s : Session) : List Line :=
  [⟨['v'], natStr s.version⟩, ⟨['o'], s.origin.text⟩, ⟨['s'], s.name⟩] ++
  (match s.connection with | some c => [⟨['c'], c⟩] | none => []) ++
  [⟨['t'], timingText s.start s.stop⟩] ++ s.attrs.map aLine

/-- `MediaSection::write_lines` -/
def printMedia (m : Media) : List Line :=
  [⟨['m'], mLineText m⟩] ++
  (match m.connection with | some c => [⟨['c'], c⟩] | none => []) ++
  (m.attrs.filter (fun a => isTransportKey a.key)).map aLine ++
  (if m.mid.isEmpty then [] else [⟨['a'], "mid:".toList ++ m.mid⟩]) ++
  [⟨['a'], m.dir.str⟩] ++
  (m.attrs.filter (fun a => !isTransportKey a.key)).map aLine

def print (d : Desc) : List Line := printSession d.session ++ d.media.flatMap printMedia

/-- `MediaSection::apply_attribute` -/
def applyAttr (m : Media) (a : Attr) : Media :=
  match Dir.parse a.key with
  | some d => { m with dir := d }
  | none =>
    if a.key = "mid".toList then
      match a.value with
      | some v => { m with mid := v }
      | none => m
    else if a.key = "connection".toList then { m with connection := a.value }
    else { m with attrs := m.attrs ++ [a] }

structure PState where
  session : Session
  cur : Option Media
  done : List Media           -- finished sections, in order
  sawV : Bool
  sawO : Bool
  sawS : Bool
  sawT : Bool
deriving DecidableEq, Repr

def Session.default : Session :=
  { version := 0, origin := ⟨['-'], 0, 0, false, "0.0.0.0".toList⟩, name := ['-'], start := 0, stop := 0,
    connection := none, attrs := [] }

def PState.init : PState :=
  { session := Session.default, cur := none, done := [], sawV := false, sawO := false, sawS := false, sawT := false }

/-- one line of the `for` loop in `SessionDescription::parse` -/
def parseLine (st : PState) (l : Line) : Except PErr PState :=
  if l.pre = ['v'] then
    match parseU8 l.value with
    | some v => .ok { st with session := { st.session with version := v }, sawV := true }
    | none => .error .badVersion
  else if l.pre = ['o'] then
    match Origin.parse l.value with
    | some o => .ok { st with session := { st.session with origin := o }, sawO := true }
    | none => .error .badOrigin
  else if l.pre = ['s'] then .ok { st with session := { st.session with name := l.value }, sawS := true }
  else if l.pre = ['t'] then
    match parseTiming l.value with
    | some (a, b) => .ok { st with session := { st.session with start := a, stop := b }, sawT := true }
    | none => .error .badTiming
  else if l.pre = ['c'] then
    match st.cur with
    | some m => .ok { st with cur := some { m with connection := some l.value } }
    | none => .ok { st with session := { st.session with connection := some l.value } }
  else if l.pre = ['a'] then
    let a := Attr.fromLine l.value
    match st.cur with
    | some m => .ok { st with cur := some (applyAttr m a) }
    | none => .ok { st with session := { st.session with attrs := st.session.attrs ++ [a] } }
  else if l.pre = ['m'] then
    match parseMLine l.value with
    | some m =>
      .ok { st with cur := some m, done := match st.cur with | some c => st.done ++ [c] | none => st.done }
    | none => .error .badMedia
  else
    .ok { st with session := { st.session with attrs := st.session.attrs ++ [⟨l.pre, some l.value⟩] } }

def parseLines : PState → List Line → Except PErr PState
  | st, [] => .ok st
  | st, l :: ls =>
    match parseLine st l with
    | .ok st' => parseLines st' ls
    | .error e => .error e

def finish (st : PState) : Except PErr Desc :=
  if !st.sawV then .error .missingV
  else if !st.sawO then .error .missingO
  else if !st.sawS then .error .missingS
  else if !st.sawT then .error .missingT
  else .ok { session := st.session, media := match st.cur with | some c => st.done ++ [c] | none => st.done }

def parse (ls : List Line) : Except PErr Desc :=
  match parseLines PState.init ls with
  | .ok st => finish st
  | .error e => .error e

/-! ### text framing -/

def printText (ls : List Line) : Str :=
  ls.flatMap (fun l => l.pre ++ '=' :: l.value ++ ['\r', '\n'])

/-- `str::lines()`: split at `\n`, drop one trailing `\r`, no final empty line -/
def textLines (s : Str) : List Str :=
  let raw := splitOn '\n' s
  let raw := match raw.reverse with
    | [] :: rest => rest.reverse
    | _ => raw
  raw.map (fun l => match l.reverse with | '\r' :: r => r.reverse | _ => l)

/-- text → lines as the parser sees them (`trim`, skip empty, `split_once('=')`); `none` = "invalid SDP line" -/
def linesOfText (s : Str) : Option (List Line) :=
  ((textLines s).map trim).filter (fun l => !l.isEmpty) |>.mapM (fun l =>
    match splitOnce '=' l with
    | some (p, v) => some ⟨p, v⟩
    | none => none)

/-- the lines before the first one without `=` -/
def goodPrefix : List Str → List Line
  | [] => []
  | l :: rest => match splitOnce '=' l with | some (p, v) => ⟨p, v⟩ :: goodPrefix rest | none => []

/-- `SessionDescription::parse`. Errors are reported in LINE ORDER: when some line has no `=`, an error
raised by a line before it (bad `v=`, `o=`, `t=`, `m=`) wins over "invalid SDP line". -/
def parseText (s : Str) : Except PErr Desc :=
  match linesOfText s with
  | some ls => parse ls
  | none =>
    match parseLines PState.init (goodPrefix (((textLines s).map trim).filter (fun l => !l.isEmpty))) with
    | .error e => .error e
    | .ok _ => .error .invalidLine

/-! ### normal form -/

def normMedia (m : Media) : Media :=
  { m with attrs := m.attrs.filter (fun a => isTransportKey a.key) ++ m.attrs.filter (fun a => !isTransportKey a.key) }

/-- what a description becomes after one print / parse trip: transport attributes first -/
def norm (d : Desc) : Desc := { d with media := d.media.map normMedia }

end RtcModel.SdpLines
