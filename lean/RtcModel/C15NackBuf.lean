/-
C15 — NACK send buffer (`NackSendBuffer` + `DefaultRtpSenderNackHandler::packets_for_nack`) and
receiver gap detection (`DefaultRtpReceiverNackHandler::on_packet_received`) of
`src/peer_connection.rs`.  Packets are abstracted to (sequence number, tag); time is in
milliseconds.  The hash-order eviction of `pending_nacks` beyond 256 entries is nondeterministic in
the code and is NOT modelled: `GapSt.step` is only claimed for histories that keep the pending set
at or below `2 * MAX_RECEIVER_NACK_GAP` (the harness truncates traces accordingly).
-/
import RtcModel.Base.C15Bytes
import RtcModel.Generated.Consts

namespace RtcModel.C15
open RtcModel.Generated

/-! ### sender side -/

structure NackBuf where
  maxSize : Nat                       -- `max_size.max(1)`
  order : List UInt16                 -- FIFO, oldest first
  packets : List (UInt16 × Nat)       -- the HashMap seq → packet(tag)
  recent : List (UInt16 × Nat)        -- `recent_resends`: seq → time of last accepted resend (ms)
  rtxSsrc : UInt32 := 0               -- `rtx_ssrc_fast` (lock-free copy for `on_packet_sent`; 0 when RTX is off)
  rtxOn : Bool := false               -- `rtx_config.is_some()` (what `on_rtcp_received` tests)
  rtxCtr : UInt16 := 0                -- `rtx_seq` (random start in the code; relative here)
  deriving Repr

def NackBuf.new (maxSize : Nat) : NackBuf := ⟨max maxSize 1, [], [], [], 0, false, 0⟩

def mapGet : List (UInt16 × Nat) → UInt16 → Option Nat
  | [], _ => none
  | (k, v) :: m, s => if k = s then some v else mapGet m s

def mapErase : List (UInt16 × Nat) → UInt16 → List (UInt16 × Nat)
  | [], _ => []
  | (k, v) :: m, s => if k = s then mapErase m s else (k, v) :: mapErase m s

def mapSet (m : List (UInt16 × Nat)) (s : UInt16) (v : Nat) : List (UInt16 × Nat) := (s, v) :: mapErase m s

/-- `while self.order.len() > max_size { pop_front; remove }` -/
def evict (maxSize : Nat) : List UInt16 → List (UInt16 × Nat) → List UInt16 × List (UInt16 × Nat)
  | [], m => ([], m)
  | o :: os, m => if (o :: os).length > maxSize then evict maxSize os (mapErase m o) else (o :: os, m)

/-- `NackSendBuffer::push` -/
def NackBuf.push (b : NackBuf) (seq : UInt16) (tag : Nat) : NackBuf :=
  if (mapGet b.packets seq).isSome then { b with packets := mapSet b.packets seq tag }
  else
    let r := evict b.maxSize (b.order ++ [seq]) (mapSet b.packets seq tag)
    { b with order := r.1, packets := r.2 }

/-- `NACK_RESEND_COOLDOWN` in milliseconds -/
def cooldownMs : Nat := c15CooldownMs

/-- the selection loop of `packets_for_nack` -/
def selectLoop (pk : List (UInt16 × Nat)) (now : Nat) :
    List UInt16 → List UInt16 → List (UInt16 × Nat) → List (UInt16 × Nat) → List (UInt16 × Nat) × List (UInt16 × Nat)
  | [], _, recent, out => (out.reverse, recent)
  | s :: rest, seen, recent, out =>
    if seen.contains s then selectLoop pk now rest seen recent out
    else
      let seen := s :: seen
      match mapGet recent s with
      | some last =>
        if now - last < cooldownMs then selectLoop pk now rest seen recent out
        else match mapGet pk s with
          | some t => selectLoop pk now rest seen (mapSet recent s now) ((s, t) :: out)
          | none => selectLoop pk now rest seen recent out
      | none =>
        match mapGet pk s with
        | some t => selectLoop pk now rest seen (mapSet recent s now) ((s, t) :: out)
        | none => selectLoop pk now rest seen recent out

/-- `packets_for_nack`: the selection loop, then the cooldown map is pruned once it outgrows twice the
buffer size (entries older than the cooldown are dropped) -/
def NackBuf.select (b : NackBuf) (now : Nat) (seqs : List UInt16) : List (UInt16 × Nat) × List (UInt16 × Nat) :=
  let r := selectLoop b.packets now seqs [] b.recent []
  let recent := if r.2.length > b.maxSize * c15RecentFactor then r.2.filter (fun e => now - e.2 < cooldownMs) else r.2
  (r.1, recent)

/-- the retransmission loop of `on_rtcp_received`: with RTX enabled every resent packet is wrapped with the
next RTX sequence number -/
def respondRtx (rtx : Bool) (ctr : UInt16) : List (UInt16 × Nat) → List (UInt16 × Nat × Option UInt16) × UInt16
  | [] => ([], ctr)
  | (s, t) :: rest =>
    if rtx then let r := respondRtx rtx (ctr + 1) rest; ((s, t, some ctr) :: r.1, r.2)
    else let r := respondRtx rtx ctr rest; ((s, t, none) :: r.1, r.2)

inductive BufOp where
  | push (seq : UInt16) (tag : Nat)
  | sent (ssrc : UInt32) (seq : UInt16) (tag : Nat)   -- `on_packet_sent` of a packet with this SSRC
  | setRtx (cfg : Option UInt32)                      -- `set_rtx(Some{rtx_ssrc, ..})` / `set_rtx(None)`
  | query (now : Nat) (seqs : List UInt16)
  | nack (now : Nat) (seqs : List UInt16)             -- `on_rtcp_received(GenericNack)`
  deriving Repr

inductive BufOut where
  | len (n : Nat)
  | got (xs : List (UInt16 × Nat))
  | resent (xs : List (UInt16 × Nat × Option UInt16))
  deriving Repr

def NackBuf.step (b : NackBuf) : BufOp → NackBuf × BufOut
  | .push s t => let b' := b.push s t; (b', .len b'.packets.length)
  | .sent ssrc s t =>
    -- RTX retransmissions are never buffered
    let b' := if b.rtxSsrc ≠ 0 ∧ ssrc = b.rtxSsrc then b else b.push s t
    (b', .len b'.packets.length)
  | .setRtx cfg => ({ b with rtxSsrc := cfg.getD 0, rtxOn := cfg.isSome }, .len b.packets.length)
  | .query now seqs =>
    let r := b.select now seqs
    ({ b with recent := r.2 }, .got r.1)
  | .nack now seqs =>
    let r := b.select now seqs
    let w := respondRtx b.rtxOn b.rtxCtr r.1
    ({ b with recent := r.2, rtxCtr := w.2 }, .resent w.1)

/-- state after a sequence of operations -/
def bufFinal (b : NackBuf) : List BufOp → NackBuf
  | [] => b
  | o :: os => bufFinal (b.step o).1 os

def bufRun (b : NackBuf) : List BufOp → List BufOut
  | [] => []
  | o :: os => let r := b.step o; r.2 :: bufRun r.1 os

/-! ### receiver side -/

structure GapSt where
  lastSeq : UInt16
  lastSsrc : UInt32
  initialized : Bool
  pending : List UInt16
  /-- the pending set once outgrew `2 * MAX_RECEIVER_NACK_GAP`: the code then drops `len - MAX_RECEIVER_NACK_GAP`
  entries in `HashSet` iteration order — WHICH ones is unspecified, so from here on only the size of the set
  is claimed (the list below keeps the newest entries as a placeholder) -/
  overflowed : Bool := false
  deriving Repr

def GapSt.init : GapSt := ⟨0, 0, false, [], false⟩

/-- `lost`: the sequence numbers `first, first+1, …` (`n` of them, wrapping) -/
def seqRun (first : UInt16) : Nat → List UInt16
  | 0 => []
  | n + 1 => first :: seqRun (first + 1) n

/-- `on_packet_received`; output = the `lost_packets` of the returned NACK, if any -/
def GapSt.step (st : GapSt) (ssrc : UInt32) (seq : UInt16) : GapSt × Option (List UInt16) :=
  if st.lastSsrc ≠ 0 ∧ st.lastSsrc ≠ ssrc then
    ({ st with lastSsrc := ssrc, lastSeq := seq, pending := [] }, none)
  else if !st.initialized then
    ({ st with initialized := true, lastSsrc := ssrc, lastSeq := seq }, none)
  else if st.pending.contains seq then
    ({ st with pending := st.pending.filter (· != seq) }, none)
  else
    let diff := (seq - st.lastSeq).toNat
    if diff > 1 ∧ diff < c15GapHalf then
      let gap := diff - 1
      let skip := gap - c15MaxReceiverNackGap                      -- saturating_sub
      let first := st.lastSeq + 1 + UInt16.ofNat skip
      let lost := seqRun first (gap - skip)
      let np := st.pending ++ lost.filter (fun x => !st.pending.contains x)
      if np.length > c15MaxReceiverNackGap * c15PendingFactor then
        ({ st with lastSeq := seq, pending := np.drop (np.length - c15MaxReceiverNackGap), overflowed := true }, some lost)
      else ({ st with lastSeq := seq, pending := np }, some lost)
    else if diff < c15GapHalf then ({ st with lastSeq := seq }, none)
    else (st, none)

/-- per packet: the NACK list (if any) and the size of the pending set afterwards -/
def gapRun (st : GapSt) : List (UInt32 × UInt16) → List (Option (List UInt16) × Nat)
  | [] => []
  | (a, q) :: rest => let r := st.step a q; (r.2, r.1.pending.length) :: gapRun r.1 rest

end RtcModel.C15
