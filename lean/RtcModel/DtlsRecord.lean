/-
Model of the DTLS record layer of rustrtc (`src/transports/dtls/record.rs`, and in
`src/transports/dtls/mod.rs`: `try_decrypt_record`, `decrypt_record_with_cipher`, `make_aad`,
`encrypt_record`, `DtlsTransport::send` / `send_record`, the close-notify alert of the run loop).
Core Lean only: linked into `rtcdrv`.

The AEAD (AES-128-GCM in the code) is abstract: a structure *parameter* with law fields.
Everything around it — header parsing, the order of the checks, nonce = iv ‖ explicit nonce taken
from the *payload*, AAD = epoch ‖ seq ‖ type ‖ version ‖ length taken from the *header*, sequence
number allocation — follows the code statement by statement.
-/
import RtcModel.Generated.Consts

namespace RtcModel.DtlsRecord
open RtcModel.Generated

abbrev Bytes := List UInt8

/-! ### big-endian helpers (the `as u16` / `put_uint(_, 6)` truncations are the `% 256`s) -/

def byteAt (n k : Nat) : UInt8 := UInt8.ofNat (n / 256 ^ k % 256)
def be16 (n : Nat) : Bytes := [byteAt n 1, byteAt n 0]
def be48 (n : Nat) : Bytes := [byteAt n 5, byteAt n 4, byteAt n 3, byteAt n 2, byteAt n 1, byteAt n 0]
def be64 (n : Nat) : Bytes :=
  [byteAt n 7, byteAt n 6, byteAt n 5, byteAt n 4, byteAt n 3, byteAt n 2, byteAt n 1, byteAt n 0]
def beVal (bs : Bytes) : Nat := bs.foldl (fun a b => a * 256 + b.toNat) 0

/-! ### records -/

structure Rec where
  ctype : Nat          -- content type byte (20..24 after `decodeRec`)
  vmaj  : UInt8
  vmin  : UInt8
  epoch : Nat          -- u16
  seq   : Nat          -- 48 bit
  body  : Bytes
deriving DecidableEq, Repr

/-- `ContentType::try_from` -/
def validCtype (t : Nat) : Bool :=
  t == dtlsCtChangeCipherSpec || t == dtlsCtAlert || t == dtlsCtHandshake ||
  t == dtlsCtApplicationData || t == dtlsCtHeartbeat

/-- outcomes of `DtlsRecord::decode`: `Ok(None)`, `Err`, `Ok(Some(record))` + remaining bytes -/
inductive Dec where
  | short
  | bad
  | ok (r : Rec) (rest : Bytes)
deriving Repr

/-- `DtlsRecord::decode`: 13-byte header needed (else `Ok(None)`), content type checked first
(else `Err`), then the declared length must be present (else `Ok(None)`). -/
def decodeRec : Bytes → Dec
  | t :: ma :: mi :: e0 :: e1 :: s0 :: s1 :: s2 :: s3 :: s4 :: s5 :: l0 :: l1 :: rest =>
    if validCtype t.toNat then
      let len := beVal [l0, l1]
      if rest.length < len then .short
      else .ok ⟨t.toNat, ma, mi, beVal [e0, e1], beVal [s0, s1, s2, s3, s4, s5], rest.take len⟩
                (rest.drop len)
    else .bad
  | _ => .short

/-- `DtlsRecord::encode` (sequence number and length truncated as the code does) -/
def encodeRec (r : Rec) : Bytes :=
  [UInt8.ofNat r.ctype, r.vmaj, r.vmin] ++ be16 r.epoch ++ be48 r.seq ++ be16 r.body.length ++ r.body

/-! ### AEAD parameter, nonce and AAD -/

/-- tag length of the AEAD as the code assumes it (send side constant) -/
abbrev tagLen : Nat := dtlsSendTagLen
abbrev explicitLen : Nat := dtlsSendExplicitNonceLen

/-- Abstract AEAD: `seal key nonce aad plaintext = ciphertext ‖ tag`,
`open key nonce aad (ciphertext ‖ tag)`.  Law fields only; no security assumption is a field. -/
abbrev DecFn := Bytes → Bytes → Bytes → Bytes → Option Bytes

structure Aead where
  enc : Bytes → Bytes → Bytes → Bytes → Bytes
  dec : DecFn
  dec_enc : ∀ k n a p, dec k n a (enc k n a p) = some p
  enc_length : ∀ k n a p, (enc k n a p).length = p.length + tagLen

/-- one direction's record protection key material (`*_write_key`, `*_write_iv`) -/
structure DirKeys where
  key : Bytes
  iv  : Bytes
deriving DecidableEq, Repr

/-- `((epoch as u64) << 48) | seq` -/
def fullSeq (epoch seq : Nat) : Nat := (epoch <<< dtlsSeqShift) ||| seq

/-- `make_aad(seq, content_type, version, length)` -/
def mkAad (full : Nat) (ctype : Nat) (vmaj vmin : UInt8) (len : Nat) : Bytes :=
  be64 full ++ [UInt8.ofNat ctype, vmaj, vmin] ++ be16 len

/-- nonce = 4-byte write IV ‖ 8 explicit bytes -/
def mkNonce (iv explicit : Bytes) : Bytes := iv ++ explicit

/-- the (nonce, aad) pair under which an epoch ≥ 1 record is opened: the nonce's explicit part
comes from the first 8 payload bytes, the AAD from the header fields and the payload length. -/
def rxNonce (k : DirKeys) (r : Rec) : Bytes := mkNonce k.iv (r.body.take explicitLen)
def rxAad (r : Rec) : Bytes :=
  mkAad (fullSeq r.epoch r.seq) r.ctype r.vmaj r.vmin (r.body.length - (dtlsOpenMinExplicit + dtlsOpenMinTag))

/-- `decrypt_record_with_cipher` (and the equivalent `decrypt_record`): too short → error;
otherwise AEAD-open of everything after the explicit nonce. -/
def openRec (dec : DecFn) (k : DirKeys) (r : Rec) : Option Bytes :=
  if r.body.length < dtlsOpenMinExplicit + dtlsOpenMinTag then none
  else dec k.key (rxNonce k r) (rxAad r) (r.body.drop explicitLen)

/-- `try_decrypt_record`: epoch 0 ⇒ the payload as is; otherwise the read-direction keys are needed
and the record must open.  `none` = the `Err` that makes the caller stop with this datagram. -/
def tryDecrypt (dec : DecFn) (keys : Option DirKeys) (r : Rec) : Option Bytes :=
  if r.epoch = 0 then some r.body
  else match keys with
    | none => none
    | some k => openRec dec k r

/-! ### send side -/

/-- `encrypt_record` / the in-place sealing of `send_record`: explicit nonce (the 64-bit
epoch‖seq) ‖ ciphertext ‖ tag -/
def sealPayload (A : Aead) (k : DirKeys) (ctype : Nat) (full : Nat) (p : Bytes) : Bytes :=
  be64 full ++ A.enc k.key (mkNonce k.iv (be64 full)) (mkAad full ctype dtls12Major.toUInt8 dtls12Minor.toUInt8 p.length) p

/-- a protected record as put on the wire by `send_record`, `build_handshake_record` (epoch > 0)
and the close-notify path: header ‖ explicit nonce ‖ ciphertext ‖ tag -/
def sealedRec (A : Aead) (k : DirKeys) (ctype epoch seq : Nat) (p : Bytes) : Rec :=
  ⟨ctype, dtls12Major.toUInt8, dtls12Minor.toUInt8, epoch, seq, sealPayload A k ctype (fullSeq epoch seq) p⟩

/-- `data.chunks(MAX_APP_DATA_RECORD_SIZE)`: an empty payload yields no chunk at all. -/
def chunks (n : Nat) (fuel : Nat) (d : Bytes) : List Bytes :=
  match fuel with
  | 0 => []
  | fuel + 1 => if d.isEmpty then [] else d.take n :: chunks n fuel (d.drop n)

/-- `DtlsTransport::send` when every sequence number is given: one record per chunk.
(`seqs` is what the `fetch_add`s returned, in call order.) -/
def sendRecords (A : Aead) (k : DirKeys) (epoch : Nat) : List Nat → List Bytes → List Rec
  | s :: ss, c :: cs => sealedRec A k dtlsCtApplicationData epoch s c :: sendRecords A k epoch ss cs
  | _, _ => []

def appChunks (d : Bytes) : List Bytes := chunks dtlsMaxAppDataRecordSize (d.length + 1) d

/-! ### sequence-number allocation under concurrency

Shared state of one connected transport's epoch ≥ 1 write side: the atomic counter `write_seq`
(initialised from `ctx.sequence_number` after the Finished record took number 0) and the log of
every `(epoch, seq)` a record was sealed under.  One `fetch_add` is one atomic step; a schedule is
any list of steps of any number of threads. -/

inductive Who where
  | finished                 -- the handshake's own Finished record (ctx.sequence_number, then += 1)
  | app (thread : Nat)       -- a `send_record` of some sender thread
  | alert                    -- the close-notify alert
deriving DecidableEq, Repr

structure Alloc where
  who   : Who
  epoch : Nat
  seq   : Nat
deriving DecidableEq, Repr

structure Tx where
  epoch    : Nat            -- write epoch
  next     : Nat            -- the counter (ctx.sequence_number before Connected, write_seq after)
  log      : List Alloc     -- newest first
deriving Repr

/-- one atomic allocation: returns the old value and bumps the counter (`fetch_add(1)` /
`*sequence_number += 1`) -/
def Tx.alloc (t : Tx) (w : Who) : Tx :=
  { t with next := t.next + 1, log := ⟨w, t.epoch, t.next⟩ :: t.log }

/-- the epoch switch after ChangeCipherSpec: `ctx.epoch += 1; ctx.sequence_number = 0` -/
def Tx.newEpoch (t : Tx) : Tx := { t with epoch := t.epoch + 1, next := 0 }

def Tx.run (t : Tx) (sched : List Who) : Tx := sched.foldl Tx.alloc t

/-- write side right after the epoch switch, before Finished is built -/
def Tx.afterCcs (epoch0 : Nat) : Tx := { epoch := epoch0 + 1, next := 0, log := [] }

/-- The superseded allocation rule of the close alert (`ctx.sequence_number`, which stays at the
value it had when the handshake completed) — kept only to exhibit the collision it caused. -/
def Tx.allocAlertFromCtx (t : Tx) (ctxSeq : Nat) : Tx :=
  { t with log := ⟨.alert, t.epoch, ctxSeq⟩ :: t.log }

/-! ### publishing the write side vs. concurrent senders

When the handshake completes the run loop publishes three things: the state `Connected` (what
`send()` checks), `write_epoch` and `write_seq` (what `send_record` reads).  Each is one atomic step;
any number of sender threads run `send()` concurrently: check the state, load the epoch, `fetch_add`
the sequence number — three atomic steps each.  `PSys` interleaves them arbitrarily. -/

inductive PubStep where
  | setState | storeEpoch | storeSeq
deriving DecidableEq, Repr

/-- the order in the code: both counters first, the state last -/
def pubOrder : List PubStep := [.storeEpoch, .storeSeq, .setState]
/-- the superseded order (state first), kept to exhibit the race it allowed -/
def pubOrderStateFirst : List PubStep := [.setState, .storeEpoch, .storeSeq]

structure Shared where
  connected : Bool := false
  wEpoch    : Nat := 0
  wSeq      : Nat := 0
deriving Repr

structure SenderSt where
  pc    : Nat := 0        -- 0 idle, 1 saw Connected, 2 loaded the epoch
  epoch : Nat := 0
deriving Repr

structure PSys where
  sh   : Shared := {}
  rest : List PubStep          -- the publisher's remaining steps
  thr  : Nat → SenderSt := fun _ => {}
  log  : List (Nat × Nat) := []   -- (epoch, seq) of every record sealed by a sender or as the close alert

inductive PAct where
  | pub
  | snd (t : Nat)
  | alert            -- the run loop's close_notify: `write_seq.fetch_add(1)` once it has published (same thread as `pub`)
deriving Repr

def applyPub (E S : Nat) (sh : Shared) : PubStep → Shared
  | .setState => { sh with connected := true }
  | .storeEpoch => { sh with wEpoch := E }
  | .storeSeq => { sh with wSeq := S }

def setThr (thr : Nat → SenderSt) (t : Nat) (v : SenderSt) : Nat → SenderSt := fun x => if x = t then v else thr x

/-- one atomic step; `E`, `S` = the context's epoch and sequence number being published -/
def PSys.step (E S : Nat) (s : PSys) : PAct → PSys
  | .pub => match s.rest with
    | [] => s
    | p :: ps => { s with rest := ps, sh := applyPub E S s.sh p }
  | .snd t =>
    if (s.thr t).pc = 0 then
      (if s.sh.connected then { s with thr := setThr s.thr t { (s.thr t) with pc := 1 } } else s)
    else if (s.thr t).pc = 1 then { s with thr := setThr s.thr t { pc := 2, epoch := s.sh.wEpoch } }
    else { s with thr := setThr s.thr t { (s.thr t) with pc := 0 },
                  log := ((s.thr t).epoch, s.sh.wSeq) :: s.log,
                  sh := { s.sh with wSeq := s.sh.wSeq + 1 } }

  | .alert =>
    -- `if ctx.epoch > 0 && write_epoch == ctx.epoch { write_seq.fetch_add(1) }`: the run loop itself stored
    -- `write_epoch`, so after the publication the guard holds; the alert record carries the context's epoch
    match s.rest with
    | [] => { s with log := (E, s.sh.wSeq) :: s.log, sh := { s.sh with wSeq := s.sh.wSeq + 1 } }
    | _ :: _ => s

def PSys.run (E S : Nat) (s : PSys) (acts : List PAct) : PSys := acts.foldl (PSys.step E S) s

end RtcModel.DtlsRecord
