/-
C15 — RTP header / packet codec (RFC 3550 §5.1, §5.3.1), mirroring `src/rtp.rs`
`RtpHeader::{parse,validate,write_to}` and `RtpPacket::{parse_bytes,marshal}`:
same checks in the same order, same truncating casts.
-/
import RtcModel.Base.C15Bytes
import RtcModel.Generated.Consts

namespace RtcModel.C15
open RtcModel.Generated

structure Ext where
  profile : UInt16
  data : Bytes
  deriving DecidableEq, Repr

structure Header where
  marker : Bool
  pt : UInt8
  seq : UInt16
  ts : UInt32
  ssrc : UInt32
  csrcs : List UInt32
  ext : Option Ext
  deriving DecidableEq, Repr

structure Packet where
  hdr : Header
  payload : Bytes
  padLen : UInt8
  deriving DecidableEq, Repr

/-- `RtpHeader::new` -/
def Header.new (pt : UInt8) (seq : UInt16) (ts ssrc : UInt32) : Header :=
  { marker := false, pt := pt, seq := seq, ts := ts, ssrc := ssrc, csrcs := [], ext := none }

/-! ### parse -/

/-- the header-extension block that follows the CSRC list when the X bit is set -/
def parseExtBlock (x : Bool) (bs : Bytes) : Except Err (Option Ext × Bytes) :=
  if x then
    match bs with
    | p0 :: p1 :: l0 :: l1 :: rest =>
      let n := (rd16 l0 l1).toNat * 4
      if rest.length < n then .error .short
      else .ok (some ⟨rd16 p0 p1, rest.take n⟩, rest.drop n)
    | _ => .error .short
  else .ok (none, bs)

/-- `RtpHeader::parse`: header, the P bit, and the unread rest of the buffer -/
def parseHeader (bs : Bytes) : Except Err (Header × Bool × Bytes) :=
  match bs with
  | b0 :: b1 :: s0 :: s1 :: t0 :: t1 :: t2 :: t3 :: c0 :: c1 :: c2 :: c3 :: rest =>
    let version := b0.toNat / 64
    if version ≠ c15RtpVersion then .error (.version version) else
    let padding := b0.toNat / 32 % 2 == 1
    let x := b0.toNat / 16 % 2 == 1
    let cc := b0.toNat % 16
    if rest.length < cc * 4 then .error .short else
    let cs := readU32s cc rest
    match parseExtBlock x cs.2 with
    | .error e => .error e
    | .ok (ext, rest') =>
      .ok ({ marker := b1.toNat / 128 == 1, pt := u8 (b1.toNat % 128), seq := rd16 s0 s1,
             ts := rd32 t0 t1 t2 t3, ssrc := rd32 c0 c1 c2 c3, csrcs := cs.1, ext := ext },
           padding, rest')
  | _ => .error .short

/-- `RtpPacket::parse_bytes` -/
def parsePacket (bs : Bytes) : Except Err Packet :=
  match parseHeader bs with
  | .error e => .error e
  | .ok (h, padding, body) =>
    if padding then
      match body.getLast? with
      | none => .error .short
      | some pl =>
        if pl.toNat > body.length then .error (.hdr "padding larger than payload")
        else .ok ⟨h, body.take (body.length - pl.toNat), pl⟩
    else .ok ⟨h, body, 0⟩

/-! ### marshal -/

/-- `RtpHeader::validate` -/
def Header.validate (h : Header) : Except Err Unit :=
  if h.pt.toNat > c15PtMax then .error (.hdr "payload type does not fit 7 bits")
  else if h.csrcs.length > c15MaxCsrc then .error (.hdr "too many CSRC entries")
  else match h.ext with
    | some e =>
      if e.data.length % 4 ≠ 0 then .error (.hdr "header extension payload must be 32-bit aligned")
      else if e.data.length / 4 > 65535 then .error (.hdr "header extension too long")   -- u16::MAX
      else .ok ()
    | none => .ok ()

def extBytes : Option Ext → Bytes
  | none => []
  | some e => be16 e.profile ++ be16n (e.data.length / 4) ++ e.data

/-- `RtpHeader::write_to` -/
def writeHeader (h : Header) (hasPad : Bool) : Bytes :=
  let b0 := 128 + (if hasPad then 32 else 0) + (if h.ext.isSome then 16 else 0) + h.csrcs.length % (c15CsrcMask + 1)
  let b1 := h.pt.toNat % (c15PtMask + 1) + (if h.marker then 128 else 0)
  u8 b0 :: u8 b1 :: (be16 h.seq ++ be32 h.ts ++ be32 h.ssrc ++ be32s h.csrcs ++ extBytes h.ext)

/-- `RtpPacket::marshal` (the buffer is sized by `encoded_len`, so `LengthMismatch` cannot occur) -/
def marshalPacket (p : Packet) : Except Err Bytes :=
  match p.hdr.validate with
  | .error e => .error e
  | .ok () =>
    .ok (writeHeader p.hdr (p.padLen != 0) ++ p.payload ++ List.replicate p.padLen.toNat p.padLen)

/-- `RtpPacket::marshal_into` (the relay fast path): the same writer WITHOUT `validate` — it always produces
bytes, so a payload type above 127, more than 15 CSRCs or an unaligned / over-long extension is masked or
truncated by `write_to` (known finding `codec:rtp:marshal_into-masks:*`) -/
def marshalInto (p : Packet) : Bytes :=
  writeHeader p.hdr (p.padLen != 0) ++ p.payload ++ List.replicate p.padLen.toNat p.padLen

/-! ### RTX (RFC 4588), `src/rtx.rs` -/

/-- `wrap_rtx_packet` -/
def wrapRtx (orig : Packet) (rtxSsrc : UInt32) (rtxPt : UInt8) (rtxSeq : UInt16) : Packet :=
  { hdr := { Header.new rtxPt rtxSeq orig.hdr.ts rtxSsrc with marker := orig.hdr.marker },
    payload := be16 orig.hdr.seq ++ orig.payload, padLen := 0 }

/-- `unwrap_rtx_packet` -/
def unwrapRtx (rtx : Packet) (primarySsrc : UInt32) (primaryPt : UInt8) : Option Packet :=
  match rtx.payload with
  | a :: b :: rest =>
    some { hdr := { Header.new primaryPt (rd16 a b) rtx.hdr.ts primarySsrc with marker := rtx.hdr.marker },
           payload := rest, padLen := 0 }
  | _ => none

/-- `encode_osn` / `decode_osn` -/
def encodeOsn (osn : UInt16) : Bytes := be16 osn

def decodeOsn : Bytes → Option UInt16
  | a :: b :: _ => some (rd16 a b)
  | _ => none

/-- `allocate_rtx_payload_type`: the first dynamic payload type (96..=127) not in `used` -/
def allocRtxPtFrom (used : List UInt8) : Nat → Nat → Option UInt8
  | _, 0 => none
  | pt, fuel + 1 => if used.contains (u8 pt) then allocRtxPtFrom used (pt + 1) fuel else some (u8 pt)

def allocRtxPt (used : List UInt8) : Option UInt8 := allocRtxPtFrom used c15RtxPtLo (c15RtxPtHi + 1 - c15RtxPtLo)

/-- `is_rtcp`: second byte in the RTCP packet-type range -/
def isRtcp : Bytes → Bool
  | _ :: b :: _ => c15IsRtcpLo ≤ b.toNat && b.toNat ≤ c15IsRtcpHi
  | _ => false

end RtcModel.C15
