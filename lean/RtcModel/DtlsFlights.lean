/-
The closed two-endpoint system for C11: a client and a server endpoint (`DtlsHs`) and a network
that has *every datagram either of them ever emitted* on offer: it may deliver any of them to the
peer at any time, any number of times, or never (loss, duplication, reordering, delay), and the two
retransmission timers tick whenever the schedule says.  Nothing else is ever delivered (no attacker:
C02/C03 cover that).  Core Lean only.
-/
import RtcModel.DtlsHs

namespace RtcModel.DtlsFlights
open RtcModel.Generated RtcModel.DtlsRecord RtcModel.DtlsHs

structure World where
  A  : Aead
  C  : Crypto
  Lc : Loc
  Ls : Loc
  fc : Option Bytes
  fs : Option Bytes

/-- bytes on the wire for a record the endpoint hands to its socket -/
def wireOf (A : Aead) (isClient : Bool) (keys : Option Keys) (w : WRec) : Bytes :=
  match w.sealed, keys with
  | true, some k => encodeRec (sealedRec A (writeKeys isClient k) w.ctype w.epoch w.seq w.plain)
  | _, _ => encodeRec ⟨w.ctype, dtls12Major.toUInt8, dtls12Minor.toUInt8, w.epoch, w.seq, w.plain⟩

def datagrams (A : Aead) (e : Ep) (outs : List Out) : List Bytes :=
  outs.filterMap fun o => match o with
    | .send w => some (wireOf A e.isClient e.ctx.keys w)
    | .deliver _ => none

/-- remember datagrams not seen before (retransmissions are byte-identical) -/
def addSent (l new : List Bytes) : List Bytes :=
  new.foldl (fun acc d => if d ∈ acc then acc else acc ++ [d]) l

structure Sys where
  c     : Ep
  s     : Ep
  sentC : List Bytes
  sentS : List Bytes
deriving DecidableEq

inductive Act where
  | toS (i : Nat)      -- deliver the i-th datagram the client ever emitted to the server
  | toC (i : Nat)
  | tickC
  | tickS
deriving DecidableEq, Repr

def Sys.init (W : World) : Sys :=
  let (c, oc) := start W.Lc true W.fc
  let (s, os) := start W.Ls false W.fs
  ⟨c, s, addSent [] (datagrams W.A c oc), addSent [] (datagrams W.A s os)⟩

def Sys.step (W : World) (σ : Sys) : Act → Sys
  | .toS i =>
    match σ.sentC[i]? with
    | none => σ
    | some d =>
      let (s', o) := onPacket W.A.dec W.C W.Ls σ.s d
      { σ with s := s', sentS := addSent σ.sentS (datagrams W.A s' o) }
  | .toC i =>
    match σ.sentS[i]? with
    | none => σ
    | some d =>
      let (c', o) := onPacket W.A.dec W.C W.Lc σ.c d
      { σ with c := c', sentC := addSent σ.sentC (datagrams W.A c' o) }
  | .tickC => { σ with sentC := addSent σ.sentC (datagrams W.A σ.c (onTick σ.c)) }
  | .tickS => { σ with sentS := addSent σ.sentS (datagrams W.A σ.s (onTick σ.s)) }

def Sys.run (W : World) (σ : Sys) (acts : List Act) : Sys := acts.foldl (Sys.step W) σ

/-- one fair round: both timers tick, then everything the client ever emitted reaches the server in
emission order, then everything the server ever emitted reaches the client -/
def fairRound (W : World) (σ : Sys) : Sys :=
  let σ1 := (σ.step W .tickC).step W .tickS
  let σ2 := (List.range σ1.sentC.length).foldl (fun x i => x.step W (.toS i)) σ1
  (List.range σ2.sentS.length).foldl (fun x i => x.step W (.toC i)) σ2

def bothConnected (σ : Sys) : Bool := σ.c.conn == .connected && σ.s.conn == .connected

/-! ### the closed system with clocks (the handshake deadline)

Each endpoint's run loop owns a retransmission timer (first tick after `dtlsRetransmitFirstSecs`, then
every `dtlsRetransmitPeriodSecs`) and a deadline `dtlsHandshakeTimeoutSecs` after its start.  `kc` / `ks`
count the ticks the client / server loop has processed.  The deadline becomes due together with tick
number `deadlineTicks`; `select!` may take either first, so the deadline action is enabled as soon as
`deadlineTicks - 1` ticks were processed (an over-approximation: it lets the deadline fire up to one
period early, never late). -/

def deadlineTicks : Nat :=
  (dtlsHandshakeTimeoutSecs - dtlsRetransmitFirstSecs) / dtlsRetransmitPeriodSecs + 1

inductive TAct where
  | net (a : Act)
  | deadlineC
  | deadlineS
deriving DecidableEq, Repr

structure TSys where
  σ  : Sys
  kc : Nat
  ks : Nat
deriving DecidableEq

def Sys.deadlineC (σ : Sys) : Sys := { σ with c := onDeadline σ.c }
def Sys.deadlineS (σ : Sys) : Sys := { σ with s := onDeadline σ.s }

def TSys.step (W : World) (D : Nat) (τ : TSys) : TAct → TSys
  | .net .tickC => { τ with σ := τ.σ.step W .tickC, kc := τ.kc + 1 }
  | .net .tickS => { τ with σ := τ.σ.step W .tickS, ks := τ.ks + 1 }
  | .net (.toS i) => { τ with σ := τ.σ.step W (.toS i) }
  | .net (.toC i) => { τ with σ := τ.σ.step W (.toC i) }
  | .deadlineC => if D ≤ τ.kc + 1 then { τ with σ := τ.σ.deadlineC } else τ
  | .deadlineS => if D ≤ τ.ks + 1 then { τ with σ := τ.σ.deadlineS } else τ

def TSys.run (W : World) (D : Nat) (τ : TSys) (acts : List TAct) : TSys := acts.foldl (TSys.step W D) τ

def ticksC (acts : List TAct) : Nat := (acts.filter (· == .net .tickC)).length
def ticksS (acts : List TAct) : Nat := (acts.filter (· == .net .tickS)).length

/-- the network/timer actions of a timed schedule -/
def untimed (acts : List TAct) : List Act := acts.filterMap fun a => match a with | .net a => some a | _ => none

/-- a fair round of the timed system: one period passes at both endpoints -/
def tFairRound (W : World) (τ : TSys) : TSys := ⟨fairRound W τ.σ, τ.kc + 1, τ.ks + 1⟩

end RtcModel.DtlsFlights
