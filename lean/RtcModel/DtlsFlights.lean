/-
The closed two-endpoint system for C11: a client and a server endpoint (`DtlsHs`) and a network
that has *every datagram either of them ever emitted* on offer: it may deliver any of them to the
peer at any time, any number of times, or never (loss, duplication, reordering, delay), and the two
retransmission timers tick whenever the schedule says.  Nothing else is ever delivered (no attacker:
C02/C03 cover that).  Core Lean only.
-/
import RtcModel.DtlsHs

namespace RtcModel.DtlsFlights
open RtcModel.Generated RtcModel.DtlsRecord RtcModel.DtlsHs

structure World where
  A  : Aead
  C  : Crypto
  Lc : Loc
  Ls : Loc
  fc : Option Bytes
  fs : Option Bytes

/-- bytes on the wire for a record the endpoint hands to its socket -/
def wireOf (A : Aead) (isClient : Bool) (keys : Option Keys) (w : WRec) : Bytes :=
  match w.sealed, keys with
  | true, some k => encodeRec (sealedRec A (writeKeys isClient k) w.ctype w.epoch w.seq w.plain)
  | _, _ => encodeRec ⟨w.ctype, dtls12Major.toUInt8, dtls12Minor.toUInt8, w.epoch, w.seq, w.plain⟩

def datagrams (A : Aead) (e : Ep) (outs : List Out) : List Bytes :=
  outs.filterMap fun o => match o with
    | .send w => some (wireOf A e.isClient e.ctx.keys w)
    | .deliver _ => none

/-- remember datagrams not seen before (retransmissions are byte-identical) -/
def addSent (l new : List Bytes) : List Bytes :=
  new.foldl (fun acc d => if d ∈ acc then acc else acc ++ [d]) l

structure Sys where
  c     : Ep
  s     : Ep
  sentC : List Bytes
  sentS : List Bytes
deriving DecidableEq

inductive Act where
  | toS (i : Nat)      -- deliver the i-th datagram the client ever emitted to the server
  | toC (i : Nat)
  | tickC
  | tickS
deriving DecidableEq, Repr

def Sys.init (W : World) : Sys :=
  let (c, oc) := start W.Lc true W.fc
  let (s, os) := start W.Ls false W.fs
  ⟨c, s, addSent [] (datagrams W.A c oc), addSent [] (datagrams W.A s os)⟩

def Sys.step (W : World) (σ : Sys) : Act → Sys
  | .toS i =>
    match σ.sentC[i]? with
    | none => σ
    | some d =>
      let (s', o) := onPacket W.A.dec W.C W.Ls σ.s d
      { σ with s := s', sentS := addSent σ.sentS (datagrams W.A s' o) }
  | .toC i =>
    match σ.sentS[i]? with
    | none => σ
    | some d =>
      let (c', o) := onPacket W.A.dec W.C W.Lc σ.c d
      { σ with c := c', sentC := addSent σ.sentC (datagrams W.A c' o) }
  | .tickC => { σ with sentC := addSent σ.sentC (datagrams W.A σ.c (onTick σ.c)) }
  | .tickS => { σ with sentS := addSent σ.sentS (datagrams W.A σ.s (onTick σ.s)) }

def Sys.run (W : World) (σ : Sys) (acts : List Act) : Sys := acts.foldl (Sys.step W) σ

/-- one fair round: both timers tick, then everything the client ever emitted reaches the server in
emission order, then everything the server ever emitted reaches the client -/
def fairRound (W : World) (σ : Sys) : Sys :=
  let σ1 := (σ.step W .tickC).step W .tickS
  let σ2 := (List.range σ1.sentC.length).foldl (fun x i => x.step W (.toS i)) σ1
  (List.range σ2.sentS.length).foldl (fun x i => x.step W (.toC i)) σ2

def bothConnected (σ : Sys) : Bool := σ.c.conn == .connected && σ.s.conn == .connected

end RtcModel.DtlsFlights
