/-
SRTP/SRTCP packet protection (`SrtpContext`, `SrtpSession` in src/srtp.rs) over an abstract cipher
suite. Mirrors the code as it is: same checks in the same order, same arithmetic.

* `Suite`   — keystream generator, MAC and AEAD as parameters with the *structural* laws the
              round-trip needs (lengths, `open ∘ seal`). No security assumption lives here.
* `Ctx`     — one per-SSRC context (`SrtpContext`): keys, rollover state, SRTCP index, last use.
* `Sess`    — `SrtpSession`: transmit and receive context tables with the high-water-mark /
              idle eviction rule; time is an explicit input (`now`, seconds).
-/
import RtcModel.SrtpRoc
import RtcModel.SrtpHeader
namespace RtcModel.Srtp
open RtcModel.C04 RtcModel.Generated

/-! ### Cipher suite -/

structure Suite where
  /-- `ks key iv n`: `n` bytes of AES-CM keystream (`Ctr128BE`, counter block `iv`) -/
  ks : Bytes → Bytes → Nat → Bytes
  ks_len : ∀ k iv n, (ks k iv n).length = n
  /-- `mac key data`: full-length HMAC-SHA1 -/
  mac : Bytes → Bytes → Bytes
  mac_len : ∀ k d, (mac k d).length = srtpSha1Len
  /-- `aeadSeal key nonce aad pt = ct ‖ tag` -/
  aeadSeal : Bytes → Bytes → Bytes → Bytes → Bytes
  aeadOpen : Bytes → Bytes → Bytes → Bytes → Option Bytes
  seal_len : ∀ k n a p, (aeadSeal k n a p).length = p.length + srtpTagLenGcm
  open_seal : ∀ k n a p, aeadOpen k n a (aeadSeal k n a p) = some p
  open_len : ∀ k n a c p, aeadOpen k n a c = some p → c.length = p.length + srtpTagLenGcm

inductive Profile
  | cm80 | cm32 | gcm | null
deriving DecidableEq, Repr

def Profile.tagLen : Profile → Nat
  | .cm80 | .null => srtpTagLen80
  | .cm32 => srtpTagLen32
  | .gcm => srtpTagLenGcm

def Profile.rtcpTagLen : Profile → Nat
  | .cm32 => srtcpTagLen32
  | p => p.tagLen

def Profile.saltLen : Profile → Nat
  | .gcm => srtpSaltLenGcm
  | _ => srtpSaltLenCm

def Profile.authKeyLen : Profile → Nat
  | .cm80 | .null => srtpAuthKeyLen80
  | .cm32 => srtpAuthKeyLen32
  | .gcm => srtpAuthKeyLenGcm

inductive Err
  | unsupportedProfile | tooShort | authFailed | internal
deriving DecidableEq, Repr

structure Keys where
  ck : Bytes
  ak : Bytes
  salt : Bytes
deriving DecidableEq, Repr

structure Ctx where
  ssrc : Nat
  profile : Profile
  rtp : Keys
  rtcp : Keys
  roc : Nat
  last : Option Nat
  rtcpIndex : Nat
  /-- time of the most recent use through the session (seconds) -/
  lastUsed : Nat
deriving DecidableEq, Repr

structure Pkt where
  hdr : Hdr
  payload : Bytes
  padLen : Nat
deriving DecidableEq, Repr

/-! ### Key derivation -/

/-- zero-extend / truncate to exactly `n` bytes -/
def fit (n : Nat) (bs : Bytes) : Bytes := bs.take n ++ List.replicate (n - bs.length) 0

@[simp] theorem fit_length (n : Nat) (bs : Bytes) : (fit n bs).length = n := by
  simp [fit, List.length_take]; omega

/-- XOR `v` into byte `i` of `bs` -/
def xorAt (bs : Bytes) (i : Nat) (v : UInt8) : Bytes :=
  bs.take i ++ (match bs.drop i with | [] => [] | b :: r => (b ^^^ v) :: r)

/-- `SrtpContext::kdf` -/
def kdf (S : Suite) (len label : Nat) (mk ms : Bytes) : Bytes :=
  S.ks (mk.take 16) (xorAt (fit 16 (ms.take kdfSaltTake)) kdfLabelByte (byteOf label)) len

def deriveKeys (S : Suite) (p : Profile) (mk ms : Bytes) : Keys × Keys :=
  let auth (label : Nat) := if p.authKeyLen > 0 then kdf S p.authKeyLen label mk ms else []
  (⟨kdf S srtpKeyLen kdfLabelRtpCipher mk ms, auth kdfLabelRtpAuth, kdf S p.saltLen kdfLabelRtpSalt mk ms⟩,
   ⟨kdf S srtpKeyLen kdfLabelRtcpCipher mk ms, auth kdfLabelRtcpAuth, kdf S p.saltLen kdfLabelRtcpSalt mk ms⟩)

/-- `SrtpContext::new` -/
def Ctx.new (S : Suite) (ssrc : Nat) (p : Profile) (mk ms : Bytes) (now : Nat) : Except Err Ctx :=
  if mk.length < srtpKeyLen ∨ ms.length < p.saltLen then .error .unsupportedProfile
  else
    let (rtp, rtcp) := deriveKeys S p mk ms
    .ok ⟨ssrc, p, rtp, rtcp, 0, none, 0, now⟩

/-! ### IV / nonce construction -/

/-- `build_iv` -/
def rtpIv (salt : Bytes) (ssrc seq roc : Nat) : Bytes :=
  xorBytes (fit 16 (salt.take 14)) (be32 0 ++ be32 ssrc ++ be64 (index48 roc seq * 65536))

/-- the IV of `cipher_rtcp` -/
def rtcpIv (salt : Bytes) (ssrc index : Nat) : Bytes :=
  xorBytes (fit 16 (salt.take 14)) (be32 0 ++ be32 ssrc ++ be16 0 ++ be32 index ++ be16 0)

/-- `build_gcm_nonce` -/
def gcmNonce (salt : Bytes) (ssrc seq roc : Nat) : Bytes :=
  xorBytes (fit 12 salt) (be16 0 ++ be32 ssrc ++ be32 roc ++ be16 seq)

/-- `build_gcm_rtcp_nonce` -/
def gcmRtcpNonce (salt : Bytes) (ssrc index : Nat) : Bytes :=
  xorBytes (fit 12 salt) (be16 0 ++ be32 ssrc ++ be16 0 ++ be32 index)

/-! ### RTP -/

def Ctx.encrypts (c : Ctx) : Bool := c.profile != .null

/-- the rollover state after `update(seq, roc)` -/
def Ctx.updated (c : Ctx) (seq r : Nat) : Ctx :=
  { c with roc := (updateRoc c.roc c.last seq r).1, last := (updateRoc c.roc c.last seq r).2 }

def Ctx.estimate (c : Ctx) (seq : Nat) : Nat := estimateRoc c.roc c.last seq

/-- AES-CM transform of an RTP body (identity for the NULL cipher and for an empty body) -/
def cmBody (S : Suite) (c : Ctx) (seq roc : Nat) (body : Bytes) : Bytes :=
  if body.length ≠ 0 ∧ c.encrypts then
    xorBytes body (S.ks c.rtp.ck (rtpIv c.rtp.salt c.ssrc seq roc) body.length)
  else body

/-- the byte string the RTP tag is computed over -/
def rtpAuthInput (hb ct : Bytes) (roc : Nat) : Bytes := hb ++ ct ++ be32 roc

def rtpTag (S : Suite) (c : Ctx) (hb ct : Bytes) (roc : Nat) : Bytes :=
  (S.mac c.rtp.ak (rtpAuthInput hb ct roc)).take c.profile.tagLen

/-- plaintext RTP body: payload followed by `padLen` bytes each holding `padLen` -/
def Pkt.body (p : Pkt) : Bytes := p.payload ++ List.replicate p.padLen (byteOf p.padLen)

/-- `protected_rtp_len` -/
def protectedRtpLen (prof : Profile) (p : Pkt) : Nat :=
  encodedLen p.hdr + p.payload.length + p.padLen + prof.tagLen

/-- `SrtpContext::protect` into an output buffer of `protected_rtp_len` bytes. -/
def Ctx.protectRtp (S : Suite) (c : Ctx) (p : Pkt) : Except Err Bytes × Ctx :=
  if ¬ validHdr p.hdr then (.error .internal, c)
  else
    let seq := p.hdr.seq
    let roc := c.estimate seq
    let hb := writeHdr p.hdr (p.padLen ≠ 0)
    if c.profile = .gcm then
      (.ok (hb ++ S.aeadSeal c.rtp.ck (gcmNonce c.rtp.salt c.ssrc seq roc) hb p.body), c.updated seq roc)
    else
      let ct := cmBody S c seq roc p.body
      (.ok (hb ++ ct ++ rtpTag S c hb ct roc), c.updated seq roc)

/-- padding removal after decryption (`has_padding` is the clear P bit) -/
def stripPadding (hasPadding : Bool) (pt : Bytes) : Except Err (Bytes × Nat) :=
  if hasPadding then
    match pt.getLast? with
    | none => .error .tooShort
    | some pl =>
      if pl = 0 ∨ pl.toNat > pt.length then .error .internal
      else .ok (pt.take (pt.length - pl.toNat), pl.toNat)
  else .ok (pt, 0)

/-- authenticate and decrypt a parsed SRTP packet body: `Ok` carries the plaintext body -/
def Ctx.openRtp (S : Suite) (c : Ctx) (hb body : Bytes) (seq roc : Nat) : Except Err Bytes :=
  if c.profile = .gcm then
    match S.aeadOpen c.rtp.ck (gcmNonce c.rtp.salt c.ssrc seq roc) hb body with
    | none => .error .authFailed
    | some pt => .ok pt
  else
    let split := body.length - c.profile.tagLen
    if body.drop split ≠ rtpTag S c hb (body.take split) roc then .error .authFailed
    else .ok (cmBody S c seq roc (body.take split))

/-- `SrtpContext::unprotect` on `SrtpPacket { header, body, has_padding }`. -/
def Ctx.unprotectRtp (S : Suite) (c : Ctx) (h : Hdr) (hasPadding : Bool) (body : Bytes) :
    Except Err Pkt × Ctx :=
  if body.length < c.profile.tagLen then (.error .tooShort, c)
  else
    let roc := c.estimate h.seq
    match c.openRtp S (writeHdr h hasPadding) body h.seq roc with
    | .error e => (.error e, c)
    | .ok pt =>
      match stripPadding hasPadding pt with
      | .error e => (.error e, c)
      | .ok (payload, padLen) => (.ok ⟨h, payload, padLen⟩, c.updated h.seq roc)

/-! ### RTCP -/

/-- `index | 0x8000_0000` for a `u32` index -/
def withEBit (index : Nat) : Nat := if index < srtcpEBit then index + srtcpEBit else index

def rtcpCipher (S : Suite) (c : Ctx) (index : Nat) (pkt : Bytes) : Bytes :=
  pkt.take 8 ++ xorBytes (pkt.drop 8) (S.ks c.rtcp.ck (rtcpIv c.rtcp.salt c.ssrc index) (pkt.length - 8))

def rtcpTag (S : Suite) (c : Ctx) (m : Bytes) : Bytes :=
  (S.mac c.rtcp.ak m).take c.profile.rtcpTagLen

/-- the 32-bit word appended to an SRTCP packet: `E ‖ index`; the NULL cipher sends `E = 0` -/
def Ctx.eWord (c : Ctx) (index : Nat) : Nat := if c.encrypts then withEBit index else index

/-- `SrtpContext::protect_rtcp` (the caller guarantees `pkt.length ≥ 8`). -/
def Ctx.protectRtcp (S : Suite) (c : Ctx) (pkt : Bytes) : Except Err Bytes × Ctx :=
  let index := (c.rtcpIndex + 1) % 4294967296
  let c' := { c with rtcpIndex := index }
  let iwe := c.eWord index
  if c.profile = .gcm then
    let aad := pkt.take 8 ++ be32 iwe
    (.ok (pkt.take 8 ++ S.aeadSeal c.rtcp.ck (gcmRtcpNonce c.rtcp.salt c.ssrc index) aad (pkt.drop 8) ++ be32 iwe), c')
  else
    let enc := if pkt.length > 8 ∧ c.encrypts then rtcpCipher S c index pkt else pkt
    let m := enc ++ be32 iwe
    (.ok (m ++ rtcpTag S c m), c')

def last4 (bs : Bytes) : Nat := decBE (bs.drop (bs.length - 4)) 0

/-- `if index > self.rtcp_index { self.rtcp_index = index }` -/
def Ctx.bumpRtcp (c : Ctx) (index : Nat) : Ctx :=
  if index > c.rtcpIndex then { c with rtcpIndex := index } else c

/-- `SrtpContext::unprotect_rtcp` (the caller guarantees `pkt.length ≥ 8`). -/
def Ctx.unprotectRtcp (S : Suite) (c : Ctx) (pkt : Bytes) : Except Err Bytes × Ctx :=
  let tagLen := c.profile.rtcpTagLen
  if pkt.length < tagLen + 4 then (.error .tooShort, c)
  else if c.profile = .gcm then
    let iwe := last4 pkt
    let index := iwe % (srtcpIndexMask + 1)
    let aad := pkt.take 8 ++ be32 iwe
    match S.aeadOpen c.rtcp.ck (gcmRtcpNonce c.rtcp.salt c.ssrc index) aad ((pkt.take (pkt.length - 4)).drop 8) with
    | none => (.error .authFailed, c)
    | some pt => (.ok (pkt.take 8 ++ pt), c.bumpRtcp index)       -- only after authentication
  else
    let split := pkt.length - tagLen
    let m := pkt.take split
    if pkt.drop split ≠ rtcpTag S c m then (.error .authFailed, c)
    else
      let iwe := last4 m
      let body := m.take (m.length - 4)
      let index := iwe % (srtcpIndexMaskCm + 1)
      let c' := c.bumpRtcp index
      if iwe ≥ srtcpEBit ∧ c.encrypts ∧ body.length > 8 then (.ok (rtcpCipher S c index body), c')
      else (.ok body, c')

/-! ### Session -/

structure Sess where
  profile : Profile
  txMk : Bytes
  txMs : Bytes
  rxMk : Bytes
  rxMs : Bytes
  tx : List Ctx
  rx : List Ctx
deriving DecidableEq, Repr

def Sess.new (p : Profile) (txMk txMs rxMk rxMs : Bytes) : Sess := ⟨p, txMk, txMs, rxMk, rxMs, [], []⟩

def lookup (t : List Ctx) (ssrc : Nat) : Option Ctx := t.find? (·.ssrc = ssrc)

/-- store `c` back into the slot `lookup` found it in (the first — and, keys of a map being
unique, only — context with that SSRC) -/
def replace : List Ctx → Ctx → List Ctx
  | [], _ => []
  | x :: xs, c => if x.ssrc = c.ssrc then c :: xs else x :: replace xs c

/-- `evict_stale_*`: above the high-water mark, drop every context idle for the eviction time,
except `keep`. -/
def evict (t : List Ctx) (keep now : Nat) : List Ctx :=
  if t.length ≤ ssrcContextHighWatermark then t
  else t.filter (fun c => c.ssrc = keep ∨ now - c.lastUsed < ssrcInactivityEvictSecs)

/-- transmit side: evict, get-or-insert, stamp, run `f` on the context (kept whatever `f` returns) -/
def Sess.withTx (S : Suite) (s : Sess) (now ssrc : Nat) (f : Ctx → Except Err Bytes × Ctx) :
    Except Err Bytes × Sess :=
  let t := evict s.tx ssrc now
  match lookup t ssrc with
  | some c =>
    let (r, c') := f { c with lastUsed := now }
    (r, { s with tx := replace t c' })
  | none =>
    -- `refuse_new_tx_context_if_full`: the idle contexts have just been evicted, what is left is live
    if maxTxContexts ≤ t.length then (.error .internal, { s with tx := t }) else
    match Ctx.new S ssrc s.profile s.txMk s.txMs now with
    | .error e => (.error e, { s with tx := t })
    | .ok c =>
      let (r, c') := f c
      (r, { s with tx := t ++ [c'] })

/-- `SrtpSession::protect_rtp` with an output buffer of `protected_rtp_len` bytes -/
def Sess.protectRtp (S : Suite) (s : Sess) (now : Nat) (p : Pkt) : Except Err Bytes × Sess :=
  s.withTx S now p.hdr.ssrc (fun c => c.protectRtp S p)

def ssrcOfRtcp (pkt : Bytes) : Nat := decBE ((pkt.drop 4).take 4) 0

/-- `SrtpSession::protect_rtcp` -/
def Sess.protectRtcp (S : Suite) (s : Sess) (now : Nat) (pkt : Bytes) : Except Err Bytes × Sess :=
  if pkt.length < rtcpMinLen then (.error .tooShort, s)
  else s.withTx S now (ssrcOfRtcp pkt) (fun c => c.protectRtcp S pkt)

/-- `refuse_new_rx_context_if_full`: `MAX_RX_CONTEXTS` contexts are live (would survive the idle
eviction), so a packet for an unknown SSRC is refused before anything is looked at -/
def rxFull (t : List Ctx) (now : Nat) : Bool :=
  decide (maxRxContexts ≤ t.length) &&
    decide (maxRxContexts ≤ (t.filter (fun c => now - c.lastUsed < ssrcInactivityEvictSecs)).length)

/-- receive side (after the `fix:` commit): the table is touched only after `f` succeeded —
a context is created, stamped and eviction runs only for an authenticated packet. (Whatever `f`
does to an existing context before failing is kept, as in the code — since the second `fix:` commit
of C05 `unprotect` / `unprotect_rtcp` change nothing on failure.) -/
def Sess.withRx {α : Type} (S : Suite) (s : Sess) (now ssrc : Nat) (f : Ctx → Except Err α × Ctx) :
    Except Err α × Sess :=
  match lookup s.rx ssrc with
  | some c =>
    match f c with
    | (.error e, c') => (.error e, { s with rx := replace s.rx c' })
    | (.ok a, c') => (.ok a, { s with rx := evict (replace s.rx { c' with lastUsed := now }) ssrc now })
  | none =>
    if rxFull s.rx now then (.error .internal, s) else
    match Ctx.new S ssrc s.profile s.rxMk s.rxMs now with
    | .error e => (.error e, s)
    | .ok c =>
      match f c with
      | (.error e, _) => (.error e, s)
      | (.ok a, c') => (.ok a, { s with rx := evict s.rx ssrc now ++ [{ c' with lastUsed := now }] })

/-- `SrtpSession::unprotect_rtp` on a parsed `SrtpPacket` -/
def Sess.unprotectRtp (S : Suite) (s : Sess) (now : Nat) (h : Hdr) (hasPadding : Bool) (body : Bytes) :
    Except Err Pkt × Sess :=
  s.withRx S now h.ssrc (fun c => c.unprotectRtp S h hasPadding body)

/-- `SrtpSession::unprotect_rtcp` -/
def Sess.unprotectRtcp (S : Suite) (s : Sess) (now : Nat) (pkt : Bytes) : Except Err Bytes × Sess :=
  if pkt.length < srtcpMinLen then (.error .tooShort, s)
  else s.withRx S now (ssrcOfRtcp pkt) (fun c => c.unprotectRtcp S pkt)

/-- the receive path of the transport: `SrtpPacket::parse` then `unprotect_rtp` -/
def Sess.receiveRtp (S : Suite) (s : Sess) (now : Nat) (raw : Bytes) :
    Except (ParseErr ⊕ Err) Pkt × Sess :=
  match parseHdr raw with
  | .error e => (.error (.inl e), s)
  | .ok (h, p, body) =>
    match s.unprotectRtp S now h p body with
    | (.error e, s') => (.error (.inr e), s')
    | (.ok pkt, s') => (.ok pkt, s')

/-- `RtpPacket::marshal` of a decoded packet (canonical output form) -/
def Pkt.marshal (p : Pkt) : Bytes := writeHdr p.hdr (p.padLen ≠ 0) ++ p.body

end RtcModel.Srtp
