/-
Model of the ICE priority computations in `src/transports/ice/mod.rs`:
`IceCandidate::priority_for`, `priority_for_tcp` (u32 arithmetic) and
`IceCandidatePair::priority` (u64 arithmetic).  Type / local preferences are generated from the
source (`RtcModel.Generated`).  Core Lean only.
-/
import RtcModel.Generated.Consts

namespace RtcModel.IcePrio
open RtcModel.Generated

inductive CandType where
  | host | srflx | prflx | relay
deriving DecidableEq, Repr, Inhabited

inductive TcpType where
  | active | passive | so
deriving DecidableEq, Repr, Inhabited

inductive Role where
  | controlling | controlled
deriving DecidableEq, Repr, Inhabited

def typePrefUdp : CandType → Nat
  | .host => icePrefUdpHost
  | .prflx => icePrefUdpPeerReflexive
  | .srflx => icePrefUdpServerReflexive
  | .relay => icePrefUdpRelay

def typePrefTcp : CandType → Nat
  | .host => icePrefTcpHost
  | .prflx => icePrefTcpPeerReflexive
  | .srflx => icePrefTcpServerReflexive
  | .relay => icePrefTcpRelay

def localPrefTcp : TcpType → Nat
  | .passive => iceLocalPrefTcpPassive
  | .active => iceLocalPrefTcpActive
  | .so => iceLocalPrefTcpSo

def u32 (n : Nat) : Nat := n % 4294967296

/-- the common tail `(type_pref << 24) | (local_pref << 8) | (256 - component)` in `u32`
(`component` is the `u16` argument, clamped with `.min(256)`). -/
def combine (typePref localPref component : Nat) : Nat :=
  u32 (typePref <<< 24) ||| u32 (localPref <<< 8) ||| (256 - min component iceComponentClamp)

/-- `IceCandidate::priority_for` -/
def priorityFor (t : CandType) (component : Nat) : Nat :=
  combine (typePrefUdp t) iceLocalPrefUdp component

/-- `IceCandidate::priority_for_tcp` -/
def priorityForTcp (t : CandType) (component : Nat) (tt : TcpType) : Nat :=
  combine (typePrefTcp t) (localPrefTcp tt) component

/-- the priority each constructor stores: `host`, `server_reflexive`, `relay` (both transports use the UDP
function), `host_tcp` / `tcp` (unknown tcptype strings default to passive), `with_tcp_type` (keeps the priority) -/
def constructorPriority (name : String) (component : Nat) : Option Nat :=
  match name with
  | "host" => some (priorityFor .host component)
  | "srflx" => some (priorityFor .srflx component)
  | "relay-udp" | "relay-tcp" => some (priorityFor .relay component)
  | "host_tcp-passive" | "tcp-passive" | "tcp-unknown-type-defaults-to-passive" => some (priorityForTcp .host component .passive)
  | "host_tcp-active" | "tcp-active" => some (priorityForTcp .host component .active)
  | "host_tcp-so" | "tcp-so" => some (priorityForTcp .host component .so)
  | "srflx-with_tcp_type-passive" | "srflx-with_tcp_type-active" | "srflx-with_tcp_type-so" => some (priorityFor .srflx component)
  | _ => none

/-- `IceCandidatePair::priority(role)` with `local`/`remote` candidate priorities (`u32` each). -/
def pairPriority (role : Role) (localPrio remotePrio : Nat) : Nat :=
  let (g, d) := match role with
    | .controlling => (localPrio, remotePrio)
    | .controlled => (remotePrio, localPrio)
  4294967296 * min g d + 2 * max g d + (if g > d then 1 else 0)

end RtcModel.IcePrio
