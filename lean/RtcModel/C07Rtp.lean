/-
C07 — totality models of `src/rtp.rs`: RTP header / packet parse, `get_extension`, `set_extension`,
`marshal`, and the RTCP compound parser with every sub-parser. Same checks in the same order as the
code; every slice index / `Buf` getter is a cursor primitive that panics where Rust would.
Decoded values are returned as digests (`List Nat`) that the harness recomputes from the real structs.
Allocation accounting: payload bytes requested (`Vec::with_capacity(k)·sizeof`, `to_vec`, `push`·sizeof,
`String` from lossy UTF-8 ≤ 3·len).
-/
import RtcModel.Base.C07Cursor
import RtcModel.Generated.Consts
namespace RtcModel.C07.Rtp
open RtcModel.C07 RtcModel.Generated

/-! ## RTP -/

structure Ext where
  present : Bool
  profile : Nat
  data : Array UInt8

structure Hdr where
  marker : Nat
  pt : Nat
  seq : Nat
  ts : Nat
  ssrc : Nat
  csrcs : List Nat
  ext : Ext

/-- `RtpHeader::parse`, extension part -/
def extParse (extension : Bool) : Cur Ext := do
  if extension then
    if (← remaining) < 4 then bail "PacketTooShort" else
    let profile ← getU16
    let extLen := (← getU16) * 4
    if (← remaining) < extLen then bail "PacketTooShort" else
    let d ← splitTo extLen
    pure ⟨true, profile, d.rest⟩
  else pure ⟨false, 0, #[]⟩

/-- `RtpHeader::parse` (src/rtp.rs:67-121); returns the header and the padding bit -/
def headerParse : Cur (Hdr × Bool) := do
  if (← remaining) < c07RtpMinHeader then bail "PacketTooShort" else
  let b0 ← getU8
  let b1 ← getU8
  let version := b0 / 64
  if version ≠ c07RtpVersion then bail s!"UnsupportedVersion({version})" else
  let padding := (b0 / 32) % 2 ≠ 0
  let extension := (b0 / 16) % 2 ≠ 0
  let cc := b0 % 16
  let seq ← getU16
  let ts ← getU32
  let ssrc ← getU32
  if (← remaining) < cc * 4 then bail "PacketTooShort" else
  alloc (cc * 4)
  let csrcs ← getU32s cc
  let ext ← extParse extension
  pure (⟨b1 / 128, b1 % 128, seq, ts, ssrc, csrcs, ext⟩, padding)

structure Pkt where
  hdr : Hdr
  payloadLen : Nat
  paddingLen : Nat

/-- `RtpPacket::parse_bytes` (src/rtp.rs:327-346) -/
def packetParseBytes : Cur Pkt := do
  let hp ← headerParse
  let hdr := hp.1
  let len ← remaining
  if hp.2 then
    if len = 0 then bail "PacketTooShort" else      -- `buf.last().ok_or(..)`
    let body ← restSlice
    let padLen ← idx body (len - 1)
    if padLen > len then bail "InvalidHeader(\"padding_larger_than_payload\")" else
    let _ ← slice body 0 (len - padLen)              -- `buf.slice(..payload_end)`
    pure ⟨hdr, len - padLen, padLen⟩
  else
    pure ⟨hdr, len, 0⟩

/-- `RtpPacket::parse(&[u8])`: `Bytes::copy_from_slice` then `parse_bytes` -/
def packetParse : Cur Pkt := do
  alloc (← remaining)
  packetParseBytes

def Pkt.digest (p : Pkt) : List Nat :=
  [p.hdr.marker, p.hdr.pt, p.hdr.seq, p.hdr.ts, p.hdr.ssrc, p.hdr.csrcs.length,
   p.hdr.csrcs.foldl (fun a c => (a * 31 + c) % 4294967296) 7,
   if p.hdr.ext.present then 1 else 0, p.hdr.ext.profile, p.hdr.ext.data.size, p.payloadLen, p.paddingLen]

/-! ### get_extension (src/rtp.rs:123-180) -/

inductive Step (σ β : Type) where
  | cont (s : σ)
  | done (r : β)

/-- one-byte-header (0xBEDE) walk; state = offset -/
def getExt1Body (d : Array UInt8) (id : Nat) (offset : Nat) : Cur (Nat ⊕ Option (Nat × Nat)) := do
  if ¬ (offset < d.size) then pure (.inr none) else
  let b ← idx d offset
  if b = 0 then pure (.inl (offset + 1)) else
  let extId := b / 16
  let len := b % 16 + 1
  let offset := offset + 1
  if extId = 15 then pure (.inr none) else
  if extId = id then
    if offset + len ≤ d.size then
      let _ ← slice d offset (offset + len)
      pure (.inr (some (offset, len)))
    else pure (.inr none)
  else pure (.inl (offset + len))

/-- two-byte-header (0x1000) walk -/
def getExt2Body (d : Array UInt8) (id : Nat) (offset : Nat) : Cur (Nat ⊕ Option (Nat × Nat)) := do
  if ¬ (offset < d.size) then pure (.inr none) else
  let extId ← idx d offset
  if extId = 0 then pure (.inl (offset + 1)) else
  let offset := offset + 1
  if offset ≥ d.size then pure (.inr none) else
  let len ← idx d offset
  let offset := offset + 1
  if extId = id then
    if offset + len ≤ d.size then
      let _ ← slice d offset (offset + len)
      pure (.inr (some (offset, len)))
    else pure (.inr none)
  else pure (.inl (offset + len))

/-- `RtpHeader::get_extension(id)`: `some (offset,len)` of the returned sub-slice of the block -/
def getExtension (e : Ext) (id : Nat) : Cur (Option (Nat × Nat)) :=
  if ¬ e.present then pure none else
  if e.profile = 0xBEDE then loopM (getExt1Body e.data id) (e.data.size + 1) 0
  else if e.profile / 16 = 0x100 then loopM (getExt2Body e.data id) (e.data.size + 1) 0   -- `profile & 0xFFF0 == 0x1000`
  else pure none

/-! ### set_extension (src/rtp.rs:182-248, after the `fix:` commit that bounds-checks the element) -/

structure SetSt where
  offset : Nat
  found : Bool
  out : Array UInt8

def setExtBody (d : Array UInt8) (id : Nat) (idHeader : Nat) (data : Array UInt8) (s : SetSt) :
    Cur (SetSt ⊕ SetSt) := do
  if ¬ (s.offset < d.size) then pure (.inr s) else
  let b ← idx d s.offset
  if b = 0 then pure (.inl { s with offset := s.offset + 1 }) else
  let extId := b / 16
  let len := b % 16 + 1
  let offset := s.offset + 1
  if extId = 15 then pure (.inr s) else
  if extId = id then
    pure (.inl ⟨offset + len, true, (s.out.push (UInt8.ofNat idHeader)) ++ data⟩)
  else
    if offset + len > d.size then bail "InvalidHeader(\"malformed_header_extension_block\")" else
    let el ← slice d offset (offset + len)
    pure (.inl ⟨offset + len, s.found, (s.out.push (UInt8.ofNat b)) ++ el⟩)

/-- `RtpHeader::set_extension(id, data)`; result = new extension block -/
def setExtension (e : Ext) (id : Nat) (data : Array UInt8) : Cur (Array UInt8) := do
  if id = 0 ∨ id ≥ 15 then bail "InvalidHeader(\"invalid_extension_id_for_one-byte_header\")" else
  if data.size > 16 ∨ data.size = 0 then bail "InvalidHeader(\"invalid_extension_data_length\")" else
  let d := if e.present then e.data else #[]
  let profile := if e.present then e.profile else 0xBEDE
  if profile ≠ 0xBEDE then bail "InvalidHeader(\"unsupported_extension_profile_for_modification\")" else
  alloc (d.size + data.size + 1 + 4)
  let idHeader := id * 16 + (data.size - 1)
  let s ← loopM (setExtBody d id idHeader data) (d.size + 1) ⟨0, false, #[]⟩
  let out := if s.found then s.out else (s.out.push (UInt8.ofNat idHeader)) ++ data
  let aligned := (out.size + 3) / 4 * 4
  alloc (aligned - (d.size + data.size + 1 + 4))     -- growth beyond the reserved capacity (none when well-formed)
  pure (out ++ Array.replicate (aligned - out.size) 0)

/-! ### marshal (src/rtp.rs:348-387): writes into an exactly sized buffer; `BufMut for &mut [u8]`
panics when fewer bytes remain than are put — modelled with `advance` on a buffer of that size. -/

def encodedHdrLen (ncsrc : Nat) (hasExt : Bool) (extLen : Nat) : Nat :=
  12 + ncsrc * 4 + (if hasExt then 4 + extLen else 0)

/-- `RtpHeader::write_to` into `&mut buffer[..header_len]` -/
def writeTo (ncsrc : Nat) (hasExt : Bool) (extLen : Nat) : Cur Unit := do
  advance 1; advance 1; advance 2; advance 4; advance 4
  let _ ← loopM (fun (i : Nat) => do
      if i < ncsrc then
        advance 4
        pure (Sum.inl (β := Unit) (i + 1))
      else pure (.inr ())) (ncsrc + 1) 0
  if hasExt then
    advance 2; advance 2; advance extLen
  else pure ()

/-- `RtpPacket::marshal`: validate, allocate `encoded_len`, `marshal_impl`; returns the length -/
def marshal (pt ncsrc : Nat) (hasExt : Bool) (extLen payloadLen paddingLen : Nat) : Cur Nat := do
  let hlen := encodedHdrLen ncsrc hasExt extLen
  let total := hlen + payloadLen + paddingLen
  alloc total                                        -- `vec![0; packet_len]`
  if pt > 127 then bail "InvalidHeader(\"payload_type_does_not_fit_7_bits\")" else
  if ncsrc > 15 then bail "InvalidHeader(\"too_many_CSRC_entries\")" else
  if hasExt ∧ extLen % 4 ≠ 0 then bail "InvalidHeader(\"header_extension_payload_must_be_32-bit_aligned\")" else
  if hasExt ∧ extLen / 4 > 65535 then bail "InvalidHeader(\"header_extension_too_long\")" else
  let payloadEnd := hlen + payloadLen
  let hb ← sliceLen total 0 hlen                     -- `&mut buffer[..header_len]`
  let _ ← onBuf ⟨Array.replicate hb 0, 0⟩ (writeTo ncsrc hasExt extLen)
  let dst ← sliceLen total hlen payloadEnd           -- `buffer[header_len..payload_end]`
  if dst ≠ payloadLen then panicAt "copy_from_slice-len" else
  if paddingLen ≠ 0 then
    let _ ← sliceLen total payloadEnd total          -- `buffer[payload_end..]`
    pure total
  else pure total

/-! ## RTCP (src/rtp.rs:511-908) -/

/-- sizes of the Rust element types pushed into `Vec`s (x86-64) -/
def szReportBlock : Nat := 28
def szRtcpPacket : Nat := 64
def szSdesChunk : Nat := 32
def szSdesItem : Nat := 32

/-- report blocks: `for _ in 0..fmt { check; parse_report_block(&body[offset..offset+24]) }`;
state = (i, offset, digest accumulator) -/
def reportBlocksBody (fmt : Nat) (body : Array UInt8) (s : Nat × Nat × Nat) : Cur ((Nat × Nat × Nat) ⊕ Nat) := do
  if ¬ (s.1 < fmt) then pure (.inr s.2.2) else
  if body.size < s.2.1 + 24 then bail "LengthMismatch" else
  let blk ← slice body s.2.1 (s.2.1 + 24)
  let ssrc ← be32 blk 0
  let fl ← idx blk 4
  let l5 ← idx blk 5
  let l6 ← idx blk 6
  let l7 ← idx blk 7
  let hs ← be32 blk 8
  let ji ← be32 blk 12
  let lsr ← be32 blk 16
  let dlsr ← be32 blk 20
  let acc := (s.2.2 * 31 + ssrc + fl + (l5 * 65536 + l6 * 256 + l7) + hs + ji + lsr + dlsr) % 4294967296
  pure (.inl (s.1 + 1, s.2.1 + 24, acc))

def parseSenderReport (fmt : Nat) (body : Array UInt8) : Cur (List Nat) := do
  if body.size < 24 then bail "InvalidRtcp(\"sender_report_too_short\")" else
  let ssrc ← be32 body 0
  let ntpM ← be32 body 4
  let ntpL ← be32 body 8
  let rts ← be32 body 12
  let pc ← be32 body 16
  let oc ← be32 body 20
  alloc (fmt * szReportBlock)
  let d ← loopM (reportBlocksBody fmt body) (fmt + 1) (0, 24, 7)
  pure [200, ssrc, ntpM, ntpL, rts, pc, oc, fmt, d]

def parseReceiverReport (fmt : Nat) (body : Array UInt8) : Cur (List Nat) := do
  if body.size < 4 then bail "InvalidRtcp(\"receiver_report_too_short\")" else
  let ssrc ← be32 body 0
  alloc (fmt * szReportBlock)
  let d ← loopM (reportBlocksBody fmt body) (fmt + 1) (0, 4, 7)
  pure [201, ssrc, fmt, d]

/-- `while offset % 4 != 0 { if offset >= body.len() { break } offset += 1 }` -/
def sdesSkipPad (len : Nat) (offset : Nat) : Cur (Nat ⊕ Nat) :=
  if offset % 4 ≠ 0 then
    if offset ≥ len then pure (.inr offset) else pure (.inl (offset + 1))
  else pure (.inr offset)

/-- the item loop of one SDES chunk; state = (offset, #items, Σ ty) -/
def sdesItemsBody (body : Array UInt8) (s : Nat × Nat × Nat) : Cur ((Nat × Nat × Nat) ⊕ (Nat × Nat × Nat)) := do
  if s.1 ≥ body.size then pure (.inr s) else
  let ty ← idx body s.1
  let offset := s.1 + 1
  if ty = 0 then
    let o ← loopM (sdesSkipPad body.size) 4 offset
    pure (.inr (o, s.2.1, s.2.2))
  else
  if offset ≥ body.size then bail "PacketTooShort" else
  let len ← idx body offset
  let offset := offset + 1
  if body.size < offset + len then bail "PacketTooShort" else
  let _ ← slice body offset (offset + len)
  alloc (szSdesItem + 3 * len)                       -- lossy UTF-8 String + SdesItem pushed
  pure (.inl (offset + len, s.2.1 + 1, s.2.2 + ty))

/-- chunks loop; state = (i, offset, #items, Σ ty, Σ ssrc) -/
def sdesChunksBody (count : Nat) (body : Array UInt8) (s : Nat × Nat × Nat × Nat × Nat) :
    Cur ((Nat × Nat × Nat × Nat × Nat) ⊕ List Nat) := do
  if ¬ (s.1 < count) then pure (.inr [202, count, s.2.2.1, s.2.2.2.1, s.2.2.2.2]) else
  if body.size < s.2.1 + 4 then bail "PacketTooShort" else
  let ssrc ← be32 body s.2.1
  let r ← loopM (sdesItemsBody body) (body.size + 1) (s.2.1 + 4, s.2.2.1, s.2.2.2.1)
  pure (.inl (s.1 + 1, r.1, r.2.1, r.2.2, (s.2.2.2.2 + ssrc) % 4294967296))

def parseSdes (count : Nat) (body : Array UInt8) : Cur (List Nat) := do
  alloc (count * szSdesChunk)
  loopM (sdesChunksBody count body) (count + 1) (0, 0, 0, 0, 0)

/-- BYE sources loop; state = (i, offset, Σ ssrc) -/
def byeSourcesBody (count : Nat) (body : Array UInt8) (s : Nat × Nat × Nat) : Cur ((Nat × Nat × Nat) ⊕ (Nat × Nat)) := do
  if ¬ (s.1 < count) then pure (.inr (s.2.1, s.2.2)) else
  if body.size < s.2.1 + 4 then bail "PacketTooShort" else
  let ssrc ← be32 body s.2.1
  pure (.inl (s.1 + 1, s.2.1 + 4, (s.2.2 + ssrc) % 4294967296))

def parseGoodbye (count : Nat) (body : Array UInt8) : Cur (List Nat) := do
  alloc (count * 4)
  let r ← loopM (byeSourcesBody count body) (count + 1) (0, 0, 0)
  let offset := r.1
  if offset < body.size then
    let len ← idx body offset
    let offset := offset + 1
    if body.size < offset + len then bail "PacketTooShort" else
    let _ ← slice body offset (offset + len)
    alloc (3 * len)
    pure [203, count, r.2, 1]
  else pure [203, count, r.2, 0]

def parsePsfbCommon (body : Array UInt8) : Cur (List Nat) := do
  if body.size < 8 then bail "InvalidRtcp(\"payload_feedback_body_too_short\")" else
  let s ← be32 body 0
  let m ← be32 body 4
  pure [2061, s, m]

/-- FIR entries; state = (offset, count, Σ) -/
def firBody (body : Array UInt8) (s : Nat × Nat × Nat) : Cur ((Nat × Nat × Nat) ⊕ (Nat × Nat)) := do
  if ¬ (s.1 + 8 ≤ body.size) then pure (.inr (s.2.1, s.2.2)) else
  let ssrc ← be32 body s.1
  let sn ← idx body (s.1 + 4)
  alloc 8
  pure (.inl (s.1 + 8, s.2.1 + 1, (s.2.2 * 31 + ssrc + sn) % 4294967296))

def parseFir (body : Array UInt8) : Cur (List Nat) := do
  if body.size < 8 then bail "InvalidRtcp(\"FIR_body_too_short\")" else
  let ssrc ← be32 body 0
  let r ← loopM (firBody body) (body.size + 1) (8, 0, 7)
  pure [2064, ssrc, r.1, r.2]

/-- popcount of a 16-bit mask -/
def popcount16 (v : Nat) : Nat := (List.range 16).foldl (fun a i => a + (v / 2 ^ i) % 2) 0

/-- digest contribution of one (pid, blp) pair: Σ of the expanded sequence numbers -/
def nackExpandSum (pid blp : Nat) : Nat :=
  (List.range 16).foldl (fun a i => if (blp / 2 ^ i) % 2 = 1 then a + (pid + i + 1) % 65536 else a) pid

/-- NACK pairs; state = (offset, #lost, Σ lost) -/
def nackBody (body : Array UInt8) (s : Nat × Nat × Nat) : Cur ((Nat × Nat × Nat) ⊕ (Nat × Nat)) := do
  if ¬ (s.1 + 4 ≤ body.size) then pure (.inr (s.2.1, s.2.2)) else
  let pid ← be16 body s.1
  let blp ← be16 body (s.1 + 2)
  alloc 34                                           -- ≤ 17 u16 pushed
  pure (.inl (s.1 + 4, s.2.1 + 1 + popcount16 blp, (s.2.2 + nackExpandSum pid blp) % 4294967296))

def parseNack (body : Array UInt8) : Cur (List Nat) := do
  if body.size < 8 then bail "InvalidRtcp(\"NACK_body_too_short\")" else
  let s ← be32 body 0
  let m ← be32 body 4
  let r ← loopM (nackBody body) (body.size + 1) (8, 0, 0)
  pure [2051, s, m, r.1, r.2]

/-- REMB ssrc list; state = (i, offset, Σ) -/
def rembBody (num : Nat) (body : Array UInt8) (s : Nat × Nat × Nat) : Cur ((Nat × Nat × Nat) ⊕ Nat) := do
  if ¬ (s.1 < num) then pure (.inr s.2.2) else
  if body.size < s.2.1 + 4 then bail "LengthMismatch" else
  let v ← be32 body s.2.1
  pure (.inl (s.1 + 1, s.2.1 + 4, (s.2.2 + v) % 4294967296))

def parseRemb (body : Array UInt8) : Cur (List Nat) := do
  if body.size < 16 then bail "InvalidRtcp(\"invalid_REMB_payload\")" else
  let tag ← slice body 8 12
  if tag ≠ #[0x52, 0x45, 0x4D, 0x42] then bail "InvalidRtcp(\"invalid_REMB_payload\")" else
  let ssrc ← be32 body 0
  let num ← idx body 12
  let b13 ← idx body 13
  let b14 ← idx body 14
  let b15 ← idx body 15
  let exponent := b13 / 4
  let mantissa := (b13 % 4) * 65536 + b14 * 256 + b15
  let bitrate := (mantissa * 2 ^ exponent) % 18446744073709551616   -- u64 `<<` discards high bits
  alloc (num * 4)
  let d ← loopM (rembBody num body) (num + 1) (0, 16, 0)
  pure [2069, ssrc, bitrate, num, d]

def parseTwcc (body : Array UInt8) : Cur (List Nat) := do
  if body.size < 16 then bail "InvalidRtcp(\"TWCC_body_too_short\")" else
  let s ← be32 body 0
  let m ← be32 body 4
  let bs ← be16 body 8
  let cnt ← be16 body 10
  let r1 ← idx body 12
  let r2 ← idx body 13
  let r3 ← idx body 14
  let fb ← idx body 15
  let p ← slice body 16 body.size
  alloc p.size
  pure [2055, s, m, bs, cnt, (r1 * 256 + r2) * 256 + r3, fb, p.size]

/-- dispatch on packet type; the empty digest = type not collected (XR / unknown) -/
def parseSub (pt fmt : Nat) (body : Array UInt8) : Cur (List Nat) :=
  if pt = c07RtcpSr then parseSenderReport fmt body
  else if pt = c07RtcpRr then parseReceiverReport fmt body
  else if pt = c07RtcpSdes then parseSdes fmt body
  else if pt = c07RtcpBye then parseGoodbye fmt body
  else if pt = c07RtcpRtpfb then
    if fmt = c07FmtNack then parseNack body
    else if fmt = c07FmtTwcc then parseTwcc body
    else bail "InvalidRtcp(\"unsupported_RTP_feedback_format\")"
  else if pt = c07RtcpPsfb then
    if fmt = c07FmtPli then parsePsfbCommon body
    else if fmt = c07FmtFir then parseFir body
    else if fmt = c07FmtApp then parseRemb body
    else bail "InvalidRtcp(\"unsupported_payload_feedback_format\")"
  else pure []

/-- compound walk; state = (offset, packets so far (reversed)) -/
def compoundBody (raw : Array UInt8) (s : Nat × List (List Nat)) :
    Cur ((Nat × List (List Nat)) ⊕ List (List Nat)) := do
  let offset := s.1
  if ¬ (offset + 4 ≤ raw.size) then pure (.inr s.2.reverse) else
  let vrc ← idx raw offset
  if vrc / 64 ≠ c07RtpVersion then bail "InvalidRtcp(\"invalid_RTCP_version\")" else
  let padding := (vrc / 32) % 2 ≠ 0
  let fmt := vrc % 32
  let pt ← idx raw (offset + 1)
  let lw ← be16 raw (offset + 2)
  let packetLen := (lw + 1) * 4
  if raw.size < offset + packetLen then bail "LengthMismatch" else
  let bodyLen := packetLen - 4
  let bodyEnd := offset + packetLen
  let pad ← (if padding then idx raw (bodyEnd - 1) else pure 0 : Cur Nat)
  if padding ∧ (pad = 0 ∨ pad > bodyLen) then bail "InvalidRtcp(\"invalid_padding_in_RTCP_packet\")" else
  let bodyEnd := bodyEnd - pad
  let body ← slice raw (offset + 4) bodyEnd
  let d ← parseSub pt fmt body
  if d ≠ [] then
    alloc szRtcpPacket
    pure (.inl (offset + packetLen, d :: s.2))
  else pure (.inl (offset + packetLen, s.2))

/-- `parse_rtcp_packets(raw, _)` -/
def parseRtcp (raw : Array UInt8) : Cur (List (List Nat)) := do
  alloc (c07RtcpVecCap * szRtcpPacket)
  loopM (compoundBody raw) (raw.size + 1) (0, [])

end RtcModel.C07.Rtp
