import RtcModel.SctpAssoc
import RtcModel.SctpSack
import RtcModel.SctpSend
import RtcModel.SctpFrag
import RtcModel.Drv.Util
namespace RtcModel.Drv.C01
open RtcModel.Sctp RtcModel.Drv

def u32? (s : String) : Option UInt32 := s.toNat?.map UInt32.ofNat
def u16? (s : String) : Option UInt16 := s.toNat?.map UInt16.ofNat
def u8? (s : String) : Option UInt8 := s.toNat?.map UInt8.ofNat
def optU16? (s : String) : Option (Option UInt16) := if s = "-" then some none else (u16? s).map some

def fnv64 (bs : List UInt8) : UInt64 :=
  bs.foldl (fun h b => (h ^^^ b.toUInt64) * 0x100000001b3) 0xcbf29ce484222325

/-- short payloads in full, long ones as length + FNV-1a-64 -/
def showBytes (bs : List UInt8) : String :=
  if bs.length ≤ 24 then hex bs else s!"{bs.length}.{fnv64 bs}"

def showGaps (gs : List (UInt16 × UInt16)) : String :=
  if gs.isEmpty then "-" else ",".intercalate (gs.map fun g => s!"{g.1}-{g.2}")

def showU32s (ts : List UInt32) : String :=
  if ts.isEmpty then "-" else ",".intercalate (ts.map fun t => s!"{t}")

def showSack (k : Sack) : String := s!"S:{k.cum}:{k.arwnd}:{showGaps k.gaps}:{showU32s k.dups}"

def showEv : ChanEv → String
  | .open_ => "O"
  | .close => "C"
  | .msg d => "M" ++ showBytes d

def showOptU16 : Option UInt16 → String
  | none => "-"
  | some v => toString v

def showChan (c : Chan) : String :=
  s!"ch{c.id}:{c.state}:" ++ (if c.events.isEmpty then "-" else ",".intercalate (c.events.map showEv)) ++
    (if c.negotiated then "" else s!":o{b01 c.ordered}:r{showOptU16 c.maxRetransmits}:t{showOptU16 c.maxLifetime}:{hex c.label}:{hex c.protocol}")

def showAct : Act → Option String
  | .dcepAck sid => some s!"ack{sid}"
  | .dcepOpen sid => some s!"open{sid}"
  | .newChannel _ => none

/-! ### function-level streams -/

/-- `gap <cum> <t,t,…|->` -/
def doGap (args : List String) : String :=
  match args with
  | [cum, ts] =>
    match u32? cum, (if ts = "-" then some [] else (fields ts).mapM u32?) with
    | some c, some held => showGaps (gapBlocks held c)
    | _, _ => "bad-args"
  | _ => "bad-args"

def parseRec (t : String) : Option SRec :=
  match fields t with
  | [tsn, len, sent, tc, mr, ab, fr, nr, frms, inf, ack] => do
    some { tsn := ← u32? tsn, len := ← len.toNat?, sentMs := ← sent.toNat?, transmitCount := ← tc.toNat?,
           missingReports := ← mr.toNat?, abandoned := ab = "1", fastRetransmit := fr = "1",
           needsRetransmit := nr = "1", frMs := ← (if frms = "-" then some none else frms.toNat?.map some),
           inFlight := inf = "1", acked := ack = "1" }
  | _ => none

def showRec (r : SRec) : String :=
  let fr := match r.frMs with | none => "-" | some v => toString v
  s!"{r.tsn},{r.len},{r.sentMs},{r.transmitCount},{r.missingReports},{b01 r.abandoned},{b01 r.fastRetransmit},{b01 r.needsRetransmit},{fr},{b01 r.inFlight},{b01 r.acked}"

def parseGapsArg (t : String) : Option (List (UInt16 × UInt16)) :=
  if t = "-" then some [] else
  (fields t).mapM fun g =>
    match g.splitOn "-" with
    | [a, b] => do some (← u16? a, ← u16? b)
    | _ => none

/-- `sack <cum> <gaps> <now> <count> <maxrtx> rec rec …` -/
def doSack (args : List String) : String :=
  match args with
  | cum :: gaps :: now :: cnt :: mx :: recs =>
    match u32? cum, parseGapsArg gaps, now.toNat?, mx.toNat?, recs.mapM parseRec with
    | some c, some g, some n, some m, some q =>
      let r := applySack q c g n (cnt = "1") m
      let o := r.2
      let rtt := if o.rttSamples.isEmpty then "-" else ",".intercalate (o.rttSamples.map toString)
      let rx := if o.retransmit.isEmpty then "-" else ",".intercalate (o.retransmit.map fun p => s!"{p.1}:{p.2}")
      s!"fr={o.flightReduction} bc={o.bytesCum} bg={o.bytesGap} rtt={rtt} rx={rx} hm={b01 o.headMoved} mr={o.maxReported} | " ++
        " ".intercalate (r.1.map showRec)
    | _, _, _, _, _ => "bad-args"
  | _ => "bad-args"

/-- `hsack <peerCumAck> <lastSig> <maxrtx> <held (oracle only)> rec … / cum,arwnd,gaps …`: a history of SACKs through
`handle_sack`; per SACK: peer_rwnd, peer_cumulative_ack, flight, retransmitted bytes, the queue -/
def doHsack (args : List String) : String :=
  match args with
  | pc :: ls :: mx :: _held :: rest =>
    let recT := rest.takeWhile (· ≠ "/")
    let sackT := (rest.dropWhile (· ≠ "/")).drop 1
    let sacks := sackT.mapM fun t =>
      match t.splitOn ";" with
      | [c, a, g] => do some (← u32? c, ← a.toNat?, ← parseGapsArg g)
      | _ => none
    match u32? pc, ls.toNat?, mx.toNat?, (recT.filter (· ≠ "-")).mapM parseRec, sacks with
    | some pc, some ls, some mx, some q, some sacks =>
      let fl := ((q.filter (·.inFlight)).map (·.len)).sum
      let init : Tx × SackHist × List String :=
        ({ sentQ := q, flight := fl, cwnd := 100000, peerRwnd := 100000 }, { peerCumAck := pc, lastSig := UInt64.ofNat ls }, [])
      let r := sacks.foldl (fun (st : Tx × SackHist × List String) k =>
        let x := handleSackTx st.1 st.2.1 k.1 k.2.1 k.2.2 100000 mx
        let rexb := (x.2.2.map fun | .rexmit _ l => l | _ => 0).sum
        let showN (r : SRec) := showRec { r with sentMs := if r.sentMs ≥ 50000 then 0 else r.sentMs,
                                                  frMs := r.frMs.map fun v => if v ≥ 50000 then 0 else v }
        (x.1, x.2.1, st.2.2 ++ [s!"rw={x.1.peerRwnd} pc={x.2.1.peerCumAck} fl={x.1.flight} rexb={rexb} q={" ".intercalate (x.1.sentQ.map showN)}"])) init
      " | ".intercalate r.2.2
    | _, _, _, _, _ => "bad-args"
  | _ => "bad-args"

def showStream (s : InStream) : String :=
  let ks := (sortKeys (s.pending.map fun e => e.1.toUInt32))
  s!"{s.nextSsn}/{showU32s ks}"

/-- `istream op op …` with `e,ssn,hex` / `d` / `a,ssn`; per op: delivered messages, next_ssn, pending keys -/
def doIstream (args : List String) : String :=
  let rec go (s : InStream) (ops : List String) (acc : List String) : List String :=
    match ops with
    | [] => acc.reverse
    | t :: rest =>
      match fields t with
      | ["e", ssn, hx] =>
        match u16? ssn, unhex hx with
        | some n, some d =>
          let r := s.enqueue n d
          go r.1 rest ((s!"[{",".intercalate (r.2.map showBytes)}]{showStream r.1}") :: acc)
        | _, _ => ("bad-op" :: acc).reverse
      | ["d"] =>
        let r := s.drainReady
        go r.1 rest ((s!"[{",".intercalate (r.2.map showBytes)}]{showStream r.1}") :: acc)
      | ["a", ssn] =>
        match u16? ssn with
        | some n => let s1 := s.advanceSsnTo n; go s1 rest ((s!"[]{showStream s1}") :: acc)
        | none => ("bad-op" :: acc).reverse
      | _ => ("bad-op" :: acc).reverse
  " ".intercalate (go InStream.new args [])

/-- `frag <found 0/1>,<ordered>,<maxPayload>,<nextSsn>,<maxRetransmits|->,<maxLifetime|-> <ppid> <hex>` -/
def doFrag (args : List String) : String :=
  match args with
  | [cfg, ppid, hx] =>
    match fields cfg, u32? ppid, unhex hx with
    | [found, ord, mp, ns, mr, ml], some p, some d =>
      match mp.toNat?, u16? ns, optU16? mr, optU16? ml with
      | some mp, some ns, some mr, some ml =>
        let cs : List TxChan := if found = "1" then
          [{ id := 7, ordered := ord = "1", maxPayload := mp, nextSsn := ns, maxRetransmits := mr, maxLifetime := ml }] else []
        let r := sendDataRaw cs 7 p d
        let nssn := match findTx r.1 7 with | some c => toString c.nextSsn | none => "-"
        s!"{nssn} " ++ " ".intercalate (r.2.map fun o =>
          let mrs := match o.maxRetransmits with | none => "-" | some v => toString v
          s!"{o.flags}:{o.ssn}:{mrs}:{b01 o.hasExpiry}:{showBytes o.payload}")
      | _, _, _, _ => "bad-args"
    | _, _, _ => "bad-args"
  | _ => "bad-args"

/-! ### endpoint replay -/

def parseChanCfg (t : String) : Option Chan :=
  match fields t with
  | ["ch", id, ord, neg, st] => do
    some { id := ← u16? id, ordered := ord = "1", negotiated := neg = "1", state := ← st.toNat? }
  | ["ch", id, ord, neg, st, mr, ml, lab, pro] => do
    some { id := ← u16? id, ordered := ord = "1", negotiated := neg = "1", state := ← st.toNat?,
           maxRetransmits := ← optU16? mr, maxLifetime := ← optU16? ml, label := ← unhex lab, protocol := ← unhex pro }
  | _ => none

def showEp (e : Ep) : String :=
  let rq := showU32s (sortKeys (e.rx.rq.map (·.1)))
  let chans := if e.rx.pl.chans.isEmpty then "-" else " ".intercalate (e.rx.pl.chans.map showChan)
  let al := e.rx.pl.acts.filterMap showAct
  let acts := if al.isEmpty then "-" else ",".intercalate al
  let st := match e.state with | .new => "new" | .connecting => "connecting" | .connected => "connected" | .closed => "closed"
  s!"| cum={e.rx.cum} rq={rq} st={st} | {chans} | {acts}"

/-- `rx cfg,<localRwnd> [ch,…]* [L | R,hex | W | T,hex]*` → SACKs the model emits, then the final state -/
def doRx (args : List String) : String :=
  match args with
  | cfg :: rest =>
    match fields cfg with
    | ["cfg", rw] =>
      match rw.toNat? with
      | none => "bad-cfg"
      | some rw =>
        let chTok := rest.takeWhile (fun t => t.startsWith "ch,")
        let evs := rest.dropWhile (fun t => t.startsWith "ch,")
        match chTok.mapM parseChanCfg with
        | none => "bad-chan"
        | some chans =>
          let e0 : Ep := { rx := { cum := 0, localRwnd := rw, pl := { chans := chans } } }
          let rec go (e : Ep) (evs : List String) : Ep × Option String :=
            match evs with
            | [] => (e, none)
            | t :: more =>
              if e.cleaned then (e, none)
              else if t = "L" then go (loopTop e) more
              else if t = "W" then go (onTransmitMark e) more
              else if t = "Z" then go (localClose e) more
              else if t = "F" then go (finishEp e) more
              else match fields t with
                | ["R", hx] =>
                  match unhex hx with
                  | some p => go (handlePacket e p) more
                  | none => (e, some "bad-hex")
                | ["X", id] =>
                  match u16? id with
                  | some id => go (closeDataChannel e id) more
                  | none => (e, some "bad-ev")
                | ["T", hx] =>
                  match unhex hx with
                  | some p => go (noteTx e p) more
                  | none => (e, some "bad-hex")
                | _ => (e, some "bad-ev")
          let r := go e0 evs
          match r.2 with
          | some err => err
          | none => (if r.1.sacks.isEmpty then "-" else " ".intercalate (r.1.sacks.map showSack)) ++ " " ++ showEp r.1
    | _ => "bad-cfg"
  | _ => "bad-args"

def handle (stream : String) (args : List String) : String :=
  match stream with
  | "gap" => doGap args
  | "sack" => doSack args
  | "hsack" => doHsack args
  | "istream" => doIstream args
  | "frag" => doFrag args
  | "rx" => doRx args
  | _ => "bad-stream"

end RtcModel.Drv.C01
