import RtcModel.Drv.C01
import RtcModel.SctpTrace
import RtcModel.Drv.Util
namespace RtcModel.Drv.C13
open RtcModel.Sctp RtcModel.Drv

def u32? (s : String) : Option UInt32 := s.toNat?.map UInt32.ofNat
def u16? (s : String) : Option UInt16 := s.toNat?.map UInt16.ofNat
def u8? (s : String) : Option UInt8 := s.toNat?.map UInt8.ofNat

/-- `batch <src> <dst> <tag> <hexchunk>…` → the datagrams `transmit_chunks_with_tag` emits -/
def doBatch (args : List String) : String :=
  match args with
  | src :: dst :: tag :: chunks =>
    match u16? src, u16? dst, u32? tag, chunks.mapM unhex with
    | some s, some d, some t, some cs =>
      let ps := (batch cs).map (encPacket s d t)
      if ps.isEmpty then "-" else " ".intercalate (ps.map hex)
    | _, _, _, _ => "bad-args"
  | _ => "bad-args"

/-- `datachunk <sid> <ppid> <ssn> <flags> <tsn> <hex>` → `create_data_chunk` bytes -/
def doDataChunk (args : List String) : String :=
  match args with
  | [sid, ppid, ssn, fl, tsn, hx] =>
    match u16? sid, u32? ppid, u16? ssn, u8? fl, u32? tsn, unhex hx with
    | some sid, some ppid, some ssn, some fl, some tsn, some d =>
      hex (encData { tsn, flags := fl, sid, ssn, ppid, data := d })
    | _, _, _, _, _, _ => "bad-args"
  | _ => "bad-args"

/-- `crc <hex>` → CRC-32C; `crcapp <crc> <hex>` → `sctp_crc32c_append` -/
def doCrc (args : List String) : String :=
  match args with
  | [hx] => match unhex hx with | some d => toString (crc32c d) | none => "bad-args"
  | [c, hx] => match u32? c, unhex hx with | some c, some d => toString (crc32cAppend c d) | _, _ => "bad-args"
  | _ => "bad-args"

/-- `sackchunk <cum> <arwnd> <gaps|-> <dups|->` → `create_sack_chunk` bytes -/
def doSackChunk (args : List String) : String :=
  match args with
  | [cum, rw, gaps, dups] =>
    let gs := if gaps = "-" then some [] else (fields gaps).mapM fun g =>
      match g.splitOn "-" with | [a, b] => do some (← u16? a, ← u16? b) | _ => none
    let ds := if dups = "-" then some [] else (fields dups).mapM u32?
    match u32? cum, rw.toNat?, gs, ds with
    | some c, some r, some g, some d => hex (encSack { cum := c, arwnd := r, gaps := g, dups := d })
    | _, _, _, _ => "bad-args"
  | _ => "bad-args"

/-- `wire A,<hex> B,<hex> …` → verdict of `wireCheck` -/
def doWire (args : List String) : String :=
  let pk := args.mapM fun t =>
    match fields t with
    | [s, hx] => do some ((if s = "A" then 0 else 1), ← unhex hx)
    | _ => none
  match pk with
  | none => "bad-args"
  | some pkts =>
    let w := wireCheck pkts
    match w.viol with
    | some v => s!"viol:{v}"
    | none => s!"ok pk={w.packets} max={w.maxLen} newA={w.a.newData} rexA={w.a.rexmit} newB={w.b.newData} rexB={w.b.rexmit}"

def parseTEv (t : String) : Option TEv :=
  match fields t with
  | ["L"] => some .loop
  | ["3"] => some .t3
  | ["R", hx] => do some (.rx (← unhex hx))
  | ["T", hx] => do some (.tx (← unhex hx))
  | ["W", a, b, c, d, e] => do some (.win (← a.toNat?) (← b.toNat?) (← c.toNat?) (← d.toNat?) (← e.toNat?))
  | ["N", a, b, c, d] => do some (.new (← a.toNat?) (← b.toNat?) (← c.toNat?) (d = "1"))
  | ["E", ch, pp, len] => do some (.enq (← u16? ch) (← u32? pp) (← len.toNat?))
  | _ => none

/-- `txw mp,<chan>,<maxPayload>… ev…` → per `transmit()` the model's window results, then the verdict -/
def doTxw (args : List String) : String :=
  let cfgT := args.takeWhile (fun t => t.startsWith "mp,")
  let evT := args.dropWhile (fun t => t.startsWith "mp,")
  let cfg := cfgT.mapM fun t =>
    match fields t with
    | ["mp", ch, v] => do some (← u16? ch, ← v.toNat?)
    | _ => none
  match cfg, evT.mapM parseTEv with
  | some cfg, some evs =>
    let st := epCheck cfg evs
    let v := match st.viol with | some v => s!"viol:{v}" | none => "ok"
    (if st.out.isEmpty then "-" else " ".intercalate st.out) ++ s!" | {v} rex={st.rexmits} q={st.outQ.length} quiet={st.quietTx} over={st.maxOver}"
  | _, _ => "bad-args"

def optU16? (s : String) : Option (Option UInt16) := if s = "-" then some none else (u16? s).map some

def parseRec (t : String) : Option SRec :=
  match fields t with
  | [tsn, len, sent, tc, mr, ab, fr, nr, frms, inf, ack, maxr, exp] => do
    some { tsn := ← u32? tsn, len := ← len.toNat?, sentMs := ← sent.toNat?, transmitCount := ← tc.toNat?,
           missingReports := ← mr.toNat?, abandoned := ab = "1", fastRetransmit := fr = "1",
           needsRetransmit := nr = "1", frMs := ← (if frms = "-" then some none else frms.toNat?.map some),
           inFlight := inf = "1", acked := ack = "1", maxRetransmits := ← optU16? maxr, hasExpiry := exp = "1" }
  | _ => none

/-- times near "now" (100 s after the base) are printed as `N` -/
def showMs (v : Nat) : String := if 50000 ≤ v && v < 150000 then "N" else toString v

def showRec (r : SRec) : String :=
  let fr := match r.frMs with | none => "-" | some v => showMs v
  let mx := match r.maxRetransmits with | none => "-" | some v => toString v
  s!"{r.tsn},{r.len},{showMs r.sentMs},{r.transmitCount},{r.missingReports},{b01 r.abandoned},{b01 r.fastRetransmit},{b01 r.needsRetransmit},{fr},{b01 r.inFlight},{b01 r.acked},{mx},{b01 r.hasExpiry}"

def showQ (q : List SRec) : String := if q.isEmpty then "-" else " ".intercalate (q.map showRec)

def parseOut (t : String) : Option OChunk :=
  match fields t with
  | [sid, ppid, ssn, fl, len, mr, exp] => do
    some { sid := ← u16? sid, ppid := ← u32? ppid, ssn := ← u16? ssn, flags := ← u8? fl,
           payload := List.replicate (← len.toNat?) 0, maxRetransmits := ← optU16? mr, hasExpiry := exp = "1" }
  | _ => none

/-- `t3 <cwnd> <flight> <rto> <maxrtx> rec…` → `handle_timeout` at time 100000 -/
def doT3 (args : List String) : String :=
  match args with
  | cwnd :: fl :: rto :: mx :: recs =>
    match cwnd.toNat?, fl.toNat?, rto.toNat?, mx.toNat?, (recs.filter (· ≠ "-")).mapM parseRec with
    | some c, some f, some rto, some mx, some q =>
      let s := handleTimeout { sentQ := q, cwnd := c, flight := f } 100000 rto mx
      s!"cwnd={s.cwnd} flight={s.flight} | {showQ s.sentQ}"
    | _, _, _, _, _ => "bad-args"
  | _ => "bad-args"

/-- `tlp <flight> rec…` → `maybe_send_tlp_probe` -/
def doTlp (args : List String) : String :=
  match args with
  | fl :: recs =>
    match fl.toNat?, (recs.filter (· ≠ "-")).mapM parseRec with
    | some f, some q =>
      let s := tlpProbe { sentQ := q, flight := f } 100000
      s!"flight={s.flight} | {showQ s.sentQ}"
    | _, _ => "bad-args"
  | _ => "bad-args"

/-- `tx <cwnd> <flight> <rwnd> <nextTsn> <sack> <maxBurst> rec… / out…` → one `transmit()` -/
def doTx (args : List String) : String :=
  match args with
  | cwnd :: fl :: rw :: nt :: sk :: mb :: rest =>
    let recT := rest.takeWhile (· ≠ "/")
    let outT := (rest.dropWhile (· ≠ "/")).drop 1
    match cwnd.toNat?, fl.toNat?, rw.toNat?, u32? nt, mb.toNat?, (recT.filter (· ≠ "-")).mapM parseRec, outT.mapM parseOut with
    | some c, some f, some rw, some nt, some mb, some q, some o =>
      let r := transmit { sentQ := q, outQ := o, cwnd := c, flight := f, peerRwnd := rw, nextTsn := nt, maxBurst := mb } (sk = "1") 100000
      let lens := r.2.map fun
        | .sack => 16
        | .rexmit _ l => l
        | .fresh ch => (encData ch).length
      let pk := (batch (lens.map fun l => List.replicate l (0 : UInt8))).length
      s!"bytes={lens.sum} pk={pk} flight={r.1.flight} next={r.1.nextTsn} outq={r.1.outQ.length} | {showQ r.1.sentQ}"
    | _, _, _, _, _, _, _ => "bad-args"
  | _ => "bad-args"

def handle (stream : String) (args : List String) : String :=
  match stream with
  | "batch" => doBatch args
  | "datachunk" => doDataChunk args
  | "crc" => doCrc args
  | "sackchunk" => doSackChunk args
  | "wire" => doWire args
  | "txw" => doTxw args
  | "hsack" => RtcModel.Drv.C01.doHsack args
  | "t3" => doT3 args
  | "tlp" => doTlp args
  | "tx" => doTx args
  | _ => "bad-stream"

end RtcModel.Drv.C13
