import RtcModel.IceAuth
import RtcModel.Base.C16Crypto
import RtcModel.Drv.Util
namespace RtcModel.Drv.C06
open RtcModel.Stun RtcModel.IcePrio RtcModel.IceAuth RtcModel.C16Bytes RtcModel.Drv

def realPrims : Prims where
  hmac k d := let h := C16Crypto.hmacSha1 k d; if h.length = 20 then h else zeros 20
  crc d := (C16Crypto.crc32 d).toNat
  hmac_len k d := by
    by_cases h : (C16Crypto.hmacSha1 k d).length = 20 <;> simp [h]
  crc_lt d := (C16Crypto.crc32 d).toNat_lt

def parseAddr3 (f ip p : String) : Option Addr := do
  let ipb ← unhex ip
  let port ← p.toNat?
  match f with
  | "4" => some (.v4 ipb port)
  | "6" => some (.v6 ipb port)
  | _ => none

def showAddr : Addr → String
  | .v4 ip p => s!"4.{hex ip}.{p}"
  | .v6 ip p => s!"6.{hex ip}.{p}"

def parseTyp : String → Option CandType
  | "host" => some .host | "srflx" => some .srflx | "prflx" => some .prflx | "relay" => some .relay
  | _ => none
def showTyp : CandType → String
  | .host => "host" | .srflx => "srflx" | .prflx => "prflx" | .relay => "relay"

def parseState : String → Option IceState
  | "new" => some .new | "checking" => some .checking | "connected" => some .connected
  | "completed" => some .completed | "failed" => some .failed | "disconnected" => some .disconnected
  | "closed" => some .closed | _ => none
def showState : IceState → String
  | .new => "new" | .checking => "checking" | .connected => "connected" | .completed => "completed"
  | .failed => "failed" | .disconnected => "disconnected" | .closed => "closed"

def showCand (c : Cand) : String := s!"{showAddr c.address}:{showTyp c.typ}:{b01 c.tcp}:{c.priority}"

def showNom : Option Bool → String
  | none => "-" | some true => "t" | some false => "f"

/-- insertion sort of hex strings (the harness sorts the pending ids) -/
def sortStrs (l : List String) : List String :=
  l.foldl (fun acc x =>
    let rec ins : List String → List String
      | [] => [x]
      | y :: ys => if x < y then x :: y :: ys else y :: ins ys
    ins acc) []

def showSt (s : St) (out : String) : String :=
  let sel := match s.selected with
    | none => "-"
    | some p => s!"{showAddr p.loc.address}>{showCand p.rem}"
  let rems := if s.remotes.isEmpty then "-" else ";".intercalate (s.remotes.map showCand)
  let pend := if s.pending.isEmpty then "-" else ";".intercalate (sortStrs (s.pending.map hex))
  let ss := match s.selSock with | none => "-" | some .resolved => "udp" | some .stream => "tcp"
  s!"{showState s.state}/{showNom s.nominated}/{sel}/{rems}/{pend}/{ss}/{out}"

structure Cfg where
  st : St
  ufrag : Bytes
  pwd : Bytes

def parseSock (k f ip p : String) : Option Sock := do
  let a ← parseAddr3 f ip p
  match k with
  | "udp" => some (.udp a) | "shared" => some (.sharedUdp a) | "listener" => some (.tcpListener a)
  | "tcp" => some (.tcpStream a) | "turn" => some (.turn a) | _ => none

/-- expected reply bytes: Binding success, XOR-MAPPED-ADDRESS = source, MESSAGE-INTEGRITY under the local
password, FINGERPRINT (the C16 encoder model) -/
def replyBytes (pwd : Bytes) (tx : Bytes) (src : Addr) : Bytes :=
  encode realPrims ⟨.success, .binding, tx, [.xorMapped src]⟩ (some pwd) true

def showOut (o : Out) (reply : String) : String :=
  if o.panic then "panic" else if o.forwarded then "fwd" else if o.replied then s!"reply={reply}"
  else match o.delivered with
    | some tx => s!"deliv={hex tx}"
    | none => "-"

/-- apply the init tokens, then the packets -/
def runCase (toks : List String) : String :=
  let rec go (cfg : Cfg) (toks : List String) (acc : List String) (started : Bool) : List String :=
    match toks with
    | [] => (if started then acc else showSt cfg.st "-" :: acc).reverse
    | t :: rest =>
      match fields t with
      | ["cfg", role, st, latch, nom, uf, pw, mode, t0, disc, tmo, rp] =>
        match parseState st, unhex uf, unhex pw, t0.toNat?, disc.toNat?, tmo.toNat? with
        | some st, some uf, some pw, some t0, some disc, some tmo =>
          let s := { cfg.st with role := if role = "controlling" then .controlling else .controlled, state := st,
                                 latching := latch = "1", webrtc := mode = "webrtc",
                                 nominated := if nom = "t" then some true else if nom = "f" then some false else none,
                                 now := t0, lastRx := 0, discThreshold := disc, connTimeout := tmo,
                                 hasRemoteParams := rp = "1" }
          go { st := s, ufrag := uf, pwd := pw } rest acc started
        | _, _, _, _, _, _ => ("bad-cfg" :: acc).reverse
      | ["loc", f1, i1, p1, f2, i2, p2, typ, tcp, pas, prio, hs] =>
        match parseAddr3 f1 i1 p1, parseAddr3 f2 i2 p2, parseTyp typ, prio.toNat? with
        | some a, some b, some ty, some pr =>
          let c : Cand := ⟨a, b, ty, tcp = "1", pas = "1", pr, hs = "1"⟩
          go { cfg with st := { cfg.st with locals := cfg.st.locals ++ [c] } } rest acc started
        | _, _, _, _ => ("bad-loc" :: acc).reverse
      | ["rem", f1, i1, p1, typ, tcp, prio] =>
        match parseAddr3 f1 i1 p1, parseTyp typ, prio.toNat? with
        | some a, some ty, some pr =>
          let c : Cand := ⟨a, a, ty, tcp = "1", false, pr, false⟩
          go { cfg with st := { cfg.st with remotes := cfg.st.remotes ++ [c] } } rest acc started
        | _, _, _ => ("bad-rem" :: acc).reverse
      | ["sel", i, j] =>
        match i.toNat?, j.toNat? with
        | some i, some j =>
          match cfg.st.locals[i]?, cfg.st.remotes[j]? with
          | some l, some r => go { cfg with st := { cfg.st with selected := some ⟨l, r⟩ } } rest acc started
          | _, _ => ("bad-sel" :: acc).reverse
        | _, _ => ("bad-sel" :: acc).reverse
      | ["pend", tx] =>
        match unhex tx with
        | some tx => go { cfg with st := { cfg.st with pending := cfg.st.pending ++ [tx] } } rest acc started
        | none => ("bad-pend" :: acc).reverse
      | ["pkt", k, f1, i1, p1, f2, i2, p2, h] =>
        match parseSock k f1 i1 p1, parseAddr3 f2 i2 p2, unhex h with
        | some sock, some src, some bytes =>
          let acc := if started then acc else showSt cfg.st "-" :: acc
          let inp := classify realPrims cfg.ufrag cfg.pwd bytes
          let (s', o) := step { cfg.st with now := cfg.st.now + 1 } sock src inp
          let reply := match inp with
            | .request r => hex (replyBytes cfg.pwd r.tx src)
            | _ => "-"
          go { cfg with st := s' } rest (showSt s' (showOut o reply) :: acc) true
        | _, _, _ => ("bad-pkt" :: acc).reverse
      | ["tick", tx] =>
        match unhex tx with
        | some tx =>
          let acc := if started then acc else showSt cfg.st "-" :: acc
          let (s', k) := tick { cfg.st with now := cfg.st.now + 1 } tx
          let ks := match k with | .none => "ka=none" | .credentialed => "ka=cred" | .bare => "ka=bare"
          go { cfg with st := s' } rest (showSt s' ks :: acc) true
        | none => ("bad-tick" :: acc).reverse
      | _ => ("bad-token" :: acc).reverse
  let s0 : St := { role := .controlled, state := .new, remotes := [], locals := [], selected := none,
                   nominated := none, pending := [], latching := false, webrtc := true }
  " ".intercalate (go ⟨s0, [], []⟩ toks [] false)

/-- `auth <ufraghex> <pwdhex> <pkthex>` → the driver's reading of the request's credentials -/
def handle (stream : String) (args : List String) : String :=
  match stream, args with
  | "run", toks => runCase toks
  | "auth", [uf, pw, h] =>
    match unhex uf, unhex pw, unhex h with
    | some uf, some pw, some b =>
      match classify realPrims uf pw b with
      | .request r => s!"request auth={b01 r.accepted} rfc={b01 (rfcAuthentic realPrims uf pw b)} uc={b01 r.useCandidate}"
      | .response _ e => s!"response err={b01 e}"
      | .empty => "empty" | .data => "data" | .undecodable => "undecodable" | .indication => "indication"
    | _, _, _ => "bad-hex"
  | "probe", [tx, h, same] =>
    match unhex tx, unhex h with
    | some tx, some b => match probeAccept tx b (same = "1") with
      | some a => s!"some {match a with | .v4 ip p => s!"4,{hex ip},{p}" | .v6 ip p => s!"6,{hex ip},{p}"}"
      | none => "none"
    | _, _ => "bad-hex"
  | "vmi", [k, h] =>
    match unhex k, unhex h with
    | some k, some b => b01 (verifyMI realPrims k b)
    | _, _ => "bad-hex"
  | "uname", [h] =>
    match unhex h with
    | some b => (match usernameOf b with | some (_, u) => "s" ++ hex u | none => "n") ++ " " ++
                (match peerUfrag b with | some u => "s" ++ hex u | none => "n")
    | none => "bad-hex"
  | "codeauth", [uf, pw, h] =>
    match unhex uf, unhex pw, unhex h with
    | some uf, some pw, some b => b01 (codeAuth realPrims uf pw b)
    | _, _, _ => "bad-hex"
  | _, _ => "bad-stream"

end RtcModel.Drv.C06
