import RtcModel.Jsep
import RtcModel.Drv.Util
namespace RtcModel.Drv.C09
open RtcModel.Jsep RtcModel.Text RtcModel.Drv

def strOfHex (h : String) : Option Str := do
  let bs ← unhex h
  some (bs.map (fun b => Char.ofNat b.toNat))

def listOfHex (s : String) : Option (List Str) :=
  if s = "_" then some [] else (s.splitOn "+").mapM strOfHex

def parseKind : String → Option Kind
  | "a" => some .audio | "v" => some .video | "d" => some .application | "i" => some .image | _ => none
def parseDir : String → Option Dir
  | "sr" => some .sendrecv | "so" => some .sendonly | "ro" => some .recvonly | "in" => some .inactive | _ => none
def parseTy : String → Option SdpType
  | "o" => some .offer | "a" => some .answer | "p" => some .pranswer | "r" => some .rollback | _ => none
/-- mode letter, `!` appended when every socket bind fails (environment) -/
def parseMode : String → Option (Mode × Bool)
  | "w" => some (.webrtc, false) | "s" => some (.srtp, false) | "r" => some (.rtp, false)
  | "w!" => some (.webrtc, true) | "s!" => some (.srtp, true) | "r!" => some (.rtp, true)
  | _ => none

def parseFp (s : String) : Option Fp :=
  if s = "o" then some .otherAlg else if s = "m" then some .missing else if s = "i" then some .invalid
  else match s.toList with
    | 's' :: r => (String.ofList r).toNat?.map Fp.sha256
    | _ => none

def parseSection (s : String) : Option Section :=
  match s.splitOn "," with
  | [k, mid, dir, fmts, rtpmaps, extmaps, a4, aa, su] => do
    let setup ← if su = "~" then some none else (strOfHex su).map some
    some { kind := ← parseKind k, mid := ← strOfHex mid, dir := ← parseDir dir, formats := ← listOfHex fmts,
           rtpmaps := ← listOfHex rtpmaps, extmaps := ← listOfHex extmaps, addr4 := a4 = "1", addrAny := aa = "1", setup }
  | _ => none

/-- `ty|id|eq|fp|groups|sessionSetup|sec;sec…` or a back reference `@id` to a description already seen on this line -/
def parseDesc (seen : List Desc) (s : String) : Option Desc :=
  match s.toList with
  | '@' :: r => do
    let id ← (String.ofList r).toNat?
    seen.find? (·.id = id)
  | _ =>
    match s.splitOn "|" with
    | [ty, id, eq, fp, groups, ssu, secs] => do
      let sections ← if secs = "_" then some [] else (secs.splitOn ";").mapM parseSection
      let groups ← if groups = "_" then some [] else
        (groups.splitOn "+").mapM (fun g => if g = "~" then some none else (strOfHex g).map some)
      let sessSetup ← if ssu = "~" then some none else (strOfHex ssu).map some
      some { id := ← id.toNat?, ty := ← parseTy ty, eqKey := ← eq.toNat?, fp := ← parseFp fp, sections, groups, sessSetup }
    | _ => none

def parseCall (seen : List Desc) (t : String) : Option Call :=
  match fields t with
  | ["co"] => some .createOffer
  | ["ca"] => some .createAnswer
  | ["cl"] => some .close
  | ["ds"] => some .dtlsStarted
  | ["at", k, d] => do some (.addTransceiver (← parseKind k) (← parseDir d))
  | ["tk", k] => do some (.addTransceiver (← parseKind k) .sendrecv)   -- `add_track`: a new SendRecv transceiver
  | "sl" :: rest => do some (.setLocal (← parseDesc seen (",".intercalate rest)))
  | "sr" :: rest => do some (.setRemote (← parseDesc seen (",".intercalate rest)))
  | _ => none

def hexU (n : Nat) : Char := if n < 10 then Char.ofNat (n + '0'.toNat) else Char.ofNat (n - 10 + 'A'.toNat)

def esc (s : Str) : String :=
  String.ofList (s.foldr (fun c acc =>
    if c.isAlphanum || c = '_' || c = '.' || c = '/' || c = '-' then c :: acc
    else '%' :: hexU (c.toNat / 16 % 16) :: hexU (c.toNat % 16) :: acc) [])

def showSig : SigState → String
  | .stable => "S" | .haveLocalOffer => "HL" | .haveRemoteOffer => "HR" | .closed => "C"
def showErr : Err → String
  | .invalidState => "eIS" | .notImplemented => "eNI" | .invalidConfiguration => "eIC" | .internal => "eIN"
def showRes : Res → String
  | .ok => "ok" | .err e => showErr e
def showKind : Kind → String
  | .audio => "a" | .video => "v" | .application => "d" | .image => "i"
def showDir : Dir → String
  | .sendrecv => "sr" | .sendonly => "so" | .recvonly => "ro" | .inactive => "in"

def showTrx (t : Trx) : String :=
  let mid := match t.mid with | none => "-" | some m => "=" ++ esc m
  let pm := ",".intercalate (t.pmap.map fun c => s!"{c.pt}~{esc c.name}~{c.clock}~{c.channels}")
  let em := ",".intercalate (t.ext.map fun e => s!"{e.1}~{esc e.2}")
  s!"{showKind t.kind}:{mid}:{showDir t.dir}:{pm}:{em}"

def showPc (r : Res) (pc : Pc) : String :=
  let l := match pc.loc with | none => "-" | some d => toString d.id
  let rm := match pc.rem with | none => "-" | some d => toString d.id
  let fp := match pc.remoteFp with | none => "-" | some v => toString v
  let ts := ";".intercalate (pc.trxs.map showTrx)
  let role := match pc.dtlsRole with | none => "-" | some true => "c" | some false => "s"
  s!"{showRes r}|{showSig pc.sig}|{l}|{rm}|{pc.nextMid}|{b01 pc.dtlsStarted}:{fp}:{role}|{ts}"

def parseTrxs (s : String) : Option (List (Kind × Dir)) :=
  if s = "_" then some [] else
  (s.splitOn ";").mapM fun t =>
    match t.splitOn "," with
    | [k, d] => do some (← parseKind k, ← parseDir d)
    | _ => none

def descOf : Call → Option Desc
  | .setLocal d => some d
  | .setRemote d => some d
  | _ => none

/-- `seq <id> <script> <mode> <trxs> call call …` — the symbolic script (first token) is for replay only -/
def handle (stream : String) (args : List String) : String :=
  match stream, args with
  | "seq", _script :: mode :: trxs :: calls =>
    match parseMode mode, parseTrxs trxs with
    | some m, some ts =>
      let pc0 := ts.foldl (fun pc kd => addTransceiver pc kd.1 kd.2) (Pc.new m.1 m.2)
      let rec go (pc : Pc) (seen : List Desc) (cs : List String) (acc : List String) : List String :=
        match cs with
        | [] => acc.reverse
        | t :: rest =>
          -- `ps,<state>`: the transport tasks reported a peer state other than Closed. Not part of the model's state: the
          -- model says NOTHING changes and `close` still forces Closed afterwards
          if (fields t).head? = some "ps" then go pc seen rest (showPc .ok pc :: acc) else
          match parseCall seen t with
          | none => ("bad-call" :: acc).reverse
          | some c =>
            let r := step pc c
            let seen' := match descOf c with | some d => d :: seen | none => seen
            go r.1 seen' rest (showPc r.2 r.1 :: acc)
      " ".intercalate (go pc0 [] calls [showPc .ok pc0])
    | _, _ => "bad-init"
  | _, _ => "bad-stream"

end RtcModel.Drv.C09
