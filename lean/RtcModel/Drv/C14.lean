import RtcModel.Gate
import RtcModel.Drv.Util
namespace RtcModel.Drv.C14
open RtcModel.Gate RtcModel.Drv

def bit (c : Char) : Bool := c = '1'

/-- per-transport config `<req><obs><lis><rtcpLis>` -/
def parseTr (t : String) : Option (Tr Sym) :=
  match t.toList with
  | [r, o, l, q] => some { required := bit r, sess := none, bridge := none,
                           listener := bit l, rtcpListener := bit q, observer := bit o }
  | _ => none

def parseWire (w : String) : Option Wire :=
  match w.toList with
  | ['c'] => some .clear
  | ['c', _] => some .clear   -- `c<shape>`: cleartext of another size / packet type
  | ['g'] => some .garbage
  | 'o' :: ds => (String.ofList ds).toNat?.map (fun k => .prot k true true)
  | 'O' :: ds => (String.ofList ds).toNat?.map (fun k => .prot k true false)
  -- unauthentic shapes: b flipped tag byte, t truncated tag, e SRTCP E bit cleared, y replay
  | c :: ds =>
    if c = 'b' ∨ c = 't' ∨ c = 'e' ∨ c = 'y' then (String.ofList ds).toNat?.map (fun k => .prot k false true)
    else if c = 'B' ∨ c = 'T' ∨ c = 'E' ∨ c = 'Y' then (String.ofList ds).toNat?.map (fun k => .prot k false false)
    else none
  | _ => none

def parseOp (t : String) : Option (Op Sym) :=
  match fields t with
  | ["k", t, k] => do some (.installKeys (← t.toNat?) (← k.toNat?))
  | ["sr", t] => do some (.sendRtp (← t.toNat?))
  | ["sw", t, p] => do some (.sendRaw (← t.toNat?) (p = "1") true)
  | ["sw", t, p, e] => do some (.sendRaw (← t.toNat?) (p = "1") (e = "1"))
  | ["ab", t, on] => do some (.setAbsSendTime (← t.toNat?) (on = "1"))
  | ["sc", t] => do some (.sendRtcp (← t.toNat?))
  | ["sb", t] => do some (.syncBye (← t.toNat?))
  | ["rr", t, w, v] => do some (.recvRtp (← t.toNat?) (← parseWire w) (v = "1"))
  | ["rc", t, w] => do some (.recvRtcp (← t.toNat?) (← parseWire w))
  | ["br", t, g, "-"] => do some (.setBridge (← t.toNat?) ⟨← g.toNat?, none⟩)
  | ["br", t, g, v] => do some (.setBridge (← t.toNat?) ⟨← g.toNat?, some (← v.toNat?)⟩)
  | ["bc", t] => do some (.clearBridge (← t.toNat?))
  | ["cl", t] => do some (.close (← t.toNat?))
  | ["fl", t, l, r, o] => do some (.setFlags (← t.toNat?) (l = "1") (r = "1") (o = "1"))
  | _ => none

def showProv : Prov → String
  | .auth k => s!"A{k}"
  | .unauth => "U"

def showEv : Ev → String
  | .emit c m f src =>
    let ms := match m with | .rtp => "r" | .rtcp => "c"
    let fs := match f with | .prot o k => s!"P{o}.{k}" | .clear => "C"
    let ss := match src with | .loc => "L" | .relay o p => s!"R{o}{showProv p}"
    s!"E{c}{ms}{fs}{ss}"
  | .deliver o sink p =>
    let ks := match sink with
      | .listener => "L" | .ingressObs => "I" | .rtcpListener => "T" | .relayObs t => s!"O{t}"
    s!"D{o}{ks}{showProv p}"
  | .ret true => "ok"
  | .ret false => "er"

def showEvs (es : List Ev) : String :=
  if es.isEmpty then "-" else ",".intercalate (es.map showEv)

/-- `gate <id> cfg,<tr0>,<tr1>,… op op …` → events of every op -/
def handle (stream : String) (args : List String) : String :=
  match stream, args with
  | "gate", cfg :: ops =>
    match fields cfg with
    | "cfg" :: trs =>
      match trs.mapM parseTr with
      | none => "bad-cfg"
      | some ts =>
        let dflt : Tr Sym := { required := false, sess := none, bridge := none, listener := false,
                               rtcpListener := false, observer := false }
        let s0 : St Sym := fun i => ts.getD i dflt
        let rec go (s : St Sym) (ops : List String) (acc : List String) : List String :=
          match ops with
          | [] => acc.reverse
          | t :: rest =>
            match parseOp t with
            | none => ("bad-op" :: acc).reverse
            | some o => let r := step s o; go r.1 rest (showEvs r.2 :: acc)
        let out := go s0 ops []
        if out.isEmpty then "-" else " ".intercalate out
    | _ => "bad-cfg"
  | "mode", [m] =>
    let md : Option Mode := match m with
      | "webrtc" => some .webrtc | "srtp" => some .srtp | "rtp" => some .rtp | _ => none
    match md with
    | some md =>
      -- the distinct `srtp_required` values among the transports a section can be attached to
      let fs := sectionTransportFlags md
      (if fs.contains false then "0" else "") ++ (if fs.contains true then "1" else "")
    | none => "bad-mode"
  | _, _ => "bad-stream"

end RtcModel.Drv.C14
