import RtcModel.Demux
import RtcModel.Bridge
import RtcModel.Drv.Util
namespace RtcModel.Drv.C19
open RtcModel.Drv

/-! ### helpers -/

def insSorted {α : Type} (lt : α → α → Bool) (x : α) : List α → List α
  | [] => [x]
  | y :: ys => if lt x y then x :: y :: ys else y :: insSorted lt x ys

def sortBy {α : Type} (lt : α → α → Bool) (xs : List α) : List α := xs.foldr (insSorted lt) []

def optNat (s : String) : Option (Option Nat) := if s = "-" then some none else s.toNat?.map some

def natList (s : String) : Option (List Nat) :=
  if s = "-" then some [] else (s.splitOn ".").mapM String.toNat?

def parseExt (prof hx : String) : Option (Option Demux.Ext) :=
  if prof = "-" then some none else do
    let p ← prof.toNat?
    let d ← unhex hx
    some (some { profile := p, data := d })

/-! ### demux stream -/
section demux
open RtcModel.Demux

def parseOp (t : String) : Option Op :=
  match fields t with
  | ["s", s, l] => do some (.regSsrc (← s.toNat?) (← l.toNat?))
  | ["r", h, l] => do some (.regRid (← unhex h) (← l.toNat?))
  | ["m", h, l] => do some (.regMid (← unhex h) (← l.toNat?))
  | ["P", ps, l] => do some (.regPts (← natList ps) (← l.toNat?))
  | ["p", p, l] => do some (.regPt (← p.toNat?) (← l.toNat?))
  | ["v", l] => do some (.regProv (← l.toNat?))
  | ["x", l] => do some (.closeL (← l.toNat?))
  | ["er", i] => do some (.setRidExt (← i.toNat?))
  | ["em", i] => do some (.setMidExt (← i.toNat?))
  | ["c"] => some .clear
  | ["k", s, p, prof, hx] => do
      some (.pkt { ssrc := ← s.toNat?, pt := ← p.toNat?, ext := ← parseExt prof hx })
  | ["k", s, p, prof, hx, fl] => do   -- `fl`: the listeners whose channel is full, dot-separated
      some (.pkt { ssrc := ← s.toNat?, pt := ← p.toNat?, ext := ← parseExt prof hx, full := ← natList fl })
  | _ => none

def showVia : Via → String
  | .rid => "r" | .mid => "m" | .ssrc => "s" | .pt => "p" | .prov => "v"

/-- only what the harness can observe on the implementation: who received the packet
(a closed-out listener shows up in the snapshot that follows) -/
def showOutcome : Outcome → String
  | .dropped => "0"
  | .delivered l _ => s!"d{l}"
  | .closedOut _ _ => "0"
  | .fullOut _ _ => "0"

def showSnap (r : Reg) : String :=
  let s := (sortBy (fun a b => a.1 < b.1) r.bySsrc).map (fun e => s!"{e.1}:{e.2}")
  let hx (m : List (Bytes × Lid)) :=
    (sortBy (fun (a b : String × Lid) => a.1 < b.1) (m.map (fun e => (hex e.1, e.2)))).map (fun e => s!"{e.1}:{e.2}")
  let t := r.routes.map (fun rt =>
    let m := match rt.mid with | none => "~" | some b => hex b
    let ps := if rt.pts.isEmpty then "-" else ".".intercalate (rt.pts.map toString)
    s!"{m}/{ps}/{rt.lid}/{b01 rt.provisional}")
  s!"S{";".intercalate s}|R{";".intercalate (hx r.byRid)}|M{";".intercalate (hx r.byMid)}|T{";".intercalate t}|W{r.sweepAt}"

def demuxRun (ops : List String) : String :=
  let rec go (r : Reg) (ops : List String) (acc : List String) : List String :=
    match ops with
    | [] => acc.reverse
    | t :: rest =>
      -- `f,<l>` / `u,<l>`: the harness fills / drains a listener channel; the model sees it through the packets' `full` list
      if t.startsWith "f," || t.startsWith "u," then go r rest (s!"-|{showSnap r}" :: acc) else
      match parseOp t with
      | none => ("bad-op" :: acc).reverse
      | some o =>
        let res := match o with
          | .clear => s!"n{clearCount r}"
          | _ => match (step r o).2 with | some oc => showOutcome oc | none => "-"
        let r' := (step r o).1
        go r' rest (s!"{res}|{showSnap r'}" :: acc)
  let out := go Reg.empty ops []
  if out.isEmpty then "-" else " ".intercalate out

end demux

/-! ### bridge stream -/
section bridge
open RtcModel.Bridge

def parseRule (t : String) : Option Rule :=
  match fields t with
  | ["rule", mp, fx, off, op, mi, mh] => do
    let mp ← optNat mp; let fx ← optNat fx; let off ← off.toNat?; let op ← optNat op; let mi ← optNat mi
    let mid ← (if mh = "~" then some none else (unhex mh).map some)
    some { matchPt := mp.map UInt8.ofNat, fixedOutSsrc := fx.map UInt32.ofNat, ssrcOffset := UInt32.ofNat off,
           outPt := op.map UInt8.ofNat, midExtId := mi.map UInt8.ofNat, mid }
  | _ => none

def parseCfg (t : String) (rules : List Rule) : Option Cfg :=
  match fields t with
  | ["cfg", st, is, io, it, hv, vp] => do
    let is ← optNat is; let io ← optNat io; let it ← optNat it; let vp ← natList vp
    some { rules, opts := { strip := st = "1", initSeq := is.map UInt16.ofNat, initTsOff := io.map UInt32.ofNat,
                            initOutTs := it.map UInt32.ofNat },
           videoPts := vp.map UInt8.ofNat, hasVideo := hv = "1" }
  | _ => none

/-- packet token; the optional last field is `0` when the relay push is refused after the rewrite -/
def parsePkt (t : String) : Option ((Pkt × UInt16 × UInt32) × Bool) :=
  let go (s p q ts m prof hx ra rb : String) (sent : Bool) : Option ((Pkt × UInt16 × UInt32) × Bool) := do
    let e ← parseExt prof hx
    some (({ ssrc := UInt32.ofNat (← s.toNat?), pt := UInt8.ofNat (← p.toNat?), seq := UInt16.ofNat (← q.toNat?),
             ts := UInt32.ofNat (← ts.toNat?), marker := m = "1", ext := e },
           UInt16.ofNat (← ra.toNat?), UInt32.ofNat (← rb.toNat?)), sent)
  match fields t with
  | ["k", s, p, q, ts, m, prof, hx, ra, rb] => go s p q ts m prof hx ra rb true
  | ["k", s, p, q, ts, m, prof, hx, ra, rb, snt] => go s p q ts m prof hx ra rb (snt ≠ "0")
  | _ => none

/-- legacy `bridge_rewrite_to(params)`: `params,<offset>,<fixed|->,<pt|->,<src.dst|->,<seq|->,<tsoff|->,<strip>` -/
def parseParams (t : String) : Option Cfg :=
  match fields t with
  | ["params", off, fx, pt, dt, is, io, st] => do
    let off ← off.toNat?; let fx ← optNat fx; let pt ← optNat pt; let is ← optNat is; let io ← optNat io
    let dt ← (if dt = "-" then some none else
      match dt.splitOn "." with
      | [a, b] => do some (some (UInt8.ofNat (← a.toNat?), UInt8.ofNat (← b.toNat?)))
      | _ => none)
    some (cfgOfParams { ssrcOffset := UInt32.ofNat off, fixedOutSsrc := fx.map UInt32.ofNat, payloadType := pt.map UInt8.ofNat,
                        dtmf := dt, initSeq := is.map UInt16.ofNat, initTsOff := io.map UInt32.ofNat, strip := st = "1" })
  | _ => none

def showPkt (p : Pkt) : String :=
  let e := match p.ext with | none => "-,-" | some e => s!"{e.profile},{hex e.data}"
  s!"{p.ssrc.toNat},{p.pt.toNat},{p.seq.toNat},{p.ts.toNat},{b01 p.marker},{e}"

def showStreams (ss : Streams) : String :=
  let xs := sortBy (fun (a b : UInt32 × Stream) => a.1 < b.1) ss
  "S" ++ ";".intercalate (xs.map (fun e =>
    let l := match e.2.lastSrcTs with | none => "-" | some v => toString v.toNat
    s!"{e.1.toNat}:{e.2.outSsrc.toNat},{e.2.nextSeq.toNat},{l},{e.2.tsOff.toNat}"))

def bridgeRun (args : List String) : String :=
  let ruleToks := args.filter (·.startsWith "rule,")
  let pktToks := args.filter (·.startsWith "k,")
  let cfg : Option Cfg :=
    match args.find? (·.startsWith "params,") with
    | some pt => parseParams pt
    | none =>
      match args.find? (·.startsWith "cfg,"), ruleToks.mapM parseRule with
      | some ct, some rules => parseCfg ct rules
      | _, _ => none
  -- `reset` = the bridge is installed again (`bridge_rewrite_rules_to…` builds a new `RewriteBridge`): the stream
  -- table starts empty (`reinstalled`)
  let toks := args.filter (fun a => a.startsWith "k," || a = "reset")
  match cfg with
  | none => "bad-args"
  | some c =>
    let rec go (ss : Streams) (ts : List String) (acc : List String) : Option (List String × Streams) :=
      match ts with
      | [] => some (acc.reverse, ss)
      | t :: rest =>
        if t = "reset" then go reinstalled rest acc
        else match parsePkt t with
          | none => none
          | some ((p, a, b), sent) =>
            let r := forward c ss p a b
            go r.1 rest ((if sent then (if r.2.video then "v:" else "a:") ++ showPkt r.2.pkt else "drop") :: acc)
    match go [] toks [] with
    | some (shown, fin) => " ".intercalate (shown ++ [showStreams fin])
    | none => "bad-args"

end bridge

def handle (stream : String) (args : List String) : String :=
  match stream with
  | "demux" => demuxRun args
  | "bridge" => bridgeRun args
  | _ => "bad-stream"

end RtcModel.Drv.C19
