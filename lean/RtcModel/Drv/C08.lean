import RtcModel.Answer
import RtcModel.Drv.Util
namespace RtcModel.Drv.C08
open RtcModel.Answer RtcModel.SdpLines RtcModel.Text RtcModel.Drv

/-! percent-coding of strings on the protocol line (safe: `A-Za-z0-9_.:/=;*-`) -/

def isSafe (c : Char) : Bool :=
  c.isAlphanum || c = '_' || c = '.' || c = ':' || c = '/' || c = '=' || c = ';' || c = '*' || c = '-'

def hexU (n : Nat) : Char := if n < 10 then Char.ofNat (n + '0'.toNat) else Char.ofNat (n - 10 + 'A'.toNat)

def enc (s : Str) : String :=
  String.ofList (s.foldr (fun c acc =>
    if isSafe c then c :: acc else '%' :: hexU (c.toNat / 16 % 16) :: hexU (c.toNat % 16) :: acc) [])

def decAux : List Char → Option Str
  | [] => some []
  | '%' :: a :: b :: rest => do
    let x ← hexVal a
    let y ← hexVal b
    let r ← decAux rest
    some (Char.ofNat (x * 16 + y) :: r)
  | '%' :: _ => none
  | c :: rest => (decAux rest).map (c :: ·)

def dec (s : String) : Option Str := decAux s.toList

def decOpt (s : String) : Option (Option Str) := if s = "~" then some none else (dec s).map some

def splitList (sep : String) (s : String) : List String := if s = "_" then [] else s.splitOn sep

def parseKind : String → Option Kind
  | "a" => some .audio | "v" => some .video | "d" => some .application | "i" => some .image | _ => none
def parseDir : String → Option Dir
  | "sr" => some .sendrecv | "so" => some .sendonly | "ro" => some .recvonly | "in" => some .inactive | _ => none
def showKind : Kind → String
  | .audio => "a" | .video => "v" | .application => "d" | .image => "i"
def showDir : Dir → String
  | .sendrecv => "sr" | .sendonly => "so" | .recvonly => "ro" | .inactive => "in"

/-- `key@value` / `key` -/
def parseAttr (s : String) : Option Attr :=
  match s.splitOn "@" with
  | [k] => do some ⟨← dec k, none⟩
  | [k, v] => do some ⟨← dec k, some (← dec v)⟩
  | _ => none

def showAttr (a : Attr) : String :=
  match a.value with | some v => enc a.key ++ "@" ++ enc v | none => enc a.key

/-- `kind,mid,proto,dir,formats^,attrs^` -/
def parseMedia (s : String) : Option Media :=
  match s.splitOn "," with
  | [k, mid, proto, dir, fmts, attrs] => do
    some { kind := ← parseKind k, mid := ← dec mid, port := 9, proto := ← dec proto, dir := ← parseDir dir,
           formats := ← (splitList "^" fmts).mapM dec, attrs := ← (splitList "^" attrs).mapM parseAttr,
           connection := none }
  | _ => none

def showMedia (m : Media) : String :=
  let l (xs : List String) := if xs.isEmpty then "_" else "^".intercalate xs
  s!"{showKind m.kind},{enc m.mid},{enc m.proto},{showDir m.dir},{l (m.formats.map enc)},{l (m.attrs.map showAttr)}"

/-- `sessionAttrs^|sec!sec` -/
def parseDesc (s : String) : Option Desc :=
  match s.splitOn "|" with
  | [sa, secs] => do
    let attrs ← (splitList "^" sa).mapM parseAttr
    let media ← (splitList "!" secs).mapM parseMedia
    some { session := { Session.default with attrs }, media }
  | _ => none

def parseACap (s : String) : Option ACap :=
  match s.splitOn "," with
  | [pt, name, clock, ch, fmtp, fbs] => do
    some ⟨← pt.toNat?, ← dec name, ← clock.toNat?, ← ch.toNat?, ← decOpt fmtp, ← (splitList "^" fbs).mapM dec⟩
  | _ => none

def parseVCap (s : String) : Option VCap :=
  match s.splitOn "," with
  | [pt, name, clock, fmtp, fbs, rtx] => do
    some ⟨← pt.toNat?, ← dec name, ← clock.toNat?, ← decOpt fmtp, ← (splitList "^" fbs).mapM dec,
          ← (if rtx = "~" then some none else rtx.toNat?.map some)⟩
  | _ => none

/-- `pt,version,maxBitrate,rate,maxBuffer,maxDatagram,ec` -/
def parseT38 (s : String) : Option T38Cap :=
  match s.splitOn "," with
  | [pt, ve, br, rate, mb, md, ec] => do
    some ⟨← pt.toNat?, ← ve.toNat?, ← br.toNat?, ← dec rate, ← mb.toNat?, ← md.toNat?, ← dec ec⟩
  | _ => none

/-- `m,legacy,mux,sctp|acap+…|vcap+…|t38+…` -/
def parseCfg (s : String) : Option Cfg :=
  match s.splitOn "|" with
  | [base, ac, vc, ic] =>
    match base.splitOn "," with
    | [m, l, x, port] => do
      let mode ← match m with | "w" => some Mode.webrtc | "s" => some Mode.srtp | "r" => some Mode.rtp | _ => none
      some { mode, legacySip := l = "1", muxRequire := x = "1", sctpPort := ← port.toNat?,
             audio := ← (splitList "+" ac).mapM parseACap, video := ← (splitList "+" vc).mapM parseVCap,
             image := ← (splitList "+" ic).mapM parseT38 }
    | _ => none
  | _ => none

/-- `k,mid?,dir,hasSender,hasSenderSsrc+…` -/
def parseTrxs (s : String) : Option (List TrxView) :=
  (splitList "+" s).mapM fun t =>
    match t.splitOn "," with
    | [k, mid, d, hs, hss] => do
      some { kind := ← parseKind k, mid := ← decOpt mid, dir := ← parseDir d, hasSender := hs = "1", hasSenderSsrc := hss = "1" }
    | _ => none

def parseRole : String → Option (Option Bool)
  | "-" => some none | "c" => some (some true) | "s" => some (some false) | _ => none

def showAnswer (a : Answer) : String :=
  let g := match a.group with | some g => enc g | none => "~"
  let secs := if a.sections.isEmpty then "_" else "!".intercalate (a.sections.map showMedia)
  s!"ok|{g}|{secs}"

def showAErr : AErr → String
  | .noTransceivers => "err:noTransceivers" | .noRemote => "err:noRemote" | .noMatch => "err:noMatch"

/-- `ok|group|sec!sec` back into an `Answer` (the implementation's answer, for `valid`) -/
def parseAnswer (s : String) : Option Answer :=
  match s.splitOn "|" with
  | ["ok", g, secs] => do
    some { group := ← decOpt g, sections := ← (splitList "!" secs).mapM parseMedia }
  | _ => none

def showPErr : PErr → String
  | .invalidLine => "invalidLine" | .badVersion => "parse" | .badOrigin => "parse" | .badTiming => "parse"
  | .badMedia => "parse" | .missingV => "missing:v" | .missingO => "missing:o" | .missingS => "missing:s"
  | .missingT => "missing:t"

/-- every request carries the replayable case id as its first argument (ignored here) -/
def handle (stream : String) (args : List String) : String :=
  match stream, args.drop 1 with
  | "ans", [cfg, trxs, nextMid, role, remote] =>
    match parseCfg cfg, parseTrxs trxs, nextMid.toNat?, parseRole role with
    | some c, some ts, some nm, some r =>
      let rd := if remote = "-" then some none else (parseDesc remote).map some
      match rd with
      | some rd =>
        match answer c ts nm r rd with
        | .ok a => showAnswer a
        | .error e => showAErr e
      | none => "bad-remote"
    | _, _, _, _ => "bad-args"
  | "valid", [offer, ans] =>
    match parseDesc offer, parseAnswer ans with
    | some o, some a =>
      let secs := (o.media.zip a.sections)
      let bit (f : Media → Media → Bool) := b01 (secs.all (fun p => f p.1 p.2))
      s!"{b01 (validAnswer o a)} n{b01 (o.media.length = a.sections.length)} al{bit secAligned} pt{bit secPtsOk} rx{bit secRtxOk} ex{bit secExtOk} mx{bit secMuxOk} di{bit secDirOk} su{bit (secSetupOkS o.session.attrs)} bu{b01 (bundleOk o.session.attrs a)} cb{bit secBindOk}"
    | _, _ => "bad-args"
  | "prim", [op, text] =>
    -- the `str` primitives every model function is built from (text = `.` ++ coded string)
    match dec (String.ofList (text.toList.drop 1)) with
    | some t =>
      let showOpt (o : Option Nat) := match o with | some n => toString n | none => "-"
      match op with
      | "u8" => showOpt (parseU8 t)
      | "u16" => showOpt (parseU16 t)
      | "u32" => showOpt (parseU32 t)
      | "u64" => showOpt (parseU64 t)
      | "ws" => let ts := splitWs t; if ts.isEmpty then "_" else "^".intercalate (ts.map enc)
      | "trim" => "[" ++ enc (trim t) ++ "]"
      | "slash" => "^".intercalate ((splitOn '/' t).map (fun x => "[" ++ enc x ++ "]"))
      | "colon" => showAttr (Attr.fromLine t)
      | "apt" => showOpt (parseApt t)
      | "ci" => match splitOnce '|' t with
          | some (a, b) => b01 (eqIgnoreAsciiCase a b)
          | none => "bad"
      | _ => "bad-op"
    | none => "bad-text"
  | "aptmap", [attrs] =>
    match (splitList "^" attrs).mapM parseAttr with
    | some as =>
      let m := aptMap as
      if m.isEmpty then "_" else ",".intercalate (m.map fun p => s!"{p.1}>{p.2}")
    | none => "bad-args"
  | "acaps", [sec] =>
    match parseMedia sec with
    | some m =>
      let caps := toAudioCaps m
      if caps.isEmpty then "_" else
      "+".intercalate (caps.map fun a =>
        let fm := match a.fmtp with | some f => enc f | none => "~"
        let fb := if a.fbs.isEmpty then "_" else "^".intercalate (a.fbs.map enc)
        s!"{a.pt},{enc a.name},{a.clock},{a.channels},{fm},{fb}")
    | none => "bad-args"
  | "vclock", [sec, pt] =>
    match parseMedia sec, pt.toNat? with
    | some m, some p => toString (remoteVideoClock m p)
    | _, _ => "bad-args"
  | "rt", [text] =>
    match dec text with
    | some t =>
      match parseText t with
      | .ok d => "ok " ++ enc (printText (print d))
      | .error e => "err:" ++ showPErr e
    | none => "bad-text"
  | _, _ => "bad-stream"

end RtcModel.Drv.C08
