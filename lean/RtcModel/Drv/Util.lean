/- Line-protocol helpers for the `rtcdrv` executable (core Lean only). -/
namespace RtcModel.Drv

def hexVal (c : Char) : Option Nat :=
  if '0' ≤ c ∧ c ≤ '9' then some (c.toNat - '0'.toNat)
  else if 'a' ≤ c ∧ c ≤ 'f' then some (c.toNat - 'a'.toNat + 10)
  else if 'A' ≤ c ∧ c ≤ 'F' then some (c.toNat - 'A'.toNat + 10)
  else none

def unhexAux : List Char → List UInt8 → Option (List UInt8)
  | [], acc => some acc.reverse
  | [_], _ => none
  | a :: b :: rest, acc =>
    match hexVal a, hexVal b with
    | some x, some y => unhexAux rest (UInt8.ofNat (x * 16 + y) :: acc)
    | _, _ => none

/-- `-` is the empty byte string. -/
def unhex (s : String) : Option (List UInt8) :=
  if s = "-" then some [] else unhexAux s.toList []

def hexDigit (n : Nat) : Char :=
  if n < 10 then Char.ofNat (n + '0'.toNat) else Char.ofNat (n - 10 + 'a'.toNat)

def hex (bs : List UInt8) : String :=
  if bs.isEmpty then "-" else
  String.ofList (bs.foldr (fun b acc => hexDigit (b.toNat / 16) :: hexDigit (b.toNat % 16) :: acc) [])

def words (s : String) : List String :=
  (s.trimAscii.toString.splitOn " ").filter (· ≠ "")

def fields (s : String) : List String := s.splitOn ","

def b01 (b : Bool) : String := if b then "1" else "0"

end RtcModel.Drv
