import RtcModel.C15Rtp
import RtcModel.C15Ext
import RtcModel.C15Rtcp
import RtcModel.C15NackBuf
import RtcModel.C15Apt
import RtcModel.C15RtxFlow
import RtcModel.Drv.Util
namespace RtcModel.Drv.C15
open RtcModel.C15 RtcModel.Drv

/-! ### text ⇄ values -/

def listOf (s : String) (sep : String) : List String := if s = "-" then [] else s.splitOn sep

def showList (xs : List String) (sep : String) : String := if xs.isEmpty then "-" else sep.intercalate xs

def nat? (s : String) : Option Nat := s.toNat?
def u8? (s : String) : Option UInt8 := s.toNat?.map UInt8.ofNat
def u16? (s : String) : Option UInt16 := s.toNat?.map UInt16.ofNat
def u32? (s : String) : Option UInt32 := s.toNat?.map UInt32.ofNat

def mapM? {α β} (f : α → Option β) : List α → Option (List β)
  | [] => some []
  | x :: xs => do let y ← f x; let ys ← mapM? f xs; some (y :: ys)

def showErr : Err → String
  | .short => "err:short"
  | .version v => s!"err:ver:{v}"
  | .hdr m => "err:hdr:" ++ m.replace " " "_"
  | .rtcp m => "err:rtcp:" ++ m.replace " " "_"
  | .len => "err:len"

def showExt : Option Ext → String
  | none => "-"
  | some e => s!"{e.profile.toNat}:{hex e.data}"

def ext? (s : String) : Option (Option Ext) :=
  if s = "-" then some none else
  match s.splitOn ":" with
  | [p, d] => do some (some ⟨← u16? p, ← unhex d⟩)
  | _ => none

def showPkt (p : Packet) : String :=
  let h := p.hdr
  ",".intercalate [b01 h.marker, toString h.pt.toNat, toString h.seq.toNat, toString h.ts.toNat,
    toString h.ssrc.toNat, showList (h.csrcs.map (toString ·.toNat)) ";", showExt h.ext,
    hex p.payload, toString p.padLen.toNat]

def pkt? (s : String) : Option Packet :=
  match s.splitOn "," with
  | [m, pt, seq, ts, ssrc, cs, ex, pl, pad] => do
    let csrcs ← mapM? u32? (listOf cs ";")
    some ⟨{ marker := m = "1", pt := ← u8? pt, seq := ← u16? seq, ts := ← u32? ts, ssrc := ← u32? ssrc,
            csrcs := csrcs, ext := ← ext? ex }, ← unhex pl, ← u8? pad⟩
  | _ => none

def showRes {α} (f : α → String) : Except Err α → String
  | .ok a => "ok " ++ f a
  | .error e => showErr e

/-! ### RTCP text -/

def showBlock (b : ReportBlock) : String :=
  ":".intercalate [toString b.ssrc.toNat, toString b.fractionLost.toNat, toString b.lost,
    toString b.hseq.toNat, toString b.jitter.toNat, toString b.lsr.toNat, toString b.dlsr.toNat]

def block? (s : String) : Option ReportBlock :=
  match s.splitOn ":" with
  | [a, f, l, h, j, x, d] => do
    some ⟨← u32? a, ← u8? f, ← l.toInt?, ← u32? h, ← u32? j, ← u32? x, ← u32? d⟩
  | _ => none

def showItem (i : SdesItem) : String := s!"{i.ty.toNat}={hex i.text}"
def item? (s : String) : Option SdesItem :=
  match s.splitOn "=" with
  | [t, x] => do some ⟨← u8? t, ← unhex x⟩
  | _ => none

def showChunk (c : SdesChunk) : String := ":".intercalate (toString c.ssrc.toNat :: c.items.map showItem)
def chunk? (s : String) : Option SdesChunk :=
  match s.splitOn ":" with
  | a :: its => do some ⟨← u32? a, ← mapM? item? its⟩
  | _ => none

def showU32s (xs : List UInt32) : String := showList (xs.map (toString ·.toNat)) ";"

def showRtcp : Rtcp → String
  | .sr s m l t p o bl => ",".intercalate ["SR", toString s.toNat, toString m.toNat, toString l.toNat,
      toString t.toNat, toString p.toNat, toString o.toNat, showList (bl.map showBlock) ";"]
  | .rr s bl => ",".intercalate ["RR", toString s.toNat, showList (bl.map showBlock) ";"]
  | .sdes cs => "SDES," ++ showList (cs.map showChunk) ";"
  | .bye ss r => ",".intercalate ["BYE", showU32s ss, match r with | none => "n" | some x => "r=" ++ hex x]
  | .pli s m => s!"PLI,{s.toNat},{m.toNat}"
  | .fir s rq => ",".intercalate ["FIR", toString s.toNat, showList (rq.map fun r => s!"{r.ssrc.toNat}:{r.seq.toNat}") ";"]
  | .nack s m lost => ",".intercalate ["NACK", toString s.toNat, toString m.toNat, showList (lost.map (toString ·.toNat)) ";"]
  | .remb s br ss => ",".intercalate ["REMB", toString s.toNat, toString br, showU32s ss]
  | .twcc s m b c r f pl => ",".intercalate ["TWCC", toString s.toNat, toString m.toNat, toString b.toNat,
      toString c.toNat, toString r.toNat, toString f.toNat, hex pl]

def firReq? (s : String) : Option FirReq :=
  match s.splitOn ":" with
  | [a, q] => do some ⟨← u32? a, ← u8? q⟩
  | _ => none

def rtcp? (s : String) : Option Rtcp :=
  match s.splitOn "," with
  | ["SR", s, m, l, t, p, o, bl] => do
    some (.sr (← u32? s) (← u32? m) (← u32? l) (← u32? t) (← u32? p) (← u32? o) (← mapM? block? (listOf bl ";")))
  | ["RR", s, bl] => do some (.rr (← u32? s) (← mapM? block? (listOf bl ";")))
  | ["SDES", cs] => do some (.sdes (← mapM? chunk? (listOf cs ";")))
  | ["BYE", ss, r] => do
    let src ← mapM? u32? (listOf ss ";")
    if r = "n" then some (.bye src none)
    else match r.splitOn "=" with
      | ["r", x] => do some (.bye src (some (← unhex x)))
      | _ => none
  | ["PLI", s, m] => do some (.pli (← u32? s) (← u32? m))
  | ["FIR", s, rq] => do some (.fir (← u32? s) (← mapM? firReq? (listOf rq ";")))
  | ["NACK", s, m, lost] => do some (.nack (← u32? s) (← u32? m) (← mapM? u16? (listOf lost ";")))
  | ["REMB", s, br, ss] => do some (.remb (← u32? s) (← nat? br) (← mapM? u32? (listOf ss ";")))
  | ["TWCC", s, m, b, c, r, f, pl] => do
    some (.twcc (← u32? s) (← u32? m) (← u16? b) (← u16? c) (← u32? r) (← u8? f) (← unhex pl))
  | _ => none

def showRtcps (ps : List Rtcp) : String := showList (ps.map showRtcp) " "

/-! ### NACK send buffer / receiver gap ops -/

def bufOp? (s : String) : Option BufOp :=
  match s.splitOn ":" with
  | ["s", q, t] => do some (.sent 7 (← u16? q) (← nat? t))     -- the harness' primary stream has SSRC 7
  | ["x", a, q, t] => do some (.sent (← u32? a) (← u16? q) (← nat? t))
  | ["r", a] => do let s ← u32? a; some (.setRtx (if s = 0 then none else some s))   -- `r:0` = `set_rtx(None)`
  | ["R", a] => do some (.setRtx (some (← u32? a)))                                   -- `set_rtx(Some{..})`, any SSRC
  | ["q", t, qs] => do some (.query (← nat? t) (← mapM? u16? (listOf qs ";")))
  | ["n", t, qs] => do some (.nack (← nat? t) (← mapM? u16? (listOf qs ";")))
  | _ => none

def showBufOut : BufOut → String
  | .len n => s!"l{n}"
  | .got xs => "g" ++ showList (xs.map fun (q, t) => s!"{q.toNat}:{t}") ";"
  | .resent xs => "r" ++ showList (xs.map fun (q, t, r) => s!"{q.toNat}:{t}:" ++ (match r with | none => "-" | some v => toString v.toNat)) ";"

def gapPkt? (s : String) : Option (UInt32 × UInt16) :=
  match s.splitOn ":" with
  | [a, q] => do some (← u32? a, ← u16? q)
  | _ => none

def showGapOut : Option (List UInt16) × Nat → String
  | (none, n) => s!"n#{n}"
  | (some xs, n) => "k" ++ showList (xs.map (toString ·.toNat)) ";" ++ s!"#{n}"

def attr? (s : String) : Option (Bytes × Option Bytes) :=
  match s.splitOn "=" with
  | [k] => do some (← unhex k, none)
  | [k, v] => do some (← unhex k, some (← unhex v))
  | _ => none

/-- insertion sort by RTX payload type, for a canonical rendering of the map -/
def insertPt (x : UInt8 × UInt8) : List (UInt8 × UInt8) → List (UInt8 × UInt8)
  | [] => [x]
  | y :: ys => if x.1.toNat ≤ y.1.toNat then x :: y :: ys else y :: insertPt x ys

/-! ### dispatch -/

def handleRtpParse (hx : String) : String :=
  match unhex hx with
  | none => "bad-hex"
  | some bs =>
    match parsePacket bs with
    | .error e => showErr e
    | .ok p => s!"ok {showPkt p} {showRes hex (marshalPacket p)}"

def handleRtcpParse (hx : String) : String :=
  match unhex hx with
  | none => "bad-hex"
  | some bs =>
    match parseCompound bs with
    | .error e => showErr e
    | .ok ps => s!"ok {showRtcps ps} | {showRes hex (marshalCompound ps)}"

/-- the receiver `set_remote_description` builds from `a=fmtp:<rp> <fm>`, `a=ssrc-group:FID p r`, `a=ssrc:<s>` lines (new
receiver of a remote offer / of an answer to our offer, or an existing transceiver), then `maybe_unwrap_rtx` -/
def handleRtxSdp (existing : Bool) (rp fm fid ss t : String) : String :=
  let fid? : Option (Option (UInt32 × UInt32)) :=
    if fid = "-" then some none else match fid.splitOn ":" with | [a, b] => (do some (some (← u32? a, ← u32? b))) | _ => none
  match u8? rp, unhex fm, fid?, mapM? u32? (listOf ss ";"), pkt? t with
  | some r, some f, some g, some sl, some p =>
    let attrs := [(fmtpKey, some (decNat r.toNat ++ [0x20] ++ f))]
    let st := if existing then sdpRxExisting attrs g sl else sdpRx attrs g sl
    (match maybeUnwrap st.apt st.rtxSsrc st.ssrc p with | none => "none" | some q => "some " ++ showPkt q)
  | _, _, _, _, _ => "bad-args"

def handle (stream : String) (args : List String) : String :=
  match stream, args with
  | "rtp_parse_ref", [hx] => handleRtpParse hx
  | "rtp_parse", [hx] => handleRtpParse hx
  | "rtcp_parse_ref", [hx] => handleRtcpParse hx
  | "rtp_parse_old", [hx] =>
    match unhex hx with
    | none => "bad-hex"
    | some bs =>
      match parsePacket bs with
      | .error e => showErr e
      | .ok p => s!"ok {showPkt p} {showRes hex (marshalPacket p)}"
  | "rtp_marshal", [t] =>
    match pkt? t with
    | none => "bad-pkt"
    | some p =>
      -- `marshal_into` skips `validate` and always produces the bytes
      s!"{showRes hex (marshalPacket p)} into:{hex (marshalInto p)}"
  | "ext_get", [e, id] =>
    match ext? e, u8? id with
    | some ex, some i =>
      (match getExtension { Header.new 0 0 0 0 with ext := ex } i with
       | none => "none" | some v => "some:" ++ hex v)
    | _, _ => "bad-args"
  | "ext_set", [e, id, d] =>
    match ext? e, u8? id, unhex d with
    | some ex, some i, some data =>
      (match setExtension { Header.new 0 0 0 0 with ext := ex } i data with
       | .ok h => "ok " ++ showExt h.ext
       | .err m => "err:" ++ m.replace " " "_"
       | .panic => "panic")
    | _, _, _ => "bad-args"
  | "rtcp_parse", [hx] =>
    match unhex hx with
    | none => "bad-hex"
    | some bs =>
      match parseCompound bs with
      | .error e => showErr e
      | .ok ps => s!"ok {showRtcps ps} | {showRes hex (marshalCompound ps)}"
  | "rtcp_marshal", ts =>
    match mapM? rtcp? ts with
    | none => "bad-rtcp"
    | some ps => showRes hex (marshalCompound ps)
  | "utf8", [hx] =>
    match unhex hx with
    | none => "bad-hex"
    | some bs => hex (lossy bs)
  | "rtx_wrap", [t, ssrc, pt, seq] =>
    match pkt? t, u32? ssrc, u8? pt, u16? seq with
    | some p, some s, some y, some q => showPkt (wrapRtx p s y q)
    | _, _, _, _ => "bad-args"
  | "rtx_unwrap", [t, ssrc, pt] =>
    match pkt? t, u32? ssrc, u8? pt with
    | some p, some s, some y => (match unwrapRtx p s y with | none => "none" | some q => "some " ++ showPkt q)
    | _, _, _ => "bad-args"
  | "apt", [hx] =>
    match unhex hx with
    | none => "bad-hex"
    | some bs => (match parseApt bs with | none => "none" | some v => s!"some:{v.toNat}")
  | "aptmap", toks =>
    match mapM? attr? toks with
    | none => "bad-args"
    | some attrs =>
      showList (((extractApt attrs []).foldr insertPt []).map fun (a, b) => s!"{a.toNat}:{b.toNat}") ";"
  | "apt_append", prim :: rtx :: clock :: fmts :: toks =>
    match u8? prim, u8? rtx, nat? clock, mapM? unhex (listOf fmts ";"), mapM? attr? toks with
    | some p, some r, some c, some fs, some attrs =>
      let s' := appendRtx ⟨fs, attrs⟩ p r c
      let m := extractApt s'.attrs []
      let showAttr := fun (a : Bytes × Option Bytes) => match a.2 with | none => hex a.1 | some v => hex a.1 ++ "=" ++ hex v
      showList (s'.formats.map hex) ";" ++ "|" ++ showList (s'.attrs.map showAttr) "," ++ "|" ++
        showList ((m.foldr insertPt []).map fun (a, b) => s!"{a.toNat}:{b.toNat}") ";" ++ "|" ++
        showList (((rtxCandidates m p).foldr (fun x acc => insertPt (x, 0) acc) []).map fun (a, _) => toString a.toNat) ";"
    | _, _, _, _, _ => "bad-args"
  | "rtx_rx", [apt, rs, ssrc, t] =>
    let pair? := fun (s : String) => match s.splitOn ":" with | [a, b] => (do some (← u8? a, ← u8? b) : Option (UInt8 × UInt8)) | _ => none
    match mapM? pair? (listOf apt ";"), (if rs = "-" then some none else (u32? rs).map some), u32? ssrc, pkt? t with
    | some m, some r, some s, some p =>
      (match maybeUnwrap m r s p with | none => "none" | some q => "some " ++ showPkt q)
    | _, _, _, _ => "bad-args"
  | "rtx_sender", [_, rp] => s!"some:{rp}"     -- the sender's RTX payload type is the one the local section associates with its primary PT
  | "rtx_sdp_existing", [rp, fm, fid, ss, t] => handleRtxSdp true rp fm fid ss t
  | "rtx_sdp_answer", [rp, fm, fid, ss, t] => handleRtxSdp false rp fm fid ss t
  | "rtx_sdp", [rp, fm, fid, ss, t] => handleRtxSdp false rp fm fid ss t
  | "rtx_loop", apt :: rs :: ssrc :: ts =>
    let pair? := fun (s : String) => match s.splitOn ":" with | [a, b] => (do some (← u8? a, ← u8? b) : Option (UInt8 × UInt8)) | _ => none
    match mapM? pair? (listOf apt ";"), (if rs = "-" then some none else (u32? rs).map some), u32? ssrc, mapM? pkt? ts with
    | some m, some r, some s, some ps =>
      let o := rxRun ⟨m, r, s⟩ ps
      " ".intercalate (o.1.map fun x => match x with | none => "none" | some q => showPkt q) ++ s!" #{o.2.toNat}"
    | _, _, _, _ => "bad-args"
  | "is_rtcp", [hx] =>
    match unhex hx with
    | none => "bad-hex"
    | some bs => b01 (isRtcp bs)
  | "osn", [hx] =>
    match unhex hx with
    | none => "bad-hex"
    | some bs => (match decodeOsn bs with | none => "none" | some v => s!"some:{v.toNat}:{hex (encodeOsn v)}")
  | "rtx_alloc", [us] =>
    match mapM? u8? (listOf us ";") with
    | none => "bad-args"
    | some used => (match allocRtxPt used with | none => "none" | some v => s!"some:{v.toNat}")
  | "nackbuf", mx :: ops =>
    match nat? mx, mapM? bufOp? ops with
    | some m, some os => " ".intercalate ((bufRun (NackBuf.new m) os).map showBufOut)
    | _, _ => "bad-args"
  | "gap", pk =>
    match mapM? gapPkt? pk with
    | some ps => " ".intercalate ((gapRun GapSt.init ps).map showGapOut)
    | none => "bad-args"
  | _, _ => "bad-stream"

end RtcModel.Drv.C15
