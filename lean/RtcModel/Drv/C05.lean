import RtcModel.SrtpScript
namespace RtcModel.Drv.C05
open RtcModel.Srtp.Script

/-- `forge <id> script…` — sessions A (genuine ⊎ forged) and B (genuine only) and the sender are
all sessions of one script; the harness' oracle compares them. -/
def handle (stream : String) (args : List String) : String :=
  match stream, args with
  | "forge", toks => runScript toks
  | "evict", toks => runScript toks
  | _, _ => "bad-stream"

end RtcModel.Drv.C05
