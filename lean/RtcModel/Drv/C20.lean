import RtcModel.SpscTrack
import RtcModel.Drv.Util
namespace RtcModel.Drv.C20
open RtcModel.Spsc RtcModel.SpscTrack RtcModel.Drv

def natOfChars (cs : List Char) : Option Nat := (String.ofList cs).toNat?

def splitDots (cs : List Char) : List (List Char) :=
  ((String.ofList cs).splitOn ".").map String.toList

def parsePOp : List Char → Option POp
  | 's' :: r => do some (.send [← natOfChars r])
  | ['m'] => some (.send [])
  | 'm' :: r => do some (.send (← (splitDots r).mapM natOfChars))
  | 't' :: r => do some (.trySend (← natOfChars r))
  | 'c' :: r => do some (.cloneTo (← natOfChars r))
  | ['d'] => some .dropSrc
  | _ => none

def parseLabel (t : String) : Option Label :=
  match t.splitOn ":" with
  | [th] =>
    match th.toList with
    | ['c'] => some (.cons false)
    | ['r'] => some (.rcv none)
    | ['x'] => some (.stop false)
    | 'p' :: r => do some (.prod (← natOfChars r) none)
    | _ => none
  | [th, o] =>
    match th.toList with
    | ['c'] => if o = "r" then some (.cons true) else if o = "d" then some (.rcv (some .dropRecv)) else none
    | ['r'] => if o = "r" then some (.rcv (some .recv)) else if o = "d" then some (.rcv (some .dropRecv)) else none
    | ['x'] => if o = "s" then some (.stop true) else none
    | 'p' :: r => do some (.prod (← natOfChars r) (some (← parsePOp o.toList)))
    | _ => none
  | _ => none

def presText : PRes → String
  | .ok => "ok" | .closed => "cl" | .wouldBlock => "wb" | .cloned => "cloned" | .dropped => "dropped"

def isTryPc : PPc → Bool
  | .chk .try_ _ _ => true
  | .push .try_ _ _ _ => true
  | _ => false

/-- pipeline.rs `try_send` returns `Err(sample)` both when closed and when full -/
def presTextV (s : St) (i : Nat) (r : PRes) : String :=
  match r with
  | .closed | .wouldBlock => if s.v.pipe && isTryPc (s.pp i) then "err" else presText r
  | _ => presText r

def cresText : CRes → String
  | .ok (p, v) => s!"v{p}.{v}"
  | .eos => "eos"

/-- the token the harness prints for one label: `-` nothing to do, `B` blocked, `P` recv pending,
`=res` operation finished, otherwise the yield point the thread is now parked at -/
def token (s s' : St) (l : Label) : String :=
  match l with
  | .prod i _ =>
    match s.pp i with
    | .none | .reserved | .gone => "-"
    | .idle =>
      if s'.pres.length > s.pres.length then
        match s'.pres.getLast? with | some (_, r) => s!"={presText r}" | none => "?"
      else if (s'.pp i).point = 0 then "-" else toString (s'.pp i).point
    | _ =>
      if blocked s l then "B"
      else if s'.pres.length > s.pres.length then
        match s'.pres.getLast? with | some (_, r) => s!"={presTextV s i r}" | none => "?"
      else toString (s'.pp i).point
  | .cons _ =>
    match s.cp with
    | .idle => if s'.cp = .idle then "-" else toString s'.cp.point
    | _ =>
      if blocked s l then "B"
      else if s'.cres.length > s.cres.length then
        match s'.cres.getLast? with | some r => s!"={cresText r}" | none => "?"
      else if s'.cp = .await2 then "P" else toString s'.cp.point
  | .stop _ =>
    match s.sp with
    | .idle => if s'.sp = .idle then "-" else toString s'.sp.point
    | .stNotify => "=stopped"
    | _ => toString s'.sp.point
  | .rcv _ =>
    match s.rp with
    | .dead => "-"
    | .idle =>
      if s'.cres.length > s.cres.length then "=eos"
      else if s'.rp = .idle then "-" else toString s'.rp.point
    | .ntfW => "=dropped"
    | _ =>
      if blocked s l then "B"
      else if s'.cres.length > s.cres.length then
        match s'.cres.getLast? with | some r => s!"={cresText r}" | none => "?"
      else if s'.rp = .await2 then "P" else toString s'.rp.point

def endToken (s : St) : String :=
  s!"end:h={s.ring.head},t={s.ring.tail},cl={b01 s.closed},en={b01 s.ended},pl={b01 s.poplock.isSome}"

def clonePrefix (n : Nat) : List Label :=
  (List.range (n - 1)).flatMap fun j => [.prod 0 (some (.cloneTo (j + 1))), .prod 0 none]

def word : Nat := 2 ^ 64

def runTokens (s : St) : List String → List String → List String
  | [], acc => (endToken s :: acc).reverse
  | t :: rest, acc =>
    match parseLabel t with
    | none => ("bad-label" :: acc).reverse
    | some l0 =>
      -- in the pipeline variant the consumer thread of the harness is the `SampleQueueReceiver`
      let l := if s.v.pipe then
          (match l0 with
           | .cons true => Label.rcv (some .recv)
           | .cons false => Label.rcv none
           | l => l)
        else l0
      let s' := step s l
      let locks := (if s'.plock.isSome then "+" else "") ++ (if s'.poplock.isSome then "*" else "")
      runTokens s' rest ((token s s' l ++ locks) :: acc)

/-- `sched <id> init,cap,start,nprod label …` for the current code; stream `sched-<plock><rfix>` for
an earlier version (used by the witness replays) -/
def handle (stream : String) (args : List String) : String :=
  let variant : Option Variant :=
    match stream with
    | "sched" => some Variant.cur
    | "psched" => some Variant.pipeCur
    | "sched-00" => some ⟨false, false, false⟩
    | "sched-10" => some ⟨true, false, false⟩
    | "sched-01" => some ⟨false, true, false⟩
    | _ => none
  match variant, args with
  | some v, ini :: labels =>
    match fields ini with
    | [ini0, cap, start, nprod] =>
      if ini0 ≠ "init" ∧ ini0 ≠ "pinit" then "bad-init" else
      match cap.toNat?, start.toNat?, nprod.toNat? with
      | some cap, some start, some nprod =>
        let s0 := run (St.init v cap word start) (clonePrefix nprod)
        " ".intercalate (runTokens s0 labels [])
      | _, _, _ => "bad-init"
    | _ => "bad-init"
  | _, _ => "bad-stream"

end RtcModel.Drv.C20
