import RtcModel.Latch
import RtcModel.LatchRace
import RtcModel.Drv.Util
namespace RtcModel.Drv.C18
open RtcModel.Latch RtcModel.Drv

def parseAddr (ip port : String) : Option Addr := do some ⟨← ip.toNat?, ← port.toNat?⟩

def parseOp (t : String) : Option Op :=
  match fields t with
  | ["p", ip, port, hx] => do
      let bs ← unhex hx
      some (.pkt (← parseAddr ip port) (classify bs))
  | ["en"] => some .enable
  | ["rs"] => some .reset
  | ["sg", ip, port] => do some (.sig (← parseAddr ip port))
  | ["pr", ip, port] => do some (.pair (← parseAddr ip port))
  | ["ss", v] => do some (.ssrc (← v.toNat?))
  | ["mp", v] => do some (.maxp (← v.toNat?))
  | ["ra", "-"] => some (.rtcpAddr none)
  | ["ra", ip, port] => do some (.rtcpAddr (some (← parseAddr ip port)))
  | _ => none

def showAddr (a : Addr) : String := s!"{a.ip}:{a.port}"

def showCand (c : Cand) : String :=
  s!"{showAddr c.addr},{c.firstSeq},{c.lastSeq},{c.firstTs},{c.packetCount},{c.consecutive},{b01 c.hasMarker}"

/-- the hidden probation table, as the `verif_latch_state` hook prints it -/
def showProb : Option Prob → String
  | none => "-"
  | some p => s!"T{p.total}M{p.max}[{";".intercalate (p.cands.map showCand)}]"

/-- one observation; an unchanged probation table is printed as `=` -/
def showSt (s : St) (fwd : String) (prev : Option String) : String × String :=
  let r := match s.rtcpRemote with | none => "-" | some a => showAddr a
  let pt := showProb s.prob
  let shown := if prev = some pt then "=" else pt
  (s!"{showAddr s.remote}/{r}/{b01 s.rtpLatched}/{b01 s.rtcpLatched}/{fwd}/{b01 s.latchOn}/{s.expected}/{s.maxPackets}/{shown}", pt)

def fwdText (o : Op) : String :=
  match o with
  | .pkt _ k => match fwdOf k with | .none => "none" | .dtls => "dtls" | .rtp => "rtp"
  | _ => "-"

def runOps (s0 : St) (ops : List String) : String :=
  let rec go (s : St) (prev : String) (ops : List String) (acc : List String) : List String :=
    match ops with
    | [] => acc.reverse
    | t :: rest =>
      match parseOp t with
      | none => ("bad-op" :: acc).reverse
      | some o =>
        let s' := step s o
        let (txt, pt) := showSt s' (fwdText o) (some prev)
        go s' pt rest (txt :: acc)
  let (t0, p0) := showSt s0 "-" none
  " ".intercalate (go s0 p0 ops [t0])

def splitBar (ws : List String) : List (List String) :=
  ws.foldr (fun w acc => if w = "|" then [] :: acc else match acc with | [] => [[w]] | g :: gs => (w :: g) :: gs) [[]]

/-- `race <id> init,… op … | p,ip,port,hex | api-op | schedule` — the final state of the
interleaving machine for that schedule (plus the harness's tail `rsrs…` that lets both finish) -/
def handleRace (args : List String) : String :=
  open RtcModel.LatchRace in
  match splitBar args with
  | [ini :: ops, [pk], [api], [sched]] =>
    match fields ini with
    | ["init", ip, port, maxp, tcp] =>
      match ip.toNat?, port.toNat?, maxp.toNat?, ops.mapM parseOp, parseOp pk, parseOp api with
      | some ip, some port, some maxp, some ops, some (.pkt a (.rtp ssrc seq ts m)), some (.pkt a2 (.rtp ssrc2 seq2 ts2 m2)) =>
        -- a second receive() instead of an API call
        let s0 := run (init ⟨ip, port⟩ maxp (tcp = "1")) ops
        if s0.latchOn ∧ (s0.expected = 0 ∨ ssrc = s0.expected) ∧ (s0.expected = 0 ∨ ssrc2 = s0.expected) then
          let bits := (sched.toList ++ "rsrsrsrsrsrsrsrsrsrs".toList).map (fun c => c == 'r')
          let y := runSched2 (recvCrit a ssrc seq ts m) (recvCrit a2 ssrc2 seq2 ts2 m2)
            { st := s0, r1 := .start, r2 := .start, b1 := false, b2 := false } bits
          if rDone y.r1 ∧ rDone y.r2 then (showSt y.st "-" none).1 else "not-finished"
        else "race-model-needs-latching-and-expected-ssrc-rtp"
      | some ip, some port, some maxp, some ops, some (.pkt a (.rtp ssrc seq ts m)), some apiOp =>
        match apiCrit apiOp with
        | some A =>
          let s0 := run (init ⟨ip, port⟩ maxp (tcp = "1")) ops
          if s0.latchOn ∧ (s0.expected = 0 ∨ ssrc = s0.expected) then
            let bits := (sched.toList ++ "rsrsrsrsrsrsrsrsrsrs".toList).map (fun c => c == 'r')
            let y := runSched (recvCrit a ssrc seq ts m) A (Sys.init s0) bits
            if rDone y.r ∧ aDone y.a then (showSt y.st "-" none).1 else "not-finished"
          else "race-model-needs-latching-and-expected-ssrc-rtp"
        | none => "bad-api"
      | _, _, _, _, _, _ => "bad-race-args"
    | _ => "bad-init"
  | _ => "bad-race"

/-- `latch <id> init,ip,port,maxp,tcp op op …` — a bare `IceConn`.
    `pc <id> init,ip,port,maxp,tcp op op …` — the same ops as issued by a real `PeerConnection`
    (SDP retargets, pair-monitor updates, UDP packets); only the public part is compared.
    `writers <id> <file:count …>` — every writer of `remote_addr` is a modelled site.
    `race <id> …` — see `handleRace` / `RtcModel.LatchRace`.
 -/
def handle (stream : String) (args : List String) : String :=
  match stream, args with
  | "latch", ini :: ops =>
    match fields ini with
    | ["init", ip, port, maxp, tcp] =>
      match ip.toNat?, port.toNat?, maxp.toNat? with
      | some ip, some port, some maxp => runOps (init ⟨ip, port⟩ maxp (tcp = "1")) ops
      | _, _, _ => "bad-init"
    | _ => "bad-init"
  | "pc", ini :: ops =>
    match fields ini with
    | ["init", ip, port, maxp, _] =>
      match ip.toNat?, port.toNat?, maxp.toNat? with
      | some ip, some port, some maxp =>
        let pub (s : St) : String :=
          s!"{showAddr s.remote}/{b01 s.rtpLatched}/{s.expected}/{match s.rtcpRemote with | none => "-" | some a => showAddr a}"
        -- ops before `|` happen inside `set_remote_description` and are applied silently
        let rec go (s : St) (silent : Bool) (ops : List String) (acc : List String) : List String :=
          match ops with
          | [] => acc.reverse
          | "|" :: rest => go s false rest (pub s :: acc)
          | t :: rest =>
            -- `~op`: applied inside the same API call as the next op, no observation of its own
            let quiet := t.startsWith "~"
            match parseOp (if quiet then (t.drop 1).toString else t) with
            | none => ("bad-op" :: acc).reverse
            | some o => let s' := step s o; go s' silent rest (if silent || quiet then acc else pub s' :: acc)
        " ".intercalate (go (init ⟨ip, port⟩ maxp false) true ops [])
      | _, _, _ => "bad-init"
    | _ => "bad-init"
  | "race", args => handleRace args
  | "writers", sites => " ".intercalate (sites.map fun s =>
      match s.splitOn "=" with
      | [f, n] =>
        match f.splitOn "#" with
        | [file, "new"] => if RtcModel.Latch.modelledCreators file = n.toNat? then s!"{f}=ok" else s!"{f}=UNMODELLED-CONSTRUCTION-SITE"
        | _ => if RtcModel.Latch.modelledWriters f = n.toNat? then s!"{f}=ok" else s!"{f}=UNMODELLED-WRITER"
      | _ => "bad-site")
  | _, _ => "bad-stream"

end RtcModel.Drv.C18
