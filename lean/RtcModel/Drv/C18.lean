import RtcModel.Latch
import RtcModel.Drv.Util
namespace RtcModel.Drv.C18
open RtcModel.Latch RtcModel.Drv

def parseOp (t : String) : Option Op :=
  match fields t with
  | ["p", ip, port, hx] => do
      let bs ← unhex hx
      some (.pkt ⟨← ip.toNat?, ← port.toNat?⟩ (classify bs))
  | ["en"] => some .enable
  | ["rs"] => some .reset
  | ["sg", ip, port] => do some (.sig ⟨← ip.toNat?, ← port.toNat?⟩)
  | ["pr", ip, port] => do some (.pair ⟨← ip.toNat?, ← port.toNat?⟩)
  | ["ss", v] => do some (.ssrc (← v.toNat?))
  | ["mp", v] => do some (.maxp (← v.toNat?))
  | ["ra", "-"] => some (.rtcpAddr none)
  | ["ra", ip, port] => do some (.rtcpAddr (some ⟨← ip.toNat?, ← port.toNat?⟩))
  | _ => none

def showAddr (a : Addr) : String := s!"{a.ip}:{a.port}"

def showSt (s : St) (fwd : String) : String :=
  let r := match s.rtcpRemote with | none => "-" | some a => showAddr a
  s!"{showAddr s.remote}/{r}/{b01 s.rtpLatched}/{b01 s.rtcpLatched}/{fwd}"

def fwdText (o : Op) : String :=
  match o with
  | .pkt _ k => match fwdOf k with | .none => "none" | .dtls => "dtls" | .rtp => "rtp"
  | _ => "-"

/-- `latch <id> init,ip,port,maxp,tcp op op …` -/
def handle (stream : String) (args : List String) : String :=
  match stream, args with
  | "latch", ini :: ops =>
    match fields ini with
    | ["init", ip, port, maxp, tcp] =>
      match ip.toNat?, port.toNat?, maxp.toNat? with
      | some ip, some port, some maxp =>
        let s0 := init ⟨ip, port⟩ maxp (tcp = "1")
        let rec go (s : St) (ops : List String) (acc : List String) : List String :=
          match ops with
          | [] => acc.reverse
          | t :: rest =>
            match parseOp t with
            | none => ("bad-op" :: acc).reverse
            | some o => let s' := step s o; go s' rest (showSt s' (fwdText o) :: acc)
        " ".intercalate (go s0 ops [showSt s0 "-"])
      | _, _, _ => "bad-init"
    | _ => "bad-init"
  | _, _ => "bad-stream"

end RtcModel.Drv.C18
