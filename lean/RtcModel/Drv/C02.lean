import RtcModel.DtlsHs
import RtcModel.Base.C02Sha256
import RtcModel.Fingerprint
import RtcModel.Drv.Util
import RtcModel.Drv.C03
/-
Driver for C02 (and, through `hsSession`, C11).  Streams:
  hs   init,<c|s>,<expected fp text hex | ->,<pub>,<clientRandom>,<chBody>,<ch2Body>,<serverRandom>,<shBody>,<certBody>,<skeBody>,<ckeBody>
       facts,<kind:key=value;…>      (interpretation of handshake bodies, computed by the harness)
       op …                          dg,<hex>,<aead table> | tk | cl | sd,<hex> | dl
       output: one token for the start, one per op, then `fin:<conn>/<srtp>/<keys id>`
  fp   <text hex>                    `SdpFingerprint::parse`'s value normalisation
  fpd  <digest hex>                  `fingerprint_from_der`'s formatting of a 32-byte digest
-/
namespace RtcModel.Drv.C02
open RtcModel.Generated RtcModel.DtlsRecord RtcModel.DtlsHs RtcModel.Drv

abbrev Facts := List (String × String)

def fkey (bs : Bytes) : String := C03.natHex (C03.fnv64 bs)

def parseFacts (s : String) : Facts :=
  if s = "-" then [] else
  (s.splitOn ";").filterMap fun kv =>
    match kv.splitOn "=" with
    | [k, v] => some (k, v)
    | _ => none

def asciiBytes (s : String) : Bytes := s.toList.map (fun c => UInt8.ofNat c.toNat)
def bytesAscii (b : Bytes) : String := String.ofList (b.map (fun x => Char.ofNat x.toNat))

def parseNats (s : String) : List Nat :=
  if s = "-" then [] else (s.splitOn ".").filterMap String.toNat?

/-- the interpretation of bodies given by the harness; certificates are named by the id the harness
gave them (the id string's bytes stand for the DER) -/
def factCrypto (f : Facts) : Crypto where
  chDecode b := match f.lookup ("ch:" ++ fkey b) with
    | some v => match v.splitOn "/" with
      | [r, e, p] => (unhex r).map fun r => (r, e = "1", parseNats p)
      | _ => none
    | none => none
  shDecode b := match f.lookup ("sh:" ++ fkey b) with
    | some v => match v.splitOn "/" with
      | [r, e, p] => (unhex r).map fun r => (r, e = "1", p.toNat?)
      | _ => none
    | none => none
  hvrOk b := (f.lookup ("hv:" ++ fkey b)) = some "1"
  certDecode b := match f.lookup ("ce:" ++ fkey b) with
    | some "x" => none
    | some "e" => some []
    | some v => some ((v.splitOn ".").map asciiBytes)
    | none => none
  digest leaf := match f.lookup ("dg:" ++ bytesAscii leaf) with
    | some v => (unhex v).getD []
    | none => []
  pkOk leaf := (f.lookup ("pk:" ++ bytesAscii leaf)) = some "1"
  skeDecode b := match f.lookup ("sk:" ++ fkey b) with
    | some "x" => none
    | some v => unhex v
    | none => none
  sigOk leaf cr sr body := (f.lookup ("sg:" ++ fkey (leaf ++ cr ++ sr ++ body))) = some "1"
  ckeDecode b := match f.lookup ("ck:" ++ fkey b) with
    | some "x" => none
    | some v => unhex v
    | none => none
  derive _ pk cr sr _ _ := match f.lookup ("dk:" ++ fkey (pk ++ cr ++ sr)) with
    | some v => match (v.splitOn "/").map unhex with
      | [some ms, some cr, some sr, some cwk, some swk, some cwi, some swi] => some ⟨ms, cr, sr, cwk, swk, cwi, swi⟩
      | _ => none
    | none => none
  vd ms label tr :=
    C02Sha256.prf ms (C02Sha256.ascii (if label then "client finished" else "server finished")) (C02Sha256.sha256 tr) 12

/-- handshake records in the clear also show the message they carry -/
def descr (w : WRec) : String :=
  if w.ctype = dtlsCtHandshake ∧ !w.sealed then
    match decodeHs w.plain with
    | .msg m _ => s!"{w.ctype}.{w.epoch}.{w.seq}:{m.typ}.{m.msgSeq}.{m.body.length}"
    | _ => s!"{w.ctype}.{w.epoch}.{w.seq}:?"
  else C03.descr w

def showOuts (e : Ep) (outs : List Out) : String :=
  let del := outs.filterMap fun o => match o with | .deliver p => some (hex p) | _ => none
  let snd := outs.filterMap fun o => match o with | .send w => some (descr w) | _ => none
  let j (l : List String) := if l.isEmpty then "-" else "+".intercalate l
  s!"{C03.connLetter e.conn},{b01 e.alive},{j del},{j snd}"

def keysId (k : Keys) : String := fkey (k.ms ++ k.cr ++ k.sr ++ k.cwKey ++ k.swKey ++ k.cwIv ++ k.swIv)

def finToken (e : Ep) : String :=
  let srtp := match e.connSrtp with | some p => toString p | none => "-"
  match exporter e with
  | some k => s!"fin:{C03.connLetter e.conn}/{srtp}/{keysId k}"
  | none => s!"fin:{C03.connLetter e.conn}/-/-"

def stepOp (C : Crypto) (L : Loc) (e : Ep) (t : String) : Option (Ep × String) :=
  match fields t with
  | ["dg", hx, tbl] => do
      let bs ← unhex hx
      let (e', outs) := onPacket (C03.tableDec (C03.parseTable tbl)) C L e bs
      some (e', showOuts e' outs)
  | ["sd", hx] => do
      let bs ← unhex hx
      let (e', outs) := onSend e bs
      some (e', showOuts e' outs)
  | ["cl"] => let (e', outs) := onClose e; some (e', showOuts e' outs)
  | ["tk"] => some (e, showOuts e (onTick e))
  | ["dl"] => let e' := onDeadline e; some (e', showOuts e' [])
  | _ => none

/-- the `hs` stream, shared with C11 -/
def hsSession (args : List String) : String :=
  match args with
  | ini :: fct :: ops =>
    match fields ini, fields fct with
    | ["init", role, fp, pub, cr, ch, ch2, sr, sh, cert, ske, cke], ["facts", ft] =>
      match unhex pub, unhex cr, unhex ch, unhex ch2, unhex sr, unhex sh, unhex cert, unhex ske, unhex cke with
      | some pub, some cr, some ch, some ch2, some sr, some sh, some cert, some ske, some cke =>
        let L : Loc := ⟨pub, cr, ch, ch2, sr, sh, cert, ske, cke⟩
        let C := factCrypto (parseFacts ft)
        let expected := if fp = "-" then none else unhex fp
        let (e0, o0) := start L (role = "c") expected
        let rec go (e : Ep) (ops : List String) (acc : List String) : List String :=
          match ops with
          | [] => (finToken e :: acc).reverse
          | t :: rest =>
            match stepOp C L e t with
            | none => ("bad-op" :: acc).reverse
            | some (e', o) => go e' rest (o :: acc)
        " ".intercalate (go e0 ops [showOuts e0 o0])
      | _, _, _, _, _, _, _, _, _ => "bad-init"
    | _, _ => "bad-init"
  | _ => "bad-args"

def handle (stream : String) (args : List String) : String :=
  match stream, args with
  | "hs", _ => hsSession args
  | "fp", [hx] =>
    match unhex hx with
    | some bs =>
      match Fingerprint.normalize bs with
      | some cs => "ok:" ++ hex cs
      | none => "err"
    | none => "bad-hex"
  | "sdpfp", attrs =>
    -- each argument: hex of one fingerprint attribute value, `!` = attribute without value
    let vals := attrs.map fun a => if a = "!" then some none else (unhex a).map some
    if vals.any Option.isNone then "bad-hex" else
    match Fingerprint.collect (vals.filterMap id) .none with
    | .err => "err"
    | .none => "none"
    | .some a v => s!"ok:{hex a}:{hex v}"
  | "fpd", [hx] =>
    match unhex hx with
    | some bs => hex (Fingerprint.format bs)
    | none => "bad-hex"
  | _, _ => "bad-stream"

end RtcModel.Drv.C02
