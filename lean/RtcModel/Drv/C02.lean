import RtcModel.DtlsHs
import RtcModel.Base.C02Sha256
import RtcModel.Fingerprint
import RtcModel.Drv.Util
import RtcModel.Drv.DtlsHsStream
/-
Driver for C02 (and, through `hsSession`, C11).  Streams:
  hs   init,<c|s>,<expected fp text hex | ->,<pub>,<clientRandom>,<chBody>,<ch2Body>,<serverRandom>,<shBody>,<certBody>,<skeBody>,<ckeBody>
       facts,<kind:key=value;…>      (interpretation of handshake bodies, computed by the harness)
       op …                          dg,<hex>,<aead table> | tk | cl | sd,<hex> | dl
       output: one token for the start, one per op, then `fin:<conn>/<srtp>/<keys id>`
  fp   <text hex>                    `SdpFingerprint::parse`'s value normalisation
  fpd  <digest hex>                  `fingerprint_from_der`'s formatting of a 32-byte digest
-/
namespace RtcModel.Drv.C02
open RtcModel.Generated RtcModel.DtlsRecord RtcModel.DtlsHs RtcModel.Drv RtcModel.Drv.DtlsStream

def handle (stream : String) (args : List String) : String :=
  match stream, args with
  | "hs", _ => hsSession args
  | "dl", _ => deadlineCheck args
  | "fp", [hx] =>
    match unhex hx with
    | some bs =>
      match Fingerprint.normalize bs with
      | some cs => "ok:" ++ hex cs
      | none => "err"
    | none => "bad-hex"
  | "sdpfp", attrs =>
    -- each argument: hex of one fingerprint attribute value, `!` = attribute without value
    let vals := attrs.map fun a => if a = "!" then some none else (unhex a).map some
    if vals.any Option.isNone then "bad-hex" else
    match Fingerprint.collect (vals.filterMap id) .none with
    | .err => "err"
    | .none => "none"
    | .some a v => s!"ok:{hex a}:{hex v}"
  | "fpd", [hx] =>
    match unhex hx with
    | some bs => hex (Fingerprint.format bs)
    | none => "bad-hex"
  | _, _ => "bad-stream"

end RtcModel.Drv.C02
