import RtcModel.Drv.C01
import RtcModel.SctpSend
namespace RtcModel.Drv.C12
open RtcModel.Sctp RtcModel.Drv

def u32? (s : String) : Option UInt32 := s.toNat?.map UInt32.ofNat
def u16? (s : String) : Option UInt16 := s.toNat?.map UInt16.ofNat
def u8? (s : String) : Option UInt8 := s.toNat?.map UInt8.ofNat

def showOpen (o : DcepOpen) : String :=
  s!"{o.channelType},{o.priority},{o.reliability},{hex o.label},{hex o.protocol}"

/-- `dcep m,<ct>,<prio>,<rel>,<hexlabel>,<hexproto>` → marshalled bytes; `dcep u,<hex>` → fields or `err` -/
def doDcep (args : List String) : String :=
  match args with
  | [t] =>
    match fields t with
    | ["m", ct, pr, rel, lab, pro] =>
      match u8? ct, u16? pr, u32? rel, unhex lab, unhex pro with
      | some ct, some pr, some rel, some lab, some pro =>
        hex (DcepOpen.marshal { channelType := ct, priority := pr, reliability := rel, label := lab, protocol := pro })
      | _, _, _, _, _ => "bad-args"
    | ["u", hx] =>
      match unhex hx with
      | some d => match DcepOpen.unmarshal d with | some o => showOpen o | none => "err"
      | none => "bad-args"
    | _ => "bad-args"
  | _ => "bad-args"

/-- `chantype <ordered>,<mr|->,<ml|->` → channel type byte and reliability parameter of `send_dcep_open`,
and the (ordered, mr, ml) `handle_dcep` derives from them -/
def doChanType (args : List String) : String :=
  match args with
  | [t] =>
    match fields t with
    | [ord, mr, ml] =>
      match C01.optU16? mr, C01.optU16? ml with
      | some mr, some ml =>
        let o := openOf (ord = "1") mr ml [] []
        let c := chanOfOpen 0 o
        s!"{o.channelType},{o.reliability} {b01 c.ordered},{C01.showOptU16 c.maxRetransmits},{C01.showOptU16 c.maxLifetime}"
      | _, _ => "bad-args"
    | _ => "bad-args"
  | _ => "bad-args"

/-- sent-queue record of the `prsend` stream: `tsn,len,tc,ab,nr,inf,ack,sid,ssn,maxr,exp` -/
def parsePrRec (t : String) : Option SRec :=
  match fields t with
  | [tsn, len, tc, ab, nr, inf, ack, sid, ssn, maxr, exp] => do
    some { tsn := ← u32? tsn, len := ← len.toNat?, transmitCount := ← tc.toNat?, abandoned := ab = "1",
           needsRetransmit := nr = "1", inFlight := inf = "1", acked := ack = "1", sid := ← u16? sid, ssn := ← u16? ssn,
           maxRetransmits := ← (if maxr = "-" then some none else (u16? maxr).map some), hasExpiry := exp = "1" }
  | _ => none

def showPrRec (r : SRec) : String :=
  let mr := match r.maxRetransmits with | none => "-" | some v => toString v
  s!"{r.tsn},{r.len},{r.transmitCount},{b01 r.abandoned},{b01 r.needsRetransmit},{b01 r.inFlight},{b01 r.acked},{r.sid},{r.ssn},{mr},{b01 r.hasExpiry}"

/-- sort (stream, ssn) pairs by stream id (the code keeps them in a HashMap) -/
def sortPairs (ps : List (UInt16 × UInt16)) : List (UInt16 × UInt16) :=
  ps.foldr (fun p acc => (acc.filter (fun q => q.1 < p.1)) ++ [p] ++ (acc.filter (fun q => !(q.1 < p.1)))) []

/-- `prsend <advanced> <peerCumAck> <expired tsns|-> rec …`: `update_advanced_peer_ack_point` and the
FORWARD-TSN chunk -/
def doPrSend (args : List String) : String :=
  match args with
  | adv :: pc :: ex :: recs =>
    match u32? adv, u32? pc, (if ex = "-" then some [] else (fields ex).mapM u32?), (recs.filter (· ≠ "-")).mapM parsePrRec with
    | some adv, some pc, some ex, some q =>
      let fl := ((q.filter (·.inFlight)).map (·.len)).sum
      let o := updateAdvanced ex q fl adv pc false []
      let ps := sortPairs o.pairs
      let chunk := match encForwardTsn o.advanced pc ps with
        | none => "-"
        | some c => if ps.length ≤ 1 then hex c else s!"multi:{c.length}"
      let pt := if ps.isEmpty then "-" else ",".intercalate (ps.map fun p => s!"{p.1}:{p.2}")
      s!"adv={o.advanced} pend={b01 o.pending} fl={o.flight} pairs={pt} chunk={chunk} | " ++
        (if o.sentQ.isEmpty then "-" else " ".intercalate (o.sentQ.map showPrRec))
    | _, _, _, _ => "bad-args"
  | _ => "bad-args"

/-- `reconfig <hex chunk value> …`: RE-CONFIG chunks handled one after the other by a fresh endpoint with channels 0..5;
per chunk the answers in order: `sn:result:channels reset` -/
def doReconfig (args : List String) : String :=
  match args.mapM unhex with
  | some chunks =>
    let chans : List UInt16 := [0, 1, 2, 3, 4, 5]
    let showEv : RcEv → String
      | .duplicate sn => s!"{sn}:0"
      | .performed sn _ => s!"{sn}:1"
    let hitOf : RcEv → List UInt16
      | .duplicate _ => []
      | .performed _ ids => if ids.isEmpty then chans else chans.filter (fun c => ids.contains c)
    let r := chunks.foldl (fun (st : UInt32 × List String) v =>
      let x := rcRun st.1 (rcParams v.length v)
      let hit := chans.filter (fun c => x.2.any (fun e => (hitOf e).contains c))
      let line := if x.2.isEmpty then "-" else " ".intercalate (x.2.map showEv)
      (x.1, st.2 ++ [line ++ " reset=" ++ (if hit.isEmpty then "-" else ",".intercalate (hit.map toString))])) ((0xFFFFFFFF : UInt32), [])
    " | ".intercalate r.2
  | none => "bad-args"

def handle (stream : String) (args : List String) : String :=
  match stream with
  | "reconfig" => doReconfig args
  | "prsend" => doPrSend args
  | "rx" => C01.doRx args
  | "dcep" => doDcep args
  | "chantype" => doChanType args
  | _ => "bad-stream"

end RtcModel.Drv.C12
