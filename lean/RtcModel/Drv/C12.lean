import RtcModel.Drv.C01
namespace RtcModel.Drv.C12
open RtcModel.Sctp RtcModel.Drv

def u32? (s : String) : Option UInt32 := s.toNat?.map UInt32.ofNat
def u16? (s : String) : Option UInt16 := s.toNat?.map UInt16.ofNat
def u8? (s : String) : Option UInt8 := s.toNat?.map UInt8.ofNat

def showOpen (o : DcepOpen) : String :=
  s!"{o.channelType},{o.priority},{o.reliability},{hex o.label},{hex o.protocol}"

/-- `dcep m,<ct>,<prio>,<rel>,<hexlabel>,<hexproto>` → marshalled bytes; `dcep u,<hex>` → fields or `err` -/
def doDcep (args : List String) : String :=
  match args with
  | [t] =>
    match fields t with
    | ["m", ct, pr, rel, lab, pro] =>
      match u8? ct, u16? pr, u32? rel, unhex lab, unhex pro with
      | some ct, some pr, some rel, some lab, some pro =>
        hex (DcepOpen.marshal { channelType := ct, priority := pr, reliability := rel, label := lab, protocol := pro })
      | _, _, _, _, _ => "bad-args"
    | ["u", hx] =>
      match unhex hx with
      | some d => match DcepOpen.unmarshal d with | some o => showOpen o | none => "err"
      | none => "bad-args"
    | _ => "bad-args"
  | _ => "bad-args"

/-- `chantype <ordered>,<mr|->,<ml|->` → channel type byte and reliability parameter of `send_dcep_open`,
and the (ordered, mr, ml) `handle_dcep` derives from them -/
def doChanType (args : List String) : String :=
  match args with
  | [t] =>
    match fields t with
    | [ord, mr, ml] =>
      match C01.optU16? mr, C01.optU16? ml with
      | some mr, some ml =>
        let o := openOf (ord = "1") mr ml [] []
        let c := chanOfOpen 0 o
        s!"{o.channelType},{o.reliability} {b01 c.ordered},{C01.showOptU16 c.maxRetransmits},{C01.showOptU16 c.maxLifetime}"
      | _, _ => "bad-args"
    | _ => "bad-args"
  | _ => "bad-args"

def handle (stream : String) (args : List String) : String :=
  match stream with
  | "rx" => C01.doRx args
  | "dcep" => doDcep args
  | "chantype" => doChanType args
  | _ => "bad-stream"

end RtcModel.Drv.C12
