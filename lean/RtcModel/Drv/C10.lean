import RtcModel.Negotiate
import RtcModel.Drv.Util
namespace RtcModel.Drv.C10
open RtcModel.Negotiate RtcModel.Drv

def parseMode (s : String) : Option Mode :=
  match s with
  | "w" => some .webrtc | "s" => some .srtp | "r" => some .rtp | _ => none

def parseRole (s : String) : Option (Option Bool) :=
  match s with
  | "-" => some none | "1" => some (some true) | "0" => some (some false) | _ => none

def roleText : Option Bool → String
  | none => "-" | some true => "1" | some false => "0"

/-- `k=v` (split at the first `=`) or a bare key -/
def parseAttr (t : String) : Attr :=
  match t.splitOn "=" with
  | [k] => ⟨k, none⟩
  | k :: rest => ⟨k, some ("=".intercalate rest)⟩
  | [] => ⟨"", none⟩

def parseOffer (t : String) : List (List Attr) :=
  if t = "-" then [] else
  (t.splitOn "|").map (fun s => if s = "." then [] else (s.splitOn ";").map parseAttr)

def profileText : Profile → String
  | .aes80 => "aes80" | .aes32 => "aes32" | .gcm => "gcm" | .null => "null"

def keysText (k : Keys) : String :=
  s!"{hex k.txKey}.{hex k.txSalt}.{hex k.rxKey}.{hex k.rxSalt}"

def bits (l : List Bool) : String :=
  if l.isEmpty then "-" else String.ofList (l.map (fun b => if b then '1' else '0'))

/-- use_srtp id stored by the DTLS server (`ctx.srtp_profile` after ClientHello) -/
def serverId : Option Nat := serverSelect (serverParseProfiles (clientUseSrtpExt clientProfiles))
/-- use_srtp id stored by the DTLS client (parsed from the ServerHello extension) -/
def clientId : Option Nat :=
  match serverId with
  | some sel => clientParseSelected (serverUseSrtpExt sel)
  | none => none
def idFor (isClient : Bool) : Option Nat := if isClient then clientId else serverId

def live (conc : Bool) (mode : Mode) (nmedia : Nat) (data legacy muxreq : Bool) (mat ksO ksA : Option (List UInt8))
    (suiteO suiteA : String) : String :=
  let nsec := nmedia + (if data then 1 else 0)
  let eps := exchange ⟨mode, none⟩ ⟨mode, none⟩ nsec
  let setupO := if mode = .webrtc then localSetup .offer none else "-"
  let setupA := if mode = .webrtc then localSetup .answer eps.2.role else "-"
  let bundleO := willBundle legacy .offer nsec false
  let bundleA := willBundle legacy .answer nsec bundleO
  let muxO := decide (nmedia > 0) && sectionHasMux muxreq legacy .offer false
  let muxA := decide (nmedia > 0) && sectionHasMux muxreq legacy .answer (sectionHasMux muxreq legacy .offer false)
  let ports (b : Bool) : Nat :=
    if nmedia = 0 then 0 else if mode = .webrtc then 1 else if b then 1 else nmedia
  let extra (b : Bool) : String :=
    if mode = .webrtc ∨ b then "0.0"
    else s!"{if mode = .rtp then nmedia - 1 else 0}.{nmedia - 1}"
  let (profO, profA, keysO, keysA) : String × String × String × String :=
    match mode with
    | .webrtc =>
      match mat with
      | some m =>
        let o := setupSrtp (idFor (eps.1.role.getD true)) (eps.1.role.getD true) (fun n => m.take n)
        let a := setupSrtp (idFor (eps.2.role.getD true)) (eps.2.role.getD true) (fun n => m.take n)
        (profileText o.1, profileText a.1, keysText o.2, keysText a.2)
      | none => ("-", "-", "-", "-")
    | .srtp =>
      match ksO, ksA with
      | some ko, some ka =>
        let o := match setupSdes suiteA suiteO ka ko with
          | .ok (p, k) => (profileText p, keysText k) | .error _ => ("err", "err")
        let a := match setupSdes suiteO suiteA ko ka with
          | .ok (p, k) => (profileText p, keysText k) | .error _ => ("err", "err")
        (o.1, a.1, o.2, a.2)
      | _, _ => ("-", "-", "-", "-")
    | .rtp => ("-", "-", "-", "-")
  let delivered : List Bool :=
    (List.range nmedia).map (fun i => if mode = .webrtc then true else sectionDelivered mode bundleO nmedia i)
  let dataT := if data then "1/1" else "-/-"
  -- both ends open channels of their own on the live connection: ids by `dcAlloc` from what each end has
  -- registered at that moment (channel 0 of the offerer is known to both); all four messages arrive
  let dc2T :=
    if data then
      let e := dcAlloc eps.2.role []
      let o1 := dcAlloc eps.1.role [0, e]
      let a1 := dcAlloc eps.2.role [0, e]
      let o2 := dcAlloc eps.1.role [0, e, o1, a1]
      let a2 := dcAlloc eps.2.role [0, e, o1, a1, o2]
      s!"{o1}.{a1}.{o2}.{a2}:1111"
    else "-"
  -- the answerer's channel created after it applied the offer (role already server) and before its association
  -- existed: the first id of its parity; announced at the offerer, one message each way on it
  let earlyT := if data then s!"{dcAlloc eps.2.role []}:11" else "-"
  s!"conn=1 roles={roleText eps.1.role}/{roleText eps.2.role} setup={setupO}/{setupA} profile={profO}/{profA} keys={keysO}/{keysA} bundle={b01 bundleO}/{b01 bundleA} mux={b01 muxO}/{b01 muxA} ports={ports bundleO}/{ports bundleA} extra={extra bundleO}/{extra bundleA} data={dataT} rtp={bits delivered}/{bits delivered} early={earlyT} dc2={dc2T} conc={if conc then "1111" else "-"}"

def optHex (s : String) : Option (Option (List UInt8)) :=
  if s = "-" then some none else (unhex s).map some

def handle (stream : String) (args : List String) : String :=
  match stream, args with
  | "role", [m, o1, o2] =>
    match parseMode m with
    | none => "bad-mode"
    | some mode =>
      let r1 := roleAfterRemote mode none (parseOffer o1)
      let ans := if mode = .webrtc then localSetup .answer r1 else "-"
      let r2 := if o2 = "-" then "-" else roleText (roleAfterRemote mode r1 (parseOffer o2))
      s!"{roleText r1} {ans} {r2}"
  | "foreign", [o, n] =>
    match n.toNat? with
    | none => "bad-n"
    | some n =>
      let r := exchangeForeignOffer ⟨.webrtc, none⟩ ⟨.webrtc, none⟩ (parseOffer o) n
      s!"{roleText r.1.role} {roleText r.2.role}"
  | "muxsdp", [mo, lo, ma, la] =>
    let offerMux := sectionHasMux (mo = "1") (lo = "1") .offer false
    let answerMux := sectionHasMux (ma = "1") (la = "1") .answer offerMux
    -- Rtp mode: `a=rtcp:<port>` is written when the section has no rtcp-mux and an RTCP socket was bound
    let offerRtcp := !offerMux && needsRtcpSocket (mo = "1") (lo = "1") .offer false
    let answerRtcp := !answerMux && needsRtcpSocket (ma = "1") (la = "1") .answer offerMux
    s!"mux={b01 offerMux}/{b01 answerMux} rtcp={b01 offerRtcp}/{b01 answerRtcp}"
  | "muxsdp2", [mo, lo, ma, la] =>
    -- two sections (audio + video), Rtp mode, independent policy / compatibility mode per end
    let offerBundle := willBundle (lo = "1") .offer 2 false
    let answerBundle := willBundle (la = "1") .answer 2 offerBundle
    let offerMux := sectionHasMux (mo = "1") (lo = "1") .offer false
    let answerMux := sectionHasMux (ma = "1") (la = "1") .answer offerMux
    -- every section's transport (the primary one, or the section's own when not bundled) binds its RTCP
    -- socket by the same rule; `a=rtcp` is written when the section has no rtcp-mux and the socket exists
    let offerRtcp := !offerMux && needsRtcpSocket (mo = "1") (lo = "1") .offer false
    let answerRtcp := !answerMux && needsRtcpSocket (ma = "1") (la = "1") .answer offerMux
    let two (b : Bool) : String := s!"{b01 b}{b01 b}"
    -- bundled sections advertise the primary socket's port (`advertisedSocket`)
    let same (bundle : Bool) : Bool := advertisedSocket bundle 1 == advertisedSocket bundle 0
    s!"grp={b01 offerBundle}/{b01 answerBundle} sameport={b01 (same offerBundle)}/{b01 (same answerBundle)} mux={two offerMux}/{two answerMux} rtcp={two offerRtcp}/{two answerRtcp}"
  | "dcpre", [ro, ra] =>
    match parseRole ro, parseRole ra with
    | some ro, some ra => s!"{dcAlloc ro []} {dcAlloc ra []}"
    | _, _ => "bad-role"
  | "dc", [r, used] =>
    match parseRole r with
    | none => "bad-role"
    | some role =>
      let u := if used = "-" then [] else (fields used).filterMap String.toNat?
      s!"{dcAlloc role u}"
  | "rtcp", [mux, explicit, port] =>
    match port.toNat? with
    | none => "bad-port"
    | some p =>
      let e := if explicit = "-" ∨ explicit = "g" then none else explicit.toNat?
      match remoteRtcpPort (mux = "1") e p with
      | none => "-"
      | some x => s!"{x}"
  | "suite", [s] => match mapCryptoSuite s with | none => "-" | some p => profileText p
  | "srtp", [pid, isClient, mat] =>
    match unhex mat with
    | none => "bad-hex"
    | some m =>
      let r := setupSrtp (if pid = "-" then none else pid.toNat?) (isClient = "1") (fun n => m.take n)
      s!"{profileText r.1} {keysText r.2}"
  | "sdes", [rs, ls, rk, lk] =>
    match unhex rk, unhex lk with
    | some rk, some lk =>
      match setupSdes rs ls rk lk with
      | .ok (p, k) => s!"{profileText p} {keysText k}"
      | .error _ => "err err"
    | _, _ => "bad-hex"
  | "live", m :: nmedia :: data :: legacy :: muxreq :: mat :: ksO :: ksA :: suiteO :: suiteA :: rest =>
    match parseMode m, nmedia.toNat?, optHex mat, optHex ksO, optHex ksA with
    | some mode, some nm, some mat, some ksO, some ksA =>
      -- `c1`: the harness ran the concurrent media + data phase on this point: both bursts arrive complete,
      -- in order and intact, and RTP keeps arriving afterwards in both directions
      live (rest.head? == some "c1") mode nm (data = "1") (legacy = "1") (muxreq = "1") mat ksO ksA suiteO suiteA
    | _, _, _, _, _ => "bad-live"
  | _, _ => "bad-stream"

end RtcModel.Drv.C10
