import RtcModel.DtlsHs
import RtcModel.Drv.Util
import RtcModel.Drv.DtlsHsStream
/-
Driver for C03.  Streams:
  sess  init,<c|s>,<ms>,<cr>,<sr>,<cwKey>,<swKey>,<cwIv>,<swIv>,<vdClient>,<vdServer> op op …
        ops:  dg,<datagram hex>,<oracle table>   inject a datagram (oracle: h=x|plain;…, `-` = empty table)
              sd,<payload hex>                    DtlsTransport::send
              cl                                  close()
              tk                                  retransmit tick
        one output token per op:  <conn>,<alive>,<delivered +-joined>,<sent records +-joined>
  conc  <epoch>,<first seq>,<n records>,<close 0|1>   the set of (epoch, seq) any interleaving of the
        senders' allocations produces, and the alert's
  dec   <datagram hex>                            `DtlsRecord::decode` applied repeatedly
-/
namespace RtcModel.Drv.C03
open RtcModel.Generated RtcModel.DtlsRecord RtcModel.DtlsHs RtcModel.Drv RtcModel.Drv.DtlsStream

/-- interpretation of handshake bodies used after the handshake: only Finished needs a value (the
verify_data the endpoint expects, computed by the harness); every other decoder is offered bodies
that do not parse, except one foreign Certificate (the session's client pins its server's fingerprint — `[0]` here —,
the server pins nothing). -/
def drvCrypto (vdClient vdServer otherCert : Bytes) : Crypto where
  chDecode _ := none
  shDecode _ := none
  hvrOk _ := false
  -- one decodable Certificate body is offered: some other party's certificate (usable key, digest ≠ the pinned one)
  certDecode b := if b = otherCert ∧ otherCert ≠ [] then some [[0xA7]] else none
  digest _ := [1]
  pkOk _ := true
  skeDecode _ := none
  sigOk _ _ _ _ := false
  ckeDecode _ := none
  derive _ _ _ _ _ _ := none
  vd _ label _ := if label then vdClient else vdServer

def drvLoc : Loc := ⟨[], [], [], [], [], [], [], [], []⟩

/-- the state a client / server is in after an undisturbed handshake with one flight each
(sequence numbers as the code assigns them; validated by the correspondence itself) -/
def connected (isClient : Bool) (k : Keys) : Ep :=
  let fl : List WRec :=
    if isClient then [⟨dtlsCtChangeCipherSpec, 0, 2, false, [1]⟩, ⟨dtlsCtHandshake, 1, 0, true, []⟩]
    else [⟨dtlsCtChangeCipherSpec, 0, 4, false, [1]⟩, ⟨dtlsCtHandshake, 1, 0, true, []⟩]
  { isClient, conn := .connected, connKeys := some k, connSrtp := none, alive := true,
    writeEpoch := 1, writeSeq := 1,
    ctx := { seqNum := 1, epoch := 1,
             msgSeq := if isClient then 3 else 4,
             recvSeq := if isClient then 5 else 3,
             lastFlight := some fl, localSecret := false,
             peerPub := some [], peerCert := if isClient then some [] else none,
             clientRandom := some k.cr, serverRandom := some k.sr, keys := some k,
             ems := true, skeVerified := isClient, expectedFp := if isClient then some [0] else none } }

def stepOp (C : Crypto) (e : Ep) (t : String) : Option (Ep × String) :=
  match fields t with
  | ["dg", hx, tbl] => do
      let bs ← unhex hx
      let (e', outs) := onPacket (tableDec (parseTable tbl)) C drvLoc e bs
      some (e', showOuts03 e' outs)
  | ["sd", hx] => do
      let bs ← unhex hx
      let (e', outs) := onSend e bs
      some (e', showOuts03 e' outs)
  | ["ws", n] => do
      -- (verification hook `verif_set_write_seq`) the write counter is preset
      let n ← n.toNat?
      let e' := { e with writeSeq := n }
      some (e', showOuts03 e' [])
  | ["cl"] =>
      let (e', outs) := onClose e
      some (e', showOuts03 e' outs)
  | ["tk"] => some (e, showOuts03 e (onTick e))
  | _ => none

def showRec (r : Rec) : String := s!"{r.ctype}.{r.vmaj.toNat}.{r.vmin.toNat}.{r.epoch}.{r.seq}.{hex r.body}"

def decAll : Nat → Bytes → List String → List String
  | 0, _, acc => acc.reverse
  | fuel + 1, bs, acc =>
    if bs.isEmpty then acc.reverse else
    match decodeRec bs with
    | .short => ("short" :: acc).reverse
    | .bad => ("bad" :: acc).reverse
    | .ok r rest => decAll fuel rest (showRec r :: acc)

def handle (stream : String) (args : List String) : String :=
  match stream, args with
  | "sess", ini :: ops =>
    match fields ini with
    | ["init", role, ms, cr, sr, cwk, swk, cwi, swi, vdc, vds, oc] =>
      match unhex ms, unhex cr, unhex sr, unhex cwk, unhex swk, unhex cwi, unhex swi, unhex vdc, unhex vds, unhex oc with
      | some ms, some cr, some sr, some cwk, some swk, some cwi, some swi, some vdc, some vds, some oc =>
        let k : Keys := ⟨ms, cr, sr, cwk, swk, cwi, swi⟩
        let C := drvCrypto vdc vds oc
        let rec go (e : Ep) (ops : List String) (acc : List String) : List String :=
          match ops with
          | [] => acc.reverse
          | t :: rest =>
            match stepOp C e t with
            | none => ("bad-op" :: acc).reverse
            | some (e', o) => go e' rest (o :: acc)
        " ".intercalate (go (connected (role = "c") k) ops [])
      | _, _, _, _, _, _, _, _, _, _ => "bad-init"
    | _ => "bad-init"
  | "conc", [a] =>
    match (fields a).map String.toNat? with
    | [some epoch, some first, some n, some close] =>
      -- any schedule of n allocations: run the canonical one; the set is schedule independent
      -- (theorem `send_nonce_unique` + `Tx.run_next`)
      let t0 : Tx := { epoch, next := first, log := [] }
      let t := t0.run ((List.range n).map Who.app)
      let t' := if close = 1 then t.alloc .alert else t
      let seqs := (t'.log.map (·.seq)).reverse
      let lo := seqs.head?.getD first
      let hi := seqs.getLast?.getD first
      if seqs.isEmpty then s!"{epoch}:- alert={close}" else s!"{epoch}:{lo}-{hi}/{seqs.length} alert={close}"
    | _ => "bad-args"
  | "pub", [a] =>
    -- `pub <point>,<E>,<S>`: a sender that runs a whole send() right after publication statement <point>
    -- (1 = state, 2 = write_epoch, 3 = write_seq), the publisher's other steps around it in code order
    match (fields a).map String.toNat? with
    | [some point, some E, some S] =>
      let target : PubStep := if point = 1 then .setState else if point = 2 then .storeEpoch else .storeSeq
      let before := (pubOrder.takeWhile (· ≠ target)).length + 1
      let acts : List PAct := List.replicate before .pub ++ [.snd 0, .snd 0, .snd 0] ++ List.replicate (3 - before) .pub
      let s := PSys.run E S { rest := pubOrder } acts
      if s.log.isEmpty then "rejected" else " ".intercalate (s.log.reverse.map fun p => s!"{p.1}.{p.2}")
    | _ => "bad-args"
  | "hs", _ => hsSession args
  | "dec", [hx] =>
    match unhex hx with
    | some bs => " ".intercalate (decAll (bs.length + 1) bs [])
    | none => "bad-hex"
  | _, _ => "bad-stream"

end RtcModel.Drv.C03
