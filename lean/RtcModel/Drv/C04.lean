import RtcModel.SrtpScript
namespace RtcModel.Drv.C04
open RtcModel.C04 RtcModel.Srtp RtcModel.Srtp.Script RtcModel.Drv

def optNat (s : String) : Option (Option Nat) :=
  if s = "-" then some none else s.toNat?.map some

/-- estimate and update outcome for every sequence number, run-length encoded:
`seq:estimate:advanced` at each change point -/
def rocRow (roc : Nat) (last : Option Nat) : String := Id.run do
  let mut out : Array String := #[]
  let mut prev : Option (Nat × Bool) := none
  for seq in [0:65536] do
    let e := estimateRoc roc last seq
    let adv := decide (updateRoc roc last seq e = (e, some seq))
    if prev ≠ some (e, adv) then
      out := out.push s!"{seq}:{e}:{b01 adv}"
      prev := some (e, adv)
  return ",".intercalate out.toList

def showKeys (k : Keys) : String := s!"{hex k.ck} {hex k.ak} {hex k.salt}"

def showHdr (h : Hdr) (p : Bool) (body : Bytes) : String :=
  let ext := match h.ext with | none => "-" | some e => s!"{e.profile}:{hex e.data}"
  s!"ok {b01 h.marker} {h.pt.toNat} {h.seq} {h.ts} {h.ssrc} {hex (writeU32s h.csrcs)} {ext} {b01 p} {body.length} {hex (writeHdr h p)} {encodedLen h}"

def handle (stream : String) (args : List String) : String :=
  match stream, args with
  | "prim", ["aes", k, b] => (do some (hex (Aes.encryptBlock (Aes.expandKey (← unhex k)) (← unhex b)))).getD "bad"
  | "prim", ["ctr", k, iv, n] => (do some (hex (Aes.keystream (← unhex k) (← unhex iv) (← n.toNat?)))).getD "bad"
  | "prim", ["sha1", m] => (do some (hex (Sha1.sha1 (← unhex m)))).getD "bad"
  | "prim", ["hmac", k, m] => (do some (hex (Sha1.hmac (← unhex k) (← unhex m)))).getD "bad"
  | "prim", ["gcm", k, n, a, p] => (do some (hex (Gcm.gcmSeal (← unhex k) (← unhex n) (← unhex a) (← unhex p)))).getD "bad"
  | "prim", ["gcmopen", k, n, a, c] =>
    (do some (match Gcm.gcmOpen (← unhex k) (← unhex n) (← unhex a) (← unhex c) with
              | none => "none" | some p => "ok:" ++ hex p)).getD "bad"
  | "kdf", [prof, mk, ms] =>
    (do match Ctx.new S 0 (← parseProfile prof) (← unhex mk) (← unhex ms) 0 with
        | .error e => some (showErr e)
        | .ok c => some s!"ok {showKeys c.rtp} {showKeys c.rtcp}").getD "bad"
  | "iv", [prof, mk, ms, ssrc, seq, roc, idx] =>
    (do let p ← parseProfile prof
        let seq ← seq.toNat?
        let roc ← roc.toNat?
        let idx ← idx.toNat?
        match Ctx.new S (← ssrc.toNat?) p (← unhex mk) (← unhex ms) 0 with
        | .error e => some (showErr e)
        | .ok c =>
          let iv := if p = Profile.gcm then "-" else hex (rtpIv c.rtp.salt c.ssrc seq roc)
          let rks := if p = Profile.gcm then "-" else hex (S.ks c.rtcp.ck (rtcpIv c.rtcp.salt c.ssrc idx) 16)
          some s!"{iv} {hex (gcmNonce c.rtp.salt c.ssrc seq roc)} {hex (gcmRtcpNonce c.rtcp.salt c.ssrc idx)} {rks}").getD "bad"
  | "rocrow", [roc, last] => (do some (rocRow (← roc.toNat?) (← optNat last))).getD "bad"
  | "roc1", [roc, last, seq, r] =>
    (do let roc ← roc.toNat?
        let last ← optNat last
        let seq ← seq.toNat?
        let r ← r.toNat?
        let u := updateRoc roc last seq r
        some s!"{estimateRoc roc last seq} {u.1} {match u.2 with | none => "-" | some l => toString l}").getD "bad"
  | "hdr", [raw] =>
    (do match parseHdr (← unhex raw) with
        | .error e => some (showParseErr e)
        | .ok (h, p, body) => some (showHdr h p body)).getD "bad"
  | "sess", toks => runScript toks
  | "sessw", toks => runScript toks
  | _, _ => "bad-stream"

end RtcModel.Drv.C04
