import RtcModel.C07Rtp
import RtcModel.C07Ice
import RtcModel.C07Dtls
import RtcModel.C07Sctp
import RtcModel.C07SctpSt
import RtcModel.C07Media
import RtcModel.C07Sdp
import RtcModel.Jitter
import RtcModel.Drv.Util
/-! Driver for C07: one decoder model per stream; output `ok <digest>` / `err <error>` / `panic`. -/
namespace RtcModel.Drv.C07
open RtcModel.C07 RtcModel.Drv

def nats (l : List Nat) : String := ",".intercalate (l.map toString)

/-- outcome text; after the marker `§` the model's allocation counter (stripped / compared by `handle`) -/
def showRes (r : Res α) (f : α → String) : String :=
  match r with
  | .ok a _ n => s!"ok {f a}§{n}"
  | .err e n => s!"err {e}§{n}"
  | .panic s => if s = "hang" then "hang" else "panic"

/-- slack of the allocation tie (error objects, minimum `Vec` capacities); the harness uses the same constant -/
def allocSlack : Nat := 512

def runB (m : Cur α) (bs : List UInt8) : Res α := m (Buf.ofList bs) 0
def runS (f : Array UInt8 → Cur α) (bs : List UInt8) : Res α := f bs.toArray (Buf.ofList []) 0

def hexA (a : Array UInt8) : String := hex a.toList

def natsList (ps : List (List Nat)) : String := s!"{ps.length};" ++ ";".intercalate (ps.map nats)

/-- streams whose single argument is the input byte string and whose result is a digest -/
def bufStream (stream : String) : Option (List UInt8 → String) :=
  match stream with
  | "dtlsrec" => some fun bs => showRes (runB Dtls.recordDecode bs) nats
  | "dtlshs" => some fun bs => showRes (runB Dtls.handshakeDecode bs) nats
  | "chello" => some fun bs => showRes (runB Dtls.clientHelloDecode bs) nats
  | "shello" => some fun bs => showRes (runB Dtls.serverHelloDecode bs) nats
  | "hvr" => some fun bs => showRes (runB Dtls.helloVerifyDecode bs) nats
  | "ske" => some fun bs => showRes (runB Dtls.serverKeyExchangeDecode bs) nats
  | "cert" => some fun bs => showRes (runB Dtls.certificateDecode bs) nats
  | "cke" => some fun bs => showRes (runB Dtls.clientKeyExchangeDecode bs) nats
  | "finished" => some fun bs => showRes (runB Dtls.finishedDecode bs) nats
  | "dcepopen" => some fun bs => showRes (runB Sctp.dcepOpenUnmarshal bs) nats
  | "dcepack" => some fun bs => showRes (runS Sctp.dcepAckUnmarshal bs) toString
  | "udptl" => some fun bs => showRes (runS Media.udptlRecv bs) nats
  | _ => none

def parsePk (t : String) : Option (Nat × Nat × Bool × Array UInt8) :=
  match fields t with
  | [sq, ts, m, hx] => do
    let bs ← unhex hx
    some (← sq.toNat?, ← ts.toNat?, m = "1", bs.toArray)
  | _ => none

def showSamples (l : List (List Nat)) : String :=
  s!"{l.length}:" ++ ";".intercalate (l.map fun s => "/".intercalate (s.map toString))

def parseSctpPkt (t : String) : Option SctpSt.Pkt :=
  match t.splitOn ":" with
  | [c, hx, ck] => do
    let bs ← unhex hx
    let cookies ← (if ck = "-" then some [] else (ck.splitOn "+").mapM (fun h => (unhex h).map List.toArray))
    some ⟨bs, c = "1", cookies, []⟩
  | [c, hx, ck, tx] => do
    let bs ← unhex hx
    let cookies ← (if ck = "-" then some [] else (ck.splitOn "+").mapM (fun h => (unhex h).map List.toArray))
    let sent ← (tx.splitOn ",").mapM String.toNat?
    some ⟨bs, c = "1", cookies, sent⟩
  | _ => none

/-- one op token of the `jitter` stream: `p,seq,ts,ssrc,marker,clock,video,id` (`-` = absent) / `o` pop / `r` reset / `d` drain -/
def jitterOp (aged : Bool) (s : Jitter.St) (tok : String) : Option (Jitter.St × String) :=
  let on (t : String) : Option (Option Nat) := if t = "-" then some none else t.toNat?.map some
  match fields tok with
  | ["p", sq, ts, ss, mk, ck, vd, id] =>
    match on sq, ts.toNat?, on ss, ck.toNat?, id.toNat? with
    | some sq, some ts, some ss, some ck, some id =>
      let s' := s.push { seq := sq, ts := ts, ssrc := ss, marker := mk = "1", clock := ck, video := vd = "1", id := id }
      some (s', "P" ++ s'.obs aged)
    | _, _, _, _, _ => none
  | ["o"] =>
    let r := s.pop aged
    some (r.1, "O" ++ (match r.2 with | some x => toString x.id | none => "-") ++ r.1.obs aged)
  | ["r"] => some (s.reset, "R" ++ s.reset.obs aged)
  | ["d"] =>
    let r := s.drain (s.samples.length + 1) []
    some (r.1, "D" ++ "+".intercalate (r.2.map toString) ++ r.1.obs aged)
  | _ => none

def jitterRun (aged : Bool) : Jitter.St → List String → List String → Option (List String)
  | _, [], acc => some acc.reverse
  | s, t :: rest, acc =>
    match jitterOp aged s t with
    | some (s', o) => jitterRun aged s' rest (o :: acc)
    | none => none


def handleSpecial (stream : String) (args : List String) : String :=
  match stream, args with
  | "rtp", [hx] =>
    match unhex hx with
    | some bs => showRes (runB Rtp.packetParse bs) (fun p => nats p.digest)
    | none => "bad-hex"
  | "rtcp", [hx] =>
    match unhex hx with
    | some bs => showRes (runS Rtp.parseRtcp bs) (fun ps => s!"{ps.length};" ++ ";".intercalate (ps.map nats))
    | none => "bad-hex"
  | "getext", [id, present, profile, hx] =>
    match id.toNat?, profile.toNat?, unhex hx with
    | some id, some profile, some bs =>
      let d := bs.toArray
      showRes (Rtp.getExtension ⟨present = "1", profile, d⟩ id (Buf.ofList []) 0)
        (fun r => match r with | none => "none" | some (o, l) => "some " ++ hexA (d.extract o (o + l)))
    | _, _, _ => "bad-args"
  | "setext", [id, dhx, present, profile, hx] =>
    match id.toNat?, unhex dhx, profile.toNat?, unhex hx with
    | some id, some data, some profile, some bs =>
      showRes (Rtp.setExtension ⟨present = "1", profile, bs.toArray⟩ id data.toArray (Buf.ofList []) 0) hexA
    | _, _, _, _ => "bad-args"
  | "marshal", [pt, nc, he, el, pl, pd] =>
    match pt.toNat?, nc.toNat?, el.toNat?, pl.toNat?, pd.toNat? with
    | some pt, some nc, some el, some pl, some pd =>
      showRes (Rtp.marshal pt nc (he = "1") el pl pd (Buf.ofList []) 0) toString
    | _, _, _, _, _ => "bad-args"
  | "stun", [hx] =>
    match unhex hx with
    | some bs => showRes (runS Ice.stunDecode bs) (fun m => nats m.digest)
    | none => "bad-hex"
  | "ufrag", [hx] =>
    match unhex hx with
    | some bs => showRes (runS Ice.peerUfrag bs) (fun r => if r.1 then "some " ++ hexA r.2 else "none")
    | none => "bad-hex"
  | "uname", [hx] =>
    match unhex hx with
    | some bs => showRes (runS Ice.usernameFromStun bs) (fun r => if r.1 then "some " ++ hexA r.2 else "none")
    | none => "bad-hex"
  | "stunmi", [hx] =>
    match unhex hx with
    | some bs => showRes (runS Ice.verifyMi bs) (fun _ => "")       -- outcome class only (the HMAC is outside the model)
    | none => "bad-hex"
  | "hpkt", [hx] =>
    match unhex hx with
    | some bs => showRes (runS Ice.handlePacketClass bs) (fun c => if c = 2 then s!"fwd {bs.length}" else "nofwd")
    | none => "bad-hex"
  | "turnpkt", [known, hx] =>
    match unhex hx with
    | some bs => showRes (runS (fun a => Ice.turnPacket a (known = "1")) bs)
        (fun r => match r with | [_, 2, len] => s!"fwd {len}" | _ => "nofwd")
    | none => "bad-hex"
  | "sharedtcp", [hx] =>
    match unhex hx with
    | some bs => showRes (runB Ice.sharedTcpFirstFrame bs) toString
    | none => "bad-hex"
  | "sharedtcp", [] => showRes (runB Ice.sharedTcpFirstFrame []) toString
  | "tcp4571", [bl, hx] =>
    match bl.toNat?, unhex hx with
    | some bl, some bs => showRes (runB (Ice.tcp4571Recv bl) bs) toString
    | _, _ => "bad-args"
  | "turntcp", [bl, hx] =>
    match bl.toNat?, unhex hx with
    | some bl, some bs => showRes (runB (Ice.turnTcpRecv bl) bs) toString
    | _, _ => "bad-args"
  | "sctp", [crc, hx] =>
    match unhex hx with
    | some bs => match runB (Sctp.handlePacket (crc = "1")) bs with
      | .ok _ _ _ => "ok"
      | .err _ _ => "ok"     -- the live handler's `Err` (failed send, rejected DCEP) is "returned", like `Ok`
      | .panic s => if s = "hang" then "hang" else "panic"
    | none => "bad-hex"
  | "sctpassoc", role :: seedT :: pks =>
    match pks.mapM parseSctpPkt with
    | some ps =>
      -- role 1 = client (own INIT sent, T1 running)
      let seed := seedT.toNat?.getD 0
      let s0 : SctpSt.St := if role = "1" then { t1 := 1, hasTag := true, seed := seed, nextTsn := seed } else { seed := seed }
      match SctpSt.runHistory s0 ps (Buf.ofList []) 0 with
      | .ok ds _ _ => "ok " ++ " ".intercalate (ds.map fun d => "/".intercalate (d.map nats))
      | .err e _ => "err " ++ e
      | .panic s => if s = "hang" then "hang" else "panic"
    | none => "bad-args"
  | "dtlsctx", role :: msgSeq :: pls =>
    match msgSeq.toNat?, pls.mapM unhex with
    | some ms, some ps =>
      match Dtls.datagramHistory (role = "1") { msgSeq := ms } ps (Buf.ofList []) 0 with
      | .ok cs _ _ => "ok " ++ " ".intercalate (cs.map fun c =>
          nats [c.recvSeq, c.msgSeq, c.incLen, c.incSeq, c.transcript, if c.postHvr then 1 else 0, if c.failed then 1 else 0])
      | .err e _ => "err " ++ e
      | .panic s => if s = "hang" then "hang" else "panic"
    | _, _ => "bad-args"
  | "h264", pks =>
    match pks.mapM parsePk with
    | some ps => showRes (Media.h264Run {} ps (Buf.ofList []) 0) (fun r => " ".intercalate (r.map showSamples))
    | none => "bad-args"
  | "cand", [hx] =>
    match unhex hx with
    | some bs => showRes (Sdp.candFromSdp bs (Buf.ofList []) 0) nats
    | none => "bad-hex"
  | "sdpmid", [m] =>
    -- the live entry returns (`ret`) whatever the mid text is; a numeric 16-bit mid goes through `midUpdate`
    -- the template's sections carry mids 0, <m>, 2; `next_mid` afterwards is the fold of `midUpdate` over the numeric ones
    let mids : List Nat := [0] ++ (match Sdp.parseDec 65535 m.toUTF8.toList with | some v => [v] | none => []) ++ [2]
    let step := fun (acc : Option Nat) (v : Nat) => match acc with
      | none => none
      | some a => match Sdp.midUpdate a v (Buf.ofList []) 0 with | .ok r _ _ => some r | _ => none
    match mids.foldl step (some 0) with
    | some nm => s!"ret {nm}"
    | none => "panic"
  | "sdpmid", [] => "ret 3"
  | "sdpparse", _ => "noncompared"
  | "sdpset", _ => "noncompared"
  | "dtlslive", _ => "noncompared"
  | "srtp", _ => "noncompared"
  | "srtpflood", _ => "noncompared"
  | "sharedudp", _ => "noncompared"
  | "hpktbuf", _ => "noncompared"
  | "rtcpmarshal", _ => "noncompared"
  | "sctpflood", _ => "noncompared"
  | "rtprecv", _ => "noncompared"
  | "candutf", _ => "noncompared"
  | "rtpchain", _ => "noncompared"
  | "rtpflood", _ => "noncompared"
  | "iceflood", _ => "noncompared"
  | "mediaflood", _ => "noncompared"
  | "turnclient", _ => "noncompared"
  | "sdpsdes", _ => "noncompared"
  | "udptlbuf", ms :: e0 :: ops =>
    match ms.toNat?, e0.toNat?, ops.mapM (fun t => match fields t with | [a, b] => do some (← a.toNat?, ← b.toNat?) | _ => none) with
    | some ms, some e0, some ops =>
      showRes (Media.deliverRun { expected := e0, maxSize := ms } ops (Buf.ofList []) 0)
        (fun r => " ".intercalate (r.map nats))
    | _, _, _ => "bad-args"
  | "jitter", cap :: mode :: ops =>
    match cap.toNat?, jitterRun (mode = "0") (Jitter.init (cap.toNat?.getD 0)) ops [] with
    | some _, some outs => "ok " ++ " ".intercalate outs
    | _, _ => "bad-args"
  | "rtx", [hx] =>
    match unhex hx with
    | some bs => showRes (runS Ice.unwrapRtx bs) (fun r => match r with | none => "none" | some (o, l) => s!"{o} {l}")
    | none => "bad-hex"
  | _, _ => "bad-stream"

def handleCore (stream : String) (args : List String) : String :=
  match bufStream stream, args with
  | some f, [hx] =>
    match unhex hx with
    | some bs => f bs
    | none => "bad-hex"
  | _, _ => handleSpecial stream args

/-- A trailing argument `A=<bytes>` is the allocator traffic the harness MEASURED for the real call; the model's own
allocation counter `k` must cover it: measured ≤ 2·k + slack (factor 2 = `Vec` growth by doubling), else the output
carries `a-<k>` and the line disagrees with the implementation's `a+`. This ties the `alloc` accounting of the models
(the quantity the `allocBound_*` theorems bound) to measured bytes on every compared case. -/
def handle (stream : String) (args : List String) : String :=
  let (meas, args') : Option Nat × List String :=
    match args.reverse with
    | last :: rest => if last.startsWith "A=" then ((last.drop 2).toString.toNat?, rest.reverse) else (none, args)
    | [] => (none, args)
  let raw := handleCore stream args'
  match raw.splitOn "§" with
  | [t, k] =>
    match meas, k.toNat? with
    | some m, some k => if m ≤ 2 * k + allocSlack then t ++ " a+" else t ++ s!" a-{k}"
    | _, _ => t
  | _ => raw

end RtcModel.Drv.C07
