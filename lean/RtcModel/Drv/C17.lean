import RtcModel.Lifecycle
import RtcModel.Drv.Util
namespace RtcModel.Drv.C17
open RtcModel.Lifecycle RtcModel.Drv

def peerText : PeerSt → String
  | .new => "new" | .connecting => "connecting" | .connected => "connected"
  | .disconnected => "disconnected" | .failed => "failed" | .closed => "closed"
def parsePeer : String → Option PeerSt
  | "new" => some .new | "connecting" => some .connecting | "connected" => some .connected
  | "disconnected" => some .disconnected | "failed" => some .failed | "closed" => some .closed | _ => none
def sigText : SigSt → String
  | .stable => "stable" | .haveLocalOffer => "haveLocalOffer" | .haveRemoteOffer => "haveRemoteOffer" | .closed => "closed"
def parseSig : String → Option SigSt
  | "stable" => some .stable | "haveLocalOffer" => some .haveLocalOffer | "haveRemoteOffer" => some .haveRemoteOffer
  | "closed" => some .closed | _ => none
def reasonText : Option Reason → String
  | none => "-"
  | some r => match r with
    | .localClose => "localClose" | .dropped => "dropped" | .iceFailed => "iceFailed"
    | .iceDisconnected => "iceDisconnected" | .dtlsFailed => "dtlsFailed" | .dtlsClosed => "dtlsClosed"
    | .sctpHeartbeatTimeout => "sctpHeartbeatTimeout" | .sctpPeerDead => "sctpPeerDead"
    | .sctpRemoteAbort => "sctpRemoteAbort" | .sctpRemoteShutdown => "sctpRemoteShutdown"
    | .transportStartFailed => "transportStartFailed" | .unknown => "unknown"
def allReasons : List Reason :=
  [.localClose, .dropped, .iceFailed, .iceDisconnected, .dtlsFailed, .dtlsClosed, .sctpHeartbeatTimeout,
   .sctpPeerDead, .sctpRemoteAbort, .sctpRemoteShutdown, .transportStartFailed, .unknown]
def parseReason (t : String) : Option (Option Reason) :=
  if t = "-" then some none else (allReasons.find? (fun r => reasonText (some r) = t)).map some
def parseIce : String → Option IceSt
  | "new" => some .new | "checking" => some .checking | "connected" => some .connected
  | "disconnected" => some .disconnected | "failed" => some .failed | "closed" => some .closed | _ => none
def parseDtls : String → Option DtlsSt
  | "absent" => some .absent | "handshaking" => some .handshaking | "connected" => some .connected
  | "failed" => some .failed | "closed" => some .closed | _ => none

/-- the `close_reason` string → class (`<none>` = no reason recorded) -/
def whyOfString : String → Option SctpWhy
  | "<none>" => none
  | "HEARTBEAT_TIMEOUT" => some .heartbeatTimeout | "HEARTBEAT_DEAD" => some .heartbeatDead
  | "REMOTE_ABORT" => some .remoteAbort | "REMOTE_SHUTDOWN" => some .remoteShutdown
  | "DTLS_FAILED" => some .dtlsFailed | "DTLS_CLOSED" => some .dtlsClosed
  | "DTLS_CHANNEL_CLOSED" => some .dtlsChannelClosed | "LOCAL_CLOSE" => some .localClose
  | "INIT_TIMEOUT" => some .initTimeout | "TRANSPORT_CLOSED" => some .transportClosed
  | _ => some .other

def callChar : Outcome → Char
  | .errNow => 'e' | .okNow => 'o' | .pending => 'p'

def outcomeText (s : St) (dropped : Bool) : String :=
  let ev := if s.chans.isEmpty then "-" else ".".intercalate (s.chans.map (fun c => toString c.events))
  let calls :=
    if dropped then "-" else
    let main := String.ofList [callChar (call s .sendData), callChar (call s .createOffer), callChar (call s .waitForConnected), callChar (call s .pcRecv), callChar (call s .createDataChannel)]
    let recv := if s.chans.isEmpty then "-" else String.ofList (s.chans.map (fun c => if c.senderDropped then 'o' else 'p'))
    s!"{main}/{recv}/h{b01 s.held}/b{s.blocked}"
  s!"{peerText s.peer},{sigText s.sig},{reasonText s.reason},{ev},{calls}"

/-- the model's start state from the harness' snapshot of the real connection -/
def preState (mode : Mode) (srtp : Bool) (hasApp : Bool) (nch : Nat) (peer : PeerSt) (sig : SigSt) (ice : IceSt) (dtls : DtlsSt)
    (sctpPresent role : Bool) (reason : Option Reason) (descs : Bool) : St :=
  let b := base mode hasApp nch
  let drv : Drv :=
    if peer = .connected then .running
    else if mode = .webrtc ∧ dtls = .handshaking then .starting
    else if mode = .webrtc ∧ ice = .connected ∧ !role then .waitRole
    else if mode = .direct ∧ srtp ∧ !descs ∧ ice = .connected ∧ peer = .new then .waitDescs
    else if peer = .failed ∨ peer = .closed then .done
    else .idle
  let iceSeen := if drv = .idle ∧ ice = .connected then .checking else ice
  { b with peer := peer, sig := sig, reason := reason, ice := ice, iceSeen := iceSeen, dtls := dtls, dtlsSeen := dtls,
           role := role, held := sctpPresent, needDescs := srtp, descs := descs || !srtp,
           sctp := if sctpPresent then (if dtls = .connected then .running else .waiting) else .absent,
           drv := drv }

def eventActs : String → Option (List (List Act))
  | "close" => some [[.callClose .localClose]]
  | "blockedSenderClose" => some [[.senderBlocks, .senderBlocks, .callClose .localClose]]
  | "blockedSenderVanish" => some [[.senderBlocks, .senderBlocks, .iceDisconnect], [.senderBlocks, .senderBlocks, .peerCloseNotify]]
  -- the association is ended from inside the SCTP run loop / by DTLS while senders are parked
  | "blockedSenderAbort" => some [[.senderBlocks, .senderBlocks, .peerAbort]]
  | "blockedSenderShutdown" => some [[.senderBlocks, .senderBlocks, .peerShutdown]]
  | "blockedSenderShutdownAck" => some [[.senderBlocks, .senderBlocks, .peerShutdownAck]]
  | "blockedSenderCloseNotify" => some [[.senderBlocks, .senderBlocks, .peerCloseNotify]]
  -- silent peer, short heartbeat: the SCTP layer gives up first (or the peer's teardown leaked a close_notify)
  | "blockedSenderHeartbeat" => some [[.senderBlocks, .senderBlocks, .hbTimeout], [.senderBlocks, .senderBlocks, .peerCloseNotify]]
  | "closeChannelTwice" => some [[.closeChannel 0, .closeChannel 0]]
  | "closeChannelThenClose" => some [[.closeChannel 0, .callClose .localClose]]
  | "closeTwice" => some [[.callClose .localClose, .callClose .localClose, .callClose .localClose]]
  | "drop" => some [[.appDrop]]
  | "peerCloseNotify" => some [[.peerCloseNotify]]
  | "peerAbort" => some [[.peerAbort]]
  | "peerShutdown" => some [[.peerShutdown]]
  | "peerShutdownAck" => some [[.peerShutdownAck]]
  | "iceStop" => some [[.iceStop]]
  -- ICE `Failed`: forced on the subject's ICE transport, or written by its consent keepalive after the peer
  -- went silent (the harness' silencing can leak a close_notify, see `peerVanish`)
  | "iceFail" => some [[.iceFail]]
  -- a lower-layer end, then the application's close()
  | "iceFailThenClose" => some [[.iceFail, .callClose .localClose]]
  | "peerAbortThenClose" => some [[.peerAbort, .callClose .localClose]]
  | "peerCloseNotifyThenClose" => some [[.peerCloseNotify, .callClose .localClose]]
  -- silent peer: ICE Disconnected, grace expiry, then ICE gives up (or the silencing leaked a close_notify)
  | "peerVanishThenIceFail" => some [[.iceDisconnect, .iceFail], [.peerCloseNotify, .iceFail]]
  | "peerVanishIceFail" => some [[.iceFail], [.peerCloseNotify]]
  -- the peer's certificate does not match the announced fingerprint: nothing happens now, the handshake
  -- (racing progress) ends in failure instead of `Connected`
  | "badFingerprint" => some [[]]
  -- the harness emulates a vanishing peer by stopping the peer's ICE transport; `stop()` publishes Closed
  -- *before* it clears the sockets, so the peer's own teardown can still get a close_notify onto the wire
  | "peerVanish" => some [[.iceDisconnect], [.peerCloseNotify]]
  -- the peer's close(): its close_notify may or may not make it onto the wire before its sockets close
  | "peerClose" => some [[.peerCloseNotify], [.iceDisconnect]]
  | _ => none

/-- all ways to pick one alternative per event -/
def alternatives : List (List (List Act)) → List (List Act)
  | [] => [[]]
  | alts :: rest => alts.flatMap (fun a => (alternatives rest).map (fun r => a ++ r))

def removeNth : List Act → Nat → List Act
  | [], _ => []
  | _ :: xs, 0 => xs
  | x :: xs, n + 1 => x :: removeNth xs n

/-- exhaustive exploration: any enabled internal action, or any still-pending external action, in any
order. Returns the outcomes of all states that are quiescent with no external action pending. -/
partial def explore (dropped : Bool) (todo : List (St × List Act)) (seen : List (St × List Act)) (acc : List String) : List String :=
  match todo with
  | [] => acc
  | (s, pend) :: rest =>
    if seen.contains (s, pend) then explore dropped rest seen acc
    else
      let seen := (s, pend) :: seen
      let ints := internalActs.filter (fun a => enabled s a)
      let nextInt := ints.map (fun a => (apply s a, pend))
      let nextExt := (List.range pend.length).map (fun i =>
        match pend[i]? with
        | some a => (step s a, removeNth pend i)
        | none => (s, pend))
      -- optional progress actions may also simply never happen
      let optional := pend.all (fun a => a == .iceConnect || a == .dtlsConnect || a == .dtlsFail || a == .roleSet || a == .descsSet)
      let acc := if ints.isEmpty && optional then
          let t := outcomeText s dropped
          if acc.contains t then acc else t :: acc
        else acc
      explore dropped (nextInt ++ nextExt ++ rest) seen acc

/-- is an outcome text terminal (lenient reading)? `peer,sig,reason,…` -/
def outcomeTerminal (t : String) : Bool :=
  match fields t with
  | pe :: _ :: re :: _ => (pe = "disconnected" || pe = "failed" || pe = "closed") && re ≠ "-"
  | _ => false

def life (args : List String) : String :=
  match args with
  | m :: hasApp :: nch :: _phase :: progress :: snap :: events :: "|" :: observed :: _ =>
    match nch.toNat?, fields snap with
    | some nch, [pe, si, ic, dt, sc, ro, re, ds] =>
      match parsePeer pe, parseSig si, parseIce ic, parseDtls dt, parseReason re with
      | some pe, some si, some ic, some dt, some re =>
        let mode := if m = "w" then Mode.webrtc else Mode.direct
        let s0 := preState mode (m = "s") (hasApp = "1") nch pe si ic dt (sc = "1") (ro = "1") re (ds = "1")
        let evs := events.splitOn "+"
        match evs.mapM eventActs with
        | none => "bad-event"
        | some alts =>
          let badFp := evs.contains "badFingerprint"
          -- … the (tampered) answer is applied as part of this scenario: signaling is back to stable
          let s0 := if badFp then { s0 with sig := .stable } else s0
          let prog : List Act := if progress = "1" then [.iceConnect, if badFp then .dtlsFail else .dtlsConnect, .roleSet, .descsSet] else []
          let dropped := evs.contains "drop"
          let outs := (alternatives alts).flatMap (fun ext => explore dropped [(s0, ext ++ prog)] [] [])
          let outs := outs.eraseDups
          -- the property on the model itself: every quiescent outcome of a terminating event is terminal
          -- `badFingerprint` terminates only if the network lets the handshake get that far (progress is the
          -- environment's): the implementation side is judged by the oracles
          let terminating := !(evs.contains "closeChannelTwice") && !badFp
          let bad := if terminating then outs.filter (fun o => !outcomeTerminal o) else []
          let obs := observed.splitOn ";"
          if !bad.isEmpty then "model-nonterminal:" ++ "|".intercalate bad
          else if obs.all (fun o => outs.contains o) then observed
          else "model-outcomes:" ++ "|".intercalate outs
      | _, _, _, _, _ => "bad-snapshot"
    | _, _ => "bad-snapshot"
  | _ => "bad-life"

def handle (stream : String) (args : List String) : String :=
  match stream, args with
  | "life", _ => life args
  | "prop", [r, preset] =>
    match parseReason preset with
    | none => "bad-preset"
    | some pre =>
      let s := { connectedSt .webrtc true 1 with why := whyOfString r, reason := pre }
      reasonText (propagate s).reason
  | "cwr", [r, outer] | "cwr2", [r, outer] =>
    match parseReason outer with
    | some (some o) =>
      let s := teardown { connectedSt .webrtc true 1 with why := whyOfString r } o
      let s := if stream = "cwr2" then teardown s .iceFailed else s
      s!"{reasonText s.reason} {peerText s.peer}"
    | _ => "bad-outer"
  | _, _ => "bad-stream"

end RtcModel.Drv.C17
