import RtcModel.DtlsHs
import RtcModel.Base.C02Sha256
import RtcModel.Drv.Util
/- Shared driver parts for C03 / C02 / C11: AEAD oracle tables, output formatting, and the `hs` stream
(one endpoint's datagram / tick history replayed on the model with harness-supplied facts). -/
namespace RtcModel.Drv.DtlsStream
open RtcModel.Generated RtcModel.DtlsRecord RtcModel.DtlsHs RtcModel.Drv

def fnv64 (bs : Bytes) : Nat :=
  bs.foldl (fun h b => ((h ^^^ b.toNat) * 0x100000001b3) % 2 ^ 64) 0xcbf29ce484222325

def natHex (n : Nat) : String := String.ofList ((Nat.toDigits 16 n))

/-- oracle table for the AEAD: key = fnv64(key ‖ nonce ‖ aad ‖ ciphertext‖tag) -/
def parseTable (s : String) : List (String × String) :=
  if s = "-" then [] else
  (s.splitOn ";").filterMap fun kv =>
    match kv.splitOn "=" with
    | [k, v] => some (k, v)
    | _ => none

def tableDec (tbl : List (String × String)) : DecFn := fun k n a c =>
  match tbl.lookup (natHex (fnv64 (k ++ n ++ a ++ c))) with
  | some "x" => none
  | some h => unhex h
  | none => none


def connLetter : Conn → String
  | .new => "N" | .handshaking => "H" | .connected => "C" | .failed => "F" | .closed => "X"

/-- sealed records also show the explicit nonce that goes on the wire (the 64-bit epoch‖seq value) -/
def nonceTag (w : WRec) : String := if w.sealed then ".n" ++ hex (be64 (fullSeq w.epoch w.seq)) else ""

def descr03 (w : WRec) : String :=
  if w.ctype = dtlsCtApplicationData ∨ w.ctype = dtlsCtAlert then s!"{w.ctype}.{w.epoch}.{w.seq}.{w.plain.length}{nonceTag w}"
  else s!"{w.ctype}.{w.epoch}.{w.seq}{nonceTag w}"

def showOuts03 (e : Ep) (outs : List Out) : String :=
  let del := outs.filterMap fun o => match o with | .deliver p => some (hex p) | _ => none
  let snd := outs.filterMap fun o => match o with | .send w => some (descr03 w) | _ => none
  let j (l : List String) := if l.isEmpty then "-" else "+".intercalate l
  s!"{connLetter e.conn},{b01 e.alive},{j del},{j snd}"


abbrev Facts := List (String × String)

def fkey (bs : Bytes) : String := natHex (fnv64 bs)

def parseFacts (s : String) : Facts :=
  if s = "-" then [] else
  (s.splitOn ";").filterMap fun kv =>
    match kv.splitOn "=" with
    | [k, v] => some (k, v)
    | _ => none

def asciiBytes (s : String) : Bytes := s.toList.map (fun c => UInt8.ofNat c.toNat)
def bytesAscii (b : Bytes) : String := String.ofList (b.map (fun x => Char.ofNat x.toNat))

def parseNats (s : String) : List Nat :=
  if s = "-" then [] else (s.splitOn ".").filterMap String.toNat?

/-- the interpretation of bodies given by the harness; certificates are named by the id the harness
gave them (the id string's bytes stand for the DER) -/
def factCrypto (f : Facts) : Crypto where
  chDecode b := match f.lookup ("ch:" ++ fkey b) with
    | some v => match v.splitOn "/" with
      | [r, e, p] => (unhex r).map fun r => (r, e = "1", parseNats p)
      | _ => none
    | none => none
  shDecode b := match f.lookup ("sh:" ++ fkey b) with
    | some v => match v.splitOn "/" with
      | [r, e, p] => (unhex r).map fun r => (r, e = "1", p.toNat?)
      | _ => none
    | none => none
  hvrOk b := (f.lookup ("hv:" ++ fkey b)) = some "1"
  certDecode b := match f.lookup ("ce:" ++ fkey b) with
    | some "x" => none
    | some "e" => some []
    | some v => some ((v.splitOn ".").map asciiBytes)
    | none => none
  digest leaf := match f.lookup ("dg:" ++ bytesAscii leaf) with
    | some v => (unhex v).getD []
    | none => []
  pkOk leaf := (f.lookup ("pk:" ++ bytesAscii leaf)) = some "1"
  skeDecode b := match f.lookup ("sk:" ++ fkey b) with
    | some "x" => none
    | some v => unhex v
    | none => none
  sigOk leaf cr sr body := (f.lookup ("sg:" ++ fkey (leaf ++ cr ++ sr ++ body))) = some "1"
  ckeDecode b := match f.lookup ("ck:" ++ fkey b) with
    | some "x" => none
    | some v => unhex v
    | none => none
  derive _ pk cr sr _ _ := match f.lookup ("dk:" ++ fkey (pk ++ cr ++ sr)) with
    | some v => match (v.splitOn "/").map unhex with
      | [some ms, some cr, some sr, some cwk, some swk, some cwi, some swi] => some ⟨ms, cr, sr, cwk, swk, cwi, swi⟩
      | _ => none
    | none => none
  vd ms label tr :=
    C02Sha256.prf ms (C02Sha256.ascii (if label then "client finished" else "server finished")) (C02Sha256.sha256 tr) 12

/-- handshake records in the clear also show the message they carry -/
def descr (w : WRec) : String :=
  if w.ctype = dtlsCtHandshake ∧ !w.sealed then
    match decodeHs w.plain with
    | .msg m _ => s!"{w.ctype}.{w.epoch}.{w.seq}:{m.typ}.{m.msgSeq}.{m.body.length}"
    | _ => s!"{w.ctype}.{w.epoch}.{w.seq}:?"
  else descr03 w

def showOuts (e : Ep) (outs : List Out) : String :=
  let del := outs.filterMap fun o => match o with | .deliver p => some (hex p) | _ => none
  let snd := outs.filterMap fun o => match o with | .send w => some (descr w) | _ => none
  let j (l : List String) := if l.isEmpty then "-" else "+".intercalate l
  s!"{connLetter e.conn},{b01 e.alive},{j del},{j snd}"

def keysId (k : Keys) : String := fkey (k.ms ++ k.cr ++ k.sr ++ k.cwKey ++ k.swKey ++ k.cwIv ++ k.swIv)

def finToken (e : Ep) : String :=
  let srtp := match e.connSrtp with | some p => toString p | none => "-"
  match exporter e with
  | some k => s!"fin:{connLetter e.conn}/{srtp}/{keysId k}"
  | none => s!"fin:{connLetter e.conn}/-/-"

def stepOp (C : Crypto) (L : Loc) (e : Ep) (t : String) : Option (Ep × String) :=
  match fields t with
  | ["dg", hx, tbl] => do
      let bs ← unhex hx
      let (e', outs) := onPacket (tableDec (parseTable tbl)) C L e bs
      some (e', showOuts e' outs)
  | ["sd", hx] => do
      let bs ← unhex hx
      let (e', outs) := onSend e bs
      some (e', showOuts e' outs)
  | ["cl"] => let (e', outs) := onClose e; some (e', showOuts e' outs)
  | ["tk"] => some (e, showOuts e (onTick e))
  | ["dl"] => let e' := onDeadline e; some (e', showOuts e' [])
  | _ => none

/-- the `hs` stream, shared with C11 -/
def hsSession (args : List String) : String :=
  match args with
  | ini :: fct :: ops =>
    match fields ini, fields fct with
    | ["init", role, fp, pub, cr, ch, ch2, sr, sh, cert, ske, cke], ["facts", ft] =>
      match unhex pub, unhex cr, unhex ch, unhex ch2, unhex sr, unhex sh, unhex cert, unhex ske, unhex cke with
      | some pub, some cr, some ch, some ch2, some sr, some sh, some cert, some ske, some cke =>
        let L : Loc := ⟨pub, cr, ch, ch2, sr, sh, cert, ske, cke⟩
        let C := factCrypto (parseFacts ft)
        let expected := if fp = "-" then none else if fp = "=" then some [] else unhex fp   -- `=`: Some("")
        let (e0, o0) := start L (role = "c") expected
        let rec go (e : Ep) (ops : List String) (acc : List String) : List String :=
          match ops with
          | [] => (finToken e :: acc).reverse
          | t :: rest =>
            match stepOp C L e t with
            | none => ("bad-op" :: acc).reverse
            | some (e', o) => go e' rest (o :: acc)
        " ".intercalate (go e0 ops [showOuts e0 o0])
      | _, _, _, _, _, _, _, _, _ => "bad-init"
    | _, _ => "bad-init"
  | _ => "bad-args"


/-- the `dl` stream: do the timers of a run loop that was left alone agree with the generated constants?
args: number of retransmissions seen, last time (ms since the loop started) the state was still seen Handshaking,
first time it was seen Failed (`-` = not within the harness's patience).  Ticks strictly before the deadline
must all have fired; the one due at the same instant may or may not have (`select!`).  50 ms of slack for
the harness's own clock reading. -/
def deadlineCheck (args : List String) : String :=
  let T := dtlsHandshakeTimeoutSecs * 1000
  let first := dtlsRetransmitFirstSecs * 1000
  let P := dtlsRetransmitPeriodSecs * 1000
  match args with
  | [n, lastH, firstF] =>
    match n.toNat?, lastH.toNat?, firstF.toNat? with
    | some n, some h, some f =>
      let sure := if T ≤ first then 0 else (T - 1 - first) / P + 1
      let maybe := if T < first then 0 else (T - first) / P + 1
      if h > T + 50 then "late:still-handshaking-after-the-deadline"
      else if f + 50 < T then "early:failed-before-the-deadline"
      else if n < sure then s!"ticks:fewer-than-{sure}"
      else if n > maybe then s!"ticks:more-than-{maybe}"
      else "ok"
    | some _, some _, none => "late:never-failed"
    | _, _, _ => "bad-args"
  | _ => "bad-args"

end RtcModel.Drv.DtlsStream
