import RtcModel.Drv.DtlsHsStream
/- Driver for C11: the same `hs` stream as C02 (one endpoint's datagram/tick history replayed on the
model), fed with fault scripts (loss, duplication, reordering, re-fragmentation, ticks). -/
namespace RtcModel.Drv.C11

def handle (stream : String) (args : List String) : String :=
  match stream with
  | "hs" => RtcModel.Drv.DtlsStream.hsSession args
  | "dl" => RtcModel.Drv.DtlsStream.deadlineCheck args
  | _ => "bad-stream"

end RtcModel.Drv.C11
