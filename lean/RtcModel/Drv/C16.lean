import RtcModel.Stun
import RtcModel.IcePrio
import RtcModel.Base.C16Crypto
import RtcModel.Drv.Util
namespace RtcModel.Drv.C16
open RtcModel.Stun RtcModel.IcePrio RtcModel.C16Bytes RtcModel.Drv

/-- the executable instantiation of the abstract primitives (validated against RFC vectors and the
Rust crates by the `hash` stream) -/
def realPrims : Prims where
  hmac k d := let h := C16Crypto.hmacSha1 k d; if h.length = 20 then h else zeros 20
  crc d := (C16Crypto.crc32 d).toNat
  hmac_len k d := by
    by_cases h : (C16Crypto.hmacSha1 k d).length = 20 <;> simp [h]
  crc_lt d := (C16Crypto.crc32 d).toNat_lt

def parseClass : String → Option Class
  | "req" => some .request | "ind" => some .indication | "ok" => some .success | "err" => some .error
  | _ => none
def showClass : Class → String
  | .request => "req" | .indication => "ind" | .success => "ok" | .error => "err"

def parseMethod : String → Option Method
  | "binding" => some .binding | "allocate" => some .allocate | "refresh" => some .refresh
  | "createpermission" => some .createPermission | "channelbind" => some .channelBind
  | "send" => some .send | "data" => some .data | _ => none
def showMethod : Method → String
  | .binding => "binding" | .allocate => "allocate" | .refresh => "refresh"
  | .createPermission => "createpermission" | .channelBind => "channelbind"
  | .send => "send" | .data => "data"

def parseAddr (fam ip port : String) : Option Addr := do
  let ipb ← unhex ip
  let p ← port.toNat?
  match fam with
  | "4" => some (.v4 ipb p)
  | "6" => some (.v6 ipb p)
  | _ => none

def showAddr : Addr → String
  | .v4 ip p => s!"4,{hex ip},{p}"
  | .v6 ip p => s!"6,{hex ip},{p}"

def parseAttr (t : String) : Option Attr :=
  match fields t with
  | ["un", h] => do some (.username (← unhex h))
  | ["re", h] => do some (.realm (← unhex h))
  | ["no", h] => do some (.nonce (← unhex h))
  | ["sw", h] => do some (.software (← unhex h))
  | ["rt", v] => do some (.requestedTransport (← v.toNat?))
  | ["lt", v] => do some (.lifetime (← v.toNat?))
  | ["pr", v] => do some (.priority (← v.toNat?))
  | ["ic", v] => do some (.iceControlling (← v.toNat?))
  | ["id", v] => do some (.iceControlled (← v.toNat?))
  | ["uc"] => some .useCandidate
  | ["xp", f, ip, p] => do some (.xorPeer (← parseAddr f ip p))
  | ["xm", f, ip, p] => do some (.xorMapped (← parseAddr f ip p))
  | ["cn", v] => do some (.channelNumber (← v.toNat?))
  | ["da", h] => do some (.data (← unhex h))
  | _ => none

def parseAttrs : List String → Option (List Attr)
  | [] => some []
  | t :: rest => do
    let a ← parseAttr t
    let as ← parseAttrs rest
    some (a :: as)

def optAddr : Option Addr → String
  | none => "n" | some a => showAddr a
def optBytes : Option Bytes → String
  | none => "n" | some b => "s" ++ hex b
def optNat : Option Nat → String
  | none => "n" | some v => toString v

def showDecoded (d : Decoded) : String :=
  s!"ok {showClass d.cls} {showMethod d.method} {hex d.tx} {optAddr d.mapped} {optAddr d.relayed} {optAddr d.peer} {optNat d.errorCode} {optBytes d.realm} {optBytes d.nonce} {optBytes d.data} {b01 d.useCandidate} {optNat d.lifetime}"

def showErr : DecErr → String
  | .tooShort => "err short" | .lengthMismatch => "err length" | .badMethod => "err method"
  | .badClass => "err class"

def parseKey (s : String) : Option (Option Bytes) :=
  if s = "nokey" then some none
  else match fields s with
    | ["k", h] => (unhex h).map some
    | _ => none

def parseType : String → Option CandType
  | "host" => some .host | "srflx" => some .srflx | "prflx" => some .prflx | "relay" => some .relay
  | _ => none

/-- `u64` arithmetic overflow is a panic in the (debug) build the harness runs -/
def showU64 (n : Nat) : String := if n < 18446744073709551616 then toString n else "overflow"

def handle (stream : String) (args : List String) : String :=
  match stream, args with
  | "enc", cls :: meth :: tx :: key :: fp :: attrs =>
    match parseClass cls, parseMethod meth, unhex tx, parseKey key, parseAttrs attrs with
    | some c, some m, some tx, some key, some attrs =>
      hex (encode realPrims ⟨c, m, tx, attrs⟩ key (fp = "1"))
    | _, _, _, _, _ => "bad-args"
  | "dec", [h] =>
    match unhex h with
    | some bs => match decode bs with
      | .ok d => showDecoded d
      | .error e => showErr e
    | none => "bad-hex"
  | "prio", [t, comp, tr] =>
    match parseType t, comp.toNat? with
    | some t, some c =>
      match tr with
      | "udp" => toString (priorityFor t c)
      | "active" => toString (priorityForTcp t c .active)
      | "passive" => toString (priorityForTcp t c .passive)
      | "so" => toString (priorityForTcp t c .so)
      | _ => "bad-args"
    | _, _ => "bad-args"
  | "pair", [role, l, r] =>
    match l.toNat?, r.toNat? with
    | some l, some r =>
      match role with
      | "controlling" => showU64 (pairPriority .controlling l r)
      | "controlled" => showU64 (pairPriority .controlled l r)
      | _ => "bad-args"
    | _, _ => "bad-args"
  | "hash", [alg, a, b] =>
    match unhex a, unhex b with
    | some a, some b =>
      match alg with
      | "crc32" => toString (C16Crypto.crc32 b).toNat
      | "sha1" => hex (C16Crypto.sha1 b)
      | "md5" => hex (C16Crypto.md5 b)
      | "hmac" => hex (C16Crypto.hmacSha1 a b)
      | _ => "bad-args"
    | _, _ => "bad-hex"
  | _, _ => "bad-stream"

end RtcModel.Drv.C16
