import RtcModel.Stun
import RtcModel.IcePrio
import RtcModel.IceCand
import RtcModel.Turn
import RtcModel.StunRfc
import RtcModel.IceUri
import RtcModel.IcePairs
import RtcModel.Base.C16Crypto
import RtcModel.Drv.Util
namespace RtcModel.Drv.C16
open RtcModel.Stun RtcModel.IcePrio RtcModel.IceCand RtcModel.Turn RtcModel.StunRfc RtcModel.C16Bytes RtcModel.Drv

/-- the executable instantiation of the abstract primitives (validated against RFC vectors and the
Rust crates by the `hash` stream) -/
def realPrims : Prims where
  hmac k d := let h := C16Crypto.hmacSha1 k d; if h.length = 20 then h else zeros 20
  crc d := (C16Crypto.crc32 d).toNat
  hmac_len k d := by
    by_cases h : (C16Crypto.hmacSha1 k d).length = 20 <;> simp [h]
  crc_lt d := (C16Crypto.crc32 d).toNat_lt

def parseClass : String → Option Class
  | "req" => some .request | "ind" => some .indication | "ok" => some .success | "err" => some .error
  | _ => none
def showClass : Class → String
  | .request => "req" | .indication => "ind" | .success => "ok" | .error => "err"

def parseMethod : String → Option Method
  | "binding" => some .binding | "allocate" => some .allocate | "refresh" => some .refresh
  | "createpermission" => some .createPermission | "channelbind" => some .channelBind
  | "send" => some .send | "data" => some .data | _ => none
def showMethod : Method → String
  | .binding => "binding" | .allocate => "allocate" | .refresh => "refresh"
  | .createPermission => "createpermission" | .channelBind => "channelbind"
  | .send => "send" | .data => "data"

def parseAddr (fam ip port : String) : Option Addr := do
  let ipb ← unhex ip
  let p ← port.toNat?
  match fam with
  | "4" => some (.v4 ipb p)
  | "6" => some (.v6 ipb p)
  | _ => none

def showAddr : Addr → String
  | .v4 ip p => s!"4,{hex ip},{p}"
  | .v6 ip p => s!"6,{hex ip},{p}"

def parseAttr (t : String) : Option Attr :=
  match fields t with
  | ["un", h] => do some (.username (← unhex h))
  | ["re", h] => do some (.realm (← unhex h))
  | ["no", h] => do some (.nonce (← unhex h))
  | ["sw", h] => do some (.software (← unhex h))
  | ["rt", v] => do some (.requestedTransport (← v.toNat?))
  | ["lt", v] => do some (.lifetime (← v.toNat?))
  | ["pr", v] => do some (.priority (← v.toNat?))
  | ["ic", v] => do some (.iceControlling (← v.toNat?))
  | ["id", v] => do some (.iceControlled (← v.toNat?))
  | ["uc"] => some .useCandidate
  | ["xp", f, ip, p] => do some (.xorPeer (← parseAddr f ip p))
  | ["xm", f, ip, p] => do some (.xorMapped (← parseAddr f ip p))
  | ["cn", v] => do some (.channelNumber (← v.toNat?))
  | ["da", h] => do some (.data (← unhex h))
  | _ => none

def parseAttrs : List String → Option (List Attr)
  | [] => some []
  | t :: rest => do
    let a ← parseAttr t
    let as ← parseAttrs rest
    some (a :: as)

def optAddr : Option Addr → String
  | none => "n" | some a => showAddr a
def optBytes : Option Bytes → String
  | none => "n" | some b => "s" ++ hex b
def optNat : Option Nat → String
  | none => "n" | some v => toString v

def showDecoded (d : Decoded) : String :=
  s!"ok {showClass d.cls} {showMethod d.method} {hex d.tx} {optAddr d.mapped} {optAddr d.relayed} {optAddr d.peer} {optNat d.errorCode} {optBytes d.realm} {optBytes d.nonce} {optBytes d.data} {b01 d.useCandidate} {optNat d.lifetime} {optNat d.priority}"

def showErr : DecErr → String
  | .tooShort => "err short" | .lengthMismatch => "err length" | .badMethod => "err method"
  | .badClass => "err class"

def parseKey (s : String) : Option (Option Bytes) :=
  if s = "nokey" then some none
  else match fields s with
    | ["k", h] => (unhex h).map some
    | _ => none

def parseType : String → Option CandType
  | "host" => some .host | "srflx" => some .srflx | "prflx" => some .prflx | "relay" => some .relay
  | _ => none

/-- `u64` arithmetic overflow is a panic in the (debug) build the harness runs -/
def showU64 (n : Nat) : String := if n < 18446744073709551616 then toString n else "overflow"

/-! candidate lines: text is carried as hex of the UTF-8 bytes -/

def strOfHex (h : String) : Option Str := do
  let bs ← unhex h
  let s ← String.fromUTF8? ⟨bs.toArray⟩
  some s.toList

def hexOfStr (s : Str) : String := hex (String.ofList s).toUTF8.toList

/-- `fam,iphex,port` or `-` -/
def parseOptAddr (t : String) : Option (Option Addr) :=
  if t = "-" then some none else
  match fields t with
  | [f, ip, p] => (parseAddr f ip p).map some
  | _ => none

def showTyp : CandType → String
  | .host => "host" | .srflx => "srflx" | .prflx => "prflx" | .relay => "relay"

def parseTcpType : String → Option (Option TcpType)
  | "-" => some none | "active" => some (some .active) | "passive" => some (some .passive)
  | "so" => some (some .so) | _ => none
def showTcpType : Option TcpType → String
  | none => "-" | some .active => "active" | some .passive => "passive" | some .so => "so"

/-- `showIp` table: `fam,iphex,port=texthex` entries -/
def parseIpTable : List String → Option (List (Addr × Str))
  | [] => some []
  | t :: rest => do
    match t.splitOn "=" with
    | [a, txt] =>
      let a ← parseOptAddr a
      let a ← a
      let txt ← strOfHex txt
      let r ← parseIpTable rest
      some ((a, txt) :: r)
    | _ => none

/-- `parseSock` table: `texthex=fam,iphex,port` / `texthex=bad` entries -/
def parseSockTable : List String → Option (List (Str × Option Addr))
  | [] => some []
  | t :: rest => do
    match t.splitOn "=" with
    | [txt, a] =>
      let txt ← strOfHex txt
      let a ← if a = "bad" then some none else parseOptAddr a
      let r ← parseSockTable rest
      some ((txt, a) :: r)
    | _ => none

def ipOnly : Addr → Addr
  | .v4 ip _ => .v4 ip 0 | .v6 ip _ => .v6 ip 0

def tableText (ipTab : List (Addr × Str)) (sockTab : List (Str × Option Addr)) : AddrText where
  showIp a := match ipTab.find? (fun e => ipOnly e.1 = ipOnly a) with
    | some e => e.2 | none => "<table-miss>".toList
  parseSock s := match sockTab.find? (fun e => e.1 = s) with
    | some e => e.2 | none => some (.v4 [] 99999)     -- table miss: an impossible address shows up in the output

def showCand (c : Cand) : String :=
  let rel := match c.related with | none => "-" | some a => showAddr a
  s!"ok {hexOfStr c.foundation} {c.priority} {showAddr c.address} {showTyp c.typ} {hexOfStr c.transport} {showTcpType c.tcpType} {rel} {c.component}"

/-- `userhex,realmhex,noncehex,keyhex` or `noauth` -/
def parseAuth (t : String) : Option (Option Auth) :=
  if t = "noauth" then some none else
  match fields t with
  | [u, r, n, k] => do some (some ⟨← unhex u, ← unhex r, ← unhex n, ← unhex k⟩)
  | _ => none

def showRx : Rx → String
  | .chan ch d => s!"chan {ch} {hex d}"
  | .chanDrop => "chandrop"
  | .dataInd p d => s!"dataind {showAddr p} {hex d}"
  | .dataIndIncomplete => "dataind-incomplete"
  | .stun => "stun"
  | .undecodable => "undecodable"

def turnReq (kind : String) (tx : Bytes) (auth : Option Auth) (peer : Option Addr) (n : Nat) (data : Bytes) :
    Option Bytes :=
  match kind, auth, peer with
  | "alloc", none, _ => some (encode realPrims (allocateMsg tx none) none true)
  | "alloc", some a, _ => some (authed realPrims (allocateMsg tx (some a)) a)
  | "perm", some a, some p => some (authed realPrims (createPermissionMsg tx a p) a)
  | "bind", some a, some p => some (authed realPrims (channelBindMsg tx a p n) a)
  | "refresh", some a, _ => some (authed realPrims (refreshMsg tx a n) a)
  | "sendind", auth, some p =>
    let (m, key, fp) := sendIndication tx auth p data
    some (encode realPrims m key fp)
  | _, _, _ => none

def handle (stream : String) (args : List String) : String :=
  match stream, args with
  | "enc", cls :: meth :: tx :: key :: fp :: attrs =>
    match parseClass cls, parseMethod meth, unhex tx, parseKey key, parseAttrs attrs with
    | some c, some m, some tx, some key, some attrs =>
      hex (encode realPrims ⟨c, m, tx, attrs⟩ key (fp = "1"))
    | _, _, _, _, _ => "bad-args"
  | "dec", [h] =>
    match unhex h with
    | some bs => match decode bs with
      | .ok d => showDecoded d
      | .error e => showErr e
    | none => "bad-hex"
  | "prio", [t, comp, tr] =>
    match parseType t, comp.toNat? with
    | some t, some c =>
      match tr with
      | "udp" => toString (priorityFor t c)
      | "active" => toString (priorityForTcp t c .active)
      | "passive" => toString (priorityForTcp t c .passive)
      | "so" => toString (priorityForTcp t c .so)
      | _ => "bad-args"
    | _, _ => "bad-args"
  | "pair", [role, l, r] =>
    match l.toNat?, r.toNat? with
    | some l, some r =>
      match role with
      | "controlling" => showU64 (pairPriority .controlling l r)
      | "controlled" => showU64 (pairPriority .controlled l r)
      | _ => "bad-args"
    | _, _ => "bad-args"
  | "tosdp", fo :: pr :: ad :: ty :: tr :: tt :: re :: co :: tab =>
    match strOfHex fo, pr.toNat?, parseOptAddr ad, parseType ty, strOfHex tr, parseTcpType tt, parseOptAddr re,
      co.toNat?, parseIpTable tab with
    | some fo, some pr, some (some ad), some ty, some tr, some tt, some re, some co, some tab =>
      hexOfStr (toSdp (tableText tab []) ⟨fo, pr, ad, ty, tr, tt, re, co⟩)
    | _, _, _, _, _, _, _, _, _ => "bad-args"
  | "fromsdp", line :: tab =>
    match strOfHex line, parseSockTable tab with
    | some line, some tab =>
      match fromSdp (tableText [] tab) line with
      | .ok c => showCand c
      | .error .few => "err few" | .error .int => "err int" | .error .addr => "err addr" | .error .typ => "err typ"
    | _, _ => "bad-args"
  | "ltkey", [u, r, pw] =>
    match unhex u, unhex r, unhex pw with
    | some u, some r, some pw => hex (longTermKey C16Crypto.md5 u r pw)
    | _, _, _ => "bad-hex"
  | "turnreq", [kind, tx, auth, peer, n, data] =>
    match unhex tx, parseAuth auth, parseOptAddr peer, n.toNat?, unhex data with
    | some tx, some auth, some peer, some n, some data =>
      match turnReq kind tx auth peer n data with
      | some b => hex b
      | none => "bad-kind"
    | _, _, _, _, _ => "bad-args"
  | "chan", [ch, data] =>
    match ch.toNat?, unhex data with
    | some ch, some d => hex (channelData ch d)
    | _, _ => "bad-args"
  | "tcpwire", [data] =>
    match unhex data with
    | some d => hex (tcpWire d)
    | none => "bad-args"
  | "tcprecv", [buflen, data] =>
    match buflen.toNat?, unhex data with
    | some n, some d =>
      match tcpRecv n d with
      | .msg m _ => s!"ok {hex m}"
      | .tooBig => "toobig"
      | .needMore => "needmore"
    | _, _ => "bad-args"
  | "tcpsplit", [data] =>
    match unhex data with
    | some d =>
      let rec go (fuel : Nat) (st : Bytes) (acc : List String) : List String :=
        match fuel with
        | 0 => acc.reverse
        | fuel + 1 => if st.isEmpty then acc.reverse else
          match tcpNext st with
          | some (m, rest) => go fuel rest (hex m :: acc)
          | none => ("incomplete" :: acc).reverse
      ",".intercalate (go (d.length + 1) d [])
    | none => "bad-args"
  | "nextch", [n] =>
    match n.toNat? with
    | some n => s!"{(nextChannel n).1} {(nextChannel n).2}"
    | none => "bad-args"
  | "rxobs", h :: tab =>
    -- what a data receiver attached to the transport observes: `handle_packet` forwards payloads whose
    -- first byte is ≥ 2, ignores an empty payload (`packet.first()` is `None`; fix d7dd60f, was a `packet[0]` panic) and treats the rest as STUN
    let chans : List (Nat × Addr) := tab.filterMap (fun t =>
      match t.splitOn "=" with
      | [c, a] => match c.toNat?, parseOptAddr a with
        | some c, some (some a) => some (c, a)
        | _, _ => none
      | _ => none)
    let fwd (peer : Addr) (d : Bytes) : String :=
      match d with
      | [] => "none"
      | b :: _ => if b < 2 then "none" else s!"fwd {showAddr peer} {hex d}"
    match unhex h with
    | some b =>
      match classifyRx b with
      | .chan ch d => match chans.find? (fun e => e.1 = ch) with
        | some e => fwd e.2 d
        | none => "none"
      | .dataInd p d => fwd p d
      | _ => "none"
    | none => "bad-hex"
  | "rx", [h] =>
    match unhex h with
    | some b => showRx (classifyRx b)
    | none => "bad-hex"
  | "rfc", [key, h] =>
    match parseKey key, unhex h with
    | some key, some b =>
      let nattrs := match walk 20 (b.drop 20) with | some l => toString l.length | none => "bad"
      let mi := match key with | some k => b01 (integrityOk realPrims k b) | none => "-"
      s!"hdr={b01 (headerOk b)} attrs={nattrs} mi={mi} fp={b01 (fingerprintOk realPrims b)}"
    | _, _ => "bad-args"
  | "uri", [h] =>
    match strOfHex h with
    | some u =>
      match IceUri.parse u with
      | .ok r => s!"ok {match r.kind with | .stun => "stun" | .turn => "turn"} {hexOfStr r.host} {r.port} {match r.transport with | .udp => "udp" | .tcp => "tcp"}"
      | .error .noScheme => "err noscheme" | .error .port => "err port" | .error .scheme => "err scheme"
      | .error .transport => "err transport" | .error .stunTransport => "err stuntransport"
    | none => "bad-hex"
  | "candprio", [name, comp] =>
    match comp.toNat? with
    | some c => match constructorPriority name c with | some v => toString v | none => "bad-name"
    | none => "bad-args"
  | "pairorder", role :: prefer :: cands =>
    -- cands: `L|R,id,prio,tcp,component,loopback,v4,passive,host,private`
    let parseC (t : String) : Option (Bool × IcePairs.PCand) :=
      match fields t with
      | [side, id, pr, tcp, comp, lb, v4, pas, host, priv] => do
        some (side = "L", ⟨← id.toNat?, ← pr.toNat?, tcp = "1", ← comp.toNat?, lb = "1", v4 = "1", pas = "1", host = "1", priv = "1"⟩)
      | _ => none
    let cs := cands.filterMap parseC
    if cs.length ≠ cands.length then "bad-args" else
    let locals := (cs.filter (·.1)).map (·.2)
    let remotes := (cs.filter (fun c => !c.1)).map (·.2)
    let r : IcePrio.Role := if role = "controlling" then .controlling else .controlled
    -- `prefer` = `<0|1>` or `<0|1>,<state is Checking 0|1>,<a pair is already selected 0|1>`
    let (pf, checking, hasSel) : Bool × Bool × Bool := match fields prefer with
      | [p, c, h] => (decide (p = "1"), decide (c = "1"), decide (h = "1"))
      | _ => (decide (prefer = "1"), true, false)
    match IcePairs.checkPass checking hasSel r pf locals remotes with
    | none => "-"
    | some order => if order.isEmpty then "-" else ";".intercalate (order.map (fun p => s!"{p.1.id}>{p.2.id}"))
  | "select", role :: pn :: items =>
    -- items: `S|N,lid,lprio,ltcp,rid,rprio` — successful checks (S) / successful nominations (N) in arrival order
    let parseP (t : String) : Option (Bool × IcePairs.PPair) :=
      match fields t with
      | [k, lid, lp, ltcp, rid, rp] => do
        some (k = "S", (⟨← lid.toNat?, ← lp.toNat?, ltcp = "1", 1, false, true, false, true, false⟩,
                         ⟨← rid.toNat?, ← rp.toNat?, ltcp = "1", 1, false, true, false, true, false⟩))
      | _ => none
    let ps := items.filterMap parseP
    if ps.length ≠ items.length then "bad-args" else
    let r : IcePrio.Role := if role = "controlling" then .controlling else .controlled
    match IcePairs.conclude r ((ps.filter (·.1)).map (·.2)) ((ps.filter (fun c => !c.1)).map (·.2)) (pn = "1") with
    | none => "-"
    | some o => s!"{o.selected.1.id}>{o.selected.2.id} nc={match o.nominationComplete with | none => "-" | some true => "true" | some false => "false"} state={if o.connected then "connected" else "failed"}"
  | "agentmsg", [kind, tx, lu, ru, rpw, role, prio, tie, nom] =>
    match unhex tx, unhex lu, unhex ru, unhex rpw, prio.toNat?, tie.toNat? with
    | some tx, some lu, some ru, some rpw, some prio, some tie =>
      let r : IcePrio.Role := if role = "controlling" then .controlling else .controlled
      match kind with
      | "check" => hex (encode realPrims (IcePairs.connectivityCheck tx lu ru r prio tie (nom = "1")) (some rpw) true)
      | "keepalive" => hex (encode realPrims (IcePairs.keepalive tx lu ru prio) (some rpw) true)
      | "probe" => hex (encode realPrims (IcePairs.bareBinding tx) none true)
      | "bare" => hex (encode realPrims (IcePairs.bareBinding tx) none false)
      | _ => "bad-kind"
    | _, _, _, _, _, _ => "bad-args"
  | "hash", [alg, a, b] =>
    match unhex a, unhex b with
    | some a, some b =>
      match alg with
      | "crc32" => toString (C16Crypto.crc32 b).toNat
      | "sha1" => hex (C16Crypto.sha1 b)
      | "md5" => hex (C16Crypto.md5 b)
      | "hmac" => hex (C16Crypto.hmacSha1 a b)
      | _ => "bad-args"
    | _, _ => "bad-hex"
  | _, _ => "bad-stream"

end RtcModel.Drv.C16
