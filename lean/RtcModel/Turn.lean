/-
Model of the TURN client message builders in `src/transports/ice/turn.rs` (`long_term_key`, Allocate /
CreatePermission / ChannelBind / Refresh requests, Send indication, ChannelData framing, channel number
allocation, RFC 4571 TCP framing) and of the receive-side classification in
`IceTransport::handle_turn_packet` (`src/transports/ice/mod.rs`).  MD5 is a parameter.  Core Lean only.
-/
import RtcModel.Stun

namespace RtcModel.Turn
open RtcModel.Stun RtcModel.C16Bytes RtcModel.Generated

/-- `long_term_key`: `MD5(username ":" realm ":" password)` (RFC 5389 §15.4) -/
def longTermKey (md5 : Bytes → Bytes) (username realm password : Bytes) : Bytes :=
  md5 (username ++ [58] ++ realm ++ [58] ++ password)

/-- `TurnAuthState` -/
structure Auth where
  username : Bytes
  realm : Bytes
  nonce : Bytes
  key : Bytes
deriving DecidableEq, Repr

def authAttrs (a : Auth) : List Attr := [.username a.username, .realm a.realm, .nonce a.nonce]

/-- `allocate`: first attempt without credentials, retry with USERNAME/REALM/NONCE + long-term key -/
def allocateMsg (tx : Bytes) (auth : Option Auth) : Msg :=
  ⟨.request, .allocate, tx,
    [.requestedTransport turnRequestedTransportUdp, .lifetime turnDefaultLifetime] ++
      (match auth with | none => [] | some a => authAttrs a)⟩

/-- `create_permission` / `create_permission_packet` -/
def createPermissionMsg (tx : Bytes) (a : Auth) (peer : Addr) : Msg :=
  ⟨.request, .createPermission, tx, authAttrs a ++ [.xorPeer peer]⟩

/-- `create_channel_bind_packet` / `create_channel_rebind_packet` -/
def channelBindMsg (tx : Bytes) (a : Auth) (peer : Addr) (channel : Nat) : Msg :=
  ⟨.request, .channelBind, tx, [.channelNumber channel, .xorPeer peer] ++ authAttrs a⟩

/-- `create_refresh_packet` (lifetime 600) / `create_destroy_packet_sync` (lifetime 0) -/
def refreshMsg (tx : Bytes) (a : Auth) (lifetime : Nat) : Msg :=
  ⟨.request, .refresh, tx, [.lifetime lifetime] ++ authAttrs a⟩

/-- `send_indication`: message, key, fingerprint flag -/
def sendIndication (tx : Bytes) (auth : Option Auth) (peer : Addr) (data : Bytes) : Msg × Option Bytes × Bool :=
  match auth with
  | some a => (⟨.indication, .send, tx, authAttrs a ++ [.xorPeer peer, .data data]⟩, some a.key, true)
  | none => (⟨.indication, .send, tx, [.xorPeer peer, .data data]⟩, none, false)

/-- bytes of an authenticated request (`msg.encode(Some(&auth.key), true)`) -/
def authed (P : Prims) (m : Msg) (a : Auth) : Bytes := encode P m (some a.key) true

/-- channel allocation in `create_channel_bind_packet`: returns (allocated, next) -/
def nextChannel (n : Nat) : Nat × Nat :=
  (n, if n ≥ turnChannelLast then turnChannelWrapTo else n + 1)

/-- `send_channel_data`: ChannelData message (RFC 5766 §11.4) -/
def channelData (channel : Nat) (data : Bytes) : Bytes := be16 channel ++ be16 data.length ++ data

/-- `TurnClient::send` over TCP / `frame_stun_for_tcp`: RFC 4571 two-byte length prefix -/
def tcpFrame (data : Bytes) : Bytes := be16 data.length ++ data

/-- what `handle_turn_packet` does with a datagram from the TURN server -/
inductive Rx where
  | chan (channel : Nat) (data : Bytes)       -- ChannelData, forwarded if the channel is bound
  | chanDrop                                  -- channel range but shorter than its length field: dropped
  | dataInd (peer : Addr) (data : Bytes)      -- Data indication with both attributes: payload forwarded
  | dataIndIncomplete                         -- Data indication lacking DATA or XOR-PEER-ADDRESS: dropped
  | stun                                      -- any other decodable STUN message: handled as STUN from the server
  | undecodable                               -- dropped
deriving DecidableEq, Repr

/-- the ChannelData test at the top of `handle_turn_packet` (`None`: fall through to STUN decoding) -/
def chanCase (pkt : Bytes) : Option Rx :=
  match pkt with
  | c0 :: c1 :: l0 :: l1 :: rest =>
    if turnRxChannelLo ≤ rd16 c0 c1 ∧ rd16 c0 c1 ≤ turnRxChannelHi then
      if rest.length ≥ rd16 l0 l1 then some (.chan (rd16 c0 c1) (rest.take (rd16 l0 l1))) else some .chanDrop
    else none
  | _ => none

/-- the STUN part of `handle_turn_packet` -/
def stunCase (pkt : Bytes) : Rx :=
  match decode pkt with
  | .ok d =>
    if d.cls = .indication ∧ d.method = .data then
      match d.data, d.peer with
      | some data, some peer => .dataInd peer data
      | _, _ => .dataIndIncomplete
    else .stun
  | .error _ => .undecodable

def classifyRx (pkt : Bytes) : Rx :=
  match chanCase pkt with
  | some r => r
  | none => stunCase pkt

end RtcModel.Turn
