/-
Model of the TURN client message builders in `src/transports/ice/turn.rs` (`long_term_key`, Allocate /
CreatePermission / ChannelBind / Refresh requests, Send indication, ChannelData framing, channel number
allocation, RFC 4571 TCP framing) and of the receive-side classification in
`IceTransport::handle_turn_packet` (`src/transports/ice/mod.rs`).  MD5 is a parameter.  Core Lean only.
-/
import RtcModel.Stun

namespace RtcModel.Turn
open RtcModel.Stun RtcModel.C16Bytes RtcModel.Generated

/-- `long_term_key`: `MD5(username ":" realm ":" password)` (RFC 5389 §15.4) -/
def longTermKey (md5 : Bytes → Bytes) (username realm password : Bytes) : Bytes :=
  md5 (username ++ [58] ++ realm ++ [58] ++ password)

/-- `TurnAuthState` -/
structure Auth where
  username : Bytes
  realm : Bytes
  nonce : Bytes
  key : Bytes
deriving DecidableEq, Repr

/-- the mutable part of `TurnAuthState`: account, current realm / nonce, cached long-term key -/
structure AuthSt where
  username : Bytes
  password : Bytes
  realm : Bytes
  nonce : Bytes
  key : Bytes
deriving DecidableEq, Repr

/-- the state a successful `allocate` stores (`TurnAuthState::with_key` with the key of the challenge's realm) -/
def AuthSt.afterAllocate (md5 : Bytes → Bytes) (username password realm nonce : Bytes) : AuthSt :=
  ⟨username, password, realm, nonce, longTermKey md5 username realm password⟩

/-- `TurnAuthState::update_nonce` after a 401 / 438 challenge: realm and nonce are replaced and the key is
re-derived from the NEW realm -/
def AuthSt.updateNonce (md5 : Bytes → Bytes) (s : AuthSt) (realm nonce : Bytes) : AuthSt :=
  { s with realm := realm, nonce := nonce, key := longTermKey md5 s.username realm s.password }

/-- what the request builders read -/
def AuthSt.auth (s : AuthSt) : Auth := ⟨s.username, s.realm, s.nonce, s.key⟩

def authAttrs (a : Auth) : List Attr := [.username a.username, .realm a.realm, .nonce a.nonce]

/-- `allocate`: first attempt without credentials, retry with USERNAME/REALM/NONCE + long-term key -/
def allocateMsg (tx : Bytes) (auth : Option Auth) : Msg :=
  ⟨.request, .allocate, tx,
    [.requestedTransport turnRequestedTransportUdp, .lifetime turnDefaultLifetime] ++
      (match auth with | none => [] | some a => authAttrs a)⟩

/-- `create_permission` / `create_permission_packet` -/
def createPermissionMsg (tx : Bytes) (a : Auth) (peer : Addr) : Msg :=
  ⟨.request, .createPermission, tx, authAttrs a ++ [.xorPeer peer]⟩

/-- `create_channel_bind_packet` / `create_channel_rebind_packet` -/
def channelBindMsg (tx : Bytes) (a : Auth) (peer : Addr) (channel : Nat) : Msg :=
  ⟨.request, .channelBind, tx, [.channelNumber channel, .xorPeer peer] ++ authAttrs a⟩

/-- `create_refresh_packet` (lifetime 600) / `create_destroy_packet_sync` (lifetime 0) -/
def refreshMsg (tx : Bytes) (a : Auth) (lifetime : Nat) : Msg :=
  ⟨.request, .refresh, tx, [.lifetime lifetime] ++ authAttrs a⟩

/-- `send_indication`: message, key, fingerprint flag -/
def sendIndication (tx : Bytes) (auth : Option Auth) (peer : Addr) (data : Bytes) : Msg × Option Bytes × Bool :=
  match auth with
  | some a => (⟨.indication, .send, tx, authAttrs a ++ [.xorPeer peer, .data data]⟩, some a.key, true)
  | none => (⟨.indication, .send, tx, [.xorPeer peer, .data data]⟩, none, false)

/-- bytes of an authenticated request (`msg.encode(Some(&auth.key), true)`) -/
def authed (P : Prims) (m : Msg) (a : Auth) : Bytes := encode P m (some a.key) true

/-- channel allocation in `create_channel_bind_packet`: returns (allocated, next) -/
def nextChannel (n : Nat) : Nat × Nat :=
  (n, if n ≥ turnChannelLast then turnChannelWrapTo else n + 1)

/-- `send_channel_data`: ChannelData message (RFC 5766 §11.4) -/
def channelData (channel : Nat) (data : Bytes) : Bytes := be16 channel ++ be16 data.length ++ data

/-- first two bits `01`: a ChannelData message (`b & 0xC0 == 0x40`) -/
def isChannelByte (b : UInt8) : Bool := b.toNat / 64 = 1

/-- `TurnClient::send` over TCP (RFC 5766 §2.1 / §11.5): no extra framing — a STUN message goes out as it
is, a ChannelData message is padded with zeros to a multiple of four bytes -/
def tcpWire (data : Bytes) : Bytes :=
  match data with
  | b :: _ => if isChannelByte b then data ++ zeros (pad4 data.length) else data
  | [] => data

/-- `TurnClient::recv` over TCP: the next message of the byte stream and the rest of the stream
(`none`: more bytes are needed / read error) -/
def tcpNext (stream : Bytes) : Option (Bytes × Bytes) :=
  match stream with
  | b0 :: b1 :: l0 :: l1 :: rest =>
    if isChannelByte b0 then
      if rest.length < rd16 l0 l1 + pad4 (rd16 l0 l1) then none
      else some (b0 :: b1 :: l0 :: l1 :: rest.take (rd16 l0 l1), rest.drop (rd16 l0 l1 + pad4 (rd16 l0 l1)))
    else
      if rest.length < 16 + rd16 l0 l1 then none
      else some (b0 :: b1 :: l0 :: l1 :: rest.take (16 + rd16 l0 l1), rest.drop (16 + rd16 l0 l1))
  | _ => none

/-- `TurnClient::recv` over TCP with the caller's buffer of `bufLen` bytes (the runner uses 1500): the 4-byte
header is consumed first; a message whose on-the-wire size exceeds the buffer is an error (`tooBig`; the stream
is out of sync afterwards and the runner's read loop ends) -/
inductive Recv where
  | msg (m rest : Bytes)
  | tooBig
  | needMore
deriving DecidableEq, Repr

def tcpRecv (bufLen : Nat) (stream : Bytes) : Recv :=
  match stream with
  | b0 :: b1 :: l0 :: l1 :: rest =>
    let body := rd16 l0 l1
    let len := if isChannelByte b0 then 4 + body else 20 + body
    let onWire := if isChannelByte b0 then 4 + (body + 3) / 4 * 4 else 20 + body      -- `body.div_ceil(4) * 4`
    if onWire > bufLen then .tooBig
    else if rest.length < onWire - 4 then .needMore
    else .msg (b0 :: b1 :: l0 :: l1 :: rest.take (len - 4)) (rest.drop (onWire - 4))
  | _ => .needMore

/-- `n` successive `recv` calls -/
def tcpSplitN : Nat → Bytes → Option (List Bytes × Bytes)
  | 0, s => some ([], s)
  | n + 1, s =>
    match tcpNext s with
    | some (m, rest) => (tcpSplitN n rest).map (fun r => (m :: r.1, r.2))
    | none => none

/-- ICE-TCP candidates (RFC 6544 §10.1) do use RFC 4571 framing: `frame_stun_for_tcp` -/
def rfc4571Frame (data : Bytes) : Bytes := be16 data.length ++ data

/-- what `handle_turn_packet` does with a datagram from the TURN server -/
inductive Rx where
  | chan (channel : Nat) (data : Bytes)       -- ChannelData, forwarded if the channel is bound
  | chanDrop                                  -- channel range but shorter than its length field: dropped
  | dataInd (peer : Addr) (data : Bytes)      -- Data indication with both attributes: payload forwarded
  | dataIndIncomplete                         -- Data indication lacking DATA or XOR-PEER-ADDRESS: dropped
  | stun                                      -- any other decodable STUN message: handled as STUN from the server
  | undecodable                               -- dropped
deriving DecidableEq, Repr

/-- the ChannelData test at the top of `handle_turn_packet` (`None`: fall through to STUN decoding) -/
def chanCase (pkt : Bytes) : Option Rx :=
  match pkt with
  | c0 :: c1 :: l0 :: l1 :: rest =>
    if turnRxChannelLo ≤ rd16 c0 c1 ∧ rd16 c0 c1 ≤ turnRxChannelHi then
      if rest.length ≥ rd16 l0 l1 then some (.chan (rd16 c0 c1) (rest.take (rd16 l0 l1))) else some .chanDrop
    else none
  | _ => none

/-- the STUN part of `handle_turn_packet` -/
def stunCase (pkt : Bytes) : Rx :=
  match decode pkt with
  | .ok d =>
    if d.cls = .indication ∧ d.method = .data then
      match d.data, d.peer with
      | some data, some peer => .dataInd peer data
      | _, _ => .dataIndIncomplete
    else .stun
  | .error _ => .undecodable

def classifyRx (pkt : Bytes) : Rx :=
  match chanCase pkt with
  | some r => r
  | none => stunCase pkt

end RtcModel.Turn
