/-
History-level meaning of the probation table (`RtpCandidateState` / `RtpProbationState`), written
from the field names and doc comments, NOT from `observe` / `updCand`:

the table after a list of expected-SSRC RTP packets (since the window was armed) has one row per
source address, in order of first appearance, and each row summarises that source's packets:
  first_seq    = the numerically LOWEST sequence number seen from the source
                 (not the sequence number of its first packet — the code lowers it, `conn.rs` "if seq < c.first_seq")
  last_seq     = the sequence number of its latest packet
  first_ts     = the lowest timestamp seen
  packet_count = how many packets it sent, capped at the counter's ceiling
  consecutive  = length of the TRAILING RUN: how many of its latest packets each had
                 `seq == previous seq + 1 (mod 2^16)`; broken by any other step; capped
  has_marker   = some packet carried the marker bit
and `total` = number of packets, capped.

Reading of the doc comment made explicit here: rule 2 asks for `consecutive_count >= 2`, i.e. (theorem
`run_two_means_three_in_sequence`) the source's latest THREE packets are in sequence — the comment's
prose "Two sequential packets from the same port" undercounts by one; the numeric condition is taken.

Histories are lists with the NEWEST packet first.
-/
import RtcModel.Latch

namespace RtcModel.LatchHistory
open RtcModel.Latch

structure Pkt where
  addr   : Addr
  seq    : Nat
  ts     : Nat
  marker : Bool
deriving DecidableEq, Repr

/-- the packets of one source, newest first -/
def ofSrc (h : List Pkt) (a : Addr) : List Pkt := h.filter (fun x => x.addr = a)

/-- sources in order of first appearance (the history is newest-first, so a source that is new in
the latest packet goes to the END) -/
def srcs : List Pkt → List Addr
  | [] => []
  | x :: h => if x.addr ∈ srcs h then srcs h else srcs h ++ [x.addr]

/-- lowest value of a list (0 for the empty list, never used) -/
def lowest : List Nat → Nat
  | [] => 0
  | [v] => v
  | v :: w :: rest => if v < lowest (w :: rest) then v else lowest (w :: rest)

/-- trailing run: number of consecutive `+1 (mod 2^16)` steps ending at the latest packet -/
def runLen : List Pkt → Nat
  | x :: y :: rest => if x.seq = wrapInc y.seq then satInc consecMax (runLen (y :: rest)) else 0
  | _ => 0

def capped (m n : Nat) : Nat := if n ≥ m then m else n

/-- the row of source `a` whose packets (newest first) are `l` -/
def summary (a : Addr) (l : List Pkt) : Cand :=
  { addr := a
    firstSeq := lowest (l.map (·.seq))
    lastSeq := (l.head?.map (·.seq)).getD 0
    firstTs := lowest (l.map (·.ts))
    packetCount := capped countMax l.length
    consecutive := runLen l
    hasMarker := l.any (·.marker) }

/-- the table the doc comment describes, as a function of the packet history -/
def tableOf (h : List Pkt) : List Cand := (srcs h).map (fun a => summary a (ofSrc h a))

def totalOf (h : List Pkt) : Nat := capped totalMax h.length

/-- feeding the history (oldest packet first) through the code's `observe` -/
def observeAll : List Pkt → List Cand
  | [] => []
  | x :: h => observe (observeAll h) x.addr x.seq x.ts x.marker

end RtcModel.LatchHistory
