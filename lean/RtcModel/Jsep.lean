/-
Model of the JSEP signaling part of `src/peer_connection.rs`:
`create_offer`, `create_answer`, `set_local_description`, `set_remote_description`, `close`
(+ the setup operations `add_transceiver` and "the DTLS transport has started"), restricted to what
property C09 observes: signaling state, the two description slots, and for every transceiver its
mid / direction / payload map / header-extension map; plus the mid counter and the cached remote
DTLS fingerprint, which influence later calls.

The model follows the code statement by statement, *in the code's order*: every function returns the
connection **as it is at the moment of the return**, so a mutation performed before a failing check
is visible in the result of the failing call.

Environment: the one environment event that is modelled is "every UDP socket bind fails"
(`Pc.bindFails`, constant during a run), because the direct modes bind sockets inside the signaling
calls and return the bind error AFTER having applied the description.  Not modelled: ICE gathering
details, transport attachment, receivers/senders/SSRC bookkeeping, events.  The content of a description produced by
`create_offer` / `create_answer` is C08's subject; here only their effect on the connection
(mid assignment, mid counter) and their result class are modelled.

Core Lean only (linked into `rtcdrv`).
-/
import RtcModel.Base.C08Text
import RtcModel.Generated.Consts

namespace RtcModel.Jsep
open RtcModel.Text RtcModel.Generated

inductive SigState | stable | haveLocalOffer | haveRemoteOffer | closed
deriving DecidableEq, Repr, Inhabited

inductive SdpType | offer | answer | pranswer | rollback
deriving DecidableEq, Repr

inductive Kind | audio | video | application | image
deriving DecidableEq, Repr

inductive Dir | sendrecv | sendonly | recvonly | inactive
deriving DecidableEq, Repr

inductive Mode | webrtc | srtp | rtp
deriving DecidableEq, Repr

/-- `RtcError` variant of a rejected call -/
inductive Err | invalidState | notImplemented | invalidConfiguration | internal
deriving DecidableEq, Repr

inductive Res | ok | err (e : Err)
deriving DecidableEq, Repr

def Res.isErr : Res → Bool
  | .ok => false
  | .err _ => true

/-- `RtpCodecParameters` -/
structure Codec where
  pt : Nat
  name : Str
  clock : Nat
  channels : Nat
deriving DecidableEq, Repr

/-- What the signaling code reads of a `MediaSection`. -/
structure Section where
  kind : Kind
  mid : Str                  -- `""` when the section has no `a=mid`
  dir : Dir
  formats : List Str
  rtpmaps : List Str         -- values of the `a=rtpmap` attributes, in order
  extmaps : List Str         -- values of the `a=extmap` attributes, in order
  setup : Option Str := none -- value of the first `a=setup:<v>` attribute of the section
  addr4 : Bool := false      -- the section (or session) `c=` line is `IN IP4 <parsable address>`
                             -- (test in the section loop of `set_remote_description`)
  addrAny : Bool := false    -- `remote_rtp_addr_from_section(..).is_some()` (IP4 or IP6)
deriving DecidableEq, Repr

/-- Result of `desc.dtls_fingerprint()` + the algorithm test at the top of `set_remote_description`. -/
inductive Fp
  | sha256 (v : Nat)         -- a sha-256 fingerprint; `v` names its normalised value
  | otherAlg
  | missing
  | invalid
deriving DecidableEq, Repr

/-- A description as seen by the signaling code.  `id` identifies the description (its full text),
`eqKey` the class of `(session.connection, session.attributes, media_sections)` used by the
"media parameters changed" comparison. -/
structure Desc where
  id : Nat
  ty : SdpType
  eqKey : Nat
  fp : Fp
  sections : List Section
  groups : List (Option Str) := []   -- values of the session-level `a=group` attributes, in order
  sessSetup : Option Str := none     -- value of the first session-level `a=setup` that has one
deriving DecidableEq, Repr

structure Trx where
  kind : Kind
  mid : Option Str
  dir : Dir
  pmap : List Codec          -- `HashMap<u8, RtpCodecParameters>`, kept sorted by payload type
  ext : List (Nat × Str)     -- `HashMap<u8, String>`, kept sorted by id
deriving DecidableEq, Repr

structure Pc where
  mode : Mode
  sig : SigState
  peerClosed : Bool          -- `peer_state == Closed`
  loc : Option Desc
  rem : Option Desc
  trxs : List Trx
  nextMid : Nat              -- `AtomicU16`
  dtlsStarted : Bool         -- `dtls_transport.is_some()`
  remoteFp : Option Nat      -- `remote_dtls_fingerprint`
  dtlsRole : Option Bool := none  -- `dtls_role` (`Some(is_client)`), cached by the first remote description
  bindFails : Bool := false  -- ENVIRONMENT: every UDP socket bind fails (unusable `bind_ip`,
                             -- exhausted port range / descriptors); constant during a run
deriving DecidableEq, Repr

def Pc.new (mode : Mode) (bindFails : Bool := false) : Pc :=
  { mode, sig := .stable, peerClosed := false, loc := none, rem := none, trxs := [], nextMid := 0,
    dtlsStarted := false, remoteFp := none, bindFails }

/-- the direct (non-ICE) modes bind their RTP sockets synchronously inside the signaling calls -/
def Pc.bindsInline (pc : Pc) : Bool := pc.mode = .rtp || pc.mode = .srtp

/-! ### sorted maps (content of the two `HashMap`s) -/

def insertCodec (c : Codec) : List Codec → List Codec
  | [] => [c]
  | d :: rest =>
    if c.pt < d.pt then c :: d :: rest
    else if c.pt = d.pt then c :: rest
    else d :: insertCodec c rest

def insertExt (e : Nat × Str) : List (Nat × Str) → List (Nat × Str)
  | [] => [e]
  | d :: rest =>
    if e.1 < d.1 then e :: d :: rest
    else if e.1 = d.1 then e :: rest
    else d :: insertExt e rest

/-! ### `extract_payload_map` / `extract_extmap` -/

/-- `iana_static_rtp_params` -/
def ianaStatic (pt : Nat) : Option Codec :=
  if pt = ianaPtPcmu then some ⟨ianaPtPcmu, "PCMU".toList, ianaClockPcmu, ianaChannelsPcmu⟩
  else if pt = ianaPtPcma then some ⟨ianaPtPcma, "PCMA".toList, ianaClockPcma, ianaChannelsPcma⟩
  else if pt = ianaPtG722 then some ⟨ianaPtG722, "G722".toList, ianaClockG722, ianaChannelsG722⟩
  else if pt = ianaPtG729 then some ⟨ianaPtG729, "G729".toList, ianaClockG729, ianaChannelsG729⟩
  else none

/-- one `a=rtpmap:<value>`: `"96 opus/48000/2"` -/
def rtpmapCodec (v : Str) : Option Codec :=
  match splitWs v with
  | p0 :: p1 :: _ =>
    match parseU8 p0 with
    | some pt =>
      match splitOn '/' p1 with
      | name :: clk :: rest =>
        let clock := (parseU32 clk).getD rtpmapDefaultClock
        let channels := match rest with
          | ch :: _ => (parseU8 ch).getD 0
          | [] => 0
        some ⟨pt, name, clock, channels⟩
      | _ => none
    | none => none
  | _ => none

def payloadFromRtpmaps : List Str → List Codec → List Codec
  | [], acc => acc
  | v :: rest, acc =>
    match rtpmapCodec v with
    | some c => payloadFromRtpmaps rest (insertCodec c acc)
    | none => payloadFromRtpmaps rest acc

def payloadAddStatic : List Str → List Codec → List Codec
  | [], acc => acc
  | f :: rest, acc =>
    match parseU8 f with
    | some pt =>
      if acc.any (·.pt = pt) then payloadAddStatic rest acc
      else match ianaStatic pt with
        | some c => payloadAddStatic rest (insertCodec c acc)
        | none => payloadAddStatic rest acc
    | none => payloadAddStatic rest acc

def extractPayloadMap (s : Section) : List Codec :=
  payloadAddStatic s.formats (payloadFromRtpmaps s.rtpmaps [])

def extmapEntry (v : Str) : Option (Nat × Str) :=
  match splitWs v with
  | p0 :: p1 :: _ =>
    match parseU8 p0 with
    | some id => some (id, p1)
    | none => none
  | _ => none

def extractExtmapAux : List Str → List (Nat × Str) → List (Nat × Str)
  | [], acc => acc
  | v :: rest, acc =>
    match extmapEntry v with
    | some e => extractExtmapAux rest (insertExt e acc)
    | none => extractExtmapAux rest acc

def extractExtmap (s : Section) : List (Nat × Str) := extractExtmapAux s.extmaps []

/-! ### transceiver list helpers -/

/-- index of the first transceiver satisfying `p idx t` -/
def findIdxFrom (p : Nat → Trx → Bool) : List Trx → Nat → Option Nat
  | [], _ => none
  | t :: rest, i => if p i t then some i else findIdxFrom p rest (i + 1)

def findIdx (p : Nat → Trx → Bool) (ts : List Trx) : Option Nat := findIdxFrom p ts 0

def modifyAt (f : Trx → Trx) : List Trx → Nat → List Trx
  | [], _ => []
  | t :: rest, 0 => f t :: rest
  | t :: rest, i + 1 => t :: modifyAt f rest i

/-- `update_payload_map` (only when the extracted map is non-empty), `update_extmap` -/
def applyParams (s : Section) (t : Trx) : Trx :=
  let pm := extractPayloadMap s
  { t with pmap := if pm.isEmpty then t.pmap else pm, ext := extractExtmap s }

/-- … followed by `set_direction(section.direction)` -/
def applyParamsDir (s : Section) (t : Trx) : Trx :=
  { applyParams s t with dir := s.dir }

def isRtpKind (k : Kind) : Bool := k = .audio || k = .video

/-! ### `set_local_description` -/

/-- body of the re-offer loop (a local description already exists) for one section -/
def localReofferSection (ts : List Trx) (s : Section) : List Trx :=
  match findIdx (fun _ t => t.mid = some s.mid) ts with
  | some i => modifyAt (applyParams s) ts i
  | none =>
    match findIdx (fun _ t => t.mid = none && t.kind = s.kind) ts with
    | some i => modifyAt (fun t => applyParams s { t with mid := some s.mid }) ts i
    | none => ts

/-- body of the initial-offer loop for one section -/
def localInitialSection (ts : List Trx) (s : Section) : List Trx :=
  if ts.any (fun t => t.mid = some s.mid) then ts
  else match findIdx (fun _ t => t.mid = none && t.kind = s.kind) ts with
    | some i => modifyAt (fun t => { t with mid := some s.mid }) ts i
    | none => ts

/-- The parameter-extraction block at the top of `set_local_description`.  Since the `fix:` commit
it runs only for an offer applied in `Stable` (the only state in which the call can succeed). -/
def localExtract (pc : Pc) (d : Desc) : Pc :=
  if d.ty = .offer ∧ pc.sig = .stable then
    if pc.loc.isSome then { pc with trxs := d.sections.foldl localReofferSection pc.trxs }
    else { pc with trxs := d.sections.foldl localInitialSection pc.trxs }
  else pc

/-- state check + transition of `set_local_description` -/
def localTransition (s : SigState) : SdpType → Except Err SigState
  | .offer => if s = .stable then .ok .haveLocalOffer else .error .invalidState
  | .answer => if s = .haveRemoteOffer then .ok .stable else .error .invalidState
  | .pranswer => if s = .haveRemoteOffer then .ok .haveRemoteOffer else .error .invalidState
  | .rollback => .error .notImplemented

def validateType : SdpType → Option Err
  | .rollback => some .notImplemented
  | _ => none

def setLocal (pc : Pc) (d : Desc) : Pc × Res :=
  match validateType d.ty with
  | some e => (pc, .err e)
  | none =>
    let pc1 := localExtract pc d
    match localTransition pc1.sig d.ty with
    | .error e => (pc1, .err e)
    | .ok s' => ({ pc1 with sig := s', loc := some d }, .ok)

/-! ### `set_remote_description` -/

/-- fingerprint handling at the top (WebRTC mode only) -/
def remoteFingerprint (m : Mode) (fp : Fp) : Except Err (Option Nat) :=
  if m = .webrtc then
    match fp with
    | .sha256 v => .ok (some v)
    | _ => .error .invalidConfiguration
  else .ok none

/-- `dtls_started && *stored != remote_dtls_fingerprint` -/
def fpChanged (pc : Pc) (fp : Option Nat) : Bool := pc.dtlsStarted && pc.remoteFp != fp

def mediaChanged (pc : Pc) (d : Desc) : Bool :=
  match pc.rem with
  | none => true
  | some p => p.eqKey != d.eqKey

/-- `matched_rtp_media_sections`: (transceiver index, section) pairs, audio/video sections only -/
def matchRtpAux (ts : List Trx) : List Section → List Nat → List (Nat × Section) → List (Nat × Section)
  | [], _, acc => acc.reverse
  | s :: rest, used, acc =>
    if !isRtpKind s.kind then matchRtpAux ts rest used acc
    else
      let byMid := if s.mid.isEmpty then none
        else findIdx (fun i t => !used.contains i && t.mid = some s.mid) ts
      let found := match byMid with
        | some i => some i
        | none => findIdx (fun i t => !used.contains i && t.kind = s.kind) ts
      match found with
      | some i => matchRtpAux ts rest (i :: used) ((i, s) :: acc)
      | none => matchRtpAux ts rest used acc

def matchRtp (ts : List Trx) (secs : List Section) : List (Nat × Section) := matchRtpAux ts secs [] []

def applyMatched (ts : List Trx) (m : List (Nat × Section)) : List Trx :=
  m.foldl (fun ts p => modifyAt (applyParamsDir p.2) ts p.1) ts

/-- `handle_reinvite` (never fails: `update_*` and `apply_direction_change` always return `Ok`) -/
def handleReinvite (pc : Pc) (d : Desc) : Pc :=
  { pc with trxs := applyMatched pc.trxs (matchRtp pc.trxs d.sections), rem := some d }

/-- the block `if previous_remote.is_some() && media_parameters_changed { match (type, state) … }` -/
def reinvitePhase (pc : Pc) (d : Desc) (changed : Bool) : Pc × Option Err :=
  if pc.rem.isSome && changed then
    match d.ty, pc.sig with
    | .offer, .stable => (handleReinvite pc d, none)
    | .answer, .haveLocalOffer => (handleReinvite pc d, none)
    | .pranswer, .haveLocalOffer => (handleReinvite pc d, none)
    | .offer, _ => (pc, some .invalidState)
    | _, _ => (pc, none)
  else (pc, none)

/-- `next_mid.fetch_max(mid_val.saturating_add(1))` for every section whose mid parses as `u16` -/
def bumpNextMid (n : Nat) : List Section → Nat
  | [] => n
  | s :: rest =>
    match parseU16 s.mid with
    | some v => bumpNextMid (Nat.max n (Nat.min (v + 1) 65535)) rest
    | none => bumpNextMid n rest

def remoteTransition (s : SigState) : SdpType → Except Err SigState
  | .offer => if s = .stable then .ok .haveRemoteOffer else .error .invalidState
  | .answer => if s = .haveLocalOffer then .ok .stable else .error .invalidState
  | .pranswer => if s = .haveLocalOffer then .ok .haveLocalOffer else .error .invalidState
  | .rollback => .error .notImplemented

/-- one section of a remote offer: match an existing transceiver or create one -/
def remoteOfferSection (st : List Trx × List Nat) (s : Section) : List Trx × List Nat :=
  let ts := st.1
  let used := st.2
  let byMid := if s.mid.isEmpty then none
    else findIdx (fun i t => !used.contains i && t.kind = s.kind && t.mid = some s.mid) ts
  match byMid with
  | some i => (modifyAt (applyParamsDir s) ts i, i :: used)
  | none =>
    match findIdx (fun i t => !used.contains i && t.mid = none && t.kind = s.kind) ts with
    | some i => (modifyAt (fun t => applyParamsDir s { t with mid := some s.mid }) ts i, i :: used)
    | none =>
      let anyKind := if s.mid.isEmpty then findIdx (fun i t => !used.contains i && t.kind = s.kind) ts else none
      match anyKind with
      | some i => (modifyAt (applyParamsDir s) ts i, i :: used)
      | none =>
        (ts ++ [{ kind := s.kind, mid := some s.mid, dir := s.dir, pmap := [], ext := [] }], ts.length :: used)

def applyRemote (pc : Pc) (d : Desc) : Pc :=
  match d.ty with
  | .offer => { pc with trxs := (d.sections.foldl remoteOfferSection (pc.trxs, [])).1 }
  | .answer | .pranswer => { pc with trxs := applyMatched pc.trxs (matchRtp pc.trxs d.sections) }
  | .rollback => pc

/-- `sdp_has_bundle` -/
def hasBundle (d : Desc) : Bool :=
  d.groups.any fun g => match g with | some v => startsWith v "BUNDLE".toList | none => false

/-- `bundle_tag_mid`: looks at the FIRST `a=group` attribute only -/
def bundleTag (d : Desc) : Option Str :=
  match d.groups with
  | some v :: _ =>
    match splitWs v with
    | t :: rest => if t = "BUNDLE".toList then rest.head? else none
    | [] => none
  | _ => none

/-- does `configure_rtp_media_transports_from_remote` reach a socket bind? (RTP mode, no local
candidates yet) -/
def rtpConfigureBinds (ts : List Trx) (d : Desc) : Bool :=
  let matched := matchRtp ts d.sections
  if matched.isEmpty then false
  else if hasBundle d then
    let byTag := match bundleTag d with
      | some mid => matched.find? (fun p => p.2.mid = mid)
      | none => none
    let primary := match byTag with | some p => some p | none => matched.head?
    match primary with
    | some p => p.2.addrAny
    | none => false
  else matched.any (fun p => p.2.addrAny)

/-- `is_client` from the value of an `a=setup` attribute -/
def roleOfSetup (v : Str) : Bool :=
  if v = "active".toList then false
  else if v = "passive".toList then true
  else if v = "actpass".toList then false
  else true

/-- the `dtls_role` block. Until the DTLS transport exists the role is derived from EVERY description that
gets this far (round-3 `fix:`; before: only while unset): direct modes are always client; WebRTC reads the
first media-level `a=setup`, else the session-level one (round-3 `fix:`). A description without any
`a=setup` keeps the role. Once the transport exists the role stays. -/
def deriveRole (pc : Pc) (d : Desc) : Option Bool :=
  if pc.dtlsRole.isSome && pc.dtlsStarted then pc.dtlsRole
  else
    let new :=
      if pc.mode = .rtp || pc.mode = .srtp then some true
      else (match d.sections.findSome? (fun s : Section => s.setup) with | some v => some v | none => d.sessSetup).map roleOfSetup
    match new with
    | some r => some r
    | none => pc.dtlsRole

/-- Rest of `set_remote_description` after the fingerprint has been cached: start the transport
(SDES-SRTP: `start_direct`), apply the sections to the transceivers, store the description,
configure the RTP media transports (RTP mode), and only then move the signaling state to `s'`
(since the round-2 `fix:` commit). The two transport steps are where a failing socket layer
surfaces — for RTP mode after everything but the state was applied. -/
def remoteTail (pc4 : Pc) (d : Desc) (s' : SigState) : Pc × Res :=
  let pc5 := applyRemote pc4 d
  let pc6 := { pc5 with rem := some d }
  if pc6.bindFails && pc6.mode = .rtp && rtpConfigureBinds pc6.trxs d then (pc6, .err .internal) else
  ({ pc6 with sig := s' }, .ok)

/-- `set_remote_description` from the state check on (`pc1` = the connection after the re-INVITE block,
`unchanged` = "a remote description exists and the media parameters did not change") -/
def remoteAfterReinvite (pc1 : Pc) (d : Desc) (fp : Option Nat) (unchanged : Bool) : Pc × Res :=
  -- the state CHECK; the transition to `s'` is made at the very end
  match remoteTransition pc1.sig d.ty with
  | .error e => (pc1, .err e)
  | .ok s' =>
  -- SDES-SRTP starts its direct transport HERE, before anything is recorded (round-3 `fix:`; before it:
  -- after the mid counter, the role and the fingerprint cache had been updated)
  if !unchanged && pc1.bindFails && pc1.mode = .srtp && d.sections.any (·.addr4) then (pc1, .err .internal) else
  -- the mid counter moves only for a description that passed the check (round-2 `fix:`)
  let pc2 := { pc1 with nextMid := bumpNextMid pc1.nextMid d.sections }
  if unchanged then ({ pc2 with sig := s', rem := some d }, .ok) else
  let pc3 := { pc2 with dtlsRole := deriveRole pc2 d }
  -- the original (late) fingerprint check is still in the code
  if fpChanged pc3 fp then (pc3, .err .invalidState) else
  remoteTail { pc3 with remoteFp := fp } d s'

def setRemote (pc : Pc) (d : Desc) : Pc × Res :=
  match validateType d.ty with
  | some e => (pc, .err e)
  | none =>
  match remoteFingerprint pc.mode d.fp with
  | .error e => (pc, .err e)
  | .ok fp =>
  -- a changed fingerprint after transport start is refused before anything is applied
  if fpChanged pc fp then (pc, .err .invalidState) else
  let changed := mediaChanged pc d
  match reinvitePhase pc d changed with
  | (pc1, some e) => (pc1, .err e)
  | (pc1, none) => remoteAfterReinvite pc1 d fp (pc.rem.isSome && !changed)

/-! ### `create_offer` / `create_answer` (effects on the connection) -/

/-- `ensure_mid` -/
def ensureMid (st : List Trx × Nat) (i : Nat) : List Trx × Nat :=
  match st.1[i]? with
  | some t =>
    match t.mid with
    | some _ => st
    | none => (modifyAt (fun t => { t with mid := some (natStr st.2) }) st.1 i, (st.2 + 1) % 65536)
  | none => st

/-- `create_offer`. `sectionBindFails` — ENVIRONMENT + CONFIGURATION: the first socket can be bound, a FURTHER one
cannot (port range exhausted), and the offer is not bundled (`LegacySip`), so every further m-line binds a
socket of its own inside the section loop — AFTER every mid was assigned. -/
def createOfferEnv (sectionBindFails : Bool) (pc : Pc) : Pc × Res :=
  if pc.sig ≠ .stable then (pc, .err .invalidState)
  else if pc.trxs.isEmpty then (pc, .err .invalidState)
  -- the direct modes bind (RTP) / gather, wait and bind (SDES-SRTP) their FIRST socket BEFORE any mid is assigned
  -- (round-2 / round-3 `fix:`)
  else if pc.bindFails && (pc.mode = .rtp || pc.mode = .srtp) then (pc, .err .internal)
  else
    let r := (List.range pc.trxs.length).foldl ensureMid (pc.trxs, pc.nextMid)
    let pc' := { pc with trxs := r.1, nextMid := r.2 }
    if sectionBindFails && (pc.mode = .rtp || pc.mode = .srtp) && pc.trxs.length > 1 then (pc', .err .internal)
    else (pc', .ok)

/-- `create_offer` when every further socket can be bound — the only environment the correspondence run has
(the other one needs exactly one free port on the host; reproduced by hand, NOTES "Known findings") -/
def createOffer (pc : Pc) : Pc × Res := createOfferEnv false pc

/-- section → transceiver matching of `build_description(Answer)`; `none` = "No transceiver found" -/
def answerOrder (ts : List Trx) : List Section → List Nat → List Nat → Option (List Nat)
  | [], _, acc => some acc.reverse
  | s :: rest, used, acc =>
    let found :=
      if !s.mid.isEmpty then findIdx (fun i t => !used.contains i && t.kind = s.kind && t.mid = some s.mid) ts
      else findIdx (fun i t => !used.contains i && t.kind = s.kind) ts
    match found with
    | some i => answerOrder ts rest (i :: used) (i :: acc)
    | none => none

def createAnswer (pc : Pc) : Pc × Res :=
  if pc.sig ≠ .haveRemoteOffer then (pc, .err .invalidState)
  else if pc.trxs.isEmpty then (pc, .err .invalidState)
  else match pc.rem with
    | none => (pc, .err .invalidState)
    | some r =>
      match answerOrder pc.trxs r.sections [] [] with
      | none => (pc, .err .internal)
      | some order =>
        if pc.bindFails && pc.bindsInline then
          -- the section loop stops at the first section: its mid is ensured, then the bind fails
          match order with
          | [] => (pc, .ok)
          | i :: _ =>
            let st := ensureMid (pc.trxs, pc.nextMid) i
            ({ pc with trxs := st.1, nextMid := st.2 }, .err .internal)
        else
          let st := order.foldl ensureMid (pc.trxs, pc.nextMid)
          ({ pc with trxs := st.1, nextMid := st.2 }, .ok)

/-! ### `close`, setup operations, the step function -/

def close (pc : Pc) : Pc :=
  if pc.peerClosed then pc else { pc with sig := .closed, peerClosed := true }

def addTransceiver (pc : Pc) (k : Kind) (d : Dir) : Pc :=
  { pc with trxs := pc.trxs ++ [{ kind := k, mid := none, dir := d, pmap := [], ext := [] }] }

inductive Call
  | createOffer
  | createAnswer
  | setLocal (d : Desc)
  | setRemote (d : Desc)
  | close
  | addTransceiver (k : Kind) (d : Dir)     -- setup
  | dtlsStarted                             -- environment: the DTLS transport came up
deriving Repr

def step (pc : Pc) : Call → Pc × Res
  | .createOffer => createOffer pc
  | .createAnswer => createAnswer pc
  | .setLocal d => setLocal pc d
  | .setRemote d => setRemote pc d
  | .close => (close pc, .ok)
  | .addTransceiver k d => (addTransceiver pc k d, .ok)
  | .dtlsStarted => ({ pc with dtlsStarted := true }, .ok)

def run (pc : Pc) (cs : List Call) : Pc := cs.foldl (fun p c => (step p c).1) pc

/-- results of the calls of a run, in order -/
def trace : Pc → List Call → List Res
  | _, [] => []
  | pc, c :: cs => (step pc c).2 :: trace (step pc c).1 cs

/-! ### the code before the `fix:` commits (kept for the witness theorems about superseded code only) -/
namespace Legacy

def localExtract (pc : Pc) (d : Desc) : Pc :=
  if d.ty = .offer then
    if pc.loc.isSome then { pc with trxs := d.sections.foldl localReofferSection pc.trxs }
    else { pc with trxs := d.sections.foldl localInitialSection pc.trxs }
  else pc

def setLocal (pc : Pc) (d : Desc) : Pc × Res :=
  match validateType d.ty with
  | some e => (pc, .err e)
  | none =>
    let pc1 := Legacy.localExtract pc d
    match localTransition pc1.sig d.ty with
    | .error e => (pc1, .err e)
    | .ok s' => ({ pc1 with sig := s', loc := some d }, .ok)

/-- the tail when the state had already been moved before it ran -/
def remoteTail (pc4 : Pc) (d : Desc) : Pc × Res :=
  if pc4.bindFails && pc4.mode = .srtp && d.sections.any (·.addr4) then (pc4, .err .internal) else
  let pc5 := applyRemote pc4 d
  let pc6 := { pc5 with rem := some d }
  if pc6.bindFails && pc6.mode = .rtp && rtpConfigureBinds pc6.trxs d then (pc6, .err .internal) else
  (pc6, .ok)

/-- `set_remote_description` before all `fix:` commits: no early fingerprint check, mid counter before
the state check, state moved before the fallible tail -/
def setRemote (pc : Pc) (d : Desc) : Pc × Res :=
  match validateType d.ty with
  | some e => (pc, .err e)
  | none =>
  match remoteFingerprint pc.mode d.fp with
  | .error e => (pc, .err e)
  | .ok fp =>
  let changed := mediaChanged pc d
  match reinvitePhase pc d changed with
  | (pc1, some e) => (pc1, .err e)
  | (pc1, none) =>
  let pc2 := { pc1 with nextMid := bumpNextMid pc1.nextMid d.sections }
  match remoteTransition pc2.sig d.ty with
  | .error e => (pc2, .err e)
  | .ok s' =>
  let pc3 := { pc2 with sig := s' }
  if pc.rem.isSome && !changed then ({ pc3 with rem := some d }, .ok) else
  let pc3 := { pc3 with dtlsRole := deriveRole pc3 d }
  if fpChanged pc3 fp then (pc3, .err .invalidState) else
  Legacy.remoteTail { pc3 with remoteFp := fp } d

/-- `create_offer` before the round-2 `fix:`: mids first, then the bind -/
def createOffer (pc : Pc) : Pc × Res :=
  if pc.sig ≠ .stable then (pc, .err .invalidState)
  else if pc.trxs.isEmpty then (pc, .err .invalidState)
  else
    let r := (List.range pc.trxs.length).foldl ensureMid (pc.trxs, pc.nextMid)
    let pc' := { pc with trxs := r.1, nextMid := r.2 }
    if pc.bindFails && pc.bindsInline then (pc', .err .internal) else (pc', .ok)

end Legacy

end RtcModel.Jsep
