/-
C14 — model of the SRTP gate of `RtpTransport` (`src/transports/rtp.rs`): every path that puts an
RTP/RTCP datagram on the wire (`send`, `send_rtp`, `send_rtcp`, `send_rtcp_sync`, the rewrite-bridge
fast path `try_bridge_rewrite_rtp`) and the receive path (`PacketReceiver::receive`), as a machine
over a *system* of transports (a source and its bridge targets).  Core Lean only.

Cryptography is symbolic: a datagram on the wire is described by *how it was produced*
(`Form.prot owner key` = output of `owner`'s `SrtpSession::protect_*` under key set `key`,
`Form.clear` = plain marshal / caller bytes) and an inbound datagram by what the session's
`unprotect_*` answers (`Wire.prot key ok`: protected under key set `key`, `ok` = tag valid and not a
replay).  Whether `protect`/`unprotect` themselves are right is C04/C05; here the question is which
branch every path takes.  Each path has its OWN copy of the gate, as in the code.

Atomicity: each gate evaluation reads the session slot once (`self.srtp_session.lock()` is taken
once per call, `srtp_required` is immutable), so interleavings of tasks are sequences of `step`s.
-/
namespace RtcModel.Gate

abbrev Tid := Nat
abbrev KeyId := Nat

inductive Media where
  | rtp | rtcp
deriving DecidableEq, Repr

/-- how an emitted datagram was produced -/
inductive Form where
  | prot (owner : Tid) (key : KeyId)
  | clear
deriving DecidableEq, Repr

/-- an inbound datagram as the gate sees it -/
inductive Wire where
  | clear                              -- well-formed RTP / RTCP, not SRTP-protected
  /-- SRTP/SRTCP under key set `key`; `ok`: tag valid and not a replay; `asClear`: the same bytes
  also pass the plain (non-SRTP) RTP / RTCP parser — what a keyless non-mandatory transport does -/
  | prot (key : KeyId) (ok : Bool) (asClear : Bool)
  | garbage                            -- does not parse as RTP / RTCP at all
deriving DecidableEq, Repr

/-- provenance of a plaintext packet inside the transport -/
inductive Prov where
  | auth (key : KeyId)                 -- came out of a successful `unprotect_*` under `key`
  | unauth                             -- parsed from the wire without authentication
deriving DecidableEq, Repr

inductive Src where
  | loc                                -- the application's own packet (send APIs)
  | relay (origin : Tid) (p : Prov)    -- an inbound packet of `origin` relayed by its bridge
deriving DecidableEq, Repr

inductive Sink where
  | listener                           -- demux listener channel → track / interceptors
  | ingressObs                         -- `RtpObserver::on_ingress`
  | rtcpListener                       -- RTCP listener channel
  | relayObs (target : Tid)            -- bridge target's `RtpObserver::on_egress`
deriving DecidableEq, Repr

inductive Ev where
  | emit (conn : Tid) (m : Media) (f : Form) (src : Src)
  | deliver (origin : Tid) (sink : Sink) (p : Prov)
  | ret (ok : Bool)
deriving DecidableEq, Repr

structure Bridge where
  target : Tid
  video  : Option Tid
deriving DecidableEq, Repr

/-- one `RtpTransport` -/
structure Tr where
  required     : Bool               -- `srtp_required` (immutable after `new`)
  keys         : Option KeyId       -- `srtp_session` slot
  bridge       : Option Bridge      -- `rewrite_bridge` / `has_bridge`
  listener     : Bool               -- a demux listener that matches the packet exists
  rtcpListener : Bool
  observer     : Bool               -- `has_observers`
deriving DecidableEq, Repr

abbrev St := Tid → Tr

def St.set (s : St) (t : Tid) (x : Tr) : St := fun i => if i = t then x else s i

/-! ### outbound gates — one copy per code path -/

/-- `send(buf)`: `let Some(session) = session else { if required { Err } else raw send }`;
with a session the bytes must parse before they are protected. -/
def sendRawGate (t : Tid) (x : Tr) (parses : Bool) : List Ev :=
  match x.keys with
  | none => if x.required then [.ret false] else [.emit t .rtp .clear .loc, .ret true]
  | some k => if parses then [.emit t .rtp (.prot t k) .loc, .ret true] else [.ret false]

/-- `send_rtp(packet)`: `match session { Some → protect, None → if required { Err } else marshal }` -/
def sendRtpGate (t : Tid) (x : Tr) : List Ev :=
  match x.keys with
  | some k => [.emit t .rtp (.prot t k) .loc, .ret true]
  | none => if x.required then [.ret false] else [.emit t .rtp .clear .loc, .ret true]

/-- `send_rtcp(packets)` -/
def sendRtcpGate (t : Tid) (x : Tr) : List Ev :=
  match x.keys with
  | some k => [.emit t .rtcp (.prot t k) .loc, .ret true]
  | none => if x.required then [.ret false] else [.emit t .rtcp .clear .loc, .ret true]

/-- `send_rtcp_sync(packets)` (close-time BYE): no return value -/
def syncByeGate (t : Tid) (x : Tr) : List Ev :=
  match x.keys with
  | some k => [.emit t .rtcp (.prot t k) .loc]
  | none => if x.required then [] else [.emit t .rtcp .clear .loc]

/-- the bridge fast path's gate, evaluated on the TARGET transport `y` (id `tgt`) -/
def bridgeGate (tgt : Tid) (y : Tr) (origin : Tid) (p : Prov) : List Ev :=
  match y.keys with
  | some k => [.emit tgt .rtp (.prot tgt k) (.relay origin p)]
  | none => if y.required then [] else [.emit tgt .rtp .clear (.relay origin p)]

/-! ### inbound gates -/

/-- RTP arm of `receive`: session → `SrtpPacket::parse` + `unprotect_rtp`; no session →
`required` ? drop : `RtpPacket::parse_bytes` -/
def recvRtpGate (x : Tr) (w : Wire) : Option Prov :=
  match x.keys with
  | some k =>
    match w with
    | .prot k' ok _ => if k' = k ∧ ok = true then some (.auth k) else none
    | .clear => none
    | .garbage => none
  | none =>
    if x.required then none
    else match w with
      | .garbage => none
      | .clear => some .unauth
      | .prot _ _ asClear => if asClear then some .unauth else none

/-- RTCP arm of `receive` -/
def recvRtcpGate (x : Tr) (w : Wire) : Option Prov :=
  match x.keys with
  | some k =>
    match w with
    | .prot k' ok _ => if k' = k ∧ ok = true then some (.auth k) else none
    | .clear => none
    | .garbage => none
  | none =>
    if x.required then none
    else match w with
      | .garbage => none
      | .clear => some .unauth
      | .prot _ _ asClear => if asClear then some .unauth else none

def Bridge.pick (b : Bridge) (video : Bool) : Tid :=
  match video, b.video with
  | true, some v => v
  | _, _ => b.target

/-- what happens to an accepted inbound RTP packet: ingress observers, then the bridge fast path
(early return) or the demux listener -/
def afterAccept (s : St) (t : Tid) (p : Prov) (video : Bool) : List Ev :=
  let x := s t
  (if x.observer then [Ev.deliver t .ingressObs p] else []) ++
  match x.bridge with
  | some b =>
    let tgt := b.pick video
    let y := s tgt
    (if y.observer then [Ev.deliver t (.relayObs tgt) p] else []) ++ bridgeGate tgt y t p
  | none => if x.listener then [.deliver t .listener p] else []

def recvRtp (s : St) (t : Tid) (w : Wire) (video : Bool) : List Ev :=
  match recvRtpGate (s t) w with
  | none => []
  | some p => afterAccept s t p video

def recvRtcp (s : St) (t : Tid) (w : Wire) : List Ev :=
  match recvRtcpGate (s t) w with
  | none => []
  | some p => if (s t).rtcpListener then [.deliver t .rtcpListener p] else []

inductive Op where
  | installKeys (t : Tid) (k : KeyId)          -- `start_srtp`
  | sendRtp (t : Tid)
  | sendRaw (t : Tid) (parses : Bool)
  | sendRtcp (t : Tid)
  | syncBye (t : Tid)
  | recvRtp (t : Tid) (w : Wire) (video : Bool)
  | recvRtcp (t : Tid) (w : Wire)
  | setBridge (t : Tid) (b : Bridge)
  | clearBridge (t : Tid)
  | close (t : Tid)                            -- `clear_listeners` then `send_rtcp_sync(BYE)`
deriving DecidableEq, Repr

def step (s : St) : Op → St × List Ev
  | .installKeys t k => (s.set t { s t with keys := some k }, [])
  | .sendRtp t => (s, sendRtpGate t (s t))
  | .sendRaw t parses => (s, sendRawGate t (s t) parses)
  | .sendRtcp t => (s, sendRtcpGate t (s t))
  | .syncBye t => (s, syncByeGate t (s t))
  | .recvRtp t w v => (s, recvRtp s t w v)
  | .recvRtcp t w => (s, recvRtcp s t w)
  | .setBridge t b => (s.set t { s t with bridge := some b }, [])
  | .clearBridge t => (s.set t { s t with bridge := none }, [])
  | .close t =>
    let x := { s t with listener := false, rtcpListener := false }
    (s.set t x, syncByeGate t x)

/-- state after a sequence of operations -/
def run (s : St) : List Op → St
  | [] => s
  | o :: os => run (step s o).1 os

/-- everything emitted / delivered during a sequence of operations, in order -/
def trace (s : St) : List Op → List Ev
  | [] => []
  | o :: os => (step s o).2 ++ trace (step s o).1 os

/-- independent bookkeeping for "the session keys": the last key set installed on `t` -/
def lastInstalled (t : Tid) (init : Option KeyId) : List Op → Option KeyId
  | [] => init
  | .installKeys t' k :: os => lastInstalled t (if t' = t then some k else init) os
  | _ :: os => lastInstalled t init os

/-! ### which transport object a media section uses, per transport mode
(`src/peer_connection.rs`: primary transport `srtp_required = transport_mode != Rtp`; extra
per-section transports are created with `srtp_required = false` and only by
`configure_rtp_media_transports_from_remote`, which runs only when `transport_mode == Rtp`). -/
inductive Mode where
  | webrtc | srtp | rtp
deriving DecidableEq, Repr

def primaryRequired (m : Mode) : Bool := m != .rtp
def extraTransportsCreated (m : Mode) : Bool := m == .rtp
def extraRequired : Bool := false

/-- `srtp_required` flags of every transport a section can be attached to in mode `m` -/
def sectionTransportFlags (m : Mode) : List Bool :=
  primaryRequired m :: (if extraTransportsCreated m then [extraRequired] else [])

end RtcModel.Gate
