/-
C14 — model of the SRTP gate of `RtpTransport` (`src/transports/rtp.rs`): every path that puts an
RTP/RTCP datagram on the wire (`send`, `send_rtp`, `send_rtcp`, `send_rtcp_sync`, the rewrite-bridge
fast path `try_bridge_rewrite_rtp`) and the receive path (`PacketReceiver::receive`), as a machine
over a *system* of transports (a source and its bridge targets).  Core Lean only.

SRTP itself is a PARAMETER of the model (`Suite`): an abstract session state with `protect_*` /
`unprotect_*` step functions that may fail, the plain parsers, and a security notion
`Authentic k w` ("`w` was produced by `protect` under key set `k`") together with LAW FIELDS —
in particular `unprotect*_sound`: a session only accepts authentic datagrams.  That law is the
named cryptographic HYPOTHESIS of every inbound theorem of C14.  What is and is not established:
* the law is NOT discharged for rustrtc's SRTP code inside this library: the only instance built is
  the symbolic `Sym` (below); `Gate.Suite` and C05's `RtcModel.Srtp.Suite` are unrelated structures and
  no glue instantiates one from the other.  The C05 theorems whose content comes closest are
  `forgery_needs_collision` / `forged_or_sent` (RTP) and `forgery_needs_collision_rtcp` /
  `forged_or_sent_rtcp` (HMAC profiles, one receive context): "an accepted datagram is bit-for-bit
  one the key holder produced, or the event `MacForged` occurred";
* `AuthenticRtp/AuthenticRtcp` are uninterpreted: the theorems say "delivered ⇒ the session's
  `unprotect_*` returned Ok ⇒ (by the law) `Authentic`", for whatever `Authentic` the instance supplies;
* the OUTBOUND side has no cryptographic content at all: `protect*` returns no datagram, and
  `Form.prot owner key` only records that the protect branch was the branch taken and returned Ok.
  That such a datagram authenticates and is encrypted is checked on the implementation by the harness
  classifier and the wire tap, not proved (a NULL-cipher suite satisfies every theorem).
The gate model never looks inside a datagram.

Each path has its OWN copy of the gate, as in the code, including the arm taken when `protect_*`
returns an error.

Atomicity: each gate evaluation reads the session slot once (`self.srtp_session.lock()` is taken
once per call), `srtp_required` is immutable, and the slot is monotone (`start_srtp` only ever
stores `Some`; nothing clears it) — so interleavings of tasks are sequences of `step`s.
-/
namespace RtcModel.Gate

abbrev Tid := Nat
abbrev KeyId := Nat

/-- SRTP as the gate sees it (`SrtpSession` of `src/srtp.rs`) -/
structure Suite where
  /-- datagrams as they arrive from the network -/
  W : Type
  /-- `SrtpSession` state (per-SSRC contexts, ROC, replay windows, SRTCP index …) -/
  Sess : Type
  /-- `SrtpSession::new` under key set `k` -/
  fresh : KeyId → Sess
  keyOf : Sess → KeyId
  /-- `protect_rtp`: new state, and whether it returned `Ok` -/
  protectRtp : Sess → Sess × Bool
  protectRtcp : Sess → Sess × Bool
  /-- `SrtpPacket::parse` + `unprotect_rtp`: new state, and whether it returned `Ok` -/
  unprotectRtp : Sess → W → Sess × Bool
  unprotectRtcp : Sess → W → Sess × Bool
  /-- `RtpPacket::parse_bytes` / `parse_rtcp_packets` succeed on the raw bytes -/
  parsesClearRtp : W → Bool
  parsesClearRtcp : W → Bool
  /-- security notion: `w` is the output of `protect_rtp` / `protect_rtcp` under key set `k` -/
  AuthenticRtp : KeyId → W → Prop
  AuthenticRtcp : KeyId → W → Prop
  keyOf_fresh : ∀ k, keyOf (fresh k) = k
  protectRtp_key : ∀ s, keyOf (protectRtp s).1 = keyOf s
  protectRtcp_key : ∀ s, keyOf (protectRtcp s).1 = keyOf s
  unprotectRtp_key : ∀ s w, keyOf (unprotectRtp s w).1 = keyOf s
  unprotectRtcp_key : ∀ s w, keyOf (unprotectRtcp s w).1 = keyOf s
  /-- NAMED HYPOTHESIS (MAC unforgeability, C05): what `unprotect_rtp` accepts is authentic -/
  unprotectRtp_sound : ∀ s w, (unprotectRtp s w).2 = true → AuthenticRtp (keyOf s) w
  unprotectRtcp_sound : ∀ s w, (unprotectRtcp s w).2 = true → AuthenticRtcp (keyOf s) w

inductive Media where
  | rtp | rtcp
deriving DecidableEq, Repr

/-- how an emitted datagram was produced -/
inductive Form where
  | prot (owner : Tid) (key : KeyId)   -- `Ok` output of `owner`'s session, keyed `key`
  | clear                              -- plain marshal / the caller's bytes
deriving DecidableEq, Repr

/-- provenance of a plaintext packet inside the transport -/
inductive Prov where
  | auth (key : KeyId)                 -- came out of a successful `unprotect_*` of a session keyed `key`
  | unauth                             -- parsed from the wire without authentication
deriving DecidableEq, Repr

inductive Src where
  | loc                                -- the application's own packet (send APIs)
  | relay (origin : Tid) (p : Prov)    -- an inbound packet of `origin` relayed by its bridge
deriving DecidableEq, Repr

inductive Sink where
  | listener                           -- demux listener channel → track / interceptors
  | ingressObs                         -- `RtpObserver::on_ingress`
  | rtcpListener                       -- RTCP listener channel
  | relayObs (target : Tid)            -- bridge target's `RtpObserver::on_egress`
deriving DecidableEq, Repr

inductive Ev where
  | emit (conn : Tid) (m : Media) (f : Form) (src : Src)
  | deliver (origin : Tid) (sink : Sink) (p : Prov)
  | ret (ok : Bool)
deriving DecidableEq, Repr

structure Bridge where
  target : Tid
  video  : Option Tid
deriving DecidableEq, Repr

section
variable (S : Suite)

/-- one `RtpTransport` -/
structure Tr where
  required     : Bool               -- `srtp_required` (immutable after `new`)
  sess         : Option S.Sess      -- `srtp_session` slot
  bridge       : Option Bridge      -- `rewrite_bridge` / `has_bridge`
  listener     : Bool               -- a demux listener that matches the packet exists
  rtcpListener : Bool
  observer     : Bool               -- `has_observers`
  absSendTime  : Bool := false      -- `abs_send_time_extension_id` is set (`set_abs_send_time_extension_id(Some(_))`)

abbrev St := Tid → Tr S

variable {S}

def St.set (s : St S) (t : Tid) (x : Tr S) : St S := fun i => if i = t then x else s i

def Tr.key (x : Tr S) : Option KeyId := x.sess.map S.keyOf

/-! ### outbound gates — one copy per code path.  Each returns the transport's new session slot
and the events. -/

/-- `send(buf)`: `let Some(session) = session else { if required { Err } else raw send }`;
with a session the bytes must parse (`RtpPacket::parse(buf)?`) and, when an abs-send-time extension id is
configured, the header must take the element (`set_extension(id, ..)?`) before they are protected (`?` on
protect too): three `Err` exits, none of which emits.  `parses` and `extOk` (does `set_extension` succeed
on this packet's header) are inputs. -/
def sendRawGate (t : Tid) (x : Tr S) (parses extOk : Bool) : Option S.Sess × List Ev :=
  match x.sess with
  | none => (none, if x.required then [.ret false] else [.emit t .rtp .clear .loc, .ret true])
  | some se =>
    if parses && (!x.absSendTime || extOk) then
      (some (S.protectRtp se).1,
       if (S.protectRtp se).2 then [.emit t .rtp (.prot t (S.keyOf se)) .loc, .ret true] else [.ret false])
    else (some se, [.ret false])

/-- `send_rtp(packet)`: `match session { Some → protect?, None → if required { Err } else marshal }` -/
def sendRtpGate (t : Tid) (x : Tr S) : Option S.Sess × List Ev :=
  match x.sess with
  | some se =>
    (some (S.protectRtp se).1,
     if (S.protectRtp se).2 then [.emit t .rtp (.prot t (S.keyOf se)) .loc, .ret true] else [.ret false])
  | none => (none, if x.required then [.ret false] else [.emit t .rtp .clear .loc, .ret true])

/-- `send_rtcp(packets)` -/
def sendRtcpGate (t : Tid) (x : Tr S) : Option S.Sess × List Ev :=
  match x.sess with
  | some se =>
    (some (S.protectRtcp se).1,
     if (S.protectRtcp se).2 then [.emit t .rtcp (.prot t (S.keyOf se)) .loc, .ret true] else [.ret false])
  | none => (none, if x.required then [.ret false] else [.emit t .rtcp .clear .loc, .ret true])

/-- `send_rtcp_sync(packets)` (close-time BYE): no return value; a protect error returns silently -/
def syncByeGate (t : Tid) (x : Tr S) : Option S.Sess × List Ev :=
  match x.sess with
  | some se =>
    (some (S.protectRtcp se).1, if (S.protectRtcp se).2 then [.emit t .rtcp (.prot t (S.keyOf se)) .loc] else [])
  | none => (none, if x.required then [] else [.emit t .rtcp .clear .loc])

/-- the bridge fast path's gate, evaluated on the TARGET transport `y` (id `tgt`):
session → protect or drop on error; no session → `required` ? drop : plain marshal -/
def bridgeGate (tgt : Tid) (y : Tr S) (origin : Tid) (p : Prov) : Option S.Sess × List Ev :=
  match y.sess with
  | some se =>
    (some (S.protectRtp se).1,
     if (S.protectRtp se).2 then [.emit tgt .rtp (.prot tgt (S.keyOf se)) (.relay origin p)] else [])
  | none => (none, if y.required then [] else [.emit tgt .rtp .clear (.relay origin p)])

/-! ### inbound gates -/

/-- RTP arm of `receive`: session → `SrtpPacket::parse` + `unprotect_rtp`; no session →
`required` ? drop : `RtpPacket::parse_bytes` -/
def recvRtpGate (x : Tr S) (w : S.W) : Option S.Sess × Option Prov :=
  match x.sess with
  | some se =>
    (some (S.unprotectRtp se w).1, if (S.unprotectRtp se w).2 then some (.auth (S.keyOf se)) else none)
  | none =>
    (none, if x.required then none else if S.parsesClearRtp w then some .unauth else none)

/-- RTCP arm of `receive` -/
def recvRtcpGate (x : Tr S) (w : S.W) : Option S.Sess × Option Prov :=
  match x.sess with
  | some se =>
    (some (S.unprotectRtcp se w).1, if (S.unprotectRtcp se w).2 then some (.auth (S.keyOf se)) else none)
  | none =>
    (none, if x.required then none else if S.parsesClearRtcp w then some .unauth else none)

def Bridge.pick (b : Bridge) (video : Bool) : Tid :=
  match video, b.video with
  | true, some v => v
  | _, _ => b.target

/-- `fire_ingress` -/
def obsEv (x : Tr S) (t : Tid) (p : Prov) : List Ev :=
  if x.observer then [Ev.deliver t .ingressObs p] else []

/-- the bridge fast path towards target `tgt`: the target's egress observers, then the target's gate;
the target's session state advances -/
def relayTo (s : St S) (t : Tid) (p : Prov) (tgt : Tid) : St S × List Ev :=
  (s.set tgt { s tgt with sess := (bridgeGate tgt (s tgt) t p).1 },
   obsEv (s t) t p ++ (if (s tgt).observer then [Ev.deliver t (.relayObs tgt) p] else []) ++
     (bridgeGate tgt (s tgt) t p).2)

/-- what happens to an accepted inbound RTP packet of transport `t` (state `s` already has `t`'s
updated session): ingress observers, then the bridge fast path (early return) or the demux listener -/
def afterAccept (s : St S) (t : Tid) (p : Prov) (video : Bool) : St S × List Ev :=
  match (s t).bridge with
  | some b => relayTo s t p (b.pick video)
  | none => (s, obsEv (s t) t p ++ if (s t).listener then [.deliver t .listener p] else [])

/-- `t`'s slot after its inbound gate ran -/
def withSess (s : St S) (t : Tid) (g : Option S.Sess) : St S := s.set t { s t with sess := g }

def recvRtp (s : St S) (t : Tid) (w : S.W) (video : Bool) : St S × List Ev :=
  match (recvRtpGate (s t) w).2 with
  | none => (withSess s t (recvRtpGate (s t) w).1, [])
  | some p => afterAccept (withSess s t (recvRtpGate (s t) w).1) t p video

def recvRtcp (s : St S) (t : Tid) (w : S.W) : St S × List Ev :=
  match (recvRtcpGate (s t) w).2 with
  | none => (withSess s t (recvRtcpGate (s t) w).1, [])
  | some p => (withSess s t (recvRtcpGate (s t) w).1,
               if (s t).rtcpListener then [.deliver t .rtcpListener p] else [])

end

inductive Op (S : Suite) where
  | installKeys (t : Tid) (k : KeyId)          -- `start_srtp(SrtpSession::new(..k..))`
  | sendRtp (t : Tid)
  | sendRaw (t : Tid) (parses extOk : Bool)
  | sendRtcp (t : Tid)
  | syncBye (t : Tid)
  | recvRtp (t : Tid) (w : S.W) (video : Bool)
  | recvRtcp (t : Tid) (w : S.W)
  | setBridge (t : Tid) (b : Bridge)
  | clearBridge (t : Tid)
  | close (t : Tid)                            -- `clear_listeners` then `send_rtcp_sync(BYE)`
  /-- (re-)registration of listeners / RTCP listener / observers at any moment -/
  | setFlags (t : Tid) (listener rtcpListener observer : Bool)
  /-- `set_abs_send_time_extension_id(Some(_) / None)` -/
  | setAbsSendTime (t : Tid) (on : Bool)

variable {S : Suite}

/-- `clear_listeners` -/
def closed (x : Tr S) : Tr S := { x with listener := false, rtcpListener := false }

/-- apply an own-slot gate result -/
def own (s : St S) (t : Tid) (g : Option S.Sess × List Ev) : St S × List Ev :=
  (withSess s t g.1, g.2)

def step (s : St S) : Op S → St S × List Ev
  | .installKeys t k => (s.set t { s t with sess := some (S.fresh k) }, [])
  | .sendRtp t => own s t (sendRtpGate t (s t))
  | .sendRaw t parses extOk => own s t (sendRawGate t (s t) parses extOk)
  | .sendRtcp t => own s t (sendRtcpGate t (s t))
  | .syncBye t => own s t (syncByeGate t (s t))
  | .recvRtp t w v => recvRtp s t w v
  | .recvRtcp t w => recvRtcp s t w
  | .setBridge t b => (s.set t { s t with bridge := some b }, [])
  | .clearBridge t => (s.set t { s t with bridge := none }, [])
  | .close t => own (s.set t (closed (s t))) t (syncByeGate t (closed (s t)))
  | .setFlags t l r o => (s.set t { s t with listener := l, rtcpListener := r, observer := o }, [])
  | .setAbsSendTime t on => (s.set t { s t with absSendTime := on }, [])

/-- state after a sequence of operations -/
def run (s : St S) : List (Op S) → St S
  | [] => s
  | o :: os => run (step s o).1 os

/-- everything emitted / delivered during a sequence of operations, in order -/
def trace (s : St S) : List (Op S) → List Ev
  | [] => []
  | o :: os => (step s o).2 ++ trace (step s o).1 os

/-- independent bookkeeping for "the session keys": the last key set installed on `t` -/
def lastInstalled (t : Tid) (init : Option KeyId) : List (Op S) → Option KeyId
  | [] => init
  | .installKeys t' k :: os => lastInstalled t (if t' = t then some k else init) os
  | _ :: os => lastInstalled t init os

/-! ### which transport object a media section uses, per transport mode
(`src/peer_connection.rs`: primary transport `srtp_required = transport_mode != Rtp`; extra
per-section transports are created with `srtp_required = false`, by `create_offer` and by
`configure_rtp_media_transports_from_remote`, both only when `transport_mode == Rtp`).
This table is compared with the transports real `PeerConnection`s create (`mode` stream). -/
inductive Mode where
  | webrtc | srtp | rtp
deriving DecidableEq, Repr

def primaryRequired (m : Mode) : Bool := m != .rtp
def extraTransportsCreated (m : Mode) : Bool := m == .rtp
def extraRequired : Bool := false

/-- `srtp_required` flags of every transport a section can be attached to in mode `m` -/
def sectionTransportFlags (m : Mode) : List Bool :=
  primaryRequired m :: (if extraTransportsCreated m then [extraRequired] else [])

/-! ### the symbolic suite the driver runs (and the non-vacuity examples use) -/

/-- an inbound datagram, symbolically -/
inductive Wire where
  | clear                              -- well-formed RTP / RTCP, not SRTP-protected
  /-- SRTP/SRTCP under key set `key`; `ok`: tag valid and not a replay; `asClear`: the same bytes
  also pass the plain (non-SRTP) RTP / RTCP parser — what a keyless non-mandatory transport does -/
  | prot (key : KeyId) (ok : Bool) (asClear : Bool)
  | garbage                            -- does not parse as RTP / RTCP at all
deriving DecidableEq, Repr

/-- a session whose key material is unusable (`SrtpContext::new` fails on every packet) is `broken` -/
structure SymSess where
  key    : KeyId
  broken : Bool
deriving DecidableEq, Repr

def symAccepts (s : SymSess) : Wire → Bool
  | .prot k ok _ => !s.broken && k == s.key && ok
  | _ => false

def symParses : Wire → Bool
  | .clear => true
  | .prot _ _ a => a
  | .garbage => false

/-- key ids `≡ 5 (mod 10)` stand for unusable key material -/
def Sym : Suite where
  W := Wire
  Sess := SymSess
  fresh k := { key := k, broken := k % 10 == 5 }
  keyOf s := s.key
  protectRtp s := (s, !s.broken)
  protectRtcp s := (s, !s.broken)
  unprotectRtp s w := (s, symAccepts s w)
  unprotectRtcp s w := (s, symAccepts s w)
  parsesClearRtp := symParses
  parsesClearRtcp := symParses
  AuthenticRtp k w := ∃ a, w = .prot k true a
  AuthenticRtcp k w := ∃ a, w = .prot k true a
  keyOf_fresh _ := rfl
  protectRtp_key _ := rfl
  protectRtcp_key _ := rfl
  unprotectRtp_key _ _ := rfl
  unprotectRtcp_key _ _ := rfl
  unprotectRtp_sound s w h := by
    cases w <;> simp [symAccepts] at h
    obtain ⟨⟨_, rfl⟩, rfl⟩ := h; exact ⟨_, rfl⟩
  unprotectRtcp_sound s w h := by
    cases w <;> simp [symAccepts] at h
    obtain ⟨⟨_, rfl⟩, rfl⟩ := h; exact ⟨_, rfl⟩

end RtcModel.Gate
