/-
Model of the sending side of `src/transports/sctp.rs`: `transmit` (effective window, retransmit
phase first, "pop while budget > 0" for new data, TSN assignment), the T3 marking of
`handle_timeout`, the tail-loss probe of `maybe_send_tlp_probe`.  Core Lean only.
-/
import RtcModel.SctpSack
import RtcModel.SctpWire
import RtcModel.SctpFrag

namespace RtcModel.Sctp
open RtcModel.Generated

/-- wire size `transmit` charges for a queued chunk: chunk header + DATA header + payload, padded -/
def paddedSize (payloadLen : Nat) : Nat :=
  let w := sctpChunkHdr + sctpDataHdr + payloadLen
  w + pad4 w

/-- `burst_limit` -/
def burstLimit (maxBurstPackets : Nat) : Nat :=
  if maxBurstPackets > 0 then maxBurstPackets * sctpMaxPacket else 4 * sctpMaxPacket

/-- `effective_window = min(min(flight + burst_limit, cwnd), rwnd)`, or 1 for the zero-window probe -/
def effectiveWindow (cwnd flight rwnd maxBurstPackets : Nat) : Nat :=
  -- zero-window probe (RFC 4960 §6.1 A): closed window, nothing in flight ⇒ room for one chunk
  if rwnd = 0 ∧ flight = 0 then 1
  else min (min (flight + burstLimit maxBurstPackets) cwnd) rwnd

/-- the `while budget > 0 && batch.len() < 1000` drain of the outbound queue: (batch, rest) -/
def popBudget : List OChunk → Nat → Nat → List OChunk × List OChunk
  | [], _, _ => ([], [])
  | c :: rest, budget, cnt =>
    if budget > 0 && cnt < 1000 then
      let r := popBudget rest (budget - paddedSize c.payload.length) (cnt + 1)
      (c :: r.1, r.2)
    else ([], c :: rest)

structure Tx where
  sentQ    : List SRec := []
  outQ     : List OChunk := []
  flight   : Nat := 0
  cwnd     : Nat := 0
  peerRwnd : Nat := 0
  nextTsn  : UInt32 := 0
  maxBurst : Nat := 0
  windowLimited : Bool := false
deriving DecidableEq, Repr, Inhabited

/-- what a `transmit()` call puts on the wire, in order -/
inductive TxItem where
  | sack
  | rexmit (tsn : UInt32) (len : Nat)
  | fresh (c : DChunk)
deriving DecidableEq, Repr, Inhabited

/-- retransmit phase: every record with `needs_retransmit`, in key order -/
def rexmitPhase : List SRec → Nat → Nat → List SRec × Nat × List TxItem
  | [], flight, _ => ([], flight, [])
  | r :: rest, flight, now =>
    if r.needsRetransmit && r.acked then
      -- marked by T3 / TLP and gap-acked since: the mark is dropped, nothing is sent
      let x := rexmitPhase rest flight now
      ({ r with needsRetransmit := false } :: x.1, x.2.1, x.2.2)
    else if r.needsRetransmit then
      let fl := if r.inFlight then flight else flight + r.len
      let x := rexmitPhase rest fl now
      ({ r with inFlight := true, needsRetransmit := false, sentMs := now } :: x.1, x.2.1,
        TxItem.rexmit r.tsn r.len :: x.2.2)
    else
      let x := rexmitPhase rest flight now
      (r :: x.1, x.2.1, x.2.2)

def recOf (now : Nat) (c : DChunk) (o : OChunk) : SRec :=
  { tsn := c.tsn, len := (encData c).length, sentMs := now, sid := o.sid, ssn := o.ssn, flags := o.flags,
    maxRetransmits := o.maxRetransmits, hasExpiry := o.hasExpiry }

/-- insert into the queue kept in numeric key order (`BTreeMap::insert`) -/
def insRec (r : SRec) : List SRec → List SRec
  | [] => [r]
  | x :: xs =>
    if r.tsn.toNat < x.tsn.toNat then r :: x :: xs
    else if r.tsn == x.tsn then r :: xs
    else x :: insRec r xs

/-- `transmit()` (without the PR-SCTP FORWARD-TSN tail) -/
def transmit (s : Tx) (sackNeeded : Bool) (now : Nat) : Tx × List TxItem :=
  let eff := effectiveWindow s.cwnd s.flight s.peerRwnd s.maxBurst
  let rp := rexmitPhase s.sentQ s.flight now
  let available := eff - rp.2.1
  let pb := popBudget s.outQ available 0
  let fresh := assignTsn s.nextTsn pb.1
  let recs := (fresh.zip pb.1).map (fun p => recOf now p.1 p.2)
  let q := recs.foldl (fun q r => insRec r q) rp.1
  let fl := rp.2.1 + (recs.map (·.len)).sum
  ({ s with sentQ := q, outQ := pb.2, flight := fl, nextTsn := s.nextTsn + UInt32.ofNat pb.1.length,
            windowLimited := !pb.2.isEmpty || pb.1.length ≥ 1000 },
   (if sackNeeded then [TxItem.sack] else []) ++ rp.2.2 ++ fresh.map TxItem.fresh)

/-! ### T3 -/

/-- the marking loop of `handle_timeout` once a T3 expiry was detected -/
def t3Mark (now maxTsnRetransmits : Nat) : List SRec → Nat → List SRec
  | [], _ => []
  | r :: rest, count =>
    if !r.acked && !r.abandoned then
      let r1 := { r with inFlight := false }
      let isPr := r.maxRetransmits.isSome || r.hasExpiry
      if isPr && r.transmitCount ≥ maxTsnRetransmits then
        { r1 with abandoned := true } :: t3Mark now maxTsnRetransmits rest count
      else if count < sctpRetransmitBurst then
        { r1 with needsRetransmit := true, transmitCount := r.transmitCount + 1, sentMs := now } ::
          t3Mark now maxTsnRetransmits rest (count + 1)
      else { r1 with sentMs := now } :: t3Mark now maxTsnRetransmits rest count
    else r :: t3Mark now maxTsnRetransmits rest count

/-- `handle_timeout` after expiry: marking, `flight_size := 0`, window collapse
(`ssthresh = max(cwnd/2, 4·MTU)`, `cwnd = max(ssthresh, CWND_MIN_AFTER_RTO)` = `ssthresh`) -/
def t3Fire (s : Tx) (now maxTsnRetransmits : Nat) : Tx :=
  { s with sentQ := t3Mark now maxTsnRetransmits s.sentQ 0, flight := 0,
           cwnd := max (max (s.cwnd / 2) (4 * sctpMaxPacket)) (4 * sctpMaxPacket) }

/-- `handle_timeout`: fires only if some unacknowledged, non-abandoned record is older than the RTO -/
def handleTimeout (s : Tx) (now rto maxTsnRetransmits : Nat) : Tx :=
  if s.sentQ.any (fun r => !r.acked && !r.abandoned && now ≥ r.sentMs + rto) then t3Fire s now maxTsnRetransmits
  else s

/-- last record (highest key) that is neither acked nor abandoned: `iter().rev().find(..)` -/
def tlpTail (q : List SRec) : Option UInt32 :=
  (q.reverse.find? (fun r => !r.acked && !r.abandoned)).map (·.tsn)

/-- `maybe_send_tlp_probe` when no probe is outstanding: the tail record is marked for one
retransmission and counted in flight -/
def tlpProbe (s : Tx) (now : Nat) : Tx :=
  match tlpTail s.sentQ with
  | none => s
  | some t =>
    let fl := match s.sentQ.find? (fun r => r.tsn == t) with
      | some r => if r.inFlight then s.flight else s.flight + r.len
      | none => s.flight
    { s with flight := fl,
             sentQ := s.sentQ.map (fun r => if r.tsn == t then
               { r with needsRetransmit := true, transmitCount := r.transmitCount + 1, sentMs := now, inFlight := true } else r) }

/-! ### PR-SCTP on the sending side: abandonment, the advanced peer ack point, FORWARD-TSN -/

/-- `should_abandon` (`expired` = TSNs of the records whose lifetime has run out — the clock is an input) -/
def shouldAbandon (expired : List UInt32) (r : SRec) : Bool :=
  r.abandoned ||
  (match r.maxRetransmits with
   | some m => decide (r.transmitCount > m.toNat)
   | none => false) ||
  (r.hasExpiry && expired.contains r.tsn)

/-- first pass of `update_advanced_peer_ack_point`: the `(stream, ssn)` keys of the records that are to
be abandoned -/
def abandonSet (expired : List UInt32) (q : List SRec) : List (UInt16 × UInt16) :=
  (q.filter (fun r => !r.acked && !r.abandoned && shouldAbandon expired r)).map (fun r => (r.sid, r.ssn))

/-- second pass: every *partially reliable* record carrying one of those keys is abandoned — acked
ones included, and for an unordered channel (SSN always 0) every PR record of the stream -/
def abandonMark (set : List (UInt16 × UInt16)) : List SRec → Nat → List SRec × Nat
  | [], flight => ([], flight)
  | r :: rest, flight =>
    -- only records that are partially reliable themselves (fix: the DCEP OPEN / ACK share SSN 0 with the first message)
    if (r.maxRetransmits.isSome || r.hasExpiry) && set.contains (r.sid, r.ssn) then
      let x := abandonMark set rest (if r.inFlight then flight - r.len else flight)
      ({ r with abandoned := true, needsRetransmit := false, inFlight := false } :: x.1, x.2)
    else
      let x := abandonMark set rest flight
      (r :: x.1, x.2)

/-- the `for tsn in tsns` walk (keys in the map's *numeric* order): (new advanced point, moved?) -/
def advanceWalk : List SRec → UInt32 → Bool → UInt32 × Bool
  | [], adv, has => (adv, has)
  | r :: rest, adv, has =>
    if !tsnGt r.tsn adv && r.tsn != adv + 1 then advanceWalk rest adv has
    else if r.tsn != adv + 1 then (adv, has)
    else if r.abandoned then advanceWalk rest r.tsn true
    else (adv, has)

/-- per stream the SSN a FORWARD-TSN reports: `if ssn_gt(r.ssn, e) || e == 0 { e = r.ssn }` over the
removed abandoned records in key order -/
def fwdPairs : List SRec → List (UInt16 × UInt16) → List (UInt16 × UInt16)
  | [], acc => acc
  | r :: rest, acc =>
    let e := match acc.find? (fun p => p.1 == r.sid) with
      | some p => p.2
      | none => 0
    let e' := if ssnGt r.ssn e || e == 0 then r.ssn else e
    fwdPairs rest ((r.sid, e') :: acc.filter (fun p => p.1 != r.sid))

structure PrOut where
  sentQ    : List SRec
  flight   : Nat
  advanced : UInt32
  pending  : Bool
  /-- `forward_tsn_streams` (a HashMap in the code: compared as a set) -/
  pairs    : List (UInt16 × UInt16)
deriving DecidableEq, Repr, Inhabited

/-- `update_advanced_peer_ack_point` -/
def updateAdvanced (expired : List UInt32) (q : List SRec) (flight : Nat) (advanced lastSacked : UInt32)
    (pending : Bool) (pairs : List (UInt16 × UInt16)) : PrOut :=
  let m := abandonMark (abandonSet expired q) q flight
  let adv0 := if tsnGt lastSacked advanced then lastSacked else advanced
  let w := advanceWalk m.1 adv0 false
  if w.2 && tsnGt w.1 adv0 then
    let removed := m.1.filter (fun r => !tsnGt r.tsn w.1)
    { sentQ := m.1.filter (fun r => tsnGt r.tsn w.1), flight := m.2, advanced := w.1, pending := true,
      pairs := fwdPairs (removed.filter (·.abandoned)) [] }
  else { sentQ := m.1, flight := m.2, advanced := advanced, pending := pending, pairs := pairs }

/-- `create_forward_tsn_chunk` (the chunk, or nothing when the peer already acknowledged that far) -/
def encForwardTsn (advanced lastSacked : UInt32) (pairs : List (UInt16 × UInt16)) : Option Bytes :=
  if tsnGt advanced lastSacked then
    some (encChunk (UInt8.ofNat ctForwardTsn) 0 (be32 advanced ++ (pairs.map (fun p => be16 p.1 ++ be16 p.2)).flatten))
  else none

/-! ### handle_sack (the sender's bookkeeping around `apply_sack_to_sent_queue`) -/

/-- `sack_sig`: 64-bit signature of (cumulative TSN, gap blocks); a SACK with the signature of the
previous one does not count missing reports again -/
def sackSig (cum : UInt32) (gaps : List (UInt16 × UInt16)) : UInt64 :=
  gaps.foldl (fun (sig : UInt64) g =>
      sig * (0x9E3779B185EBCA87 : UInt64) + (((g.1.toUInt64 <<< (16 : UInt64)) ||| g.2.toUInt64) ^^^ (sig >>> (32 : UInt64))))
    (cum.toUInt64 <<< (32 : UInt64))

/-- what the sender remembers of earlier SACKs: `peer_cumulative_ack`, `last_sack_sig` -/
structure SackHist where
  peerCumAck : UInt32 := 0
  lastSig    : UInt64 := 0
deriving DecidableEq, Repr, Inhabited

/-- `handle_sack` on a sender with an empty outbound queue (congestion-window arithmetic left out:
it only decides how much *new* data the closing `transmit()` may take).  The SACK is applied with
**its own** cumulative TSN — gap-block offsets are relative to it — whether or not a newer SACK
was seen before; only `a_rwnd` of an overtaken SACK is ignored. -/
def handleSackTx (s : Tx) (h : SackHist) (cum : UInt32) (arwnd : Nat) (gaps : List (UInt16 × UInt16))
    (now maxTsnRetransmits : Nat) : Tx × SackHist × List TxItem :=
  let rw := if tsnGt h.peerCumAck cum then s.peerRwnd else arwnd
  let pc := if tsnGt cum h.peerCumAck then cum else h.peerCumAck
  let sig := sackSig cum gaps
  let r := applySack s.sentQ cum gaps now (sig != h.lastSig) maxTsnRetransmits
  let t := transmit { s with sentQ := r.1, peerRwnd := rw, flight := s.flight - r.2.flightReduction } false now
  (t.1, { peerCumAck := pc, lastSig := sig }, t.2)

end RtcModel.Sctp
