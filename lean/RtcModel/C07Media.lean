/-
C07 — totality models of `H264Depacketizer::push` (src/media/depacketizer.rs:78-245; Single NAL, STAP-A, FU-A with
its reassembly state) and of the UDPTL datagram parse of `UdtlTransport::recv` + first delivery
(src/transports/udptl.rs:118-167, 236-262 on a fresh `UdtlReceiveBuffer`).
-/
import RtcModel.Base.C07Cursor
import RtcModel.Generated.Consts
namespace RtcModel.C07.Media
open RtcModel.C07 RtcModel.Generated

structure H264St where
  fua : Array UInt8 := #[]
  hasLast : Bool := false
  lastSeq : Nat := 0
  curTs : Nat := 0

/-- bytes the code allocates per emitted `MediaSample` (the sample itself in the `Vec`, plus the CSRC vector cloned
twice; the harness reports the real `size_of::<MediaSample>()`) -/
def szSample : Nat := 512

/-- one sample digest: `[data len, fold(data), timestamp, is_last]` -/
def sample (d : Array UInt8) (ts : Nat) (last : Bool) : List Nat := [d.size, foldA d, ts, if last then 1 else 0]

/-- STAP-A walk; state = (offset, samples reversed) -/
def stapBody (data : Array UInt8) (ts : Nat) (marker : Bool) (s : Nat × List (List Nat)) :
    Cur ((Nat × List (List Nat)) ⊕ List (List Nat)) := do
  let len := data.size
  if ¬ (s.1 + 2 < len) then pure (.inr s.2.reverse) else
  let nalLen ← be16 data s.1
  let offset := s.1 + 2
  if offset + nalLen > len then pure (.inr s.2.reverse) else
  let nal ← slice data offset (offset + nalLen)
  let offset := offset + nalLen
  alloc szSample
  pure (.inl (offset, sample nal ts (offset = len ∧ marker) :: s.2))

/-- `H264Depacketizer::push(packet, _, _, MediaKind::Video)` -/
def h264Push (st : H264St) (seq ts : Nat) (marker : Bool) (payload : Array UInt8) : Cur (List (List Nat) × H264St) := do
  if payload.size = 0 then
    alloc szSample
    pure ([[0, 7, ts, 2]], st)                           -- passed through as `from_rtp_packet`
  else
  let header ← idx payload 0
  let nalType := header % 32
  if nalType = 24 then
    let r ← loopM (stapBody payload ts marker) (payload.size + 1) (1, [])
    pure (r, st)
  else if nalType = 28 then
    if payload.size < 2 then pure ([], st) else
    let fu ← idx payload 1
    let sBit := fu / 128 % 2 = 1
    let eBit := fu / 64 % 2 = 1
    if sBit then
      let rest ← slice payload 2 payload.size
      alloc (1 + rest.size)
      let hdr := (header / 32 % 4) * 32 + fu % 32
      pure ([], { fua := #[UInt8.ofNat hdr] ++ rest, hasLast := true, lastSeq := seq, curTs := ts })
    else
      if ¬ st.hasLast then pure ([], st) else
      if seq ≠ (st.lastSeq + 1) % 65536 then pure ([], { st with fua := #[], hasLast := false }) else
      if ts ≠ st.curTs then pure ([], { st with fua := #[], hasLast := false }) else
      let rest ← slice payload 2 payload.size
      alloc rest.size
      let buf := st.fua ++ rest
      if eBit then
        alloc (buf.size + szSample)
        pure ([sample buf st.curTs marker], { st with fua := #[], hasLast := false, lastSeq := seq })
      else pure ([], { st with fua := buf, lastSeq := seq })
  else
    alloc szSample
    pure ([sample payload ts marker], st)

/-- run a packet sequence through one depacketizer; packets = (seq, ts, marker, payload) -/
def h264Run : H264St → List (Nat × Nat × Bool × Array UInt8) → Cur (List (List (List Nat)))
  | _, [] => pure []
  | st, p :: rest => do
    let r ← h264Push st p.1 p.2.1 p.2.2.1 p.2.2.2
    let more ← h264Run r.2 rest
    pure (r.1 :: more)

/-! ### UDPTL -/

/-- redundant IFP entries; state = (pos, count) -/
def udptlRedBody (buf : Array UInt8) (s : Nat × Nat) : Cur ((Nat × Nat) ⊕ Nat) := do
  let n := buf.size
  if ¬ (s.1 + 2 ≤ n) then pure (.inr s.2) else
  let rLen ← be16 buf s.1
  let pos := s.1 + 2
  if pos + rLen > n then pure (.inr s.2) else
  let _ ← slice buf pos (pos + rLen)
  alloc (rLen + 32)
  pure (.inl (pos + rLen, s.2 + 1))

/-- datagram parse of `UdtlTransport::recv` + `try_deliver` on a fresh buffer (`expected_seq = 1`):
`[]` = `Ok(None)`, else `[len, fold(primary)]` -/
def udptlRecv (buf : Array UInt8) : Cur (List Nat) := do
  alloc c07UdptlMaxDatagram                               -- `vec![0u8; self.config.max_datagram]`
  let n := buf.size
  if n < 2 then pure [] else
  let seq ← be16 buf 0
  if 2 + 2 > n then pure [] else
  let pLen ← be16 buf 2
  if 4 + pLen > n then pure [] else
  let primary ← slice buf 4 (4 + pLen)
  alloc pLen
  let _nred ← loopM (udptlRedBody buf) (n + 1) (4 + pLen, 0)
  if seq = 1 then pure [pLen, foldA primary] else pure []

/-! ### UDPTL receive buffer (`UdtlReceiveBuffer::try_deliver` and helpers, udptl.rs:236-300) — whole histories -/

structure UBuf where
  expected : Nat := 1                       -- u16
  buffer : List (Nat × Nat) := []           -- BTreeMap<u16, Vec<u8>> as (seq, payload length)
  maxSize : Nat := 128
  received : Nat := 0
  lost : Nat := 0
  recovered : Nat := 0

def UBuf.remove (u : UBuf) (k : Nat) : UBuf := { u with buffer := u.buffer.filter (fun e => decide (e.1 ≠ k)) }
def UBuf.has (u : UBuf) (k : Nat) : Bool := u.buffer.any (fun e => decide (e.1 = k))
/-- `if (buffer.len() as u16) < max_size { buffer.insert(seq, primary) }` -/
def UBuf.bufferedInsert (u : UBuf) (seq len : Nat) : UBuf :=
  if u.buffer.length % 65536 < u.maxSize then { u with buffer := (seq, len) :: (u.remove seq).buffer } else u
/-- `buffer.remove(&expected)` hit: advance -/
def UBuf.popExpected (u : UBuf) : UBuf :=
  { (u.remove u.expected) with expected := (u.expected + 1) % 65536, recovered := u.recovered + 1 }
def UBuf.get (u : UBuf) (k : Nat) : Nat := ((u.buffer.find? (·.1 = k)).map (·.2)).getD 0

/-- `while self.buffer.remove(&self.expected_seq).is_some() { expected += 1; recovered += 1 }` -/
def flushContiguousBody (u : UBuf) : Cur (UBuf ⊕ UBuf) :=
  if u.has u.expected then
    pure (.inl u.popExpected)
  else pure (.inr u)

def flushContiguous (u : UBuf) : Cur UBuf := loopM flushContiguousBody (u.buffer.length + 1) u

/-- `cleanup_stale`: drop entries `≥ expected` whose wrapped gap is in `[32, 32768)` -/
def cleanupStale (u : UBuf) : UBuf :=
  let stale := u.buffer.filter fun e => e.1 ≥ u.expected ∧ (e.1 + 65536 - u.expected) % 65536 ≥ 32 ∧ (e.1 + 65536 - u.expected) % 65536 < 32768
  { u with buffer := u.buffer.filter (fun e => ¬ stale.any (·.1 = e.1)), lost := u.lost + stale.length }

/-- `try_deliver(seq, primary, _)`; result `none` or `some len` -/
def tryDeliver (u : UBuf) (seq len : Nat) : Cur (Option Nat × UBuf) := do
  let u : UBuf := { u with received := u.received + 1 }
  if seq < u.expected ∧ (u.expected + 65536 - seq) % 65536 < 16384 then pure (none, u) else
  if seq = u.expected then
    let u ← flushContiguous { u with expected := (u.expected + 1) % 65536 }
    pure (some len, cleanupStale u)
  else if seq > u.expected then
    let u := u.bufferedInsert seq len
    if u.has u.expected then
      let d := u.get u.expected
      let u ← flushContiguous u.popExpected
      pure (some d, u)
    else pure (none, u)
  else pure (none, u)

/-- a whole history of `(seq, len)` deliveries; digest per step `[result+1 or 0, expected, buffered, lost, recovered]` -/
def deliverRun : UBuf → List (Nat × Nat) → Cur (List (List Nat))
  | _, [] => pure []
  | u, p :: rest => do
    let r ← tryDeliver u p.1 p.2
    let more ← deliverRun r.2 rest
    pure ([match r.1 with | none => 0 | some l => l + 1, r.2.expected, r.2.buffer.length, r.2.lost, r.2.recovered] :: more)

end RtcModel.C07.Media
