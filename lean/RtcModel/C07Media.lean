/-
C07 — totality models of `H264Depacketizer::push` (src/media/depacketizer.rs:78-245; Single NAL, STAP-A, FU-A with
its reassembly state) and of the UDPTL datagram parse of `UdtlTransport::recv` + first delivery
(src/transports/udptl.rs:118-167, 236-262 on a fresh `UdtlReceiveBuffer`).
-/
import RtcModel.Base.C07Cursor
namespace RtcModel.C07.Media
open RtcModel.C07

structure H264St where
  fua : Array UInt8 := #[]
  hasLast : Bool := false
  lastSeq : Nat := 0
  curTs : Nat := 0

/-- bytes the code allocates per emitted `MediaSample` (the sample itself in the `Vec`, plus the CSRC vector cloned
twice; the harness reports the real `size_of::<MediaSample>()`) -/
def szSample : Nat := 512

/-- one sample digest: `[data len, fold(data), timestamp, is_last]` -/
def sample (d : Array UInt8) (ts : Nat) (last : Bool) : List Nat := [d.size, foldA d, ts, if last then 1 else 0]

/-- STAP-A walk; state = (offset, samples reversed) -/
def stapBody (data : Array UInt8) (ts : Nat) (marker : Bool) (s : Nat × List (List Nat)) :
    Cur ((Nat × List (List Nat)) ⊕ List (List Nat)) := do
  let len := data.size
  if ¬ (s.1 + 2 < len) then pure (.inr s.2.reverse) else
  let nalLen ← be16 data s.1
  let offset := s.1 + 2
  if offset + nalLen > len then pure (.inr s.2.reverse) else
  let nal ← slice data offset (offset + nalLen)
  let offset := offset + nalLen
  alloc szSample
  pure (.inl (offset, sample nal ts (offset = len ∧ marker) :: s.2))

/-- `H264Depacketizer::push(packet, _, _, MediaKind::Video)` -/
def h264Push (st : H264St) (seq ts : Nat) (marker : Bool) (payload : Array UInt8) : Cur (List (List Nat) × H264St) := do
  if payload.size = 0 then
    alloc szSample
    pure ([[0, 7, ts, 2]], st)                           -- passed through as `from_rtp_packet`
  else
  let header ← idx payload 0
  let nalType := header % 32
  if nalType = 24 then
    let r ← loopM (stapBody payload ts marker) (payload.size + 1) (1, [])
    pure (r, st)
  else if nalType = 28 then
    if payload.size < 2 then pure ([], st) else
    let fu ← idx payload 1
    let sBit := fu / 128 % 2 = 1
    let eBit := fu / 64 % 2 = 1
    if sBit then
      let rest ← slice payload 2 payload.size
      alloc (1 + rest.size)
      let hdr := (header / 32 % 4) * 32 + fu % 32
      pure ([], { fua := #[UInt8.ofNat hdr] ++ rest, hasLast := true, lastSeq := seq, curTs := ts })
    else
      if ¬ st.hasLast then pure ([], st) else
      if seq ≠ (st.lastSeq + 1) % 65536 then pure ([], { st with fua := #[], hasLast := false }) else
      if ts ≠ st.curTs then pure ([], { st with fua := #[], hasLast := false }) else
      let rest ← slice payload 2 payload.size
      alloc rest.size
      let buf := st.fua ++ rest
      if eBit then
        alloc (buf.size + szSample)
        pure ([sample buf st.curTs marker], { st with fua := #[], hasLast := false, lastSeq := seq })
      else pure ([], { st with fua := buf, lastSeq := seq })
  else
    alloc szSample
    pure ([sample payload ts marker], st)

/-- run a packet sequence through one depacketizer; packets = (seq, ts, marker, payload) -/
def h264Run : H264St → List (Nat × Nat × Bool × Array UInt8) → Cur (List (List (List Nat)))
  | _, [] => pure []
  | st, p :: rest => do
    let r ← h264Push st p.1 p.2.1 p.2.2.1 p.2.2.2
    let more ← h264Run r.2 rest
    pure (r.1 :: more)

/-! ### UDPTL -/

/-- redundant IFP entries; state = (pos, count) -/
def udptlRedBody (buf : Array UInt8) (s : Nat × Nat) : Cur ((Nat × Nat) ⊕ Nat) := do
  let n := buf.size
  if ¬ (s.1 + 2 ≤ n) then pure (.inr s.2) else
  let rLen ← be16 buf s.1
  let pos := s.1 + 2
  if pos + rLen > n then pure (.inr s.2) else
  let _ ← slice buf pos (pos + rLen)
  alloc (rLen + 32)
  pure (.inl (pos + rLen, s.2 + 1))

/-- datagram parse of `UdtlTransport::recv` + `try_deliver` on a fresh buffer (`expected_seq = 1`):
`[]` = `Ok(None)`, else `[len, fold(primary)]` -/
def udptlRecv (buf : Array UInt8) : Cur (List Nat) := do
  let n := buf.size
  if n < 2 then pure [] else
  let seq ← be16 buf 0
  if 2 + 2 > n then pure [] else
  let pLen ← be16 buf 2
  if 4 + pLen > n then pure [] else
  let primary ← slice buf 4 (4 + pLen)
  alloc pLen
  let _nred ← loopM (udptlRedBody buf) (n + 1) (4 + pLen, 0)
  if seq = 1 then pure [pLen, foldA primary] else pure []

end RtcModel.C07.Media
