/-
Model of the fingerprint text handling (C02): `normalize_fingerprint_value` (`src/sdp.rs`) and the
formatting in `fingerprint_from_der` (`src/transports/dtls/mod.rs`).  Core Lean only.

The Rust code works on `char`s of a `&str`; every test it makes (ASCII whitespace, ':', ASCII hex
digit, ASCII upper-casing) and `String::len` (bytes) are byte-wise properties of UTF-8 (no byte of a
multi-byte character is < 0x80), so the model is written over the UTF-8 bytes.
-/
namespace RtcModel.Fingerprint

abbrev Bytes := List UInt8

/-- `char::is_ascii_whitespace`: space, tab, LF, FF, CR -/
def isWs (b : UInt8) : Bool := b == 0x20 || b == 0x09 || b == 0x0A || b == 0x0C || b == 0x0D
def colon : UInt8 := 0x3A
/-- `to_ascii_uppercase` -/
def upper (b : UInt8) : UInt8 := if 0x61 ≤ b ∧ b ≤ 0x7A then b - 0x20 else b
/-- `is_ascii_hexdigit` -/
def isHex (b : UInt8) : Bool := (0x30 ≤ b && b ≤ 0x39) || (0x41 ≤ b && b ≤ 0x46) || (0x61 ≤ b && b ≤ 0x66)

/-- `chunks(2)` joined by ':' (a trailing single byte cannot occur: the length is even) -/
def joinPairs : Bytes → Bytes
  | a :: b :: c :: rest => a :: b :: colon :: joinPairs (c :: rest)
  | r => r

/-- the filtered, upper-cased text -/
def strip (s : Bytes) : Bytes := (s.filter (fun b => !isWs b && b != colon)).map upper

/-- `normalize_fingerprint_value` (`none` = `Err`) -/
def normalize (s : Bytes) : Option Bytes :=
  let n := strip s
  if n.isEmpty || n.length % 2 != 0 then none
  else if !n.all isHex then none
  else some (joinPairs n)

def hexUpper (n : Nat) : UInt8 := if n < 10 then UInt8.ofNat (48 + n) else UInt8.ofNat (55 + n)

/-- `format!("{:02X}", b)` for every byte -/
def hexPairs : Bytes → Bytes
  | [] => []
  | b :: rest => hexUpper (b.toNat / 16) :: hexUpper (b.toNat % 16) :: hexPairs rest

/-- `fingerprint_from_der` applied to the digest bytes: "AA:BB:…" -/
def format (digest : Bytes) : Bytes := joinPairs (hexPairs digest)

/-- value of a hex digit (after upper-casing) -/
def hexVal (b : UInt8) : Nat := if b ≤ 0x39 then b.toNat - 48 else b.toNat - 55

/-- the bytes a stripped, valid hex text denotes -/
def decodePairs : Bytes → Bytes
  | a :: b :: rest => UInt8.ofNat (hexVal a * 16 + hexVal b) :: decodePairs rest
  | _ => []

/-- the bytes a fingerprint text denotes -/
def value (s : Bytes) : Bytes := decodePairs (strip s)

/-! ### `SdpFingerprint::parse` and `SessionDescription::dtls_fingerprint` -/

/-- `str::split_whitespace` on ASCII input: maximal runs of non-whitespace bytes -/
def splitWs : Bytes → Bytes → List Bytes
  | [], cur => if cur.isEmpty then [] else [cur.reverse]
  | b :: rest, cur =>
    if isWs b then (if cur.isEmpty then splitWs rest [] else cur.reverse :: splitWs rest [])
    else splitWs rest (b :: cur)

def lower (b : UInt8) : UInt8 := if 0x41 ≤ b ∧ b ≤ 0x5A then b + 0x20 else b

/-- `SdpFingerprint::parse`: exactly "algorithm value"; algorithm lower-cased, value normalised -/
def parseFingerprint (v : Bytes) : Option (Bytes × Bytes) :=
  match splitWs v [] with
  | [alg, val] => (normalize val).map fun n => (alg.map lower, n)
  | _ => none

inductive Collected where
  | err
  | none
  | some (alg val : Bytes)
deriving DecidableEq, Repr

/-- `dtls_fingerprint`: every `fingerprint` attribute of the session and of each media section, in
order (`none` = an attribute without value): the first one found; any later one must be identical -/
def collect : List (Option Bytes) → Collected → Collected
  | [], cur => cur
  | none :: _, _ => .err
  | some v :: rest, cur =>
    match parseFingerprint v with
    | Option.none => .err
    | Option.some (a, n) =>
      match cur with
      | .none => collect rest (.some a n)
      | .some a' n' => if a' = a ∧ n' = n then collect rest cur else .err
      | .err => .err

end RtcModel.Fingerprint
