/-
Model of the inbound STUN path of `IceTransport` (`src/transports/ice/mod.rs`): `handle_packet`
(first-byte classification, decode, dispatch of responses by transaction id), `handle_stun_request`
(always answers; learns a peer-reflexive candidate; latching branch; USE-CANDIDATE branch with the
role / priority rules) and `complete_controlled_inbound_tcp_nomination`.

The model follows the code *as it is*: the request's USERNAME / MESSAGE-INTEGRITY are never looked at.
They are carried in the abstract input (`Req.authentic`, computed from the bytes by the independent RFC
reader in `classify`) only so that the property can be stated.  Core Lean only.
-/
import RtcModel.Stun
import RtcModel.StunRfc
import RtcModel.IcePrio

namespace RtcModel.IceAuth
open RtcModel.Stun RtcModel.IcePrio RtcModel.C16Bytes

/-- `IceTransportState` -/
inductive IceState where
  | new | checking | connected | completed | failed | disconnected | closed
deriving DecidableEq, Repr, Inhabited

/-- the fields of `IceCandidate` the inbound path reads -/
structure Cand where
  address : Addr
  base : Addr              -- `base_address()`
  typ : CandType
  tcp : Bool               -- `transport == "tcp"`
  passive : Bool           -- `tcp_type == Some(TcpType::Passive)`
  priority : Nat
deriving DecidableEq, Repr, Inhabited

structure Pair where
  loc : Cand
  rem : Cand
deriving DecidableEq, Repr, Inhabited

/-- `IceSocketWrapper` the packet arrived on, with the local address the code derives from it -/
inductive Sock where
  | udp (localAddr : Addr)
  | sharedUdp (localAddr : Addr)
  | tcpListener (localAddr : Addr)
  | tcpStream (localAddr : Addr)
  | turn (relayed : Addr)
deriving DecidableEq, Repr, Inhabited

def Sock.isTcpStream : Sock → Bool
  | .tcpStream _ => true | _ => false

/-- transport string of a learnt peer-reflexive candidate -/
def Sock.prflxTcp : Sock → Bool
  | .tcpListener _ | .tcpStream _ => true | _ => false

def Sock.localAddr : Sock → Addr
  | .udp a | .sharedUdp a | .tcpListener a | .tcpStream a | .turn a => a

structure St where
  role : Role
  state : IceState
  remotes : List Cand
  locals : List Cand
  selected : Option Pair
  nominated : Option Bool            -- `nomination_complete`
  pending : List Bytes               -- keys of `pending_transactions`
  latching : Bool                    -- `config.enable_latching`
deriving DecidableEq, Repr, Inhabited

/-- a decoded STUN request as `handle_stun_request` sees it, plus what it does not look at -/
structure Req where
  tx : Bytes
  useCandidate : Bool
  authentic : Bool     -- carries this session's USERNAME and a MESSAGE-INTEGRITY valid under the local password
deriving DecidableEq, Repr

/-- what `handle_packet` does with one datagram, as an abstract input -/
inductive Inp where
  | empty                               -- `packet[0]` on an empty slice: panic
  | data                                -- first byte ≥ 2: DTLS / RTP path (no ICE state involved)
  | undecodable                         -- first byte < 2, `StunMessage::decode` failed
  | indication                          -- decoded, class Indication: ignored
  | request (r : Req)
  | response (tx : Bytes) (error : Bool)
deriving DecidableEq, Repr

/-- visible effects of one datagram -/
structure Out where
  panic : Bool := false
  replied : Bool := false               -- a Binding success response was sent back to the source
  delivered : Option Bytes := none      -- transaction whose waiter received the response
  forwarded : Bool := false             -- handed to the data receiver / buffer
deriving DecidableEq, Repr

/-! ### `handle_stun_request`, block by block -/

def ipOf : Addr → Bytes
  | .v4 ip _ | .v6 ip _ => ip
def portOf : Addr → Nat
  | .v4 _ p | .v6 _ p => p
/-- same address family and ip (`addr.ip() == ..`) -/
def sameIp (a b : Addr) : Bool :=
  match a, b with
  | .v4 x _, .v4 y _ => x = y
  | .v6 x _, .v6 y _ => x = y
  | _, _ => false
/-- `ip().is_unspecified()` -/
def unspecified (a : Addr) : Bool := (ipOf a).all (· = 0)

/-- the peer-reflexive candidate built for an unknown source -/
def prflxCand (sock : Sock) (src : Addr) : Cand :=
  { address := src, base := src, typ := .prflx, tcp := sock.prflxTcp, passive := false,
    priority := if sock.prflxTcp then priorityForTcp .prflx 1 .passive else priorityFor .prflx 1 }

/-- "Check if we know this candidate" … push -/
def learn (s : St) (sock : Sock) (src : Addr) : St :=
  if s.remotes.any (fun c => c.address = src) then s
  else { s with remotes := s.remotes ++ [prflxCand sock src] }

/-- `if inner.config.enable_latching { … }` -/
def latch (s : St) (src : Addr) : St :=
  if s.latching then
    match s.selected with
    | some p =>
      if portOf p.rem.address = portOf src ∧ ¬ sameIp p.rem.address src then
        { s with selected := some { loc := p.loc, rem := { p.rem with address := src } } }
      else s
    | none => s
  else s

/-- pair lookup of `complete_controlled_inbound_tcp_nomination` (first attempt, then the "synthesizing" one) -/
def tcpPair (s : St) (sock : Sock) (src : Addr) : Option Pair :=
  let la := sock.localAddr
  let lc := s.locals.find? (fun c => c.base = la ||
    (c.tcp && portOf c.base = portOf la && (unspecified c.base || unspecified la)))
  let rc := s.remotes.find? (fun c => c.address = src)
  match lc, rc with
  | some l, some r => some ⟨l, r⟩
  | _, _ =>
    let lc2 := s.locals.find? (fun c => c.tcp && c.passive &&
      (portOf c.base = portOf la || portOf c.address = portOf la))
    match lc2, rc with
    | some l, some r => some ⟨l, r⟩
    | _, _ => none                                  -- (only publishes the inbound socket)

def withPairConnected (s : St) (p : Option Pair) : St :=
  match p with
  | some p => { s with selected := some p, state := .connected }
  | none => s

/-- `complete_controlled_inbound_tcp_nomination` -/
def tcpNominate (s : St) (sock : Sock) (src : Addr) : St :=
  if s.role ≠ .controlled then s
  else if ¬ sock.isTcpStream then s
  else if s.nominated.isSome then s                 -- (only re-publishes the socket)
  else { withPairConnected s (tcpPair s sock src) with nominated := some true }

/-- `should_select` -/
def shouldSelect (s : St) (p : Pair) : Bool :=
  match s.selected with
  | some cur =>
    if cur.loc.address = p.loc.address ∧ cur.rem.address = p.rem.address then false
    else if s.nominated.isSome then
      pairPriority s.role p.loc.priority p.rem.priority > pairPriority s.role cur.loc.priority cur.rem.priority
    else true
  | none => true

/-- pair lookup of the USE-CANDIDATE branch -/
def ucPair (s : St) (sock : Sock) (src : Addr) : Option Pair :=
  match s.locals.find? (fun c => c.base = sock.localAddr), s.remotes.find? (fun c => c.address = src) with
  | some l, some r => some ⟨l, r⟩
  | _, _ => none

/-- `if msg.use_candidate { … }` -/
def useCandidate (s : St) (sock : Sock) (src : Addr) : St :=
  if s.role ≠ .controlled then s
  else if sock.isTcpStream then s
  else
    match ucPair s sock src with
    | some p =>
      { s with selected := if shouldSelect s p then some p else s.selected, state := .connected, nominated := some true }
    | none => { s with nominated := some true }

/-- `handle_stun_request` (the reply is sent first, unconditionally) -/
def handleRequest (s : St) (sock : Sock) (src : Addr) (r : Req) : St :=
  let s1 := learn s sock src
  let s2 := latch s1 src
  let s3 := tcpNominate s2 sock src
  if r.useCandidate then useCandidate s3 sock src else s3

/-- response dispatch: `map.remove(&msg.transaction_id)` -/
def handleResponse (s : St) (tx : Bytes) : St × Option Bytes :=
  if tx ∈ s.pending then ({ s with pending := s.pending.filter (· ≠ tx) }, some tx) else (s, none)

/-- `handle_packet` -/
def step (s : St) (sock : Sock) (src : Addr) (i : Inp) : St × Out :=
  match i with
  | .empty => (s, { panic := true })
  | .data => (s, { forwarded := true })
  | .undecodable => (s, {})
  | .indication => (s, {})
  | .request r => (handleRequest s sock src r, { replied := true })
  | .response tx _ =>
    let (s', d) := handleResponse s tx
    (s', { delivered := d })

/-! ### from bytes to the abstract input -/

/-- USERNAME value found by the independent RFC walk -/
def usernameOf (pkt : Bytes) : Option Bytes :=
  match StunRfc.walk 20 (pkt.drop 20) with
  | some attrs => (attrs.find? (fun a => a.2.1 = 0x0006)).map (·.2.2)
  | none => none

/-- RFC 8445 §7.3: USERNAME is `<local ufrag>:<remote ufrag>` and MESSAGE-INTEGRITY verifies under the
local password -/
def isAuthentic (P : Prims) (ufrag pwd : Bytes) (pkt : Bytes) : Bool :=
  (match usernameOf pkt with
   | some u => (ufrag ++ [58]).isPrefixOf u
   | none => false) && StunRfc.integrityOk P pwd pkt

def classify (P : Prims) (ufrag pwd : Bytes) (pkt : Bytes) : Inp :=
  match pkt with
  | [] => .empty
  | b :: _ =>
    if b < 2 then
      match decode pkt with
      | .ok d =>
        match d.cls with
        | .request => .request ⟨d.tx, d.useCandidate, isAuthentic P ufrag pwd pkt⟩
        | .success => .response d.tx false
        | .error => .response d.tx true
        | .indication => .indication
      | .error _ => .undecodable
    else .data

end RtcModel.IceAuth
