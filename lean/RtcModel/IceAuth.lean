/-
Model of the inbound STUN path of `IceTransport` (`src/transports/ice/mod.rs`): `handle_packet`
(first-byte classification, decode, dispatch of responses by transaction id), `handle_stun_request`
(always answers; learns a peer-reflexive candidate; latching branch; USE-CANDIDATE branch with the
role / priority rules) and `complete_controlled_inbound_tcp_nomination`.

Also modelled: the liveness timestamp `last_received_nanos` (which datagrams refresh it), the state part
and the keepalive registration of `run_keepalive_tick`, and which socket the handlers publish as the
selected socket.  Time is nominal (`St.now`, milliseconds, advanced by the environment); `resolve_socket`
is abstracted to the per-candidate flag `Cand.hasSocket`.

The model follows the code as it is after the `fix:` commits (authentication gate in WebRTC mode; only
authenticated requests, matched responses and media refresh the liveness timestamp).  The credential check
is `codeAuth`, a model of `stun_request_authenticated` on the raw datagram.  Core Lean only.
-/
import RtcModel.Stun
import RtcModel.StunRfc
import RtcModel.IcePrio

namespace RtcModel.IceAuth
open RtcModel.Stun RtcModel.IcePrio RtcModel.C16Bytes

/-- `IceTransportState` -/
inductive IceState where
  | new | checking | connected | completed | failed | disconnected | closed
deriving DecidableEq, Repr, Inhabited

/-- the fields of `IceCandidate` the inbound path reads -/
structure Cand where
  address : Addr
  base : Addr              -- `base_address()`
  typ : CandType
  tcp : Bool               -- `transport == "tcp"`
  passive : Bool           -- `tcp_type == Some(TcpType::Passive)`
  priority : Nat
  hasSocket : Bool := false  -- `resolve_socket` finds a socket for a pair with this local candidate
deriving DecidableEq, Repr, Inhabited

structure Pair where
  loc : Cand
  rem : Cand
deriving DecidableEq, Repr, Inhabited

/-- `IceSocketWrapper` the packet arrived on, with the local address the code derives from it -/
inductive Sock where
  | udp (localAddr : Addr)
  | sharedUdp (localAddr : Addr)
  | tcpListener (localAddr : Addr)
  | tcpStream (localAddr : Addr)
  | turn (relayed : Addr)
deriving DecidableEq, Repr, Inhabited

/-- `send_to` is not supported on the listener wrapper: the reply is attempted and fails -/
def Sock.canSend : Sock → Bool
  | .tcpListener _ => false | _ => true

def Sock.isTcpStream : Sock → Bool
  | .tcpStream _ => true | _ => false

/-- transport string of a learnt peer-reflexive candidate -/
def Sock.prflxTcp : Sock → Bool
  | .tcpListener _ | .tcpStream _ => true | _ => false

def Sock.localAddr : Sock → Addr
  | .udp a | .sharedUdp a | .tcpListener a | .tcpStream a | .turn a => a

/-- what `selected_socket` holds: a socket found by `resolve_socket` for the pair, or the inbound TCP stream -/
inductive SelSock where
  | resolved | stream
deriving DecidableEq, Repr, Inhabited

structure St where
  role : Role
  state : IceState
  remotes : List Cand
  locals : List Cand
  selected : Option Pair
  nominated : Option Bool            -- `nomination_complete`
  pending : List Bytes               -- keys of `pending_transactions`
  latching : Bool                    -- `config.enable_latching`
  webrtc : Bool                      -- `config.transport_mode == TransportMode::WebRtc`
  now : Nat := 0                     -- `created_at.elapsed()` in ms (nominal clock, advanced by the environment)
  lastRx : Nat := 0                  -- `last_received_nanos` (ms)
  selSock : Option SelSock := none   -- `selected_socket` watch value
  hasRemoteParams : Bool := false    -- `remote_parameters.is_some()`
  discThreshold : Nat := 30000       -- `config.ice_disconnect_threshold` (ms)
  connTimeout : Nat := 120000        -- `config.ice_connection_timeout` (ms)
deriving DecidableEq, Repr, Inhabited

/-- a decoded STUN request as `handle_stun_request` sees it -/
structure Req where
  tx : Bytes
  useCandidate : Bool
  accepted : Bool      -- result of `stun_request_authenticated(packet, inner)` on the raw datagram
  priority : Option Nat := none   -- the PRIORITY attribute, as decoded (`msg.priority`)
deriving DecidableEq, Repr

/-- what `handle_packet` does with one datagram, as an abstract input -/
inductive Inp where
  | empty                               -- empty payload: `packet.first()` is `None`, ignored (fix d7dd60f; was `packet[0]` → panic)
  | data                                -- first byte ≥ 2: DTLS / RTP path (no ICE state involved)
  | undecodable                         -- first byte < 2, `StunMessage::decode` failed
  | indication                          -- decoded, class Indication: ignored
  | request (r : Req)
  | response (tx : Bytes) (error : Bool)
deriving DecidableEq, Repr

/-- visible effects of one datagram -/
structure Out where
  panic : Bool := false
  replied : Bool := false               -- a Binding success response was sent back to the source
  delivered : Option Bytes := none      -- transaction whose waiter received the response
  forwarded : Bool := false             -- handed to the data receiver / buffer
deriving DecidableEq, Repr

/-! ### `handle_stun_request`, block by block -/

def ipOf : Addr → Bytes
  | .v4 ip _ | .v6 ip _ => ip
def portOf : Addr → Nat
  | .v4 _ p | .v6 _ p => p
/-- same address family and ip (`addr.ip() == ..`) -/
def sameIp (a b : Addr) : Bool :=
  match a, b with
  | .v4 x _, .v4 y _ => x = y
  | .v6 x _, .v6 y _ => x = y
  | _, _ => false
/-- `ip().is_unspecified()` -/
def unspecified (a : Addr) : Bool := (ipOf a).all (· = 0)

/-- the peer-reflexive candidate built for an unknown source: its priority is the PRIORITY attribute of the
request (RFC 8445 §7.3.1.3, since the `fix:` commit), the locally computed value only if there is none -/
def prflxCand (sock : Sock) (src : Addr) (prio : Option Nat := none) : Cand :=
  { address := src, base := src, typ := .prflx, tcp := sock.prflxTcp, passive := false,
    priority := prio.getD (if sock.prflxTcp then priorityForTcp .prflx 1 .passive else priorityFor .prflx 1) }

/-- "Check if we know this candidate" … push -/
def learn (s : St) (sock : Sock) (src : Addr) (prio : Option Nat := none) : St :=
  if s.remotes.any (fun c => c.address = src) then s
  else { s with remotes := s.remotes ++ [prflxCand sock src prio] }

/-- `publish_selected_socket(inner, pair, Some(sender))`: the inbound TCP stream wins, otherwise whatever
`resolve_socket` finds for the pair (nothing is published if it finds none) -/
def publish (s : St) (p : Pair) (sock : Sock) : St :=
  if sock.isTcpStream then { s with selSock := some .stream }
  else if p.loc.hasSocket then { s with selSock := some .resolved } else s

/-- `if inner.config.enable_latching { … }` -/
def latch (s : St) (sock : Sock) (src : Addr) : St :=
  if s.latching then
    match s.selected with
    | some p =>
      if portOf p.rem.address = portOf src ∧ ¬ sameIp p.rem.address src then
        let np : Pair := { loc := p.loc, rem := { p.rem with address := src } }
        publish { s with selected := some np } np sock
      else s
    | none => s
  else s

/-- pair lookup of `complete_controlled_inbound_tcp_nomination` (first attempt, then the "synthesizing" one) -/
def tcpPair (s : St) (sock : Sock) (src : Addr) : Option Pair :=
  let la := sock.localAddr
  let lc := s.locals.find? (fun c => c.base = la ||
    (c.tcp && portOf c.base = portOf la && (unspecified c.base || unspecified la)))
  let rc := s.remotes.find? (fun c => c.address = src)
  match lc, rc with
  | some l, some r => some ⟨l, r⟩
  | _, _ =>
    let lc2 := s.locals.find? (fun c => c.tcp && c.passive &&
      (portOf c.base = portOf la || portOf c.address = portOf la))
    match lc2, rc with
    | some l, some r => some ⟨l, r⟩
    | _, _ => none                                  -- (only publishes the inbound socket)

/-- `set_state_unless_closed(&inner, Connected)`: the state writes of the transport's own tasks never leave
`Closed` (`stop()` is final) -/
def toConnected (st : IceState) : IceState := if st = .closed then .closed else .connected

/-- pair found: select it, publish the stream, Connected; none: only the inbound stream is published -/
def withPairConnected (s : St) (p : Option Pair) : St :=
  match p with
  | some p => { s with selected := some p, state := toConnected s.state, selSock := some .stream }
  | none => { s with selSock := some .stream }

/-- `complete_controlled_inbound_tcp_nomination` -/
def tcpNominate (s : St) (sock : Sock) (src : Addr) : St :=
  if s.role ≠ .controlled then s
  else if ¬ sock.isTcpStream then s
  else if s.nominated.isSome then                   -- only re-publishes the socket for the current pair
    (match s.selected with | some _ => { s with selSock := some .stream } | none => s)
  else { withPairConnected s (tcpPair s sock src) with nominated := some true }

/-- `should_select` -/
def shouldSelect (s : St) (p : Pair) : Bool :=
  match s.selected with
  | some cur =>
    if cur.loc.address = p.loc.address ∧ cur.rem.address = p.rem.address then false
    else if s.nominated.isSome then
      pairPriority s.role p.loc.priority p.rem.priority > pairPriority s.role cur.loc.priority cur.rem.priority
    else true
  | none => true

/-- pair lookup of the USE-CANDIDATE branch -/
def ucPair (s : St) (sock : Sock) (src : Addr) : Option Pair :=
  match s.locals.find? (fun c => c.base = sock.localAddr), s.remotes.find? (fun c => c.address = src) with
  | some l, some r => some ⟨l, r⟩
  | _, _ => none

/-- `if msg.use_candidate { … }` -/
def useCandidate (s : St) (sock : Sock) (src : Addr) : St :=
  if s.role ≠ .controlled then s
  else if sock.isTcpStream then s
  else
    match ucPair s sock src with
    | some p =>
      let s1 := if shouldSelect s p then publish { s with selected := some p } p sock else s
      { s1 with state := toConnected s1.state, nominated := some true }
    | none => { s with nominated := some true }

/-- `handle_stun_request` after the reply and the `if !authenticated { return; }` gate -/
def handleAuthenticated (s : St) (sock : Sock) (src : Addr) (r : Req) : St :=
  let s1 := learn s sock src r.priority
  let s2 := latch s1 sock src
  let s3 := tcpNominate s2 sock src
  if r.useCandidate && r.accepted then useCandidate s3 sock src else s3      -- `msg.use_candidate && may_nominate` (every mode)

/-- `handle_packet`'s request arm + `handle_stun_request`: the reply is sent first, unconditionally;
`authenticated = transport_mode != WebRtc || stun_request_authenticated(..)` gates everything else -/
def handleRequest (s : St) (sock : Sock) (src : Addr) (r : Req) : St :=
  if !s.webrtc || r.accepted then handleAuthenticated { s with lastRx := s.now } sock src r else s

/-- response dispatch: `map.remove(&msg.transaction_id)` -/
def handleResponse (s : St) (tx : Bytes) : St × Option Bytes :=
  if tx ∈ s.pending then ({ s with pending := s.pending.filter (· ≠ tx), lastRx := s.now }, some tx) else (s, none)

/-- `from_selected_peer`: traffic that is not part of a STUN transaction (media, Binding indications) counts
as liveness only when it comes from the remote address of the selected pair -/
def fromSelectedPeer (s : St) (src : Addr) : Bool :=
  match s.selected with | some p => p.rem.address = src | none => false

/-- `handle_packet` -/
def step (s : St) (sock : Sock) (src : Addr) (i : Inp) : St × Out :=
  match i with
  | .empty => (s, {})
  | .data => (if fromSelectedPeer s src then { s with lastRx := s.now } else s, { forwarded := true })
  | .undecodable => (s, {})
  | .indication => (if fromSelectedPeer s src then { s with lastRx := s.now } else s, {})
  | .request r => (handleRequest s sock src r, { replied := sock.canSend })
  | .response tx _ =>
    let (s', d) := handleResponse s tx
    (s', { delivered := d })

/-! ### `run_keepalive_tick` -/

def tcpSelected (s : St) : Bool :=
  match s.selected with | some p => p.loc.tcp | none => false

/-- the liveness part: Connected / Disconnected transports in WebRTC mode follow the age of `last_received` -/
def tickNewState (s : St) : IceState :=
  if (s.state = .connected ∨ s.state = .disconnected) ∧ s.webrtc then
    if s.now - s.lastRx > s.connTimeout then .failed
    else if s.now - s.lastRx > (if tcpSelected s then s.connTimeout - 1000 else s.discThreshold) then .disconnected
    else .connected
  else s.state

def tickState (s : St) : St := { s with state := tickNewState s }

/-- which keepalive the tick sends -/
inductive Keepalive where
  | none | credentialed | bare
deriving DecidableEq, Repr

/-- the keepalive part (decided on the state read at the top of the tick): needs a selected pair and a socket -/
def tickKeepalive (s : St) : Keepalive :=
  if s.state = .connected ∨ s.state = .disconnected then
    match s.selected with
    | some p =>
      if s.selSock.isSome ∨ p.loc.hasSocket then
        if s.hasRemoteParams then .credentialed else if !s.webrtc then .bare else .none
      else .none
    | none => .none
  else .none

/-- one `run_keepalive_tick`; `tx` is the transaction id it draws for a credentialed keepalive -/
def tick (s : St) (tx : Bytes) : St × Keepalive :=
  ({ tickState s with pending := if tickKeepalive s = .credentialed then s.pending ++ [tx] else s.pending },
   tickKeepalive s)

/-! ### the TCP stream table (`IceGatherer::tcp_streams`) — written BEFORE any authentication -/

/-- one entry per key: the listener address for accepted connections (`run_tcp_listen_loop`,
`attach_demuxed_tcp_stream`), the connection's local address for outbound ones; the value is the stream,
identified here by its peer address -/
abbrev TcpTable := List (Addr × Addr)

/-- `store_tcp_stream(key, wrapper)` = `HashMap::insert`: the newest stream under a key replaces the old one -/
def storeTcpStream (t : TcpTable) (key peer : Addr) : TcpTable := (key, peer) :: t.filter (fun e => e.1 ≠ key)

/-- `run_tcp_listen_loop` on `accept()` / `attach_demuxed_tcp_stream` on the first frame: the connection is stored
(and handed to the runner) before a single byte has been authenticated -/
def acceptTcp (t : TcpTable) (listen peer : Addr) : TcpTable := storeTcpStream t listen peer

/-- the TCP branch of `resolve_socket` (keepalive tick, selection after the checks): a stream whose peer is the
pair's remote address, else whatever is stored under the local base address (`get_tcp_socket`) -/
def resolveTcp (t : TcpTable) (pairRemote localBase : Addr) : Option Addr :=
  match t.find? (fun e => e.2 = pairRemote) with
  | some e => some e.2
  | none => (t.find? (fun e => e.1 = localBase)).map (·.2)

/-- `nudge_passive_tcp_nomination` (PeerConnection calls it whenever ICE is Connected / Completed): a controlled
agent without a nomination completes it on the first registered TCP stream whose peer is a remote candidate
(since the `fix:` commit; before, on the first stream whatever its peer). `t` = the stream table. -/
def nudge (s : St) (t : TcpTable) : St :=
  if s.role ≠ .controlled ∨ s.nominated.isSome then s
  else
    match t.find? (fun e => s.remotes.any (fun c => c.address = e.2)) with
    | some e => tcpNominate s (.tcpStream e.1) e.2
    | none => s

/-! ### other consumers of STUN responses -/

/-- `IceGatherer::probe_stun` (server-reflexive gathering): what it takes from the datagram it received for
the request with transaction id `tx` (after the `fix:` that compares id, class and method) -/
def probeAccept (tx : Bytes) (resp : Bytes) (fromServerIp : Bool := true) : Option Addr :=
  if !fromServerIp then none else      -- `if from.ip() != addr.ip() { return Ok(None) }`
  match decode resp with
  | .ok d => if d.tx = tx ∧ d.cls = .success ∧ d.method = .binding then d.mapped else none
  | .error _ => none

/-! ### the credential check of the code, on raw bytes -/

/-- loop of `stun::verify_message_integrity` from byte offset `off` (`rest = pkt.drop off`) -/
def verifyLoop (P : Prims) (key pkt : Bytes) (off : Nat) (rest : Bytes) : Bool :=
  match rest with
  | t0 :: t1 :: l0 :: l1 :: body =>
    if rd16 l0 l1 > body.length then false
    else if rd16 t0 t1 = 8 then
      rd16 l0 l1 = 20 && body.take 20 = P.hmac key (writeLen (pkt.take off) (off - 20 + 24))
    else verifyLoop P key pkt (off + 4 + rd16 l0 l1 + pad4 (rd16 l0 l1)) (body.drop (rd16 l0 l1 + pad4 (rd16 l0 l1)))
  | _ => false
termination_by rest.length
decreasing_by simp only [List.length_drop, List.length_cons]; omega

/-- `stun::verify_message_integrity` -/
def verifyMI (P : Prims) (key pkt : Bytes) : Bool := verifyLoop P key pkt 20 (pkt.drop 20)

/-- loop of `shared_tcp::username_from_stun_bytes` -/
def usernameLoop (off : Nat) (rest : Bytes) : Option (Nat × Bytes) :=
  match rest with
  | t0 :: t1 :: l0 :: l1 :: body =>
    if rd16 l0 l1 > body.length then none
    else if rd16 t0 t1 = 6 then
      (if validUtf8 (body.take (rd16 l0 l1)) then some (off, body.take (rd16 l0 l1)) else none)
    else usernameLoop (off + 4 + rd16 l0 l1 + pad4 (rd16 l0 l1)) (body.drop (rd16 l0 l1 + pad4 (rd16 l0 l1)))
  | _ => none
termination_by rest.length
decreasing_by simp only [List.length_drop, List.length_cons]; omega

/-- `shared_tcp::username_from_stun_bytes` (with the offset where it was found) -/
def usernameOf (pkt : Bytes) : Option (Nat × Bytes) :=
  match pkt with
  | _ :: _ :: l0 :: l1 :: rest =>
    if rest.length < 16 then none
    else if rd16 l0 l1 + 20 ≠ pkt.length then none
    else usernameLoop 20 (pkt.drop 20)
  | _ => none

/-- `username.split_once(':').map(|(ours, _)| ours) == Some(local ufrag)` -/
def oursIs (username ufrag : Bytes) : Bool :=
  username.contains 58 && username.takeWhile (· ≠ 58) = ufrag

/-- `stun_request_authenticated` -/
def codeAuth (P : Prims) (ufrag pwd pkt : Bytes) : Bool :=
  match usernameOf pkt with
  | some (_, u) => oursIs u ufrag && verifyMI P pwd pkt
  | none => false

/-- `shared_tcp::peer_ufrag_from_binding_request`: the routing key of the shared UDP / TCP demultiplexers
(cheap header classification + USERNAME up to the first `:`; nothing is verified here) -/
def peerUfrag (pkt : Bytes) : Option Bytes :=
  match pkt with
  | b0 :: b1 :: _ =>
    if pkt.length < 20 then none
    else if (rd16 b0 b1 &&& 0x3EEF) ≠ 0x0001 ∨ (rd16 b0 b1 &&& 0x0110) ≠ 0 then none
    else match usernameOf pkt with
      | some (_, u) => if u.contains 58 then some (u.takeWhile (· ≠ 58)) else none
      | none => none
  | _ => none

/-! ### from bytes to the abstract input -/

def classify (P : Prims) (ufrag pwd : Bytes) (pkt : Bytes) : Inp :=
  match pkt with
  | [] => .empty
  | b :: _ =>
    if b < 2 then
      match decode pkt with
      | .ok d =>
        match d.cls with
        | .request => .request ⟨d.tx, d.useCandidate, codeAuth P ufrag pwd pkt, d.priority⟩
        | .success => .response d.tx false
        | .error => .response d.tx true
        | .indication => .indication
      | .error _ => .undecodable
    else .data

/-- the independent reading (strict RFC 5389 walk): USERNAME starts with `<ufrag>:` and
MESSAGE-INTEGRITY verifies under the password — used to cross-check `codeAuth` on well-formed messages -/
def rfcAuthentic (P : Prims) (ufrag pwd : Bytes) (pkt : Bytes) : Bool :=
  (match StunRfc.walk 20 (pkt.drop 20) with
   | some attrs => match attrs.find? (fun a => a.2.1 = 0x0006) with
     | some a => (ufrag ++ [58]).isPrefixOf a.2.2
     | none => false
   | none => false) && StunRfc.integrityOk P pwd pkt

/-! ### histories: datagrams, keepalive ticks, clock -/

/-- everything that happens to the transport: datagrams, keepalive ticks (with the transaction id the
tick draws), the clock advancing -/
inductive HEv where
  | pkt (sock : Sock) (src : Addr) (i : Inp)
  | tick (tx : Bytes)
  | advance (t : Nat)

def hstep (s : St) : HEv → St
  | .pkt sock src i => (step s sock src i).1
  | .tick tx => (tick s tx).1
  | .advance t => { s with now := s.now + t }

def hrun (s : St) (evs : List HEv) : St := evs.foldl hstep s


end RtcModel.IceAuth
