/-
C07 — the `Cursor` monad: a model of `bytes::Buf` getters and slice indexing with three
outcomes (`ok | err | panic`) and an allocation counter, plus its weakest-precondition calculus.

Design decisions (deviations from the sketch in DESIGN.md §3 are deliberate and documented):
* the buffer is `Buf = (data : Array UInt8, pos : Nat)` instead of `List UInt8` so that the compiled
  driver runs in O(1) per primitive on 64 KiB inputs; theorems quantify over *every* `Buf`
  (hence over every byte string `Buf.ofList bs`);
* `err` carries the allocation counter too, so that `allocBound_*` also covers rejected inputs;
* loops are written with one fuel-driven combinator `loopM`; running out of fuel is the outcome
  `panic "hang"`, so a `noPanic_*` theorem also proves that the walker terminates within the fuel
  the model gives it (a walker that can stop making progress cannot be proved safe — that is
  where a non-terminating loop shows).
* all scalar values are `Nat`; narrowing casts / wrapping arithmetic of the Rust code are written
  explicitly (`% 256`, `% 65536`) in the decoder models where the Rust type is narrower than usize.
  `usize` itself is modelled as unbounded (inputs are ≤ 64 KiB; no usize sum in the modelled code
  can reach 2^64).
Primitives panic exactly where Rust does: `Buf::get_*`/`advance`/`copy_to_bytes`/`split_to` when
`remaining < n`; `a[i]` when `i ≥ len`; `a[i..j]` when `i > j` or `j > len`.
Core Lean only (linked into `rtcdrv`).
-/
namespace RtcModel.C07

/-- a byte buffer with a read position (`bytes::Bytes` / `&mut &[u8]` as a `Buf`) -/
structure Buf where
  data : Array UInt8
  pos : Nat

namespace Buf
def ofArray (a : Array UInt8) : Buf := ⟨a, 0⟩
def ofList (l : List UInt8) : Buf := ⟨l.toArray, 0⟩
/-- `Buf::remaining()` / `len()` of the unread part -/
def rem (b : Buf) : Nat := b.data.size - b.pos
/-- the unread bytes as an array (for handing to slice-indexing code) -/
def rest (b : Buf) : Array UInt8 := b.data.extract b.pos b.data.size
@[simp] theorem rem_ofArray (a : Array UInt8) : (ofArray a).rem = a.size := by simp [rem, ofArray]
@[simp] theorem rem_ofList (l : List UInt8) : (ofList l).rem = l.length := by simp [rem, ofList]
@[simp] theorem size_rest (b : Buf) : b.rest.size = b.rem := by
  simp [rest, rem]
end Buf

inductive Res (α : Type) where
  | ok (a : α) (rest : Buf) (allocs : Nat)
  | err (e : String) (allocs : Nat)
  | panic (site : String)

namespace Res
def allocs : Res α → Nat
  | .ok _ _ n => n
  | .err _ n => n
  | .panic _ => 0
def isPanic : Res α → Bool
  | .panic _ => true
  | _ => false
end Res

/-- decoder computations: buffer → allocation counter → outcome -/
def Cur (α : Type) : Type := Buf → Nat → Res α

namespace Cur
@[inline] protected def pure (a : α) : Cur α := fun b n => .ok a b n
@[inline] protected def bind (m : Cur α) (f : α → Cur β) : Cur β := fun b n =>
  match m b n with
  | .ok a b' n' => f a b' n'
  | .err e n' => .err e n'
  | .panic s => .panic s
instance : Monad Cur where
  pure := Cur.pure
  bind := Cur.bind
/-- run on a byte array from position 0 with allocation counter 0 -/
def run (m : Cur α) (a : Array UInt8) : Res α := m (Buf.ofArray a) 0
end Cur

/-! ### primitives -/

/-- `return Err(e)` -/
def bail (e : String) : Cur α := fun _ n => .err e n
/-- an explicit panic site of the code (`unwrap()` on None, arithmetic overflow check, …) -/
def panicAt (site : String) : Cur α := fun _ _ => .panic site
/-- heap allocation of `k` payload bytes (`Vec::with_capacity`, `to_vec`, `push`, `String`) -/
def alloc (k : Nat) : Cur Unit := fun b n => .ok () b (n + k)
/-- `buf.remaining()` / `buf.len()` -/
def remaining : Cur Nat := fun b n => .ok b.rem b n
/-- the unread part as a slice -/
def restSlice : Cur (Array UInt8) := fun b n => .ok b.rest b n
/-- replace the cursor (used when the code re-binds its `Bytes`/slice variable) -/
def setBuf (nb : Buf) : Cur Unit := fun _ n => .ok () nb n
def getBuf : Cur Buf := fun b n => .ok b b n

/-- big-endian value of `k` bytes starting at `i` (total helper; callers guard the range) -/
def beVal (a : Array UInt8) (i : Nat) : Nat → Nat
  | 0 => 0
  | k + 1 => (a.getD i 0).toNat * 256 ^ k + beVal a (i + 1) k

theorem beVal_lt (a : Array UInt8) (i k : Nat) : beVal a i k < 256 ^ k := by
  induction k generalizing i with
  | zero => simp [beVal]
  | succ k ih =>
    have h1 := ih (i + 1)
    have h2 : (a.getD i 0).toNat < 256 := (a.getD i 0).toNat_lt
    have h3 : (a.getD i 0).toNat * 256 ^ k ≤ 255 * 256 ^ k := Nat.mul_le_mul_right _ (by omega)
    simp only [beVal, Nat.pow_succ]
    omega

/-- `Buf::get_uN` for N = 8·k: panics when fewer than `k` bytes remain -/
def getBE (k : Nat) : Cur Nat := fun b n =>
  if k ≤ b.rem then .ok (beVal b.data b.pos k) ⟨b.data, b.pos + k⟩ n else .panic "buf-get"

def getU8 : Cur Nat := getBE 1
def getU16 : Cur Nat := getBE 2
def getU24 : Cur Nat := getBE 3
def getU32 : Cur Nat := getBE 4
def getU48 : Cur Nat := getBE 6
def getU64 : Cur Nat := getBE 8

/-- `Buf::advance(k)` -/
def advance (k : Nat) : Cur Unit := fun b n =>
  if k ≤ b.rem then .ok () ⟨b.data, b.pos + k⟩ n else .panic "buf-advance"

/-- `Bytes::split_to(k)` / `copy_to_bytes(k)` / `copy_to_slice`: the next `k` bytes as their own buffer -/
def splitTo (k : Nat) : Cur Buf := fun b n =>
  if k ≤ b.rem then .ok ⟨b.data.extract b.pos (b.pos + k), 0⟩ ⟨b.data, b.pos + k⟩ n else .panic "buf-split"

/-- `buf[i]` on the unread part of a `Bytes` (indexing through `Deref<[u8]>`) -/
def peek (i : Nat) : Cur Nat := fun b n =>
  if h : b.pos + i < b.data.size then .ok (b.data[b.pos + i]).toNat b n else .panic "index"

/-- `a[i]` -/
def idx (a : Array UInt8) (i : Nat) : Cur Nat := fun b n =>
  if h : i < a.size then .ok (a[i]).toNat b n else .panic "index"

/-- `&a[i..j]` -/
def slice (a : Array UInt8) (i j : Nat) : Cur (Array UInt8) := fun b n =>
  if i ≤ j ∧ j ≤ a.size then .ok (a.extract i j) b n else .panic "slice"

/-- `&a[i..j]` when only the length of `a` matters (output buffers): returns `j - i` -/
def sliceLen (len i j : Nat) : Cur Nat := fun b n =>
  if i ≤ j ∧ j ≤ len then .ok (j - i) b n else .panic "slice"

/-- run `m` on its own buffer `sub` (a parsed sub-slice), then continue on the outer buffer;
returns the result and what was left of `sub` -/
def onBuf (sub : Buf) (m : Cur α) : Cur (α × Buf) := fun b n =>
  match m sub n with
  | .ok a sub' n' => .ok (a, sub') b n'
  | .err e n' => .err e n'
  | .panic s => .panic s

/-- `if let Ok(v) = m { … }` / `.ok()`: an error of `m` is swallowed (result `(false, d)`), not propagated -/
def attemptD (m : Cur α) (d : α) : Cur (Bool × α) := fun b n =>
  match m b n with
  | .ok a b' n' => .ok (true, a) b' n'
  | .err _ n' => .ok (false, d) b n'
  | .panic s => .panic s

/-- the one loop combinator: `body` returns `inl s'` to continue and `inr r` to leave the loop;
fuel exhaustion is the outcome `panic "hang"` -/
def loopM (body : σ → Cur (σ ⊕ β)) : Nat → σ → Cur β
  | 0, _ => panicAt "hang"
  | fuel + 1, s => do
    match ← body s with
    | .inl s' => loopM body fuel s'
    | .inr r => pure r

/-! ### weakest preconditions -/

/-- `safe E m Q b n`: started on buffer `b` with `n` bytes allocated so far, `m` does not panic,
ends with `Q` when it returns a value, and with `E allocs` when it returns an error
(`E := (· ≤ B)` for allocation bounds, `E := fun _ => True` when only totality is claimed). -/
def safe (E : Nat → Prop) (m : Cur α) (Q : α → Buf → Nat → Prop) (b : Buf) (n : Nat) : Prop :=
  match m b n with
  | .ok a b' n' => Q a b' n'
  | .err _ n' => E n'
  | .panic _ => False

theorem safe_noPanic {B : Nat → Prop} {m : Cur α} {Q b n} (h : safe B m Q b n) : ∀ s, m b n ≠ .panic s := by
  intro s hs; simp [safe, hs] at h

theorem safe_allocs {B : Nat} {m : Cur α} {b n} (h : safe (· ≤ B) m (fun _ _ n' => n' ≤ B) b n) :
    (m b n).allocs ≤ B := by
  unfold safe at h
  cases hm : m b n <;> simp [hm, Res.allocs] at h ⊢ <;> exact h

theorem safe_mono {B : Nat → Prop} {m : Cur α} {Q Q' : α → Buf → Nat → Prop} {b n}
    (h : safe B m Q b n) (hq : ∀ a b' n', Q a b' n' → Q' a b' n') : safe B m Q' b n := by
  unfold safe at h ⊢
  cases hm : m b n <;> simp [hm] at h ⊢
  · exact hq _ _ _ h
  · exact h

theorem safe_pure {B : Nat → Prop} {a : α} {Q b n} (h : Q a b n) : safe B (pure a : Cur α) Q b n := h

theorem safe_bind {B : Nat → Prop} {m : Cur α} {f : α → Cur β} {Q b n}
    (h : safe B m (fun a b' n' => safe B (f a) Q b' n') b n) : safe B (m >>= f) Q b n := by
  show safe B (Cur.bind m f) Q b n
  unfold safe Cur.bind at *
  cases hm : m b n <;> simp [hm] at h ⊢ <;> exact h

theorem safe_bail {B : Nat → Prop} {e : String} {Q : α → Buf → Nat → Prop} {b n} (h : B n) :
    safe B (bail e : Cur α) Q b n := h

theorem safe_alloc {B : Nat → Prop} {k : Nat} {Q b n} (h : Q () b (n + k)) : safe B (alloc k) Q b n := h

theorem safe_remaining {B : Nat → Prop} {Q b n} (h : Q b.rem b n) : safe B remaining Q b n := h
theorem safe_restSlice {B : Nat → Prop} {Q b n} (h : ∀ a : Array UInt8, a.size = b.rem → Q a b n) :
    safe B restSlice Q b n := h _ (Buf.size_rest b)
theorem safe_getBuf {B : Nat → Prop} {Q b n} (h : Q b b n) : safe B getBuf Q b n := h
theorem safe_setBuf {B : Nat → Prop} {nb : Buf} {Q b n} (h : Q () nb n) : safe B (setBuf nb) Q b n := h

theorem safe_getBE {B : Nat → Prop} {k : Nat} {Q b n} (hk : k ≤ b.rem)
    (h : ∀ v b', v < 256 ^ k → b'.rem = b.rem - k → Q v b' n) : safe B (getBE k) Q b n := by
  unfold safe getBE
  simp only [hk, if_true]
  apply h _ _ (beVal_lt _ _ _)
  simp only [Buf.rem] at hk ⊢; omega

theorem safe_getU8 {B : Nat → Prop} {Q b n} (hk : 1 ≤ b.rem)
    (h : ∀ v b', v < 256 → b'.rem = b.rem - 1 → Q v b' n) : safe B getU8 Q b n :=
  safe_getBE hk (fun v b' hv hb => h v b' (by simpa using hv) hb)
theorem safe_getU16 {B : Nat → Prop} {Q b n} (hk : 2 ≤ b.rem)
    (h : ∀ v b', v < 65536 → b'.rem = b.rem - 2 → Q v b' n) : safe B getU16 Q b n :=
  safe_getBE hk (fun v b' hv hb => h v b' (by simpa using hv) hb)
theorem safe_getU24 {B : Nat → Prop} {Q b n} (hk : 3 ≤ b.rem)
    (h : ∀ v b', v < 16777216 → b'.rem = b.rem - 3 → Q v b' n) : safe B getU24 Q b n :=
  safe_getBE hk (fun v b' hv hb => h v b' (by simpa using hv) hb)
theorem safe_getU32 {B : Nat → Prop} {Q b n} (hk : 4 ≤ b.rem)
    (h : ∀ v b', v < 4294967296 → b'.rem = b.rem - 4 → Q v b' n) : safe B getU32 Q b n :=
  safe_getBE hk (fun v b' hv hb => h v b' (by simpa using hv) hb)
theorem safe_getU48 {B : Nat → Prop} {Q b n} (hk : 6 ≤ b.rem)
    (h : ∀ v b', v < 281474976710656 → b'.rem = b.rem - 6 → Q v b' n) : safe B getU48 Q b n :=
  safe_getBE hk (fun v b' hv hb => h v b' (by simpa using hv) hb)
theorem safe_getU64 {B : Nat → Prop} {Q b n} (hk : 8 ≤ b.rem)
    (h : ∀ v b', v < 18446744073709551616 → b'.rem = b.rem - 8 → Q v b' n) : safe B getU64 Q b n :=
  safe_getBE hk (fun v b' hv hb => h v b' (by simpa using hv) hb)

theorem safe_advance {B : Nat → Prop} {k : Nat} {Q b n} (hk : k ≤ b.rem)
    (h : ∀ b', b'.rem = b.rem - k → Q () b' n) : safe B (advance k) Q b n := by
  unfold safe advance
  simp only [hk, if_true]
  apply h
  simp only [Buf.rem] at hk ⊢; omega

theorem safe_splitTo {B : Nat → Prop} {k : Nat} {Q b n} (hk : k ≤ b.rem)
    (h : ∀ sub b', sub.rem = k → b'.rem = b.rem - k → Q sub b' n) : safe B (splitTo k) Q b n := by
  unfold safe splitTo
  simp only [hk, if_true]
  apply h
  · simp only [Buf.rem, Array.size_extract] at hk ⊢; omega
  · simp only [Buf.rem] at hk ⊢; omega

theorem safe_idx {B : Nat → Prop} {a : Array UInt8} {i : Nat} {Q b n} (hi : i < a.size)
    (h : ∀ v, v < 256 → Q v b n) : safe B (idx a i) Q b n := by
  unfold safe idx
  simp only [hi, dite_true]
  exact h _ (UInt8.toNat_lt _)

theorem safe_peek {B : Nat → Prop} {i : Nat} {Q b n} (hi : i < b.rem)
    (h : ∀ v, v < 256 → Q v b n) : safe B (peek i) Q b n := by
  unfold safe peek
  have : b.pos + i < b.data.size := by simp only [Buf.rem] at hi; omega
  simp only [this, dite_true]
  exact h _ (UInt8.toNat_lt _)

theorem safe_slice {B : Nat → Prop} {a : Array UInt8} {i j : Nat} {Q b n} (hi : i ≤ j) (hj : j ≤ a.size)
    (h : ∀ s : Array UInt8, s.size = j - i → Q s b n) : safe B (slice a i j) Q b n := by
  unfold safe slice
  simp only [hi, hj, and_self, if_true]
  apply h
  simp only [Array.size_extract]; omega

theorem safe_sliceLen {B : Nat → Prop} {len i j : Nat} {Q b n} (hi : i ≤ j) (hj : j ≤ len)
    (h : Q (j - i) b n) : safe B (sliceLen len i j) Q b n := by
  unfold safe sliceLen
  simp only [hi, hj, and_self, if_true]
  exact h

theorem safe_onBuf {B : Nat → Prop} {sub : Buf} {m : Cur α} {Q : (α × Buf) → Buf → Nat → Prop} {b n}
    (h : safe B m (fun a sub' n' => Q (a, sub') b n') sub n) : safe B (onBuf sub m) Q b n := by
  unfold safe onBuf at *
  cases hm : m sub n <;> simp [hm] at h ⊢ <;> exact h

theorem safe_attemptD {B : Nat → Prop} {m : Cur α} {d : α} {Q : (Bool × α) → Buf → Nat → Prop} {b n}
    (h : safe (fun n' => Q (false, d) b n') m (fun a b' n' => Q (true, a) b' n') b n) :
    safe B (attemptD m d) Q b n := by
  unfold safe attemptD at *
  cases hm : m b n <;> simp [hm] at h ⊢ <;> exact h

theorem safe_weaken_err {E E' : Nat → Prop} {m : Cur α} {Q b n} (h : safe E m Q b n)
    (he : ∀ k, E k → E' k) : safe E' m Q b n := by
  unfold safe at *
  cases hm : m b n <;> simp [hm] at h ⊢
  · exact h
  · exact he _ h

/-- `attemptD` with a numeric allocation bound on the swallowed error path -/
theorem safe_attemptD' {E : Nat → Prop} {B : Nat} {m : Cur α} {d : α} {Q : (Bool × α) → Buf → Nat → Prop} {b n}
    (hErr : ∀ n', n' ≤ B → Q (false, d) b n')
    (h : safe (· ≤ B) m (fun a b' n' => Q (true, a) b' n') b n) : safe E (attemptD m d) Q b n :=
  safe_attemptD (safe_weaken_err h hErr)

theorem safe_ite {B : Nat → Prop} {c : Prop} [Decidable c] {m1 m2 : Cur α} {Q b n}
    (h1 : c → safe B m1 Q b n) (h2 : ¬c → safe B m2 Q b n) : safe B (if c then m1 else m2) Q b n := by
  split
  · exact h1 ‹_›
  · exact h2 ‹_›

/-- loop rule: an invariant `Inv` and a measure `μ` that strictly decreases on every `inl`. -/
theorem safe_loop {B : Nat → Prop} {body : σ → Cur (σ ⊕ β)} {Q : β → Buf → Nat → Prop}
    (Inv : σ → Buf → Nat → Prop) (μ : σ → Buf → Nat)
    (hbody : ∀ s b n, Inv s b n →
      safe B (body s) (fun r b' n' => match r with
        | .inl s' => Inv s' b' n' ∧ μ s' b' < μ s b
        | .inr r => Q r b' n') b n) :
    ∀ fuel s b n, Inv s b n → μ s b < fuel → safe B (loopM body fuel s) Q b n := by
  intro fuel
  induction fuel with
  | zero => intro s b n _ h; omega
  | succ fuel ih =>
    intro s b n hinv hμ
    unfold loopM
    apply safe_bind
    apply safe_mono (hbody s b n hinv)
    intro r b' n' hr
    cases r with
    | inl s' =>
      simp only at hr ⊢
      exact ih s' b' n' hr.1 (by omega)
    | inr r => exact safe_pure hr

/-- digest of a byte array (driver output only) -/
def foldA (a : Array UInt8) : Nat := a.foldl (fun acc x => (acc * 31 + x.toNat) % 4294967296) 7
/-- digest of a list of numbers (driver output only) -/
def foldL (l : List Nat) : Nat := l.foldl (fun acc x => (acc * 31 + x) % 4294967296) 7

/-- `while buf.len() >= 2 { v.push(buf.get_u16()) }`; 2 bytes allocated per element -/
def getU16sAll : Nat → Cur (List Nat)
  | 0 => panicAt "hang"
  | fuel + 1 => do
    if (← remaining) ≥ 2 then
      let v ← getU16
      alloc 2
      let r ← getU16sAll fuel
      pure (v :: r)
    else pure []

/-- read `k` big-endian u32 values (`(0..k).map(|_| buf.get_u32()).collect()`) -/
def getU32s : Nat → Cur (List Nat)
  | 0 => pure []
  | k + 1 => do
    let v ← getU32
    let r ← getU32s k
    pure (v :: r)

theorem safe_getU32s {B : Nat → Prop} (k : Nat) {Q b n} (hk : 4 * k ≤ b.rem)
    (h : ∀ l b', l.length = k → b'.rem = b.rem - 4 * k → Q l b' n) : safe B (getU32s k) Q b n := by
  induction k generalizing b Q with
  | zero => exact safe_pure (h [] b rfl (by omega))
  | succ k ih =>
    unfold getU32s
    apply safe_bind
    apply safe_getU32 (by omega); intro v b1 _ hb1
    apply safe_bind
    apply ih (by omega); intro l b2 hl hb2
    apply safe_pure
    apply h _ _ (by simp [hl]) (by omega)

/-- `u16::from_be_bytes([a[i], a[i+1]])` -/
def be16 (a : Array UInt8) (i : Nat) : Cur Nat := do
  let x ← idx a i
  let y ← idx a (i + 1)
  pure (x * 256 + y)

/-- `u32::from_be_bytes([a[i], a[i+1], a[i+2], a[i+3]])` -/
def be32 (a : Array UInt8) (i : Nat) : Cur Nat := do
  let x ← idx a i
  let y ← idx a (i + 1)
  let z ← idx a (i + 2)
  let w ← idx a (i + 3)
  pure (((x * 256 + y) * 256 + z) * 256 + w)

theorem safe_be16 {B : Nat → Prop} {a : Array UInt8} {i : Nat} {Q b n} (hi : i + 2 ≤ a.size)
    (h : ∀ v, v < 65536 → Q v b n) : safe B (be16 a i) Q b n := by
  unfold be16
  apply safe_bind; apply safe_idx (by omega); intro x hx
  apply safe_bind; apply safe_idx (by omega); intro y hy
  apply safe_pure; apply h; omega

theorem safe_be32 {B : Nat → Prop} {a : Array UInt8} {i : Nat} {Q b n} (hi : i + 4 ≤ a.size)
    (h : ∀ v, v < 4294967296 → Q v b n) : safe B (be32 a i) Q b n := by
  unfold be32
  apply safe_bind; apply safe_idx (by omega); intro x hx
  apply safe_bind; apply safe_idx (by omega); intro y hy
  apply safe_bind; apply safe_idx (by omega); intro z hz
  apply safe_bind; apply safe_idx (by omega); intro w hw
  apply safe_pure; apply h; omega

theorem safe_getU16sAll {B : Nat} (fuel : Nat) {Q b n} (hf : b.rem < 2 * fuel) (hn : n + b.rem ≤ B)
    (h : ∀ l b' n', n' ≤ n + b.rem → b'.rem < 2 → Q l b' n') : safe (· ≤ B) (getU16sAll fuel) Q b n := by
  induction fuel generalizing b n Q with
  | zero => omega
  | succ fuel ih =>
    unfold getU16sAll
    apply safe_bind; apply safe_remaining
    apply safe_ite <;> intro hc
    · apply safe_bind; apply safe_getU16 (by omega); intro v b1 _ hb1
      apply safe_bind; apply safe_alloc
      apply safe_bind
      apply ih (by omega) (by omega)
      intro l b2 n2 hn2 hb2
      apply safe_pure
      apply h _ _ _ (by omega) hb2
    · apply safe_pure
      apply h _ _ _ (by omega) (by omega)

attribute [irreducible] getU16sAll be16 be32 safe Cur.pure Cur.bind bail panicAt alloc remaining restSlice setBuf getBuf getBE getU8 getU16
  getU24 getU32 getU48 getU64 advance splitTo peek idx slice sliceLen onBuf attemptD loopM getU32s

/-- `omega` after reducing projections of tuple states -/
macro "domega" : tactic => `(tactic| first | omega | (dsimp only <;> omega))

/-- the mechanical WP chain: applies the primitive rules as long as their side conditions are closed by
`omega`; stops (leaving the goal) at calls of other decoders, loops, or unprovable guards. -/
macro "cur_auto" : tactic => `(tactic| repeat' (first
  | (apply safe_bail; first | omega | (dsimp only; omega) | trivial | skip)
  | apply safe_bind
  | apply safe_pure
  | apply safe_remaining
  | apply safe_getBuf
  | apply safe_setBuf
  | apply safe_alloc
  | apply safe_onBuf
  | (apply safe_ite <;> intro _)
  | (apply safe_getU8 (by omega); intro _ _ _ _)
  | (apply safe_getU16 (by omega); intro _ _ _ _)
  | (apply safe_getU24 (by omega); intro _ _ _ _)
  | (apply safe_getU32 (by omega); intro _ _ _ _)
  | (apply safe_getU48 (by omega); intro _ _ _ _)
  | (apply safe_getU64 (by omega); intro _ _ _ _)
  | (apply safe_getU32s _ (by omega); intro _ _ _ _)
  | (apply safe_getU16sAll _ (by omega) (by omega); intro _ _ _ _ _)
  | (apply safe_advance (by omega); intro _ _)
  | (apply safe_splitTo (by omega); intro _ _ _ _)
  | (apply safe_idx (by omega); intro _ _)
  | (apply safe_peek (by omega); intro _ _)
  | (apply safe_be16 (by omega); intro _ _)
  | (apply safe_be32 (by omega); intro _ _)
  | (apply safe_slice (by omega) (by omega); intro _ _)
  | (apply safe_sliceLen (by omega) (by omega))
  | (apply safe_restSlice; intro _ _)
  | omega
  | trivial
  | (refine ⟨?_, ?_⟩)
  | dsimp only))

end RtcModel.C07
