/-
AES-128-GCM (96-bit nonce, 128-bit tag), executable, core Lean only. Built from `Aes.encryptBlock`
and a bitwise GHASH on pairs of `UInt64`. Driver-side instantiation of the abstract AEAD.
-/
import RtcModel.Base.C04Aes
namespace RtcModel.C04.Gcm
open RtcModel.C04 RtcModel.C04.Aes

structure B128 where
  hi : UInt64
  lo : UInt64

def B128.xor (a b : B128) : B128 := ⟨a.hi ^^^ b.hi, a.lo ^^^ b.lo⟩

def u64OfBytes (bs : Bytes) : UInt64 := bs.foldl (fun acc b => (acc <<< 8) ||| b.toUInt64) 0

/-- a block of up to 16 bytes, zero-padded on the right -/
def ofBytes (bs : Bytes) : B128 :=
  let p := bs.take 16 ++ List.replicate (16 - bs.length) 0
  ⟨u64OfBytes (p.take 8), u64OfBytes (p.drop 8)⟩

def u64Bytes (w : UInt64) : Bytes :=
  [(w >>> 56).toUInt8, (w >>> 48).toUInt8, (w >>> 40).toUInt8, (w >>> 32).toUInt8,
   (w >>> 24).toUInt8, (w >>> 16).toUInt8, (w >>> 8).toUInt8, w.toUInt8]

def toBytes (x : B128) : Bytes := u64Bytes x.hi ++ u64Bytes x.lo

theorem toBytes_length (x : B128) : (toBytes x).length = 16 := by simp [toBytes, u64Bytes]

/-- multiplication in GF(2^128) with the GCM bit order (NIST SP 800-38D, algorithm 1) -/
def gmul (x y : B128) : B128 := Id.run do
  let mut z : B128 := ⟨0, 0⟩
  let mut v := y
  for i in [0:128] do
    let bit := if i < 64 then (x.hi >>> (63 - i).toUInt64) &&& 1 else (x.lo >>> (127 - i).toUInt64) &&& 1
    if bit = 1 then z := z.xor v
    let lsb := v.lo &&& 1
    v := ⟨v.hi >>> 1, (v.lo >>> 1) ||| (v.hi <<< 63)⟩
    if lsb = 1 then v := ⟨v.hi ^^^ 0xE100000000000000, v.lo⟩
  return z

def ghashBlocks (h : B128) : Nat → Bytes → B128 → B128
  | 0, _, y => y
  | n + 1, bs, y => ghashBlocks h n (bs.drop 16) (gmul (y.xor (ofBytes (bs.take 16))) h)

def ghash (h : B128) (aad ct : Bytes) : B128 :=
  let y := ghashBlocks h ((aad.length + 15) / 16) aad ⟨0, 0⟩
  let y := ghashBlocks h ((ct.length + 15) / 16) ct y
  gmul (y.xor ⟨UInt64.ofNat (aad.length * 8), UInt64.ofNat (ct.length * 8)⟩) h

/-- 32-bit big-endian increment of the last four bytes of a 16-byte counter block -/
def inc32 (cb : Bytes) : Bytes :=
  cb.take 12 ++ be32 ((decBE (cb.drop 12) 0 + 1) % 4294967296)

def gctrBlocks (rk : Array UInt8) : Nat → Bytes → Bytes → Bytes
  | 0, _, acc => acc
  | n + 1, cb, acc => gctrBlocks rk n (inc32 cb) (acc ++ encryptBlock rk cb)

def gctrStream (rk : Array UInt8) (cb : Bytes) (len : Nat) : Bytes :=
  ((gctrBlocks rk ((len + 15) / 16) cb []) ++ List.replicate len 0).take len

theorem gctrStream_length (rk : Array UInt8) (cb : Bytes) (len : Nat) :
    (gctrStream rk cb len).length = len := by
  simp [gctrStream, List.length_take, List.length_append]

def tagOf (rk : Array UInt8) (nonce aad ct : Bytes) : Bytes :=
  let h := ofBytes (encryptBlock rk (List.replicate 16 0))
  let j0 := nonce.take 12 ++ List.replicate (12 - nonce.length) 0 ++ [0, 0, 0, 1]
  toBytes ((ghash h aad ct).xor (ofBytes (encryptBlock rk j0)))

theorem tagOf_length (rk : Array UInt8) (nonce aad ct : Bytes) : (tagOf rk nonce aad ct).length = 16 := by
  simp [tagOf, toBytes_length]

def body (rk : Array UInt8) (nonce data : Bytes) : Bytes :=
  let j0 := nonce.take 12 ++ List.replicate (12 - nonce.length) 0 ++ [0, 0, 0, 1]
  xorBytes data (gctrStream rk (inc32 j0) data.length)

theorem body_length (rk : Array UInt8) (nonce data : Bytes) : (body rk nonce data).length = data.length := by
  simp [body, gctrStream_length]

theorem body_body (rk : Array UInt8) (nonce data : Bytes) : body rk nonce (body rk nonce data) = data := by
  have h := body_length rk nonce data
  unfold body at h ⊢
  simp only [h]
  exact xorBytes_involutive _ _ (gctrStream_length _ _ _)

/-- ciphertext ‖ 16-byte tag -/
def gcmSeal (key nonce aad pt : Bytes) : Bytes :=
  body (expandKey key) nonce pt ++ tagOf (expandKey key) nonce aad (body (expandKey key) nonce pt)

def gcmOpen (key nonce aad c : Bytes) : Option Bytes :=
  if c.length < 16 then none
  else if tagOf (expandKey key) nonce aad (c.take (c.length - 16)) = c.drop (c.length - 16) then
    some (body (expandKey key) nonce (c.take (c.length - 16)))
  else none

theorem gcmSeal_length (key nonce aad pt : Bytes) : (gcmSeal key nonce aad pt).length = pt.length + 16 := by
  simp [gcmSeal, body_length, tagOf_length]

theorem gcmOpen_gcmSeal (key nonce aad pt : Bytes) : gcmOpen key nonce aad (gcmSeal key nonce aad pt) = some pt := by
  have hl := gcmSeal_length key nonce aad pt
  unfold gcmOpen
  have h1 : ¬ (gcmSeal key nonce aad pt).length < 16 := by omega
  simp only [h1, if_false, hl, Nat.add_sub_cancel]
  have hb := body_length (expandKey key) nonce pt
  have ht : (gcmSeal key nonce aad pt).take pt.length = body (expandKey key) nonce pt := by
    unfold gcmSeal; exact List.take_left' hb
  have hd : (gcmSeal key nonce aad pt).drop pt.length =
      tagOf (expandKey key) nonce aad (body (expandKey key) nonce pt) := by
    unfold gcmSeal; exact List.drop_left' hb
  simp only [ht, hd, if_true, body_body]
  split
  · omega
  · rfl

theorem gcmOpen_length (key nonce aad c p : Bytes) (h : gcmOpen key nonce aad c = some p) :
    c.length = p.length + 16 := by
  unfold gcmOpen at h
  split at h
  · simp at h
  · split at h
    · simp only [Option.some.injEq] at h
      subst h
      simp [body_length]; omega
    · simp at h

end RtcModel.C04.Gcm
