/-
Byte-string helpers for the STUN/TURN/ICE models (C16, C06): big-endian codecs on `Nat` with the
truncating-cast behaviour of Rust's `as u16` / `to_be_bytes`, 4-byte padding, positional lemmas on
`take`/`drop` over appends.  Core Lean only.
-/
namespace RtcModel.C16Bytes

abbrev Bytes := List UInt8

/-- `(n as u16).to_be_bytes()` — truncating. -/
def be16 (n : Nat) : Bytes := [UInt8.ofNat (n / 256), UInt8.ofNat n]
/-- `(n as u32).to_be_bytes()` — truncating. -/
def be32 (n : Nat) : Bytes :=
  [UInt8.ofNat (n / 16777216), UInt8.ofNat (n / 65536), UInt8.ofNat (n / 256), UInt8.ofNat n]
/-- `(n as u64).to_be_bytes()` — truncating. -/
def be64 (n : Nat) : Bytes := be32 (n / 4294967296) ++ be32 n

/-- `u16::from_be_bytes([a, b])` -/
def rd16 (a b : UInt8) : Nat := a.toNat * 256 + b.toNat
/-- `u32::from_be_bytes([a, b, c, d])` -/
def rd32 (a b c d : UInt8) : Nat :=
  ((a.toNat * 256 + b.toNat) * 256 + c.toNat) * 256 + d.toNat

/-- `(4 - (len % 4)) % 4` -/
def pad4 (n : Nat) : Nat := (4 - n % 4) % 4

def zeros (n : Nat) : Bytes := List.replicate n 0

/-- byte-wise xor of two strings (`zip` semantics: stops at the shorter one) -/
def xorBytes (a k : Bytes) : Bytes := List.zipWith (· ^^^ ·) a k

@[simp] theorem be16_length (n : Nat) : (be16 n).length = 2 := rfl
@[simp] theorem be32_length (n : Nat) : (be32 n).length = 4 := rfl
@[simp] theorem be64_length (n : Nat) : (be64 n).length = 8 := rfl
@[simp] theorem zeros_length (n : Nat) : (zeros n).length = n := by simp [zeros]

theorem pad4_lt (n : Nat) : pad4 n < 4 := by unfold pad4; omega
theorem add_pad4_mod (n : Nat) : (n + pad4 n) % 4 = 0 := by unfold pad4; omega
theorem pad4_of_aligned {n : Nat} (h : n % 4 = 0) : pad4 n = 0 := by unfold pad4; omega
theorem pad4_add_aligned {m n : Nat} (h : m % 4 = 0) : pad4 (m + n) = pad4 n := by
  unfold pad4; omega

theorem rd16_lt (a b : UInt8) : rd16 a b < 65536 := by
  have := a.toNat_lt; have := b.toNat_lt; unfold rd16; omega

theorem rd16_be16 {n : Nat} (h : n < 65536) :
    rd16 (UInt8.ofNat (n / 256)) (UInt8.ofNat n) = n := by
  simp only [rd16, UInt8.toNat_ofNat']; omega

theorem rd32_be32 {n : Nat} (h : n < 4294967296) :
    rd32 (UInt8.ofNat (n / 16777216)) (UInt8.ofNat (n / 65536)) (UInt8.ofNat (n / 256))
      (UInt8.ofNat n) = n := by
  simp only [rd32, UInt8.toNat_ofNat']; omega

/-- truncation: only the low 16 bits matter -/
theorem be16_mod (n : Nat) : be16 (n % 65536) = be16 n := by
  simp only [be16]
  congr 1
  · apply UInt8.toNat_inj.mp; simp only [UInt8.toNat_ofNat']; omega
  · congr 1; apply UInt8.toNat_inj.mp; simp only [UInt8.toNat_ofNat']; omega

theorem take_append_len {α} {l1 l2 : List α} {n : Nat} (h : l1.length = n) :
    (l1 ++ l2).take n = l1 := by
  subst h; simp

theorem drop_append_len {α} {l1 l2 : List α} {n : Nat} (h : l1.length = n) :
    (l1 ++ l2).drop n = l2 := by
  subst h; simp

theorem xorBytes_length (a k : Bytes) : (xorBytes a k).length = min a.length k.length := by
  simp [xorBytes]

/-- xor with the same key twice is the identity (key at least as long as the data) -/
theorem xorBytes_xorBytes (a k : Bytes) (h : a.length ≤ k.length) :
    xorBytes (xorBytes a k) k = a := by
  induction a generalizing k with
  | nil => simp [xorBytes]
  | cons x xs ih =>
    cases k with
    | nil => simp at h
    | cons y ys =>
      simp only [xorBytes, List.zipWith_cons_cons] at *
      rw [ih ys (by simpa using h)]
      congr 1
      rw [UInt8.xor_assoc, UInt8.xor_self, UInt8.xor_zero]

end RtcModel.C16Bytes
