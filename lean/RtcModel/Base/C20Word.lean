/-
C20 — machine-word (usize) arithmetic of the SPSC ring indices, as the code writes it:
`wrapping_add(1)`, `wrapping_sub`, `% capacity`, for an arbitrary word modulus `W`
(`W = 2^64` on the usual targets, `2^32` on 32-bit ones), and the facts that relate the
wrapped indices to the unbounded operation counters used by the invariants.
Core Lean only.
-/
namespace RtcModel.C20Word

/-- `x.wrapping_add(1)` for `x < W` -/
def winc (W x : Nat) : Nat := (x + 1) % W

/-- `x.wrapping_add(k)` for `x < W` -/
def wadd (W x k : Nat) : Nat := (x + k) % W

theorem wadd_one (W x : Nat) : wadd W x 1 = winc W x := rfl

/-- `a.wrapping_sub(b)` for `a, b < W` -/
def wsub (W a b : Nat) : Nat := (a + W - b) % W

/-- residues are injective on any window shorter than the modulus -/
theorem mod_inj_window {a b c : Nat} (hab : a ≤ b) (hlt : b - a < c) (h : a % c = b % c) : a = b := by
  have h0 : (b - a) % c = 0 := Nat.sub_mod_eq_zero_of_mod_eq h.symm
  rw [Nat.mod_eq_of_lt hlt] at h0
  omega

theorem mod_ne_window {a b c : Nat} (hab : a < b) (hlt : b - a < c) : a % c ≠ b % c :=
  fun h => by have := mod_inj_window (Nat.le_of_lt hab) hlt h; omega

theorem mod_ne_window' {a b c : Nat} (hab : a < b) (hlt : b - a < c) : b % c ≠ a % c :=
  fun h => mod_ne_window hab hlt h.symm

/-- the stored index after `wrapping_add(1)` is the wrapped successor of the counter -/
theorem winc_count (W n : Nat) : winc W (n % W) = (n + 1) % W := by
  unfold winc; exact Nat.mod_add_mod n W 1

/-- `wrapping_sub` of two wrapped counters is their true distance when that is below `W` -/
theorem wsub_count {W a b : Nat} (hab : a ≤ b) (hlt : b - a < W) :
    wsub W (b % W) (a % W) = b - a := by
  unfold wsub
  have hW : 0 < W := by omega
  have hx : a % W < W := Nat.mod_lt _ hW
  have hb : b % W = (a % W + (b - a)) % W := by
    have : b = a + (b - a) := by omega
    conv => lhs; rw [this]
    exact (Nat.mod_add_mod a W (b - a)).symm
  rw [hb]
  by_cases hc : a % W + (b - a) < W
  · rw [Nat.mod_eq_of_lt hc]
    have : a % W + (b - a) + W - a % W = (b - a) + W := by omega
    rw [this, Nat.add_mod_right, Nat.mod_eq_of_lt hlt]
  · have hge : a % W + (b - a) ≥ W := by omega
    rw [Nat.mod_eq_sub_mod hge]
    have hlt2 : a % W + (b - a) - W < W := by omega
    rw [Nat.mod_eq_of_lt hlt2]
    have : a % W + (b - a) - W + W - a % W = b - a := by omega
    rw [this, Nat.mod_eq_of_lt hlt]

/-- equality test of two wrapped counters decides equality of the counters on a short window -/
theorem wrapped_eq_iff {W a b : Nat} (hab : a ≤ b) (hlt : b - a < W) : a % W = b % W ↔ a = b :=
  ⟨mod_inj_window hab hlt, fun h => by rw [h]⟩

/-- The slot index computed from the wrapped counter equals the one computed from the true
counter as long as the counter has not wrapped, or always when the capacity divides `W`. -/
theorem idx_count {W cap n : Nat} (h : cap ∣ W ∨ n < W) : (n % W) % cap = n % cap := by
  cases h with
  | inl hd => exact Nat.mod_mod_of_dvd n hd
  | inr hl => rw [Nat.mod_eq_of_lt hl]

/-- `n.next_power_of_two()` (smallest power of two `≥ n`; 1 for `n ≤ 1`) -/
def nextPow2 (n : Nat) : Nat := if n ≤ 1 then 1 else 2 ^ (Nat.log2 (n - 1) + 1)

theorem nextPow2_isPow (n : Nat) : ∃ j, nextPow2 n = 2 ^ j := by
  unfold nextPow2; split
  · exact ⟨0, rfl⟩
  · exact ⟨_, rfl⟩

theorem le_nextPow2 (n : Nat) : n ≤ nextPow2 n := by
  unfold nextPow2; split
  · omega
  · have := @Nat.lt_log2_self (n - 1); omega

theorem nextPow2_dvd {n k : Nat} (h : n ≤ 2 ^ k) : nextPow2 n ∣ 2 ^ k := by
  unfold nextPow2; split
  · exact Nat.one_dvd _
  · rename_i hn
    have h1 : n - 1 ≠ 0 := by omega
    have h2 : Nat.log2 (n - 1) < k := (Nat.log2_lt h1).2 (by omega)
    exact Nat.pow_dvd_pow 2 (by omega)

/-- `x & mask` for `mask = 2^j - 1` is `x % 2^j` -/
theorem and_mask_eq_mod {x mask j : Nat} (h : mask + 1 = 2 ^ j) : x &&& mask = x % (mask + 1) := by
  have : mask = 2 ^ j - 1 := by omega
  rw [h, this]; exact Nat.and_two_pow_sub_one_eq_mod x j

/-- the slot index computed from the wrapped counter equals the one computed from the true counter
when the slot count divides the word modulus -/
theorem idx_count' {W n x : Nat} (h : n ∣ W) : (x % W) % n = x % n := Nat.mod_mod_of_dvd x h

end RtcModel.C20Word
