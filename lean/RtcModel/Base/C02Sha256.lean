/-
SHA-256, HMAC-SHA-256 and the TLS 1.2 PRF (P_SHA256), executable, core Lean only.
Used by the C02 / C11 drivers to compute `verify_data` from the master secret and the model's own
transcript bytes (so the transcript rule of the model is compared with the code byte for byte).
Validated against the FIPS 180-4 / RFC 4231 vectors by `selfTest` (a test, labelled so).
-/
namespace RtcModel.C02Sha256

abbrev Bytes := List UInt8

def K : Array UInt32 := #[
  0x428a2f98, 0x71374491, 0xb5c0fbcf, 0xe9b5dba5, 0x3956c25b, 0x59f111f1, 0x923f82a4, 0xab1c5ed5,
  0xd807aa98, 0x12835b01, 0x243185be, 0x550c7dc3, 0x72be5d74, 0x80deb1fe, 0x9bdc06a7, 0xc19bf174,
  0xe49b69c1, 0xefbe4786, 0x0fc19dc6, 0x240ca1cc, 0x2de92c6f, 0x4a7484aa, 0x5cb0a9dc, 0x76f988da,
  0x983e5152, 0xa831c66d, 0xb00327c8, 0xbf597fc7, 0xc6e00bf3, 0xd5a79147, 0x06ca6351, 0x14292967,
  0x27b70a85, 0x2e1b2138, 0x4d2c6dfc, 0x53380d13, 0x650a7354, 0x766a0abb, 0x81c2c92e, 0x92722c85,
  0xa2bfe8a1, 0xa81a664b, 0xc24b8b70, 0xc76c51a3, 0xd192e819, 0xd6990624, 0xf40e3585, 0x106aa070,
  0x19a4c116, 0x1e376c08, 0x2748774c, 0x34b0bcb5, 0x391c0cb3, 0x4ed8aa4a, 0x5b9cca4f, 0x682e6ff3,
  0x748f82ee, 0x78a5636f, 0x84c87814, 0x8cc70208, 0x90befffa, 0xa4506ceb, 0xbef9a3f7, 0xc67178f2]

def H0 : Array UInt32 := #[0x6a09e667, 0xbb67ae85, 0x3c6ef372, 0xa54ff53a, 0x510e527f, 0x9b05688c, 0x1f83d9ab, 0x5be0cd19]

def rotr (x : UInt32) (n : UInt32) : UInt32 := (x >>> n) ||| (x <<< (32 - n))

def be32 (a b c d : UInt8) : UInt32 :=
  (a.toUInt32 <<< 24) ||| (b.toUInt32 <<< 16) ||| (c.toUInt32 <<< 8) ||| d.toUInt32

def wordBytes (w : UInt32) : Bytes :=
  [(w >>> 24).toUInt8, (w >>> 16).toUInt8, (w >>> 8).toUInt8, w.toUInt8]

def len64 (n : Nat) : Bytes :=
  (List.range 8).map fun i => UInt8.ofNat (n / 256 ^ (7 - i) % 256)

def pad (m : Bytes) : Bytes :=
  let l := m.length
  let z := (55 + 64 - l % 64) % 64
  m ++ [0x80] ++ List.replicate z 0 ++ len64 (l * 8)

def schedule (blk : Array UInt8) : Array UInt32 := Id.run do
  let mut w : Array UInt32 := Array.replicate 64 0
  for i in [0:16] do
    w := w.set! i (be32 blk[4 * i]! blk[4 * i + 1]! blk[4 * i + 2]! blk[4 * i + 3]!)
  for i in [16:64] do
    let x := w[i - 15]!
    let y := w[i - 2]!
    let s0 := rotr x 7 ^^^ rotr x 18 ^^^ (x >>> 3)
    let s1 := rotr y 17 ^^^ rotr y 19 ^^^ (y >>> 10)
    w := w.set! i (w[i - 16]! + s0 + w[i - 7]! + s1)
  return w

def compress (h : Array UInt32) (blk : Array UInt8) : Array UInt32 := Id.run do
  let w := schedule blk
  let mut a := h[0]!
  let mut b := h[1]!
  let mut c := h[2]!
  let mut d := h[3]!
  let mut e := h[4]!
  let mut f := h[5]!
  let mut g := h[6]!
  let mut hh := h[7]!
  for i in [0:64] do
    let s1 := rotr e 6 ^^^ rotr e 11 ^^^ rotr e 25
    let ch := (e &&& f) ^^^ ((~~~ e) &&& g)
    let t1 := hh + s1 + ch + K[i]! + w[i]!
    let s0 := rotr a 2 ^^^ rotr a 13 ^^^ rotr a 22
    let mj := (a &&& b) ^^^ (a &&& c) ^^^ (b &&& c)
    let t2 := s0 + mj
    hh := g; g := f; f := e; e := d + t1; d := c; c := b; b := a; a := t1 + t2
  return #[h[0]! + a, h[1]! + b, h[2]! + c, h[3]! + d, h[4]! + e, h[5]! + f, h[6]! + g, h[7]! + hh]

def sha256 (m : Bytes) : Bytes := Id.run do
  let p := (pad m).toArray
  let mut h := H0
  for i in [0:p.size / 64] do
    h := compress h (p.extract (64 * i) (64 * i + 64))
  return h.toList.flatMap wordBytes

def xorPad (k : Bytes) (v : UInt8) : Bytes :=
  (k ++ List.replicate (64 - k.length) 0).map (· ^^^ v)

def hmac (key msg : Bytes) : Bytes :=
  let k := if key.length > 64 then sha256 key else key
  sha256 (xorPad k 0x5c ++ sha256 (xorPad k 0x36 ++ msg))

/-- `prf_sha256(secret, label, seed, n)` -/
def prf (secret label seed : Bytes) (n : Nat) : Bytes := Id.run do
  let realSeed := label ++ seed
  let mut a := realSeed
  let mut out : Bytes := []
  for _ in [0:(n + 31) / 32] do
    a := hmac secret a
    out := out ++ hmac secret (a ++ realSeed)
  return out.take n

def ascii (s : String) : Bytes := s.toList.map (fun c => UInt8.ofNat c.toNat)

def hexOf (bs : Bytes) : String :=
  let d (n : Nat) : Char := if n < 10 then Char.ofNat (n + 48) else Char.ofNat (n + 87)
  String.ofList (bs.flatMap fun b => [d (b.toNat / 16), d (b.toNat % 16)])

/-- known-answer tests: SHA-256("abc"), SHA-256 of the 56-byte FIPS message, RFC 4231 test case 2 -/
def selfTest : Bool :=
  hexOf (sha256 (ascii "abc")) = "ba7816bf8f01cfea414140de5dae2223b00361a396177a9cb410ff61f20015ad" &&
  hexOf (sha256 (ascii "abcdbcdecdefdefgefghfghighijhijkijkljklmklmnlmnomnopnopq")) =
    "248d6a61d20638b8e5c026930c3e6039a33ce45964ff2167f6ecedd419db06c1" &&
  hexOf (hmac (ascii "Jefe") (ascii "what do ya want for nothing?")) =
    "5bdcc146bf60754e6a042426089575c75a003f089d2739839dec58b964ec3843"

end RtcModel.C02Sha256
