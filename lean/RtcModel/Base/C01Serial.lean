/-
Serial-number arithmetic exactly as `src/transports/sctp.rs` writes it
(`(a.wrapping_sub(b) as i32) > 0` etc.) on `UInt32` (TSN) and `UInt16` (SSN).
Core Lean only.
-/
namespace RtcModel.Sctp

abbrev Bytes := List UInt8

/-- `(x as i32) > 0` for a `u32` -/
def i32Pos (x : UInt32) : Bool := x != 0 && x < 0x80000000
/-- `(x as i32) <= 0` -/
def i32NonPos (x : UInt32) : Bool := !(i32Pos x)
/-- `(x as i32) < 0` -/
def i32Neg (x : UInt32) : Bool := x ≥ 0x80000000
/-- `(x as i16) > 0` for a `u16` -/
def i16Pos (x : UInt16) : Bool := x != 0 && x < 0x8000

/-- `tsn_gt(a, b)` = `(a.wrapping_sub(b) as i32) > 0` -/
def tsnGt (a b : UInt32) : Bool := i32Pos (a - b)
/-- `ssn_gt(a, b)` = `(a.wrapping_sub(b) as i16) > 0` -/
def ssnGt (a b : UInt16) : Bool := i16Pos (a - b)

end RtcModel.Sctp
