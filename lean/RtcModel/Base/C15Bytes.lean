/-
C15 — byte-level helpers shared by the RTP / RTCP / RTX models (core Lean only).

Big-endian codecs are written arithmetically (`/`, `%` on `toNat`) straight from the RFC bit
layouts, so that `omega` can reason about them; the correspondence check ties them to the code's
shift/mask formulation.
-/
namespace RtcModel.C15

abbrev Bytes := List UInt8

@[inline] def u8 (n : Nat) : UInt8 := UInt8.ofNat n

def be16 (x : UInt16) : Bytes := [u8 (x.toNat / 256), u8 (x.toNat % 256)]

def be32 (x : UInt32) : Bytes :=
  [u8 (x.toNat / 16777216), u8 (x.toNat / 65536 % 256), u8 (x.toNat / 256 % 256), u8 (x.toNat % 256)]

/-- low 16 bits of a natural number, big-endian (an `as u16` cast followed by `to_be_bytes`) -/
def be16n (n : Nat) : Bytes := [u8 (n / 256 % 256), u8 (n % 256)]

/-- low 24 bits of a natural number, big-endian -/
def be24n (n : Nat) : Bytes := [u8 (n / 65536 % 256), u8 (n / 256 % 256), u8 (n % 256)]

def rd16 (a b : UInt8) : UInt16 := UInt16.ofNat (a.toNat * 256 + b.toNat)

def rd24n (a b c : UInt8) : Nat := a.toNat * 65536 + b.toNat * 256 + c.toNat

def rd32 (a b c d : UInt8) : UInt32 :=
  UInt32.ofNat (a.toNat * 16777216 + b.toNat * 65536 + c.toNat * 256 + d.toNat)

/-- zero padding up to the next multiple of four -/
def pad4 (n : Nat) : Nat := (4 - n % 4) % 4

/-- Errors of `RtpError`, with the static message of the two message-carrying variants. -/
inductive Err where
  | short                       -- PacketTooShort
  | version (v : Nat)           -- UnsupportedVersion(v)
  | hdr (msg : String)          -- InvalidHeader(msg)
  | rtcp (msg : String)         -- InvalidRtcp(msg)
  | len                         -- LengthMismatch
  deriving DecidableEq, Repr

/-- read `n` big-endian 32-bit words (caller has checked `4*n ≤ length`) -/
def readU32s : Nat → Bytes → List UInt32 × Bytes
  | 0, bs => ([], bs)
  | n + 1, a :: b :: c :: d :: rest =>
    let r := readU32s n rest
    (rd32 a b c d :: r.1, r.2)
  | _ + 1, bs => ([], bs)

def be32s (xs : List UInt32) : Bytes := xs.flatMap be32

end RtcModel.C15
