/-
SHA-1 and HMAC-SHA1, executable, core Lean only (driver-side instantiation of the abstract MAC).
-/
import RtcModel.Base.C04Bytes
namespace RtcModel.C04.Sha1
open RtcModel.C04

@[inline] def rotl (x : UInt32) (n : UInt32) : UInt32 := (x <<< n) ||| (x >>> (32 - n))

def word (a b c d : UInt8) : UInt32 :=
  (a.toUInt32 <<< 24) ||| (b.toUInt32 <<< 16) ||| (c.toUInt32 <<< 8) ||| d.toUInt32

def wordBytes (w : UInt32) : Bytes :=
  [(w >>> 24).toUInt8, (w >>> 16).toUInt8, (w >>> 8).toUInt8, w.toUInt8]

/-- the 16 message words of a 64-byte block (missing bytes read as 0; callers pass full blocks) -/
def blockWords : Nat → Bytes → Array UInt32 → Array UInt32
  | 0, _, acc => acc
  | n + 1, a :: b :: c :: d :: rest, acc => blockWords n rest (acc.push (word a b c d))
  | n + 1, _, acc => blockWords n [] (acc.push 0)

def schedule (w16 : Array UInt32) : Array UInt32 := Id.run do
  let mut w := w16
  for i in [16:80] do
    w := w.push (rotl (w.getD (i - 3) 0 ^^^ w.getD (i - 8) 0 ^^^ w.getD (i - 14) 0 ^^^ w.getD (i - 16) 0) 1)
  return w

structure H where
  h0 : UInt32
  h1 : UInt32
  h2 : UInt32
  h3 : UInt32
  h4 : UInt32

def compress (h : H) (block : Bytes) : H := Id.run do
  let w := schedule (blockWords 16 block #[])
  let mut a := h.h0; let mut b := h.h1; let mut c := h.h2; let mut d := h.h3; let mut e := h.h4
  for i in [0:80] do
    let (f, k) :=
      if i < 20 then ((b &&& c) ||| ((~~~ b) &&& d), (0x5A827999 : UInt32))
      else if i < 40 then (b ^^^ c ^^^ d, (0x6ED9EBA1 : UInt32))
      else if i < 60 then ((b &&& c) ||| (b &&& d) ||| (c &&& d), (0x8F1BBCDC : UInt32))
      else (b ^^^ c ^^^ d, (0xCA62C1D6 : UInt32))
    let t := rotl a 5 + f + e + k + w.getD i 0
    e := d; d := c; c := rotl b 30; b := a; a := t
  return ⟨h.h0 + a, h.h1 + b, h.h2 + c, h.h3 + d, h.h4 + e⟩

def pad (len : Nat) : Bytes :=
  let zeros := (55 + 64 - len % 64) % 64
  (0x80 : UInt8) :: List.replicate zeros 0 ++ be64 (len * 8)

def blocks : Nat → H → Bytes → H
  | 0, h, _ => h
  | n + 1, h, bs => blocks n (compress h (bs.take 64)) (bs.drop 64)

def sha1 (msg : Bytes) : Bytes :=
  let m := msg ++ pad msg.length
  let h := blocks (m.length / 64) ⟨0x67452301, 0xEFCDAB89, 0x98BADCFE, 0x10325476, 0xC3D2E1F0⟩ m
  wordBytes h.h0 ++ wordBytes h.h1 ++ wordBytes h.h2 ++ wordBytes h.h3 ++ wordBytes h.h4

theorem sha1_length (msg : Bytes) : (sha1 msg).length = 20 := by
  simp [sha1, wordBytes]

def hmac (key msg : Bytes) : Bytes :=
  let k0 := if key.length > 64 then sha1 key else key
  let k := k0 ++ List.replicate (64 - k0.length) 0
  let ipad := k.map (· ^^^ 0x36)
  let opad := k.map (· ^^^ 0x5c)
  sha1 (opad ++ sha1 (ipad ++ msg))

theorem hmac_length (key msg : Bytes) : (hmac key msg).length = 20 := by
  simp [hmac, sha1_length]

end RtcModel.C04.Sha1
