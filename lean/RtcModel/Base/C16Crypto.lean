/-
Executable CRC-32 (IEEE 802.3, as `crc32fast`), SHA-1 (FIPS 180-4), HMAC-SHA1 (RFC 2104) and
MD5 (RFC 1321) over `List UInt8`.  Core Lean only (linked into `rtcdrv`).

These implementations are used ONLY to instantiate the abstract primitives of the STUN model for the
byte-exact correspondence check; they are validated against RFC test vectors at driver level
(`c16 selftest`, those are tests and labelled so).  The property theorems never unfold them: they
quantify over an arbitrary `Prims` structure (see `RtcModel/Stun.lean`).
-/
namespace RtcModel.C16Crypto

/-! ### CRC-32 (reflected, polynomial 0xEDB88320, init/xorout 0xFFFFFFFF) -/

def crcBit (c : UInt32) : UInt32 :=
  if c &&& 1 = 1 then (c >>> 1) ^^^ 0xEDB88320 else c >>> 1

def crcByte (c : UInt32) (b : UInt8) : UInt32 :=
  let c := c ^^^ b.toUInt32
  crcBit (crcBit (crcBit (crcBit (crcBit (crcBit (crcBit (crcBit c)))))))

def crc32 (bs : List UInt8) : UInt32 :=
  (bs.foldl crcByte 0xFFFFFFFF) ^^^ 0xFFFFFFFF

/-! ### byte helpers -/

def be32Bytes (x : UInt32) : List UInt8 :=
  [(x >>> 24).toUInt8, (x >>> 16).toUInt8, (x >>> 8).toUInt8, x.toUInt8]

def le32Bytes (x : UInt32) : List UInt8 :=
  [x.toUInt8, (x >>> 8).toUInt8, (x >>> 16).toUInt8, (x >>> 24).toUInt8]

def be64Bytes (x : UInt64) : List UInt8 :=
  [(x >>> 56).toUInt8, (x >>> 48).toUInt8, (x >>> 40).toUInt8, (x >>> 32).toUInt8,
   (x >>> 24).toUInt8, (x >>> 16).toUInt8, (x >>> 8).toUInt8, x.toUInt8]

def le64Bytes (x : UInt64) : List UInt8 := (be64Bytes x).reverse

def rdBe32 (a b c d : UInt8) : UInt32 :=
  (a.toUInt32 <<< 24) ||| (b.toUInt32 <<< 16) ||| (c.toUInt32 <<< 8) ||| d.toUInt32

def rdLe32 (a b c d : UInt8) : UInt32 := rdBe32 d c b a

def rotl (x : UInt32) (n : UInt32) : UInt32 := (x <<< n) ||| (x >>> (32 - n))

/-- split into chunks of `n` (last chunk may be short); fuel-free structural recursion on a counter -/
def chunks (n : Nat) (bs : List UInt8) : List (List UInt8) :=
  let rec go (fuel : Nat) (bs : List UInt8) (acc : List (List UInt8)) : List (List UInt8) :=
    match fuel with
    | 0 => acc.reverse
    | fuel + 1 =>
      if bs.isEmpty then acc.reverse else go fuel (bs.drop n) (bs.take n :: acc)
  go (bs.length + 1) bs []

/-- Merkle–Damgård padding: 0x80, zeros to 56 mod 64, then the 64-bit bit length (`lenBytes`). -/
def mdPad (bs : List UInt8) (lenBytes : List UInt8) : List UInt8 :=
  let l := bs.length
  let z := (119 - l % 64) % 64      -- (55 - l) mod 64
  bs ++ [0x80] ++ List.replicate z 0 ++ lenBytes

/-! ### SHA-1 -/

structure Sha1St where
  a : UInt32
  b : UInt32
  c : UInt32
  d : UInt32
  e : UInt32

def sha1Init : Sha1St := ⟨0x67452301, 0xEFCDAB89, 0x98BADCFE, 0x10325476, 0xC3D2E1F0⟩

def wordsBe : List UInt8 → List UInt32
  | a :: b :: c :: d :: rest => rdBe32 a b c d :: wordsBe rest
  | _ => []

def wordsLe : List UInt8 → List UInt32
  | a :: b :: c :: d :: rest => rdLe32 a b c d :: wordsLe rest
  | _ => []

/-- message schedule: 80 words (array, built by pushing) -/
def sha1Schedule (blk : List UInt8) : Array UInt32 :=
  let w0 : Array UInt32 := (wordsBe blk).toArray
  let rec ext (i : Nat) (n : Nat) (w : Array UInt32) : Array UInt32 :=
    match n with
    | 0 => w
    | n + 1 =>
      let x := w[i - 3]! ^^^ w[i - 8]! ^^^ w[i - 14]! ^^^ w[i - 16]!
      ext (i + 1) n (w.push (rotl x 1))
  ext 16 64 w0

def sha1Block (h : Sha1St) (blk : List UInt8) : Sha1St :=
  let w := sha1Schedule blk
  let rec rounds (i : Nat) (n : Nat) (s : Sha1St) : Sha1St :=
    match n with
    | 0 => s
    | n + 1 =>
      let (f, k) : UInt32 × UInt32 :=
        if i < 20 then ((s.b &&& s.c) ||| ((~~~ s.b) &&& s.d), 0x5A827999)
        else if i < 40 then (s.b ^^^ s.c ^^^ s.d, 0x6ED9EBA1)
        else if i < 60 then ((s.b &&& s.c) ||| (s.b &&& s.d) ||| (s.c &&& s.d), 0x8F1BBCDC)
        else (s.b ^^^ s.c ^^^ s.d, 0xCA62C1D6)
      let t := rotl s.a 5 + f + s.e + k + w[i]!
      rounds (i + 1) n ⟨t, s.a, rotl s.b 30, s.c, s.d⟩
  let r := rounds 0 80 h
  ⟨h.a + r.a, h.b + r.b, h.c + r.c, h.d + r.d, h.e + r.e⟩

def sha1 (bs : List UInt8) : List UInt8 :=
  let padded := mdPad bs (be64Bytes (UInt64.ofNat (bs.length * 8)))
  let h := (chunks 64 padded).foldl sha1Block sha1Init
  be32Bytes h.a ++ be32Bytes h.b ++ be32Bytes h.c ++ be32Bytes h.d ++ be32Bytes h.e

/-! ### HMAC-SHA1 -/

def hmacSha1 (key data : List UInt8) : List UInt8 :=
  let k0 := if key.length > 64 then sha1 key else key
  let k := k0 ++ List.replicate (64 - k0.length) 0
  let ipad := k.map (· ^^^ 0x36)
  let opad := k.map (· ^^^ 0x5c)
  sha1 (opad ++ sha1 (ipad ++ data))

/-! ### MD5 -/

def md5S : Array UInt32 := #[
  7, 12, 17, 22, 7, 12, 17, 22, 7, 12, 17, 22, 7, 12, 17, 22,
  5, 9, 14, 20, 5, 9, 14, 20, 5, 9, 14, 20, 5, 9, 14, 20,
  4, 11, 16, 23, 4, 11, 16, 23, 4, 11, 16, 23, 4, 11, 16, 23,
  6, 10, 15, 21, 6, 10, 15, 21, 6, 10, 15, 21, 6, 10, 15, 21]

def md5K : Array UInt32 := #[
  0xd76aa478, 0xe8c7b756, 0x242070db, 0xc1bdceee, 0xf57c0faf, 0x4787c62a, 0xa8304613, 0xfd469501,
  0x698098d8, 0x8b44f7af, 0xffff5bb1, 0x895cd7be, 0x6b901122, 0xfd987193, 0xa679438e, 0x49b40821,
  0xf61e2562, 0xc040b340, 0x265e5a51, 0xe9b6c7aa, 0xd62f105d, 0x02441453, 0xd8a1e681, 0xe7d3fbc8,
  0x21e1cde6, 0xc33707d6, 0xf4d50d87, 0x455a14ed, 0xa9e3e905, 0xfcefa3f8, 0x676f02d9, 0x8d2a4c8a,
  0xfffa3942, 0x8771f681, 0x6d9d6122, 0xfde5380c, 0xa4beea44, 0x4bdecfa9, 0xf6bb4b60, 0xbebfbc70,
  0x289b7ec6, 0xeaa127fa, 0xd4ef3085, 0x04881d05, 0xd9d4d039, 0xe6db99e5, 0x1fa27cf8, 0xc4ac5665,
  0xf4292244, 0x432aff97, 0xab9423a7, 0xfc93a039, 0x655b59c3, 0x8f0ccc92, 0xffeff47d, 0x85845dd1,
  0x6fa87e4f, 0xfe2ce6e0, 0xa3014314, 0x4e0811a1, 0xf7537e82, 0xbd3af235, 0x2ad7d2bb, 0xeb86d391]

structure Md5St where
  a : UInt32
  b : UInt32
  c : UInt32
  d : UInt32

def md5Init : Md5St := ⟨0x67452301, 0xefcdab89, 0x98badcfe, 0x10325476⟩

def md5Block (h : Md5St) (blk : List UInt8) : Md5St :=
  let m := (wordsLe blk).toArray
  let rec rounds (i : Nat) (n : Nat) (s : Md5St) : Md5St :=
    match n with
    | 0 => s
    | n + 1 =>
      let (f, g) : UInt32 × Nat :=
        if i < 16 then ((s.b &&& s.c) ||| ((~~~ s.b) &&& s.d), i)
        else if i < 32 then ((s.d &&& s.b) ||| ((~~~ s.d) &&& s.c), (5 * i + 1) % 16)
        else if i < 48 then (s.b ^^^ s.c ^^^ s.d, (3 * i + 5) % 16)
        else (s.c ^^^ (s.b ||| (~~~ s.d)), (7 * i) % 16)
      let f2 := f + s.a + md5K[i]! + m[g]!
      rounds (i + 1) n ⟨s.d, s.b + rotl f2 md5S[i]!, s.b, s.c⟩
  let r := rounds 0 64 h
  ⟨h.a + r.a, h.b + r.b, h.c + r.c, h.d + r.d⟩

def md5 (bs : List UInt8) : List UInt8 :=
  let padded := mdPad bs (le64Bytes (UInt64.ofNat (bs.length * 8)))
  let h := (chunks 64 padded).foldl md5Block md5Init
  le32Bytes h.a ++ le32Bytes h.b ++ le32Bytes h.c ++ le32Bytes h.d

end RtcModel.C16Crypto
