/-
Text helpers shared by the C08 / C09 models (core Lean only): the handful of `str` operations the
SDP / JSEP code of rustrtc uses, written over `List Char` with the semantics of the Rust functions
(`split_whitespace`, `split(c)`, `split_once(c)`, `trim`, `parse::<uN>()`, `eq_ignore_ascii_case`,
`starts_with`, `contains`).

Only ASCII white space is modelled (`char::is_whitespace` restricted to U+0009..U+000D, U+0020);
the correspondence generators emit ASCII text only.
-/
namespace RtcModel.Text

abbrev Str := List Char

def isWs (c : Char) : Bool :=
  c = ' ' || c = '\t' || c = '\n' || c = '\r' || c = '\x0b' || c = '\x0c'

def isDigit (c : Char) : Bool := '0' ≤ c && c ≤ '9'

/-- `str::split_whitespace().collect()` -/
def splitWsAux : Str → Str → List Str → List Str
  | [], cur, acc => (if cur.isEmpty then acc else cur.reverse :: acc).reverse
  | c :: cs, cur, acc =>
    if isWs c then splitWsAux cs [] (if cur.isEmpty then acc else cur.reverse :: acc)
    else splitWsAux cs (c :: cur) acc

def splitWs (s : Str) : List Str := splitWsAux s [] []

/-- `str::split(sep).collect()` for a single-character separator: always at least one piece,
empty pieces kept. -/
def splitOnAux (sep : Char) : Str → Str → List Str → List Str
  | [], cur, acc => (cur.reverse :: acc).reverse
  | c :: cs, cur, acc =>
    if c = sep then splitOnAux sep cs [] (cur.reverse :: acc) else splitOnAux sep cs (c :: cur) acc

def splitOn (sep : Char) (s : Str) : List Str := splitOnAux sep s [] []

/-- `str::split_once(sep)` -/
def splitOnce (sep : Char) : Str → Option (Str × Str)
  | [] => none
  | c :: cs =>
    if c = sep then some ([], cs)
    else match splitOnce sep cs with
      | some (a, b) => some (c :: a, b)
      | none => none

def dropWsLeft : Str → Str
  | [] => []
  | c :: cs => if isWs c then dropWsLeft cs else c :: cs

/-- `str::trim()` (ASCII white space) -/
def trim (s : Str) : Str := (dropWsLeft (dropWsLeft s).reverse).reverse

def digitsVal : Str → Nat → Option Nat
  | [], acc => some acc
  | c :: cs, acc => if isDigit c then digitsVal cs (acc * 10 + (c.toNat - '0'.toNat)) else none

/-- `str::parse::<uN>()` with `bound = 2^N`: optional `+`, at least one ASCII digit, no overflow. -/
def stripPlus : Str → Str
  | '+' :: r => r
  | s => s

def parseUnsigned (bound : Nat) (s : Str) : Option Nat :=
  match stripPlus s with
  | [] => none
  | ds =>
    match digitsVal ds 0 with
    | some n => if n < bound then some n else none
    | none => none

def parseU8 (s : Str) : Option Nat := parseUnsigned 256 s
def parseU16 (s : Str) : Option Nat := parseUnsigned 65536 s
def parseU32 (s : Str) : Option Nat := parseUnsigned 4294967296 s
def parseU64 (s : Str) : Option Nat := parseUnsigned 18446744073709551616 s

def lowerAscii (c : Char) : Char :=
  if 'A' ≤ c && c ≤ 'Z' then Char.ofNat (c.toNat + 32) else c

def eqIgnoreAsciiCase (a b : Str) : Bool := a.map lowerAscii == b.map lowerAscii

def startsWith (s p : Str) : Bool := p.isPrefixOf s

def containsSub : Str → Str → Bool
  | [], p => p.isEmpty
  | c :: cs, p => p.isPrefixOf (c :: cs) || containsSub cs p

/-- decimal rendering (`to_string()` of an unsigned integer) -/
def natStr (n : Nat) : Str := (toString n).toList

def join (sep : Str) : List Str → Str
  | [] => []
  | [a] => a
  | a :: rest => a ++ sep ++ join sep rest

end RtcModel.Text
