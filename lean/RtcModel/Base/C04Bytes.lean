/-
Byte-string helpers shared by the SRTP models (C04/C05): big-endian codecs on `Nat`,
XOR of byte strings. Core Lean only.
-/
namespace RtcModel.C04

abbrev Bytes := List UInt8

/-- low byte of a natural number (`as u8`) -/
def byteOf (n : Nat) : UInt8 := UInt8.ofNat n

def be16 (n : Nat) : Bytes := [byteOf (n / 256), byteOf n]
def be32 (n : Nat) : Bytes :=
  [byteOf (n / 16777216), byteOf (n / 65536), byteOf (n / 256), byteOf n]
def be64 (n : Nat) : Bytes := be32 (n / 4294967296) ++ be32 n

def dec16 (a b : UInt8) : Nat := a.toNat * 256 + b.toNat
def dec32 (a b c d : UInt8) : Nat :=
  ((a.toNat * 256 + b.toNat) * 256 + c.toNat) * 256 + d.toNat

/-- big-endian value of a byte string -/
def decBE : Bytes → Nat → Nat
  | [], acc => acc
  | b :: bs, acc => decBE bs (acc * 256 + b.toNat)

/-- pointwise XOR; the result has the length of the shorter argument -/
def xorBytes (a b : Bytes) : Bytes := List.zipWith (· ^^^ ·) a b

@[simp] theorem byteOf_toNat (n : Nat) : (byteOf n).toNat = n % 256 := by
  simp [byteOf]

@[simp] theorem byteOf_of_toNat (a : UInt8) : byteOf a.toNat = a := by
  simp [byteOf]

theorem byteOf_mod (n : Nat) : byteOf (n % 256) = byteOf n := by
  apply UInt8.toNat_inj.mp; simp

@[simp] theorem be16_length (n : Nat) : (be16 n).length = 2 := rfl
@[simp] theorem be32_length (n : Nat) : (be32 n).length = 4 := rfl
@[simp] theorem be64_length (n : Nat) : (be64 n).length = 8 := rfl

theorem be16_dec16 (a b : UInt8) : be16 (dec16 a b) = [a, b] := by
  have ha := a.toNat_lt; have hb := b.toNat_lt
  simp only [be16, dec16, List.cons.injEq, and_true]
  constructor <;> apply UInt8.toNat_inj.mp <;> simp <;> omega

theorem be32_dec32 (a b c d : UInt8) : be32 (dec32 a b c d) = [a, b, c, d] := by
  have ha := a.toNat_lt; have hb := b.toNat_lt; have hc := c.toNat_lt; have hd := d.toNat_lt
  simp only [be32, dec32, List.cons.injEq, and_true]
  refine ⟨?_, ?_, ?_, ?_⟩ <;> apply UInt8.toNat_inj.mp <;> simp <;> omega

theorem dec16_lt (a b : UInt8) : dec16 a b < 65536 := by
  have ha := a.toNat_lt; have hb := b.toNat_lt; simp only [dec16]; omega

theorem dec32_lt (a b c d : UInt8) : dec32 a b c d < 4294967296 := by
  have ha := a.toNat_lt; have hb := b.toNat_lt; have hc := c.toNat_lt; have hd := d.toNat_lt
  simp only [dec32]; omega

theorem dec16_be16 (n : Nat) (h : n < 65536) :
    dec16 (byteOf (n / 256)) (byteOf n) = n := by
  simp [dec16]; omega

theorem dec32_be32 (n : Nat) (h : n < 4294967296) :
    dec32 (byteOf (n / 16777216)) (byteOf (n / 65536)) (byteOf (n / 256)) (byteOf n) = n := by
  simp [dec32]; omega

@[simp] theorem xorBytes_length (a b : Bytes) : (xorBytes a b).length = min a.length b.length := by
  simp [xorBytes]

theorem xorBytes_length_eq (a b : Bytes) (h : b.length = a.length) :
    (xorBytes a b).length = a.length := by simp [h]

/-- XOR with a keystream of the same length is an involution. -/
theorem xorBytes_involutive (a k : Bytes) (h : k.length = a.length) :
    xorBytes (xorBytes a k) k = a := by
  induction a generalizing k with
  | nil => simp [xorBytes]
  | cons x xs ih =>
    cases k with
    | nil => simp at h
    | cons y ys =>
      simp only [xorBytes, List.zipWith_cons_cons, List.cons.injEq]
      refine ⟨?_, ih ys (by simpa using h)⟩
      rw [UInt8.xor_assoc, UInt8.xor_self, UInt8.xor_zero]

@[simp] theorem xorBytes_nil_left (k : Bytes) : xorBytes [] k = [] := by simp [xorBytes]

end RtcModel.C04
