/-
C07 — signaling-side models (ASCII level): `IceCandidate::from_sdp` (src/transports/ice/mod.rs:3252-3313: token
vector indexing + the `tcptype` search loop) and the `mid + 1` arithmetic of `set_remote_description`
(src/peer_connection.rs:1459-1464, after the `fix:` commit: `saturating_add`).
The line splitter / `from_m_line` / Origin / Timing / crypto / rid / simulcast parsers consist only of iterator
combinators (`lines`, `split_whitespace`, `split_once`, `parse`) without indexing or arithmetic; they are covered by the
correspondence fuzz only (streams `sdp*`, marked `noncompared`) — see NOTES/C07.md.
-/
import RtcModel.Base.C07Cursor
namespace RtcModel.C07.Sdp
open RtcModel.C07

def isWs (c : UInt8) : Bool := c = 0x20 ∨ (0x09 ≤ c ∧ c ≤ 0x0D)

/-- `str::split_whitespace` on ASCII input -/
def splitWs (s : List UInt8) : List (List UInt8) :=
  let r := s.foldl (fun (acc : List (List UInt8) × List UInt8) c =>
    if isWs c then (if acc.2.isEmpty then acc else (acc.2.reverse :: acc.1, [])) else (acc.1, c :: acc.2)) ([], [])
  (if r.2.isEmpty then r.1 else r.2.reverse :: r.1).reverse

def isDigit (c : UInt8) : Bool := 0x30 ≤ c ∧ c ≤ 0x39

/-- `<unsigned>::from_str`: optional '+', at least one digit, no overflow beyond `max` -/
def parseDec (max : Nat) (t : List UInt8) : Option Nat :=
  let ds := match t with | 0x2B :: r => r | r => r
  if ds.isEmpty ∨ ¬ ds.all isDigit then none else
  let v := ds.foldl (fun a c => a * 10 + (c.toNat - 48)) 0
  if v ≤ max then some v else none

/-- strict dotted-quad as accepted by `Ipv4Addr::from_str` -/
def isIpv4 (t : List UInt8) : Bool :=
  let parts := (t.splitOn 0x2E)
  parts.length = 4 ∧ parts.all fun p =>
    ¬ p.isEmpty ∧ p.length ≤ 3 ∧ p.all isDigit ∧ (p.length = 1 ∨ p.head? ≠ some 0x30) ∧
    p.foldl (fun a c => a * 10 + (c.toNat - 48)) 0 ≤ 255

/-- `parts[i]` on the token vector -/
def tokAt (parts : Array (List UInt8)) (i : Nat) : Cur (List UInt8) := fun b n =>
  if h : i < parts.size then .ok parts[i] b n else .panic "index"

theorem safe_tokAt {E : Nat → Prop} {parts : Array (List UInt8)} {i : Nat} {Q b n} (hi : i < parts.size)
    (h : ∀ t, Q t b n) : safe E (tokAt parts i) Q b n := by
  unfold safe tokAt
  simp only [hi, dite_true]
  exact h _

def str (s : String) : List UInt8 := s.toUTF8.toList

/-- the `tcptype` search loop; state = i; result 0 none, 1 active, 2 passive, 3 so -/
def tcpTypeBody (parts : Array (List UInt8)) (i : Nat) : Cur (Nat ⊕ Nat) := do
  if i + 1 ≥ parts.size then pure (.inr 0) else
  let t ← tokAt parts i
  if t = str "tcptype" then
    let v ← tokAt parts (i + 1)
    pure (.inr (if v = str "active" then 1 else if v = str "passive" then 2 else if v = str "so" then 3 else 0))
  else pure (.inl (i + 2))

/-- the `raddr <ip> rport <port>` search loop (added on main); state = i; result 0 = none, else rport + 1 -/
def raddrBody (parts : Array (List UInt8)) (i : Nat) : Cur (Nat ⊕ Nat) := do
  if i + 3 ≥ parts.size then pure (.inr 0) else
  let a ← tokAt parts i
  let c ← tokAt parts (i + 2)
  if a = str "raddr" ∧ c = str "rport" then
    let rip ← tokAt parts (i + 1)
    let rp ← tokAt parts (i + 3)
    match parseDec 65535 rp with
    | none => pure (.inr 0)
    | some rport => pure (.inr (if isIpv4 rip then rport + 1 else 0))
  else pure (.inl (i + 2))

def toLower (t : List UInt8) : List UInt8 := t.map fun c => if 0x41 ≤ c ∧ c ≤ 0x5A then c + 32 else c

/-- `IceCandidate::from_sdp(sdp)`; digest `[component, priority, port, typ, tcp_type, is_tcp, related port + 1 or 0]` -/
def candFromSdp (s : List UInt8) : Cur (List Nat) := do
  let parts := (splitWs s).toArray
  alloc (16 * parts.size)
  if parts.size < 8 then bail "e" else
  let _f ← tokAt parts 0
  let c ← tokAt parts 1
  match parseDec 65535 c with
  | none => bail "e"
  | some component =>
  let tr ← tokAt parts 2
  let transport := toLower tr
  let pr ← tokAt parts 3
  match parseDec 4294967295 pr with
  | none => bail "e"
  | some priority =>
  let ip ← tokAt parts 4
  let po ← tokAt parts 5
  match parseDec 65535 po with
  | none => bail "e"
  | some port =>
  let ty ← tokAt parts 7
  if ¬ isIpv4 ip then bail "e" else
  let typ := if ty = str "host" then 1 else if ty = str "srflx" then 2 else if ty = str "prflx" then 3
    else if ty = str "relay" then 4 else 0
  if typ = 0 then bail "e" else
  let tt ← (if transport = str "tcp" then loopM (tcpTypeBody parts) (parts.size + 1) 8 else pure 0 : Cur Nat)
  let rel ← loopM (raddrBody parts) (parts.size + 1) 8
  pure [component, priority, port, typ, tt, if transport = str "tcp" then 1 else 0, rel]

/-- `next_mid.fetch_max(mid_val.saturating_add(1))` for a remote `a=mid:<u16>`; `checked` = overflow checks of the
build (dev profile). Before the fix this was `mid_val + 1`: panic when `checked`, wrap to 0 otherwise. -/
def midUpdate (nextMid mid : Nat) : Cur Nat :=
  pure (max nextMid (min (mid + 1) 65535))

/-- the pre-fix arithmetic, kept for the witness -/
def midUpdateUnfixed (checked : Bool) (nextMid mid : Nat) : Cur Nat :=
  if mid + 1 > 65535 then (if checked then panicAt "add-overflow" else pure (max nextMid 0))
  else pure (max nextMid (mid + 1))

end RtcModel.C07.Sdp
