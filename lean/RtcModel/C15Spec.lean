/-
C15 — an INDEPENDENT reading of the wire formats, written from the packet diagrams of the RFCs by absolute
octet offsets (RFC 3550 §5.1, §5.3.1, §6.4.1, §6.4.2, §6.5, §6.6; RFC 4585 §6.1, §6.2.1, §6.3.1; RFC 5104
§4.3.1.1; draft-alvestrand-rmcat-remb §2; draft-holmer-rmcat-transport-wide-cc-extensions §3.1).

Nothing here looks at `src/rtp.rs` or at the model of its parser (`C15Rtp.lean` / `C15Rtcp.lean`, which consume
the input sequentially with the code's own checks): these readers index the whole datagram.  The theorems
`rfc_layout_*` in `Theorems/C15.lean` show that what the stack SERIALISES is read by these readers as the
packet that was sent — i.e. the encoder puts every field where the RFC says it is, with the RFC's width,
byte order and reserved values — and `rfc_parse_*` the PARSE direction: every datagram one of these readers accepts
(a single packet, no RTCP padding) is parsed by the stack to the packet the reader returns, for SR, RR, BYE, PLI,
FIR, NACK, REMB and TWCC (not SDES, whose reader is a grammar; padded packets reach the per-type parsers stripped,
`rtcp_padding_stripped`).
-/
import RtcModel.C15Rtcp
import RtcModel.C15Rtp

namespace RtcModel.C15.Rfc
open RtcModel.C15

/-- octet `i` of the datagram (0 beyond the end) -/
def o8 (bs : Bytes) (i : Nat) : Nat := match bs.drop i with | a :: _ => a.toNat | [] => 0

/-- network-order 16 / 24 / 32-bit fields starting at octet `i` -/
def o16 (bs : Bytes) (i : Nat) : Nat := match bs.drop i with | a :: b :: _ => a.toNat * 256 + b.toNat | _ => 0
def o24 (bs : Bytes) (i : Nat) : Nat :=
  match bs.drop i with | a :: b :: c :: _ => a.toNat * 65536 + b.toNat * 256 + c.toNat | _ => 0
def o32 (bs : Bytes) (i : Nat) : Nat :=
  match bs.drop i with
  | a :: b :: c :: d :: _ => a.toNat * 16777216 + b.toNat * 65536 + c.toNat * 256 + d.toNat
  | _ => 0

def w32 (bs : Bytes) (i : Nat) : UInt32 := UInt32.ofNat (o32 bs i)
def w16 (bs : Bytes) (i : Nat) : UInt16 := UInt16.ofNat (o16 bs i)
def w8 (bs : Bytes) (i : Nat) : UInt8 := UInt8.ofNat (o8 bs i)

/-- two's-complement 24-bit field ("cumulative number of packets lost: 24 bits", signed) -/
def s24 (n : Nat) : Int := if n ≥ 8388608 then (n : Int) - 16777216 else (n : Int)

/-! ### the common RTCP header (RFC 3550 §6.4.1): V=2 | P | count/FMT(5) | PT(8) | length(16) -/

structure Hdr where
  version : Nat
  padding : Bool
  count : Nat
  pt : Nat
  /-- length in 32-bit words minus one, header included -/
  lengthWords : Nat
  deriving DecidableEq, Repr

def hdr (bs : Bytes) : Hdr :=
  { version := o8 bs 0 / 64, padding := o8 bs 0 / 32 % 2 = 1, count := o8 bs 0 % 32, pt := o8 bs 1,
    lengthWords := o16 bs 2 }

/-- one whole packet: version 2, the length field describes exactly this datagram, no padding -/
def framed (bs : Bytes) (pt : Nat) : Prop :=
  (hdr bs).version = 2 ∧ (hdr bs).padding = false ∧ (hdr bs).pt = pt ∧ bs.length = 4 * ((hdr bs).lengthWords + 1)

instance (bs : Bytes) (pt : Nat) : Decidable (framed bs pt) := by unfold framed; infer_instance

/-- RFC 3550 §6.4.1 padding put on an RTCP packet with header fields `fmt`, `pt` and (unpadded) body `body`:
P bit set, filler octets `z` (any value), and a last octet that counts the padding, itself included; the length
field covers body and padding. -/
def withPadding (fmt pt : Nat) (body z : Bytes) : Bytes :=
  u8 (2 * 64 + 32 + fmt % 32) :: u8 pt ::
    (be16n ((body.length + z.length + 1) / 4) ++ (body ++ z ++ [u8 (z.length + 1)]))

/-! ### SR / RR -/

/-- a reception report block at octet `off` (RFC 3550 §6.4.1): SSRC_n, fraction lost (8), cumulative lost
(24, signed), extended highest sequence number, jitter, LSR, DLSR -/
def reportBlock (bs : Bytes) (off : Nat) : ReportBlock :=
  { ssrc := w32 bs off, fractionLost := w8 bs (off + 4), lost := s24 (o24 bs (off + 5)), hseq := w32 bs (off + 8),
    jitter := w32 bs (off + 12), lsr := w32 bs (off + 16), dlsr := w32 bs (off + 20) }

def reportBlocks (bs : Bytes) (off n : Nat) : List ReportBlock := (List.range n).map fun i => reportBlock bs (off + 24 * i)

/-- SR: PT=200, RC blocks; sender SSRC @4, NTP @8/@12, RTP timestamp @16, packet count @20, octet count @24,
report blocks from @28 -/
def readSr (bs : Bytes) : Option Rtcp :=
  if framed bs 200 ∧ bs.length = 28 + 24 * (hdr bs).count then
    some (.sr (w32 bs 4) (w32 bs 8) (w32 bs 12) (w32 bs 16) (w32 bs 20) (w32 bs 24) (reportBlocks bs 28 (hdr bs).count))
  else none

/-- RR: PT=201, RC blocks from @8 -/
def readRr (bs : Bytes) : Option Rtcp :=
  if framed bs 201 ∧ bs.length = 8 + 24 * (hdr bs).count then
    some (.rr (w32 bs 4) (reportBlocks bs 8 (hdr bs).count))
  else none

/-! ### SDES (RFC 3550 §6.5) — a grammar, not offsets: each chunk is SSRC, items `type len text`, then one
or more null octets up to the next 32-bit boundary -/

def sdesItem (i : SdesItem) : Bytes := i.ty :: UInt8.ofNat i.text.length :: i.text

def sdesChunk (c : SdesChunk) : Bytes :=
  let core := be32 c.ssrc ++ c.items.flatMap sdesItem
  -- at least one terminating null, then nulls to the boundary: 1..4 octets
  core ++ List.replicate (4 - core.length % 4) 0

/-- the packet `bs` is the SDES encoding of `cs`: PT=202, SC chunks, chunk after chunk -/
def isSdes (bs : Bytes) (cs : List SdesChunk) : Prop :=
  framed bs 202 ∧ (hdr bs).count = cs.length ∧ bs.drop 4 = cs.flatMap sdesChunk

/-! ### BYE (RFC 3550 §6.6): SC SSRCs from @4, then optionally length (8) + reason, zero padded -/

def ssrcs (bs : Bytes) (off n : Nat) : List UInt32 := (List.range n).map fun i => w32 bs (off + 4 * i)

def readBye (bs : Bytes) : Option (List UInt32 × Option Bytes) :=
  let sc := (hdr bs).count
  if framed bs 203 ∧ 4 + 4 * sc ≤ bs.length then
    if bs.length = 4 + 4 * sc then some (ssrcs bs 4 sc, none)
    else
      let n := o8 bs (4 + 4 * sc)
      if 4 + 4 * sc + 1 + n ≤ bs.length then some (ssrcs bs 4 sc, some ((bs.drop (4 + 4 * sc + 1)).take n)) else none
  else none

/-! ### feedback messages (RFC 4585 §6.1): FMT | PT | length | sender SSRC @4 | media SSRC @8 | FCI @12 -/

/-- generic NACK (RFC 4585 §6.2.1, PT=205 FMT=1): FCI = (PID 16, BLP 16)*; BLP bit i (LSB = 0) names PID+i+1.
The reader returns the SET the FCI denotes, as a membership predicate. -/
def nackDenotes (bs : Bytes) (x : UInt16) : Prop :=
  ∃ k, 12 + 4 * k + 4 ≤ bs.length ∧
    (x = w16 bs (12 + 4 * k) ∨ ∃ i, i < 16 ∧ o16 bs (12 + 4 * k + 2) / 2 ^ i % 2 = 1 ∧ x = w16 bs (12 + 4 * k) + UInt16.ofNat (i + 1))

def isNack (bs : Bytes) (sender media : UInt32) : Prop :=
  framed bs 205 ∧ (hdr bs).count = 1 ∧ 12 ≤ bs.length ∧ w32 bs 4 = sender ∧ w32 bs 8 = media

/-- PLI (RFC 4585 §6.3.1, PT=206 FMT=1): no FCI, length = 2 -/
def readPli (bs : Bytes) : Option Rtcp :=
  if framed bs 206 ∧ (hdr bs).count = 1 ∧ bs.length = 12 then some (.pli (w32 bs 4) (w32 bs 8)) else none

/-- FIR (RFC 5104 §4.3.1.1, PT=206 FMT=4): media source SHALL be 0; FCI entries SSRC (32) | seq (8) | reserved (24) = 0 -/
def firEntry (bs : Bytes) (off : Nat) : FirReq := ⟨w32 bs off, w8 bs (off + 4)⟩

def readFir (bs : Bytes) : Option Rtcp :=
  let n := (bs.length - 12) / 8
  if framed bs 206 ∧ (hdr bs).count = 4 ∧ 12 ≤ bs.length ∧ bs.length = 12 + 8 * n ∧ o32 bs 8 = 0 ∧
      ∀ i, i < n → o24 bs (12 + 8 * i + 5) = 0 then
    some (.fir (w32 bs 4) ((List.range n).map fun i => firEntry bs (12 + 8 * i)))
  else none

/-- REMB (draft-alvestrand-rmcat-remb §2, PT=206 FMT=15): media source 0; "REMB" @12; Num SSRC @16;
BR Exp (6 bits) and BR Mantissa (18 bits) @17..19; SSRC feedback from @20; bitrate = mantissa · 2^exp -/
def readRemb (bs : Bytes) : Option Rtcp :=
  let n := o8 bs 16
  if framed bs 206 ∧ (hdr bs).count = 15 ∧ bs.length = 20 + 4 * n ∧ o32 bs 8 = 0 ∧ o32 bs 12 = 0x52454D42 then
    some (.remb (w32 bs 4) ((o24 bs 17 % 262144) * 2 ^ (o8 bs 17 / 4)) (ssrcs bs 20 n))
  else none

/-- transport-wide congestion control feedback (draft-holmer §3.1, PT=205 FMT=15): base sequence number @12,
packet status count @14, reference time (24) @16, feedback packet count @19, chunks and deltas from @20;
the packet is padded to 32 bits with RTCP padding (P bit, count in the last octet) -/
def readTwcc (bs : Bytes) : Option Rtcp :=
  let h := hdr bs
  let pad := if h.padding then o8 bs (bs.length - 1) else 0
  if h.version = 2 ∧ h.pt = 205 ∧ h.count = 15 ∧ bs.length = 4 * (h.lengthWords + 1) ∧ 20 + pad ≤ bs.length ∧
      (h.padding = true → 1 ≤ pad) then
    some (.twcc (w32 bs 4) (w32 bs 8) (w16 bs 12) (w16 bs 14) (UInt32.ofNat (o24 bs 16)) (w8 bs 19)
      ((bs.drop 20).take (bs.length - 20 - pad)))
  else none

/-! ### RTP (RFC 3550 §5.1, §5.3.1) -/

/-- V(2) P X CC(4) | M PT(7) | sequence number @2 | timestamp @4 | SSRC @8 | CSRC list @12 | extension header
(profile 16, length 16 in words) and data | payload | padding whose last octet is the padding count -/
def readRtp (bs : Bytes) : Option Packet :=
  let cc := o8 bs 0 % 16
  let x := o8 bs 0 / 16 % 2 = 1
  let p := o8 bs 0 / 32 % 2 = 1
  let extOff := 12 + 4 * cc
  let extLen := if x then 4 + 4 * o16 bs (extOff + 2) else 0
  let payOff := extOff + extLen
  let pad := if p then o8 bs (bs.length - 1) else 0
  if o8 bs 0 / 64 = 2 ∧ payOff + pad ≤ bs.length ∧ (p → payOff < bs.length) then
    some { hdr := { marker := o8 bs 1 / 128 = 1, pt := UInt8.ofNat (o8 bs 1 % 128), seq := w16 bs 2, ts := w32 bs 4,
                    ssrc := w32 bs 8, csrcs := ssrcs bs 12 cc,
                    ext := if x then some ⟨w16 bs extOff, (bs.drop (extOff + 4)).take (extLen - 4)⟩ else none },
           payload := (bs.drop payOff).take (bs.length - payOff - pad),
           padLen := UInt8.ofNat pad }
  else none

end RtcModel.C15.Rfc
