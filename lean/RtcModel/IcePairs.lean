/-
Model of the check-list formation in `perform_connectivity_checks_async` (`src/transports/ice/mod.rs`):
pair formation (local-outer / remote-inner, with the transport / component / loopback / family / passive-TCP
filters), the stable sort by descending pair priority, the optional `prefer_srflx_over_natted_host` re-sort;
and of the STUN messages the agent itself composes (connectivity check, keepalive, srflx probe).
Core Lean only.
-/
import RtcModel.IcePrio
import RtcModel.Stun

namespace RtcModel.IcePairs
open RtcModel.IcePrio RtcModel.Stun RtcModel.C16Bytes

/-- the fields of a candidate the pairing looks at -/
structure PCand where
  id : Nat                 -- stands for the address (identity only)
  priority : Nat
  tcp : Bool               -- `transport == "tcp"` (the code compares the transport strings)
  component : Nat
  loopback : Bool          -- `address.ip().is_loopback()`
  v4 : Bool                -- `address.is_ipv4()`
  passive : Bool           -- `tcp_type == Some(Passive)`
  host : Bool              -- `typ == Host`
  privateIp : Bool         -- `is_private()` / `is_unique_local()`
deriving DecidableEq, Repr

abbrev PPair := PCand × PCand

/-- the filter inside the two nested loops -/
def pairOk (role : Role) (l r : PCand) : Bool :=
  l.tcp = r.tcp && l.component = r.component && !(l.loopback && !r.loopback) && l.v4 = r.v4 &&
  !(role = .controlled && l.tcp && l.passive)

/-- `for local in &locals { for remote in &remotes { … pairs.push } }` -/
def formPairs (role : Role) (locals remotes : List PCand) : List PPair :=
  locals.flatMap (fun l => (remotes.filter (pairOk role l)).map (fun r => (l, r)))

def prio (role : Role) (p : PPair) : Nat := pairPriority role p.1.priority p.2.priority

/-- insert `x` (which preceded all of the list in the input) into a sorted list: it moves behind `y` only if `y`
strictly comes before it, so equal keys keep their input order (stable); `lt a b` = "a sorts before b" -/
def insertStable (lt : PPair → PPair → Bool) (x : PPair) : List PPair → List PPair
  | [] => [x]
  | y :: ys => if lt y x then y :: insertStable lt x ys else x :: y :: ys

/-- a stable sort (`slice::sort_by` / `sort_by_key` are stable): insertion from the right -/
def stableSort (lt : PPair → PPair → Bool) : List PPair → List PPair
  | [] => []
  | x :: xs => insertStable lt x (stableSort lt xs)

/-- `pairs.sort_by_key(|p| Reverse(p.priority(role)))` -/
def sortByPriority (role : Role) (ps : List PPair) : List PPair :=
  stableSort (fun a b => prio role a > prio role b) ps

/-- `is_behind_nat` -/
def natted (p : PPair) : Bool := p.1.host && p.1.privateIp && !(p.2.host && p.2.privateIp)

/-- the second `sort_by`: not-natted first, then descending priority -/
def sortPreferSrflx (role : Role) (ps : List PPair) : List PPair :=
  stableSort (fun a b => if natted a ≠ natted b then (!natted a && natted b) else prio role a > prio role b) ps

/-- the order in which the pairs are checked -/
def checkOrder (role : Role) (preferSrflx : Bool) (locals remotes : List PCand) : List PPair :=
  let ps := sortByPriority role (formPairs role locals remotes)
  if preferSrflx then sortPreferSrflx role ps else ps

/-- the preamble of `perform_connectivity_checks_async`: nothing happens unless the state is Checking and no pair is
selected yet and there are remote candidates; a controlling agent WITHOUT any local candidate synthesizes one
active-TCP local (address 0.0.0.0:0, modelled id `synthId`) per remote passive-TCP candidate; still no local →
nothing. `none` = the function returns before the list is formed. -/
def synthId : Nat := 99999
def synthesized (remotes : List PCand) : List PCand :=
  (remotes.filter (fun r => r.tcp && r.passive)).map (fun r =>
    ⟨synthId, priorityForTcp .host r.component .active, true, r.component, false, true, false, true, false⟩)

def checkPass (checking hasSelected : Bool) (role : Role) (preferSrflx : Bool) (locals remotes : List PCand) : Option (List PPair) :=
  if !checking || hasSelected || remotes.isEmpty then none
  else
    let locals' := if locals.isEmpty && role = .controlling then synthesized remotes else locals
    if locals'.isEmpty then none else some (checkOrder role preferSrflx locals' remotes)

/-! ### what is done with the checks that succeeded (the part that decides which pair is USED) -/

/-- `successful_pairs.sort_by_key(|p| Reverse(p.priority(role)))` followed by `[0]` / `.first()`: the stable
descending sort of the pairs in arrival order, head -/
def best (role : Role) (ps : List PPair) : Option PPair := (sortByPriority role ps).head?

/-- result of one pass: selected pair, `nomination_complete`, whether the state is set to Connected (`true`)
or Failed (`false`) -/
structure Outcome where
  selected : PPair
  nominationComplete : Option Bool
  connected : Bool
deriving DecidableEq, Repr

/-- the tail of `perform_connectivity_checks_async`. `succ` = checks that succeeded (arrival order, no
duplicates), `noms` = nominations that succeeded (controlling agent only), `peerNominated` = the controlled
agent already has `nomination_complete`. `none` = nothing is changed. -/
def conclude (role : Role) (succ noms : List PPair) (peerNominated : Bool) : Option Outcome :=
  match best role succ with
  | none => none                                        -- `if successful_pairs.is_empty() { return; }`
  | some top =>
    match role with
    | .controlling =>
      match best role noms with
      | some f => some ⟨f, some true, true⟩
      | none => some ⟨top, some false, false⟩            -- best-effort pair, nomination failed, Failed
    | .controlled =>
      if peerNominated then none
      else some ⟨top, if top.1.tcp then some true else none, true⟩

/-! ### messages the agent composes -/

def software : Attr := .software [114, 117, 115, 116, 114, 116, 99]   -- "rustrtc"

/-- `perform_binding_check` / `perform_tcp_binding_check`: USERNAME `remote:local`, PRIORITY of the local
candidate, ICE-CONTROLLING / ICE-CONTROLLED with the local tie-breaker, USE-CANDIDATE only when nominating;
encoded with the REMOTE password and FINGERPRINT -/
def connectivityCheck (tx localUfrag remoteUfrag : Bytes) (role : Role) (localPrio tieBreaker : Nat) (nominated : Bool) : Msg :=
  ⟨.request, .binding, tx,
    [software, .username (remoteUfrag ++ [58] ++ localUfrag), .priority localPrio] ++
    (match role with
     | .controlling => [.iceControlling tieBreaker] ++ (if nominated then [.useCandidate] else [])
     | .controlled => [.iceControlled tieBreaker])⟩

/-- the credentialed keepalive of `run_keepalive_tick` -/
def keepalive (tx localUfrag remoteUfrag : Bytes) (localPrio : Nat) : Msg :=
  ⟨.request, .binding, tx, [software, .username (remoteUfrag ++ [58] ++ localUfrag), .priority localPrio]⟩

/-- `probe_stun` / the credential-less keepalive: a bare Binding request with SOFTWARE -/
def bareBinding (tx : Bytes) : Msg := ⟨.request, .binding, tx, [software]⟩

end RtcModel.IcePairs
