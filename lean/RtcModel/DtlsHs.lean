/-
Model of one DTLS endpoint of rustrtc (`src/transports/dtls/mod.rs`): the run loop's packet path
`handle_incoming_packet` → `try_decrypt_record` → `handle_decrypted_record` →
`process_handshake_payload` (sequence filter, duplicate ClientHello, post-HVR resync, reassembly
that appends regardless of the fragment offset) → the eight message handlers, the retransmit tick,
the close path, and `HandshakeMessage::{decode,encode}` (`handshake.rs`).  Core Lean only.

What is abstract (structure parameter `Crypto`, arbitrary functions — theorems hold for all of
them): the *bodies* of handshake messages are byte strings whose interpretation (`ClientHello::decode`
… `ServerKeyExchange::decode`, SHA-256 digest, ECDSA verify, ECDH + PRF key derivation, verify_data)
is given by functions of the bytes.  What the endpoint generates locally at random (its hello
random, ECDH share, signature, i.e. the bodies of the messages it emits) is the parameter `Loc`.
-/
import RtcModel.DtlsRecord

namespace RtcModel.DtlsHs
open RtcModel.Generated RtcModel.DtlsRecord

inductive Conn where
  | new | handshaking | connected | failed | closed
deriving DecidableEq, Repr, Inhabited

/-! ### handshake message framing (`HandshakeMessage`) -/

structure HsMsg where
  typ      : Nat
  totalLen : Nat
  msgSeq   : Nat
  fragOff  : Nat
  body     : Bytes          -- `fragment_length` = `body.length`
deriving DecidableEq, Repr

/-- `HandshakeType::try_from` -/
def validHt (t : Nat) : Bool :=
  t == dtlsHtHelloRequest || t == dtlsHtClientHello || t == dtlsHtServerHello ||
  t == dtlsHtHelloVerifyRequest || t == dtlsHtCertificate || t == dtlsHtServerKeyExchange ||
  t == dtlsHtCertificateRequest || t == dtlsHtServerHelloDone || t == dtlsHtCertificateVerify ||
  t == dtlsHtClientKeyExchange || t == dtlsHtFinished

inductive HsDec where
  | short                               -- `Ok(None)`
  | bad                                 -- `Err` (unknown handshake type)
  | msg (m : HsMsg) (rest : Bytes)
deriving Repr

/-- `HandshakeMessage::decode` -/
def decodeHs : Bytes → HsDec
  | t :: a0 :: a1 :: a2 :: q0 :: q1 :: o0 :: o1 :: o2 :: f0 :: f1 :: f2 :: rest =>
    if validHt t.toNat then
      let fl := beVal [f0, f1, f2]
      if rest.length < fl then .short
      else .msg ⟨t.toNat, beVal [a0, a1, a2], beVal [q0, q1], beVal [o0, o1, o2], rest.take fl⟩ (rest.drop fl)
    else .bad
  | _ => .short

def be24 (n : Nat) : Bytes := [byteAt n 2, byteAt n 1, byteAt n 0]

/-- `HandshakeMessage::encode`: the length field is `body.len()`, the fragment fields are the
struct's. -/
def encodeHs (typ msgSeq fragOff fragLen : Nat) (body : Bytes) : Bytes :=
  [UInt8.ofNat typ] ++ be24 body.length ++ be16 msgSeq ++ be24 fragOff ++ be24 fragLen ++ body

/-- an unfragmented message as the endpoint itself emits it -/
def rawMsg (typ msgSeq : Nat) (body : Bytes) : Bytes := encodeHs typ msgSeq 0 body.length body

/-- the bytes `decodeHs` consumed for `m` (what the code slices out of the record payload) -/
def rawOf (m : HsMsg) : Bytes :=
  [UInt8.ofNat m.typ] ++ be24 m.totalLen ++ be16 m.msgSeq ++ be24 m.fragOff ++ be24 m.body.length ++ m.body

/-! ### keys, crypto and local parameters -/

structure Keys where
  ms    : Bytes
  cr    : Bytes
  sr    : Bytes
  cwKey : Bytes
  swKey : Bytes
  cwIv  : Bytes
  swIv  : Bytes
deriving DecidableEq, Repr

/-- Interpretation of message bodies and the cryptographic functions — all arbitrary. -/
structure Crypto where
  /-- `ClientHello::decode` + extension scan: (random, extended-master-secret offered, SRTP profiles) -/
  chDecode   : Bytes → Option (Bytes × Bool × List Nat)
  /-- `ServerHello::decode` + extension scan: (random, EMS echoed, selected SRTP profile) -/
  shDecode   : Bytes → Option (Bytes × Bool × Option Nat)
  /-- `HelloVerifyRequest::decode` succeeds -/
  hvrOk      : Bytes → Bool
  /-- `CertificateMessage::decode` -/
  certDecode : Bytes → Option (List Bytes)
  /-- `fingerprint_from_der` (SHA-256, formatted) -/
  digest     : Bytes → Bytes
  /-- `certificate_public_key` succeeds -/
  pkOk       : Bytes → Bool
  /-- `ServerKeyExchange::decode`: the server's ECDH share -/
  skeDecode  : Bytes → Option Bytes
  /-- `verify_server_key_exchange_signature leaf client_random server_random ske` succeeds -/
  sigOk      : Bytes → Bytes → Bytes → Bytes → Bool
  /-- `ClientKeyExchange::decode`: the client's ECDH share -/
  ckeDecode  : Bytes → Option Bytes
  /-- ECDH(local share's secret, peer share) → master secret (EMS: over the transcript hash, else
  over the randoms) → `expand_keys`; `none` if the peer share does not parse -/
  derive     : Bytes → Bytes → Bytes → Bytes → Bool → Bytes → Option Keys
  /-- `calculate_verify_data master_secret label transcript` (`true` = "client finished") -/
  vd         : Bytes → Bool → Bytes → Bytes

/-- What this endpoint draws at random / owns: the bodies of the messages it emits. -/
structure Loc where
  pub          : Bytes          -- own ECDH share (names the ephemeral secret)
  clientRandom : Bytes
  chBody       : Bytes          -- first ClientHello
  ch2Body      : Bytes          -- ClientHello repeated with the cookie
  serverRandom : Bytes
  shBody       : Bytes
  certBody     : Bytes
  skeBody      : Bytes
  ckeBody      : Bytes

/-- a record handed to the socket -/
structure WRec where
  ctype  : Nat
  epoch  : Nat
  seq    : Nat
  sealed : Bool
  plain  : Bytes
deriving DecidableEq, Repr

inductive Out where
  | send (r : WRec)
  | deliver (p : Bytes)
deriving DecidableEq, Repr

/-- Ghost events (not in the code; they do not influence any step): what was *checked* so far in
this handshake, so that theorems can speak about "in that same handshake". -/
inductive Ev where
  /-- `handle_certificate` accepted this leaf (digest and key checks passed) -/
  | cert (leaf : Bytes)
  /-- the ServerKeyExchange signature verified under `leaf` over `cr ‖ sr ‖ params(body)` -/
  | ske (leaf cr sr body : Bytes)
  /-- session keys derived from (own share, peer share, randoms, EMS flag, transcript) -/
  | keys (pub peerPub cr sr : Bytes) (ems : Bool) (transcript : Bytes) (k : Keys)
  /-- the peer's Finished was accepted: `body` is the verify_data that *arrived*, `k` the keys and
  `transcript` the transcript it was compared against -/
  | finished (k : Keys) (transcript : Bytes) (body : Bytes)
  /-- own Finished emitted: `body` is the verify_data put on the wire, computed under `k` over `transcript` -/
  | sentFinished (k : Keys) (transcript : Bytes) (body : Bytes)
deriving DecidableEq, Repr

/-- `HandshakeContext`.  Not represented: `read_epoch` — the code only ever increments it (on
ChangeCipherSpec, saturating) and logs it; nothing reads it (`dtlsReadEpochStep` in the generated
constants anchors that single statement). -/
structure Ctx where
  seqNum        : Nat := 0
  epoch         : Nat := 0
  msgSeq        : Nat := 0
  recvSeq       : Nat := 0
  postHvr       : Bool := false
  lastFlight    : Option (List WRec) := none
  incomplete    : Bytes := []
  incompleteSeq : Nat := 0
  localSecret   : Bool := true
  peerPub       : Option Bytes := none
  peerCert      : Option Bytes := none
  clientRandom  : Option Bytes := none
  serverRandom  : Option Bytes := none
  keys          : Option Keys := none
  transcript    : Bytes := []
  ems           : Bool := false
  srtp          : Option Nat := none
  expectedFp    : Option Bytes := none
  skeVerified   : Bool := false
deriving Repr, DecidableEq

/-- one endpoint: `DtlsInner` + the run loop's context -/
structure Ep where
  isClient   : Bool
  conn       : Conn := .new
  connKeys   : Option Keys := none      -- keys inside `DtlsState::Connected`
  connSrtp   : Option Nat := none       -- profile inside `DtlsState::Connected`
  alive      : Bool := true             -- run loop still running
  writeEpoch : Nat := 0                 -- the atomics used by `send_record`
  writeSeq   : Nat := 0
  ctx        : Ctx := {}
  evs        : List Ev := []            -- ghost
deriving Repr, DecidableEq

def withCtx (e : Ep) (c : Ctx) : Ep := { e with ctx := c }

/-- result of a handler: new endpoint, outputs (oldest first), and whether it returned `Err` -/
structure R where
  ep  : Ep
  out : List Out := []
  err : Bool := false

def ok (e : Ep) (out : List Out := []) : R := ⟨e, out, false⟩
def failed (e : Ep) : R := ⟨{ e with conn := .failed }, [], true⟩

/-- read / write direction keys -/
def readKeys (isClient : Bool) (k : Keys) : DirKeys :=
  if isClient then ⟨k.swKey, k.swIv⟩ else ⟨k.cwKey, k.cwIv⟩
def writeKeys (isClient : Bool) (k : Keys) : DirKeys :=
  if isClient then ⟨k.cwKey, k.cwIv⟩ else ⟨k.swKey, k.swIv⟩

/-! ### building outgoing handshake records -/

/-- `build_handshake_record`: sealed iff `epoch > 0` and keys were passed; bumps `sequence_number` -/
def hsRecord (c : Ctx) (raw : Bytes) (withKeys : Bool) : WRec × Ctx :=
  (⟨dtlsCtHandshake, c.epoch, c.seqNum, decide (c.epoch > 0) && withKeys, raw⟩, { c with seqNum := c.seqNum + 1 })

/-- emit one own handshake message: append to the transcript, build its record, bump `message_seq` -/
def emitMsg (c : Ctx) (typ : Nat) (body : Bytes) (withKeys : Bool) : WRec × Ctx :=
  let raw := rawMsg typ c.msgSeq body
  let c1 := { c with transcript := c.transcript ++ raw }
  let (r, c2) := hsRecord c1 raw withKeys
  (r, { c2 with msgSeq := c2.msgSeq + 1 })

/-- ChangeCipherSpec record, then `epoch += 1; sequence_number = 0` -/
def ccsRecord (c : Ctx) : WRec × Ctx :=
  (⟨dtlsCtChangeCipherSpec, c.epoch, c.seqNum, false, [1]⟩, { c with epoch := c.epoch + 1, seqNum := 0 })

def sends (rs : List WRec) : List Out := rs.map Out.send

/-! ### message handlers -/

def fpMismatch (expected : Option Bytes) (actual : Bytes) : Bool :=
  match expected with
  | none => false
  | some f => decide (actual ≠ f)

/-- `handle_certificate` (no role test in the code) -/
def handleCertificate (C : Crypto) (e : Ep) (body : Bytes) : R :=
  match C.certDecode body with
  | none => ⟨e, [], true⟩
  | some [] => failed e
  | some (leaf :: _) =>
    if fpMismatch e.ctx.expectedFp (C.digest leaf) then failed e
    else if !C.pkOk leaf then failed e
    else ok { e with ctx := { e.ctx with peerCert := some leaf }, evs := .cert leaf :: e.evs }

def selectSrtp (ps : List Nat) : Option Nat :=
  match ps with
  | [] => none
  | p :: _ => if ps.contains 1 then some 1 else some p

/-- the server's flight 4: ServerHello, Certificate, ServerKeyExchange, ServerHelloDone -/
def serverFlight (L : Loc) (c : Ctx) : List WRec × Ctx :=
  let (r1, c1) := emitMsg c dtlsHtServerHello L.shBody false
  let (r2, c2) := emitMsg c1 dtlsHtCertificate L.certBody false
  let (r3, c3) := emitMsg c2 dtlsHtServerKeyExchange L.skeBody false
  let (r4, c4) := emitMsg c3 dtlsHtServerHelloDone [] false
  ([r1, r2, r3, r4], c4)

/-- what the server notes from an accepted ClientHello: client random, EMS offer, its own fresh
random, the SRTP profile it selects -/
def helloCtx (L : Loc) (c : Ctx) (random : Bytes) (ems : Bool) (profiles : List Nat) : Ctx :=
  { c with clientRandom := some random, ems := c.ems || ems, serverRandom := some L.serverRandom,
           srtp := match selectSrtp profiles with | some p => some p | none => c.srtp }

/-- `handle_client_hello` -/
def handleClientHello (C : Crypto) (L : Loc) (e : Ep) (body : Bytes) : R :=
  if e.isClient then ok e
  else if e.ctx.serverRandom.isSome then
    match e.ctx.lastFlight with
    | some fl => ok e (sends fl)
    | none => ok e
  else match C.chDecode body with
    | none => ok e
    | some (random, ems, profiles) =>
      let fc := serverFlight L (helloCtx L e.ctx random ems profiles)
      ok (withCtx e { fc.2 with lastFlight := some fc.1 }) (sends fc.1)

/-- key derivation shared by `handle_client_key_exchange` and `handle_server_hello_done` -/
def deriveKeys (C : Crypto) (L : Loc) (c : Ctx) : Option Keys :=
  match c.peerPub with
  | none => none
  | some pk =>
    if !c.localSecret then none
    else match c.clientRandom, c.serverRandom with
      | some cr, some sr => C.derive L.pub pk cr sr c.ems c.transcript
      | _, _ => none

/-- `handle_client_key_exchange` -/
def handleClientKeyExchange (C : Crypto) (L : Loc) (e : Ep) (body : Bytes) : R :=
  if e.isClient then ok e
  else if e.ctx.keys.isSome then ok e
  else match C.ckeDecode body with
    | none => ok e
    | some pk =>
      let c0 := { e.ctx with peerPub := some pk }
      match deriveKeys C L c0 with
      | none => ok { e with ctx := c0 }
      | some k => ok { e with ctx := { c0 with keys := some k },
                              evs := .keys L.pub pk (c0.clientRandom.getD []) (c0.serverRandom.getD []) c0.ems c0.transcript k :: e.evs }

/-- publishing `Connected`: `write_epoch`, `write_seq`, then the state (sequentially one step here; the interleaving with
concurrent senders is `DtlsRecord.PSys`), then `local_secret = None` -/
def connect (e : Ep) (k : Keys) (verifiedOver : Bytes) (body : Bytes) : Ep :=
  { e with conn := .connected, connKeys := some k, connSrtp := e.ctx.srtp,
           evs := .finished k verifiedOver body :: e.evs,
           writeEpoch := e.ctx.epoch, writeSeq := e.ctx.seqNum,
           ctx := { e.ctx with localSecret := false } }

def zeros12 : Bytes := List.replicate 12 0

/-- the Finished check: with keys the verify_data must equal ours for the current transcript; the
server branch runs it only `if let Some(keys)` -/
def finishedBad (C : Crypto) (c : Ctx) (body : Bytes) (clientLabel : Bool) : Bool :=
  match c.keys with
  | some k => decide (body ≠ C.vd k.ms clientLabel c.transcript)
  | none => false

/-- the server's final flight: transcript += client Finished, ChangeCipherSpec, epoch switch, own
Finished (all-zero verify_data when there are no keys) -/
def serverFinalFlight (C : Crypto) (c : Ctx) (raw : Bytes) : List WRec × Ctx :=
  let c0 := { c with transcript := c.transcript ++ raw }
  let (rc, c1) := ccsRecord c0
  let verify := match c1.keys with
    | some k => C.vd k.ms false c1.transcript
    | none => zeros12
  let rawF := rawMsg dtlsHtFinished c1.msgSeq verify
  let c2 := { c1 with transcript := c1.transcript ++ rawF }
  let (rf, c3) := hsRecord c2 rawF c2.keys.isSome
  ([rc, rf], { c3 with lastFlight := some [rc, rf] })

/-- `handle_finished`, server branch -/
def handleFinishedServer (C : Crypto) (e : Ep) (body raw : Bytes) : R :=
  if finishedBad C e.ctx body true then failed e
  else
    let fc := serverFinalFlight C e.ctx raw
    match e.ctx.keys with
    | some k => ok (connect { withCtx e fc.2 with evs := .sentFinished k (e.ctx.transcript ++ raw) (C.vd k.ms false (e.ctx.transcript ++ raw)) :: e.evs } k e.ctx.transcript body) (sends fc.1)
    | none => ⟨{ withCtx e fc.2 with conn := .failed }, sends fc.1, true⟩

/-- `handle_finished`, client branch -/
def handleFinishedClient (C : Crypto) (e : Ep) (body : Bytes) : R :=
  match e.ctx.keys with
  | none => ok e
  | some k =>
    if body ≠ C.vd k.ms false e.ctx.transcript then failed e
    else ok (connect e k e.ctx.transcript body)

/-- `handle_hello_verify_request`: a server ignores the message (`if !is_client { return Ok(()) }`) -/
def handleHvr (C : Crypto) (L : Loc) (e : Ep) (body : Bytes) : R :=
  if !e.isClient then ok e
  else if C.hvrOk body then
    let c0 := { e.ctx with transcript := [] }
    let raw := rawMsg dtlsHtClientHello c0.msgSeq L.ch2Body
    let c1 := { c0 with transcript := raw }
    let (r, c2) := hsRecord c1 raw false
    if c2.msgSeq ≥ 65535 then      -- `message_seq.checked_add(1)` fails after the ClientHello went out: `Err`
      ⟨{ e with ctx := { c2 with lastFlight := some [r] } }, sends [r], true⟩
    else
    ok { e with ctx := { c2 with lastFlight := some [r], msgSeq := c2.msgSeq + 1, postHvr := true } } (sends [r])
  else ok e

/-- `handle_server_hello` -/
def handleServerHello (C : Crypto) (e : Ep) (body : Bytes) : R :=
  if !e.isClient then ok e
  else match C.shDecode body with
    | none => ok e
    | some (random, ems, profile) =>
      ok { e with ctx := { e.ctx with serverRandom := some random, ems := e.ctx.ems || ems,
                                      srtp := match profile with | some p => some p | none => e.ctx.srtp } }

/-- `handle_server_key_exchange` -/
def handleServerKeyExchange (C : Crypto) (e : Ep) (body : Bytes) : R :=
  if !e.isClient then ok e
  else match C.skeDecode body with
    | none => ok e
    | some share =>
      match e.ctx.peerCert with
      | none => failed e
      | some leaf =>
        match e.ctx.clientRandom, e.ctx.serverRandom with
        | some cr, some sr =>
          if C.sigOk leaf cr sr body then
            ok { e with ctx := { e.ctx with peerPub := some share, skeVerified := true },
                        evs := .ske leaf cr sr body :: e.evs }
          else failed e
        | _, _ => failed e

/-- the client's ChangeCipherSpec + Finished once keys exist -/
def clientFinalFlight (C : Crypto) (c : Ctx) (k : Keys) : List WRec × Ctx :=
  let c2 := { c with keys := some k }
  let (rc, c3) := ccsRecord c2
  let (rf, c4) := emitMsg c3 dtlsHtFinished (C.vd k.ms true c3.transcript) true
  ([rc, rf], c4)

/-- `handle_server_hello_done`: a server ignores the message; a client that already has keys too -/
def handleServerHelloDone (C : Crypto) (L : Loc) (e : Ep) : R :=
  if !e.isClient then ok e
  else if e.ctx.keys.isSome then ok e
  else if e.isClient && !e.ctx.skeVerified then failed e
  else
    let kc := emitMsg e.ctx dtlsHtClientKeyExchange L.ckeBody false
    match deriveKeys C L kc.2 with
    | none => ok (withCtx e kc.2) (sends [kc.1])
    | some k =>
      let fc := clientFinalFlight C kc.2 k
      -- the flight kept for retransmission starts with the ClientKeyExchange
      ok { withCtx e { fc.2 with lastFlight := some (kc.1 :: fc.1) } with
             evs := .sentFinished k kc.2.transcript (C.vd k.ms true kc.2.transcript) ::
                    .keys L.pub (kc.2.peerPub.getD []) (kc.2.clientRandom.getD []) (kc.2.serverRandom.getD []) kc.2.ems kc.2.transcript k :: e.evs }
         (sends (kc.1 :: fc.1))

/-- `handle_handshake_message` -/
def handleMsg (C : Crypto) (L : Loc) (e : Ep) (typ : Nat) (body raw : Bytes) : R :=
  if typ = dtlsHtClientHello then handleClientHello C L e body
  else if typ = dtlsHtClientKeyExchange then handleClientKeyExchange C L e body
  else if typ = dtlsHtFinished then
    (if e.writeEpoch ≠ 0 then ok e      -- the handshake has completed once: ignored
     else if e.isClient then handleFinishedClient C e body else handleFinishedServer C e body raw)
  else if typ = dtlsHtHelloVerifyRequest then handleHvr C L e body
  else if typ = dtlsHtServerHello then handleServerHello C e body
  else if typ = dtlsHtCertificate then handleCertificate C e body
  else if typ = dtlsHtServerKeyExchange then handleServerKeyExchange C e body
  else if typ = dtlsHtServerHelloDone then handleServerHelloDone C L e
  else ok e

/-! ### `process_handshake_payload` -/

def inTranscript (typ : Nat) : Bool :=
  typ != dtlsHtFinished && typ != dtlsHtHelloRequest && typ != dtlsHtHelloVerifyRequest

/-- `if ctx.post_hvr { ctx.post_hvr = false }` -/
def clearPostHvr (e : Ep) : Ep :=
  if e.ctx.postHvr then { e with ctx := { e.ctx with postHvr := false } } else e

/-- fragment buffer: reset on another message or on offset 0; then a fragment that starts inside or at
the end of the buffer (`fragment_offset ≤ buffer.len()`) and reaches beyond it contributes the bytes
beyond it (fragment ranges may overlap); any other fragment is ignored -/
def resetFrag (c : Ctx) (m : HsMsg) : Ctx :=
  if c.incompleteSeq ≠ m.msgSeq || m.fragOff = 0
  then { c with incomplete := [], incompleteSeq := m.msgSeq } else c

def appendFrag (c : Ctx) (m : HsMsg) : Ctx :=
  { c with incomplete := c.incomplete ++ m.body.drop (c.incomplete.length - m.fragOff) }

/-- the fragment neither leaves a gap after the buffer nor lies wholly inside it -/
def fragUseful (c : Ctx) (m : HsMsg) : Bool :=
  decide (m.fragOff ≤ c.incomplete.length) && decide (c.incomplete.length < m.fragOff + m.body.length)

/-- `recv_message_seq += 1` and the transcript rule -/
def noteMsg (c : Ctx) (typ : Nat) (raw : Bytes) : Ctx :=
  { c with recvSeq := c.recvSeq + 1,
           transcript := if inTranscript typ then c.transcript ++ raw else c.transcript }

def takeBuffer (c : Ctx) : Ctx := { c with incomplete := [] }

/-- the expected message (after the sequence filters): reassembly, transcript, handler -/
def acceptMsg (C : Crypto) (L : Loc) (e : Ep) (m : HsMsg) : R :=
  let e0 := clearPostHvr e
  if m.totalLen ≠ m.body.length then
    let c1 := resetFrag e0.ctx m
    if !fragUseful c1 m then ok (withCtx e0 c1)
    else
      let c2 := appendFrag c1 m
      if c2.incomplete.length < m.totalLen then ok (withCtx e0 c2)
      else if c2.recvSeq ≥ 65535 then ⟨withCtx e0 (takeBuffer c2), [], true⟩   -- `checked_add(1)` fails: `Err`
      else
        let body := c2.incomplete
        let raw := encodeHs m.typ m.msgSeq 0 m.totalLen body
        handleMsg C L (withCtx e0 (noteMsg (takeBuffer c2) m.typ raw)) m.typ body raw
  else if e0.ctx.recvSeq ≥ 65535 then ⟨e0, [], true⟩
  else
    handleMsg C L (withCtx e0 (noteMsg e0.ctx m.typ (rawOf m))) m.typ m.body (rawOf m)

/-- post-HVR resynchronisation of the receive counter (only the ServerHello, which opens the server's
post-cookie flight, may move it) -/
def resync (e : Ep) (m : HsMsg) : Ep :=
  { e with ctx := { e.ctx with recvSeq := m.msgSeq, postHvr := false } }

/-- the check added before an expected message is accepted: once keys exist it must have come in
a protected record -/
def gate (C : Crypto) (L : Loc) (e : Ep) (auth : Bool) (m : HsMsg) : R :=
  if !auth && e.ctx.keys.isSome then ok e else acceptMsg C L e m

/-- one decoded handshake message of a record (`authenticated` = the record was epoch ≥ 1 and
opened under the negotiated keys) -/
def procMsg (C : Crypto) (L : Loc) (e : Ep) (auth : Bool) (m : HsMsg) : R :=
  if m.msgSeq < e.ctx.recvSeq then
    if e.ctx.postHvr && e.isClient && m.typ = dtlsHtServerHello then gate C L (resync e m) auth m
    else if m.typ = dtlsHtClientHello && !e.isClient then handleMsg C L e m.typ m.body (rawOf m)
    else if m.typ = dtlsHtFinished && !e.isClient && auth then
      (match e.ctx.lastFlight with        -- the client repeats its Finished: our final flight was lost
       | some fl => ok e (sends fl)
       | none => ok e)
    else ok e
  else if m.msgSeq > e.ctx.recvSeq then
    if e.ctx.postHvr && e.isClient && m.typ = dtlsHtServerHello then gate C L (resync e m) auth m
    else ok e
  else gate C L e auth m

/-- the `while !body.is_empty()` loop; a handler's `Err` aborts it (`?`) -/
def procPayload (C : Crypto) (L : Loc) (auth : Bool) : Nat → Ep → Bytes → R
  | 0, e, _ => ok e
  | fuel + 1, e, bs =>
    if bs.isEmpty then ok e else
    match decodeHs bs with
    | .short => ok e
    | .bad => ok e
    | .msg m rest =>
      let r := procMsg C L e auth m
      if r.err then r
      else
        let r2 := procPayload C L auth fuel r.ep rest
        ⟨r2.ep, r.out ++ r2.out, r2.err⟩

/-! ### `handle_decrypted_record` and the datagram loop -/

/-- `handle_decrypted_record` -/
def onRecord (C : Crypto) (L : Loc) (e : Ep) (ctype : Nat) (auth : Bool) (payload : Bytes) : R :=
  if ctype = dtlsCtChangeCipherSpec then ok e     -- only `ctx.read_epoch` is bumped, which nothing reads
  
  else if ctype = dtlsCtApplicationData then
    (if e.conn = .connected then ok e [.deliver payload] else ok e)   -- dropped unless Connected
  else if ctype = dtlsCtHandshake then procPayload C L auth (payload.length + 1) e payload
  else if ctype = dtlsCtAlert then
    match payload with
    | _ :: d :: _ => if d = 0 then ok { e with conn := .closed } else ok e
    | _ => ok e
  else ok e

/-- the test added at the top of the record loop: clear-text application data never, clear-text
alerts not once keys exist -/
def dropClear (e : Ep) (r : Rec) : Bool :=
  r.epoch == 0 && (r.ctype == dtlsCtApplicationData || (r.ctype == dtlsCtAlert && e.ctx.keys.isSome))

def rxKeys (e : Ep) : Option DirKeys := e.ctx.keys.map (readKeys e.isClient)

/-- `handle_incoming_packet` -/
def onDatagram (A : DecFn) (C : Crypto) (L : Loc) : Nat → Ep → Bytes → R
  | 0, e, _ => ok e
  | fuel + 1, e, bs =>
    if bs.isEmpty then ok e else
    match decodeRec bs with
    | .short => ok e
    | .bad => ok e
    | .ok r rest =>
      if dropClear e r then onDatagram A C L fuel e rest
      else match tryDecrypt A (rxKeys e) r with
        | none => ok e
        | some payload =>
          let r1 := onRecord C L e r.ctype (r.epoch != 0) payload
          if r1.err then r1
          else
            let r2 := onDatagram A C L fuel r1.ep rest
            ⟨r2.ep, r1.out ++ r2.out, r2.err⟩

/-- the run loop's packet branch: an `Err` ends the task iff the state is `Failed` (the runner then
stores `Failed` again) -/
def onPacket (A : DecFn) (C : Crypto) (L : Loc) (e : Ep) (bs : Bytes) : Ep × List Out :=
  if !e.alive then (e, [])
  else
    let r := onDatagram A C L (bs.length + 1) e bs
    if r.err && r.ep.conn = .failed then ({ r.ep with alive := false }, r.out) else (r.ep, r.out)

/-! ### start, retransmit tick, close -/

/-- `handshake()` up to the loop: state Handshaking; the client sends its ClientHello -/
def start (L : Loc) (isClient : Bool) (expectedFp : Option Bytes) : Ep × List Out :=
  let e : Ep := { isClient, conn := .handshaking, ctx := { expectedFp } }
  if isClient then
    let c0 := { e.ctx with clientRandom := some L.clientRandom }
    let (r, c1) := emitMsg c0 dtlsHtClientHello L.chBody false
    ({ e with ctx := { c1 with lastFlight := some [r] } }, sends [r])
  else (e, [])

/-- `handle_retransmit`: only while Handshaking -/
def onTick (e : Ep) : List Out :=
  if e.alive && e.conn = .handshaking then
    match e.ctx.lastFlight with
    | some fl => sends fl
    | none => []
  else []

/-- the handshake deadline -/
def onDeadline (e : Ep) : Ep :=
  if e.alive && e.conn = .handshaking then { e with conn := .failed, alive := false } else e

/-- the close branch: with keys, one sealed alert whose sequence number comes from `write_seq`
once the handshake has completed (the counter application records use: `write_epoch` was published
and equals the context's epoch) and from the context otherwise; then — with or without keys, whatever
the state was — the state `Closed` is stored and published and the task ends.  (`send()` checks the
state first, so every `send()` that starts after this is refused.) -/
def onClose (e : Ep) : Ep × List Out :=
  if !e.alive then (e, [])
  else match e.ctx.keys with
    | none => ({ e with alive := false, conn := .closed }, [])
    | some _ =>
      if e.ctx.epoch > 0 ∧ e.writeEpoch = e.ctx.epoch then
        ({ e with alive := false, conn := .closed, writeSeq := e.writeSeq + 1 },
         [.send ⟨dtlsCtAlert, e.ctx.epoch, e.writeSeq, true, [1, 0]⟩])
      else
        ({ e with alive := false, conn := .closed }, [.send ⟨dtlsCtAlert, e.ctx.epoch, e.ctx.seqNum, true, [1, 0]⟩])

/-- `send()`: only when Connected; one `fetch_add` per chunk -/
def onSend (e : Ep) (data : Bytes) : Ep × List Out :=
  if e.conn = .connected then
    let cs := appChunks data
    ({ e with writeSeq := e.writeSeq + cs.length },
     (List.range cs.length).zipWith (fun i c => Out.send ⟨dtlsCtApplicationData, e.writeEpoch, e.writeSeq + i, true, c⟩) cs)
  else (e, [])

/-- `export_keying_material`: only in state Connected (label/length handling is the PRF's) -/
def exporter (e : Ep) : Option Keys := if e.conn = .connected then e.connKeys else none

/-! ### histories of one endpoint -/

/-- everything that can happen to an endpoint; `packet` carries the AEAD's behaviour on that
datagram as an arbitrary function, so "every datagram an on-path party can feed" includes every
outcome of decryption -/
inductive Op where
  | packet (dec : DecFn) (bs : Bytes)
  | send (data : Bytes)
  | close
  | tick
  | deadline

def stepOp (C : Crypto) (L : Loc) (e : Ep) : Op → Ep × List Out
  | .packet dec bs => onPacket dec C L e bs
  | .send d => onSend e d
  | .close => onClose e
  | .tick => (e, onTick e)
  | .deadline => (onDeadline e, [])

def runOps (C : Crypto) (L : Loc) (e : Ep) : List Op → Ep × List Out
  | [] => (e, [])
  | o :: os =>
    let (e1, o1) := stepOp C L e o
    let (e2, o2) := runOps C L e1 os
    (e2, o1 ++ o2)

end RtcModel.DtlsHs
