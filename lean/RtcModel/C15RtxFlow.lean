/-
C15 — the RTX plumbing around the pure helpers: `append_rtx_to_section` / `rtx_pt_for_primary` (`src/rtx.rs`),
the receive-side choice of primary SSRC / payload type in `RtpReceiver::maybe_unwrap_rtx` and the
retransmission loop of `DefaultRtpSenderNackHandler::on_rtcp_received` (`src/peer_connection.rs`).
-/
import RtcModel.C15Rtp
import RtcModel.C15Apt
import RtcModel.C15NackBuf

namespace RtcModel.C15

/-- decimal digits of `n`, least significant first (`fuel` ≥ number of digits) -/
def decRev : Nat → Nat → Bytes
  | 0, _ => []
  | fuel + 1, n => if n < 10 then [u8 (48 + n)] else u8 (48 + n % 10) :: decRev fuel (n / 10)

/-- `format!("{n}")` for an unsigned integer below 10^20 -/
def decNat (n : Nat) : Bytes := (decRev 20 n).reverse

structure Section where
  formats : List Bytes
  attrs : List (Bytes × Option Bytes)
  deriving DecidableEq, Repr

def rtpmapKey : Bytes := [0x72, 0x74, 0x70, 0x6D, 0x61, 0x70]        -- "rtpmap"
def rtxSlash : Bytes := [0x20, 0x72, 0x74, 0x78, 0x2F]               -- " rtx/"
def aptEq : Bytes := [0x20, 0x61, 0x70, 0x74, 0x3D]                  -- " apt="

/-- `append_rtx_to_section` -/
def appendRtx (s : Section) (primaryPt rtxPt : UInt8) (clock : Nat) : Section :=
  let rtxStr := decNat rtxPt.toNat
  let formats := if s.formats.contains rtxStr then s.formats else s.formats ++ [rtxStr]
  let rtpmap := rtxStr ++ rtxSlash ++ decNat clock
  let already := s.attrs.any fun a => a.1 == rtpmapKey && a.2 == some rtpmap
  if already then { formats := formats, attrs := s.attrs }
  else { formats := formats,
         attrs := s.attrs ++ [(rtpmapKey, some rtpmap), (fmtpKey, some (rtxStr ++ aptEq ++ decNat primaryPt.toNat))] }

/-- RTX payload types associated with `primary` (`rtx_pt_for_primary` returns one of them — the first in
`HashMap` iteration order, i.e. an unspecified one when there are several) -/
def rtxCandidates (m : List (UInt8 × UInt8)) (primary : UInt8) : List UInt8 :=
  (m.filter (·.2 == primary)).map (·.1)

def aptLookup (m : List (UInt8 × UInt8)) (pt : UInt8) : Option UInt8 := (m.find? (·.1 == pt)).map (·.2)

/-- `RtpReceiver::maybe_unwrap_rtx`: `apt` = negotiated RTX PT → primary PT map, `rtxSsrc` = negotiated RTX
SSRC, `ssrc` = latched primary SSRC (0 = not latched) -/
def maybeUnwrap (apt : List (UInt8 × UInt8)) (rtxSsrc : Option UInt32) (ssrc : UInt32) (p : Packet) : Option Packet :=
  let primaryPt := aptLookup apt p.hdr.pt
  let isRtxSsrc := rtxSsrc == some p.hdr.ssrc
  if primaryPt.isNone && !isRtxSsrc then some p
  else match primaryPt with
    | none => none
    | some ppt => if ssrc = 0 then none else unwrapRtx p ssrc ppt

/-- what an `RtpReceiver` holds for RTX: the `apt` map (`set_rtx_apt_map`), the negotiated RTX SSRC
(`set_rtx_ssrc`) and the primary SSRC (`set_ssrc` from the SDP, then latched by the receive loop; 0 = unknown) -/
structure RxState where
  apt : List (UInt8 × UInt8)
  rtxSsrc : Option UInt32
  ssrc : UInt32
  deriving Repr

/-- the receiver a remote m-section creates (`set_remote_description`, new-transceiver branch): `apt` from the
`a=fmtp` lines, the RTX SSRC from `a=ssrc-group:FID <primary> <rtx>`, the primary SSRC from the `a=ssrc` lines
(with a FID group only the group's primary counts, otherwise the first one) -/
def sdpRx (attrs : List (Bytes × Option Bytes)) (fid : Option (UInt32 × UInt32)) (ssrcs : List UInt32) : RxState :=
  { apt := extractApt attrs [],
    rtxSsrc := fid.map (·.2),
    ssrc := match fid with
      | some (p, _) => if ssrcs.contains p then p else 0
      | none => ssrcs.head?.getD 0 }

/-- the same remote m-section applied to a transceiver that EXISTS already (`add_transceiver` / re-offer; the
`found_transceiver` branch): SSRC, RTX SSRC and `apt` map are written only when an `a=ssrc` line gave a primary SSRC -/
def sdpRxExisting (attrs : List (Bytes × Option Bytes)) (fid : Option (UInt32 × UInt32)) (ssrcs : List UInt32) : RxState :=
  let primary : Option UInt32 := match fid with
    | some (p, _) => if ssrcs.contains p then some p else none
    | none => ssrcs.head?
  match primary with
  | some p => { apt := extractApt attrs [], rtxSsrc := fid.map (·.2), ssrc := p }
  | none => { apt := [], rtxSsrc := none, ssrc := 0 }

/-- one iteration of the receive loop for the main track: `maybe_unwrap_rtx`; whatever goes on to the
depacketizer latches its SSRC as the primary one -/
def RxState.step (st : RxState) (p : Packet) : RxState × Option Packet :=
  match maybeUnwrap st.apt st.rtxSsrc st.ssrc p with
  | none => (st, none)
  | some q => ({ st with ssrc := q.hdr.ssrc }, some q)

def rxRun (st : RxState) : List Packet → List (Option Packet) × UInt32
  | [] => ([], st.ssrc)
  | p :: ps => let r := st.step p; let t := rxRun r.1 ps; (r.2 :: t.1, t.2)

end RtcModel.C15
