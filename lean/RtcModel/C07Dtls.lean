/-
C07 — totality models of the DTLS byte decoders: `DtlsRecord::decode` (record.rs:75-107),
`HandshakeMessage::decode` (handshake.rs:77-104), `ClientHello/ServerHello::decode` (185-259, 291-339; after the
`fix:` commit that checks for the session_id length byte), `HelloVerifyRequest`, `ServerKeyExchange`,
`CertificateMessage`, `ClientKeyExchange`, `Finished` decoders, the record walk of
`DtlsTransport::handle_incoming_packet` and the message walk of `process_handshake_payload` (dtls/mod.rs:484-511,
632-767, decode + progress part only), and the ClientHello / ServerHello extension walks (dtls/mod.rs:897-926,
1468-1488).  Error strings are the `anyhow` messages with blanks replaced by `_`.
-/
import RtcModel.Base.C07Cursor
namespace RtcModel.C07.Dtls
open RtcModel.C07

def validContentType (ct : Nat) : Bool := 20 ≤ ct ∧ ct ≤ 24
def validHandshakeType (t : Nat) : Bool :=
  t = 0 ∨ t = 1 ∨ t = 2 ∨ t = 3 ∨ t = 11 ∨ t = 12 ∨ t = 13 ∨ t = 14 ∨ t = 15 ∨ t = 16 ∨ t = 20

/-- `DtlsRecord::decode(buf: &mut Bytes)`: `([], _)` = `Ok(None)`, else
`([type, major, minor, epoch, seq48, length], payload)` -/
def recordDecodeP : Cur (List Nat × Buf) := do
  if (← remaining) < 13 then pure ([], ⟨#[], 0⟩) else
  let ct ← peek 0
  if ¬ validContentType ct then bail s!"Invalid_ContentType:_{ct}" else
  let major ← peek 1
  let minor ← peek 2
  let e1 ← peek 3
  let e2 ← peek 4
  let body ← restSlice
  let sq ← slice body 5 11                             -- `&buf[5..11]`
  let l1 ← peek 11
  let l2 ← peek 12
  let length := l1 * 256 + l2
  if (← remaining) < 13 + length then pure ([], ⟨#[], 0⟩) else
  advance 13
  let payload ← splitTo length
  pure ([ct, major, minor, e1 * 256 + e2, beVal sq 0 6, length], payload)

/-- digest form: `[]` = `Ok(None)`, else `[type, major, minor, epoch, seq48, length, fold(payload)]` -/
def recordDecode : Cur (List Nat) := do
  let r ← recordDecodeP
  pure (if r.1 = [] then [] else r.1 ++ [foldA r.2.rest])

/-- `HandshakeMessage::decode(buf: &mut Bytes)`: `[]` = `Ok(None)`, else
`[type, total_length, message_seq, fragment_offset, fragment_length, fold(body)]` -/
def handshakeDecode : Cur (List Nat) := do
  if (← remaining) < 12 then pure [] else
  let t ← peek 0
  if ¬ validHandshakeType t then bail s!"Invalid_HandshakeType:_{t}" else
  let a1 ← peek 1
  let a2 ← peek 2
  let a3 ← peek 3
  let s1 ← peek 4
  let s2 ← peek 5
  let o1 ← peek 6
  let o2 ← peek 7
  let o3 ← peek 8
  let f1 ← peek 9
  let f2 ← peek 10
  let f3 ← peek 11
  let fragLen := (f1 * 256 + f2) * 256 + f3
  if (← remaining) < 12 + fragLen then pure [] else
  advance 12
  let body ← splitTo fragLen
  pure [t, (a1 * 256 + a2) * 256 + a3, s1 * 256 + s2, (o1 * 256 + o2) * 256 + o3, fragLen, foldA body.rest]

/-- `ClientHello::decode` -/
def clientHelloDecode : Cur (List Nat) := do
  if (← remaining) < 34 then bail "ClientHello_too_short" else
  let major ← getU8
  let minor ← getU8
  let gmt ← getU32
  let rnd ← splitTo 28
  if (← remaining) = 0 then bail "ClientHello_too_short_for_session_id_length" else
  let sidLen ← getU8
  if (← remaining) < sidLen then bail "ClientHello_too_short_for_session_id" else
  let sid ← splitTo sidLen
  alloc sidLen
  if (← remaining) = 0 then bail "ClientHello_too_short_for_cookie_length" else
  let cookieLen ← getU8
  if (← remaining) < cookieLen then bail "ClientHello_too_short_for_cookie" else
  let cookie ← splitTo cookieLen
  alloc cookieLen
  if (← remaining) < 2 then bail "ClientHello_too_short_for_cipher_suites_length" else
  let csLen ← getU16
  if (← remaining) < csLen then bail "ClientHello_too_short_for_cipher_suites" else
  let csBuf ← splitTo csLen
  let cs ← onBuf csBuf (getU16sAll (csLen + 1))
  if (← remaining) = 0 then bail "ClientHello_too_short_for_compression_methods_length" else
  let compLen ← getU8
  if (← remaining) < compLen then bail "ClientHello_too_short_for_compression_methods" else
  let comp ← splitTo compLen
  alloc compLen
  if (← remaining) ≥ 2 then
    let extLen ← getU16
    if (← remaining) < extLen then bail "ClientHello_too_short_for_extensions" else
    let ext ← splitTo extLen
    alloc extLen
    pure [major, minor, gmt, foldA rnd.rest, sidLen, foldA sid.rest, cookieLen, foldA cookie.rest,
      cs.1.length, foldL cs.1, compLen, foldA comp.rest, extLen, foldA ext.rest]
  else
    pure [major, minor, gmt, foldA rnd.rest, sidLen, foldA sid.rest, cookieLen, foldA cookie.rest,
      cs.1.length, foldL cs.1, compLen, foldA comp.rest, 0, 7]

/-- `ServerHello::decode` -/
def serverHelloDecode : Cur (List Nat) := do
  if (← remaining) < 34 then bail "ServerHello_too_short" else
  let major ← getU8
  let minor ← getU8
  let gmt ← getU32
  let rnd ← splitTo 28
  if (← remaining) = 0 then bail "ServerHello_too_short_for_session_id_length" else
  let sidLen ← getU8
  if (← remaining) < sidLen then bail "ServerHello_too_short_for_session_id" else
  let sid ← splitTo sidLen
  alloc sidLen
  if (← remaining) < 3 then bail "ServerHello_too_short_for_cipher_suite_and_compression" else
  let suite ← getU16
  let comp ← getU8
  if (← remaining) ≥ 2 then
    let extLen ← getU16
    if (← remaining) < extLen then bail "ServerHello_too_short_for_extensions" else
    let ext ← splitTo extLen
    alloc extLen
    pure [major, minor, gmt, foldA rnd.rest, sidLen, foldA sid.rest, suite, comp, extLen, foldA ext.rest]
  else
    pure [major, minor, gmt, foldA rnd.rest, sidLen, foldA sid.rest, suite, comp, 0, 7]

/-- `HelloVerifyRequest::decode` -/
def helloVerifyDecode : Cur (List Nat) := do
  if (← remaining) < 3 then bail "HelloVerifyRequest_too_short" else
  let major ← getU8
  let minor ← getU8
  let cookieLen ← getU8
  if (← remaining) < cookieLen then bail "HelloVerifyRequest_too_short_for_cookie" else
  let cookie ← splitTo cookieLen
  alloc cookieLen
  pure [major, minor, cookieLen, foldA cookie.rest]

/-- `ServerKeyExchange::decode` -/
def serverKeyExchangeDecode : Cur (List Nat) := do
  if (← remaining) < 4 then bail "ServerKeyExchange_too_short" else
  let curveType ← getU8
  let namedCurve ← getU16
  let pkLen ← getU8
  if (← remaining) < pkLen then bail "ServerKeyExchange_too_short_for_public_key" else
  let pk ← splitTo pkLen
  alloc pkLen
  if (← remaining) < 4 then bail "ServerKeyExchange_too_short_for_signature_header" else
  let _h ← getU8
  let _s ← getU8
  let sigLen ← getU16
  if (← remaining) < sigLen then bail "ServerKeyExchange_too_short_for_signature" else
  let sig ← splitTo sigLen
  alloc sigLen
  pure [curveType, namedCurve, pkLen, foldA pk.rest, sigLen, foldA sig.rest]

/-- size of a `Vec<u8>` header pushed into `Vec<Vec<u8>>` -/
def szVec : Nat := 24

/-- certificate entries loop on `certs_buf`; state = (count, Σ len, fold) -/
def certEntriesBody (s : Nat × Nat × Nat) : Cur ((Nat × Nat × Nat) ⊕ (Nat × Nat × Nat)) := do
  if (← remaining) = 0 then pure (.inr s) else
  if (← remaining) < 3 then bail "Certificate_entry_missing_length" else
  let c1 ← peek 0
  let c2 ← peek 1
  let c3 ← peek 2
  let certLen := (c1 * 256 + c2) * 256 + c3
  advance 3
  if (← remaining) < certLen then bail "Certificate_entry_shorter_than_declared_length" else
  let cert ← splitTo certLen
  alloc (certLen + szVec)
  pure (.inl (s.1 + 1, s.2.1 + certLen, (s.2.2 * 31 + foldA cert.rest) % 4294967296))

/-- `CertificateMessage::decode` -/
def certificateDecode : Cur (List Nat) := do
  if (← remaining) < 3 then bail "Certificate_message_too_short" else
  let t1 ← peek 0
  let t2 ← peek 1
  let t3 ← peek 2
  let totalLen := (t1 * 256 + t2) * 256 + t3
  advance 3
  if (← remaining) < totalLen then bail "Certificate_message_shorter_than_declared_length" else
  let certsBuf ← splitTo totalLen
  let r ← onBuf certsBuf (loopM certEntriesBody (totalLen + 1) (0, 0, 7))
  pure [r.1.1, r.1.2.1, r.1.2.2]

/-- `ClientKeyExchange::decode` -/
def clientKeyExchangeDecode : Cur (List Nat) := do
  if (← remaining) = 0 then bail "ClientKeyExchange_too_short" else
  let pkLen ← getU8
  if (← remaining) < pkLen then bail "ClientKeyExchange_too_short_for_public_key" else
  let pk ← splitTo pkLen
  alloc pkLen
  pure [pkLen, foldA pk.rest]

/-- `Finished::decode` -/
def finishedDecode : Cur (List Nat) := do
  let len ← remaining
  let body ← restSlice
  alloc len
  advance len
  pure [len, foldA body]

/-! ### extension walks (dtls/mod.rs) — over `Bytes::from(hello.extensions.clone())` -/

/-- use_srtp profile list of the ClientHello walk; state = (idx, count, fold) -/
def srtpProfilesBody (d : Array UInt8) (len : Nat) (s : Nat × Nat × Nat) : Cur ((Nat × Nat × Nat) ⊕ (Nat × Nat)) := do
  if ¬ (s.1 < 2 + len ∧ s.1 + 1 < d.size) then pure (.inr (s.2.1, s.2.2)) else
  let p ← be16 d s.1
  alloc 2
  pure (.inl (s.1 + 2, s.2.1 + 1, (s.2.2 * 31 + p) % 4294967296))

/-- ClientHello extension walk; state = (ems, #profiles, fold profiles) -/
def clientExtBody (s : Nat × Nat × Nat) : Cur ((Nat × Nat × Nat) ⊕ (Nat × Nat × Nat)) := do
  if ¬ ((← remaining) ≥ 4) then pure (.inr s) else
  let extType ← getU16
  let extLen ← getU16
  if (← remaining) < extLen then pure (.inr s) else
  let ext ← splitTo extLen
  let d := ext.rest
  if extType = 14 then
    if d.size ≥ 2 then
      let len ← be16 d 0
      let r ← loopM (srtpProfilesBody d len) (d.size + 1) (2, s.2.1, s.2.2)
      pure (.inl (s.1, r.1, r.2))
    else pure (.inl s)
  else if extType = 23 then pure (.inl (1, s.2.1, s.2.2))
  else pure (.inl s)

def clientExtWalk : Cur (List Nat) := do
  alloc (← remaining)                                   -- `Bytes::from(extensions.clone())`
  let fuel := (← remaining) + 1
  let r ← loopM clientExtBody fuel (0, 0, 7)
  pure [r.1, r.2.1, r.2.2]

/-- ServerHello extension walk; state = (ems, srtp profile + 1 or 0) -/
def serverExtBody (s : Nat × Nat) : Cur ((Nat × Nat) ⊕ (Nat × Nat)) := do
  if ¬ ((← remaining) ≥ 4) then pure (.inr s) else
  let extType ← getU16
  let extLen ← getU16
  if (← remaining) < extLen then pure (.inr s) else
  let ext ← splitTo extLen
  let d := ext.rest
  if extType = 23 then pure (.inl (1, s.2))
  else if extType = 14 then
    if d.size ≥ 5 then
      let p ← be16 d 2
      pure (.inl (s.1, p + 1))
    else pure (.inl s)
  else pure (.inl s)

def serverExtWalk : Cur (List Nat) := do
  alloc (← remaining)
  let fuel := (← remaining) + 1
  let r ← loopM serverExtBody fuel (0, 0)
  pure [r.1, r.2]

/-! ### handshake message counter (`ctx.recv_message_seq`, dtls/mod.rs:740) -/

/-- accepting one in-order message (after the `fix:` commit: `checked_add`, error on exhaustion) -/
def seqAdvance (recvSeq : Nat) : Cur Nat :=
  if recvSeq + 1 > 65535 then bail "DTLS_handshake_message_sequence_exhausted" else pure (recvSeq + 1)

/-- pre-fix: `recv_message_seq += 1` on `u16` (`checked` = overflow checks of the build) -/
def seqAdvanceUnfixed (checked : Bool) (recvSeq : Nat) : Cur Nat :=
  if recvSeq + 1 > 65535 then (if checked then panicAt "add-overflow" else pure 0) else pure (recvSeq + 1)

/-- `k` accepted in-order messages in a row -/
def seqRun : Nat → Nat → Cur Nat
  | 0, s => pure s
  | k + 1, s => do
    let s' ← seqAdvance s
    seqRun k s'

/-! ### acceptance + fragment reassembly bookkeeping of `process_handshake_payload` (dtls/mod.rs ~648-810, current tree)

Compared with the real run loop on every run (stream `dtlsctx`: a hook publishes the context after each datagram) for
message types whose handler is a no-op for the endpoint's role, so that the bookkeeping itself is what is observed. -/

structure HsCtx where
  recvSeq : Nat := 0          -- u16
  msgSeq : Nat := 0           -- our own send counter (unchanged by no-op handlers)
  postHvr : Bool := false
  incLen : Nat := 0           -- `incomplete_handshake.len()`
  incSeq : Nat := 0
  transcript : Nat := 0       -- `handshake_messages.len()`
  failed : Bool := false      -- `?` left `process_handshake_payload` with an error

/-- a decoded handshake message header: type, total_length, message_seq, fragment_offset, fragment_length (= body length) -/
structure HsMsg where
  typ : Nat
  total : Nat
  seq : Nat
  fragOff : Nat
  fragLen : Nat

/-- acceptance of `message_seq` against `recv_message_seq` (with the post-HelloVerifyRequest re-sync on the client):
`(accepted, new recv_message_seq, synced)` -/
def acceptSeq (isClient : Bool) (recv : Nat) (postHvr : Bool) (typ seq : Nat) : Bool × Nat × Bool :=
  -- only the ServerHello (type 2) opens the server's post-cookie flight and may move the counter
  if seq < recv then (if postHvr ∧ isClient ∧ typ = 2 then (true, seq, true) else (false, recv, false))
  else if seq > recv then (if postHvr ∧ isClient ∧ typ = 2 then (true, seq, true) else (false, recv, false))
  else (true, recv, false)

/-- fragment handling + counters of an accepted message; the handler itself is a no-op here -/
def reassemble (c : HsCtx) (m : HsMsg) : Cur HsCtx := do
  if m.total ≠ m.fragLen then
    -- "new message or first fragment, reset buffer"
    let reset := c.incSeq ≠ m.seq ∨ m.fragOff = 0
    let inc0 := if reset then 0 else c.incLen
    let c : HsCtx := { c with incLen := inc0, incSeq := if reset then m.seq else c.incSeq }
    -- fragment ranges may overlap: a fragment starting inside or at the end of the buffer contributes the bytes beyond it;
    -- early fragments and pure duplicates are ignored
    if m.fragOff > c.incLen ∨ m.fragOff + m.fragLen ≤ c.incLen then pure c else
    alloc (m.fragOff + m.fragLen - c.incLen)              -- `incomplete_handshake.extend_from_slice(&msg.body[have - offset..])`
    let inc := m.fragOff + m.fragLen
    if inc < m.total then pure { c with incLen := inc } else
    alloc (12 + inc)                                      -- re-encoded `full_raw`
    let r ← attemptD (seqAdvance c.recvSeq) 0
    if ¬ r.1 then pure { c with incLen := 0, failed := true } else   -- `split()` already emptied the buffer
    let tr := if m.typ = 20 ∨ m.typ = 0 ∨ m.typ = 3 then c.transcript else c.transcript + (12 + inc)
    pure { c with incLen := 0, recvSeq := r.2, transcript := tr }
  else
    let r ← attemptD (seqAdvance c.recvSeq) 0
    if ¬ r.1 then pure { c with failed := true } else
    alloc (if m.typ = 20 ∨ m.typ = 0 ∨ m.typ = 3 then 0 else 12 + m.fragLen)
    let tr := if m.typ = 20 ∨ m.typ = 0 ∨ m.typ = 3 then c.transcript else c.transcript + (12 + m.fragLen)
    pure { c with recvSeq := r.2, transcript := tr }

/-- one decoded message through acceptance, the clear-text-after-keys skip and reassembly -/
def onMessage (isClient : Bool) (c : HsCtx) (m : HsMsg) : Cur HsCtx :=
  let a := acceptSeq isClient c.recvSeq c.postHvr m.typ m.seq
  if ¬ a.1 then pure c                                    -- duplicate / out of order: skipped
  else
    let c : HsCtx := { c with recvSeq := a.2.1, postHvr := if a.2.2 then false else c.postHvr }
    reassemble { c with postHvr := false } m

/-- the message loop over one record payload (decode with `handshakeDecode`, progress as in `handshakeWalk`) -/
def payloadBody (isClient : Bool) (c : HsCtx) : Cur (HsCtx ⊕ HsCtx) := do
  if (← remaining) = 0 then pure (.inr c) else
  let r ← attemptD handshakeDecode []
  if ¬ r.1 then pure (.inr c) else                         -- decode error: `return Ok(())`
  match r.2 with
  | [t, total, seq, fragOff, fragLen, _] =>
    let c ← onMessage isClient c ⟨t, total, seq, fragOff, fragLen⟩
    if c.failed then pure (.inr c) else pure (.inl c)
  | _ => pure (.inr c)                                    -- `Ok(None)`

def payloadWalk (isClient : Bool) (c : HsCtx) : Cur HsCtx := do
  let fuel := (← remaining) + 1
  loopM (payloadBody isClient) fuel { c with failed := false }

/-- a history of record payloads (one per datagram); an error ends only its payload -/
def payloadHistory (isClient : Bool) : HsCtx → List (List UInt8) → Cur (List HsCtx)
  | _, [] => pure []
  | c, p :: rest => do
    let r ← onBuf (Buf.ofList p) (payloadWalk isClient c)
    let more ← payloadHistory isClient r.1 rest
    pure (r.1 :: more)

/-! ### the record loop of `handle_incoming_packet` (dtls/mod.rs ~474-523) on an endpoint WITHOUT negotiated keys -/

/-- one record of a datagram; state = handshake context -/
def datagramBody (isClient : Bool) (c : HsCtx) : Cur (HsCtx ⊕ HsCtx) := do
  if (← remaining) = 0 then pure (.inr c) else
  let r ← attemptD recordDecodeP ([], ⟨#[], 0⟩)
  if ¬ r.1 then pure (.inr c) else                        -- `Err(e) => data = Bytes::new()`
  match r.2.1 with
  | [ct, _, _, epoch, _, _] =>
    -- epoch 0 never carries application data; an alert must be protected once keys exist
    if epoch = 0 ∧ ct = 23 then pure (.inl c) else
    if epoch ≠ 0 then pure (.inr c) else                  -- `try_decrypt_record` fails without keys: `break`
    if ct = 22 then
      let p ← onBuf r.2.2 (payloadWalk isClient c)
      if p.1.failed then pure (.inr p.1) else pure (.inl p.1)
    else if ct = 21 then
      -- `if payload.len() >= 2 { let description = payload[1]; … }`
      let _ ← onBuf r.2.2 (do if (← remaining) ≥ 2 then peek 1 else pure 1)
      pure (.inl c)
    else pure (.inl c)                                    -- ChangeCipherSpec (read_epoch saturating), Heartbeat
  | _ => pure (.inr c)                                    -- `Ok(None) => break`

def datagramWalk (isClient : Bool) (c : HsCtx) : Cur HsCtx := do
  let fuel := (← remaining) + 1
  loopM (datagramBody isClient) fuel { c with failed := false }

/-- a history of datagrams handed to the handshake run loop; an error ends only its datagram -/
def datagramHistory (isClient : Bool) : HsCtx → List (List UInt8) → Cur (List HsCtx)
  | _, [] => pure []
  | c, d :: rest => do
    let r ← onBuf (Buf.ofList d) (datagramWalk isClient c)
    let more ← datagramHistory isClient r.1 rest
    pure (r.1 :: more)

end RtcModel.C07.Dtls
