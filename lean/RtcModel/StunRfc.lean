/-
An *independent* RFC 5389 reader used as the specification side of C16: header check, strict attribute
walk (§15: type, length, value, padding to a multiple of 4), MESSAGE-INTEGRITY verification (§15.4) and
FINGERPRINT verification (§15.5).  Written from the RFC text with the RFC's literal constants — it shares
no function with the encoder/decoder model in `Stun.lean` (only the abstract primitives `Prims` and the
byte helpers).  Also run by the driver on the implementation's bytes.  Core Lean only.
-/
import RtcModel.Stun

namespace RtcModel.StunRfc
open RtcModel.Stun RtcModel.C16Bytes

/-- attribute area → `(offset in message, type, value)` list; `none` unless the area is exactly a
sequence of complete, padded TLVs -/
def walk (off : Nat) (area : Bytes) : Option (List (Nat × Nat × Bytes)) :=
  match area with
  | [] => some []
  | t0 :: t1 :: l0 :: l1 :: rest =>
    let len := rd16 l0 l1
    let padded := len + pad4 len
    if rest.length < padded then none
    else
      match walk (off + 4 + padded) (rest.drop padded) with
      | none => none
      | some r => some ((off, rd16 t0 t1, rest.take len) :: r)
  | _ => none
termination_by area.length
decreasing_by simp only [List.length_drop, List.length_cons]; omega

/-- §6: 20-byte header, two leading zero bits, length field = bytes after the header (a multiple of 4),
magic cookie 0x2112A442 -/
def headerOk (msg : Bytes) : Bool :=
  match msg with
  | b0 :: _ :: l0 :: l1 :: c0 :: c1 :: c2 :: c3 :: rest =>
    b0 < 64 && rest.length ≥ 12 && rd16 l0 l1 + 20 = msg.length && rd16 l0 l1 % 4 = 0 &&
    c0 = 0x21 && c1 = 0x12 && c2 = 0xA4 && c3 = 0x42
  | _ => false

/-- message with its length field replaced by `n` -/
def withLength (msg : Bytes) (n : Nat) : Bytes := msg.take 2 ++ be16 n ++ msg.drop 4

/-- §15.4: the HMAC input is the message up to the attribute preceding MESSAGE-INTEGRITY, with the
header length adjusted to point to the end of MESSAGE-INTEGRITY. -/
def integrityOk (P : Prims) (key : Bytes) (msg : Bytes) : Bool :=
  match walk 20 (msg.drop 20) with
  | none => false
  | some attrs =>
    match attrs.find? (fun a => a.2.1 = 0x0008) with
    | none => false
    | some (off, _, mac) => mac.length = 20 && mac = P.hmac key (withLength (msg.take off) (off - 20 + 24))

/-- §15.5: FINGERPRINT is the last attribute; value = CRC-32 of the message up to (excluding) it,
XOR 0x5354554e, with the header length covering the attribute. -/
def fingerprintOk (P : Prims) (msg : Bytes) : Bool :=
  match walk 20 (msg.drop 20) with
  | none => false
  | some attrs =>
    match attrs.getLast? with
    | none => false
    | some (off, t, v) =>
      t = 0x8028 && off + 8 = msg.length && v = be32 (P.crc (msg.take off) ^^^ 0x5354554e)

end RtcModel.StunRfc
