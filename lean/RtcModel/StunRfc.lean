/-
An *independent* RFC 5389 reader used as the specification side of C16: header check, strict attribute
walk (§15: type, length, value, padding to a multiple of 4), MESSAGE-INTEGRITY verification (§15.4) and
FINGERPRINT verification (§15.5).  Written from the RFC text with the RFC's literal constants — it shares
no function with the encoder/decoder model in `Stun.lean` (only the abstract primitives `Prims` and the
byte helpers).  Also run by the driver on the implementation's bytes.  Core Lean only.
-/
import RtcModel.Stun

namespace RtcModel.Stun
open RtcModel.C16Bytes

/-! ### attribute values as the RFCs prescribe them (specification side; literal IANA numbers) -/

/-- one attribute on the wire (RFC 5389 §15): 16-bit type, 16-bit length of the value (before padding),
value, padding to a multiple of 4 -/
def tlv (t : Nat) (v : Bytes) : Bytes := be16 t ++ be16 v.length ++ v ++ zeros (pad4 v.length)

/-- RFC 5389 §15.2 XOR-MAPPED-ADDRESS (also XOR-PEER-ADDRESS / XOR-RELAYED-ADDRESS, RFC 5766 §14.3/§14.5):
reserved byte, family (0x01 IPv4 / 0x02 IPv6), X-Port = port ⊕ (magic cookie >> 16), X-Address = address ⊕
(magic cookie ‖ transaction id) — ONE xor of the whole address with the concatenation. -/
def xorValue (a : Addr) (tx : Bytes) : Bytes :=
  match a with
  | .v4 ip port => [0, 0x01] ++ be16 (port ^^^ 0x2112) ++ xorBytes ip ([0x21, 0x12, 0xA4, 0x42] ++ tx)
  | .v6 ip port => [0, 0x02] ++ be16 (port ^^^ 0x2112) ++ xorBytes ip ([0x21, 0x12, 0xA4, 0x42] ++ tx)

/-- IANA STUN attribute registry -/
def attrType : Attr → Nat
  | .username _ => 0x0006            -- RFC 5389 §15.3
  | .realm _ => 0x0014               -- RFC 5389 §15.7
  | .nonce _ => 0x0015               -- RFC 5389 §15.8
  | .software _ => 0x8022            -- RFC 5389 §15.10
  | .requestedTransport _ => 0x0019  -- RFC 5766 §14.7
  | .lifetime _ => 0x000D            -- RFC 5766 §14.2
  | .priority _ => 0x0024            -- RFC 8445 §16.1
  | .iceControlling _ => 0x802A      -- RFC 8445 §16.1
  | .iceControlled _ => 0x8029       -- RFC 8445 §16.1
  | .useCandidate => 0x0025          -- RFC 8445 §16.1
  | .xorPeer _ => 0x0012             -- RFC 5766 §14.3
  | .xorMapped _ => 0x0020           -- RFC 5389 §15.2
  | .channelNumber _ => 0x000C       -- RFC 5766 §14.1
  | .data _ => 0x0013                -- RFC 5766 §14.4

/-- the value bytes of each attribute -/
def attrValue (tx : Bytes) : Attr → Bytes
  | .username v | .realm v | .nonce v | .software v | .data v => v   -- the bytes themselves
  | .requestedTransport v => [UInt8.ofNat v, 0, 0, 0]                 -- protocol number + 3 RFFU bytes (RFC 5766 §14.7)
  | .lifetime v | .priority v => be32 v                                -- 32-bit unsigned, network order
  | .iceControlling v | .iceControlled v => be64 v                     -- 64-bit tie-breaker (RFC 8445 §7.1.3)
  | .useCandidate => []                                                -- flag, no content
  | .xorPeer a | .xorMapped a => xorValue a tx
  | .channelNumber v => be16 v ++ [0, 0]                               -- 16-bit number + 2 RFFU bytes (RFC 5766 §14.1)

end RtcModel.Stun

namespace RtcModel.StunRfc
open RtcModel.Stun RtcModel.C16Bytes

/-- attribute area → `(offset in message, type, value)` list; `none` unless the area is exactly a
sequence of complete, padded TLVs -/
def walk (off : Nat) (area : Bytes) : Option (List (Nat × Nat × Bytes)) :=
  match area with
  | [] => some []
  | t0 :: t1 :: l0 :: l1 :: rest =>
    let len := rd16 l0 l1
    let padded := len + pad4 len
    if rest.length < padded then none
    else
      match walk (off + 4 + padded) (rest.drop padded) with
      | none => none
      | some r => some ((off, rd16 t0 t1, rest.take len) :: r)
  | _ => none
termination_by area.length
decreasing_by simp only [List.length_drop, List.length_cons]; omega

/-- §6: 20-byte header, two leading zero bits, length field = bytes after the header (a multiple of 4),
magic cookie 0x2112A442 -/
def headerOk (msg : Bytes) : Bool :=
  match msg with
  | b0 :: _ :: l0 :: l1 :: c0 :: c1 :: c2 :: c3 :: rest =>
    b0 < 64 && rest.length ≥ 12 && rd16 l0 l1 + 20 = msg.length && rd16 l0 l1 % 4 = 0 &&
    c0 = 0x21 && c1 = 0x12 && c2 = 0xA4 && c3 = 0x42
  | _ => false

/-- message with its length field replaced by `n` -/
def withLength (msg : Bytes) (n : Nat) : Bytes := msg.take 2 ++ be16 n ++ msg.drop 4

/-- §15.4: the HMAC input is the message up to the attribute preceding MESSAGE-INTEGRITY, with the
header length adjusted to point to the end of MESSAGE-INTEGRITY. -/
def integrityOk (P : Prims) (key : Bytes) (msg : Bytes) : Bool :=
  match walk 20 (msg.drop 20) with
  | none => false
  | some attrs =>
    match attrs.find? (fun a => a.2.1 = 0x0008) with
    | none => false
    | some (off, _, mac) => mac.length = 20 && mac = P.hmac key (withLength (msg.take off) (off - 20 + 24))

/-- §15.5: FINGERPRINT is the last attribute; value = CRC-32 of the message up to (excluding) it,
XOR 0x5354554e, with the header length covering the attribute. -/
def fingerprintOk (P : Prims) (msg : Bytes) : Bool :=
  match walk 20 (msg.drop 20) with
  | none => false
  | some attrs =>
    match attrs.getLast? with
    | none => false
    | some (off, t, v) =>
      t = 0x8028 && off + 8 = msg.length && v = be32 (P.crc (msg.take off) ^^^ 0x5354554e)

end RtcModel.StunRfc
