/-
C19 (second half) — model of the RTP rewrite bridge of `RtpTransport` (`src/transports/rtp.rs`):
`RewriteBridge::{rule_for, target_for, rewrite_packet}` with the per-source `StreamRewriteState`
(output SSRC fixed at first sight, consecutive output sequence numbers, timestamp re-basing across
source discontinuities, initial output timestamp pinning, payload-type rewrite, extension stripping,
SDES-MID stamping through `RtpHeader::set_extension`).  Core Lean only.

Machine integers are `UInt8/16/32` so `wrapping_add/sub` are the native operations.  The two
`random_u32()` draws made when a new source stream is first seen are parameters of the step
("external call becomes a parameter").
-/
import RtcModel.Generated.Consts
import RtcModel.Demux

namespace RtcModel.Bridge
open RtcModel.Demux (Bytes Ext)
open RtcModel.Generated

structure Rule where
  matchPt      : Option UInt8
  fixedOutSsrc : Option UInt32
  ssrcOffset   : UInt32
  outPt        : Option UInt8
  midExtId     : Option UInt8
  mid          : Option Bytes
deriving DecidableEq, Repr

structure Opts where
  strip     : Bool
  initSeq   : Option UInt16
  initTsOff : Option UInt32
  initOutTs : Option UInt32
deriving DecidableEq, Repr

/-- `StreamRewriteState` -/
structure Stream where
  outSsrc   : UInt32
  nextSeq   : UInt16
  lastSrcTs : Option UInt32
  tsOff     : UInt32
deriving DecidableEq, Repr

structure Pkt where
  ssrc   : UInt32
  pt     : UInt8
  seq    : UInt16
  ts     : UInt32
  marker : Bool
  ext    : Option Ext
deriving DecidableEq, Repr

structure Cfg where
  rules    : List Rule
  opts     : Opts
  videoPts : List UInt8
  hasVideo : Bool
deriving DecidableEq, Repr

/-- `streams: HashMap<u32, StreamRewriteState>` -/
abbrev Streams := List (UInt32 × Stream)

def sget (k : UInt32) : Streams → Option Stream
  | [] => none
  | (k', v) :: r => if k' = k then some v else sget k r

def sset (k : UInt32) (v : Stream) : Streams → Streams
  | [] => [(k, v)]
  | (k', v') :: r => if k' = k then (k, v) :: r else (k', v') :: sset k v r

/-- `rule_for`: exact payload-type match first, else the first catch-all -/
def ruleFor (rules : List Rule) (pt : UInt8) : Option Rule :=
  match rules.find? (fun r => r.matchPt = some pt) with
  | some r => some r
  | none => rules.find? (fun r => r.matchPt = none)

/-- `target_for`: `true` = the video target -/
def targetFor (c : Cfg) (pt : UInt8) : Bool := c.videoPts.contains pt && c.hasVideo

/-- the discontinuity threshold and the re-basing step, regenerated from the source every run -/
def discontinuity : UInt32 := UInt32.ofNat bridgeTsJumpThreshold
def rebaseStep : UInt32 := UInt32.ofNat bridgeTsRebaseStep
def halfRange : UInt32 := UInt32.ofNat bridgeTsForwardLimit

/-- `if delta > 900_000 { state.timestamp_offset = last + offset + 3000 - src }` -/
def rebase (st : Stream) (last srcTs : UInt32) : Stream :=
  if srcTs - last > discontinuity then { st with tsOff := last + st.tsOff + rebaseStep - srcTs } else st

/-- the timestamp block of `rewrite_packet`: returns the updated state (offset, last source ts) and
whether the marker is forced -/
def tsUpdate (o : Opts) (st : Stream) (srcTs : UInt32) : Stream × Bool :=
  match st.lastSrcTs with
  | some last =>
    if srcTs - last < halfRange then ({ rebase st last srcTs with lastSrcTs := some srcTs }, false)
    else (st, false)
  | none =>
    match o.initOutTs with
    | some want => ({ st with tsOff := want - srcTs, lastSrcTs := some srcTs }, true)
    | none => ({ st with lastSrcTs := some srcTs }, false)

/-! ### `RtpHeader::set_extension(id, data)` on a one-byte-header block -/

/-- the copy loop: re-emit every element, replacing the one with id `id`.  `none` = the `Err` the code
returns when an element that is NOT the target runs past the end of the block (the target element
is skipped by its declared length without being read). -/
def setExtLoop (id : Nat) (hdr : UInt8) (data : Bytes) : Nat → Bytes → Bool → Option (Bytes × Bool)
  | 0, _, found => some ([], found)
  | _, [], found => some ([], found)
  | fuel + 1, b :: rest, found =>
    if b = 0 then setExtLoop id hdr data fuel rest found
    else
      let eid := b.toNat / 16
      let len := b.toNat % 16 + 1
      if eid = 15 then some ([], found)
      else if eid = id then
        (setExtLoop id hdr data fuel (rest.drop len) true).map (fun r => (hdr :: data ++ r.1, r.2))
      else if len > rest.length then none
      else (setExtLoop id hdr data fuel (rest.drop len) found).map (fun r => (b :: rest.take len ++ r.1, r.2))

def padTo4 (b : Bytes) : Bytes := b ++ List.replicate ((4 - b.length % 4) % 4) 0

/-- `set_extension`; `none` = `Err` (header unchanged): invalid id, invalid data length, a block of
another profile, or a malformed existing one-byte block (element overrunning the block — rejected
since the `fix:` commit e949e69, it used to panic). -/
def setExtension (ext : Option Ext) (id : UInt8) (data : Bytes) : Option Ext :=
  if id = 0 ∨ id.toNat ≥ 15 then none
  else if data.length > 16 ∨ data.isEmpty then none
  else
    let e := ext.getD { profile := 0xBEDE, data := [] }
    if e.profile ≠ 0xBEDE then none
    else
      let hdr : UInt8 := UInt8.ofNat (id.toNat * 16 + (data.length - 1))
      match setExtLoop id.toNat hdr data (e.data.length + 1) e.data false with
      | none => none
      | some (body, found) =>
        some { profile := 0xBEDE, data := padTo4 (if found then body else body ++ (hdr :: data)) }

/-- the MID-stamping tail of `rewrite_packet` -/
def stampMid (o : Opts) (rule : Option Rule) (ext : Option Ext) : Option Ext :=
  if o.strip then ext
  else match rule with
    | some r =>
      match r.midExtId, r.mid with
      | some id, some mid =>
        match setExtension ext id mid with
        | some e => some e
        | none => ext
      | _, _ => ext
    | none => ext

/-- the output SSRC a NEW stream gets: the matched rule's fixed SSRC or source + offset; no rule → unchanged -/
def newOutSsrc (c : Cfg) (p : Pkt) : UInt32 :=
  match ruleFor c.rules p.pt with
  | some r => r.fixedOutSsrc.getD (p.ssrc + r.ssrcOffset)
  | none => p.ssrc

/-- `streams.entry(src_ssrc).or_insert_with(..)`: the existing per-source state, or the one created at
first sight (`rndSeq`, `rndOff` are the two `random_u32()` draws, used only when the option is `None`) -/
def cur (c : Cfg) (ss : Streams) (p : Pkt) (rndSeq : UInt16) (rndOff : UInt32) : Stream :=
  (sget p.ssrc ss).getD
    { outSsrc := newOutSsrc c p, nextSeq := c.opts.initSeq.getD rndSeq, lastSrcTs := none,
      tsOff := c.opts.initTsOff.getD rndOff }

/-- payload-type rewrite of the matched rule -/
def outPt (c : Cfg) (p : Pkt) : UInt8 :=
  match ruleFor c.rules p.pt with
  | some r => r.outPt.getD p.pt
  | none => p.pt

/-- `rewrite_packet` -/
def rewrite (c : Cfg) (ss : Streams) (p : Pkt) (rndSeq : UInt16) (rndOff : UInt32) : Streams × Pkt :=
  let st := cur c ss p rndSeq rndOff
  let u := tsUpdate c.opts st p.ts
  (sset p.ssrc { u.1 with nextSeq := u.1.nextSeq + 1 } ss,
   { ssrc := st.outSsrc, pt := outPt c p, seq := u.1.nextSeq, ts := p.ts + u.1.tsOff,
     marker := p.marker || u.2,
     ext := stampMid c.opts (ruleFor c.rules p.pt) (if c.opts.strip then none else p.ext) })

/-- a packet entering the bridge: which target it goes to and what it looks like -/
structure Out where
  video : Bool
  pkt   : Pkt
deriving DecidableEq, Repr

/-- one inbound packet through `try_bridge_rewrite_rtp` (target chosen from the ORIGINAL payload type) -/
def forward (c : Cfg) (ss : Streams) (p : Pkt) (rndSeq : UInt16) (rndOff : UInt32) : Streams × Out :=
  let r := rewrite c ss p rndSeq rndOff
  (r.1, { video := targetFor c p.pt, pkt := r.2 })

/-- a whole arrival sequence; each packet comes with its two random draws -/
def forwardAll (c : Cfg) : Streams → List (Pkt × UInt16 × UInt32) → List Out
  | _, [] => []
  | ss, (p, a, b) :: rest => (forward c ss p a b).2 :: forwardAll c (forward c ss p a b).1 rest

def runAll (c : Cfg) : Streams → List (Pkt × UInt16 × UInt32) → Streams
  | ss, [] => ss
  | ss, (p, a, b) :: rest => runAll c (forward c ss p a b).1 rest

/-- `p` arrives in order for the stream state `st`: first packet of the stream, or not older than the
last in-order one (`delta < 0x8000_0000`) -/
def InOrder (st : Stream) (p : Pkt) : Prop :=
  match st.lastSrcTs with
  | none => True
  | some last => p.ts - last < halfRange

/-! ### the legacy single-parameter API (`RtpRewriteBridgeParams`, `RtpRewriteRule::{catch_all, dtmf,
from_params}`, `bridge_rewrite_to`) -/

structure Params where
  ssrcOffset   : UInt32
  fixedOutSsrc : Option UInt32
  payloadType  : Option UInt8
  dtmf         : Option (UInt8 × UInt8)
  initSeq      : Option UInt16
  initTsOff    : Option UInt32
  strip        : Bool
deriving DecidableEq, Repr

/-- `RtpRewriteRule::catch_all` -/
def Rule.catchAll (p : Params) : Rule :=
  { matchPt := none, fixedOutSsrc := p.fixedOutSsrc, ssrcOffset := p.ssrcOffset, outPt := p.payloadType,
    midExtId := none, mid := none }

/-- `RtpRewriteRule::dtmf` -/
def Rule.dtmf (src dst : UInt8) (p : Params) : Rule :=
  { matchPt := some src, fixedOutSsrc := p.fixedOutSsrc, ssrcOffset := p.ssrcOffset, outPt := some dst,
    midExtId := none, mid := none }

/-- `RtpRewriteRule::from_params` -/
def fromParams (p : Params) : List Rule :=
  Rule.catchAll p :: (match p.dtmf with | some (s, d) => [Rule.dtmf s d p] | none => [])

/-- `bridge_rewrite_to(dst, params)`: one destination, no video target, no pinned first timestamp -/
def cfgOfParams (p : Params) : Cfg :=
  { rules := fromParams p,
    opts := { strip := p.strip, initSeq := p.initSeq, initTsOff := p.initTsOff, initOutTs := none },
    videoPts := [], hasVideo := false }

/-- installing a bridge again (`bridge_rewrite_*` stores a NEW `RewriteBridge`) or clearing it discards the stream
table: output SSRC, sequence numbers and timestamp offsets of every source start over.  "Stable for life" in the
theorems means the life of one installed bridge. -/
def reinstalled : Streams := []

/-- an arriving packet with its two random draws -/
abbrev In := Pkt × UInt16 × UInt32

/-- the (input, output) pairs of the packets of source `s` within an arbitrary interleaved arrival
sequence, in arrival order -/
def outsOf (c : Cfg) (s : UInt32) : Streams → List In → List (Pkt × Out)
  | _, [] => []
  | ss, (p, a, b) :: rest =>
    (if p.ssrc = s then [(p, (forward c ss p a b).2)] else []) ++ outsOf c s (forward c ss p a b).1 rest

/-- what actually reaches the target's socket.  `try_bridge_rewrite_rtp` rewrites FIRST (the sequence
number is consumed, the stream state advances) and only then may refuse the push — target mandatory
without keys, `protect_rtp` error, socket buffer full.  `sent = false` marks such a packet. -/
def wireOf (c : Cfg) (s : UInt32) : Streams → List (In × Bool) → List (Pkt × Out)
  | _, [] => []
  | ss, ((p, a, b), sent) :: rest =>
    (if p.ssrc = s ∧ sent = true then [(p, (forward c ss p a b).2)] else []) ++
      wireOf c s (forward c ss p a b).1 rest

/-- `xs` counts up by one from `x` (wrapping `u16` arithmetic) -/
def consecFrom (x : UInt16) : List UInt16 → Prop
  | [] => True
  | y :: ys => y = x ∧ consecFrom (x + 1) ys

/-- the first output sequence number of source `s`: the stored counter of a known stream, else the
configured initial sequence number (or the random draw made for the first packet of `s`) -/
def startSeq (c : Cfg) (s : UInt32) (ss : Streams) (pkts : List In) : UInt16 :=
  match sget s ss with
  | some st => st.nextSeq
  | none =>
    match pkts.find? (fun q => q.1.ssrc = s) with
    | some q => c.opts.initSeq.getD q.2.1
    | none => 0

end RtcModel.Bridge
