/-
Model of the SCTP receive path of `src/transports/sctp.rs`:
`InboundStream` (l.153-209), `handle_data` (dup test, fast path, slow path with the in-order drain),
`process_data_payload` (reassembly on B/E bits, ordered / unordered dispatch),
`build_gap_ack_blocks_from_map`, `advertised_rwnd`, `create_sack_chunk`, the delayed-SACK flags and
`handle_forward_tsn`.  Core Lean only (linked into `rtcdrv`).

Representation choices (behaviour-preserving):
* `received_queue : BTreeMap<u32,(u8,Bytes)>` is an association list whose keys are unique
  (the code inserts only when `!contains_key`); removal is `filter`; the numeric key order of the
  BTreeMap matters only for `build_gap_ack_blocks_from_map`, which sorts the keys by `toNat` first.
* DATA chunk values are parsed when they arrive (`parseData`) instead of when they are processed;
  parsing is a pure function of the bytes, so the result is the same.
* `InboundStream.pending : BTreeMap<u16,Bytes>` is an association list with unique keys; its key
  order is never observable (only `remove(&next_ssn)`, `insert`, `len`, filter by predicate).
-/
import RtcModel.Generated.Consts
import RtcModel.Base.C01Serial

namespace RtcModel.Sctp
open RtcModel.Generated

/-! ### DATA chunk -/

structure DChunk where
  tsn   : UInt32
  flags : UInt8
  sid   : UInt16
  ssn   : UInt16
  ppid  : UInt32
  data  : Bytes
deriving DecidableEq, Repr, Inhabited

def DChunk.bBit (c : DChunk) : Bool := c.flags &&& 0x02 != 0
def DChunk.eBit (c : DChunk) : Bool := c.flags &&& 0x01 != 0
def DChunk.uBit (c : DChunk) : Bool := c.flags &&& 0x04 != 0
/-- `chunk.len()` of the stored chunk value: 12 fixed bytes + user data -/
def DChunk.valueLen (c : DChunk) : Nat := sctpDataHdr + c.data.length

/-! ### InboundStream -/

structure InStream where
  nextSsn : UInt16
  pending : List (UInt16 × Bytes)
deriving DecidableEq, Repr, Inhabited

namespace InStream

def new : InStream := ⟨0, []⟩

def remove (p : List (UInt16 × Bytes)) (k : UInt16) : List (UInt16 × Bytes) :=
  p.filter (fun e => e.1 != k)

def get? (p : List (UInt16 × Bytes)) (k : UInt16) : Option Bytes :=
  (p.find? (fun e => e.1 == k)).map (·.2)

/-- `BTreeMap::insert` (replaces an existing entry) -/
def insert (p : List (UInt16 × Bytes)) (k : UInt16) (v : Bytes) : List (UInt16 × Bytes) :=
  (k, v) :: remove p k

/-- `drain_ready`: `while let Some(msg) = pending.remove(&next_ssn)`. Every successful iteration
removes an entry, so `pending.length` iterations of fuel are enough. -/
def drainGo : Nat → InStream → List Bytes → InStream × List Bytes
  | 0, s, acc => (s, acc)
  | f + 1, s, acc =>
    match get? s.pending s.nextSsn with
    | some m => drainGo f ⟨s.nextSsn + 1, remove s.pending s.nextSsn⟩ (acc ++ [m])
    | none => (s, acc)

def drainReady (s : InStream) : InStream × List Bytes := drainGo s.pending.length s []

/-- `enqueue`. NOTE (as in the code): when the buffer is at its cap and `drain_ready` yields
something, the ready messages are returned and `msg` itself is *not* inserted. -/
def enqueue (s : InStream) (ssn : UInt16) (msg : Bytes) : InStream × List Bytes :=
  if s.pending.length ≥ sctpMaxStreamPending then
    let r := drainReady s
    if !r.2.isEmpty then r
    else drainReady { r.1 with pending := insert r.1.pending ssn msg }
  else drainReady { s with pending := insert s.pending ssn msg }

/-- `advance_ssn_to` -/
def advanceSsnTo (s : InStream) (ssn : UInt16) : InStream :=
  if ssnGt (ssn + 1) s.nextSsn then
    { nextSsn := ssn + 1, pending := s.pending.filter (fun e => ssnGt e.1 ssn) }
  else s

end InStream

/-! ### Data channels as seen by the receive path -/

inductive ChanEv where
  | open_
  | msg (data : Bytes)
  | close
deriving DecidableEq, Repr, Inhabited

structure Chan where
  id         : UInt16
  ordered    : Bool
  negotiated : Bool := true
  /-- `DataChannelState as usize`: 0 Connecting, 1 Open, 2 Closing, 3 Closed -/
  state      : Nat := 0
  label      : Bytes := []
  protocol   : Bytes := []
  maxRetransmits : Option UInt16 := none
  maxLifetime    : Option UInt16 := none
  reasm      : Bytes := []
  /-- everything `send_event` was called with, oldest first -/
  events     : List ChanEv := []
deriving DecidableEq, Repr, Inhabited

def Chan.emit (c : Chan) (e : ChanEv) : Chan := { c with events := c.events ++ [e] }
def Chan.emitAll (c : Chan) (ms : List Bytes) : Chan :=
  { c with events := c.events ++ ms.map ChanEv.msg }

/-- first channel with this id (`channels.iter().find_map(.. d.id == stream_id)`) -/
def findChan (cs : List Chan) (id : UInt16) : Option Chan := cs.find? (fun c => c.id == id)

/-- replace the first channel with this id -/
def setChan : List Chan → Chan → List Chan
  | [], _ => []
  | c :: rest, n => if c.id == n.id then n :: rest else c :: setChan rest n

/-! ### Receiver state -/

/-- what `process_data_payload` asks the rest of the endpoint to do -/
inductive Act where
  /-- `send_dcep_ack(stream_id)` -/
  | dcepAck (sid : UInt16)
  /-- `send_dcep_open(dc)` for the channel with this id -/
  | dcepOpen (sid : UInt16)
  /-- `new_data_channel_tx.send(dc)` for a channel created from a DCEP OPEN -/
  | newChannel (sid : UInt16)
deriving DecidableEq, Repr, Inhabited

/-- the part of the endpoint `process_data_payload` reads and writes -/
structure Pl where
  chans   : List Chan := []
  streams : List (UInt16 × InStream) := []
  acts    : List Act := []
  /-- `dcep_reassembly`: DCEP messages being collected, per stream (absent = empty) -/
  dcepBuf : List (UInt16 × Bytes) := []
deriving DecidableEq, Repr, Inhabited

structure Rx where
  cum        : UInt32
  rq         : List (UInt32 × DChunk) := []
  pl         : Pl := {}
  dups       : List UInt32 := []
  sackNeeded : Bool := false
  /-- `sack_delayed_until.is_some()` -/
  sackDelayed : Bool := false
  usedRwnd   : Nat := 0
  localRwnd  : Nat := 0
deriving DecidableEq, Repr, Inhabited

def getStream (ss : List (UInt16 × InStream)) (sid : UInt16) : InStream :=
  match ss.find? (fun e => e.1 == sid) with
  | some e => e.2
  | none => InStream.new

def setStream (ss : List (UInt16 × InStream)) (sid : UInt16) (s : InStream) : List (UInt16 × InStream) :=
  (sid, s) :: ss.filter (fun e => e.1 != sid)

def removeStream (ss : List (UInt16 × InStream)) (sid : UInt16) : List (UInt16 × InStream) :=
  ss.filter (fun e => e.1 != sid)

def rqHas (rq : List (UInt32 × DChunk)) (t : UInt32) : Bool := rq.any (fun e => e.1 == t)
def rqGet? (rq : List (UInt32 × DChunk)) (t : UInt32) : Option DChunk :=
  (rq.find? (fun e => e.1 == t)).map (·.2)
def rqRemove (rq : List (UInt32 × DChunk)) (t : UInt32) : List (UInt32 × DChunk) :=
  rq.filter (fun e => e.1 != t)

/-! ### process_data_payload (non-DCEP part) -/

/-- `open_channel_once`: Connecting → Open with an `Open` event, exactly once -/
def openOnce (dc : Chan) : Chan :=
  if dc.state == 0 then ({ dc with state := 1 }.emit .open_) else dc

/-- the reassembly / dispatch block for a chunk whose (already announced) channel is `dc`.
A fragment without the B bit that finds the buffer empty has lost its beginning to a FORWARD-TSN
and is dropped. -/
def deliverTo' (s : Pl) (dc : Chan) (c : DChunk) : Pl :=
  if !c.bBit && dc.reasm.isEmpty then s
  else
    let buf0 := if c.bBit then [] else dc.reasm
    let buf := buf0 ++ c.data
    if c.eBit then
      let dc1 := { dc with reasm := [] }
      if c.uBit || !dc.ordered then
        { s with chans := setChan s.chans (dc1.emit (.msg buf)) }
      else
        let r := (getStream s.streams c.sid).enqueue c.ssn buf
        { s with chans := setChan s.chans (dc1.emitAll r.2),
                 streams := setStream s.streams c.sid r.1 }
    else
      { s with chans := setChan s.chans { dc with reasm := buf } }

/-- the block of `process_data_payload` for a chunk whose channel `dc` was found: data on a
pre-negotiated channel announces `Open` first if that has not happened yet -/
def deliverTo (s : Pl) (dc : Chan) (c : DChunk) : Pl :=
  deliverTo' s (if dc.negotiated then openOnce dc else dc) c

/-- `process_data_payload` for a chunk that is not DCEP -/
def procData (s : Pl) (c : DChunk) : Pl :=
  match findChan s.chans c.sid with
  | some dc => deliverTo s dc c
  | none => s

/-! ### SACK scheduling flags -/

def scheduleSackDelayed (s : Rx) : Rx :=
  if s.sackDelayed then { s with sackDelayed := false, sackNeeded := true }
  else { s with sackDelayed := true }

def scheduleSackImmediate (s : Rx) : Rx := { s with sackDelayed := false, sackNeeded := true }

/-- `flush_expired_sack_delay` when the deadline has passed (`SACK_DELAY` = 0 ms: always, on the
next run-loop iteration) -/
def flushSackDelay (s : Rx) : Rx :=
  if s.sackDelayed then { s with sackDelayed := false, sackNeeded := true } else s

/-! ### handle_data

The payload processor is a parameter: `proc pl c = (pl', ok)` where `ok = false` models
`process_data_payload(..).await?` returning `Err` (then `handle_data` returns at once: the
cumulative TSN is not advanced and no SACK is scheduled). -/

abbrev Proc := Pl → DChunk → Pl × Bool

/-- the slow path's `loop { received_queue.remove(&next) }`; every success removes an entry -/
def drainRq : Nat → UInt32 → List (UInt32 × DChunk) → List DChunk → List (UInt32 × DChunk) × List DChunk
  | 0, _, rq, acc => (rq, acc)
  | f + 1, next, rq, acc =>
    match rqGet? rq next with
    | some c => drainRq f (next + 1) (rqRemove rq next) (acc ++ [c])
    | none => (rq, acc)

/-- `for (p_flags, p_chunk) in to_process { process_data_payload(..)?; cum += 1; used_rwnd -= len }` -/
def procList (proc : Proc) : Rx → List DChunk → Rx × Bool
  | s, [] => (s, true)
  | s, c :: rest =>
    let r := proc s.pl c
    if r.2 then
      procList proc { s with pl := r.1, cum := s.cum + 1, usedRwnd := s.usedRwnd - c.valueLen } rest
    else ({ s with pl := r.1 }, false)

def handleDataWith (proc : Proc) (s : Rx) (c : DChunk) : Rx :=
  let diff := c.tsn - s.cum
  if diff == 0 || diff > 0x80000000 then
    scheduleSackImmediate
      { s with dups := if s.dups.length < sctpMaxDups then s.dups ++ [c.tsn] else s.dups }
  else if diff == 1 && s.rq.isEmpty then
    let r := proc s.pl c
    if r.2 then scheduleSackDelayed { s with pl := r.1, cum := c.tsn }
    else { s with pl := r.1 }
  else
    let has := rqHas s.rq c.tsn
    let rq1 := if has then s.rq else s.rq ++ [(c.tsn, c)]
    let used1 := if has then s.usedRwnd else s.usedRwnd + c.valueLen
    let d := drainRq rq1.length (s.cum + 1) rq1 []
    let r := procList proc { s with rq := d.1, usedRwnd := used1 } d.2
    if r.2 then scheduleSackImmediate r.1 else r.1

/-! ### SACK content -/

/-- insertion into a list sorted by `toNat` (BTreeMap key order) -/
def insSorted (t : UInt32) : List UInt32 → List UInt32
  | [] => [t]
  | x :: xs => if t.toNat ≤ x.toNat then t :: x :: xs else x :: insSorted t xs

def sortKeys (ks : List UInt32) : List UInt32 := ks.foldr insSorted []

def pushBlock (cum : UInt32) (blocks : List (UInt16 × UInt16)) (cur : UInt32 × UInt32) :
    List (UInt16 × UInt16) :=
  let so := cur.1 - cum
  let eo := cur.2 - cum
  if so ≤ 0xFFFF && eo ≤ 0xFFFF then blocks ++ [(so.toUInt16, eo.toUInt16)] else blocks

/-- the `for &tsn in received.keys()` loop of `build_gap_ack_blocks_from_map` -/
def gapLoop (cum : UInt32) : List UInt32 → Option (UInt32 × UInt32) → List (UInt16 × UInt16) →
    List (UInt16 × UInt16) × Option (UInt32 × UInt32)
  | [], cur, blocks => (blocks, cur)
  | t :: rest, cur, blocks =>
    if i32NonPos (t - cum) then gapLoop cum rest cur blocks
    else
      let r : List (UInt16 × UInt16) × Option (UInt32 × UInt32) :=
        match cur with
        | some (st, en) =>
          if t == en + 1 then (blocks, some (st, t))
          else (pushBlock cum blocks (st, en), some (t, t))
        | none => (blocks, some (t, t))
      if r.1.length ≥ sctpGapBlocksMax then r else gapLoop cum rest r.2 r.1

/-- `build_gap_ack_blocks_from_map` on the keys in BTreeMap order -/
def gapBlocksSorted (keys : List UInt32) (cum : UInt32) : List (UInt16 × UInt16) :=
  let r := gapLoop cum keys none []
  if r.1.length < sctpGapBlocksMax then
    match r.2 with
    | some cur => pushBlock cum r.1 cur
    | none => r.1
  else r.1

def gapBlocks (held : List UInt32) (cum : UInt32) : List (UInt16 × UInt16) :=
  gapBlocksSorted (sortKeys held) cum

/-- `advertised_rwnd` -/
def advertisedRwnd (s : Rx) : Nat :=
  if s.rq.length ≥ max (sctpMaxRecvQueue * 7 / 8) 1 then 0
  else
    let b := s.localRwnd - s.usedRwnd
    if b < 4294967296 then b else 0

structure Sack where
  cum   : UInt32
  arwnd : Nat
  gaps  : List (UInt16 × UInt16)
  dups  : List UInt32
deriving DecidableEq, Repr, Inhabited

/-- `create_sack_chunk` (content) — drains up to 32 duplicate TSNs -/
def createSack (s : Rx) : Sack × Rx :=
  let take := min s.dups.length sctpSackDupsMax
  ({ cum := s.cum, arwnd := advertisedRwnd s, gaps := gapBlocks (s.rq.map (·.1)) s.cum,
     dups := s.dups.take take },
   { s with dups := s.dups.drop take })

/-- the SACK part of `transmit()`: `if sack_needed.swap(false) { create_sack_chunk }` -/
def transmitSack (s : Rx) : Option Sack × Rx :=
  if s.sackNeeded then
    let r := createSack { s with sackNeeded := false }
    (some r.1, r.2)
  else (none, s)

/-! ### handle_forward_tsn -/

/-- per `(sid, ssn)` pair: `advance_ssn_to`, `drain_ready`, deliver to the channel with that id -/
def fwdStream (s : Pl) (p : UInt16 × UInt16) : Pl :=
  -- `streams.entry(sid).or_insert_with(InboundStream::new)` (fix ec94f14: a stream that has delivered
  -- nothing yet used to be skipped and then waited for SSN 0 forever)
  let r := ((getStream s.streams p.1).advanceSsnTo p.2).drainReady
  let s1 := { s with streams := setStream s.streams p.1 r.1 }
  if r.2.isEmpty then s1
  else
    match findChan s1.chans p.1 with
    | some dc => { s1 with chans := setChan s1.chans (dc.emitAll r.2) }
    | none => s1

/-- the part of `handle_forward_tsn` that moves the cumulative point: serial comparison, the
receive queue keeps what is serially beyond it, every reassembly buffer is forgotten, the listed
ordered streams skip ahead -/
def forwardTo (s : Rx) (newCum : UInt32) (pairs : List (UInt16 × UInt16)) : Rx :=
  let pl1 := { s.pl with chans := s.pl.chans.map (fun c => { c with reasm := [] }) }
  -- the skipped chunks give their bytes back to the advertised window (fix b6750a0)
  let skipped := ((s.rq.filter (fun e => !tsnGt e.1 newCum)).map (fun e => e.2.valueLen)).sum
  { s with cum := newCum, rq := s.rq.filter (fun e => tsnGt e.1 newCum), usedRwnd := s.usedRwnd - skipped,
           pl := pairs.foldl fwdStream pl1 }

/-- the drain at the end of `handle_forward_tsn`: chunks queued right behind the new cumulative
point are processed one by one (`false` = `process_data_payload` returned `Err`) -/
def fwdDrain (proc : Proc) : Nat → Rx → Rx × Bool
  | 0, s => (s, true)
  | f + 1, s =>
    match rqGet? s.rq (s.cum + 1) with
    | none => (s, true)
    | some c =>
      let r := proc s.pl c
      let s1 := { s with rq := rqRemove s.rq (s.cum + 1), pl := r.1 }
      if r.2 then fwdDrain proc f { s1 with cum := s.cum + 1, usedRwnd := s.usedRwnd - c.valueLen }
      else (s1, false)

/-- `handle_forward_tsn` -/
def handleForwardTsnWith (proc : Proc) (s : Rx) (newCum : UInt32) (pairs : List (UInt16 × UInt16)) : Rx × Bool :=
  if tsnGt newCum s.cum then
    let s1 := forwardTo s newCum pairs
    let r := fwdDrain proc s1.rq.length s1
    if r.2 then (scheduleSackImmediate r.1, true) else r
  else (s, true)

end RtcModel.Sctp
