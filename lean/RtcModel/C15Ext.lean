/-
C15 — RFC 8285 header-extension access, mirroring `RtpHeader::{get_extension,set_extension}`
(`src/rtp.rs`).  `set_extension` keeps a three-outcome result type; since the fix "set_extension
rejects a malformed one-byte extension block instead of panicking" an element whose declared length
overruns the block is an `InvalidHeader` error with the header left unchanged (it used to slice out of
range), so the `panic` outcome is unreachable — `set_extension_total` in `Theorems/C15.lean`.
-/
import RtcModel.C15Rtp

namespace RtcModel.C15
open RtcModel.Generated

/-- one-byte-header walk of `get_extension` (profile 0xBEDE), from the current offset on -/
def getOne (id : Nat) : Bytes → Option Bytes
  | [] => none
  | b :: rest =>
    if b = 0 then getOne id rest
    else
      let extId := b.toNat / 16
      let len := b.toNat % 16 + 1
      if extId = c15StopIdGet then none
      else if extId = id then (if len ≤ rest.length then some (rest.take len) else none)
      else getOne id (rest.drop len)
termination_by bs => bs.length
decreasing_by all_goals (simp only [List.length_cons, List.length_drop]; omega)

/-- two-byte-header walk (profile 0x1000) -/
def getTwo (id : Nat) : Bytes → Option Bytes
  | [] => none
  | e :: rest =>
    if e = 0 then getTwo id rest
    else match rest with
      | [] => none
      | l :: rest2 =>
        if e.toNat = id then (if l.toNat ≤ rest2.length then some (rest2.take l.toNat) else none)
        else getTwo id (rest2.drop l.toNat)
termination_by bs => bs.length
decreasing_by all_goals (simp only [List.length_cons, List.length_drop]; omega)

/-- `RtpHeader::get_extension` -/
def getExtension (h : Header) (id : UInt8) : Option Bytes :=
  match h.ext with
  | none => none
  | some e =>
    if e.profile.toNat = c15OneByteProfile then getOne id.toNat e.data
    else if e.profile.toNat &&& c15TwoByteMask = c15TwoByteProfile then getTwo id.toNat e.data
    else none

/-- the rebuild loop of `set_extension`: `none` = a non-target element overruns the block
(`InvalidHeader("malformed header extension block")`), otherwise the rebuilt bytes and whether the id
was found. -/
def rebuild (id : Nat) (newElem : Bytes) : Bytes → Option (Bytes × Bool)
  | [] => some ([], false)
  | b :: rest =>
    if b = 0 then rebuild id newElem rest
    else
      let extId := b.toNat / 16
      let len := b.toNat % 16 + 1
      if extId = c15StopIdSet then some ([], false)
      else if extId = id then
        (rebuild id newElem (rest.drop len)).map fun r => (newElem ++ r.1, true)
      else if len ≤ rest.length then
        (rebuild id newElem (rest.drop len)).map fun r => (b :: (rest.take len ++ r.1), r.2)
      else none
termination_by bs => bs.length
decreasing_by all_goals (simp only [List.length_cons, List.length_drop]; omega)

inductive SetRes where
  | ok (h : Header)
  | err (msg : String)
  | panic
  deriving DecidableEq, Repr

/-- the element `set_extension` writes: header byte `(id << 4) | (len - 1)` then the data -/
def oneByteElem (id : UInt8) (data : Bytes) : Bytes :=
  u8 (id.toNat * 16 + (data.length - 1)) :: data

/-- `RtpHeader::set_extension` -/
def setExtension (h : Header) (id : UInt8) (data : Bytes) : SetRes :=
  if id.toNat = 0 ∨ id.toNat ≥ c15ExtIdLimit then .err "invalid extension id for one-byte header"
  else if data.length > c15ExtMaxData ∨ data.isEmpty then .err "invalid extension data length"
  else
    let ext := h.ext.getD ⟨UInt16.ofNat c15OneByteProfile, []⟩
    if ext.profile.toNat ≠ c15OneByteProfile then .err "unsupported extension profile for modification"
    else
      match rebuild id.toNat (oneByteElem id data) ext.data with
      | none => .err "malformed header extension block"
      | some (out, found) =>
        let nd := if found then out else out ++ oneByteElem id data
        .ok { h with ext := some ⟨ext.profile, nd ++ List.replicate (pad4 nd.length) 0⟩ }

end RtcModel.C15
