/-
C07 — totality models of the SCTP byte walkers of `SctpInner` (src/transports/sctp.rs): common header + chunk
walk of `handle_packet` (1549-1662), INIT / INIT-ACK fixed part and parameter walk (1664-1782), SACK gap-block
parse (1824-1875), FORWARD-TSN (2236-2250), RE-CONFIG parameter walk + outgoing-SSN-reset / response parse
(2296-2393), the DATA chunk header of `handle_data` / `process_data_payload` (2594-2705), `handle_dcep` dispatch and
`DataChannelOpen::unmarshal` / `DataChannelAck::unmarshal` (src/transports/datachannel.rs:45-105).
Association state (queues, timers, congestion control) is outside these models — they cover what happens to the
*bytes*: every getter, every loop.  The checksum comparison is modelled as an opaque boolean input.
-/
import RtcModel.Base.C07Cursor
import RtcModel.Generated.Consts
namespace RtcModel.C07.Sctp
open RtcModel.C07 RtcModel.Generated

/-- `DataChannelOpen::unmarshal(data)`: `[channel_type, priority, reliability, label_len, protocol_len]` -/
def dcepOpenUnmarshal : Cur (List Nat) := do
  alloc (← remaining)                                   -- `Bytes::copy_from_slice(data)`
  if (← remaining) < 12 then bail "DCEP_Open_message_too_short" else
  let mt ← getU8
  if mt ≠ c07DcepTypeOpen then bail "Invalid_DCEP_message_type" else
  let ct ← getU8
  let prio ← getU16
  let rel ← getU32
  let labelLen ← getU16
  let protoLen ← getU16
  if (← remaining) < labelLen + protoLen then bail "DCEP_Open_message_too_short_for_payload" else
  let label ← splitTo labelLen
  let proto ← splitTo protoLen
  alloc labelLen
  if ¬ ByteArray.validateUTF8 ⟨label.rest⟩ then bail "utf8" else
  alloc protoLen
  if ¬ ByteArray.validateUTF8 ⟨proto.rest⟩ then bail "utf8" else
  pure [ct, prio, rel, labelLen, protoLen]

/-- `DataChannelAck::unmarshal(data)` -/
def dcepAckUnmarshal (data : Array UInt8) : Cur Nat := do
  if data.size = 0 then bail "DCEP_Ack_message_too_short" else
  let mt ← idx data 0
  if mt ≠ c07DcepTypeAck then bail "Invalid_DCEP_message_type" else
  pure mt

/-- `handle_dcep(stream_id, data)` byte part: 0 = ignored, 1 = OPEN accepted, 2 = ACK -/
def handleDcep : Cur Nat := do
  if (← remaining) = 0 then pure 0 else
  let mt ← peek 0
  if mt = c07DcepTypeOpen then
    let body ← restSlice
    let _ ← onBuf (Buf.ofArray body) dcepOpenUnmarshal
    pure 1
  else if mt = c07DcepTypeAck then pure 2
  else pure 0

/-- `handle_data` + `process_data_payload` byte part on one DATA chunk value -/
def handleData : Cur Nat := do
  if (← remaining) < 12 then pure 0 else
  let _tsn ← getU32
  let _sid ← getU16
  let _ssn ← getU16
  let ppid ← getU32
  if ppid = c07PpidDcep then
    let r ← handleDcep
    pure (10 + r)
  else
    alloc (← remaining)                                 -- `buffer.extend_from_slice(&user_data)`
    pure 1

/-- parameter walk shared by INIT-ACK and RE-CONFIG: `while remaining >= 4 { type, len; check; split_to(len-4); pad }`;
`onParam` handles one parameter value. State = number of parameters walked. -/
def paramWalkBody (onParam : Nat → Buf → Cur Unit) (k : Nat) : Cur (Nat ⊕ Nat) := do
  if ¬ ((← remaining) ≥ 4) then pure (.inr k) else
  let pt ← getU16
  let pl ← getU16
  if pl < 4 ∨ (← remaining) < pl - 4 then pure (.inr k) else
  let v ← splitTo (pl - 4)
  let padding := (4 - pl % 4) % 4
  if (← remaining) ≥ padding then advance padding else pure ()
  onParam pt v
  pure (.inl (k + 1))

def paramWalk (onParam : Nat → Buf → Cur Unit) : Cur Nat := do
  let fuel := (← remaining) + 1
  loopM (paramWalkBody onParam) fuel 0

/-- `handle_init` / `handle_init_ack` byte part: fixed 16 bytes, then (INIT-ACK only) the parameter walk -/
def handleInit (isAck : Bool) : Cur Nat := do
  if (← remaining) < 16 then pure 0 else
  let _tag ← getU32
  let _rwnd ← getU32
  let _os ← getU16
  let _is ← getU16
  let _tsn ← getU32
  if isAck then
    let k ← paramWalk (fun _ _ => pure ())
    pure (1 + k)
  else pure 1

/-- `for _ in 0..num_gap_ack_blocks { if remaining < 4 { break } push((get_u16, get_u16)) }`; state = i -/
def sackGapsBody (num : Nat) (i : Nat) : Cur (Nat ⊕ Nat) := do
  if ¬ (i < num) then pure (.inr i) else
  if (← remaining) < 4 then pure (.inr i) else
  let _s ← getU16
  let _e ← getU16
  alloc 4
  pure (.inl (i + 1))

/-- `handle_sack` byte part: number of gap blocks collected -/
def handleSack : Cur Nat := do
  if (← remaining) ≥ 12 then
    let _cum ← getU32
    let _rwnd ← getU32
    let num ← getU16
    let _dups ← getU16
    loopM (sackGapsBody num) (num + 1) 0
  else pure 0

/-- `while remaining >= 4 { (get_u16, get_u16) }` of FORWARD-TSN -/
def fwdPairsBody (i : Nat) : Cur (Nat ⊕ Nat) := do
  if ¬ ((← remaining) ≥ 4) then pure (.inr i) else
  let _sid ← getU16
  let _ssn ← getU16
  alloc 4
  pure (.inl (i + 1))

def handleForwardTsn : Cur Nat := do
  if (← remaining) < 4 then pure 0 else
  let _tsn ← getU32
  let fuel := (← remaining) + 1
  loopM fwdPairsBody fuel 0

/-- one RE-CONFIG parameter value -/
def reconfigParam (pt : Nat) (v : Buf) : Cur Unit := do
  if pt = c07ReconfigOutgoing then
    let _ ← onBuf v (do
      if (← remaining) < 12 then pure () else
      let _a ← getU32
      let _b ← getU32
      let _c ← getU32
      let _ ← getU16sAll ((← remaining) + 1)            -- `while remaining >= 2 { streams.push(get_u16) }`
      pure ())
    pure ()
  else if pt = c07ReconfigResponse then
    let _ ← onBuf v (do
      if (← remaining) < 8 then pure () else
      let _a ← getU32
      let _b ← getU32
      pure ())
    pure ()
  else pure ()

def handleReconfig : Cur Nat := paramWalk reconfigParam

/-- dispatch of one chunk value -/
def handleChunk (ct : Nat) (v : Buf) : Cur Nat := do
  let r ← onBuf v (
    if ct = c07CtInit then handleInit false
    else if ct = c07CtInitAck then handleInit true
    else if ct = c07CtData then handleData
    else if ct = c07CtSack then handleSack
    else if ct = c07CtForwardTsn then handleForwardTsn
    else if ct = c07CtReconfig then handleReconfig
    else pure 0)
  pure r.1

/-- chunk walk; state = digest list (reversed) of `(type, result)` -/
def chunkWalkBody (acc : List Nat) : Cur (List Nat ⊕ List Nat) := do
  if (← remaining) = 0 then pure (.inr acc.reverse) else
  if (← remaining) < c07ChunkHeaderSize then pure (.inr acc.reverse) else
  let ct ← getU8
  let _flags ← getU8
  let cl ← getU16
  if cl < c07ChunkHeaderSize ∨ (← remaining) < cl - c07ChunkHeaderSize then pure (.inr acc.reverse) else
  let v ← splitTo (cl - c07ChunkHeaderSize)
  let padding := (4 - cl % 4) % 4
  if (← remaining) ≥ padding then advance padding else pure ()
  let r ← handleChunk ct v
  pure (.inl (r :: ct :: acc))

/-- `SctpInner::handle_packet(packet)` byte part; `crcOk` = the checksum comparison -/
def handlePacket (crcOk : Bool) : Cur (List Nat) := do
  if (← remaining) < c07SctpCommonHeader then pure [] else
  let body ← restSlice
  let _sp ← getU16
  let _dp ← getU16
  let _vt ← getU32
  let _ck ← getU32
  let _ ← slice body 0 8                                -- `&packet[..8]`
  let _ ← slice body 12 body.size                       -- `&packet[12..]`
  if ¬ crcOk then pure [] else
  let fuel := (← remaining) + 1
  loopM chunkWalkBody fuel []

end RtcModel.C07.Sctp
