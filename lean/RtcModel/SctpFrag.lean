/-
Model of the sending side's message → chunk path of `src/transports/sctp.rs`:
`send_data_raw` (SSN under the per-channel send lock, B/E flags, fragments of
`min(remaining, max_payload)` pushed contiguously to the outbound queue) and the TSN assignment of
`transmit` (`next_tsn.fetch_add(1)` per dequeued chunk, in queue order).  Core Lean only.
-/
import RtcModel.SctpRecv

namespace RtcModel.Sctp
open RtcModel.Generated

/-- `OutboundChunk` (the expiry instant is abstracted to "has one") -/
structure OChunk where
  sid     : UInt16
  ppid    : UInt32
  payload : Bytes
  flags   : UInt8
  ssn     : UInt16
  maxRetransmits : Option UInt16 := none
  hasExpiry      : Bool := false
deriving DecidableEq, Repr, Inhabited

/-- sending-side view of a `DataChannel` -/
structure TxChan where
  id         : UInt16
  ordered    : Bool
  /-- `dc.max_payload_size` (default 1200) -/
  maxPayload : Nat := dcDefaultMaxPayload
  nextSsn    : UInt16 := 0
  maxRetransmits : Option UInt16 := none
  maxLifetime    : Option UInt16 := none
deriving DecidableEq, Repr, Inhabited

/-- `flags_base | (offset == 0 ? 0x02 : 0) | (offset + size >= total ? 0x01 : 0)` -/
def fragFlags (base : UInt8) (first last : Bool) : UInt8 :=
  (if first then base ||| 0x02 else base) ||| (if last then 0x01 else 0x00)

/-- the `while offset < total_len` loop of `send_data_raw` on the not yet fragmented rest.
`mps = 0` never advances in the code (it loops forever); the fuel makes the model total and the
theorems assume `0 < mps`. -/
def fragGo (mps : Nat) (base : UInt8) : Nat → Bool → Bytes → List (UInt8 × Bytes)
  | 0, _, _ => []
  | fuel + 1, first, rest =>
    if rest.isEmpty then []
    else
      let n := min rest.length mps
      (fragFlags base first (n ≥ rest.length), rest.take n) ::
        fragGo mps base fuel false (rest.drop n)

/-- (flags, payload) of every chunk `send_data_raw` enqueues for `data` -/
def fragMsg (mps : Nat) (base : UInt8) (data : Bytes) : List (UInt8 × Bytes) :=
  if data.isEmpty then [(base ||| 0x03, [])]
  else fragGo mps base data.length true data

def findTx (cs : List TxChan) (id : UInt16) : Option TxChan := cs.find? (fun c => c.id == id)

def setTx : List TxChan → TxChan → List TxChan
  | [], _ => []
  | c :: rest, n => if c.id == n.id then n :: rest else c :: setTx rest n

/-- `send_data_raw(channel_id, ppid, data)`: the chunks appended to the outbound queue and the
channel table afterwards. -/
def sendDataRaw (cs : List TxChan) (sid : UInt16) (ppid : UInt32) (data : Bytes) :
    List TxChan × List OChunk :=
  let isDcep := ppid.toNat == dcPpidDcep
  match findTx cs sid with
  | some dc =>
    let ordered := if isDcep then false else dc.ordered
    let ssn : UInt16 := if ordered then dc.nextSsn else 0
    let cs1 := if ordered then setTx cs { dc with nextSsn := dc.nextSsn + 1 } else cs
    let mps := min dc.maxPayload sctpMaxPayload
    let mr := if isDcep then none else dc.maxRetransmits
    let ex := if isDcep then false else dc.maxLifetime.isSome
    let base : UInt8 := if !ordered then 0x04 else 0x00
    (cs1, (fragMsg mps base data).map (fun f =>
      { sid, ppid, payload := f.2, flags := f.1, ssn, maxRetransmits := mr, hasExpiry := ex }))
  | none =>
    let ordered := !isDcep
    let base : UInt8 := if !ordered then 0x04 else 0x00
    (cs, (fragMsg sctpMaxPayload base data).map (fun f =>
      { sid, ppid, payload := f.2, flags := f.1, ssn := 0 }))

/-- `transmit`: every dequeued chunk gets `tsn = next_tsn.fetch_add(1)` in queue order -/
def assignTsn : UInt32 → List OChunk → List DChunk
  | _, [] => []
  | t, o :: rest =>
    { tsn := t, flags := o.flags, sid := o.sid, ssn := o.ssn, ppid := o.ppid, data := o.payload } ::
      assignTsn (t + 1) rest

/-- all chunks enqueued by sending `msgs` (in order) with `send_data(sid, ·)` -/
def sendAll (cs : List TxChan) (sid : UInt16) (ppid : UInt32) : List Bytes → List TxChan × List OChunk
  | [] => (cs, [])
  | m :: rest =>
    let r := sendDataRaw cs sid ppid m
    let r2 := sendAll r.1 sid ppid rest
    (r2.1, r.2 ++ r2.2)

end RtcModel.Sctp
