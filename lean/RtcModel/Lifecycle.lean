/-
Model of the teardown / failure propagation rules of `src/peer_connection.rs`
(`run_ice_dtls_loop`, `run_rtp_direct_loop`, `handle_connected_state[_no_dtls]`, `start_dtls`'s wait loop,
`propagate_sctp_close_reason`, `close_with_reason`, `Drop`), the SCTP runner's exit paths and
`SctpCleanupGuard` (`src/transports/sctp.rs`) and the DTLS task's exit paths
(`src/transports/dtls/mod.rs`).  Core Lean only (linked into `rtcdrv`).

Concurrency: four actors — the application (`close()` / drop, executed in three blocks so other actors
can interleave), the *driving loop* task, the SCTP runner task, the DTLS task — plus the environment
(peer / network events).  One `Act` is one atomic block between two `await`s of one actor.  A *schedule*
is a `List Act`; an action that is not enabled leaves the state unchanged.  `tokio::select!` choosing among
several ready arms is modelled by one action per arm.
-/
import RtcModel.Generated.Consts

namespace RtcModel.Lifecycle

inductive Mode | webrtc | direct
deriving DecidableEq, Repr, Inhabited

inductive PeerSt | new | connecting | connected | disconnected | failed | closed
deriving DecidableEq, Repr, Inhabited

inductive SigSt | stable | haveLocalOffer | haveRemoteOffer | closed
deriving DecidableEq, Repr, Inhabited

inductive Reason
  | localClose | dropped | iceFailed | iceDisconnected | dtlsFailed | dtlsClosed
  | sctpHeartbeatTimeout | sctpPeerDead | sctpRemoteAbort | sctpRemoteShutdown
  | transportStartFailed | unknown
deriving DecidableEq, Repr, Inhabited

/-- `IceTransportState` (`Completed` behaves as `Connected` everywhere in these loops). -/
inductive IceSt | new | checking | connected | disconnected | failed | closed
deriving DecidableEq, Repr, Inhabited

/-- `absent`: no `DtlsTransport` has been created yet. -/
inductive DtlsSt | absent | handshaking | connected | failed | closed
deriving DecidableEq, Repr, Inhabited

/-- classes of the SCTP `close_reason` string -/
inductive SctpWhy
  | heartbeatTimeout | heartbeatDead | remoteAbort | remoteShutdown | dtlsFailed | dtlsClosed
  | dtlsChannelClosed | localClose | initTimeout | transportClosed | other
deriving DecidableEq, Repr, Inhabited

/-- the `match r.as_str()` table of `propagate_sctp_close_reason` **and** `close_with_reason`
(the harness compares both copies with this one function) -/
def reasonOfWhy : SctpWhy → Option Reason
  | .heartbeatTimeout => some .sctpHeartbeatTimeout
  | .heartbeatDead => some .sctpPeerDead
  | .remoteAbort => some .sctpRemoteAbort
  | .remoteShutdown => some .sctpRemoteShutdown
  | .dtlsFailed => some .dtlsFailed
  | .dtlsClosed => some .dtlsClosed
  | .dtlsChannelClosed => some .dtlsClosed
  | .localClose => none
  | .initTimeout => some .transportStartFailed
  | .transportClosed => some .unknown
  | .other => some .unknown

/-- `absent`: no `SctpTransport`; `waiting`: runner created, waiting for DTLS; `running`; `ended`:
the runner future finished or was dropped (its `SctpCleanupGuard` has run). -/
inductive SctpSt | absent | waiting | running | ended
deriving DecidableEq, Repr, Inhabited

/-- where the driving-loop task is parked -/
inductive Drv
  | idle      -- top of `run_ice_dtls_loop` / `run_rtp_direct_loop`, waiting for an ICE state change
  | waitRole  -- `handle_connected_state`, no DTLS role yet
  | waitDescs -- `run_rtp_direct_loop` (Srtp mode): polling for both descriptions
  | starting  -- inside `start_dtls`, waiting for the DTLS state
  | running   -- the connected `select!` loop (transport loops spawned)
  | done      -- the task has returned
deriving DecidableEq, Repr, Inhabited

/-- progress of an in-flight `close_with_reason` -/
inductive ClosePc | none | a | b | finished
deriving DecidableEq, Repr, Inhabited

structure Chan where
  closed : Bool
  events : Nat          -- number of `DataChannelEvent::Close` delivered to this channel
  senderDropped : Bool  -- `close_channel()` ran: a pending / later `recv()` returns `None`
deriving DecidableEq, Repr, Inhabited

structure St where
  mode        : Mode
  needDescs   : Bool          -- SDES (Srtp mode): `setup_sdes` needs both descriptions
  descs       : Bool          -- both descriptions are set
  hasApp      : Bool          -- the remote description has an application section (SCTP will be created)
  role        : Bool          -- `dtls_role` is `Some(_)`
  peer        : PeerSt
  sig         : SigSt
  reason      : Option Reason
  ice         : IceSt
  iceSeen     : IceSt         -- value last marked seen by the driving loop's `ice_state_rx`
  dtls        : DtlsSt
  dtlsSeen    : DtlsSt
  dtlsCloseReq : Bool         -- `DtlsTransport::close()` was called (permit stored)
  dtlsExited  : Bool          -- the DTLS task has returned
  sctp        : SctpSt
  why         : Option SctpWhy
  sctpCloseReq : Bool         -- `SctpTransport::close()` was called
  held        : Bool          -- `inner.sctp_transport` is `Some`
  listenersCleared : Bool     -- RTP listeners cleared ⇒ the RTCP loop ends
  chans       : List Chan
  drv         : Drv
  close       : ClosePc
  closeArg    : Reason
  grace       : Bool          -- a grace timer of the current disconnect epoch is pending
  appGone     : Bool          -- the application dropped its last handle while a loop still held a strong one
  blocked     : Nat           -- `send_data` calls parked in the SCTP flow-control wait
deriving DecidableEq, Repr, Inhabited

/-! ### small building blocks (one per code idiom) -/

/-- `disconnect_reason.send_if_modified(|cur| if cur.is_none() { *cur = Some(r) })`
(also `close_with_reason` since fix 3b14b84: check and set are one step) -/
def setReasonIfNone (s : St) (r : Reason) : St :=
  match s.reason with
  | some _ => s
  | none => { s with reason := some r }

/-- `PeerConnectionInner::set_peer_state` (fix 0e0d29e): the driving loops' writes never leave `Closed` -/
def setPeer (s : St) (p : PeerSt) : St :=
  if s.peer = .closed then s else { s with peer := p }

/-- one channel in `SctpCleanupGuard::drop` / `close_with_reason`: swap the state to Closed; only if it
was not Closed: Close event and `close_channel()` (sender dropped) -/
def closeChan (c : Chan) : Chan :=
  if c.closed then c else { closed := true, events := c.events + 1, senderDropped := true }

/-- `SctpInner::close_data_channel` as the code has it: a channel that is already Closed is left alone
(SCTP fix "announces Close at most once"); otherwise Closing → (RE-CONFIG) → `swap(Closed)`, one `Close`
event and `close_channel()` (round-3 fix 2390d12: the event sender is dropped like in every other closer). -/
def rawCloseChan (c : Chan) : Chan := closeChan c

def rawCloseAt : List Chan → Nat → List Chan
  | [], _ => []
  | c :: cs, 0 => rawCloseChan c :: cs
  | c :: cs, i + 1 => c :: rawCloseAt cs i

/-- the runner future ends or is dropped: `SctpCleanupGuard` runs -/
def sctpEnd (s : St) : St :=
  -- the guard also wakes every sender parked in flow control (fix: they see Closed and error)
  { s with sctp := .ended, chans := s.chans.map closeChan, blocked := 0 }

/-- `LoopsGuard` dropped (the first-done future is dropped): every transport loop is aborted; a live SCTP
runner future is dropped, which runs its guard. -/
def abortLoops (s : St) : St :=
  if s.sctp = .waiting ∨ s.sctp = .running then sctpEnd s else s

/-- (fix a95bd0d) the association is gone: `Connected → Disconnected`, any other state is kept -/
def markGone (s : St) : St :=
  if s.peer = .connected then { s with peer := .disconnected } else s

/-- `propagate_sctp_close_reason` -/
def propagate (s : St) : St :=
  if s.held then
    match s.why with
    | some w => match reasonOfWhy w with
      | some r => markGone (setReasonIfNone s r)
      | none => s
    | none => s
  else s

def iceDown (i : IceSt) : Bool := i == .failed || i == .closed
def dtlsDown (d : DtlsSt) : Bool := d == .failed || d == .closed

/-- the whole of `close_with_reason(arg)` executed by one actor without interleaving (used where the
caller is the driving loop itself or `Drop`): the `Closed` check, reason (SCTP's more specific reason wins
over the argument; first reason wins overall), the state watches, listeners, `sctp.take().close()`,
channels, `dtls.close()`, `ice.stop()`. Does not touch the application's in-flight `close` counter. -/
def teardown (s : St) (arg : Reason) : St :=
  if s.peer = .closed then s
  else
    let r : Reason :=
      if s.held then
        match s.why with
        | some w => (reasonOfWhy w).getD arg
        | none => arg
      else arg
    let s1 := setReasonIfNone s r
    { s1 with sig := .closed, peer := .closed, listenersCleared := true,
              sctpCloseReq := if s.held then true else s.sctpCloseReq, held := false,
              blocked := if s.held then 0 else s.blocked,
              chans := s.chans.map closeChan,
              dtlsCloseReq := if s.dtls = .absent then s.dtlsCloseReq else true,
              ice := .closed }

/-- `Drop for PeerConnectionInner`: `close_with_reason(Dropped)` then `abort_tracked_tasks` (the driving
loop task and everything it spawned) -/
def dropAll (s : St) : St :=
  abortLoops { teardown s .dropped with drv := .done }

/-- the driving loop gives up with `Failed`: the registered channels that never got an association are
closed too (fix 901afcf) -/
def failExit (s : St) : St :=
  { setPeer s .failed with chans := s.chans.map closeChan, drv := .done }

/-- the driving loop lets go of its strong handles (`pc_temp`, `inner`): if the application's handles
are already gone this is the last reference and `Drop` runs here -/
def release (s : St) : St := if s.appGone then dropAll s else s

/-- top of the driving loop with ICE `Failed` / `Closed` (the arms that set the reason and return).
`Closed` runs the full teardown (fix 10e810f); it is a no-op when `close()` itself stopped ICE. -/
def topDown (s : St) : St :=
  if s.ice = .failed then
    { failExit (setReasonIfNone s .iceFailed) with iceSeen := s.ice }
  else if s.ice = .closed then
    { teardown (setReasonIfNone s .iceDisconnected) .iceDisconnected with drv := .done, iceSeen := .closed }
  else { s with drv := .idle, iceSeen := s.ice }

/-- `start_dtls` up to its wait loop (WebRTC): a new DTLS transport starts handshaking, the SCTP transport
is created when the remote description has an application section. -/
def beginStart (s : St) : St :=
  { s with dtls := .handshaking, dtlsSeen := .handshaking, dtlsCloseReq := false, dtlsExited := false,
           sctp := if s.hasApp then .waiting else s.sctp,
           held := if s.hasApp then true else s.held,
           why := if s.hasApp then none else s.why,
           sctpCloseReq := if s.hasApp then false else s.sctpCloseReq,
           drv := .starting }

/-- top of the driving loop, ICE `Connected`: the direct modes call `start_dtls` (which re-reads the
selected pair, see `drvStart`) — SDES first waits for both descriptions (fix 5883492); WebRTC needs the role. -/
def topConnected (s : St) : St :=
  match s.mode with
  | .direct =>
    if s.needDescs && !s.descs && s.peer != .closed then { s with drv := .waitDescs, iceSeen := s.ice }
    else { s with drv := .starting, iceSeen := s.ice }
  | .webrtc =>
    if s.role then beginStart { s with iceSeen := s.ice }
    else { s with drv := .waitRole, iceSeen := s.ice }

/-! ### actions -/

inductive Act
  -- application
  | callClose (arg : Reason)  -- `close()` (LocalClose) — block A of `close_with_reason`
  | closeStep                 -- blocks B and C of an in-flight `close_with_reason`
  | appDrop                   -- last application handle dropped
  | closeChannel (i : Nat)    -- `SctpTransport::close_data_channel(id)` (not reachable through `PeerConnection`)
  | senderBlocks              -- a `send_data` call runs into the flow-control limit and parks
  -- environment
  | peerCloseNotify | dtlsFail | peerAbort | peerShutdownAck | peerShutdown | hbTimeout
  | iceFail | iceStop | iceDisconnect | iceRecover
  -- environment: connection progress (used when an event races connection establishment)
  | iceConnect | dtlsConnect | roleSet | descsSet
  -- driving loop (one per `select!` arm / await point)
  | drvTop | drvRole | drvDescs | drvStart | drvLoops | drvIce | drvDtls | drvGrace
  -- SCTP runner
  | sctpDtls | sctpClose
  -- DTLS task (`dtlsTimeout`: its own 30 s handshake deadline, `DTLS_HANDSHAKE_TIMEOUT`)
  | dtlsExit | dtlsSock | dtlsTimeout
deriving DecidableEq, Repr

/-- does the driving loop hold a strong `Arc<PeerConnectionInner>` across its await? Only while it is
inside `start_dtls(..).await` (`pc_temp`); both connected loops hold the connection weakly
(fixes 10e810f, WebRTC-loop fix). -/
def drvHoldsStrong (s : St) : Bool := s.drv == .starting

/-- block A of `close_with_reason`: the `Closed` check, the reason (SCTP's more specific reason wins over
the argument, first reason wins overall — atomically), the four state watches. -/
def closeA (s : St) (arg : Reason) : St :=
  if s.peer = .closed then { s with close := .finished }
  else
    let r : Reason :=
      if s.held then
        match s.why with
        | some w => (reasonOfWhy w).getD arg
        | none => arg
      else arg
    { setReasonIfNone s r with sig := .closed, peer := .closed, close := .a, closeArg := arg }

/-- block B: tracks stopped / listeners cleared, `sctp_transport.take()` + `close()`, every registered
channel that is not yet Closed is closed (fix 22c520e) -/
def closeB (s : St) : St :=
  { s with listenersCleared := true,
           sctpCloseReq := if s.held then true else s.sctpCloseReq,
           blocked := if s.held then 0 else s.blocked,   -- `SctpTransport::close()` → `notify_waiters()`
           held := false, close := .b,
           chans := s.chans.map closeChan }

/-- block C: `dtls.close()`, `ice_transport.stop()`. Nothing is aborted here (the abort of the tracked
tasks, 4a209bd, was reverted in round 3): the driving loop and the runners end cooperatively — on the
ICE `Closed` state, the DTLS `Closed` state, the SCTP close request. -/
def closeC (s : St) : St :=
  { s with dtlsCloseReq := if s.dtls = .absent then s.dtlsCloseReq else true,
           ice := .closed, close := .finished }

def enabled (s : St) : Act → Bool
  | .callClose _ => s.close == .none || s.close == .finished
  | .closeStep => s.close == .a || s.close == .b
  | .appDrop => !s.appGone
  | .closeChannel i => s.sctp == .running && s.held && decide (i < s.chans.length)
  | .senderBlocks => s.sctp == .running && s.held && !s.sctpCloseReq && decide (s.blocked < 3)
  | .peerCloseNotify => s.dtls == .connected && !s.dtlsExited
  | .dtlsFail => s.dtls == .handshaking && !s.dtlsExited
  | .peerAbort | .peerShutdownAck | .hbTimeout => s.sctp == .running
  | .peerShutdown => s.sctp == .running
  | .iceFail => s.ice != .closed && s.ice != .failed
  | .iceStop => s.ice != .closed
  | .iceDisconnect => s.ice == .connected
  | .iceRecover => s.ice == .disconnected
  | .iceConnect => s.ice == .new || s.ice == .checking
  | .dtlsConnect => s.dtls == .handshaking && !s.dtlsExited && s.ice == .connected
  | .roleSet => !s.role
  | .descsSet => !s.descs
  | .drvTop => s.drv == .idle && s.ice != s.iceSeen
  | .drvRole => s.drv == .waitRole && s.role
  | .drvDescs => s.drv == .waitDescs && (s.descs || s.peer == .closed || s.ice != .connected)
  | .drvStart => s.drv == .starting && (s.mode == .direct || s.dtls == .connected || dtlsDown s.dtls || s.sctp == .ended)
  | .drvLoops => s.drv == .running && (s.sctp == .ended || s.listenersCleared)
  | .drvIce => (s.drv == .running || s.drv == .waitRole) && s.ice != s.iceSeen
  | .drvDtls => s.drv == .running && s.mode == .webrtc && s.dtls != s.dtlsSeen
  | .drvGrace => s.drv == .running && s.grace && s.ice == .disconnected
  | .sctpDtls => (s.drv == .starting || s.drv == .running) &&
      ((s.sctp == .waiting && (s.dtls == .connected || dtlsDown s.dtls)) ||
       (s.sctp == .running && dtlsDown s.dtls))
  | .sctpClose => (s.drv == .starting || s.drv == .running) &&
      (s.sctp == .waiting || s.sctp == .running) && s.sctpCloseReq
  | .dtlsExit => !s.dtlsExited && s.dtlsCloseReq && s.dtls != .absent
  | .dtlsSock => !s.dtlsExited && s.ice == .closed && (s.dtls == .handshaking || s.dtls == .connected)
  | .dtlsTimeout => !s.dtlsExited && s.dtls == .handshaking

/-- the DTLS-down reason string of the SCTP runner (both its wait phase, fix 8df52c2, and its loop) -/
def whyOfDtls (d : DtlsSt) : SctpWhy := if d = .failed then .dtlsFailed else .dtlsClosed

def apply (s : St) : Act → St
  | .callClose arg => closeA s arg
  | .closeStep => if s.close = .a then closeB s else closeC s
  | .appDrop => if drvHoldsStrong s then { s with appGone := true } else dropAll { s with appGone := true }
  | .closeChannel i => { s with chans := rawCloseAt s.chans i }
  | .senderBlocks => { s with blocked := s.blocked + 1 }
  | .peerCloseNotify => { s with dtls := .closed }
  | .dtlsFail => { s with dtls := .failed, dtlsExited := true }
  | .peerAbort => sctpEnd { s with why := some .remoteAbort }
  | .peerShutdownAck => sctpEnd { s with why := some .remoteShutdown }
  | .hbTimeout => sctpEnd { s with why := some .heartbeatTimeout }
  | .peerShutdown => sctpEnd { s with why := some .remoteShutdown }  -- SHUTDOWN … SHUTDOWN COMPLETE (fix 631c2a4)
  | .iceFail => { s with ice := .failed }
  | .iceStop => { s with ice := .closed }
  | .iceDisconnect => { s with ice := .disconnected }
  | .iceRecover => { s with ice := .connected }
  | .iceConnect => { s with ice := .connected }
  | .dtlsConnect => { s with dtls := .connected }
  | .roleSet => { s with role := true }
  | .descsSet => { s with descs := true }
  | .drvTop =>
    if s.ice = .connected then topConnected s
    else if iceDown s.ice then topDown s
    else { s with iceSeen := s.ice }
  | .drvRole => beginStart s
  | .drvDescs =>
    -- leaving the poll loop: ICE gone → back to the top (`continue`), else `start_dtls`
    if s.ice = .connected then { s with drv := .starting } else { s with drv := .idle, iceSeen := .connected }
  | .drvStart =>
    if s.mode = .direct then
      -- `start_dtls` of the direct modes: `get_selected_pair()` fails when ICE was stopped meanwhile
      if s.ice = .connected then
        if s.peer = .closed then release { s with drv := .done }
        else release { s with peer := .connected, drv := .running, listenersCleared := false }
      else release (failExit (setReasonIfNone s .transportStartFailed))
    else if s.dtls = .connected ∧ s.sctp ≠ .ended then
      if s.peer = .closed then release (abortLoops { s with drv := .done })
      else release { s with peer := .connected, dtlsSeen := .connected, drv := .running, listenersCleared := false }
    else
      -- Err(..) from start_dtls: DtlsFailed / Failed, the pending runner future is dropped
      release (abortLoops (failExit (setReasonIfNone s .dtlsFailed)))
  | .drvLoops =>
    let s1 := abortLoops (propagate s)
    -- the direct-mode loop returns without re-reading ICE; the WebRTC one re-reads it
    if s.mode = .webrtc ∧ iceDown s1.ice then topDown s1 else { s1 with drv := .done }
  | .drvIce =>
    if iceDown s.ice then topDown (abortLoops s)
    else if s.drv = .running then
      if s.ice = .disconnected then { setPeer s .disconnected with iceSeen := s.ice, grace := true }
      else if s.ice = .connected then { setPeer s .connected with iceSeen := s.ice, grace := false }
      else { s with iceSeen := s.ice }
    else { s with iceSeen := s.ice }
  | .drvDtls =>
    if dtlsDown s.dtls then
      -- … and `close_data_channels()` (round-3 fix: channels that have no association to close them)
      abortLoops { setPeer (setReasonIfNone s (if s.dtls = .failed then .dtlsFailed else .dtlsClosed)) .disconnected with
                   dtlsSeen := s.dtls, drv := .done, chans := s.chans.map closeChan }
    else { s with dtlsSeen := s.dtls }
  | .drvGrace =>
    let s0 := setPeer (setReasonIfNone s .iceDisconnected) .disconnected
    let s1 := { s0 with grace := false, sctpCloseReq := if s.held then true else s.sctpCloseReq, blocked := if s.held then 0 else s.blocked,
                        chans := s.chans.map closeChan }   -- `close_data_channels()` (round-3 fix)
    { abortLoops s1 with drv := .idle }
  | .sctpDtls =>
    if s.sctp = .waiting then
      if s.dtls = .connected then { s with sctp := .running }
      else sctpEnd { s with why := some (whyOfDtls s.dtls) }
    else sctpEnd { s with why := some (whyOfDtls s.dtls) }
  | .sctpClose => sctpEnd { s with why := match s.why with | none => some .localClose | w => w }
  | .dtlsExit => { s with dtlsExited := true, dtls := .closed }   -- publishes Closed (fix f59957e)
  | .dtlsSock => { s with dtls := if s.dtls = .handshaking then .failed else .closed, dtlsExited := true }
  | .dtlsTimeout => { s with dtls := .failed, dtlsExited := true }

/-- an action that is not enabled is a no-op -/
def step (s : St) (a : Act) : St := if enabled s a then apply s a else s

def run (s : St) (as : List Act) : St := as.foldl step s

/-- actions of the implementation's own tasks (everything except application and environment) -/
def internalActs : List Act :=
  [.closeStep, .drvTop, .drvRole, .drvDescs, .drvStart, .drvLoops, .drvIce, .drvDtls, .drvGrace,
   .sctpDtls, .sctpClose, .dtlsExit, .dtlsSock, .dtlsTimeout]

def isInternal (a : Act) : Bool := internalActs.contains a

def quiescent (s : St) : Bool := internalActs.all (fun a => !enabled s a)

/-! ### what the application observes -/

/-- lenient reading of "terminal" (DESIGN C17) -/
def terminal (s : St) : Bool :=
  (s.peer == .disconnected || s.peer == .failed || s.peer == .closed) && s.reason.isSome

def strictTerminal (s : St) : Bool := (s.peer == .failed || s.peer == .closed) && s.reason.isSome

inductive Call | parkedSend | sendData | createOffer | setRemoteOffer | waitForConnected | createDataChannel | dcRecv (i : Nat) | pcRecv
deriving DecidableEq, Repr

inductive Outcome | errNow | okNow | pending
deriving DecidableEq, Repr

/-- outcome of an API call issued in state `s` (no further events):
`send_data`: `sctp_transport` is `None` → `InvalidState` at once, else the SCTP layer answers (an ended
association errors at once: state Closed);
`create_offer` / `set_remote_description(offer)`: signaling state must be `Stable`;
`wait_for_connected`: returns on Connected / Failed / Closed, otherwise waits;
`create_data_channel`: never blocks;
`wait_for_connected` also returns (error) in `Disconnected` once a disconnect reason other than `IceDisconnected` is recorded;
`DataChannel::recv`: returns `None` once the channel's sender was dropped (`close_channel`), else waits. -/
def call (s : St) : Call → Outcome
  | .parkedSend => if s.blocked > 0 then .pending else .errNow
  | .sendData => if !s.held then .errNow else if s.sctp == .ended then .errNow else .okNow
  | .createOffer => if s.sig == .stable then .okNow else .errNow
  | .setRemoteOffer => if s.sig == .stable then .okNow else .errNow
  | .waitForConnected =>
    if s.peer == .connected then .okNow
    else if s.peer == .failed || s.peer == .closed then .errNow
    -- fix 3448715, refined in round 3: `IceDisconnected` is the recoverable "cycling transport" state
    else if s.peer == .disconnected && s.reason.isSome && s.reason != some .iceDisconnected then .errNow
    else .pending
  -- refused once the connection is Closed (round-4 fix; before, it registered a channel nothing would ever close)
  | .createDataChannel => if s.peer == .closed then .errNow else .okNow
  | .dcRecv i => match s.chans[i]? with
    | some c => if c.senderDropped then .okNow else .pending
    | none => .errNow
  -- `PeerConnection::recv()` with the event queue drained: ends (None) once the connection is Closed
  -- (round-3 fix), otherwise waits for the next event
  | .pcRecv => if s.peer == .closed then .okNow else .pending

/-! ### phase states (initial states of the harness runs) -/

inductive Phase
  | created | offerMade | remoteOfferSet | checking | iceConnected | dtlsHandshaking | dtlsConnected
  | sctpConnecting | channelsOpen | mediaFlowing | renegotiating
deriving DecidableEq, Repr

def base (mode : Mode) (hasApp : Bool) (nch : Nat) : St :=
  { mode, needDescs := false, descs := true, appGone := false, blocked := 0, hasApp, role := false, peer := .new, sig := .stable, reason := none, ice := .new, iceSeen := .new,
    dtls := .absent, dtlsSeen := .absent, dtlsCloseReq := false, dtlsExited := false, sctp := .absent,
    why := none, sctpCloseReq := false, held := false, listenersCleared := false,
    chans := List.replicate nch ⟨false, 0, false⟩, drv := .idle, close := .none, closeArg := .localClose,
    grace := false }

def connectedSt (mode : Mode) (hasApp : Bool) (nch : Nat) : St :=
  match mode with
  | .direct => { base mode false nch with role := true, peer := .connected, ice := .connected, iceSeen := .connected, drv := .running }
  | .webrtc =>
    let b := base mode hasApp nch
    { b with role := true, peer := .connected, ice := .connected, iceSeen := .connected, dtls := .connected, dtlsSeen := .connected, sctp := if hasApp then .running else .absent, held := hasApp, drv := .running }

def phaseState (mode : Mode) (hasApp : Bool) (nch : Nat) : Phase → St
  | .created => base mode hasApp nch
  | .offerMade => { base mode hasApp nch with sig := .haveLocalOffer }
  | .remoteOfferSet => { base mode hasApp nch with sig := .haveRemoteOffer, role := true }
  | .checking => { base mode hasApp nch with role := true, ice := .checking, iceSeen := .checking }
  | .iceConnected => { base mode hasApp nch with role := true, ice := .connected, iceSeen := .checking }
  | .dtlsHandshaking => beginStart { base mode hasApp nch with role := true, ice := .connected, iceSeen := .connected }
  | .dtlsConnected => { beginStart { base mode hasApp nch with role := true, ice := .connected, iceSeen := .connected } with dtls := .connected }
  | .sctpConnecting => connectedSt mode hasApp nch
  | .channelsOpen => connectedSt mode hasApp nch
  | .mediaFlowing => connectedSt mode hasApp nch
  | .renegotiating => { connectedSt mode hasApp nch with sig := .haveLocalOffer }

end RtcModel.Lifecycle
