/-
The documented probation rules, written from the doc comment of `RtpCandidateState`
(`src/transports/ice/conn.rs:16-39`) and NOT from the body of `receive`:

  Decision rules (evaluated in order on every new RTP packet):
  1. Marker flush: a candidate that has sent a packet with `marker=true` and has the lowest
     `first_seq` among candidates with a marker is selected immediately.
  2. Consecutive dominance: a candidate with `consecutive_count >= 2` that also has accumulated
     `>= 3` total packets across all observed candidates is selected.
  3. Timeout fallback: after observing `max_packets` RTP packets without a clear winner, the
     candidate with the highest `packet_count` wins (ties broken by lowest `first_seq`).

The rules are relations on the candidate table (no iteration order, no `min_by_key` / `max_by`,
no branch order): a rule may admit several candidates where the comment leaves a tie open.
The thresholds of rule 2 are read out of the COMMENT's text on every run (`docRule2MinConsecutive`,
`docRule2MinTotal`), not out of the code; the order of the three rules in the comment is a generated
obligation too (`const_layout`: marker = 1, run = 2, timeout = 3), so an edited comment re-opens the proofs.
-/
import RtcModel.Latch

namespace RtcModel.LatchSpec
open RtcModel.Latch

/-- rule 1: a marker candidate with the lowest `first_seq` among marker candidates -/
def Rule1 (p : Prob) (c : Cand) : Prop :=
  c ∈ p.cands ∧ c.hasMarker = true ∧ ∀ d ∈ p.cands, d.hasMarker = true → c.firstSeq ≤ d.firstSeq

/-- rule 2: two sequential steps from the candidate, at least three packets observed in all -/
def Rule2 (p : Prob) (c : Cand) : Prop :=
  c ∈ p.cands ∧ c.consecutive ≥ Generated.docRule2MinConsecutive ∧ p.total ≥ Generated.docRule2MinTotal

/-- rule 3: window exhausted; highest packet count, ties broken by lowest `first_seq` -/
def Rule3 (p : Prob) (c : Cand) : Prop :=
  p.total ≥ p.max ∧ c ∈ p.cands ∧ (∀ d ∈ p.cands, d.packetCount ≤ c.packetCount) ∧
  (∀ d ∈ p.cands, d.packetCount = c.packetCount → c.firstSeq ≤ d.firstSeq)

/-- "evaluated in order": a rule is consulted only when no earlier rule selects anything -/
def Documented (p : Prob) (w : Addr) : Prop :=
  (∃ c, Rule1 p c ∧ c.addr = w) ∨
  ((¬ ∃ c, Rule1 p c) ∧ ∃ c, Rule2 p c ∧ c.addr = w) ∨
  ((¬ ∃ c, Rule1 p c) ∧ (¬ ∃ c, Rule2 p c) ∧ ∃ c, Rule3 p c ∧ c.addr = w)

/-- the comment's rules leave no choice on this table: one source per address, no two marker
candidates with the same `first_seq`, at most one candidate with a run, no two candidates with
the same (`packet_count`, `first_seq`) -/
def NoTies (p : Prob) : Prop :=
  (∀ c ∈ p.cands, ∀ d ∈ p.cands, c.hasMarker = true → d.hasMarker = true → c.firstSeq = d.firstSeq → c = d) ∧
  (∀ c ∈ p.cands, ∀ d ∈ p.cands, c.consecutive ≥ Generated.docRule2MinConsecutive →
      d.consecutive ≥ Generated.docRule2MinConsecutive → c = d) ∧
  (∀ c ∈ p.cands, ∀ d ∈ p.cands, c.packetCount = d.packetCount → c.firstSeq = d.firstSeq → c = d)

end RtcModel.LatchSpec
