/- C07 (bounded state under hostile sample histories) — model of `src/media/jitter_buffer.rs`:
`JitterBuffer::{new, reset, push, pop, awaiting_next, is_empty, last_ssrc}` with `get_first_seq` / `is_newer`.
The `BTreeMap<u16, BufferedSample>` is a key-ascending association list. Time is abstracted to one Boolean per
`pop`: `aged` = "the head sample is at least `max_delay` old"; the harness runs the real buffer with `min_delay = 0`
and `max_delay ∈ {0, 1 h}`, for which `aged` is constantly true / false. Imports only the generated constants (`MAX_SEQ_GAP`, `AUDIO_TS_JUMP_SECS`, `VIDEO_TS_JUMP_SECS` are regenerated from the
source on every run). -/
import RtcModel.Generated.Consts
namespace RtcModel.Jitter
open RtcModel.Generated

structure Smp where
  seq : Option Nat      -- `sequence_number` (u16)
  ts : Nat              -- `rtp_timestamp` (u32)
  ssrc : Option Nat     -- `raw_packet.header.ssrc`
  marker : Bool         -- audio `marker` / video `is_last_packet`
  clock : Nat           -- audio `clock_rate`
  video : Bool
  id : Nat              -- payload tag (identity of the sample)
deriving Repr

structure St where
  samples : List (Nat × Smp) := []
  lastSeq : Option Nat := none
  lastTs : Option Nat := none
  lastSsrc : Option Nat := none
  cap : Nat

def init (cap : Nat) : St := { cap := cap }

def maxSeqGap : Nat := c07JitterMaxSeqGap
def halfU32 : Nat := 2147483647        -- u32::MAX / 2

/-- `is_newer(seq, last)` -/
def isNewer (seq last : Nat) : Bool := seq != last && (seq + 65536 - last) % 65536 < 32768

/-- `BTreeMap::insert` -/
def ins (k : Nat) (v : Smp) : List (Nat × Smp) → List (Nat × Smp)
  | [] => [(k, v)]
  | (k', v') :: t =>
    if k < k' then (k, v) :: (k', v') :: t
    else if k = k' then (k, v) :: t
    else (k', v') :: ins k v t

def St.reset (s : St) : St := { s with samples := [], lastSeq := none, lastTs := none, lastSsrc := none }

/-- the four "stream restarted" arms: `self.reset(); if let Some(ssrc) = ssrc { self.last_ssrc = Some(ssrc) }; insert; return` -/
def St.restart (s : St) (seq : Nat) (x : Smp) : St :=
  { s.reset with lastSsrc := x.ssrc, samples := [(seq, x)] }

/-- the tail of `push`: evict the lowest key when full, insert -/
def St.store (s : St) (seq : Nat) (x : Smp) : St :=
  let l := if s.samples.length ≥ s.cap then s.samples.tail else s.samples
  { s with samples := ins seq x l }

/-- `push` after the duplicate / sequence-gap tests: timestamp discontinuity, talkspurt marker, store -/
def St.afterSeq (s : St) (seq : Nat) (x : Smp) (clock : Nat) : St :=
  match s.lastTs with
  | none => s.store seq x
  | some lts =>
    let maxJump := if x.video then 90000 * c07JitterVideoTsJumpSecs else min (clock * c07JitterAudioTsJumpSecs) 4294967295
    let d := (x.ts + 4294967296 - lts) % 4294967296
    if d > maxJump && d < halfU32 then s.restart seq x
    else if d > halfU32 && (lts + 4294967296 - x.ts) % 4294967296 > maxJump then s.restart seq x
    else
      let s := if x.marker && d > clock / 2 && d < halfU32 && !s.samples.isEmpty then { s with samples := [] } else s
      s.store seq x

/-- audio: `clock_rate` (8000 when 0); video: 90000 -/
def Smp.clockRate (x : Smp) : Nat := if x.video then 90000 else if x.clock == 0 then 8000 else x.clock

/-- `prev != ssrc` with both present -/
def St.ssrcChanged (s : St) (x : Smp) : Bool :=
  match x.ssrc, s.lastSsrc with
  | some a, some p => p != a
  | _, _ => false

/-- first sample with an SSRC: remember it -/
def St.noteSsrc (s : St) (x : Smp) : St :=
  match x.ssrc, s.lastSsrc with
  | some a, none => { s with lastSsrc := some a }
  | _, _ => s

def St.push (s : St) (x : Smp) : St :=
  match x.seq with
  | none => s
  | some seq =>
    if s.ssrcChanged x then s.restart seq x          -- SSRC change → hard reset
    else
      match (s.noteSsrc x).lastSeq with
      | some last =>
        if !isNewer seq last then s.noteSsrc x        -- duplicate / late
        else if (seq + 65536 - last) % 65536 > maxSeqGap && (seq + 65536 - last) % 65536 < 32768 then
          (s.noteSsrc x).restart seq x                -- large forward jump → stream restart
        else (s.noteSsrc x).afterSeq seq x x.clockRate
      | none => (s.noteSsrc x).afterSeq seq x x.clockRate

/-- `get_first_seq` -/
def St.firstSeq (s : St) : Option Nat :=
  match s.samples with
  | [] => none
  | (k0, _) :: _ =>
    match s.lastSeq with
    | none =>
      let kn := (s.samples.getLast?.map Prod.fst).getD k0
      if isNewer k0 kn then some kn else some k0
    | some l =>
      let ne := (l + 1) % 65536
      if ne > l then
        match s.samples.find? (fun e => e.1 ≥ ne) with
        | some e => some e.1
        | none => some k0
      else some k0

/-- `first_seq == last.wrapping_add(1)` (true before the first delivery) -/
def St.isNext (s : St) (f : Nat) : Bool :=
  match s.lastSeq with
  | some l => f == (l + 1) % 65536
  | none => true

/-- remove key `f` and record it as delivered -/
def St.take (s : St) (f : Nat) : St × Option Smp :=
  match s.samples.find? (fun e => e.1 == f) with
  | some e => ({ s with samples := s.samples.filter (fun e => e.1 != f), lastSeq := some f, lastTs := some e.2.ts }, some e.2)
  | none => (s, none)

/-- `pop` with `min_delay = 0`; `aged` = head sample older than `max_delay` -/
def St.pop (s : St) (aged : Bool) : St × Option Smp :=
  match s.firstSeq with
  | none => (s, none)
  | some f => if s.isNext f || aged then s.take f else (s, none)

inductive Op where
  | push (x : Smp)
  | pop (aged : Bool)
  | reset

def St.step (s : St) : Op → St
  | .push x => s.push x
  | .pop a => (s.pop a).1
  | .reset => s.reset

def run (s : St) (ops : List Op) : St := ops.foldl St.step s

/-- the bound the buffer keeps: `capacity` samples (one when the capacity is 0: `pop_first` on the empty map is a no-op) -/
def St.Bounded (s : St) : Prop := s.samples.length ≤ max s.cap 1

/-- the harness' end-of-case measurement with `max_delay = 0`: pop until nothing is delivered (ids in delivery order) -/
def St.drain (s : St) : Nat → List Nat → St × List Nat
  | 0, acc => (s, acc.reverse)
  | n + 1, acc =>
    match s.pop true with
    | (s', some x) => St.drain s' n (x.id :: acc)
    | (s', none) => (s', acc.reverse)

/-! ### text interface for the correspondence driver -/
def optS : Option Nat → String
  | none => "-"
  | some n => toString n

/-- what the public API shows after an operation: `is_empty`, `last_ssrc`, `awaiting_next`, class of `next_pop_wait`
(`n` none, `z` zero, `p` positive) -/
def St.obs (s : St) (aged : Bool) : String :=
  let w := match s.firstSeq with
    | none => "n"
    | some f => if s.isNext f || aged then "z" else "p"
  s!"/{if s.samples.isEmpty then 1 else 0}/{optS s.lastSsrc}/{if s.lastSeq.isSome && s.samples.isEmpty then 1 else 0}/{w}"

end RtcModel.Jitter
