/-
The concrete cipher suite used by the driver: AES-128-CTR keystream, HMAC-SHA1, AES-128-GCM,
all executable Lean (RtcModel/Base/C04*.lean). The law fields are *proved* for these functions,
so every theorem stated over an arbitrary `Suite` applies to the model the driver runs.
-/
import RtcModel.Srtp
import RtcModel.Base.C04Aes
import RtcModel.Base.C04Sha1
import RtcModel.Base.C04Gcm
namespace RtcModel.Srtp
open RtcModel.C04

def concreteSuite : Suite where
  ks := Aes.keystream
  ks_len := Aes.keystream_length
  mac := Sha1.hmac
  mac_len := by intro k d; simp [Sha1.hmac_length]
  aeadSeal := Gcm.gcmSeal
  aeadOpen := Gcm.gcmOpen
  seal_len := by intro k n a p; simp [Gcm.gcmSeal_length]
  open_seal := Gcm.gcmOpen_gcmSeal
  open_len := by intro k n a c p h; simpa using Gcm.gcmOpen_length k n a c p h

end RtcModel.Srtp
