/-
Model of the negotiation decision logic of `src/peer_connection.rs` (+ the use_srtp part of
`src/transports/dtls/mod.rs`) that property C10 rests on.  Core Lean only (linked into `rtcdrv`).

Modelled, block by block, as the code has it:
* `set_remote_description` role derivation (first `a=setup` attribute with a value, `match val.as_str()`
  table, direct modes ⇒ `Some(true)`, "first value wins" on the `dtls_role` watch);
* `populate_media_capabilities`: the `a=setup` value written into a local offer / answer / pranswer;
* `create_data_channel`: stream-id allocation by role;
* DTLS use_srtp: ClientHello profile list, server selection, ServerHello extension, client parse;
* `setup_srtp`: profile table, key/salt lengths, split of the exported keying material by role;
* `setup_sdes`: suite table, key/salt lengths, split of the two `inline:` key strings;
* `build_description` / `configure_rtp_media_transports_from_remote` transport-plan decisions for the
  direct modes (will_bundle, rtcp-mux offer/answer, which local sockets are advertised, which of them get
  a packet receiver, which remote port each side sends to).
-/
import RtcModel.Generated.Consts

namespace RtcModel.Negotiate
open RtcModel.Generated

/-! ## Roles -/

inductive Mode | webrtc | srtp | rtp
deriving DecidableEq, Repr, Inhabited

/-- An SDP attribute as `Attribute { key, value }`. -/
structure Attr where
  key : String
  value : Option String
deriving DecidableEq, Repr

/-- `match val.as_str() { "active" => false, "passive" => true, "actpass" => false, _ => true }`
(`set_remote_description`). -/
def isClientOfRemoteSetup (v : String) : Bool :=
  if v = "active" then false
  else if v = "passive" then true
  else if v = "actpass" then false
  else true

/-- inner `for attr in &section.attributes`: first attribute with key `setup` **and** a value. -/
def firstSetupInSection : List Attr → Option String
  | [] => none
  | a :: rest =>
    if a.key = "setup" then
      match a.value with
      | some v => some v
      | none => firstSetupInSection rest
    else firstSetupInSection rest

/-- outer `for section in &desc.media_sections` with the `break` on the first hit. -/
def firstSetup : List (List Attr) → Option String
  | [] => none
  | s :: rest =>
    match firstSetupInSection s with
    | some v => some v
    | none => firstSetup rest

/-- The role block of `set_remote_description` (as changed by the SDP fixes "the DTLS role follows a later
description until the DTLS transport exists" and "… derived from a session-level a=setup when no media
section carries one"): once a role is set **and** the DTLS transport exists (`started`) it stays; until then
every description re-derives it — direct modes are always client, WebRTC reads the first media-level
`a=setup` that has a value, else the session-level one; a description without any keeps the role. -/
def roleAfterRemoteFull (mode : Mode) (cur : Option Bool) (started : Bool) (sections : List (List Attr))
    (sessionSetup : Option String) : Option Bool :=
  if cur.isSome && started then cur
  else
    let new : Option Bool :=
      if mode = .rtp ∨ mode = .srtp then some true
      else ((firstSetup sections).orElse fun _ => sessionSetup).map isClientOfRemoteSetup
    match new with
    | some r => some r
    | none => cur

/-- … during the offer/answer exchange (no DTLS transport yet, descriptions built by rustrtc carry
`a=setup` at media level only) -/
def roleAfterRemote (mode : Mode) (cur : Option Bool) (sections : List (List Attr)) : Option Bool :=
  roleAfterRemoteFull mode cur false sections none

inductive SdpType | offer | answer | pranswer
deriving DecidableEq, Repr

/-- `populate_media_capabilities`: `setup_value`. -/
def localSetup (t : SdpType) (role : Option Bool) : String :=
  match t with
  | .offer => "actpass"
  | .answer =>
    match role with
    | some true => "active"
    | some false => "passive"
    | none => "active"
  | .pranswer => "actpass"

/-- The attributes relevant here of one locally built media section (WebRTC mode adds
`fingerprint` + `setup`; the direct modes add neither). -/
def localSectionAttrs (mode : Mode) (t : SdpType) (role : Option Bool) : List Attr :=
  if mode = .webrtc then
    [⟨"fingerprint", some "sha-256 X"⟩, ⟨"setup", some (localSetup t role)⟩]
  else []

/-- A locally built description with `n` media sections. -/
def localDesc (mode : Mode) (t : SdpType) (role : Option Bool) (n : Nat) : List (List Attr) :=
  List.replicate n (localSectionAttrs mode t role)

structure Ep where
  mode : Mode
  role : Option Bool
deriving DecidableEq, Repr

def Ep.setRemote (e : Ep) (sections : List (List Attr)) : Ep :=
  { e with role := roleAfterRemote e.mode e.role sections }

/-- One complete offer/answer exchange with `n` media sections: `(offerer', answerer')`. -/
def exchange (o a : Ep) (n : Nat) : Ep × Ep :=
  let offer := localDesc o.mode .offer o.role n
  let a' := a.setRemote offer
  let answer := localDesc a'.mode .answer a'.role n
  let o' := o.setRemote answer
  (o', a')

/-- The answerer's part against an arbitrary (possibly foreign) offer, then the offerer applying the
rustrtc-built answer. -/
def exchangeForeignOffer (o a : Ep) (offer : List (List Attr)) (n : Nat) : Ep × Ep :=
  let a' := a.setRemote offer
  let answer := localDesc a'.mode .answer a'.role n
  let o' := o.setRemote answer
  (o', a')

/-- A history of exchanges; `true` = the first endpoint offers. -/
def exchanges (x y : Ep) : List (Bool × Nat) → Ep × Ep
  | [] => (x, y)
  | (xOffers, n) :: rest =>
    if xOffers then
      let r := exchange x y n
      exchanges r.1 r.2 rest
    else
      let r := exchange y x n
      exchanges r.2 r.1 rest

/-! ## Data-channel stream ids (`create_data_channel`) -/

/-- `offset = if is_client {0} else {1}`; `dtls_role.borrow().unwrap_or(true)`. -/
def dcOffset (role : Option Bool) : Nat :=
  if role.getD true then dcIdOffsetClient else dcIdOffsetServer

/-- The `loop { … id += 2 }`: first id `offset + 2k` not in `used` (fuel = `used.length + 1` suffices). -/
def dcAllocFrom (used : List Nat) (id : Nat) : Nat → Nat
  | 0 => id
  | fuel + 1 => if used.contains id then dcAllocFrom used (id + dcIdStep) fuel else id

def dcAlloc (role : Option Bool) (used : List Nat) : Nat :=
  dcAllocFrom used (dcOffset role) (used.length + 1)

/-! ## DTLS use_srtp negotiation -/

/-- profiles in the ClientHello built by `get_client_hello_extensions` -/
def clientProfiles : List Nat := [dtlsClientSrtpProfile0, dtlsClientSrtpProfile1]

def be16 (n : Nat) : List UInt8 := [UInt8.ofNat (n / 256), UInt8.ofNat (n % 256)]

/-- `extension_data` of the client's use_srtp extension: list length, profiles, MKI length. -/
def clientUseSrtpExt (l : List Nat) : List UInt8 :=
  be16 (2 * l.length) ++ l.flatMap be16 ++ [0]

/-- server: `while idx < 2 + len && idx + 1 < ext.len() { push(be16 at idx); idx += 2 }`
over the bytes after the 2-byte length; `remaining` = `2 + len - idx` still allowed. -/
def parseProfilesAux : Nat → List UInt8 → List Nat
  | 0, _ => []
  | _, [] => []
  | _, [_] => []
  | budget + 1, hi :: lo :: rest =>
    (hi.toNat * 256 + lo.toNat) :: parseProfilesAux (budget - 1) rest

/-- server side parse of the client's use_srtp `extension_data`. `idx < 2 + len` with idx = 2,4,… is
`consumed < len`; one step consumes 2, so the budget (in bytes) decreases by 2 per profile. -/
def serverParseProfiles (ext : List UInt8) : List Nat :=
  match ext with
  | l0 :: l1 :: rest => parseProfilesAux (l0.toNat * 256 + l1.toNat) rest
  | _ => []

/-- `if srtp_profiles.contains(&0x0001) {0x0001} else {srtp_profiles[0]}` guarded by non-empty. -/
def serverSelect (l : List Nat) : Option Nat :=
  match l with
  | [] => none
  | first :: _ =>
    if l.contains dtlsServerPreferredProfile then some dtlsServerPreferredProfileSel else some first

/-- `extension_data` of the server's use_srtp extension: `00 02 <profile> 00`. -/
def serverUseSrtpExt (sel : Nat) : List UInt8 := [0, 2] ++ be16 sel ++ [0]

/-- client: `if ext_data.len() >= 5 { profile = be16(ext_data[2..4]) }`. -/
def clientParseSelected (ext : List UInt8) : Option Nat :=
  if ext.length ≥ dtlsClientParseMinLen then
    match ext with
    | _ :: _ :: hi :: lo :: _ => some (hi.toNat * 256 + lo.toNat)
    | _ => none
  else none

/-! ## `setup_srtp` -/

inductive Profile | aes80 | aes32 | gcm | null
deriving DecidableEq, Repr, Inhabited

/-- `match profile_opt { Some(0x0001) => …80, Some(0x0002) => …32, Some(0x0007) => Gcm, _ => …80 }` -/
def profileOfId (p : Option Nat) : Profile :=
  match p with
  | none => .aes80
  | some id =>
    if id = srtpIdAes80 then .aes80
    else if id = srtpIdAes32 then .aes32
    else if id = srtpIdGcm then .gcm
    else .aes80

def keyLen : Profile → Nat
  | .gcm => srtpKeyLenGcm
  | _ => srtpKeyLenDefault

def saltLen : Profile → Nat
  | .gcm => c10SrtpSaltLenGcm
  | _ => srtpSaltLenDefault

def totalLen (p : Profile) : Nat := 2 * (keyLen p + saltLen p)

structure Keys where
  txKey : List UInt8
  txSalt : List UInt8
  rxKey : List UInt8
  rxSalt : List UInt8
deriving DecidableEq, Repr

/-- `mat[a..b]` for `a ≤ b ≤ len` (the code's slices; a shorter `mat` panics in Rust — see `matOk`). -/
def slice (m : List UInt8) (a b : Nat) : List UInt8 := (m.drop a).take (b - a)

/-- The slicing of `setup_srtp` does not panic iff the material has (at least) the requested length;
`export_keying_material(label, total_len)` returns exactly `total_len` bytes. -/
def matOk (p : Profile) (mat : List UInt8) : Prop := mat.length = totalLen p

instance (p : Profile) (mat : List UInt8) : Decidable (matOk p mat) := by
  unfold matOk; infer_instance

/-- client_key / server_key / client_salt / server_salt, then tx/rx by role. -/
def splitKeys (p : Profile) (isClient : Bool) (mat : List UInt8) : Keys :=
  let k := keyLen p
  let s := saltLen p
  let clientKey := slice mat 0 k
  let serverKey := slice mat k (2 * k)
  let clientSalt := slice mat (2 * k) (2 * k + s)
  let serverSalt := mat.drop (2 * k + s)
  if isClient then ⟨clientKey, clientSalt, serverKey, serverSalt⟩
  else ⟨serverKey, serverSalt, clientKey, clientSalt⟩

/-- `setup_srtp` with the DTLS exporter as a parameter (`exporter n` = the first `n` exporter bytes). -/
def setupSrtp (profileOpt : Option Nat) (isClient : Bool) (exporter : Nat → List UInt8) : Profile × Keys :=
  let p := profileOfId profileOpt
  (p, splitKeys p isClient (exporter (totalLen p)))

/-! ## `setup_sdes` -/

/-- `map_crypto_suite` -/
def mapCryptoSuite (s : String) : Option Profile :=
  if s = "AES_CM_128_HMAC_SHA1_80" then some .aes80
  else if s = "AES_CM_128_HMAC_SHA1_32" then some .aes32
  else if s = "AEAD_AES_128_GCM" then some .gcm
  else none

def sdesLens : Profile → Nat × Nat
  | .aes80 | .aes32 => (sdesKeyLenAes, sdesSaltLenAes)
  | .gcm => (sdesKeyLenGcm, sdesSaltLenGcm)
  | .null => (sdesKeyLenDefault, sdesSaltLenDefault)

inductive SdesErr | unsupportedSuite | suiteMismatch | invalidKeyLength
deriving DecidableEq, Repr

/-- `setup_sdes` after the crypto attributes were found: suites, then decoded `inline:` key‖salt. -/
def setupSdes (remoteSuite localSuite : String) (remoteKS localKS : List UInt8) :
    Except SdesErr (Profile × Keys) :=
  match mapCryptoSuite remoteSuite with
  | none => .error .unsupportedSuite
  | some p =>
    match mapCryptoSuite localSuite with
    | none => .error .unsupportedSuite
    | some pl =>
      if p ≠ pl then .error .suiteMismatch
      else
        let (k, s) := sdesLens p
        if remoteKS.length < k + s ∨ localKS.length < k + s then .error .invalidKeyLength
        else .ok (p, ⟨slice localKS 0 k, slice localKS k (k + s), slice remoteKS 0 k, slice remoteKS k (k + s)⟩)

/-- `build_description` (Srtp mode): suite written into the local `a=crypto` line. -/
def localSdesSuite (t : SdpType) (remoteSuites : List String) : String :=
  match t with
  | .answer =>
    match remoteSuites.find? (fun s => (mapCryptoSuite s).isSome) with
    | some s => s
    | none => "AES_CM_128_HMAC_SHA1_80"
  | _ => "AES_CM_128_HMAC_SHA1_80"

/-! ## Transport plan of the direct modes -/

/-- `will_bundle` in `build_description`. -/
def willBundle (legacySip : Bool) (t : SdpType) (nSections : Nat) (remoteOfferedBundle : Bool) : Bool :=
  !legacySip && (match t with
    | .offer => decide (nSections > 1)
    | .answer => remoteOfferedBundle
    | .pranswer => false)

/-- `local_offers_rtcp_mux` = `apply_config` pushing `a=rtcp-mux`. -/
def localOffersMux (muxRequire legacySip : Bool) : Bool := muxRequire && !legacySip

/-- is `a=rtcp-mux` present in the locally built section? (`apply_config`, then the answer's `retain`) -/
def sectionHasMux (muxRequire legacySip : Bool) (t : SdpType) (remoteOfferedMux : Bool) : Bool :=
  match t with
  | .answer => localOffersMux muxRequire legacySip && remoteOfferedMux
  | _ => localOffersMux muxRequire legacySip

/-- `needs_rtcp` passed to `setup_direct_rtp_offer_with_rtcp`. -/
def needsRtcpSocket (muxRequire legacySip : Bool) (t : SdpType) (remoteOfferedMux : Bool) : Bool :=
  match t with
  | .answer => !remoteOfferedMux
  | _ => !localOffersMux muxRequire legacySip

/-- index of the local socket (ICE transport) whose port section `i` advertises: section 0 and all
bundled sections use the primary transport (socket 0), every other section its own (`i`). -/
def advertisedSocket (bundle : Bool) (i : Nat) : Nat := if !bundle && i > 0 then i else 0

/-- local sockets that get a packet receiver (`set_data_receiver` + `IceConn`): the primary one always;
in Rtp mode also one per non-bundled further section (`configure_rtp_media_transports_from_remote`),
in Srtp mode none (that function runs only in Rtp mode). -/
def socketServed (mode : Mode) (bundle : Bool) (nSections : Nat) (sock : Nat) : Bool :=
  sock == 0 || (mode == .rtp && !bundle && decide (sock < nSections))

/-- index of the *remote* section whose `c=`/port section `i`'s media is sent to.
Rtp: bundle → the bundle-tag (first) section, else section `i`.
Srtp: `remote_addr` is overwritten in the section loop, so the last section's address is used for the
single transport (`start_direct`). -/
def sendTargetSection (mode : Mode) (remoteBundle : Bool) (nSections : Nat) (i : Nat) : Nat :=
  match mode with
  | .rtp => if remoteBundle then 0 else i
  | _ => nSections - 1

/-- "Section `i`'s media reaches a receiver at the peer": the remote socket advertised by the targeted
remote section is served at the peer (both ends have the same mode / bundle decision / section count). -/
def sectionDelivered (mode : Mode) (bundle : Bool) (nSections i : Nat) : Bool :=
  socketServed mode bundle nSections (advertisedSocket bundle (sendTargetSection mode bundle nSections i))
  -- and the packets arrive on the socket that section `i`'s receiver listens on
  && (advertisedSocket bundle (sendTargetSection mode bundle nSections i) == advertisedSocket bundle i)

/-- `remote_rtcp_addr_from_media_section` on ports: `None` = multiplexed. -/
def remoteRtcpPort (hasMux : Bool) (explicitRtcp : Option Nat) (rtpPort : Nat) : Option Nat :=
  if hasMux then none
  else match explicitRtcp with
    | some p => some p
    | none => if rtpPort + 1 ≤ 65535 then some (rtpPort + 1) else none

end RtcModel.Negotiate
