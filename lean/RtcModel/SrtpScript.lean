/-
Script interpreter over the SRTP session model: the harness writes one case per line (sessions,
a clock, protect / unprotect operations with back-references to earlier outputs and byte-level
mutations of them); the driver answers with one canonical result per operation.
Shared by the C04 and C05 drivers.
-/
import RtcModel.SrtpConcrete
import RtcModel.Drv.Util
namespace RtcModel.Srtp.Script
open RtcModel.C04 RtcModel.Srtp RtcModel.Drv

structure World where
  sess : Array Sess := #[]
  now : Nat := 0
  slots : Array Bytes := #[]

def showErr : Err → String
  | .unsupportedProfile => "e:prof"
  | .tooShort => "e:short"
  | .authFailed => "e:auth"
  | .internal => "e:int"

def showParseErr : ParseErr → String
  | .tooShort => "pe:short"
  | .version _ => "pe:ver"

/-- short byte strings in hex, long ones as `#len:first 8 bytes of SHA-1` -/
def showBytes (bs : Bytes) : String :=
  if bs.length ≤ 48 then hex bs else s!"#{bs.length}:{hex ((Sha1.sha1 bs).take 8)}"

def parseProfile : String → Option Profile
  | "cm80" => some .cm80
  | "cm32" => some .cm32
  | "gcm" => some .gcm
  | "null" => some .null
  | _ => none

/-- `g<len>:<a>` = the pattern `a + 13·i + i/256`, otherwise hex / `-` -/
def parsePayload (s : String) : Option Bytes :=
  if s.startsWith "g" then
    match (s.drop 1).toString.splitOn ":" with
    | [l, a] => do
      let l ← l.toNat?
      let a ← a.toNat?
      some ((List.range l).map (fun i => byteOf (a + 13 * i + i / 256)))
    | _ => none
  else unhex s

def u32sOf : Bytes → List Nat
  | a :: b :: c :: d :: rest => dec32 a b c d :: u32sOf rest
  | _ => []

def parseExtSpec (s : String) : Option (Option Ext) :=
  if s = "-" then some none else
  match s.splitOn ":" with
  | [p, d] => do some (some ⟨← p.toNat?, ← unhex d⟩)
  | _ => none

/-- `m,pt,seq,ts,ssrc,csrcs,ext,payload,pad` -/
def parsePkt : List String → Option Pkt
  | [m, pt, seq, ts, ssrc, csrcs, ext, payload, pad] => do
    let h : Hdr := ⟨m = "1", UInt8.ofNat (← pt.toNat?), ← seq.toNat?, ← ts.toNat?, ← ssrc.toNat?,
      u32sOf (← unhex csrcs), ← parseExtSpec ext⟩
    some ⟨h, ← parsePayload payload, ← pad.toNat?⟩
  | _ => none

def setAt (bs : Bytes) (i : Nat) (v : Bytes) : Bytes :=
  if i + v.length ≤ bs.length then bs.take i ++ v ++ bs.drop (i + v.length) else bs

/-- byte-level mutations of an earlier output -/
def mutate (bs : Bytes) (m : String) : Option Bytes :=
  let arg := (m.drop 1).toString
  if m.startsWith "f" then do
    let i ← arg.toNat?
    some (xorAt bs (i / 8) ((0x80 : UInt8) >>> UInt8.ofNat (i % 8)))
  else if m.startsWith "t" then do some (bs.take (← arg.toNat?))
  else if m.startsWith "q" then do some (setAt bs 2 (be16 (← arg.toNat?)))
  else if m.startsWith "s" then do some (setAt bs 8 (be32 (← arg.toNat?)))
  else if m.startsWith "c" then do some (setAt bs 4 (be32 (← arg.toNat?)))
  else if m.startsWith "a" then do some (bs ++ (← unhex arg))
  else if m.startsWith "x" then
    match arg.splitOn ":" with
    | [p, v] => do some (xorAt bs (← p.toNat?) (UInt8.ofNat (← v.toNat?)))
    | _ => none
  else none

def insertBySsrc (c : Ctx) : List Ctx → List Ctx
  | [] => [c]
  | x :: xs => if c.ssrc ≤ x.ssrc then c :: x :: xs else x :: insertBySsrc c xs

def showTable (t : List Ctx) : String :=
  let sorted := t.foldl (fun acc c => insertBySsrc c acc) []
  ";".intercalate (sorted.map fun c =>
    s!"{c.ssrc}:{c.roc}:{match c.last with | none => "-" | some l => toString l}:{c.rtcpIndex}")

def showSess (s : Sess) : String := s!"rx[{showTable s.rx}]tx[{showTable s.tx}]"

def S := concreteSuite

/-- SRTCP as an RFC 3711 / RFC 7714 sender with a free E flag and index would produce it
(`E = 0`: payload in clear, still authenticated; the NULL cipher is the identity either way) -/
def extRtcp (c : Ctx) (pkt : Bytes) (index : Nat) (e : Bool) : Bytes :=
  let idx := index % 2147483648
  let word := idx + (if e then 2147483648 else 0)
  if c.profile = .gcm then
    pkt.take 8 ++ S.aeadSeal c.rtcp.ck (gcmRtcpNonce c.rtcp.salt c.ssrc idx) (pkt.take 8 ++ be32 word) (pkt.drop 8) ++ be32 word
  else
    let enc := if e ∧ c.encrypts ∧ pkt.length > 8 then rtcpCipher S c idx pkt else pkt
    enc ++ be32 word ++ rtcpTag S c (enc ++ be32 word)

def showRtpResult : Except (ParseErr ⊕ Err) Pkt → String
  | .ok p => "ok:" ++ showBytes p.marshal
  | .error (.inl e) => showParseErr e
  | .error (.inr e) => showErr e

def showBytesResult : Except Err Bytes → String
  | .ok b => "ok:" ++ showBytes b
  | .error e => showErr e

/-- bytes an unprotect operation works on: literal, slot, or mutated slot -/
def inputBytes (w : World) : List String → Option Bytes
  | ["l", hx] => unhex hx
  | ["k", k] => do w.slots[← k.toNat?]?
  | ["m", k, m] => do mutate (← w.slots[← k.toNat?]?) m
  | _ => none

/-- one operation; `none` = malformed token -/
def step (w : World) (tok : String) : Option (World × String) :=
  match fields tok with
  | ["n", prof, a, b, c, d] => do
    let s := Sess.new (← parseProfile prof) (← unhex a) (← unhex b) (← unhex c) (← unhex d)
    some ({ w with sess := w.sess.push s }, "ok")
  | ["t", secs] => do some ({ w with now := w.now + (← secs.toNat?) }, "-")
  | "pr" :: si :: rest => do
    let i ← si.toNat?
    let s ← w.sess[i]?
    let p ← parsePkt rest
    let (r, s') := s.protectRtp S w.now p
    let out := match r with | .ok b => b | .error _ => []
    some ({ w with sess := w.sess.set! i s', slots := w.slots.push out },
      match r with | .ok b => showBytes b | .error e => showErr e)
  | "ur" :: si :: src => do
    let i ← si.toNat?
    let s ← w.sess[i]?
    let raw ← inputBytes w src
    let (r, s') := s.receiveRtp S w.now raw
    some ({ w with sess := w.sess.set! i s' }, showRtpResult r)
  | "pc" :: si :: src => do
    let i ← si.toNat?
    let s ← w.sess[i]?
    let raw ← inputBytes w src
    let (r, s') := s.protectRtcp S w.now raw
    let out := match r with | .ok b => b | .error _ => []
    some ({ w with sess := w.sess.set! i s', slots := w.slots.push out },
      match r with | .ok b => showBytes b | .error e => showErr e)
  | "uc" :: si :: src => do
    let i ← si.toNat?
    let s ← w.sess[i]?
    let raw ← inputBytes w src
    let (r, s') := s.unprotectRtcp S w.now raw
    some ({ w with sess := w.sess.set! i s' }, showBytesResult r)
  | "xr" :: si :: roc :: rest => do
    -- an independent sender with session `si`'s transmit keys, at rollover count `roc`
    let s ← w.sess[← si.toNat?]?
    let roc ← roc.toNat?
    let p ← parsePkt rest
    match Ctx.new S p.hdr.ssrc s.profile s.txMk s.txMs 0 with
    | .error e => some ({ w with slots := w.slots.push [] }, showErr e)
    | .ok c =>
      match ({ c with roc := roc, last := some p.hdr.seq } : Ctx).protectRtp S p with
      | (.ok b, _) => some ({ w with slots := w.slots.push b }, showBytes b)
      | (.error e, _) => some ({ w with slots := w.slots.push [] }, showErr e)
  | ["xp", si, roc, hx] => do
    -- raw plaintext RTP (the P bit may disagree with the padding), independent sender at `roc`
    let s ← w.sess[← si.toNat?]?
    let roc ← roc.toNat?
    let plain ← unhex hx
    match parseHdr plain with
    | .error _ => some ({ w with slots := w.slots.push [] }, showErr .internal)
    | .ok (h, p, body) =>
      match Ctx.new S h.ssrc s.profile s.txMk s.txMs 0 with
      | .error _ => some ({ w with slots := w.slots.push [] }, showErr .internal)
      | .ok c =>
        let hb := writeHdr h p
        let b := if c.profile = Profile.gcm then hb ++ S.aeadSeal c.rtp.ck (gcmNonce c.rtp.salt c.ssrc h.seq roc) hb body
          else hb ++ cmBody S c h.seq roc body ++ rtpTag S c hb (cmBody S c h.seq roc body) roc
        some ({ w with slots := w.slots.push b }, showBytes b)
  | ["xc", si, e, idx, hx] => do
    let s ← w.sess[← si.toNat?]?
    let idx ← idx.toNat?
    let pkt ← unhex hx
    if pkt.length < 8 then some ({ w with slots := w.slots.push [] }, showErr .tooShort) else
    match Ctx.new S (ssrcOfRtcp pkt) s.profile s.txMk s.txMs 0 with
    | .error er => some ({ w with slots := w.slots.push [] }, showErr er)
    | .ok c =>
      let b := extRtcp c pkt idx (e = "1")
      some ({ w with slots := w.slots.push b }, showBytes b)
  | ["st", si, dir, ssrc, roc, last, idx] => do
    let i ← si.toNat?
    let s ← w.sess[i]?
    let ssrc ← ssrc.toNat?
    let roc ← roc.toNat?
    let idx ← idx.toNat?
    let last ← (if last = "-" then some none else last.toNat?.map some)
    let upd (t : List Ctx) : List Ctx × Bool :=
      match lookup t ssrc with
      | some c => (replace t { c with roc := roc, last := last, rtcpIndex := idx }, true)
      | none => (t, false)
    if dir = "t" then
      let (t, ok) := upd s.tx
      some ({ w with sess := w.sess.set! i { s with tx := t } }, b01 ok)
    else
      let (t, ok) := upd s.rx
      some ({ w with sess := w.sess.set! i { s with rx := t } }, b01 ok)
  | ["fl", si, ri, first, count] => do
    -- `count` streams (SSRC first, first+1, …) send one packet each from session `si` to session `ri`
    let i ← si.toNat?
    let j ← ri.toNat?
    let first ← first.toNat?
    let count ← count.toNat?
    let s0 ← w.sess[i]?
    let r0 ← w.sess[j]?
    let step (st : Sess × Sess × Nat) (k : Nat) : Sess × Sess × Nat :=
      let (s, r, acc) := st
      let p : Pkt := ⟨⟨false, 96, 1, 0, first + k, [], none⟩, [byteOf k], 0⟩
      let (res, s') := s.protectRtp S w.now p
      match res with
      | .error _ => (s', r, acc)
      | .ok wire =>
        let (rr, r') := r.receiveRtp S w.now wire
        (s', r', acc + (match rr with | .ok _ => 1 | .error _ => 0))
    let (s', r', acc) := (List.range count).foldl step (s0, r0, 0)
    some ({ w with sess := (w.sess.set! i s').set! j r' }, s!"ok{acc}")
  | ["sn", si] => do
    let s ← w.sess[← si.toNat?]?
    some (w, showSess s)
  | _ => none

def runScript (toks : List String) : String :=
  let rec go (w : World) (toks : List String) (acc : List String) : List String :=
    match toks with
    | [] => acc.reverse
    | t :: rest =>
      match step w t with
      | none => ("bad-op" :: acc).reverse
      | some (w', out) => go w' rest (out :: acc)
  " ".intercalate (go {} toks [])

end RtcModel.Srtp.Script
