import RtcModel.Generated.Consts
/-
C19 (first half) — model of the inbound RTP demultiplexer of `RtpTransport`
(`src/transports/rtp.rs`): `ListenerRegistry` (by-SSRC / by-RID / by-MID maps, payload-type /
provisional routes, pruning of closed channels), the registration API and the selection block of
`PacketReceiver::receive` (RID > MID > SSRC > unique payload type > single provisional listener,
SSRC binding learnt from routed packets, removal of a listener whose channel is closed).
Core Lean only.

Channels are identified by a listener id `Lid` (`Sender::same_channel`); a channel whose receiver
has been dropped (`Sender::is_closed`) is in `closed`.  Hash maps are association lists with unique
keys (the driver prints them sorted).  `String` keys are byte strings; the packet side goes through
`std::str::from_utf8` exactly as the code does (`utf8Valid`).
A full listener channel (`TrySendError::Full`: the packet is dropped, nothing else happens) is not
modelled; the harness drains the channels after every packet.
-/
namespace RtcModel.Demux
open RtcModel.Generated

abbrev Lid := Nat
abbrev Bytes := List UInt8

/-! ### association lists standing in for `HashMap` -/

def lookup {α : Type} [DecidableEq α] (k : α) : List (α × Lid) → Option Lid
  | [] => none
  | (k', v) :: r => if k' = k then some v else lookup k r

/-- `HashMap::insert` -/
def insert {α : Type} [DecidableEq α] (k : α) (v : Lid) (m : List (α × Lid)) : List (α × Lid) :=
  (k, v) :: m.filter (fun e => e.1 ≠ k)

/-- `HashMap::remove` -/
def remove {α : Type} [DecidableEq α] (k : α) (m : List (α × Lid)) : List (α × Lid) :=
  m.filter (fun e => e.1 ≠ k)

/-- `retain(|_, tx| !tx.is_closed())` -/
def retainOpen {α : Type} (closed : List Lid) (m : List (α × Lid)) : List (α × Lid) :=
  m.filter (fun e => !closed.contains e.2)

/-- `retain(|_, tx| !tx.same_channel(l))` -/
def dropLid {α : Type} (l : Lid) (m : List (α × Lid)) : List (α × Lid) :=
  m.filter (fun e => e.2 ≠ l)

/-! ### registry -/

structure Route where
  mid         : Option Bytes
  pts         : List Nat
  lid         : Lid
  provisional : Bool
deriving DecidableEq, Repr

structure Reg where
  bySsrc : List (Nat × Lid)
  byRid  : List (Bytes × Lid)
  byMid  : List (Bytes × Lid)
  routes : List Route
  closed : List Lid
  ridExt : Nat           -- `rid_extension_id` (0 = none)
  midExt : Nat           -- `sdes_mid_extension_id` (0 = none)
  /-- `ssrc_sweep_at`: size of `by_ssrc` at which the next packet-learnt binding sweeps closed senders
  (`Default` = 0, so the very first packet-learnt binding sweeps) -/
  sweepAt : Nat := 0
deriving DecidableEq, Repr

def Reg.empty : Reg :=
  { bySsrc := [], byRid := [], byMid := [], routes := [], closed := [], ridExt := 0, midExt := 0, sweepAt := 0 }

def Reg.isClosed (r : Reg) (l : Lid) : Bool := r.closed.contains l

/-- `ListenerRegistry::route_for_sender_mut`: the routes after making sure `l` has a route
(existing route kept in place; otherwise stale routes are pruned and a fresh one is pushed) -/
def ensureRoute (r : Reg) (l : Lid) : List Route :=
  if r.routes.any (fun rt => rt.lid = l) then r.routes
  else r.routes.filter (fun rt => !r.closed.contains rt.lid) ++
       [{ mid := none, pts := [], lid := l, provisional := false }]

/-- apply `f` to the first route of `l` (the one `route_for_sender_mut` returns) -/
def updFirst (l : Lid) (f : Route → Route) : List Route → List Route
  | [] => []
  | rt :: rest => if rt.lid = l then f rt :: rest else rt :: updFirst l f rest

def withRoute (r : Reg) (l : Lid) (f : Route → Route) : Reg :=
  { r with routes := updFirst l f (ensureRoute r l) }

/-- dedup preserving first occurrences (`if !contains { push }`) -/
def pushNew (acc : List Nat) : List Nat → List Nat
  | [] => acc
  | p :: ps => pushNew (if acc.contains p then acc else acc ++ [p]) ps

/-- the threshold set after a sweep: `(by_ssrc.len() * 2).max(16)` -/
def sweepTarget (factor minimum len : Nat) : Nat := max (len * factor) minimum

/-- `bind_ssrc_route` (= `register_listener_sync`, explicit registration): closed senders are dropped
first, always; the threshold is re-armed -/
def bindSsrc (r : Reg) (ssrc : Nat) (l : Lid) : Reg :=
  { r with bySsrc := insert ssrc l (retainOpen r.closed r.bySsrc),
           sweepAt := sweepTarget demuxSsrcSweepFactor demuxSsrcSweepMinExplicit (retainOpen r.closed r.bySsrc).length }

/-- `bind_ssrc_from_packet` (binding learnt from a routed packet): closed senders are swept only when the
table has reached the threshold (it has doubled since the last sweep) — amortised, since the `fix:`
commit "RTP demux sweeps closed SSRC bindings when the table has doubled …"; before it every such
binding swept -/
def bindFromPacket (r : Reg) (ssrc : Nat) (l : Lid) : Reg :=
  if r.bySsrc.length ≥ r.sweepAt then
    { r with bySsrc := insert ssrc l (retainOpen r.closed r.bySsrc),
             sweepAt := sweepTarget demuxSsrcSweepFactor demuxSsrcSweepMin (retainOpen r.closed r.bySsrc).length }
  else { r with bySsrc := insert ssrc l r.bySsrc }

def regRid (r : Reg) (rid : Bytes) (l : Lid) : Reg :=
  { r with byRid := insert rid l (retainOpen r.closed r.byRid) }

def regMid (r : Reg) (mid : Bytes) (l : Lid) : Reg :=
  withRoute { r with byMid := insert mid l r.byMid } l (fun rt => { rt with mid := some mid })

def regPts (r : Reg) (pts : List Nat) (l : Lid) : Reg :=
  withRoute r l (fun rt => { rt with pts := pushNew [] pts })

def regPt (r : Reg) (pt : Nat) (l : Lid) : Reg :=
  withRoute r l (fun rt => { rt with pts := pushNew rt.pts [pt] })

def regProv (r : Reg) (l : Lid) : Reg :=
  withRoute r l (fun rt => { rt with provisional := true })

/-- `remove_sender` -/
def removeSender (r : Reg) (l : Lid) : Reg :=
  { r with bySsrc := dropLid l r.bySsrc, byRid := dropLid l r.byRid, byMid := dropLid l r.byMid,
           routes := r.routes.filter (fun rt => rt.lid ≠ l) }

/-- `clear_listeners` (registry part): every map and the routes are cleared
(`by_mid` since the `fix:` commit recorded in `known_findings.d/C19.json`; before it a MID packet
still reached the "cleared" listener) -/
def clearListeners (r : Reg) : Reg := { r with bySsrc := [], byRid := [], byMid := [], routes := [] }

/-- the count `clear_listeners` returns for the registry part -/
def clearCount (r : Reg) : Nat := r.bySsrc.length + r.byRid.length + r.byMid.length + r.routes.length

/-! ### packet side -/

structure Ext where
  profile : Nat
  data    : Bytes
deriving DecidableEq, Repr

structure Pkt where
  ssrc : Nat
  pt   : Nat
  ext  : Option Ext
  /-- INPUT of the model: the listeners whose channel has no free slot when this packet arrives (`try_send` → `Full`) -/
  full : List Nat := []
deriving DecidableEq, Repr

/-- one-byte-header (0xBEDE) scan of `RtpHeader::get_extension` -/
def getExt1 (id : Nat) : Nat → Bytes → Option Bytes
  | 0, _ => none
  | _, [] => none
  | fuel + 1, b :: rest =>
    if b = 0 then getExt1 id fuel rest
    else
      let eid := b.toNat / 16
      let len := b.toNat % 16 + 1
      if eid = 15 then none
      else if eid = id then (if len ≤ rest.length then some (rest.take len) else none)
      else getExt1 id fuel (rest.drop len)

/-- two-byte-header (0x1000) scan of `RtpHeader::get_extension` -/
def getExt2 (id : Nat) : Nat → Bytes → Option Bytes
  | 0, _ => none
  | _, [] => none
  | fuel + 1, e :: rest =>
    if e = 0 then getExt2 id fuel rest
    else match rest with
      | [] => none
      | l :: rest2 =>
        if e.toNat = id then (if l.toNat ≤ rest2.length then some (rest2.take l.toNat) else none)
        else getExt2 id fuel (rest2.drop l.toNat)

/-- `RtpHeader::get_extension(id)` -/
def getExtension (p : Pkt) (id : Nat) : Option Bytes :=
  match p.ext with
  | none => none
  | some e =>
    if e.profile = 0xBEDE then getExt1 id (e.data.length + 1) e.data
    -- `ext.profile & 0xFFF0 == 0x1000`: every two-byte-header profile 0x1000..=0x100F (RFC 8285 appbits ignored)
    else if e.profile / 16 = 0x100 then getExt2 id (e.data.length + 1) e.data
    else none

/-- `decode_ext_id(raw).and_then(|id| get_extension(id))` -/
def extOf (p : Pkt) (raw : Nat) : Option Bytes := if raw = 0 then none else getExtension p raw

def isCont (b : UInt8) : Bool := 0x80 ≤ b.toNat && b.toNat ≤ 0xBF

/-- `std::str::from_utf8(bytes).is_ok()` (Unicode table 3-7: no overlongs, no surrogates, ≤ U+10FFFF) -/
def utf8Valid : Bytes → Bool
  | [] => true
  | b0 :: r =>
    let n := b0.toNat
    if n < 0x80 then utf8Valid r
    else match r with
      | [] => false
      | b1 :: r1 =>
        if 0xC2 ≤ n ∧ n ≤ 0xDF then isCont b1 && utf8Valid r1
        else match r1 with
          | [] => false
          | b2 :: r2 =>
            if n = 0xE0 then (0xA0 ≤ b1.toNat && b1.toNat ≤ 0xBF) && isCont b2 && utf8Valid r2
            else if (0xE1 ≤ n ∧ n ≤ 0xEC) ∨ n = 0xEE ∨ n = 0xEF then isCont b1 && isCont b2 && utf8Valid r2
            else if n = 0xED then (0x80 ≤ b1.toNat && b1.toNat ≤ 0x9F) && isCont b2 && utf8Valid r2
            else match r2 with
              | [] => false
              | b3 :: r3 =>
                if n = 0xF0 then (0x90 ≤ b1.toNat && b1.toNat ≤ 0xBF) && isCont b2 && isCont b3 && utf8Valid r3
                else if 0xF1 ≤ n ∧ n ≤ 0xF3 then isCont b1 && isCont b2 && isCont b3 && utf8Valid r3
                else if n = 0xF4 then (0x80 ≤ b1.toNat && b1.toNat ≤ 0x8F) && isCont b2 && isCont b3 && utf8Valid r3
                else false

/-- `ListenerRegistry::unique_by_pt` / `single_provisional`: the loop over the filtered routes —
first match selected, any later match on a different channel makes the result `None` -/
def uniqueLoop : Option Lid → List Route → Option Lid
  | sel, [] => sel
  | none, rt :: rest => uniqueLoop (some rt.lid) rest
  | some l, rt :: rest => if l = rt.lid then uniqueLoop (some l) rest else none

def uniqueByPt (r : Reg) (pt : Nat) : Option Lid :=
  uniqueLoop none (r.routes.filter (fun rt => rt.pts.contains pt))

def singleProvisional (r : Reg) : Option Lid :=
  uniqueLoop none (r.routes.filter (fun rt => rt.provisional))

/-- which rule selected the listener -/
inductive Via where
  | rid | mid | ssrc | pt | prov
deriving DecidableEq, Repr

/-- the RID stage: `if let Some(rid) = &rid_bytes && let Ok(rid_str) = from_utf8(rid)` -/
def stageRid (r : Reg) (p : Pkt) : Option Lid :=
  match extOf p r.ridExt with
  | some rid => if utf8Valid rid then lookup rid r.byRid else none
  | none => none

def stageMid (r : Reg) (p : Pkt) : Option Lid :=
  match extOf p r.midExt with
  | some mid => if utf8Valid mid then lookup mid r.byMid else none
  | none => none

/-- the media section a listener registered for, as far as the transport knows: the MID on its route -/
def sectionOf (r : Reg) (l : Lid) : Option Bytes := (r.routes.find? (fun rt => rt.lid = l)).bind (·.mid)

/-- the packet's MID when the extension is present, valid UTF-8, and registered by nobody -/
def unknownMid (r : Reg) (p : Pkt) : Option Bytes :=
  match extOf p r.midExt with
  | some mid => if utf8Valid mid && (lookup mid r.byMid).isNone then some mid else none
  | none => none

/-- the stages after RID and MID, in the code's order: SSRC map, unique payload type, single provisional -/
def lateStages (r : Reg) (p : Pkt) : Option (Lid × Via × Bool) :=
  match lookup p.ssrc r.bySsrc with
  | some l => some (l, .ssrc, false)
  | none =>
    match uniqueByPt r p.pt with
    | some l => some (l, .pt, true)
    | none =>
      -- the provisional listener is the fallback for packets no route claims: a payload type some route lists gets
      -- here only when it is ambiguous, and is dropped (`fix:` "the provisional fallback does not take a packet whose
      -- payload type is ambiguous")
      if r.routes.any (fun rt => rt.pts.contains p.pt) then none
      else
      match singleProvisional r with
      | some l => some (l, .prov, false)
      | none => none

/-- a packet naming a media section nobody registered may still be routed by the later stages, but never to a
receiver that registered for ANOTHER media section (`fix:` "an unregistered MID only vetoes receivers of
another media section") -/
def vetoed (r : Reg) (p : Pkt) (l : Lid) : Bool :=
  match unknownMid r p, sectionOf r l with
  | some m, some m' => m' != m
  | _, _ => false

/-- the selection block of `receive`, in the code's order; the `Bool` is `bind_ssrc` -/
def select (r : Reg) (p : Pkt) : Option (Lid × Via × Bool) :=
  match stageRid r p with
  | some l => some (l, .rid, true)
  | none =>
    match stageMid r p with
    | some l => some (l, .mid, true)
    | none =>
      match lateStages r p with
      | some (l, v, b) => if vetoed r p l then none else some (l, v, b)
      | none => none

/-- what happened to one inbound packet -/
inductive Outcome where
  | dropped                       -- no listener selected
  | delivered (l : Lid) (v : Via) -- handed to `l`'s channel
  | closedOut (l : Lid) (v : Via) -- `l` selected but its channel is closed: listener removed
  | fullOut (l : Lid) (v : Via)   -- `l` selected, its channel is open but full: the packet is lost, nothing else changes
deriving DecidableEq, Repr

/-- `if let Some(tx) = selected && bind_ssrc { bind_ssrc_from_packet(ssrc, tx) }` -/
def afterSelect (r : Reg) (ssrc : Nat) (l : Lid) (bind : Bool) : Reg :=
  if bind then bindFromPacket r ssrc l else r

/-- `try_send_dropping`: `Ok` → delivered; `Closed` → `by_ssrc.remove(&ssrc); remove_sender(&tx)`;
`Full` → `{}` (a closed channel reports `Closed` whether or not it is also full) -/
def deliver (r1 : Reg) (ssrc : Nat) (l : Lid) (v : Via) (full : Bool) : Reg × Outcome :=
  if r1.isClosed l then
    (removeSender { r1 with bySsrc := remove ssrc r1.bySsrc } l, .closedOut l v)
  else if full then (r1, .fullOut l v)
  else (r1, .delivered l v)

/-- demux part of `receive` for one parsed packet -/
def receive (r : Reg) (p : Pkt) : Reg × Outcome :=
  match select r p with
  | none => (r, .dropped)
  | some (l, v, bind) => deliver (afterSelect r p.ssrc l bind) p.ssrc l v (p.full.contains l)

inductive Op where
  | regSsrc (ssrc : Nat) (l : Lid)
  | regRid (rid : Bytes) (l : Lid)
  | regMid (mid : Bytes) (l : Lid)
  | regPts (pts : List Nat) (l : Lid)
  | regPt (pt : Nat) (l : Lid)
  | regProv (l : Lid)
  | closeL (l : Lid)                 -- the listener's receiver is dropped
  | setRidExt (id : Nat)
  | setMidExt (id : Nat)
  | clear                            -- `clear_listeners`
  | pkt (p : Pkt)
deriving DecidableEq, Repr

def step (r : Reg) : Op → Reg × Option Outcome
  | .regSsrc s l => (bindSsrc r s l, none)
  | .regRid k l => (regRid r k l, none)
  | .regMid k l => (regMid r k l, none)
  | .regPts ps l => (regPts r ps l, none)
  | .regPt p l => (regPt r p l, none)
  | .regProv l => (regProv r l, none)
  | .closeL l => ({ r with closed := if r.closed.contains l then r.closed else l :: r.closed }, none)
  | .setRidExt i => ({ r with ridExt := i }, none)
  | .setMidExt i => ({ r with midExt := i }, none)
  | .clear => (clearListeners r, none)
  | .pkt p => let x := receive r p; (x.1, some x.2)

def run (r : Reg) : List Op → Reg
  | [] => r
  | o :: os => run (step r o).1 os

end RtcModel.Demux
