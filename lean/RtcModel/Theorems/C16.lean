/-
C16 — STUN/TURN messages and ICE priorities conform to the RFCs.
Property theorems only; helper lemmas live in `RtcModel/Lemmas/{Stun,IcePrio}.lean`.

HMAC-SHA1 and CRC-32 are abstract: every theorem about `encode` quantifies over all `Prims`.
-/
import RtcModel.Lemmas.Stun
import RtcModel.Lemmas.IcePrio

namespace RtcModel.Theorems.C16
open RtcModel.Stun RtcModel.IcePrio RtcModel.C16Bytes RtcModel.Generated

/-! ### generated-constant obligations (the tables of the code are the RFC's) -/

/-- RFC 5389 §6 / RFC 5766 §13: method numbers, class bits and masks; encoder and decoder tables agree. -/
theorem const_message_type_tables :
    stunMagicCookie = 0x2112A442 ∧ stunFingerprintXor = 0x5354554e ∧
    stunEncMethodBinding = 0x001 ∧ stunEncMethodAllocate = 0x003 ∧ stunEncMethodRefresh = 0x004 ∧
    stunEncMethodSend = 0x006 ∧ stunEncMethodData = 0x007 ∧ stunEncMethodCreatePermission = 0x008 ∧
    stunEncMethodChannelBind = 0x009 ∧
    stunDecMethodBinding = stunEncMethodBinding ∧ stunDecMethodAllocate = stunEncMethodAllocate ∧
    stunDecMethodRefresh = stunEncMethodRefresh ∧ stunDecMethodSend = stunEncMethodSend ∧
    stunDecMethodData = stunEncMethodData ∧ stunDecMethodCreatePermission = stunEncMethodCreatePermission ∧
    stunDecMethodChannelBind = stunEncMethodChannelBind ∧
    stunEncClassRequest = 0x0000 ∧ stunEncClassIndication = 0x0010 ∧ stunEncClassSuccessResponse = 0x0100 ∧
    stunEncClassErrorResponse = 0x0110 ∧
    stunDecClassRequest = stunEncClassRequest ∧ stunDecClassIndication = stunEncClassIndication ∧
    stunDecClassSuccessResponse = stunEncClassSuccessResponse ∧ stunDecClassErrorResponse = stunEncClassErrorResponse ∧
    stunDecMethodMask = 0x3EEF ∧ stunDecClassMask = 0x0110 := by decide

/-- IANA STUN attribute registry numbers (RFC 5389 §18.2, RFC 5766 §14, RFC 8445 §16.1). -/
theorem const_attribute_codes :
    stunEncAttrUsername = 0x0006 ∧ stunEncAttrMessageIntegrity = 0x0008 ∧ stunEncAttrRealm = 0x0014 ∧
    stunEncAttrNonce = 0x0015 ∧ stunEncAttrXorMapped = 0x0020 ∧ stunEncAttrSoftware = 0x8022 ∧
    stunEncAttrFingerprint = 0x8028 ∧ stunEncAttrChannelNumber = 0x000C ∧ stunEncAttrLifetime = 0x000D ∧
    stunEncAttrXorPeer = 0x0012 ∧ stunEncAttrData = 0x0013 ∧ stunEncAttrRequestedTransport = 0x0019 ∧
    stunEncAttrPriority = 0x0024 ∧ stunEncAttrUseCandidate = 0x0025 ∧ stunEncAttrIceControlled = 0x8029 ∧
    stunEncAttrIceControlling = 0x802A ∧
    stunDecAttrXorMapped = stunEncAttrXorMapped ∧ stunDecAttrXorPeer = stunEncAttrXorPeer ∧
    stunDecAttrXorRelayed = 0x0016 ∧ stunDecAttrErrorCode = 0x0009 ∧ stunDecAttrRealm = stunEncAttrRealm ∧
    stunDecAttrNonce = stunEncAttrNonce ∧ stunDecAttrData = stunEncAttrData ∧
    stunDecAttrLifetime = stunEncAttrLifetime ∧ stunDecAttrUseCandidate = stunEncAttrUseCandidate ∧
    stunEncMiAttrLen = 4 + 20 ∧ stunEncFpAttrLen = 4 + 4 := by decide

/-- RFC 8445 §5.1.2.2 recommended type preferences, RFC 6544 §4.2 style local preferences. -/
theorem const_priority_tables :
    icePrefUdpHost = 126 ∧ icePrefUdpPeerReflexive = 110 ∧ icePrefUdpServerReflexive = 100 ∧ icePrefUdpRelay = 0 ∧
    icePrefTcpHost = icePrefUdpHost ∧ icePrefTcpPeerReflexive = icePrefUdpPeerReflexive ∧
    icePrefTcpServerReflexive = icePrefUdpServerReflexive ∧ icePrefTcpRelay = icePrefUdpRelay ∧
    iceLocalPrefUdp = 65535 ∧ iceLocalPrefTcpPassive ≤ 65535 ∧ iceLocalPrefTcpActive ≤ 65535 ∧
    iceLocalPrefTcpSo ≤ 65535 ∧ iceComponentClamp = 256 := by decide

/-! ### XOR-MAPPED / XOR-PEER / XOR-RELAYED addresses -/

/-- **xor_addr_roundtrip**: for every IPv4/IPv6 socket address and every 96-bit transaction id the
decoder's `parse_xor_address` inverts the encoder's XOR-address value, and the encoder emits exactly
that value as a TLV of the requested type. -/
theorem xor_addr_roundtrip (a : Addr) (tx : Bytes) (ha : a.Wf) (htx : tx.length = 12) :
    parseXor (xorValue a tx) tx = some a ∧
    ∀ buf t, appendXor buf t a tx = appendRaw buf t (xorValue a tx) :=
  ⟨parseXor_xorValue a tx ha htx, fun buf t => appendXor_eq_raw buf t a tx ha htx⟩

example : (Addr.v4 [192, 168, 1, 10] 3478).Wf ∧
    (Addr.v6 [0x20, 1, 0xd, 0xb8, 0, 0, 0, 0, 0, 0, 0, 0, 0, 0, 0, 1] 65535).Wf ∧
    xorValue (.v4 [192, 168, 1, 10] 3478) (zeros 12) = [0, 1, 0x2c, 0x84, 0xe1, 0xba, 0xa5, 0x48] := by
  decide

/-! ### ICE candidate priority (RFC 8445 §5.1.2.1) -/

/-- **prio_formula**: `priority = 2^24·type-pref + 2^8·local-pref + (256 − component)` for every
candidate type, transport flavour and component id 1..256, with the generated preference tables. -/
theorem prio_formula (t : CandType) (c : Nat) (h1 : 1 ≤ c) (h2 : c ≤ 256) :
    priorityFor t c = rfcPriority (typePrefUdp t) iceLocalPrefUdp c ∧
    ∀ tt, priorityForTcp t c tt = rfcPriority (typePrefTcp t) (localPrefTcp tt) c := by
  refine ⟨?_, fun tt => ?_⟩
  · exact combine_eq_rfc _ _ _ (by cases t <;> decide) (by decide) h1 h2
  · exact combine_eq_rfc _ _ _ (by cases t <;> decide) (by cases tt <;> decide) h1 h2

/-- priorities lie in the RFC's range `1 … 2^31 − 1`, and a better type always wins over component
and transport flavour: host > prflx > srflx > relay. -/
theorem prio_range_and_order (c c' : Nat) (h1 : 1 ≤ c) (h2 : c ≤ 256) (h1' : 1 ≤ c') (h2' : c' ≤ 256)
    (t : CandType) (tt tt' : TcpType) :
    1 ≤ priorityFor t c ∧ priorityFor t c ≤ 2 ^ 31 - 1 ∧
    1 ≤ priorityForTcp t c tt ∧ priorityForTcp t c tt ≤ 2 ^ 31 - 1 ∧
    priorityFor .host c > priorityForTcp .prflx c' tt ∧ priorityForTcp .host c tt > priorityFor .prflx c' ∧
    priorityFor .prflx c > priorityForTcp .srflx c' tt ∧ priorityForTcp .prflx c tt > priorityFor .srflx c' ∧
    priorityFor .srflx c > priorityForTcp .relay c' tt ∧ priorityForTcp .srflx c tt > priorityFor .relay c' ∧
    (c < c' → priorityFor t c > priorityFor t c') := by
  have hf := fun t c h1 h2 => prio_formula t c h1 h2
  simp only [(hf _ c h1 h2).1, (hf _ c h1 h2).2, (hf _ c' h1' h2').1, (hf _ c' h1' h2').2]
  cases t <;> cases tt <;> cases tt' <;>
    simp only [rfcPriority, typePrefUdp, typePrefTcp, localPrefTcp, icePrefUdpHost_val,
      icePrefUdpPeerReflexive_val, icePrefUdpServerReflexive_val, icePrefUdpRelay_val, icePrefTcpHost_val,
      icePrefTcpPeerReflexive_val, icePrefTcpServerReflexive_val, icePrefTcpRelay_val, iceLocalPrefUdp_val,
      iceLocalPrefTcpPassive_val, iceLocalPrefTcpActive_val, iceLocalPrefTcpSo_val, Nat.reducePow] <;> omega

example : priorityFor .host 1 = 2130706431 ∧ priorityForTcp .host 1 .active = 2130706175 ∧
    priorityFor .relay 2 = 16777214 := by decide

/-! ### candidate-pair priority (RFC 8445 §6.1.2.3) -/

/-- **pair_priority_symmetric**: the controlling agent (local `x`, remote `y`) and the controlled agent
(local `y`, remote `x`) compute the same pair priority — for all priority pairs. -/
theorem pair_priority_symmetric (x y : Nat) :
    pairPriority .controlling x y = pairPriority .controlled y x :=
  pairPriority_swap x y

/-- Hence both agents order any two candidate pairs identically. -/
theorem pair_order_agree (x1 y1 x2 y2 : Nat) :
    (pairPriority .controlling x1 y1 < pairPriority .controlling x2 y2 ↔
      pairPriority .controlled y1 x1 < pairPriority .controlled y2 x2) ∧
    (pairPriority .controlling x1 y1 = pairPriority .controlling x2 y2 ↔
      pairPriority .controlled y1 x1 = pairPriority .controlled y2 x2) := by
  rw [pair_priority_symmetric x1 y1, pair_priority_symmetric x2 y2]
  exact ⟨Iff.rfl, Iff.rfl⟩

/-- The value is the RFC's `2^32·MIN(G,D) + 2·MAX(G,D) + (G>D ? 1 : 0)` with G the controlling
agent's candidate priority. -/
theorem pair_priority_formula (l r : Nat) :
    pairPriority .controlling l r = 2 ^ 32 * min l r + 2 * max l r + (if l > r then 1 else 0) ∧
    pairPriority .controlled l r = 2 ^ 32 * min r l + 2 * max r l + (if r > l then 1 else 0) :=
  ⟨rfl, rfl⟩

/-- It fits `u64` (no wrap / overflow panic) unless *both* priorities are `2^32 − 1`; in particular
for all priorities in the RFC range `< 2^31`. -/
theorem pair_priority_fits_u64 (role : Role) (l r : Nat) (hl : l < 2 ^ 32) (hr : r < 2 ^ 32)
    (h : min l r < 2 ^ 32 - 1) : pairPriority role l r < 2 ^ 64 := by
  cases role <;> simp only [pairPriority, Nat.reducePow, Nat.min_def, Nat.max_def] at * <;>
    (repeat' split) <;> (try split at h) <;> omega

/-- For priorities in the RFC range (`< 2^31`) the pair priority is injective: distinct (G, D) never tie. -/
theorem pair_priority_injective (role : Role) (l r l' r' : Nat) (hl : l < 2 ^ 31) (hr : r < 2 ^ 31)
    (hl' : l' < 2 ^ 31) (hr' : r' < 2 ^ 31) (h : pairPriority role l r = pairPriority role l' r') :
    l = l' ∧ r = r' := by
  cases role <;> simp only [pairPriority, Nat.reducePow, Nat.min_def, Nat.max_def] at * <;>
    (repeat' split at h) <;> omega

/-- …and it is *not* injective beyond that range (priorities are only `u32`-checked by `from_sdp`). -/
theorem pair_priority_collision_witness :
    pairPriority .controlling 1 1 = pairPriority .controlling 0 (2 ^ 31 + 1) := by decide

/-- the overflow corner is real (debug builds panic, release builds wrap): both priorities `2^32−1` -/
theorem pair_priority_overflow_witness : ¬ pairPriority .controlling (2 ^ 32 - 1) (2 ^ 32 - 1) < 2 ^ 64 := by
  decide

/-! ### alignment -/

/-- every encoded message has a length that is a multiple of 4 (RFC 5389 §6), whatever the attribute
lengths — 20-byte header plus padded attributes. -/
theorem encode_length_aligned (P : Prims) (m : Msg) (key : Option Bytes) (fp : Bool) (htx : m.tx.length = 12) :
    (encode P m key fp).length % 4 = 0 := by
  have h0 : (appendAttrs (header m) m.attrs m.tx).length % 4 = 0 :=
    appendAttrs_length_mod _ _ _ (by rw [header_length m htx])
  simp only [encode, updLen_length]
  unfold addFingerprint
  split
  · exact appendRaw_length_mod _ _ _
  · unfold addIntegrity
    split
    · simpa [updLen_length] using h0
    · simp only [updLen_length]; exact appendRaw_length_mod _ _ _

end RtcModel.Theorems.C16
