/-
C16 — STUN/TURN messages and ICE priorities conform to the RFCs.
Property theorems only; helper lemmas live in `RtcModel/Lemmas/{Stun,IcePrio}.lean`.

HMAC-SHA1 and CRC-32 are abstract: every theorem about `encode` quantifies over all `Prims`.
-/
import RtcModel.Lemmas.Stun
import RtcModel.Lemmas.StunRfc
import RtcModel.Lemmas.IcePrio
import RtcModel.Lemmas.IceCand
import RtcModel.Lemmas.Turn
import RtcModel.Lemmas.IceUri
import RtcModel.Lemmas.IcePairs
import RtcModel.Lemmas.IceAuthCred

namespace RtcModel.Theorems.C16
open RtcModel.Stun RtcModel.StunRfc RtcModel.IcePrio RtcModel.IceCand RtcModel.Turn RtcModel.C16Bytes RtcModel.Generated

/-! ### generated-constant obligations (the tables of the code are the RFC's) -/

/-- RFC 5389 §6 / RFC 5766 §13: method numbers, class bits and masks; encoder and decoder tables agree. -/
theorem const_message_type_tables :
    stunMagicCookie = 0x2112A442 ∧ stunFingerprintXor = 0x5354554e ∧
    stunEncMethodBinding = 0x001 ∧ stunEncMethodAllocate = 0x003 ∧ stunEncMethodRefresh = 0x004 ∧
    stunEncMethodSend = 0x006 ∧ stunEncMethodData = 0x007 ∧ stunEncMethodCreatePermission = 0x008 ∧
    stunEncMethodChannelBind = 0x009 ∧
    stunDecMethodBinding = stunEncMethodBinding ∧ stunDecMethodAllocate = stunEncMethodAllocate ∧
    stunDecMethodRefresh = stunEncMethodRefresh ∧ stunDecMethodSend = stunEncMethodSend ∧
    stunDecMethodData = stunEncMethodData ∧ stunDecMethodCreatePermission = stunEncMethodCreatePermission ∧
    stunDecMethodChannelBind = stunEncMethodChannelBind ∧
    stunEncClassRequest = 0x0000 ∧ stunEncClassIndication = 0x0010 ∧ stunEncClassSuccessResponse = 0x0100 ∧
    stunEncClassErrorResponse = 0x0110 ∧
    stunDecClassRequest = stunEncClassRequest ∧ stunDecClassIndication = stunEncClassIndication ∧
    stunDecClassSuccessResponse = stunEncClassSuccessResponse ∧ stunDecClassErrorResponse = stunEncClassErrorResponse ∧
    stunDecMethodMask = 0x3EEF ∧ stunDecClassMask = 0x0110 := by decide

/-- IANA STUN attribute registry numbers (RFC 5389 §18.2, RFC 5766 §14, RFC 8445 §16.1). -/
theorem const_attribute_codes :
    stunEncAttrUsername = 0x0006 ∧ stunEncAttrMessageIntegrity = 0x0008 ∧ stunEncAttrRealm = 0x0014 ∧
    stunEncAttrNonce = 0x0015 ∧ stunEncAttrXorMapped = 0x0020 ∧ stunEncAttrSoftware = 0x8022 ∧
    stunEncAttrFingerprint = 0x8028 ∧ stunEncAttrChannelNumber = 0x000C ∧ stunEncAttrLifetime = 0x000D ∧
    stunEncAttrXorPeer = 0x0012 ∧ stunEncAttrData = 0x0013 ∧ stunEncAttrRequestedTransport = 0x0019 ∧
    stunEncAttrPriority = 0x0024 ∧ stunEncAttrUseCandidate = 0x0025 ∧ stunEncAttrIceControlled = 0x8029 ∧
    stunEncAttrIceControlling = 0x802A ∧
    stunDecAttrXorMapped = stunEncAttrXorMapped ∧ stunDecAttrXorPeer = stunEncAttrXorPeer ∧
    stunDecAttrXorRelayed = 0x0016 ∧ stunDecAttrErrorCode = 0x0009 ∧ stunDecAttrRealm = stunEncAttrRealm ∧
    stunDecAttrNonce = stunEncAttrNonce ∧ stunDecAttrData = stunEncAttrData ∧
    stunDecAttrLifetime = stunEncAttrLifetime ∧ stunDecAttrUseCandidate = stunEncAttrUseCandidate ∧
    stunDecAttrPriority = stunEncAttrPriority ∧
    stunEncMiAttrLen = 4 + 20 ∧ stunEncFpAttrLen = 4 + 4 := by decide

/-- RFC 8445 §5.1.2.2 recommended type preferences; local preference 65535 for UDP. The TCP local preferences
are pinned to the values the code documents (passive 65535 > active 65534 > so 65533): this is rustrtc's own
choice and DEVIATES from RFC 6544 §4.2 (direction preference active > passive > so, and TCP below UDP for the
same type) — recorded in NOTES as a deviation, pinned here so that any change is reported. -/
theorem const_priority_tables :
    icePrefUdpHost = 126 ∧ icePrefUdpPeerReflexive = 110 ∧ icePrefUdpServerReflexive = 100 ∧ icePrefUdpRelay = 0 ∧
    icePrefTcpHost = icePrefUdpHost ∧ icePrefTcpPeerReflexive = icePrefUdpPeerReflexive ∧
    icePrefTcpServerReflexive = icePrefUdpServerReflexive ∧ icePrefTcpRelay = icePrefUdpRelay ∧
    iceLocalPrefUdp = 65535 ∧ iceLocalPrefTcpPassive = 65535 ∧ iceLocalPrefTcpActive = 65534 ∧
    iceLocalPrefTcpSo = 65533 ∧ iceComponentClamp = 256 := by decide

/-! ### XOR-MAPPED / XOR-PEER / XOR-RELAYED addresses -/

/-- **xor_addr_roundtrip**: `xorValue` is the RFC 5389 §15.2 value written independently in `StunRfc.lean`
(family byte, X-Port = port ⊕ 0x2112, X-Address = address ⊕ (magic cookie ‖ transaction id) as ONE xor).
For every IPv4/IPv6 socket address and every 96-bit transaction id the decoder's `parse_xor_address`
reads that value back to the address, and the encoder emits exactly that value as a TLV of the requested
type. (An encoder and decoder that agreed on a wrong transformation would fail the second / first part.) -/
theorem xor_addr_roundtrip (a : Addr) (tx : Bytes) (ha : a.Wf) (htx : tx.length = 12) :
    parseXor (xorValue a tx) tx = some a ∧
    ∀ buf t, appendXor buf t a tx = appendRaw buf t (xorValue a tx) :=
  ⟨parseXor_xorValue a tx ha htx, fun buf t => appendXor_eq_raw buf t a tx ha htx⟩

example : (Addr.v4 [192, 168, 1, 10] 3478).Wf ∧
    (Addr.v6 [0x20, 1, 0xd, 0xb8, 0, 0, 0, 0, 0, 0, 0, 0, 0, 0, 0, 1] 65535).Wf ∧
    xorValue (.v4 [192, 168, 1, 10] 3478) (zeros 12) = [0, 1, 0x2c, 0x84, 0xe1, 0xba, 0xa5, 0x48] := by
  decide

/-! ### encode / decode, MESSAGE-INTEGRITY, FINGERPRINT, padding

`m.Wf`  : 12-byte transaction id, well-shaped addresses (guaranteed by the Rust types).
`Sized m`: every attribute value and the whole message fit the 16-bit length fields (the encoder casts
          lengths with `as u16`; beyond that the length fields wrap — outside the property's scope
          "string lengths 0..763").
`a.Ok`  : REALM/NONCE are valid UTF-8 (Rust `String`), LIFETIME fits `u32`, addresses well-shaped. -/

/-- **stun_encode_layout**: for all messages, keys and primitives the encoder output is: header with the
final length ++ each attribute as `type, length, value, zero padding to 4` in order ++ MESSAGE-INTEGRITY
(HMAC over header-with-length-up-to-MI ++ preceding attributes) ++ FINGERPRINT (CRC over everything
before it, header length covering it). -/
theorem stun_encode_layout (P : Prims) (m : Msg) (key : Option Bytes) (fp : Bool) (hm : m.Wf) :
    encode P m key fp =
      hdrL m ((body m.tx m.attrs).length + (miPart P m key).length + (fpPart P m key fp).length)
        ++ body m.tx m.attrs ++ miPart P m key ++ fpPart P m key fp :=
  encode_normal_form P m key fp hm

/-- **attr_padding_ok**: for attribute values of *every* length (each residue mod 4) an independent strict
RFC 5389 §15 walk of the encoded message finds exactly the message's attributes (type and value),
followed by MESSAGE-INTEGRITY and FINGERPRINT when requested, each starting on a 4-byte boundary; the
header is well-formed and its length field is the attribute-area length (a multiple of 4). -/
theorem attr_padding_ok (P : Prims) (m : Msg) (key : Option Bytes) (fp : Bool) (hm : m.Wf) (hs : Sized m) :
    walk 20 ((encode P m key fp).drop 20) = some (withOffsets 20 (allTvs P m key fp)) ∧
    headerOk (encode P m key fp) = true ∧
    (∀ e ∈ withOffsets 20 (allTvs P m key fp), e.1 % 4 = 0) := by
  refine ⟨walk_encode P m key fp hm hs, ?_, ?_⟩
  · rw [encode_eq_flat P m key fp hm]
    exact hdrL_headerOk m _ hm.tx_len (allTvs_flat_lt P m key fp hs) (flat_length_mod _)
  · have : ∀ (off : Nat) (tvs : List (Nat × Bytes)), off % 4 = 0 → ∀ e ∈ withOffsets off tvs, e.1 % 4 = 0 := by
      intro off tvs
      induction tvs generalizing off with
      | nil => intro _ e he; simp [withOffsets] at he
      | cons p ps ih =>
        intro h e he
        obtain ⟨t, v⟩ := p
        simp only [withOffsets, List.mem_cons] at he
        rcases he with rfl | he
        · exact h
        · exact ih _ (by have := add_pad4_mod v.length; omega) e he
    exact this 20 _ (by decide)

/-- **mi_verifies**: an independent RFC 5389 §15.4 verifier accepts the MESSAGE-INTEGRITY of every
encoded message under the key it was built with (short-term password or long-term MD5 key alike — the
key is an arbitrary byte string), with or without FINGERPRINT after it. -/
theorem mi_verifies (P : Prims) (m : Msg) (k : Bytes) (fp : Bool) (hm : m.Wf) (hs : Sized m) :
    integrityOk P k (encode P m (some k) fp) = true :=
  integrityOk_encode P m k fp hm hs

/-- **fp_verifies**: an independent RFC 5389 §15.5 verifier accepts the FINGERPRINT of every encoded
message (it is the last attribute, covers everything before it, XOR 0x5354554e). -/
theorem fp_verifies (P : Prims) (m : Msg) (key : Option Bytes) (hm : m.Wf) (hs : Sized m) :
    fingerprintOk P (encode P m key true) = true :=
  fingerprintOk_encode P m key hm hs

/-- **stun_decode_encode**: decoding an encoded message yields the same class, method and transaction id,
and every attribute the decoder exposes reads back the value that was encoded (a repeated attribute
overriding the earlier one); MESSAGE-INTEGRITY / FINGERPRINT do not disturb the result. -/
theorem stun_decode_encode (P : Prims) (m : Msg) (key : Option Bytes) (fp : Bool) (htx : m.tx.length = 12)
    (hok : ∀ a ∈ m.attrs, a.Ok) (hs : Sized m) :
    decode (encode P m key fp) = .ok (m.attrs.foldl applyAttr (emptyDecoded m.cls m.method m.tx)) :=
  decode_encode P m key fp htx hok hs

/-- **foreign_message_decodes**: a message built by ANY implementation — any 16-bit message type whose method /
class the decoder knows, ANY magic-cookie bytes (the decoder does not check them), any list of attributes
of any type with any padding bytes, in any order, including unknown attributes and attributes after
MESSAGE-INTEGRITY / FINGERPRINT — decodes to the fold of the per-attribute readings over an empty result with
that method, class and transaction id; the RFC 5389 §6 type values of the 7 × 4 method/class pairs are
recognised; and each attribute reads as the RFC says: XOR-MAPPED / XOR-PEER / XOR-RELAYED give the address,
ERROR-CODE gives class·100 + number (reserved bits ignored), REALM / NONCE / DATA / LIFETIME / USE-CANDIDATE
give their value, every other attribute is ignored. -/
theorem foreign_message_decodes (mt : Nat) (cookie tx : Bytes) (tvs : List (Nat × Bytes × Bytes)) (m : Method) (c : Class)
    (hmt : mt < 65536) (hcookie : cookie.length = 4) (htx : tx.length = 12)
    (hm : decMethod (mt &&& stunDecMethodMask) = some m) (hc : decClass (mt &&& stunDecClassMask) = some c)
    (hb : ∀ p ∈ tvs, p.1 < 65536 ∧ p.2.1.length < 65536 ∧ p.2.2.length = pad4 p.2.1.length)
    (hlen : (flatP tvs).length < 65536) :
    decode (be16 mt ++ be16 (flatP tvs).length ++ cookie ++ tx ++ flatP tvs) =
      .ok (tvs.foldl (fun d p => attrStep tx d p.1 p.2.1) (emptyDecoded c m tx)) ∧
    (∀ (m' : Method) (c' : Class),
      decMethod (rfcMsgType (rfcMethodNumber m') (rfcClassNumber c') &&& stunDecMethodMask) = some m' ∧
      decClass (rfcMsgType (rfcMethodNumber m') (rfcClassNumber c') &&& stunDecClassMask) = some c') :=
  ⟨foreign_decode mt cookie tx tvs m c hmt hcookie htx hm hc hb hlen,
   fun m' c' => ⟨(dec_rfcMsgType m' c').1, (dec_rfcMsgType m' c').2.1⟩⟩

/-- the per-attribute readings used by `foreign_message_decodes` (XOR-RELAYED-ADDRESS and ERROR-CODE are
the arms only another implementation can trigger) -/
theorem foreign_attribute_readings (tx : Bytes) (d : Decoded) (htx : tx.length = 12) :
    (∀ a : Addr, a.Wf → attrStep tx d 0x0020 (xorValue a tx) = { d with mapped := some a }) ∧
    (∀ a : Addr, a.Wf → attrStep tx d 0x0012 (xorValue a tx) = { d with peer := some a }) ∧
    (∀ a : Addr, a.Wf → attrStep tx d 0x0016 (xorValue a tx) = { d with relayed := some a }) ∧
    (∀ (r0 r1 cls num : UInt8) (reason : Bytes), attrStep tx d 0x0009 (r0 :: r1 :: cls :: num :: reason) =
        { d with errorCode := some (cls.toNat % 8 * 100 + num.toNat) }) ∧
    (∀ v, validUtf8 v = true → attrStep tx d 0x0014 v = { d with realm := some v }) ∧
    (∀ v, validUtf8 v = true → attrStep tx d 0x0015 v = { d with nonce := some v }) ∧
    (∀ v, attrStep tx d 0x0013 v = { d with data := some v }) ∧
    (∀ v, v < 4294967296 → attrStep tx d 0x000D (be32 v) = { d with lifetime := some v }) ∧
    (∀ v, attrStep tx d 0x0025 v = { d with useCandidate := true }) ∧
    (∀ v, v < 4294967296 → attrStep tx d 0x0024 (be32 v) = { d with priority := some v }) ∧
    (∀ t v, t ∉ [0x0020, 0x0012, 0x0016, 0x0009, 0x0014, 0x0015, 0x0013, 0x000D, 0x0025, 0x0024] → attrStep tx d t v = d) :=
  foreign_attr_readings tx d htx

/-- non-vacuity: an Allocate error response 438 with reserved bits set, an unknown attribute with non-zero
padding, and an XOR-RELAYED-ADDRESS after it meets the hypotheses -/
example : let tvs : List (Nat × Bytes × Bytes) :=
      [(0x0009, [0xff, 0xff, 0xfc, 38, 33], [7, 7, 7]), (0xC057, [1], [9, 9, 9]), (0x0016, xorValue (.v4 [10, 0, 0, 1] 5) (zeros 12), [])]
    (∀ p ∈ tvs, p.1 < 65536 ∧ p.2.1.length < 65536 ∧ p.2.2.length = pad4 p.2.1.length) ∧ (flatP tvs).length < 65536 ∧
    decMethod (0x0113 &&& stunDecMethodMask) = some .allocate ∧ decClass (0x0113 &&& stunDecClassMask) = some .error := by
  decide

/-- reading of `stun_decode_encode` for one field: a message whose only XOR-MAPPED-ADDRESS is `a` decodes
with `xor_mapped_address = Some(a)` (same for the other exposed fields). -/
theorem stun_decode_encode_mapped (P : Prims) (c : Class) (mt : Method) (tx : Bytes) (a : Addr)
    (key : Option Bytes) (fp : Bool) (htx : tx.length = 12) (ha : a.Wf) :
    (decode (encode P ⟨c, mt, tx, [.xorMapped a]⟩ key fp)).toOption.map (·.mapped) = some (some a) := by
  have hs : Sized ⟨c, mt, tx, [.xorMapped a]⟩ := by
    have hl := xorValue_length a tx ha htx
    constructor
    · intro x hx; simp only [List.mem_singleton] at hx; subst hx
      simp only [attrValue]; cases a <;> simp_all
    · simp only [body, List.map_cons, List.map_nil, List.flatten_cons, List.flatten_nil, List.append_nil,
        tlv_length, attrValue]
      have := pad4_lt (xorValue a tx).length
      cases a <;> simp_all <;> omega
  rw [stun_decode_encode P _ key fp htx (by intro x hx; simp only [List.mem_singleton] at hx; subst hx; exact ha) hs]
  simp [applyAttr, emptyDecoded, Except.toOption]

/-- non-vacuity: a Binding request with USERNAME (11 bytes, padded), PRIORITY, ICE-CONTROLLING,
USE-CANDIDATE and an IPv6 XOR-MAPPED-ADDRESS meets all hypotheses. -/
example : let m : Msg := ⟨.request, .binding, zeros 12,
      [.username [97, 98, 99, 58, 100, 101, 102, 103, 104, 105, 106], .priority 1845501695, .iceControlling 7,
       .useCandidate, .xorMapped (.v6 (zeros 15 ++ [1]) 443), .realm [0xC3, 0xA9]]⟩
    m.Wf ∧ Sized m ∧ ∀ a ∈ m.attrs, a.Ok := by
  refine ⟨⟨rfl, by decide⟩, ⟨by decide, by decide⟩, by decide⟩

/-! ### TURN: ChannelData, channel numbers, Data indications, authenticated requests -/

/-- RFC 5766 §11: channel numbers 0x4000–0x7FFF on both the allocating and the receiving side. -/
theorem const_turn_channels :
    turnRxChannelLo = 0x4000 ∧ turnRxChannelHi = 0x7FFF ∧ turnChannelFirst = 0x4000 ∧
    turnChannelLast = turnRxChannelHi ∧ turnChannelWrapTo = turnRxChannelLo ∧
    turnRequestedTransportUdp = 17 ∧ turnDefaultLifetime = 600 ∧
    iceUriDefaultPortPlain = 3478 ∧ iceUriDefaultPortSecure = 5349 := by decide

/-- **channeldata_roundtrip**: a ChannelData frame built by `send_channel_data` for any channel in the
TURN range and any payload (< 2^16 bytes) is recognised by the receive path as exactly that channel and
payload; the frame is 4 bytes + payload, unpadded (RFC 5766 §11.5, UDP). -/
theorem channeldata_roundtrip (ch : Nat) (data : Bytes) (h1 : turnRxChannelLo ≤ ch) (h2 : ch ≤ turnRxChannelHi)
    (hd : data.length < 65536) :
    classifyRx (channelData ch data) = .chan ch data ∧ (channelData ch data).length = 4 + data.length := by
  refine ⟨classifyRx_channelData ch data h1 h2 hd, ?_⟩
  simp [channelData]; omega

/-- **turn_tcp_stream_roundtrip** (RFC 5766 §2.1 / §11.5, since the `fix:` that removed the 2-byte length
prefix): on the TCP connection to the TURN server every message the client writes — any encoded STUN message,
any ChannelData message padded to a multiple of four — is delimited by its own length field: reading the
stream with `recv` returns exactly that message and leaves exactly what followed it. -/
theorem turn_tcp_stream_roundtrip (P : Prims) (m : Msg) (key : Option Bytes) (fp : Bool) (ch : Nat) (data rest : Bytes)
    (hm : m.Wf) (hs : Sized m) (h1 : turnRxChannelLo ≤ ch) (h2 : ch ≤ turnRxChannelHi) (hd : data.length < 65536) :
    tcpNext (tcpWire (encode P m key fp) ++ rest) = some (encode P m key fp, rest) ∧
    tcpNext (tcpWire (channelData ch data) ++ rest) = some (channelData ch data, rest) ∧
    (tcpWire (channelData ch data)).length % 4 = 0 := by
  have e := encode_eq_flat P m key fp hm
  have hl := allTvs_flat_lt P m key fp hs
  have hst := tcpNext_stun m (flat (allTvs P m key fp)) rest hm.tx_len hl
  refine ⟨?_, (tcpNext_channelData ch data rest h1 h2 hd).1, (tcpNext_channelData ch data rest h1 h2 hd).2⟩
  rw [e, hst.1]; exact hst.2

/-- a message on the TURN TCP connection: an encoded STUN message or a ChannelData message -/
inductive Wire where
  | stun (m : Msg) (key : Option Bytes) (fp : Bool)
  | chan (ch : Nat) (data : Bytes)

def Wire.bytes (P : Prims) : Wire → Bytes
  | .stun m key fp => encode P m key fp
  | .chan ch data => channelData ch data

def Wire.Ok : Wire → Prop
  | .stun m _ _ => m.Wf ∧ Sized m
  | .chan ch data => turnRxChannelLo ≤ ch ∧ ch ≤ turnRxChannelHi ∧ data.length < 65536

/-- **turn_tcp_stream_sequence**: ANY sequence of messages written back to back by `send` (STUN as is,
ChannelData padded) is split by successive `recv` calls into exactly those messages, in order, leaving
exactly what followed. -/
theorem turn_tcp_stream_sequence (P : Prims) (ws : List Wire) (rest : Bytes) (hok : ∀ w ∈ ws, w.Ok) :
    tcpSplitN ws.length ((ws.map (fun w => tcpWire (w.bytes P))).flatten ++ rest) = some (ws.map (Wire.bytes P), rest) := by
  induction ws with
  | nil => rfl
  | cons w ws ih =>
    have hw := hok w List.mem_cons_self
    have ih' := ih (fun w' h' => hok w' (List.mem_cons_of_mem _ h'))
    simp only [List.length_cons, List.map_cons, List.flatten_cons, List.append_assoc, tcpSplitN]
    have hnext : tcpNext (tcpWire (w.bytes P) ++ ((ws.map (fun w => tcpWire (w.bytes P))).flatten ++ rest)) =
        some (w.bytes P, (ws.map (fun w => tcpWire (w.bytes P))).flatten ++ rest) := by
      cases w with
      | stun m key fp =>
        exact (turn_tcp_stream_roundtrip P m key fp turnRxChannelLo [] _ hw.1 hw.2 (Nat.le_refl _) (by decide) (by simp)).1
      | chan ch data => exact (tcpNext_channelData ch data _ hw.1 hw.2.1 hw.2.2).1
    simp only [hnext, ih', Option.map_some]

/-- **turn_tcp_recv_buffer**: `recv` with a buffer of `bufLen` bytes agrees with the unbounded stream reader on
every message whose on-the-wire size fits the buffer, and answers `tooBig` (an error; the runner's 1500-byte
buffer: a ChannelData message of more than 1496 bytes of data ends the TURN/TCP read loop) otherwise — it never
reads or writes outside the buffer. -/
theorem turn_tcp_recv_buffer (bufLen : Nat) (b0 b1 l0 l1 : UInt8) (rest : Bytes) :
    let body := rd16 l0 l1
    let onWire := if isChannelByte b0 then 4 + body + pad4 body else 20 + body
    (onWire ≤ bufLen → ∀ m r, tcpNext (b0 :: b1 :: l0 :: l1 :: rest) = some (m, r) →
        tcpRecv bufLen (b0 :: b1 :: l0 :: l1 :: rest) = .msg m r) ∧
    (bufLen < onWire → tcpRecv bufLen (b0 :: b1 :: l0 :: l1 :: rest) = .tooBig) ∧
    (∀ m r, tcpRecv bufLen (b0 :: b1 :: l0 :: l1 :: rest) = .msg m r → m.length ≤ bufLen) := by
  have hpad : ∀ n : Nat, (n + 3) / 4 * 4 = n + pad4 n := by intro n; unfold pad4; omega
  refine ⟨?_, ?_, ?_⟩
  · intro hfit m r hn
    simp only [tcpNext] at hn
    simp only [tcpRecv]
    by_cases hc : isChannelByte b0 = true
    · simp only [hc, ↓reduceIte] at hn hfit ⊢
      rw [hpad]
      split at hn
      · cases hn
      · rename_i hlen
        simp only [Option.some.injEq, Prod.mk.injEq] at hn
        have h1 : ¬ (4 + (rd16 l0 l1 + pad4 (rd16 l0 l1)) > bufLen) := by omega
        have h2 : ¬ (rest.length < 4 + (rd16 l0 l1 + pad4 (rd16 l0 l1)) - 4) := by omega
        simp only [h1, h2, ↓reduceIte, Recv.msg.injEq]
        refine ⟨?_, ?_⟩
        · rw [← hn.1]; congr 5; omega
        · rw [← hn.2]; congr 1; omega
    · simp only [hc, Bool.false_eq_true, ↓reduceIte] at hn hfit ⊢
      split at hn
      · cases hn
      · rename_i hlen
        simp only [Option.some.injEq, Prod.mk.injEq] at hn
        have h1 : ¬ (20 + rd16 l0 l1 > bufLen) := by omega
        have h2 : ¬ (rest.length < 20 + rd16 l0 l1 - 4) := by omega
        simp only [h1, h2, ↓reduceIte, Recv.msg.injEq]
        refine ⟨?_, ?_⟩
        · rw [← hn.1]; congr 5; omega
        · rw [← hn.2]; congr 1; omega
  · intro hbig
    simp only [tcpRecv]
    by_cases hc : isChannelByte b0 = true
    · simp only [hc, ↓reduceIte] at hbig ⊢
      rw [hpad]
      have : 4 + (rd16 l0 l1 + pad4 (rd16 l0 l1)) > bufLen := by omega
      simp [this]
    · simp only [hc, Bool.false_eq_true, ↓reduceIte] at hbig ⊢
      simp [hbig]
  · intro m r hm
    simp only [tcpRecv] at hm
    by_cases hc : isChannelByte b0 = true
    · simp only [hc, ↓reduceIte] at hm
      rw [hpad] at hm
      by_cases h1 : 4 + (rd16 l0 l1 + pad4 (rd16 l0 l1)) > bufLen
      · simp [h1] at hm
      · simp only [h1, ↓reduceIte] at hm
        split at hm
        · cases hm
        · simp only [Recv.msg.injEq] at hm
          rw [← hm.1]; simp only [List.length_cons, List.length_take]; omega
    · simp only [hc, Bool.false_eq_true, ↓reduceIte] at hm
      by_cases h1 : 20 + rd16 l0 l1 > bufLen
      · simp [h1] at hm
      · simp only [h1, ↓reduceIte] at hm
        split at hm
        · cases hm
        · simp only [Recv.msg.injEq] at hm
          rw [← hm.1]; simp only [List.length_cons, List.length_take]; omega

/-- every channel number `create_channel_bind_packet` ever allocates stays in the TURN range (it starts
at 0x4000, wraps from 0x7FFF to 0x4000), hence its ChannelData frames are always recognised. -/
theorem channel_numbers_in_range (n : Nat) (h1 : turnRxChannelLo ≤ n) (h2 : n ≤ turnRxChannelHi) :
    (nextChannel n).1 = n ∧ turnRxChannelLo ≤ (nextChannel n).2 ∧ (nextChannel n).2 ≤ turnRxChannelHi ∧
    turnRxChannelLo ≤ turnChannelFirst ∧ turnChannelFirst ≤ turnRxChannelHi := by
  have := nextChannel_range n h1 h2
  exact ⟨this.1, this.2.1, this.2.2, by decide, by decide⟩

/-- a STUN message is never mistaken for ChannelData (first two bits 00 vs 01), and a Data indication
carrying XOR-PEER-ADDRESS and DATA — as a TURN server relays peer traffic — is unwrapped to exactly that
peer and payload, with or without MESSAGE-INTEGRITY / FINGERPRINT. -/
theorem data_indication_roundtrip (P : Prims) (tx : Bytes) (peer : Addr) (data : Bytes) (key : Option Bytes)
    (fp : Bool) (htx : tx.length = 12) (hp : peer.Wf)
    (hs : Sized ⟨.indication, .data, tx, [.xorPeer peer, .data data]⟩) :
    classifyRx (encode P ⟨.indication, .data, tx, [.xorPeer peer, .data data]⟩ key fp) = .dataInd peer data := by
  have hok : ∀ a ∈ [Attr.xorPeer peer, Attr.data data], a.Ok := by
    intro a ha; simp only [List.mem_cons, List.not_mem_nil, or_false] at ha
    rcases ha with rfl | rfl
    · exact hp
    · trivial
  have hm : Msg.Wf ⟨.indication, .data, tx, [.xorPeer peer, .data data]⟩ := ⟨htx, fun a ha => StunRfc.Attr.Ok.addrWf (hok a ha)⟩
  rw [classifyRx_encode P _ key fp hm, stunCase, stun_decode_encode P _ key fp htx hok hs]
  simp [applyAttr, emptyDecoded]

/-- **turn_requests_verify**: each authenticated TURN *request* the client builds (Allocate retry,
CreatePermission, ChannelBind, Refresh / destroy; the Send indication is `turn_send_indication_verifies`, the
first, credential-less Allocate carries no MESSAGE-INTEGRITY by design). `a.key` is whatever key the client
holds: that it is `MD5(user:realm:pass)` is the definition `Turn.longTermKey` (MD5 abstract) and is tied to
the code and to the reference crate's own derivation only by the `ltkey` stream and the TURN oracles —
there is no theorem about the key derivation. passes the independent MESSAGE-INTEGRITY check under
the long-term key and the FINGERPRINT check, and decodes to the method / realm / nonce / peer it was
built for. -/
theorem turn_requests_verify (P : Prims) (tx : Bytes) (a : Auth) (peer : Addr) (ch lt : Nat) (m : Msg)
    (hm : m ∈ [allocateMsg tx (some a), createPermissionMsg tx a peer, channelBindMsg tx a peer ch, refreshMsg tx a lt])
    (htx : tx.length = 12) (hp : peer.Wf) (hr : validUtf8 a.realm = true) (hn : validUtf8 a.nonce = true)
    (hlt : lt < 4294967296) (hs : Sized m) :
    integrityOk P a.key (authed P m a) = true ∧ fingerprintOk P (authed P m a) = true ∧
    ∃ d, decode (authed P m a) = .ok d ∧ d.cls = .request ∧ d.method = m.method ∧ d.tx = tx ∧
      d.realm = some a.realm ∧ d.nonce = some a.nonce ∧
      (m.method = .createPermission ∨ m.method = .channelBind → d.peer = some peer) := by
  have hok : ∀ x ∈ m.attrs, x.Ok := by
    simp only [List.mem_cons, List.not_mem_nil, or_false] at hm
    rcases hm with rfl | rfl | rfl | rfl <;> intro x hx <;>
      simp only [allocateMsg, createPermissionMsg, channelBindMsg, refreshMsg, authAttrs, List.cons_append,
        List.nil_append, List.mem_cons, List.not_mem_nil, or_false] at hx <;>
      rcases hx with rfl | rfl | rfl | rfl | rfl <;> first | trivial | assumption | (simp [Attr.Ok, turnDefaultLifetime_val])
  have hmtx : m.tx = tx := by
    simp only [List.mem_cons, List.not_mem_nil, or_false] at hm
    rcases hm with rfl | rfl | rfl | rfl <;> rfl
  have hwf : m.Wf := ⟨hmtx ▸ htx, fun x hx => StunRfc.Attr.Ok.addrWf (hok x hx)⟩
  refine ⟨mi_verifies P m a.key true hwf hs, fp_verifies P m (some a.key) hwf hs, _, 
    stun_decode_encode P m (some a.key) true (hmtx ▸ htx) hok hs, ?_⟩
  simp only [List.mem_cons, List.not_mem_nil, or_false] at hm
  rcases hm with rfl | rfl | rfl | rfl <;>
    simp [allocateMsg, createPermissionMsg, channelBindMsg, refreshMsg, authAttrs, applyAttr, emptyDecoded]

/-- **turn_requests_verify_after_any_challenge_history**: after a successful allocate followed by ANY sequence of
401 / 438 challenges — keeping the realm, changing it, changing it back, empty realms — the client's state
holds the key of its CURRENT realm, and every authenticated request it builds (Allocate retry, CreatePermission,
ChannelBind, Refresh / destroy) carries USERNAME, the current REALM and NONCE, and its MESSAGE-INTEGRITY
verifies under `MD5(USERNAME ":" REALM-in-the-message ":" password)`. -/
theorem turn_requests_verify_after_any_challenge_history (P : Prims) (md5 : Bytes → Bytes) (user pass realm0 nonce0 : Bytes)
    (challenges : List (Bytes × Bytes)) (tx : Bytes) (peer : Addr) (ch lt : Nat) (m : Msg) :
    let s := challenges.foldl (fun s c => s.updateNonce md5 c.1 c.2) (AuthSt.afterAllocate md5 user pass realm0 nonce0)
    s.username = user ∧ s.password = pass ∧ s.key = longTermKey md5 user s.realm pass ∧
    (m ∈ [allocateMsg tx (some s.auth), createPermissionMsg tx s.auth peer, channelBindMsg tx s.auth peer ch, refreshMsg tx s.auth lt] →
     tx.length = 12 → peer.Wf → validUtf8 s.realm = true → validUtf8 s.nonce = true → lt < 4294967296 → Sized m →
      ∃ d, decode (authed P m s.auth) = .ok d ∧ d.realm = some s.realm ∧ d.nonce = some s.nonce ∧
        integrityOk P (longTermKey md5 user s.realm pass) (authed P m s.auth) = true) := by
  intro s
  have hinv : s.username = user ∧ s.password = pass ∧ s.key = longTermKey md5 user s.realm pass := by
    have : ∀ (cs : List (Bytes × Bytes)) (s0 : AuthSt), s0.username = user → s0.password = pass →
        s0.key = longTermKey md5 user s0.realm pass →
        (cs.foldl (fun s c => s.updateNonce md5 c.1 c.2) s0).username = user ∧
        (cs.foldl (fun s c => s.updateNonce md5 c.1 c.2) s0).password = pass ∧
        (cs.foldl (fun s c => s.updateNonce md5 c.1 c.2) s0).key =
          longTermKey md5 user (cs.foldl (fun s c => s.updateNonce md5 c.1 c.2) s0).realm pass := by
      intro cs
      induction cs with
      | nil => intro s0 h1 h2 h3; exact ⟨h1, h2, h3⟩
      | cons c cs ih =>
        intro s0 h1 h2 _
        simp only [List.foldl_cons]
        exact ih (s0.updateNonce md5 c.1 c.2) h1 h2 (by simp [AuthSt.updateNonce, h1, h2])
    exact this challenges _ rfl rfl rfl
  refine ⟨hinv.1, hinv.2.1, hinv.2.2, ?_⟩
  intro hm htx hp hr hn hlt hs
  obtain ⟨hmi, _, d, hd, _, _, _, hdr, hdn, _⟩ := turn_requests_verify P tx s.auth peer ch lt m hm htx hp hr hn hlt hs
  refine ⟨d, hd, hdr, hdn, ?_⟩
  rw [← hinv.2.2]; exact hmi

/-- the authenticated Send indication (USERNAME, REALM, NONCE, XOR-PEER-ADDRESS, DATA) verifies under the
client's key and decodes to its peer and payload -/
theorem turn_send_indication_verifies (P : Prims) (tx : Bytes) (a : Auth) (peer : Addr) (data : Bytes)
    (htx : tx.length = 12) (hp : peer.Wf) (hr : validUtf8 a.realm = true) (hn : validUtf8 a.nonce = true)
    (hs : Sized (sendIndication tx (some a) peer data).1) :
    let m := (sendIndication tx (some a) peer data).1
    integrityOk P a.key (encode P m (some a.key) true) = true ∧ fingerprintOk P (encode P m (some a.key) true) = true ∧
    ∃ d, decode (encode P m (some a.key) true) = .ok d ∧ d.cls = .indication ∧ d.method = .send ∧
      d.peer = some peer ∧ d.data = some data := by
  intro m
  have hok : ∀ x ∈ m.attrs, x.Ok := by
    intro x hx
    simp only [m, sendIndication, authAttrs, List.cons_append, List.nil_append, List.mem_cons, List.not_mem_nil, or_false] at hx
    rcases hx with rfl | rfl | rfl | rfl | rfl <;> first | trivial | assumption
  have hwf : m.Wf := ⟨htx, fun x hx => StunRfc.Attr.Ok.addrWf (hok x hx)⟩
  refine ⟨mi_verifies P m a.key true hwf hs, fp_verifies P m (some a.key) hwf hs, _,
    stun_decode_encode P m (some a.key) true htx hok hs, ?_⟩
  simp [m, sendIndication, authAttrs, applyAttr, emptyDecoded]

/-! ### ICE candidate priority (RFC 8445 §5.1.2.1) -/

/-- **prio_formula**: `priority = 2^24·type-pref + 2^8·local-pref + (256 − component)` for every
candidate type, transport flavour and component id 1..256, with the generated preference tables. -/
theorem prio_formula (t : CandType) (c : Nat) (h1 : 1 ≤ c) (h2 : c ≤ 256) :
    priorityFor t c = rfcPriority (typePrefUdp t) iceLocalPrefUdp c ∧
    ∀ tt, priorityForTcp t c tt = rfcPriority (typePrefTcp t) (localPrefTcp tt) c := by
  refine ⟨?_, fun tt => ?_⟩
  · exact combine_eq_rfc _ _ _ (by cases t <;> decide) (by decide) h1 h2
  · exact combine_eq_rfc _ _ _ (by cases t <;> decide) (by cases tt <;> decide) h1 h2

/-- priorities lie in the RFC's range `1 … 2^31 − 1`, and a better type always wins over component
and transport flavour: host > prflx > srflx > relay. -/
theorem prio_range_and_order (c c' : Nat) (h1 : 1 ≤ c) (h2 : c ≤ 256) (h1' : 1 ≤ c') (h2' : c' ≤ 256)
    (t : CandType) (tt tt' : TcpType) :
    1 ≤ priorityFor t c ∧ priorityFor t c ≤ 2 ^ 31 - 1 ∧
    1 ≤ priorityForTcp t c tt ∧ priorityForTcp t c tt ≤ 2 ^ 31 - 1 ∧
    priorityFor .host c > priorityForTcp .prflx c' tt ∧ priorityForTcp .host c tt > priorityFor .prflx c' ∧
    priorityFor .prflx c > priorityForTcp .srflx c' tt ∧ priorityForTcp .prflx c tt > priorityFor .srflx c' ∧
    priorityFor .srflx c > priorityForTcp .relay c' tt ∧ priorityForTcp .srflx c tt > priorityFor .relay c' ∧
    (c < c' → priorityFor t c > priorityFor t c') := by
  have hf := fun t c h1 h2 => prio_formula t c h1 h2
  simp only [(hf _ c h1 h2).1, (hf _ c h1 h2).2, (hf _ c' h1' h2').1, (hf _ c' h1' h2').2]
  cases t <;> cases tt <;> cases tt' <;>
    simp only [rfcPriority, typePrefUdp, typePrefTcp, localPrefTcp, icePrefUdpHost_val,
      icePrefUdpPeerReflexive_val, icePrefUdpServerReflexive_val, icePrefUdpRelay_val, icePrefTcpHost_val,
      icePrefTcpPeerReflexive_val, icePrefTcpServerReflexive_val, icePrefTcpRelay_val, iceLocalPrefUdp_val,
      iceLocalPrefTcpPassive_val, iceLocalPrefTcpActive_val, iceLocalPrefTcpSo_val, Nat.reducePow] <;> omega

example : priorityFor .host 1 = 2130706431 ∧ priorityForTcp .host 1 .active = 2130706175 ∧
    priorityFor .relay 2 = 16777214 := by decide

/-! ### candidate-pair priority (RFC 8445 §6.1.2.3) -/

/-- **pair_priority_formula**: the value is the RFC's `2^32·MIN(G,D) + 2·MAX(G,D) + (G>D ? 1 : 0)` with G the
controlling agent's candidate priority — hence the controlling agent (local `l`, remote `r`) and the
controlled agent (local `r`, remote `l`) compute the same number for the same pair. (By unfolding; the
statement about the ORDER the stack computes from these numbers is `pair_order_agree_stack` /
`pair_order_tie_witness`.) -/
theorem pair_priority_formula (l r : Nat) :
    pairPriority .controlling l r = 2 ^ 32 * min l r + 2 * max l r + (if l > r then 1 else 0) ∧
    pairPriority .controlled l r = 2 ^ 32 * min r l + 2 * max r l + (if r > l then 1 else 0) ∧
    pairPriority .controlling l r = pairPriority .controlled r l :=
  ⟨rfl, rfl, rfl⟩

/-- It fits `u64` (no wrap / overflow panic) unless *both* priorities are `2^32 − 1`; in particular
for all priorities in the RFC range `< 2^31`. -/
theorem pair_priority_fits_u64 (role : Role) (l r : Nat) (hl : l < 2 ^ 32) (hr : r < 2 ^ 32)
    (h : min l r < 2 ^ 32 - 1) : pairPriority role l r < 2 ^ 64 := by
  cases role <;> simp only [pairPriority, Nat.reducePow, Nat.min_def, Nat.max_def] at * <;>
    (repeat' split) <;> (try split at h) <;> omega

/-- For priorities in the RFC range (`< 2^31`) the pair priority is injective: distinct (G, D) never tie. -/
theorem pair_priority_injective (role : Role) (l r l' r' : Nat) (hl : l < 2 ^ 31) (hr : r < 2 ^ 31)
    (hl' : l' < 2 ^ 31) (hr' : r' < 2 ^ 31) (h : pairPriority role l r = pairPriority role l' r') :
    l = l' ∧ r = r' := by
  cases role <;> simp only [pairPriority, Nat.reducePow, Nat.min_def, Nat.max_def] at * <;>
    (repeat' split at h) <;> omega

/-- …and it is *not* injective beyond that range (priorities are only `u32`-checked by `from_sdp`). -/
theorem pair_priority_collision_witness :
    pairPriority .controlling 1 1 = pairPriority .controlling 0 (2 ^ 31 + 1) := by decide

/-- the overflow corner is real (debug builds panic, release builds wrap): both priorities `2^32−1` -/
theorem pair_priority_overflow_witness : ¬ pairPriority .controlling (2 ^ 32 - 1) (2 ^ 32 - 1) < 2 ^ 64 := by
  decide

/-! ### the ordering of candidate pairs the stack actually computes (`perform_connectivity_checks_async`) -/

/-- the checks are started in non-increasing pair-priority order (RFC 8445 §6.1.2.3), for every candidate set
and either role (without the optional `prefer_srflx_over_natted_host` re-sort) -/
theorem checks_in_pair_priority_order (role : Role) (locals remotes : List IcePairs.PCand) :
    IcePairs.SortedDesc (IcePairs.prio role) (IcePairs.checkOrder role false locals remotes) := by
  simp only [IcePairs.checkOrder, Bool.false_eq_true, ↓reduceIte, IcePairs.sortByPriority]
  exact IcePairs.sorted_stableSort _ _

/-- **pair_order_agree_stack**: agent A (controlling, locals `LA`, remotes `LB`) and agent B (controlled, locals
`LB`, remotes `LA`) check the SAME pairs in the SAME order — provided (1) the formation filter keeps a pair on
one side iff it keeps the swapped pair on the other (it is not symmetric in general: loopback→non-loopback and
the controlled agent's passive-TCP locals are dropped on one side only), (2) no pair is formed twice, and (3)
distinct pairs have distinct pair priorities. The real `sort_by_key` is stable, so without (3) the order
depends on the candidate order of each side — see `pair_order_tie_witness`. -/
theorem pair_order_agree_stack (LA LB : List IcePairs.PCand)
    (hform : ∀ a ∈ LA, ∀ b ∈ LB, IcePairs.pairOk .controlling a b = IcePairs.pairOk .controlled b a)
    (hnA : (IcePairs.formPairs .controlling LA LB).Nodup) (hnB : (IcePairs.formPairs .controlled LB LA).Nodup)
    (hd : ∀ p ∈ IcePairs.formPairs .controlling LA LB, ∀ q ∈ IcePairs.formPairs .controlling LA LB, p ≠ q →
      IcePairs.prio .controlling p ≠ IcePairs.prio .controlling q) :
    (IcePairs.checkOrder .controlled false LB LA).map Prod.swap = IcePairs.checkOrder .controlling false LA LB :=
  IcePairs.check_lists_agree LA LB hform hnA hnB hd

/-- non-vacuity: one host + one server-reflexive candidate on each side -/
example : let h (i : Nat) : IcePairs.PCand := ⟨i, priorityFor .host 1, false, 1, false, true, false, true, true⟩
    let r (i : Nat) : IcePairs.PCand := ⟨i, priorityFor .srflx 1, false, 1, false, true, false, false, false⟩
    let LA := [h 1, r 2]; let LB := [h 3, r 4]
    (∀ a ∈ LA, ∀ b ∈ LB, IcePairs.pairOk .controlling a b = IcePairs.pairOk .controlled b a) ∧
    (IcePairs.formPairs .controlling LA LB).Nodup ∧ (IcePairs.formPairs .controlled LB LA).Nodup ∧
    (∀ p ∈ IcePairs.formPairs .controlling LA LB, ∀ q ∈ IcePairs.formPairs .controlling LA LB, p ≠ q →
      IcePairs.prio .controlling p ≠ IcePairs.prio .controlling q) := by
  decide

/-- **pair_order_tie_witness**: the "same ordering" clause does NOT hold for the stack in general.
`priority_for` uses the constant local preference 65535, so two host candidates of one component on a
multi-homed agent get EQUAL priorities (RFC 8445 §5.1.2 wants them unique); with two such candidates on each
side all four pairs tie and the stable sort leaves each agent with its own nested-loop order:
A checks (a1,b1),(a1,b2),(a2,b1),(a2,b2), B checks (a1,b1),(a2,b1),(a1,b2),(a2,b2). (The checks run
concurrently and the controlling agent's nomination is authoritative, so this does not by itself break a
session; it is recorded as a deviation, not repaired.) -/
theorem pair_order_tie_witness :
    let h (i : Nat) : IcePairs.PCand := ⟨i, priorityFor .host 1, false, 1, false, true, false, true, true⟩
    (IcePairs.checkOrder .controlled false [h 3, h 4] [h 1, h 2]).map Prod.swap ≠
      IcePairs.checkOrder .controlling false [h 1, h 2] [h 3, h 4] := by
  decide

/-- **pair_order_prefer_srflx_witness**: with the optional (non-default) `prefer_srflx_over_natted_host` re-sort the
"same ordering" clause fails even for pairwise DISTINCT pair priorities — `pair_order_agree_stack` and
`checks_in_pair_priority_order` are about the default configuration (`preferSrflx = false`). The re-sort looks at each
side's LOCAL candidate: A (local private host `h`, local srflx `s`; remote public host `p`) demotes (h,p) behind (s,p);
B (local `p`; remotes `h`, `s`) sees no natted local and keeps the priority order. Known finding
`codec:pair-order:agents-disagree:prefer-srflx-over-natted-host-resort`. -/
theorem pair_order_prefer_srflx_witness :
    let h : IcePairs.PCand := ⟨1, priorityFor .host 1, false, 1, false, true, false, true, true⟩
    let s : IcePairs.PCand := ⟨2, priorityFor .srflx 1, false, 1, false, true, false, false, false⟩
    let p : IcePairs.PCand := ⟨3, priorityFor .host 1 - 256, false, 1, false, true, false, true, false⟩
    (IcePairs.checkOrder .controlled true [p] [h, s]).map Prod.swap ≠ IcePairs.checkOrder .controlling true [h, s] [p] ∧
    (IcePairs.checkOrder .controlled false [p] [h, s]).map Prod.swap = IcePairs.checkOrder .controlling false [h, s] [p] := by
  decide

/-- **selected_pair_has_highest_priority**: the pair the agent USES (the part of
`perform_connectivity_checks_async` after the checks: `successful_pairs.sort_by_key(Reverse(priority))`, `[0]`,
`successful_nominations.sort_by_key(..)`, `.first()`), for any arrival order of the results:
the controlling agent ends with the highest-priority pair among the nominations that succeeded
(nomination complete, Connected), or — when no nomination succeeded — with the highest-priority pair among the
checks that succeeded (nomination failed, Failed); the controlled agent's provisional pair is the
highest-priority pair among its successful checks, and nothing is touched once the peer has nominated. -/
theorem selected_pair_has_highest_priority (role : Role) (succ noms : List IcePairs.PPair) (peerNominated : Bool)
    (o : IcePairs.Outcome) (h : IcePairs.conclude role succ noms peerNominated = some o) :
    (role = .controlling → noms ≠ [] →
      o.selected ∈ noms ∧ (∀ q ∈ noms, IcePairs.prio role q ≤ IcePairs.prio role o.selected) ∧
      o.nominationComplete = some true ∧ o.connected = true) ∧
    (role = .controlling → noms = [] →
      o.selected ∈ succ ∧ (∀ q ∈ succ, IcePairs.prio role q ≤ IcePairs.prio role o.selected) ∧
      o.nominationComplete = some false ∧ o.connected = false) ∧
    (role = .controlled →
      peerNominated = false ∧ o.selected ∈ succ ∧ (∀ q ∈ succ, IcePairs.prio role q ≤ IcePairs.prio role o.selected) ∧
      o.connected = true) := by
  unfold IcePairs.conclude at h
  cases hb : IcePairs.best role succ with
  | none => rw [hb] at h; simp at h
  | some top =>
    rw [hb] at h
    have ht := IcePairs.best_some role succ top hb
    cases role with
    | controlling =>
      simp only at h
      cases hn : IcePairs.best .controlling noms with
      | none =>
        rw [hn] at h
        have hnil := (IcePairs.best_none _ _).mp hn
        simp only [Option.some.injEq] at h; subst h
        exact ⟨fun _ hne => absurd hnil hne, fun _ _ => ⟨ht.1, ht.2, rfl, rfl⟩, fun hc => by cases hc⟩
      | some f =>
        rw [hn] at h
        have hf := IcePairs.best_some _ noms f hn
        simp only [Option.some.injEq] at h; subst h
        refine ⟨fun _ _ => ⟨hf.1, hf.2, rfl, rfl⟩, fun _ hnil => ?_, fun hc => by cases hc⟩
        rw [hnil] at hf; simp at hf
    | controlled =>
      simp only at h
      cases peerNominated with
      | true => simp at h
      | false =>
        simp only [Bool.false_eq_true, ↓reduceIte, Option.some.injEq] at h; subst h
        exact ⟨fun hc => (by cases hc), fun hc => (by cases hc), fun _ => ⟨rfl, ht.1, ht.2, rfl⟩⟩

/-- **both_agents_use_same_pair**: if the same checks succeeded on both sides (B's successful pairs are A's,
swapped) and distinct pairs have distinct pair priorities, the controlled agent's provisional pair is the
controlling agent's highest-priority successful pair — whatever the arrival orders. The priority hypothesis is
about the numbers each agent HOLDS for the same candidates being equal (see
`peer_reflexive_priority_from_request`) and distinct (see `pair_order_tie_witness`). -/
theorem both_agents_use_same_pair (succ : List IcePairs.PPair)
    (hd : ∀ p ∈ succ, ∀ q ∈ succ, p ≠ q → IcePairs.prio .controlling p ≠ IcePairs.prio .controlling q) :
    IcePairs.best .controlled (succ.map Prod.swap) = (IcePairs.best .controlling succ).map Prod.swap := by
  cases hb : IcePairs.best .controlling succ with
  | none => rw [(IcePairs.best_none _ _).mp hb]; rfl
  | some p =>
    obtain ⟨hp, hmax⟩ := IcePairs.best_some _ _ _ hb
    simp only [Option.map_some]
    apply IcePairs.best_unique
    · exact List.mem_map.mpr ⟨p, hp, rfl⟩
    · intro q' hq' hne
      obtain ⟨q, hq, rfl⟩ := List.mem_map.mp hq'
      have hqp : q ≠ p := fun e => hne (by rw [e])
      have e1 : IcePairs.prio .controlled (Prod.swap q) = IcePairs.prio .controlling q := by
        rw [← IcePairs.prio_swap]; simp
      have e2 : IcePairs.prio .controlled (Prod.swap p) = IcePairs.prio .controlling p := by
        rw [← IcePairs.prio_swap]; simp
      rw [e1, e2]
      have := hmax q hq
      have := hd q hq p hp hqp
      omega

/-- **connectivity_check_accepted_by_peer**: the connectivity check / nomination request the agent composes
(`perform_binding_check`: SOFTWARE, USERNAME `remote:local`, PRIORITY, ICE-CONTROLLING or ICE-CONTROLLED, optional
USE-CANDIDATE; MESSAGE-INTEGRITY under the REMOTE password; FINGERPRINT) passes the credential check of a
peer running this same stack with that ufrag and password — for every role, priority, tie-breaker and flag. -/
theorem connectivity_check_accepted_by_peer (P : Prims) (tx lu ru rpwd : Bytes) (role : Role) (prio tie : Nat) (nom : Bool)
    (htx : tx.length = 12) (hcolon : (58 : UInt8) ∉ ru) (hutf : validUtf8 (ru ++ 58 :: lu) = true)
    (hs : Sized (IcePairs.connectivityCheck tx lu ru role prio tie nom)) :
    IceAuth.codeAuth P ru rpwd (encode P (IcePairs.connectivityCheck tx lu ru role prio tie nom) (some rpwd) true) = true := by
  have hattrs : (IcePairs.connectivityCheck tx lu ru role prio tie nom).attrs =
      [IcePairs.software] ++ Attr.username (ru ++ 58 :: lu) ::
        ((IcePairs.connectivityCheck tx lu ru role prio tie nom).attrs.drop 2) := by
    cases role <;> cases nom <;> simp [IcePairs.connectivityCheck]
  have hwf : (IcePairs.connectivityCheck tx lu ru role prio tie nom).Wf := by
    refine ⟨htx, ?_⟩
    intro a ha
    cases role <;> cases nom <;> simp [IcePairs.connectivityCheck, IcePairs.software] at ha <;>
      rcases ha with rfl | rfl | rfl | rfl | rfl <;> trivial
  exact IceAuth.codeAuth_complete P ru rpwd lu _ true [IcePairs.software] _ hattrs (by decide) hcolon hutf hwf hs

/-- **peer_reflexive_priority_from_request** (RFC 8445 §7.3.1.3, holds since the `fix:` commit; before, the
decoder did not expose PRIORITY and the learnt candidate got `priority_for(PeerReflexive, 1)`): decoding the
connectivity check a peer composes for a local candidate of priority `prio` yields `priority = some prio`, the
peer-reflexive candidate learnt from it carries exactly `prio`, and so the receiver (local priority `q`)
computes for the pair the very number the sender computes — the presupposition of the same-ordering clause
("swapped local/remote priorities") holds for peer-reflexive candidates too. -/
theorem peer_reflexive_priority_from_request (P : Prims) (tx lu ru rpwd : Bytes) (role : Role) (prio tie q : Nat) (nom : Bool)
    (sock : IceAuth.Sock) (src : Addr)
    (htx : tx.length = 12) (hp : prio < 4294967296) (hs : Sized (IcePairs.connectivityCheck tx lu ru role prio tie nom)) :
    ∃ d, decode (encode P (IcePairs.connectivityCheck tx lu ru role prio tie nom) (some rpwd) true) = .ok d ∧
      d.priority = some prio ∧ (IceAuth.prflxCand sock src d.priority).priority = prio ∧
      pairPriority .controlled q (IceAuth.prflxCand sock src d.priority).priority = pairPriority .controlling prio q ∧
      pairPriority .controlling q (IceAuth.prflxCand sock src d.priority).priority = pairPriority .controlled prio q := by
  have hok : ∀ a ∈ (IcePairs.connectivityCheck tx lu ru role prio tie nom).attrs, a.Ok := by
    intro a ha
    cases role <;> cases nom <;> simp [IcePairs.connectivityCheck, IcePairs.software] at ha <;>
      rcases ha with rfl | rfl | rfl | rfl | rfl <;> first | trivial | exact hp
  have hd := stun_decode_encode P _ (some rpwd) true (by exact htx) hok hs
  refine ⟨_, hd, ?_⟩
  have hpr : ((IcePairs.connectivityCheck tx lu ru role prio tie nom).attrs.foldl applyAttr
      (emptyDecoded (IcePairs.connectivityCheck tx lu ru role prio tie nom).cls
        (IcePairs.connectivityCheck tx lu ru role prio tie nom).method
        (IcePairs.connectivityCheck tx lu ru role prio tie nom).tx)).priority = some prio := by
    cases role <;> cases nom <;> simp [IcePairs.connectivityCheck, IcePairs.software, applyAttr, emptyDecoded]
  rw [hpr]
  refine ⟨rfl, rfl, ?_, ?_⟩ <;> simp [IceAuth.prflxCand, pairPriority]

/-! ### candidate lines (`to_sdp` / `from_sdp`)

`WfCand T c` (all decidable given the two std functions): the foundation and transport are
whitespace-free non-empty tokens, the foundation does not start with `candidate:`, the transport is
already lower-case, a `tcptype` is only present on `tcp` candidates, component / priority / ports fit
their integer types, and for the candidate's address (and related address) std's
`SocketAddr::from_str` inverts `IpAddr::to_string` (`AddrOk`; checked on every harness case). -/

/-- **candidate_line_roundtrip**: `from_sdp(to_sdp(c)) = c` for every candidate tuple (type, transport,
tcptype, component, address family, related address) — except that the related address of a *host*
candidate, which `to_sdp` never prints (host candidates have no raddr/rport), is dropped. Holds since the
`fix:` commit that parses raddr/rport. -/
theorem candidate_line_roundtrip (T : AddrText) (c : Cand) (h : WfCand T c) :
    fromSdp T (toSdp T c) = .ok (normalize c) ∧
    (c.typ ≠ .host ∨ c.related = none → normalize c = c) := by
  refine ⟨fromSdp_toSdp T c h, fun hc => ?_⟩
  obtain ⟨fo, pr, ad, ty, tr, tt, re, co⟩ := c
  simp only [normalize]
  rcases hc with hc | hc
  · simp only at hc; simp [hc]
  · simp only at hc; subst hc; simp

/-- **candidate_line_stable**: the *line* survives the round trip for every well-formed candidate,
host candidates with an internal related address included: printing what `from_sdp` parsed gives the
same line again. -/
theorem candidate_line_stable (T : AddrText) (c : Cand) (h : WfCand T c) :
    ∃ c', fromSdp T (toSdp T c) = .ok c' ∧ toSdp T c' = toSdp T c := by
  refine ⟨normalize c, fromSdp_toSdp T c h, ?_⟩
  obtain ⟨fo, pr, ad, ty, tr, tt, re, co⟩ := c
  simp only [toSdp, toParts, normalize]
  by_cases hty : ty = .host
  · subst hty; cases re <;> simp
  · simp [hty]

/-- the OTHER reading of "candidate lines survive" — `to_sdp(from_sdp(line)) = line` for a line written by
another agent — does not hold and is not claimed: `from_sdp` ignores every extension attribute it does not
know (`generation`, `ufrag`, `network-id`, `network-cost`, …; browsers always send some), lower-cases the
transport and strips a `candidate:` prefix. Stated for extension tokens: a well-formed candidate line followed
by any extension pair `k v` (k ≠ `tcptype`) parses to the same candidate as the line without it, so printing
it again yields the shorter line. -/
theorem candidate_line_extensions_dropped (T : AddrText) (c : Cand) (k v : Str) (h : WfCand T c)
    (hnone : c.tcpType = none ∧ c.related = none) (hk : IsTok k) (hv : IsTok v) (hne : k ≠ "tcptype".toList) :
    fromSdp T (joinSp (toParts T c ++ [k, v])) = .ok c ∧ (toParts T c ++ [k, v]).length = (toParts T c).length + 2 :=
  ⟨fromSdp_with_extension T c k v h hnone hk hv hne, by simp⟩

/-- non-vacuity: a server-reflexive UDP candidate with a related address, for a (table) `AddrText` that
behaves like std on its two addresses, satisfies `WfCand`. -/
example :
    let T : AddrText := {
      showIp := fun a => match a with
        | .v4 [203, 0, 113, 7] _ => "203.0.113.7".toList
        | _ => "192.168.1.10".toList
      parseSock := fun s =>
        if s = "203.0.113.7:46154".toList then some (.v4 [203, 0, 113, 7] 46154)
        else if s = "192.168.1.10:5000".toList then some (.v4 [192, 168, 1, 10] 5000) else none }
    WfCand T { foundation := "842163049".toList, priority := 1677729535, address := .v4 [203, 0, 113, 7] 46154,
               typ := .srflx, transport := "udp".toList, tcpType := none,
               related := some (.v4 [192, 168, 1, 10] 5000), component := 1 } := by
  intro T
  refine ⟨⟨by decide, by decide⟩, by decide, ⟨by decide, by decide⟩, by decide, by decide, by decide, by decide,
    ⟨⟨by decide, by decide⟩, by decide, by simp [T, sockText, Addr.port, showDec, digitChar]⟩, ?_⟩
  intro a ha
  simp only [Option.some.injEq] at ha
  subst ha
  exact ⟨⟨by decide, by decide⟩, by decide, by simp [T, sockText, Addr.port, showDec, digitChar]⟩

/-! ### ICE server URIs (RFC 7064 / RFC 7065) -/

/-- **ice_server_uri_parse**: every URI of the RFC syntax `scheme ":" host [":" port] ["?transport=" udp|tcp]`
(schemes stun, stuns, turn, turns; any host without `:` / `?`; any port 0..65535; transport only on
turn(s)) parses to its kind, host, the explicit or default port (3478 / 5349) and the explicit or default
transport (udp / tcp for the secure schemes). -/
theorem ice_server_uri_parse (sc : IceUri.Scheme) (host : Str) (port : Option Nat) (tr : Option IceUri.Tr)
    (_hne : host ≠ []) (hh1 : ':' ∉ host) (hh2 : '?' ∉ host) (hp : ∀ p, port = some p → p ≤ 65535)
    (hstun : sc.kind = .stun → tr = none) :
    IceUri.parse (IceUri.printUri sc host port tr) =
      .ok ⟨sc.kind, host, port.getD sc.port, tr.getD sc.tr⟩ :=
  IceUri.parse_printUri sc host port tr hh1 hh2 hp hstun

example : IceUri.printUri .turns "example.org".toList (some 443) (some .udp) = "turns:example.org:443?transport=udp".toList ∧
    IceUri.printUri .stun "192.0.2.1".toList none none = "stun:192.0.2.1".toList := by
  constructor <;> simp [IceUri.printUri, IceUri.portPart, IceUri.queryPart, IceUri.Scheme.str, IceUri.Tr.str, showDec, digitChar]

/-- RFC 7064 §3.1 allows an IP-literal host; `IceServerUri::parse` splits host and port at the LAST `:` and
therefore rejects `stun:[2001:db8::1]` (no port) with "invalid port" — an RFC deviation in an anchored
mechanism (the property statement does not mention URIs; recorded, not repaired). With an explicit port the
literal is accepted and the host keeps its brackets. -/
theorem ice_server_uri_ipv6_literal_witness :
    IceUri.parse "stun:[2001:db8::1]".toList = .error .port ∧
    IceUri.parse "stun:[2001:db8::1]:3478".toList = .ok ⟨.stun, "[2001:db8::1]".toList, 3478, .udp⟩ := by
  constructor <;> simp [IceUri.parse, IceUri.splitOnce, IceUri.splitQuery, IceUri.hostPort, IceUri.rsplitOnce, parseUInt, parseDigits,
    digitVal, IceUri.defaultPort, IceUri.defaultTransport, IceUri.queryTransport, IceUri.finish, IceUri.containsSub]

/-- RFC 7064 §3.1 requires a host (`ice_server_uri_parse` therefore assumes `host ≠ []`); the code does not:
`stun:` and `turn:` parse to a server with the EMPTY host name (the failure surfaces only when the
name is resolved). Recorded deviation, not repaired (the property statement does not mention URIs). -/
theorem ice_server_uri_empty_host_witness :
    IceUri.parse "stun:".toList = .ok ⟨.stun, [], 3478, .udp⟩ ∧
    IceUri.parse "turn:".toList = .ok ⟨.turn, [], 3478, .udp⟩ := by
  constructor <;> simp [IceUri.parse, IceUri.splitOnce, IceUri.splitQuery, IceUri.hostPort, IceUri.rsplitOnce, parseUInt, parseDigits,
    digitVal, IceUri.defaultPort, IceUri.defaultTransport, IceUri.queryTransport, IceUri.finish, IceUri.containsSub]

/-! ### alignment -/

/-- every encoded message has a length that is a multiple of 4 (RFC 5389 §6), whatever the attribute
lengths — 20-byte header plus padded attributes. -/
theorem encode_length_aligned (P : Prims) (m : Msg) (key : Option Bytes) (fp : Bool) (htx : m.tx.length = 12) :
    (encode P m key fp).length % 4 = 0 := by
  have h0 : (appendAttrs (header m) m.attrs m.tx).length % 4 = 0 :=
    appendAttrs_length_mod _ _ _ (by rw [header_length m htx])
  simp only [encode, updLen_length]
  unfold addFingerprint
  split
  · exact appendRaw_length_mod _ _ _
  · unfold addIntegrity
    split
    · simpa [updLen_length] using h0
    · simp only [updLen_length]; exact appendRaw_length_mod _ _ _

end RtcModel.Theorems.C16
