/-
C16 — STUN/TURN messages and ICE priorities conform to the RFCs.
Property theorems only; helper lemmas live in `RtcModel/Lemmas/{Stun,IcePrio}.lean`.

HMAC-SHA1 and CRC-32 are abstract: every theorem about `encode` quantifies over all `Prims`.
-/
import RtcModel.Lemmas.Stun
import RtcModel.Lemmas.StunRfc
import RtcModel.Lemmas.IcePrio
import RtcModel.Lemmas.IceCand
import RtcModel.Lemmas.Turn
import RtcModel.Lemmas.IceUri

namespace RtcModel.Theorems.C16
open RtcModel.Stun RtcModel.StunRfc RtcModel.IcePrio RtcModel.IceCand RtcModel.Turn RtcModel.C16Bytes RtcModel.Generated

/-! ### generated-constant obligations (the tables of the code are the RFC's) -/

/-- RFC 5389 §6 / RFC 5766 §13: method numbers, class bits and masks; encoder and decoder tables agree. -/
theorem const_message_type_tables :
    stunMagicCookie = 0x2112A442 ∧ stunFingerprintXor = 0x5354554e ∧
    stunEncMethodBinding = 0x001 ∧ stunEncMethodAllocate = 0x003 ∧ stunEncMethodRefresh = 0x004 ∧
    stunEncMethodSend = 0x006 ∧ stunEncMethodData = 0x007 ∧ stunEncMethodCreatePermission = 0x008 ∧
    stunEncMethodChannelBind = 0x009 ∧
    stunDecMethodBinding = stunEncMethodBinding ∧ stunDecMethodAllocate = stunEncMethodAllocate ∧
    stunDecMethodRefresh = stunEncMethodRefresh ∧ stunDecMethodSend = stunEncMethodSend ∧
    stunDecMethodData = stunEncMethodData ∧ stunDecMethodCreatePermission = stunEncMethodCreatePermission ∧
    stunDecMethodChannelBind = stunEncMethodChannelBind ∧
    stunEncClassRequest = 0x0000 ∧ stunEncClassIndication = 0x0010 ∧ stunEncClassSuccessResponse = 0x0100 ∧
    stunEncClassErrorResponse = 0x0110 ∧
    stunDecClassRequest = stunEncClassRequest ∧ stunDecClassIndication = stunEncClassIndication ∧
    stunDecClassSuccessResponse = stunEncClassSuccessResponse ∧ stunDecClassErrorResponse = stunEncClassErrorResponse ∧
    stunDecMethodMask = 0x3EEF ∧ stunDecClassMask = 0x0110 := by decide

/-- IANA STUN attribute registry numbers (RFC 5389 §18.2, RFC 5766 §14, RFC 8445 §16.1). -/
theorem const_attribute_codes :
    stunEncAttrUsername = 0x0006 ∧ stunEncAttrMessageIntegrity = 0x0008 ∧ stunEncAttrRealm = 0x0014 ∧
    stunEncAttrNonce = 0x0015 ∧ stunEncAttrXorMapped = 0x0020 ∧ stunEncAttrSoftware = 0x8022 ∧
    stunEncAttrFingerprint = 0x8028 ∧ stunEncAttrChannelNumber = 0x000C ∧ stunEncAttrLifetime = 0x000D ∧
    stunEncAttrXorPeer = 0x0012 ∧ stunEncAttrData = 0x0013 ∧ stunEncAttrRequestedTransport = 0x0019 ∧
    stunEncAttrPriority = 0x0024 ∧ stunEncAttrUseCandidate = 0x0025 ∧ stunEncAttrIceControlled = 0x8029 ∧
    stunEncAttrIceControlling = 0x802A ∧
    stunDecAttrXorMapped = stunEncAttrXorMapped ∧ stunDecAttrXorPeer = stunEncAttrXorPeer ∧
    stunDecAttrXorRelayed = 0x0016 ∧ stunDecAttrErrorCode = 0x0009 ∧ stunDecAttrRealm = stunEncAttrRealm ∧
    stunDecAttrNonce = stunEncAttrNonce ∧ stunDecAttrData = stunEncAttrData ∧
    stunDecAttrLifetime = stunEncAttrLifetime ∧ stunDecAttrUseCandidate = stunEncAttrUseCandidate ∧
    stunEncMiAttrLen = 4 + 20 ∧ stunEncFpAttrLen = 4 + 4 := by decide

/-- RFC 8445 §5.1.2.2 recommended type preferences, RFC 6544 §4.2 style local preferences. -/
theorem const_priority_tables :
    icePrefUdpHost = 126 ∧ icePrefUdpPeerReflexive = 110 ∧ icePrefUdpServerReflexive = 100 ∧ icePrefUdpRelay = 0 ∧
    icePrefTcpHost = icePrefUdpHost ∧ icePrefTcpPeerReflexive = icePrefUdpPeerReflexive ∧
    icePrefTcpServerReflexive = icePrefUdpServerReflexive ∧ icePrefTcpRelay = icePrefUdpRelay ∧
    iceLocalPrefUdp = 65535 ∧ iceLocalPrefTcpPassive ≤ 65535 ∧ iceLocalPrefTcpActive ≤ 65535 ∧
    iceLocalPrefTcpSo ≤ 65535 ∧ iceComponentClamp = 256 := by decide

/-! ### XOR-MAPPED / XOR-PEER / XOR-RELAYED addresses -/

/-- **xor_addr_roundtrip**: for every IPv4/IPv6 socket address and every 96-bit transaction id the
decoder's `parse_xor_address` inverts the encoder's XOR-address value, and the encoder emits exactly
that value as a TLV of the requested type. -/
theorem xor_addr_roundtrip (a : Addr) (tx : Bytes) (ha : a.Wf) (htx : tx.length = 12) :
    parseXor (xorValue a tx) tx = some a ∧
    ∀ buf t, appendXor buf t a tx = appendRaw buf t (xorValue a tx) :=
  ⟨parseXor_xorValue a tx ha htx, fun buf t => appendXor_eq_raw buf t a tx ha htx⟩

example : (Addr.v4 [192, 168, 1, 10] 3478).Wf ∧
    (Addr.v6 [0x20, 1, 0xd, 0xb8, 0, 0, 0, 0, 0, 0, 0, 0, 0, 0, 0, 1] 65535).Wf ∧
    xorValue (.v4 [192, 168, 1, 10] 3478) (zeros 12) = [0, 1, 0x2c, 0x84, 0xe1, 0xba, 0xa5, 0x48] := by
  decide

/-! ### encode / decode, MESSAGE-INTEGRITY, FINGERPRINT, padding

`m.Wf`  : 12-byte transaction id, well-shaped addresses (guaranteed by the Rust types).
`Sized m`: every attribute value and the whole message fit the 16-bit length fields (the encoder casts
          lengths with `as u16`; beyond that the length fields wrap — outside the property's scope
          "string lengths 0..763").
`a.Ok`  : REALM/NONCE are valid UTF-8 (Rust `String`), LIFETIME fits `u32`, addresses well-shaped. -/

/-- **stun_encode_layout**: for all messages, keys and primitives the encoder output is: header with the
final length ++ each attribute as `type, length, value, zero padding to 4` in order ++ MESSAGE-INTEGRITY
(HMAC over header-with-length-up-to-MI ++ preceding attributes) ++ FINGERPRINT (CRC over everything
before it, header length covering it). -/
theorem stun_encode_layout (P : Prims) (m : Msg) (key : Option Bytes) (fp : Bool) (hm : m.Wf) :
    encode P m key fp =
      hdrL m ((body m.tx m.attrs).length + (miPart P m key).length + (fpPart P m key fp).length)
        ++ body m.tx m.attrs ++ miPart P m key ++ fpPart P m key fp :=
  encode_normal_form P m key fp hm

/-- **attr_padding_ok**: for attribute values of *every* length (each residue mod 4) an independent strict
RFC 5389 §15 walk of the encoded message finds exactly the message's attributes (type and value),
followed by MESSAGE-INTEGRITY and FINGERPRINT when requested, each starting on a 4-byte boundary; the
header is well-formed and its length field is the attribute-area length (a multiple of 4). -/
theorem attr_padding_ok (P : Prims) (m : Msg) (key : Option Bytes) (fp : Bool) (hm : m.Wf) (hs : Sized m) :
    walk 20 ((encode P m key fp).drop 20) = some (withOffsets 20 (allTvs P m key fp)) ∧
    headerOk (encode P m key fp) = true ∧
    (∀ e ∈ withOffsets 20 (allTvs P m key fp), e.1 % 4 = 0) := by
  refine ⟨walk_encode P m key fp hm hs, ?_, ?_⟩
  · rw [encode_eq_flat P m key fp hm]
    exact hdrL_headerOk m _ hm.tx_len (allTvs_flat_lt P m key fp hs) (flat_length_mod _)
  · have : ∀ (off : Nat) (tvs : List (Nat × Bytes)), off % 4 = 0 → ∀ e ∈ withOffsets off tvs, e.1 % 4 = 0 := by
      intro off tvs
      induction tvs generalizing off with
      | nil => intro _ e he; simp [withOffsets] at he
      | cons p ps ih =>
        intro h e he
        obtain ⟨t, v⟩ := p
        simp only [withOffsets, List.mem_cons] at he
        rcases he with rfl | he
        · exact h
        · exact ih _ (by have := add_pad4_mod v.length; omega) e he
    exact this 20 _ (by decide)

/-- **mi_verifies**: an independent RFC 5389 §15.4 verifier accepts the MESSAGE-INTEGRITY of every
encoded message under the key it was built with (short-term password or long-term MD5 key alike — the
key is an arbitrary byte string), with or without FINGERPRINT after it. -/
theorem mi_verifies (P : Prims) (m : Msg) (k : Bytes) (fp : Bool) (hm : m.Wf) (hs : Sized m) :
    integrityOk P k (encode P m (some k) fp) = true :=
  integrityOk_encode P m k fp hm hs

/-- **fp_verifies**: an independent RFC 5389 §15.5 verifier accepts the FINGERPRINT of every encoded
message (it is the last attribute, covers everything before it, XOR 0x5354554e). -/
theorem fp_verifies (P : Prims) (m : Msg) (key : Option Bytes) (hm : m.Wf) (hs : Sized m) :
    fingerprintOk P (encode P m key true) = true :=
  fingerprintOk_encode P m key hm hs

/-- **stun_decode_encode**: decoding an encoded message yields the same class, method and transaction id,
and every attribute the decoder exposes reads back the value that was encoded (a repeated attribute
overriding the earlier one); MESSAGE-INTEGRITY / FINGERPRINT do not disturb the result. -/
theorem stun_decode_encode (P : Prims) (m : Msg) (key : Option Bytes) (fp : Bool) (htx : m.tx.length = 12)
    (hok : ∀ a ∈ m.attrs, a.Ok) (hs : Sized m) :
    decode (encode P m key fp) = .ok (m.attrs.foldl applyAttr (emptyDecoded m.cls m.method m.tx)) :=
  decode_encode P m key fp htx hok hs

/-- reading of `stun_decode_encode` for one field: a message whose only XOR-MAPPED-ADDRESS is `a` decodes
with `xor_mapped_address = Some(a)` (same for the other exposed fields). -/
theorem stun_decode_encode_mapped (P : Prims) (c : Class) (mt : Method) (tx : Bytes) (a : Addr)
    (key : Option Bytes) (fp : Bool) (htx : tx.length = 12) (ha : a.Wf) :
    (decode (encode P ⟨c, mt, tx, [.xorMapped a]⟩ key fp)).toOption.map (·.mapped) = some (some a) := by
  have hs : Sized ⟨c, mt, tx, [.xorMapped a]⟩ := by
    have hl := xorValue_length a tx ha htx
    constructor
    · intro x hx; simp only [List.mem_singleton] at hx; subst hx
      simp only [attrValue]; cases a <;> simp_all
    · simp only [body, List.map_cons, List.map_nil, List.flatten_cons, List.flatten_nil, List.append_nil,
        tlv_length, attrValue]
      have := pad4_lt (xorValue a tx).length
      cases a <;> simp_all <;> omega
  rw [stun_decode_encode P _ key fp htx (by intro x hx; simp only [List.mem_singleton] at hx; subst hx; exact ha) hs]
  simp [applyAttr, emptyDecoded, Except.toOption]

/-- non-vacuity: a Binding request with USERNAME (11 bytes, padded), PRIORITY, ICE-CONTROLLING,
USE-CANDIDATE and an IPv6 XOR-MAPPED-ADDRESS meets all hypotheses. -/
example : let m : Msg := ⟨.request, .binding, zeros 12,
      [.username [97, 98, 99, 58, 100, 101, 102, 103, 104, 105, 106], .priority 1845501695, .iceControlling 7,
       .useCandidate, .xorMapped (.v6 (zeros 15 ++ [1]) 443), .realm [0xC3, 0xA9]]⟩
    m.Wf ∧ Sized m ∧ ∀ a ∈ m.attrs, a.Ok := by
  refine ⟨⟨rfl, by decide⟩, ⟨by decide, by decide⟩, by decide⟩

/-! ### TURN: ChannelData, channel numbers, Data indications, authenticated requests -/

/-- RFC 5766 §11: channel numbers 0x4000–0x7FFF on both the allocating and the receiving side. -/
theorem const_turn_channels :
    turnRxChannelLo = 0x4000 ∧ turnRxChannelHi = 0x7FFF ∧ turnChannelFirst = 0x4000 ∧
    turnChannelLast = turnRxChannelHi ∧ turnChannelWrapTo = turnRxChannelLo ∧
    turnRequestedTransportUdp = 17 ∧ turnDefaultLifetime = 600 ∧
    iceUriDefaultPortPlain = 3478 ∧ iceUriDefaultPortSecure = 5349 := by decide

/-- **channeldata_roundtrip**: a ChannelData frame built by `send_channel_data` for any channel in the
TURN range and any payload (< 2^16 bytes) is recognised by the receive path as exactly that channel and
payload; the frame is 4 bytes + payload, unpadded (RFC 5766 §11.5, UDP). -/
theorem channeldata_roundtrip (ch : Nat) (data : Bytes) (h1 : turnRxChannelLo ≤ ch) (h2 : ch ≤ turnRxChannelHi)
    (hd : data.length < 65536) :
    classifyRx (channelData ch data) = .chan ch data ∧ (channelData ch data).length = 4 + data.length := by
  refine ⟨classifyRx_channelData ch data h1 h2 hd, ?_⟩
  simp [channelData]; omega

/-- every channel number `create_channel_bind_packet` ever allocates stays in the TURN range (it starts
at 0x4000, wraps from 0x7FFF to 0x4000), hence its ChannelData frames are always recognised. -/
theorem channel_numbers_in_range (n : Nat) (h1 : turnRxChannelLo ≤ n) (h2 : n ≤ turnRxChannelHi) :
    (nextChannel n).1 = n ∧ turnRxChannelLo ≤ (nextChannel n).2 ∧ (nextChannel n).2 ≤ turnRxChannelHi ∧
    turnRxChannelLo ≤ turnChannelFirst ∧ turnChannelFirst ≤ turnRxChannelHi := by
  have := nextChannel_range n h1 h2
  exact ⟨this.1, this.2.1, this.2.2, by decide, by decide⟩

/-- a STUN message is never mistaken for ChannelData (first two bits 00 vs 01), and a Data indication
carrying XOR-PEER-ADDRESS and DATA — as a TURN server relays peer traffic — is unwrapped to exactly that
peer and payload, with or without MESSAGE-INTEGRITY / FINGERPRINT. -/
theorem data_indication_roundtrip (P : Prims) (tx : Bytes) (peer : Addr) (data : Bytes) (key : Option Bytes)
    (fp : Bool) (htx : tx.length = 12) (hp : peer.Wf)
    (hs : Sized ⟨.indication, .data, tx, [.xorPeer peer, .data data]⟩) :
    classifyRx (encode P ⟨.indication, .data, tx, [.xorPeer peer, .data data]⟩ key fp) = .dataInd peer data := by
  have hok : ∀ a ∈ [Attr.xorPeer peer, Attr.data data], a.Ok := by
    intro a ha; simp only [List.mem_cons, List.not_mem_nil, or_false] at ha
    rcases ha with rfl | rfl
    · exact hp
    · trivial
  have hm : Msg.Wf ⟨.indication, .data, tx, [.xorPeer peer, .data data]⟩ := ⟨htx, fun a ha => StunRfc.Attr.Ok.addrWf (hok a ha)⟩
  rw [classifyRx_encode P _ key fp hm, stunCase, stun_decode_encode P _ key fp htx hok hs]
  simp [applyAttr, emptyDecoded]

/-- **turn_requests_verify**: each authenticated TURN request the client builds (Allocate retry,
CreatePermission, ChannelBind, Refresh / destroy) passes the independent MESSAGE-INTEGRITY check under
the long-term key and the FINGERPRINT check, and decodes to the method / realm / nonce / peer it was
built for. -/
theorem turn_requests_verify (P : Prims) (tx : Bytes) (a : Auth) (peer : Addr) (ch lt : Nat) (m : Msg)
    (hm : m ∈ [allocateMsg tx (some a), createPermissionMsg tx a peer, channelBindMsg tx a peer ch, refreshMsg tx a lt])
    (htx : tx.length = 12) (hp : peer.Wf) (hr : validUtf8 a.realm = true) (hn : validUtf8 a.nonce = true)
    (hlt : lt < 4294967296) (hs : Sized m) :
    integrityOk P a.key (authed P m a) = true ∧ fingerprintOk P (authed P m a) = true ∧
    ∃ d, decode (authed P m a) = .ok d ∧ d.cls = .request ∧ d.method = m.method ∧ d.tx = tx ∧
      d.realm = some a.realm ∧ d.nonce = some a.nonce ∧
      (m.method = .createPermission ∨ m.method = .channelBind → d.peer = some peer) := by
  have hok : ∀ x ∈ m.attrs, x.Ok := by
    simp only [List.mem_cons, List.not_mem_nil, or_false] at hm
    rcases hm with rfl | rfl | rfl | rfl <;> intro x hx <;>
      simp only [allocateMsg, createPermissionMsg, channelBindMsg, refreshMsg, authAttrs, List.cons_append,
        List.nil_append, List.mem_cons, List.not_mem_nil, or_false] at hx <;>
      rcases hx with rfl | rfl | rfl | rfl | rfl <;> first | trivial | assumption | (simp [Attr.Ok, turnDefaultLifetime_val])
  have hmtx : m.tx = tx := by
    simp only [List.mem_cons, List.not_mem_nil, or_false] at hm
    rcases hm with rfl | rfl | rfl | rfl <;> rfl
  have hwf : m.Wf := ⟨hmtx ▸ htx, fun x hx => StunRfc.Attr.Ok.addrWf (hok x hx)⟩
  refine ⟨mi_verifies P m a.key true hwf hs, fp_verifies P m (some a.key) hwf hs, _, 
    stun_decode_encode P m (some a.key) true (hmtx ▸ htx) hok hs, ?_⟩
  simp only [List.mem_cons, List.not_mem_nil, or_false] at hm
  rcases hm with rfl | rfl | rfl | rfl <;>
    simp [allocateMsg, createPermissionMsg, channelBindMsg, refreshMsg, authAttrs, applyAttr, emptyDecoded]

/-! ### ICE candidate priority (RFC 8445 §5.1.2.1) -/

/-- **prio_formula**: `priority = 2^24·type-pref + 2^8·local-pref + (256 − component)` for every
candidate type, transport flavour and component id 1..256, with the generated preference tables. -/
theorem prio_formula (t : CandType) (c : Nat) (h1 : 1 ≤ c) (h2 : c ≤ 256) :
    priorityFor t c = rfcPriority (typePrefUdp t) iceLocalPrefUdp c ∧
    ∀ tt, priorityForTcp t c tt = rfcPriority (typePrefTcp t) (localPrefTcp tt) c := by
  refine ⟨?_, fun tt => ?_⟩
  · exact combine_eq_rfc _ _ _ (by cases t <;> decide) (by decide) h1 h2
  · exact combine_eq_rfc _ _ _ (by cases t <;> decide) (by cases tt <;> decide) h1 h2

/-- priorities lie in the RFC's range `1 … 2^31 − 1`, and a better type always wins over component
and transport flavour: host > prflx > srflx > relay. -/
theorem prio_range_and_order (c c' : Nat) (h1 : 1 ≤ c) (h2 : c ≤ 256) (h1' : 1 ≤ c') (h2' : c' ≤ 256)
    (t : CandType) (tt tt' : TcpType) :
    1 ≤ priorityFor t c ∧ priorityFor t c ≤ 2 ^ 31 - 1 ∧
    1 ≤ priorityForTcp t c tt ∧ priorityForTcp t c tt ≤ 2 ^ 31 - 1 ∧
    priorityFor .host c > priorityForTcp .prflx c' tt ∧ priorityForTcp .host c tt > priorityFor .prflx c' ∧
    priorityFor .prflx c > priorityForTcp .srflx c' tt ∧ priorityForTcp .prflx c tt > priorityFor .srflx c' ∧
    priorityFor .srflx c > priorityForTcp .relay c' tt ∧ priorityForTcp .srflx c tt > priorityFor .relay c' ∧
    (c < c' → priorityFor t c > priorityFor t c') := by
  have hf := fun t c h1 h2 => prio_formula t c h1 h2
  simp only [(hf _ c h1 h2).1, (hf _ c h1 h2).2, (hf _ c' h1' h2').1, (hf _ c' h1' h2').2]
  cases t <;> cases tt <;> cases tt' <;>
    simp only [rfcPriority, typePrefUdp, typePrefTcp, localPrefTcp, icePrefUdpHost_val,
      icePrefUdpPeerReflexive_val, icePrefUdpServerReflexive_val, icePrefUdpRelay_val, icePrefTcpHost_val,
      icePrefTcpPeerReflexive_val, icePrefTcpServerReflexive_val, icePrefTcpRelay_val, iceLocalPrefUdp_val,
      iceLocalPrefTcpPassive_val, iceLocalPrefTcpActive_val, iceLocalPrefTcpSo_val, Nat.reducePow] <;> omega

example : priorityFor .host 1 = 2130706431 ∧ priorityForTcp .host 1 .active = 2130706175 ∧
    priorityFor .relay 2 = 16777214 := by decide

/-! ### candidate-pair priority (RFC 8445 §6.1.2.3) -/

/-- **pair_priority_symmetric**: the controlling agent (local `x`, remote `y`) and the controlled agent
(local `y`, remote `x`) compute the same pair priority — for all priority pairs. -/
theorem pair_priority_symmetric (x y : Nat) :
    pairPriority .controlling x y = pairPriority .controlled y x :=
  pairPriority_swap x y

/-- Hence both agents order any two candidate pairs identically. -/
theorem pair_order_agree (x1 y1 x2 y2 : Nat) :
    (pairPriority .controlling x1 y1 < pairPriority .controlling x2 y2 ↔
      pairPriority .controlled y1 x1 < pairPriority .controlled y2 x2) ∧
    (pairPriority .controlling x1 y1 = pairPriority .controlling x2 y2 ↔
      pairPriority .controlled y1 x1 = pairPriority .controlled y2 x2) := by
  rw [pair_priority_symmetric x1 y1, pair_priority_symmetric x2 y2]
  exact ⟨Iff.rfl, Iff.rfl⟩

/-- The value is the RFC's `2^32·MIN(G,D) + 2·MAX(G,D) + (G>D ? 1 : 0)` with G the controlling
agent's candidate priority. -/
theorem pair_priority_formula (l r : Nat) :
    pairPriority .controlling l r = 2 ^ 32 * min l r + 2 * max l r + (if l > r then 1 else 0) ∧
    pairPriority .controlled l r = 2 ^ 32 * min r l + 2 * max r l + (if r > l then 1 else 0) :=
  ⟨rfl, rfl⟩

/-- It fits `u64` (no wrap / overflow panic) unless *both* priorities are `2^32 − 1`; in particular
for all priorities in the RFC range `< 2^31`. -/
theorem pair_priority_fits_u64 (role : Role) (l r : Nat) (hl : l < 2 ^ 32) (hr : r < 2 ^ 32)
    (h : min l r < 2 ^ 32 - 1) : pairPriority role l r < 2 ^ 64 := by
  cases role <;> simp only [pairPriority, Nat.reducePow, Nat.min_def, Nat.max_def] at * <;>
    (repeat' split) <;> (try split at h) <;> omega

/-- For priorities in the RFC range (`< 2^31`) the pair priority is injective: distinct (G, D) never tie. -/
theorem pair_priority_injective (role : Role) (l r l' r' : Nat) (hl : l < 2 ^ 31) (hr : r < 2 ^ 31)
    (hl' : l' < 2 ^ 31) (hr' : r' < 2 ^ 31) (h : pairPriority role l r = pairPriority role l' r') :
    l = l' ∧ r = r' := by
  cases role <;> simp only [pairPriority, Nat.reducePow, Nat.min_def, Nat.max_def] at * <;>
    (repeat' split at h) <;> omega

/-- …and it is *not* injective beyond that range (priorities are only `u32`-checked by `from_sdp`). -/
theorem pair_priority_collision_witness :
    pairPriority .controlling 1 1 = pairPriority .controlling 0 (2 ^ 31 + 1) := by decide

/-- the overflow corner is real (debug builds panic, release builds wrap): both priorities `2^32−1` -/
theorem pair_priority_overflow_witness : ¬ pairPriority .controlling (2 ^ 32 - 1) (2 ^ 32 - 1) < 2 ^ 64 := by
  decide

/-! ### candidate lines (`to_sdp` / `from_sdp`)

`WfCand T c` (all decidable given the two std functions): the foundation and transport are
whitespace-free non-empty tokens, the foundation does not start with `candidate:`, the transport is
already lower-case, a `tcptype` is only present on `tcp` candidates, component / priority / ports fit
their integer types, and for the candidate's address (and related address) std's
`SocketAddr::from_str` inverts `IpAddr::to_string` (`AddrOk`; checked on every harness case). -/

/-- **candidate_line_roundtrip**: `from_sdp(to_sdp(c)) = c` for every candidate tuple (type, transport,
tcptype, component, address family, related address) — except that the related address of a *host*
candidate, which `to_sdp` never prints (host candidates have no raddr/rport), is dropped. Holds since the
`fix:` commit that parses raddr/rport. -/
theorem candidate_line_roundtrip (T : AddrText) (c : Cand) (h : WfCand T c) :
    fromSdp T (toSdp T c) = .ok (normalize c) ∧
    (c.typ ≠ .host ∨ c.related = none → normalize c = c) := by
  refine ⟨fromSdp_toSdp T c h, fun hc => ?_⟩
  obtain ⟨fo, pr, ad, ty, tr, tt, re, co⟩ := c
  simp only [normalize]
  rcases hc with hc | hc
  · simp only at hc; simp [hc]
  · simp only at hc; subst hc; simp

/-- **candidate_line_stable**: the *line* survives the round trip for every well-formed candidate,
host candidates with an internal related address included: printing what `from_sdp` parsed gives the
same line again. -/
theorem candidate_line_stable (T : AddrText) (c : Cand) (h : WfCand T c) :
    ∃ c', fromSdp T (toSdp T c) = .ok c' ∧ toSdp T c' = toSdp T c := by
  refine ⟨normalize c, fromSdp_toSdp T c h, ?_⟩
  obtain ⟨fo, pr, ad, ty, tr, tt, re, co⟩ := c
  simp only [toSdp, toParts, normalize]
  by_cases hty : ty = .host
  · subst hty; cases re <;> simp
  · simp [hty]

/-- non-vacuity: a server-reflexive UDP candidate with a related address, for a (table) `AddrText` that
behaves like std on its two addresses, satisfies `WfCand`. -/
example :
    let T : AddrText := {
      showIp := fun a => match a with
        | .v4 [203, 0, 113, 7] _ => "203.0.113.7".toList
        | _ => "192.168.1.10".toList
      parseSock := fun s =>
        if s = "203.0.113.7:46154".toList then some (.v4 [203, 0, 113, 7] 46154)
        else if s = "192.168.1.10:5000".toList then some (.v4 [192, 168, 1, 10] 5000) else none }
    WfCand T { foundation := "842163049".toList, priority := 1677729535, address := .v4 [203, 0, 113, 7] 46154,
               typ := .srflx, transport := "udp".toList, tcpType := none,
               related := some (.v4 [192, 168, 1, 10] 5000), component := 1 } := by
  intro T
  refine ⟨⟨by decide, by decide⟩, by decide, ⟨by decide, by decide⟩, by decide, by decide, by decide, by decide,
    ⟨⟨by decide, by decide⟩, by decide, by simp [T, sockText, Addr.port, showDec, digitChar]⟩, ?_⟩
  intro a ha
  simp only [Option.some.injEq] at ha
  subst ha
  exact ⟨⟨by decide, by decide⟩, by decide, by simp [T, sockText, Addr.port, showDec, digitChar]⟩

/-! ### ICE server URIs (RFC 7064 / RFC 7065) -/

/-- **ice_server_uri_parse**: every URI of the RFC syntax `scheme ":" host [":" port] ["?transport=" udp|tcp]`
(schemes stun, stuns, turn, turns; any host without `:` / `?`; any port 0..65535; transport only on
turn(s)) parses to its kind, host, the explicit or default port (3478 / 5349) and the explicit or default
transport (udp / tcp for the secure schemes). -/
theorem ice_server_uri_parse (sc : IceUri.Scheme) (host : Str) (port : Option Nat) (tr : Option IceUri.Tr)
    (hh1 : ':' ∉ host) (hh2 : '?' ∉ host) (hp : ∀ p, port = some p → p ≤ 65535)
    (hstun : sc.kind = .stun → tr = none) :
    IceUri.parse (IceUri.printUri sc host port tr) =
      .ok ⟨sc.kind, host, port.getD sc.port, tr.getD sc.tr⟩ :=
  IceUri.parse_printUri sc host port tr hh1 hh2 hp hstun

example : IceUri.printUri .turns "example.org".toList (some 443) (some .udp) = "turns:example.org:443?transport=udp".toList ∧
    IceUri.printUri .stun "192.0.2.1".toList none none = "stun:192.0.2.1".toList := by
  constructor <;> simp [IceUri.printUri, IceUri.portPart, IceUri.queryPart, IceUri.Scheme.str, IceUri.Tr.str, showDec, digitChar]

/-! ### alignment -/

/-- every encoded message has a length that is a multiple of 4 (RFC 5389 §6), whatever the attribute
lengths — 20-byte header plus padded attributes. -/
theorem encode_length_aligned (P : Prims) (m : Msg) (key : Option Bytes) (fp : Bool) (htx : m.tx.length = 12) :
    (encode P m key fp).length % 4 = 0 := by
  have h0 : (appendAttrs (header m) m.attrs m.tx).length % 4 = 0 :=
    appendAttrs_length_mod _ _ _ (by rw [header_length m htx])
  simp only [encode, updLen_length]
  unfold addFingerprint
  split
  · exact appendRaw_length_mod _ _ _
  · unfold addIntegrity
    split
    · simpa [updLen_length] using h0
    · simp only [updLen_length]; exact appendRaw_length_mod _ _ _

end RtcModel.Theorems.C16
