/-
C07 — no bytes from the network or signaling peer can crash, hang or bloat the stack; operations on
parsed packets are total.  Property theorems only (helper lemmas: `RtcModel/Lemmas/C07*.lean`).

Reading of the property used here:
* "no panic": the model's outcome is never `Res.panic _` — every `Buf` getter, slice index and
  explicit panic site of the Rust code is a model primitive that yields `panic` exactly under
  Rust's panic condition (see `Base/C07Cursor.lean`), so this is not an artefact of totalisation.
* "no unbounded loop": every loop of a model is `loopM` with explicit fuel; fuel exhaustion *is*
  the outcome `panic "hang"`, hence `noPanic_d` also states that the walker leaves its loop within
  the fuel the model gives it (at most `|input| + 1` or a parsed counter `+ 1` iterations).  The
  Lean termination checker accepts every model function (structural recursion on fuel only).
* "no allocation disproportionate to the input": `allocBound_d` bounds the payload bytes the decoder
  requests from the allocator (model accounting, see the model files) by `a·|bs| + b`, for accepted
  *and* rejected inputs.
Theorems quantify over every byte string (`List UInt8`) — no length bound.
-/
import RtcModel.Lemmas.Jitter
import RtcModel.Lemmas.C07Rtp
import RtcModel.Lemmas.C07Ice
import RtcModel.Lemmas.C07Dtls
import RtcModel.Lemmas.C07Sctp
import RtcModel.Lemmas.C07SctpSt
import RtcModel.Lemmas.C07Media
import RtcModel.Lemmas.C07Sdp

namespace RtcModel.Theorems.C07
open RtcModel.C07

/-- run a `Buf`-style decoder on the byte string `bs` -/
def runBuf (m : Cur α) (bs : List UInt8) : Res α := m (Buf.ofList bs) 0
/-- run a slice-style decoder (`fn(&[u8])`) on the byte string `bs` -/
def runSlice (f : Array UInt8 → Cur α) (bs : List UInt8) : Res α := f bs.toArray (Buf.ofList []) 0

/-! ## RTP (src/rtp.rs) -/

/-- generated-constant obligation: the RTCP dispatch codes the model branches on are pairwise distinct
where the code's `match` needs them to be, fit a byte / 5-bit fmt, and the RTP minimum-length check covers
the 12 fixed header bytes the parser then reads unconditionally. -/
theorem const_rtp_codes :
    RtcModel.Generated.c07RtpMinHeader ≥ 12 ∧ RtcModel.Generated.c07RtpVersion < 4 ∧
    [RtcModel.Generated.c07RtcpSr, RtcModel.Generated.c07RtcpRr, RtcModel.Generated.c07RtcpSdes,
     RtcModel.Generated.c07RtcpBye, RtcModel.Generated.c07RtcpRtpfb, RtcModel.Generated.c07RtcpPsfb].Nodup ∧
    RtcModel.Generated.c07FmtNack ≠ RtcModel.Generated.c07FmtTwcc ∧
    [RtcModel.Generated.c07FmtPli, RtcModel.Generated.c07FmtFir, RtcModel.Generated.c07FmtApp].Nodup ∧
    RtcModel.Generated.c07FmtApp < 32 ∧ RtcModel.Generated.c07FmtTwcc < 32 := by decide

/-- `RtpPacket::parse` never panics, on any byte string. -/
theorem noPanic_rtpPacketParse (bs : List UInt8) (s : String) : runBuf Rtp.packetParse bs ≠ .panic s :=
  safe_noPanic (Rtp.packetParse_safe (Buf.ofList bs)) s

/-- `RtpPacket::parse` allocates at most the input copy plus the CSRC vector (≤ 60 bytes). -/
theorem allocBound_rtpPacketParse (bs : List UInt8) : (runBuf Rtp.packetParse bs).allocs ≤ bs.length + 60 := by
  have h := safe_allocs (Rtp.packetParse_safe (Buf.ofList bs))
  simpa [runBuf] using h

/-- `RtpHeader::get_extension(id)` is total on every header-extension block (any profile, any bytes,
any id) and does not allocate. -/
theorem get_extension_total (present : Bool) (profile : Nat) (data : List UInt8) (id : Nat) (b : Buf) (n : Nat) (s : String) :
    Rtp.getExtension ⟨present, profile, data.toArray⟩ id b n ≠ .panic s :=
  safe_noPanic (Rtp.getExtension_safe _ id b n) s

/-- **set_extension_total**: `RtpHeader::set_extension(id, data)` (after the `fix:` commit) is total on every
received extension block — including malformed one-byte-header blocks whose last element overruns —
and allocates at most `10·|block| + 200` bytes. -/
theorem set_extension_total (present : Bool) (profile : Nat) (block : List UInt8) (id : Nat) (data : List UInt8)
    (b : Buf) (s : String) :
    Rtp.setExtension ⟨present, profile, block.toArray⟩ id data.toArray b 0 ≠ .panic s ∧
    (Rtp.setExtension ⟨present, profile, block.toArray⟩ id data.toArray b 0).allocs ≤ 10 * block.length + 200 := by
  have h := Rtp.setExtension_safe ⟨present, profile, block.toArray⟩ id data.toArray b 0
  refine ⟨safe_noPanic h s, ?_⟩
  have h2 := safe_allocs (B := 0 + 10 * block.toArray.size + 200) h
  simpa using h2

/-- **marshal_total**: (lengths-only abstraction: the model re-derives `encoded_len` and the `write_to` put sequence by
hand, so this proves that the two agree with each other for every shape — that they are the code's is the compared
stream `marshal`, incl. the unchecked `marshal_into` fast path run in the same case) `RtpPacket::marshal` of any packet shape (any CSRC count, extension length, payload and
padding length) returns a value or an error; its writes stay inside the `encoded_len` buffer. -/
theorem marshal_total (pt ncsrc : Nat) (hasExt : Bool) (extLen payloadLen paddingLen : Nat) (b : Buf) (n : Nat) (s : String) :
    Rtp.marshal pt ncsrc hasExt extLen payloadLen paddingLen b n ≠ .panic s :=
  safe_noPanic (Rtp.marshal_safe pt ncsrc hasExt extLen payloadLen paddingLen b n) s

/-- `parse_rtcp_packets` (compound walk and every sub-parser) never panics and leaves its loops. -/
theorem noPanic_rtcp (bs : List UInt8) (s : String) : runSlice Rtp.parseRtcp bs ≠ .panic s :=
  safe_noPanic (Rtp.parseRtcp_safe bs.toArray _) s

/-- `parse_rtcp_packets` allocates at most `40·|bs| + 1280` bytes (SR/RR `with_capacity(fmt ≤ 31)`,
REMB `with_capacity(num_ssrc ≤ 255)`, SDES strings ≤ 3·len, NACK expansion ≤ 17 entries per pair). -/
theorem allocBound_rtcp (bs : List UInt8) : (runSlice Rtp.parseRtcp bs).allocs ≤ 40 * bs.length + 1280 := by
  have h := safe_allocs (Rtp.parseRtcp_safe bs.toArray (Buf.ofList []))
  simpa [runSlice] using h

/-- non-vacuity: the models do reach their `ok` branches (a minimal RTP packet, a receiver report) -/
example : (runBuf Rtp.packetParse [0x80, 0, 0, 1, 0, 0, 0, 2, 0, 0, 0, 3, 9]).isPanic = false := by decide +kernel
example : (runSlice Rtp.parseRtcp [0x80, 201, 0, 1, 0, 0, 0, 1]).allocs = 256 + 64 := by decide +kernel

/-! ## STUN / TURN / ICE (src/transports/ice/{stun,mod,turn,shared_tcp,shared_udp}.rs), RTX -/

/-- `StunMessage::decode` (attribute walk + XOR address parse) never panics and leaves its loop. -/
theorem noPanic_stunDecode (bs : List UInt8) (s : String) : runSlice Ice.stunDecode bs ≠ .panic s :=
  safe_noPanic (Ice.stunDecode_safe (B := bs.toArray.size) (Q := fun _ _ _ => True) (n := 0) bs.toArray (by omega)
    (fun _ _ _ => trivial)) s

/-- `StunMessage::decode` allocates at most `|bs|` bytes (REALM / NONCE / DATA copies). -/
theorem allocBound_stunDecode (bs : List UInt8) : (runSlice Ice.stunDecode bs).allocs ≤ bs.length := by
  have h := safe_allocs (Ice.stunDecode_safe (B := bs.toArray.size) (Q := fun _ _ n' => n' ≤ bs.toArray.size)
    (b := Buf.ofList []) (n := 0) bs.toArray (by omega) (fun _ _ h => by omega))
  simpa [runSlice] using h

/-- `verify_message_integrity` (the ICE request authentication added on main) walks any byte string without panic,
terminates, and copies at most the message once. -/
theorem noPanic_verifyMessageIntegrity (bs : List UInt8) (s : String) : runSlice Ice.verifyMi bs ≠ .panic s :=
  safe_noPanic (Ice.verifyMi_safe bs.toArray _) s
theorem allocBound_verifyMessageIntegrity (bs : List UInt8) : (runSlice Ice.verifyMi bs).allocs ≤ bs.length + 20 := by
  simpa [runSlice] using safe_allocs (Ice.verifyMi_safe bs.toArray (Buf.ofList []))

/-- the shared-socket demux key extraction (`peer_ufrag_from_binding_request` → `username_from_stun_bytes`)
is total and allocates at most `2·|bs|`. -/
theorem noPanic_peerUfrag (bs : List UInt8) (s : String) : runSlice Ice.peerUfrag bs ≠ .panic s :=
  safe_noPanic (Ice.peerUfrag_safe bs.toArray _) s
theorem allocBound_peerUfrag (bs : List UInt8) : (runSlice Ice.peerUfrag bs).allocs ≤ 2 * bs.length := by
  have h := safe_allocs (Ice.peerUfrag_safe bs.toArray (Buf.ofList []))
  simpa [runSlice] using h

/-- witness for the known finding `retain:shared_udp::dispatch:registered-ufrag-per-source`: the demux key is extracted from a
Binding request that carries nothing but a USERNAME — 28 bytes, no MESSAGE-INTEGRITY, any transaction id — so whoever knows a
session's ufrag (it is sent in clear) makes the shared port learn a route for its own source address. -/
theorem shared_udp_route_unauthenticated_witness :
    (match runSlice Ice.peerUfrag ([0, 1, 0, 8, 0x21, 0x12, 0xA4, 0x42] ++ List.replicate 12 0 ++ [0, 6, 0, 3, 97, 58, 98, 0]) with
     | .ok r _ _ => r.1 && decide (r.2 = #[97]) | _ => false) = true := by decide +kernel

/-- `IceTransport::handle_turn_packet` (ChannelData framing, Data indication unwrapping, fall-through) followed by
the first-byte classifier of `handle_packet` is total for every datagram from the TURN server, whether or not the
channel is bound — including zero-length ChannelData / DATA payloads (after the `fix:` commit). -/
theorem noPanic_turnPacket (bs : List UInt8) (peerKnown : Bool) (s : String) :
    runSlice (fun a => Ice.turnPacket a peerKnown) bs ≠ .panic s :=
  safe_noPanic (Ice.turnPacket_safe bs.toArray peerKnown _) s

/-- `handle_packet` classifies every datagram, including the empty one. -/
theorem noPanic_handlePacket (bs : List UInt8) (s : String) : runSlice Ice.handlePacketClass bs ≠ .panic s :=
  safe_noPanic (Ice.handlePacketClass_safe (B := 0) (Q := fun _ _ _ => True) bs.toArray (by omega) (fun _ => trivial)) s

/-- `TurnClient::recv` over TCP (self-delimiting STUN / ChannelData messages): for every receive-buffer size and every
byte stream the server sends before closing the connection, the read stays inside the buffer, ends (EOF is an error),
and a returned message length never exceeds the buffer. -/
theorem noPanic_turnTcpRecv (bufLen : Nat) (stream : List UInt8) (s : String) :
    runBuf (Ice.turnTcpRecv bufLen) stream ≠ .panic s :=
  safe_noPanic (Ice.turnTcpRecv_safe bufLen _ _) s

/-- the RFC 4571 reader behind `IceSocketWrapper::recv_from` on an ICE-TCP stream and the first-frame reader of the
shared passive TCP listener: for every byte stream the peer sends before closing, no panic, the read ends, the returned
length fits the buffer, and the listener allocates at most `MAX_STUN_MESSAGE` (generated constant) bytes per connection. -/
theorem noPanic_tcp4571Recv (bufLen : Nat) (stream : List UInt8) (s : String) :
    runBuf (Ice.tcp4571Recv bufLen) stream ≠ .panic s :=
  safe_noPanic (Ice.tcp4571Recv_safe bufLen _ _) s
theorem noPanic_sharedTcpFirstFrame (stream : List UInt8) (s : String) : runBuf Ice.sharedTcpFirstFrame stream ≠ .panic s :=
  safe_noPanic (Ice.sharedTcpFirstFrame_safe _) s
theorem allocBound_sharedTcpFirstFrame (stream : List UInt8) : (runBuf Ice.sharedTcpFirstFrame stream).allocs ≤ 1500 := by
  simpa [runBuf] using safe_allocs (safe_mono (Ice.sharedTcpFirstFrame_safe (Buf.ofList stream)) (fun _ _ _ h => h.2))

/-- `unwrap_rtx_packet` is total on every payload. -/
theorem noPanic_unwrapRtx (bs : List UInt8) (s : String) : runSlice Ice.unwrapRtx bs ≠ .panic s :=
  safe_noPanic (Ice.unwrapRtx_safe bs.toArray _ _) s

/-! ## DTLS (src/transports/dtls/{record,handshake,mod}.rs) -/

/-- `DtlsRecord::decode` / `HandshakeMessage::decode` never panic (and do not allocate: `split_to` is zero-copy). -/
theorem noPanic_dtlsRecordDecode (bs : List UInt8) (s : String) : runBuf Dtls.recordDecode bs ≠ .panic s :=
  safe_noPanic (Dtls.recordDecode_safe (B := 0) (Q := fun _ _ _ => True) (by omega) (fun _ _ _ => trivial)) s
theorem noPanic_dtlsHandshakeDecode (bs : List UInt8) (s : String) : runBuf Dtls.handshakeDecode bs ≠ .panic s :=
  safe_noPanic (Dtls.handshakeDecode_safe (B := 0) (Q := fun _ _ _ => True) (by omega) (fun _ _ _ => trivial)) s

/-- `ClientHello::decode` / `ServerHello::decode` (after the `fix:` commit): total, allocation ≤ |bs|. -/
theorem noPanic_clientHello (bs : List UInt8) (s : String) : runBuf Dtls.clientHelloDecode bs ≠ .panic s :=
  safe_noPanic (Dtls.clientHelloDecode_safe _) s
theorem allocBound_clientHello (bs : List UInt8) : (runBuf Dtls.clientHelloDecode bs).allocs ≤ bs.length := by
  simpa [runBuf] using safe_allocs (Dtls.clientHelloDecode_safe (Buf.ofList bs))
theorem noPanic_serverHello (bs : List UInt8) (s : String) : runBuf Dtls.serverHelloDecode bs ≠ .panic s :=
  safe_noPanic (Dtls.serverHelloDecode_safe _) s
theorem allocBound_serverHello (bs : List UInt8) : (runBuf Dtls.serverHelloDecode bs).allocs ≤ bs.length := by
  simpa [runBuf] using safe_allocs (Dtls.serverHelloDecode_safe (Buf.ofList bs))

theorem noPanic_helloVerifyRequest (bs : List UInt8) (s : String) : runBuf Dtls.helloVerifyDecode bs ≠ .panic s :=
  safe_noPanic (Dtls.helloVerifyDecode_safe _) s
theorem noPanic_serverKeyExchange (bs : List UInt8) (s : String) : runBuf Dtls.serverKeyExchangeDecode bs ≠ .panic s :=
  safe_noPanic (Dtls.serverKeyExchangeDecode_safe _) s
theorem noPanic_clientKeyExchange (bs : List UInt8) (s : String) : runBuf Dtls.clientKeyExchangeDecode bs ≠ .panic s :=
  safe_noPanic (Dtls.clientKeyExchangeDecode_safe _) s
theorem noPanic_finished (bs : List UInt8) (s : String) : runBuf Dtls.finishedDecode bs ≠ .panic s :=
  safe_noPanic (Dtls.finishedDecode_safe _) s

/-- `CertificateMessage::decode`: total; allocation ≤ 8·|bs| (a `Vec<u8>` header of 24 bytes per ≥ 3-byte entry). -/
theorem noPanic_certificate (bs : List UInt8) (s : String) : runBuf Dtls.certificateDecode bs ≠ .panic s :=
  safe_noPanic (Dtls.certificateDecode_safe _) s
theorem allocBound_certificate (bs : List UInt8) : (runBuf Dtls.certificateDecode bs).allocs ≤ 8 * bs.length := by
  simpa [runBuf] using safe_allocs (Dtls.certificateDecode_safe (Buf.ofList bs))

/-- the ClientHello / ServerHello extension walks of `handle_client_hello` / `handle_server_hello` are total on
every extension block. (Model tied to the code by reading + live-endpoint exploration only: the loops are inline
in private async handlers.) -/
theorem noPanic_clientExtWalk (bs : List UInt8) (s : String) : runBuf Dtls.clientExtWalk bs ≠ .panic s :=
  safe_noPanic (Dtls.clientExtWalk_safe _) s
theorem noPanic_serverExtWalk (bs : List UInt8) (s : String) : runBuf Dtls.serverExtWalk bs ≠ .panic s :=
  safe_noPanic (Dtls.serverExtWalk_safe _) s

/-- **dtls_reassembly_bounded**: for every history of DATAGRAMS (arbitrary bytes) handed to the handshake run loop of an
endpoint that has no keys yet (client or server), from EVERY handshake context within the invariant (`recv_message_seq` a u16,
reassembly buffer below 2^24 — any `message_seq`, transcript, pending fragment) — the record loop of `handle_incoming_packet` (decode, epoch-0
application-data skip, undecryptable-record break, alert indexing, error ends the datagram) and inside it the message
loop of `process_handshake_payload` (messages decoded by the `HandshakeMessage::decode` model): the acceptance /
fragment-reassembly bookkeeping of `process_handshake_payload` — sequence acceptance with the post-HVR re-sync (only on a
ServerHello), buffer reset, the offset / overlap check, append, completion, `checked_add` of `recv_message_seq`,
transcript append — never panics, leaves its loop, keeps `recv_message_seq` inside u16 (exhaustion ends the payload with
an error) and keeps `incomplete_handshake` below 2^24 bytes. The model is compared with the real run loop on every run
(stream `dtlsctx`: real multi-record datagrams into a real `DtlsTransport`; the context is published by a hook after each
datagram; handshake message types whose handler is a no-op for the endpoint's role; one session per run drives the counter to
its end so that the error flag is compared as well). The endpoint has no keys: the clear-text-after-keys skip, protected alerts and
every handler (crypto, certificates, flights) are outside the model. -/
theorem dtls_reassembly_bounded (isClient : Bool) (c0 : Dtls.HsCtx) (h0 : c0.recvSeq ≤ 65535 ∧ c0.incLen < 16777216)
    (datagrams : List (List UInt8)) (b : Buf) (n : Nat) (site : String) :
    Dtls.datagramHistory isClient c0 datagrams b n ≠ .panic site ∧
    ∀ cs b' n', Dtls.datagramHistory isClient c0 datagrams b n = .ok cs b' n' →
      ∀ c ∈ cs, c.recvSeq ≤ 65535 ∧ c.incLen < 16777216 := by
  have h := Dtls.datagramHistory_safe isClient datagrams c0 b n (by unfold Dtls.HsCtx.Ok; exact h0)
  refine ⟨safe_noPanic h site, ?_⟩
  intro cs b' n' hr
  unfold safe at h
  rw [hr] at h
  exact h

/-- witness kept visible: the pre-fix `recv_message_seq += 1` panics at 65535 with overflow checks and wraps to 0
(accepting old sequence numbers again) without. -/
theorem handshake_seq_counter_unfixed_witness :
    (Dtls.seqAdvanceUnfixed true 65535 (Buf.ofList []) 0).isPanic = true ∧
    (match Dtls.seqAdvanceUnfixed false 65535 (Buf.ofList []) 0 with | .ok r _ _ => decide (r = 0) | _ => false) = true := by
  decide +kernel

/-- non-vacuity / witness kept from before the fix: a 34-byte ClientHello body is now an error, not a panic;
reading the session-id length without the check (`getU8` on an empty buffer) is the panic the code had. -/
example : (runBuf Dtls.clientHelloDecode (List.replicate 34 0)).isPanic = false := by decide +kernel
example : (getU8 (Buf.ofList []) 0).isPanic = true := by decide +kernel

/-! ## SCTP / DCEP (src/transports/sctp.rs, src/transports/datachannel.rs) -/

/-- the byte walk of `SctpInner::handle_packet` — common header, chunk walk with padding, and inside it the INIT /
INIT-ACK parameter walk, SACK gap blocks, FORWARD-TSN pairs, RE-CONFIG parameters, DATA header and DCEP
dispatch — never panics and leaves every loop, whatever the checksum comparison says. -/
theorem noPanic_sctpPacket (bs : List UInt8) (crcOk : Bool) (s : String) : runBuf (Sctp.handlePacket crcOk) bs ≠ .panic s :=
  safe_noPanic (Sctp.handlePacket_safe crcOk _) s

/-- **noPanic_sctpHistory**: every HISTORY of packets on one association (any bytes, any checksum verdicts, any set of
issued cookies) from EVERY association state whose queued chunk values kept their 12-byte DATA header (the invariant the
handlers maintain; in particular every state the compared sessions start from, whatever the role, seeded TSN, tags, T1) is handled without panic and
every loop is left: besides the byte walkers this covers the state that decides what is walked — duplicate test,
in-order fast path, `received_queue` insert and in-order drain of `handle_data` (queued chunk values are re-parsed by
`process_data_payload` when drained: the proof carries the invariant that every queued value kept its 12-byte header),
the T1 gates of INIT-ACK / COOKIE-ACK, duplicate INIT, COOKIE-ECHO, FORWARD-TSN with its queue `retain`, RE-CONFIG
request numbering, DCEP reassembly and channel creation (bounded, see below). Not in the model: `InboundStream` ordering, user-message
reassembly content, the send side, timers, and handler errors (`?` on a failed send — cannot occur while the link is open). The model is compared with a real
association on every run (stream `sctpassoc`: replies, created channels, cumulative TSN, queue length, peer rwnd). -/
theorem noPanic_sctpHistory (s0 : SctpSt.St) (h0 : ∀ e ∈ s0.queue, 12 ≤ e.2.2.size)
    (ps : List SctpSt.Pkt) (b : Buf) (n : Nat) (site : String) :
    SctpSt.runHistory s0 ps b n ≠ .panic site :=
  safe_noPanic (SctpSt.runHistory_safe ps s0 b n h0) site

/-- the vectors the WALKERS build from one packet (gap blocks, SSN pairs, stream lists, DCEP strings, reassembly
append) take at most `2·|bs|` bytes. Replies the handlers generate (INIT-ACK with cookie, HEARTBEAT-ACK, …) are
constant-size per chunk and outside this bound (the live stream applies a per-session oracle instead). -/
theorem allocBound_sctpPacket (bs : List UInt8) (crcOk : Bool) : (runBuf (Sctp.handlePacket crcOk) bs).allocs ≤ 2 * bs.length := by
  simpa [runBuf] using safe_allocs (Sctp.handlePacket_safe crcOk (Buf.ofList bs))

/-- `DataChannelOpen::unmarshal` / `DataChannelAck::unmarshal` are total; OPEN allocates at most `2·|bs|`. -/
theorem noPanic_dcepOpen (bs : List UInt8) (s : String) : runBuf Sctp.dcepOpenUnmarshal bs ≠ .panic s :=
  safe_noPanic (Sctp.dcepOpenUnmarshal_safe (B := 2 * bs.length) (Q := fun _ _ _ => True) (n := 0)
    (by simp) (fun _ _ _ _ => trivial)) s
theorem allocBound_dcepOpen (bs : List UInt8) : (runBuf Sctp.dcepOpenUnmarshal bs).allocs ≤ 2 * bs.length := by
  have h := safe_allocs (Sctp.dcepOpenUnmarshal_safe (B := 2 * bs.length) (Q := fun _ _ n' => n' ≤ 2 * bs.length)
    (b := Buf.ofList bs) (n := 0) (by simp) (fun _ _ _ h => by simpa using h))
  simpa [runBuf] using h
theorem noPanic_dcepAck (bs : List UInt8) (s : String) : runSlice Sctp.dcepAckUnmarshal bs ≠ .panic s :=
  safe_noPanic (Sctp.dcepAckUnmarshal_safe bs.toArray _ _) s

/-! ## H.264 depacketizer, UDPTL (src/media/depacketizer.rs, src/transports/udptl.rs) -/

/-- `H264Depacketizer::push` is total for **every history** of RTP packets (any sequence numbers, timestamps, marker
bits and payload bytes) through one depacketizer: Single-NAL, STAP-A walk and the FU-A reassembly state machine. -/
theorem noPanic_h264History (pkts : List (Nat × Nat × Bool × List UInt8)) (b : Buf) (n : Nat) (s : String) :
    Media.h264Run {} (pkts.map fun p => (p.1, p.2.1, p.2.2.1, p.2.2.2.toArray)) b n ≠ .panic s :=
  safe_noPanic (Media.h264Run_safe _ _ b n) s

/-- one `push` allocates at most `256·|payload| + 2·|FU-A buffer| + 1024` bytes (one `MediaSample` per ≥ 2 bytes of a
STAP-A payload), and the FU-A buffer grows by at most the payload — memory follows the bytes actually received. -/
theorem allocBound_h264Push (st : Media.H264St) (seq ts : Nat) (marker : Bool) (payload : List UInt8) (b : Buf) :
    (Media.h264Push st seq ts marker payload.toArray b 0).allocs ≤ 256 * payload.length + 2 * st.fua.size + 1024 := by
  have h := safe_allocs (B := 256 * payload.length + 2 * st.fua.size + 1024)
    (Media.h264Push_safe (Q := fun _ _ n' => n' ≤ 256 * payload.length + 2 * st.fua.size + 1024)
      st seq ts marker payload.toArray (b := b) (n := 0) (by simp) (fun _ _ h _ => by simpa using h))
  exact h

/-- the UDPTL datagram parse (primary + redundant IFP walk) and first delivery are total; allocation ≤ 17·|bs| + 1400 (the receive buffer of the default configuration). -/
theorem noPanic_udptl (bs : List UInt8) (s : String) : runSlice Media.udptlRecv bs ≠ .panic s :=
  safe_noPanic (Media.udptlRecv_safe bs.toArray _) s
theorem allocBound_udptl (bs : List UInt8) : (runSlice Media.udptlRecv bs).allocs ≤ 17 * bs.length + 1400 := by
  simpa [runSlice] using safe_allocs (Media.udptlRecv_safe bs.toArray (Buf.ofList []))

/-! ## signaling side (src/transports/ice/mod.rs candidate lines, src/peer_connection.rs mid arithmetic) -/

/-- `IceCandidate::from_sdp` on ASCII candidate strings with dotted-quad addresses — the hypothesis `_hascii` marks the
scope in which the model IS the code's function (`split_whitespace` on ASCII, `Ipv4Addr` syntax; non-ASCII whitespace and
IPv6 literals are covered by the oracle-only SDP streams): the `parts[..]` indexing stays inside the token vector and the
`tcptype` / `raddr` search loops terminate. (The model itself is total on every byte list; the hypothesis is not used.) -/
theorem noPanic_candidateFromSdp (s : List UInt8) (_hascii : ∀ c ∈ s, c.toNat < 128) (b : Buf) (n : Nat) (site : String) :
    Sdp.candFromSdp s b n ≠ .panic site :=
  safe_noPanic (Sdp.candFromSdp_safe s b n) site

/-- the remote-mid bookkeeping of `set_remote_description` (after the `fix:` commit, `saturating_add`) keeps `next_mid`
inside `u16` for every 16-bit mid. The function is a one-liner; what ties it to the code is the compared stream
`sdpmid`, which reads `next_mid` of a live `PeerConnection` (hook snapshot) after `set_remote_description` for boundary
and random mids and compares it with the fold of `midUpdate`. -/
theorem mid_update_total (nextMid mid : Nat) (b : Buf) (n : Nat) (site : String) (hm : nextMid ≤ 65535) :
    Sdp.midUpdate nextMid mid b n ≠ .panic site ∧
    ∀ r b' n', Sdp.midUpdate nextMid mid b n = .ok r b' n' → r ≤ 65535 := by
  have h := Sdp.midUpdate_safe nextMid mid b n
  refine ⟨safe_noPanic h site, ?_⟩
  intro r b' n' hr
  unfold safe at h
  rw [hr] at h
  simp only at h
  omega

/-- `handle_dcep` (after the `fix:` commit): the only place that creates data channels never takes their number beyond
`MAX_DATA_CHANNELS` (generated constant, 1024) — whatever the message, on whatever stream id, from whatever state. Before the fix
every DCEP OPEN on an unused stream id created a ≈ 2.6 KB channel that was kept (up to the 65 536 stream ids of the `u16`,
≈ 170 MB per association; finding `retain:SctpInner::handle_packet:dcep-open-per-stream`, now fixed). -/
theorem dcep_open_channels_bounded (s : SctpSt.St) (sid : Nat) (b : Buf) (n : Nat) :
    match SctpSt.handleDcepSt s sid b n with
    | .ok s' _ _ => s'.chans.length ≤ max s.chans.length RtcModel.Generated.c07MaxDataChannels
    | _ => True := by
  have h := SctpSt.handleDcepSt_chans s sid (Q := fun s' _ _ => s'.chans.length ≤ max s.chans.length RtcModel.Generated.c07MaxDataChannels) (b := b) (n := n)
    (fun _ _ _ hh => hh)
  unfold safe at h
  split <;> simp_all

/-- the boundary case evaluated: with 1024 live channels an OPEN on a new stream id creates nothing, an OPEN with 1023 does. -/
theorem dcep_open_cap_witness :
    (match SctpSt.handleDcepSt { state := 1, chans := List.range 1024 } 1024 (Buf.ofList [3, 0, 0, 0, 0, 0, 0, 0, 0, 0, 0, 0]) 0 with
     | .ok s _ _ => decide (s.chans.length = 1024) | _ => false) = true ∧
    (match SctpSt.handleDcepSt { state := 1, chans := List.range 1023 } 1024 (Buf.ofList [3, 0, 0, 0, 0, 0, 0, 0, 0, 0, 0, 0]) 0 with
     | .ok s _ _ => decide (s.chans.length = 1024) | _ => false) = true := by decide +kernel

/-- witness kept visible: the pre-fix arithmetic `mid_val + 1` panics for `a=mid:65535` in a build with overflow
checks (cargo's dev profile) — and silently wraps to 0 in the release profile. -/
theorem mid_update_unfixed_witness :
    (Sdp.midUpdateUnfixed true 0 65535 (Buf.ofList []) 0).isPanic = true ∧
    (Sdp.midUpdateUnfixed false 3 65535 (Buf.ofList []) 0).isPanic = false := by decide +kernel

/-- `UdtlReceiveBuffer::try_deliver` is total for **every delivery history** (sequence numbers with wrap-around,
duplicates, gaps): `flush_contiguous` / `flush_buffer` / `cleanup_stale` terminate, and the out-of-order buffer never
holds more than `max_size` entries — a peer cannot grow it by sending far-ahead sequence numbers. -/
theorem udptl_deliver_history_total (maxSize expected0 : Nat) (ops : List (Nat × Nat)) (b : Buf) (n : Nat) (s : String)
    (hm : maxSize < 65536) :
    Media.deliverRun { expected := expected0, maxSize := maxSize } ops b n ≠ .panic s ∧
    ∀ r b' n', Media.deliverRun { expected := expected0, maxSize := maxSize } ops b n = .ok r b' n' →
      ∀ d ∈ r, ∀ cnt, d[2]? = some cnt → cnt ≤ maxSize := by
  have h := Media.deliverRun_safe ops { expected := expected0, maxSize := maxSize } b n (by simp) hm
  refine ⟨safe_noPanic h s, ?_⟩
  intro r b' n' hr
  unfold safe at h
  rw [hr] at h
  exact h

/-! ## Jitter buffer (src/media/jitter_buffer.rs) -/

/-- **jitter_history_bounded**: over EVERY history of pushes (any sequence numbers, timestamps, SSRCs, markers, clock
rates, audio or video, with or without a sequence number), pops (head sample old enough or not) and resets, from
every state within the bound, a `JitterBuffer` never holds more than `max(capacity, 1)` samples, and its capacity
never changes: a peer cannot grow it with far-ahead sequence numbers, SSRC churn, timestamp jumps or duplicates.
(One sample is held even with capacity 0: `pop_first` on the empty map is a no-op.) -/
theorem jitter_history_bounded (s : Jitter.St) (h : s.samples.length ≤ max s.cap 1) (ops : List Jitter.Op) :
    (Jitter.run s ops).samples.length ≤ max s.cap 1 := by
  have := Jitter.run_bounded ops s h
  unfold Jitter.St.Bounded at this
  rw [this.2] at this
  exact this.1

/-- the same from the state `JitterBuffer::new` builds -/
theorem jitter_history_bounded_new (cap : Nat) (ops : List Jitter.Op) :
    (Jitter.run (Jitter.init cap) ops).samples.length ≤ max cap 1 :=
  jitter_history_bounded (Jitter.init cap) (by simp [Jitter.init]) ops

/-- **jitter_keys_ascending**: over every history the model's sample list keeps strictly ascending keys (so at most one
sample per sequence number). This is the representation invariant that makes the association list a faithful
`BTreeMap<u16, _>`: `tail` is `pop_first`, `filter (key ≠ f)` is `remove(&f)`, the first match of `find?` is `range(..).next()`. -/
theorem jitter_keys_ascending (s : Jitter.St) (h : s.samples.Pairwise (fun a b => a.1 < b.1)) (ops : List Jitter.Op) :
    (Jitter.run s ops).samples.Pairwise (fun a b => a.1 < b.1) :=
  Jitter.run_sorted ops s h

/-- **jitter_pop_aged_delivers**: from ANY state with a non-empty buffer, a `pop` whose head sample is older than
`max_delay` delivers a sample that was in the buffer and shrinks the buffer — `get_first_seq` always names a key that
is present (the two `unwrap()`s of `pop` / `next_pop_wait` cannot fail) and no gap blocks play-out for ever. -/
theorem jitter_pop_aged_delivers (s : Jitter.St) (h : s.samples ≠ []) :
    ∃ x, (s.pop true).2 = some x ∧ (∃ e ∈ s.samples, e.2 = x) ∧ (s.pop true).1.samples.length < s.samples.length :=
  Jitter.pop_aged_delivers s h

/-- **jitter_drain_empties**: popping until nothing is delivered (every head sample old enough) empties the buffer
from any state, within `len + 1` pops: nothing a peer sent can be stranded in it. -/
theorem jitter_drain_empties (s : Jitter.St) (acc : List Nat) :
    (s.drain (s.samples.length + 1) acc).1.samples = [] :=
  Jitter.drain_empties _ s acc (by omega)

/-- the bound is attained (capacity 2: three in-order pushes keep two; capacity 0: one push keeps one) — the
statement above is not vacuous and cannot be tightened to `capacity`. -/
theorem jitter_bound_attained_witness :
    (Jitter.run (Jitter.init 2) [.push ⟨some 1, 0, none, false, 8000, false, 1⟩, .push ⟨some 2, 160, none, false, 8000, false, 2⟩,
        .push ⟨some 3, 320, none, false, 8000, false, 3⟩]).samples.length = 2 ∧
    (Jitter.run (Jitter.init 0) [.push ⟨some 1, 0, none, false, 8000, false, 1⟩]).samples.length = 1 := by decide +kernel


end RtcModel.Theorems.C07
