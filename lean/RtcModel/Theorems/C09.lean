/-
C09 — signaling state follows the JSEP state machine; rejected calls change nothing.
Property theorems only; helper lemmas live in `RtcModel/Lemmas/Jsep.lean`.

Reading of the property used here (DESIGN.md §C09):
* The *spec machine* `specStep` is the JSEP offer/answer machine (RFC 8829 §3.2) with the two
  restrictions the API documents: a provisional answer leaves the state unchanged and rollback is
  refused.  `none` means "the machine forbids this call in this state".
* An implementation error on a call the machine would permit (e.g. re-setting a local offer in
  HaveLocalOffer, create_offer in HaveLocalOffer) counts as "call not made": the spec machine only
  advances on calls that returned `ok`.
* "Leaves … exactly as they were" is stated on the whole connection record except the mid counter
  (`Pc.sameButMid`), which is stronger than the four items the property names (`Obs`).  The mid
  counter is *not* among them and does move on a rejected `set_remote_description`
  (`mid_counter_moves_on_rejected_remote_description`); it is compared with the code, not claimed.
* Socket / ICE failures after the state transition (environment) are outside the model.

The two statements that were false before the `fix:` commits are kept as witnesses about the
pre-fix code (`RtcModel.Jsep.Legacy`).
-/
import RtcModel.Lemmas.Jsep

namespace RtcModel.Theorems.C09
open RtcModel.Jsep

/-! ### the spec machine -/

/-- the call alphabet of the property (descriptions abstracted to their type) -/
inductive Verb
  | createOffer | createAnswer
  | setLocal (t : SdpType) | setRemote (t : SdpType)
  | close
  | setup                      -- add_transceiver / transport start: not JSEP calls
deriving DecidableEq, Repr

def verbOf : Call → Verb
  | .createOffer => .createOffer
  | .createAnswer => .createAnswer
  | .setLocal d => .setLocal d.ty
  | .setRemote d => .setRemote d.ty
  | .close => .close
  | .addTransceiver _ _ => .setup
  | .dtlsStarted => .setup

/-- JSEP (RFC 8829 §3.2; pranswer keeps the state, rollback refused). `none` = forbidden. -/
def specStep : SigState → Verb → Option SigState
  | _, .close => some .closed
  | s, .setup => some s
  | .closed, _ => none
  | .stable, .createOffer => some .stable
  | .haveLocalOffer, .createOffer => some .haveLocalOffer
  | .haveRemoteOffer, .createAnswer => some .haveRemoteOffer
  | .stable, .setLocal .offer => some .haveLocalOffer
  | .haveLocalOffer, .setLocal .offer => some .haveLocalOffer
  | .haveRemoteOffer, .setLocal .answer => some .stable
  | .haveRemoteOffer, .setLocal .pranswer => some .haveRemoteOffer
  | .stable, .setRemote .offer => some .haveRemoteOffer
  | .haveRemoteOffer, .setRemote .offer => some .haveRemoteOffer
  | .haveLocalOffer, .setRemote .answer => some .stable
  | .haveLocalOffer, .setRemote .pranswer => some .haveLocalOffer
  | _, _ => none

/-- The spec machine follows the calls that were accepted; `none` as soon as an accepted call was
forbidden. -/
def specRun : SigState → List (Verb × Res) → Option SigState
  | s, [] => some s
  | s, (v, .ok) :: rest =>
    match specStep s v with
    | some s' => specRun s' rest
    | none => none
  | s, (_, .err _) :: rest => specRun s rest

/-- `peer_state == Closed` only together with the signaling state `Closed` (both are set by `close`) -/
def Inv (pc : Pc) : Prop := pc.peerClosed = true → pc.sig = .closed

/-- what the property names: signaling state, the two description slots, every transceiver's
negotiated parameters -/
def Obs (pc : Pc) : SigState × Option Desc × Option Desc × List Trx := (pc.sig, pc.loc, pc.rem, pc.trxs)

/-! ### finite tables -/

/-- The transition tables of the two setters are sub-tables of the JSEP machine (all 4×4 pairs). -/
theorem local_table_refines_spec (s s' : SigState) (t : SdpType) (h : localTransition s t = .ok s') :
    specStep s (.setLocal t) = some s' := by
  cases s <;> cases t <;> simp [localTransition] at h <;> subst h <;> rfl

theorem remote_table_refines_spec (s s' : SigState) (t : SdpType) (h : remoteTransition s t = .ok s') :
    specStep s (.setRemote t) = some s' := by
  cases s <;> cases t <;> simp [remoteTransition] at h <;> subst h <;> rfl

/-- A setter call the JSEP machine forbids fails the implementation's state check. -/
theorem local_table_forbidden (s : SigState) (t : SdpType) (h : specStep s (.setLocal t) = none) :
    ∀ s', localTransition s t ≠ .ok s' := by
  intro s' h'; rw [local_table_refines_spec s s' t h'] at h; cases h

theorem remote_table_forbidden (s : SigState) (t : SdpType) (h : specStep s (.setRemote t) = none) :
    ∀ s', remoteTransition s t ≠ .ok s' := by
  intro s' h'; rw [remote_table_refines_spec s s' t h'] at h; cases h

/-! ### one call -/

theorem inv_new (m : Mode) : Inv (Pc.new m) := by intro h; cases h

/-- the invariant is kept by every call -/
theorem inv_step (pc : Pc) (c : Call) (hi : Inv pc) : Inv (step pc c).1 := by
  cases c with
  | createOffer =>
    rcases createOffer_cases pc with ⟨e, h, _⟩ | ⟨_, _, h⟩
    · simp only [step, h]; exact hi
    · simp only [step]; rw [h]; exact hi
  | createAnswer =>
    rcases createAnswer_cases pc with ⟨e, h⟩ | ⟨_, _, h⟩
    · simp only [step, h]; exact hi
    · simp only [step]; rw [h]; exact hi
  | setLocal d =>
    rcases setLocal_cases pc d with ⟨e, h, _⟩ | ⟨s', ht, h⟩
    · simp only [step, h]; exact hi
    · simp only [step, h]
      intro hp
      have hc : pc.sig = .closed := hi (by simpa using hp)
      rw [hc] at ht
      cases hd : d.ty <;> simp [localTransition, hd] at ht
  | setRemote d =>
    simp only [step]
    cases hr : (setRemote pc d).2 with
    | ok =>
      obtain ⟨s', ht, hs, _, _, hp, _⟩ := setRemote_ok pc d hr
      intro hp'
      have hc : pc.sig = .closed := hi (by rw [← hp]; exact hp')
      rw [hc] at ht
      cases hd : d.ty <;> simp [remoteTransition, hd] at ht
    | err e =>
      obtain ⟨_, hs, hp, _⟩ := setRemote_err pc d e hr
      intro hp'; rw [hs]; exact hi (by rw [← hp]; exact hp')
  | close =>
    simp only [step, close]
    split
    · exact hi
    · intro _; rfl
  | addTransceiver k d => simp only [step, addTransceiver]; exact hi
  | dtlsStarted => simp only [step]; exact hi

/-- **step_refines_spec** — one call, any connection, any description:
(1) a call the JSEP machine forbids returns an error;
(2) an accepted call moves the reported state exactly as the machine prescribes;
(3) a rejected call leaves the reported state unchanged. -/
theorem step_refines_spec (pc : Pc) (c : Call) (hi : Inv pc) :
    (specStep pc.sig (verbOf c) = none → (step pc c).2.isErr = true) ∧
    ((step pc c).2 = .ok → specStep pc.sig (verbOf c) = some (step pc c).1.sig) ∧
    ((step pc c).2.isErr = true → (step pc c).1.sig = pc.sig) := by
  cases c with
  | createOffer =>
    simp only [step, verbOf]
    rcases createOffer_cases pc with ⟨e, h, _⟩ | ⟨hs, hok, h⟩
    · rw [h]; simp [Res.isErr]
    · rw [h]; simp [Res.isErr, hs, specStep]
  | createAnswer =>
    simp only [step, verbOf]
    rcases createAnswer_cases pc with ⟨e, h⟩ | ⟨hs, hok, h⟩
    · rw [h]; simp [Res.isErr]
    · rw [h]; simp [Res.isErr, hs, specStep]
  | setLocal d =>
    simp only [step, verbOf]
    rcases setLocal_cases pc d with ⟨e, h, hno⟩ | ⟨s', ht, h⟩
    · rw [h]; simp [Res.isErr]
    · rw [h]
      refine ⟨fun hf => absurd ht (local_table_forbidden _ _ hf s'), fun _ => ?_, fun hf => by simp [Res.isErr] at hf⟩
      simpa using local_table_refines_spec _ _ _ ht
  | setRemote d =>
    simp only [step, verbOf]
    cases hr : (setRemote pc d).2 with
    | ok =>
      obtain ⟨s', ht, hs, _⟩ := setRemote_ok pc d hr
      refine ⟨fun hf => absurd ht (remote_table_forbidden _ _ hf s'), fun _ => ?_, fun hf => by simp [Res.isErr] at hf⟩
      rw [hs]; exact remote_table_refines_spec _ _ _ ht
    | err e =>
      obtain ⟨_, hs, _⟩ := setRemote_err pc d e hr
      simp [Res.isErr, hs]
  | close =>
    simp only [step, verbOf, close]
    refine ⟨fun hf => by simp [specStep] at hf, fun _ => ?_, fun hf => by simp [Res.isErr] at hf⟩
    split
    · rename_i hp; simp [specStep, hi hp]
    · simp [specStep]
  | addTransceiver k d => simp [step, verbOf, addTransceiver, specStep, Res.isErr]
  | dtlsStarted => simp [step, verbOf, specStep, Res.isErr]

/-! ### all call sequences -/

/-- **state_refines_spec** — for every call sequence (any length, any descriptions, any transceiver
configuration, any mode) the reported signaling state equals the state of the JSEP machine driven by
the accepted calls, and no accepted call was one the machine forbids (`specRun` never hits `none`). -/
theorem state_refines_spec (pc : Pc) (cs : List Call) (hi : Inv pc) :
    specRun pc.sig ((cs.map verbOf).zip (trace pc cs)) = some (run pc cs).sig := by
  induction cs generalizing pc with
  | nil => rfl
  | cons c cs ih =>
    have hstep := step_refines_spec pc c hi
    have ih' := ih (step pc c).1 (inv_step pc c hi)
    simp only [List.map_cons, trace, List.zip_cons_cons, run, List.foldl_cons] at ih' ⊢
    cases hr : (step pc c).2 with
    | ok =>
      simp only [specRun]
      rw [hstep.2.1 hr]
      exact ih'
    | err e =>
      simp only [specRun]
      rw [← hstep.2.2 (by simp [hr, Res.isErr])]
      exact ih'

/-- … in particular from a new connection in any transport mode, after any setup. -/
theorem state_refines_spec_new (m : Mode) (cs : List Call) :
    specRun .stable ((cs.map verbOf).zip (trace (Pc.new m) cs)) = some (run (Pc.new m) cs).sig :=
  state_refines_spec (Pc.new m) cs (inv_new m)

theorem inv_run (pc : Pc) (cs : List Call) (hi : Inv pc) : Inv (run pc cs) := by
  induction cs generalizing pc with
  | nil => exact hi
  | cons c cs ih => simp only [run, List.foldl_cons]; exact ih _ (inv_step pc c hi)

/-- **forbidden_call_errs** — after any history, a call the JSEP machine forbids in the reached state
returns an error. -/
theorem forbidden_call_errs (m : Mode) (history : List Call) (c : Call)
    (h : specStep (run (Pc.new m) history).sig (verbOf c) = none) :
    (step (run (Pc.new m) history) c).2.isErr = true :=
  (step_refines_spec _ c (inv_run _ history (inv_new m))).1 h

/-- provisional answers keep the state -/
theorem pranswer_keeps_state (pc : Pc) (d : Desc) (hd : d.ty = .pranswer) :
    (setLocal pc d).1.sig = pc.sig ∧ (setRemote pc d).1.sig = pc.sig := by
  constructor
  · rcases setLocal_cases pc d with ⟨e, h, _⟩ | ⟨s', ht, h⟩
    · rw [h]
    · rw [h]; rw [hd] at ht
      cases hs : pc.sig <;> simp [localTransition, hs] at ht ⊢ <;> exact ht.symm
  · cases hr : (setRemote pc d).2 with
    | ok =>
      obtain ⟨s', ht, hs, _⟩ := setRemote_ok pc d hr
      rw [hs]; rw [hd] at ht
      cases hs : pc.sig <;> simp [remoteTransition, hs] at ht ⊢ <;> exact ht.symm
    | err e => exact (setRemote_err pc d e hr).2.1

/-- rollback is refused (as documented) and changes nothing at all -/
theorem rollback_refused (pc : Pc) (d : Desc) (hd : d.ty = .rollback) :
    setLocal pc d = (pc, .err .notImplemented) ∧ setRemote pc d = (pc, .err .notImplemented) := by
  simp [setLocal, setRemote, validateType, hd]

/-- `Closed` is terminal: every later state is `Closed`, whatever is called. -/
theorem closed_is_terminal (pc : Pc) (cs : List Call) (hi : Inv pc) (hc : pc.sig = .closed) :
    (run pc cs).sig = .closed := by
  induction cs generalizing pc with
  | nil => exact hc
  | cons c cs ih =>
    simp only [run, List.foldl_cons]
    refine ih _ (inv_step pc c hi) ?_
    have h := step_refines_spec pc c hi
    cases hr : (step pc c).2 with
    | ok =>
      have := h.2.1 hr
      rw [hc] at this
      cases hv : verbOf c <;> simp [specStep, hv] at this <;> exact this.symm
    | err e => rw [h.2.2 (by simp [hr, Res.isErr])]; exact hc

/-! ### rejected calls change nothing -/

/-- **error_is_atomic** (full) — a call that returns an error leaves the signaling state, both stored
descriptions and every transceiver (mid, direction, payload map, extension map, and the list
itself) exactly as they were; indeed everything except the mid counter. For every connection state,
every call, every description. -/
theorem error_is_atomic (pc : Pc) (c : Call) (e : Err) (h : (step pc c).2 = .err e) :
    ((step pc c).1).sameButMid pc := by
  cases c with
  | createOffer =>
    rcases createOffer_cases pc with ⟨e', h', _⟩ | ⟨_, hok, _⟩
    · simp only [step, h']; exact Pc.sameButMid_refl pc
    · simp only [step] at h; rw [hok] at h; cases h
  | createAnswer =>
    rcases createAnswer_cases pc with ⟨e', h'⟩ | ⟨_, hok, _⟩
    · simp only [step, h']; exact Pc.sameButMid_refl pc
    · simp only [step] at h; rw [hok] at h; cases h
  | setLocal d =>
    rcases setLocal_cases pc d with ⟨e', h', _⟩ | ⟨s', _, h'⟩
    · simp only [step, h']; exact Pc.sameButMid_refl pc
    · simp only [step, h'] at h; cases h
  | setRemote d => exact setRemote_err pc d e h
  | close => simp [step] at h
  | addTransceiver k d => simp [step] at h
  | dtlsStarted => simp [step] at h

/-- the property's own wording, as a corollary -/
theorem error_is_atomic_obs (pc : Pc) (c : Call) (e : Err) (h : (step pc c).2 = .err e) :
    Obs (step pc c).1 = Obs pc := by
  obtain ⟨_, h2, _, h4, h5, h6, _⟩ := error_is_atomic pc c e h
  simp [Obs, h2, h4, h5, h6]

/-- … and along every call sequence: the observable state after the sequence is the one obtained by
dropping all rejected calls' effects (each rejected call is an identity on `Obs`). -/
theorem error_is_atomic_run (pc : Pc) (cs : List Call) (c : Call) (e : Err)
    (h : (step (run pc cs) c).2 = .err e) : Obs (run pc (cs ++ [c])) = Obs (run pc cs) := by
  simp only [run, List.foldl_append, List.foldl_cons, List.foldl_nil]
  exact error_is_atomic_obs _ c e h

/-- Only a successful setter changes a description slot, and then to exactly the description passed. -/
theorem descriptions_change_only_by_successful_setter (pc : Pc) (c : Call) :
    ((step pc c).1.loc ≠ pc.loc → ∃ d, c = .setLocal d ∧ (step pc c).2 = .ok ∧ (step pc c).1.loc = some d) ∧
    ((step pc c).1.rem ≠ pc.rem → ∃ d, c = .setRemote d ∧ (step pc c).2 = .ok ∧ (step pc c).1.rem = some d) := by
  cases c with
  | createOffer =>
    rcases createOffer_cases pc with ⟨e', h', _⟩ | ⟨_, _, h'⟩ <;> simp only [step] <;> rw [h'] <;> simp
  | createAnswer =>
    rcases createAnswer_cases pc with ⟨e', h'⟩ | ⟨_, _, h'⟩ <;> simp only [step] <;> rw [h'] <;> simp
  | setLocal d =>
    rcases setLocal_cases pc d with ⟨e', h', _⟩ | ⟨s', _, h'⟩ <;> simp only [step] <;> rw [h'] <;> simp
  | setRemote d =>
    simp only [step]
    cases hr : (setRemote pc d).2 with
    | ok =>
      obtain ⟨s', _, _, hrem, hloc, _⟩ := setRemote_ok pc d hr
      exact ⟨fun hne => absurd hloc hne, fun _ => ⟨d, rfl, rfl, hrem⟩⟩
    | err e =>
      obtain ⟨_, _, _, hloc, hrem, _⟩ := setRemote_err pc d e hr
      exact ⟨fun hne => absurd hloc hne, fun hne => absurd hrem hne⟩
  | close => simp only [step, close]; split <;> simp
  | addTransceiver k d => simp [step, addTransceiver]
  | dtlsStarted => simp [step]

/-! ### non-vacuity and witnesses -/

def audioSec (mid : String) (rtpmap : String) : Section :=
  { kind := .audio, mid := mid.toList, dir := .sendrecv, formats := [], rtpmaps := [rtpmap.toList], extmaps := [] }
def offerA : Desc := { id := 0, ty := .offer, eqKey := 0, fp := .sha256 0, sections := [audioSec "0" "111 opus/48000/2"] }
def offerB : Desc := { id := 1, ty := .offer, eqKey := 1, fp := .sha256 1, sections := [audioSec "0" "0 PCMU/8000"] }
def answerA : Desc := { id := 2, ty := .answer, eqKey := 2, fp := .sha256 0, sections := [audioSec "0" "111 opus/48000/2"] }
def pcAudio : Pc := addTransceiver (Pc.new .webrtc) .audio .sendrecv

/-- the machine is exercised: a full offer/answer round trip, a rejected call in between -/
example : (trace pcAudio [.createOffer, .setLocal offerA, .setLocal offerB, .setRemote answerA]) =
      [.ok, .ok, .err .invalidState, .ok] ∧
    (run pcAudio [.createOffer, .setLocal offerA, .setLocal offerB, .setRemote answerA]).sig = .stable ∧
    (run pcAudio [.createOffer, .setLocal offerA]).sig = .haveLocalOffer := by decide

/-- `error_is_atomic` is not vacuous: this rejected call carries a description that *would* change
the transceiver (payload map 111/opus → 0/PCMU) if it were applied. -/
example : (step (run pcAudio [.createOffer, .setLocal offerA]) (.setLocal offerB)).2 = .err .invalidState ∧
    (Legacy.setLocal (run pcAudio [.createOffer, .setLocal offerA]) offerB).1.trxs ≠
      (run pcAudio [.createOffer, .setLocal offerA]).trxs := by decide

/-- **Witness (before the first `fix:` commit)** — `set_local_description(offer)` in a state other
than `Stable` returned an error *after* rewriting the transceiver's payload map:
the full statement `error_is_atomic` was false for the code as it was. -/
theorem legacy_set_local_offer_wrong_state_mutates :
    ∃ (pc : Pc) (d : Desc) (e : Err),
      (Legacy.setLocal pc d).2 = .err e ∧ (Legacy.setLocal pc d).1.trxs ≠ pc.trxs :=
  ⟨run pcAudio [.createOffer, .setLocal offerA], offerB, .invalidState, by decide⟩

/-- **Witness (before the second `fix:` commit)** — with the DTLS transport started, a remote re-offer
carrying a different fingerprint was applied (`handle_reinvite`), the state moved to
HaveRemoteOffer, and only then the call failed. -/
theorem legacy_set_remote_fingerprint_error_after_transition :
    ∃ (pc : Pc) (d : Desc) (e : Err),
      (Legacy.setRemote pc d).2 = .err e ∧ (Legacy.setRemote pc d).1.sig ≠ pc.sig ∧
      (Legacy.setRemote pc d).1.rem ≠ pc.rem ∧ (Legacy.setRemote pc d).1.trxs ≠ pc.trxs :=
  ⟨run pcAudio [.setRemote offerA, .createAnswer, .setLocal answerA, .dtlsStarted], offerB, .invalidState, by decide⟩

/-- the same two inputs on the current code: rejected, nothing changed -/
example :
    step (run pcAudio [.createOffer, .setLocal offerA]) (.setLocal offerB) =
      (run pcAudio [.createOffer, .setLocal offerA], .err .invalidState) ∧
    step (run pcAudio [.setRemote offerA, .createAnswer, .setLocal answerA, .dtlsStarted]) (.setRemote offerB) =
      (run pcAudio [.setRemote offerA, .createAnswer, .setLocal answerA, .dtlsStarted], .err .invalidState) := by
  decide

/-- Not part of the property's list, stated for transparency: the mid counter is advanced before the
state check of `set_remote_description`, so it moves on a rejected call. -/
theorem mid_counter_moves_on_rejected_remote_description :
    ∃ (pc : Pc) (d : Desc) (e : Err),
      (setRemote pc d).2 = .err e ∧ (setRemote pc d).1.nextMid ≠ pc.nextMid :=
  ⟨Pc.new .rtp, { answerA with sections := [audioSec "7" "0 PCMU/8000"] }, .invalidState, by decide⟩

end RtcModel.Theorems.C09
