/-
C09 — signaling state follows the JSEP state machine; rejected calls change nothing.
Property theorems only; helper lemmas live in `RtcModel/Lemmas/Jsep.lean`.

Reading of the property used here (DESIGN.md §C09):
* The *spec machine* `specStep` is the JSEP offer/answer machine (RFC 8829 §3.2) with the two
  restrictions the API documents: a provisional answer leaves the state unchanged and rollback is
  refused.  `none` means "the machine forbids this call in this state".
* An implementation error on a call the machine would permit (e.g. re-setting a local offer in
  HaveLocalOffer, create_offer in HaveLocalOffer) counts as "call not made": the spec machine only
  advances on calls that returned `ok`.
* "Leaves … exactly as they were" is stated as `(step pc c).1 = pc`: the whole connection record —
  stronger than the four items the property names (`Obs`), and including the mid counter, the cached
  remote fingerprint and the DTLS role.
* ENVIRONMENT. The direct modes (RTP, SDES-SRTP) bind sockets inside the signaling calls. After the
  round-2 `fix:` commits the signaling state is moved only after the description has been applied, and
  `create_offer` (RTP) binds before assigning mids.  Hence
  - `state_refines_spec` (clause 1 of the property) is proved IN FULL — every call sequence, every
    description, every transport mode, every environment; likewise `rejected_call_keeps_state`,
    `accepted_calls_follow_spec`, `forbidden_call_errs`, `closed_is_terminal`, `pranswer_keeps_state`,
    `rollback_refused`;
  - clause 2 in full is still FALSE: `error_is_atomic_witness` (RTP mode, unusable bind address:
    `set_remote_description` stores the description and updates the transceivers, then returns the
    bind error). Proved: `create_offer_error_is_atomic_partial` (all modes, both `bindFails` environments, but
    ONLY when every further per-section socket can be bound; witness of the rest:
    `create_offer_error_after_mid_assignment_witness`), `error_is_atomic_partial` under the named hypothesis `EnvOk` (socket binds succeed,
    or WebRTC mode — corollary `error_is_atomic_webrtc`), `error_is_atomic_signaling_checks` for every
    error the model raises outside the socket layer. SDES-SRTP `set_remote_description` now starts its
    direct transport before anything is recorded (example below); it is still covered by `EnvOk` only,
    because a re-INVITE is applied before the state check in every mode.
  - "negotiated parameters of every transceiver" in these theorems = what the model record holds: mid,
    direction, payload map, extension map. Sender / receiver parameters (sender PT, receiver SSRC / RTX /
    simulcast, sender SSRC / RTX PT / stream id) have NO theorem; they are compared before / after every
    rejected call on the implementation only (harness oracle).
  - The theorems are about call SEQUENCES. Since the transition is made after the `.await`s of
    `set_remote_description`, two OVERLAPPING calls can both pass the state check; concurrency is outside
    the property and the model (assumption).

Witnesses named `legacy_…` are about code that has since been fixed (`RtcModel.Jsep.Legacy`): they record
why each `fix:` commit was needed and say nothing about the current tree.
-/
import RtcModel.Lemmas.Jsep

namespace RtcModel.Theorems.C09
open RtcModel.Jsep

/-- generated-constant obligation: the static payload types of `iana_static_rtp_params` are the
RFC 3551 assignments the model's table (and the harness' static-payload descriptions) rely on -/
theorem const_iana_static : RtcModel.Generated.ianaPtPcmu = 0 ∧ RtcModel.Generated.ianaPtPcma = 8 ∧
    RtcModel.Generated.ianaPtG722 = 9 ∧ RtcModel.Generated.ianaPtG729 = 18 ∧
    RtcModel.Generated.ianaClockG729 = 8000 ∧ RtcModel.Generated.rtpmapDefaultClock = 90000 := by decide

/-! ### the spec machine -/

/-- the call alphabet of the property (descriptions abstracted to their type) -/
inductive Verb
  | createOffer | createAnswer
  | setLocal (t : SdpType) | setRemote (t : SdpType)
  | close
  | setup                      -- add_transceiver / transport start: not JSEP calls
deriving DecidableEq, Repr

def verbOf : Call → Verb
  | .createOffer => .createOffer
  | .createAnswer => .createAnswer
  | .setLocal d => .setLocal d.ty
  | .setRemote d => .setRemote d.ty
  | .close => .close
  | .addTransceiver _ _ => .setup
  | .dtlsStarted => .setup

/-- JSEP (RFC 8829 §3.2; pranswer keeps the state, rollback refused). `none` = forbidden. -/
def specStep : SigState → Verb → Option SigState
  | _, .close => some .closed
  | s, .setup => some s
  | .closed, _ => none
  | .stable, .createOffer => some .stable
  | .haveLocalOffer, .createOffer => some .haveLocalOffer
  | .haveRemoteOffer, .createAnswer => some .haveRemoteOffer
  | .stable, .setLocal .offer => some .haveLocalOffer
  | .haveLocalOffer, .setLocal .offer => some .haveLocalOffer
  | .haveRemoteOffer, .setLocal .answer => some .stable
  | .haveRemoteOffer, .setLocal .pranswer => some .haveRemoteOffer
  | .stable, .setRemote .offer => some .haveRemoteOffer
  | .haveRemoteOffer, .setRemote .offer => some .haveRemoteOffer
  | .haveLocalOffer, .setRemote .answer => some .stable
  | .haveLocalOffer, .setRemote .pranswer => some .haveLocalOffer
  | _, _ => none

/-- The spec machine follows the calls that were accepted; `none` as soon as an accepted call was
forbidden. -/
def specRun : SigState → List (Verb × Res) → Option SigState
  | s, [] => some s
  | s, (v, .ok) :: rest =>
    match specStep s v with
    | some s' => specRun s' rest
    | none => none
  | s, (_, .err _) :: rest => specRun s rest

/-- `peer_state == Closed` only together with the signaling state `Closed` (both are set by `close`) -/
def Inv (pc : Pc) : Prop := pc.peerClosed = true → pc.sig = .closed

/-- what the property names: signaling state, the two description slots, every transceiver's
negotiated parameters -/
def Obs (pc : Pc) : SigState × Option Desc × Option Desc × List Trx := (pc.sig, pc.loc, pc.rem, pc.trxs)

/-! ### finite tables -/

/-- The transition tables of the two setters are sub-tables of the JSEP machine (all 4×4 pairs). -/
theorem local_table_refines_spec (s s' : SigState) (t : SdpType) (h : localTransition s t = .ok s') :
    specStep s (.setLocal t) = some s' := by
  cases s <;> cases t <;> simp [localTransition] at h <;> subst h <;> rfl

theorem remote_table_refines_spec (s s' : SigState) (t : SdpType) (h : remoteTransition s t = .ok s') :
    specStep s (.setRemote t) = some s' := by
  cases s <;> cases t <;> simp [remoteTransition] at h <;> subst h <;> rfl

/-- A setter call the JSEP machine forbids fails the implementation's state check. -/
theorem local_table_forbidden (s : SigState) (t : SdpType) (h : specStep s (.setLocal t) = none) :
    ∀ s', localTransition s t ≠ .ok s' := by
  intro s' h'; rw [local_table_refines_spec s s' t h'] at h; cases h

theorem remote_table_forbidden (s : SigState) (t : SdpType) (h : specStep s (.setRemote t) = none) :
    ∀ s', remoteTransition s t ≠ .ok s' := by
  intro s' h'; rw [remote_table_refines_spec s s' t h'] at h; cases h

instance (pc : Pc) : Decidable (Inv pc) := by unfold Inv; infer_instance

/-! ### one call -/

theorem inv_new (m : Mode) (b : Bool) : Inv (Pc.new m b) := by intro h; cases h

theorem closed_no_remote_transition (t : SdpType) (s' : SigState) : remoteTransition .closed t ≠ .ok s' := by
  cases t <;> simp [remoteTransition]

theorem closed_no_local_transition (t : SdpType) (s' : SigState) : localTransition .closed t ≠ .ok s' := by
  cases t <;> simp [localTransition]

/-- the invariant is kept by every call, in every environment -/
theorem inv_step (pc : Pc) (c : Call) (hi : Inv pc) : Inv (step pc c).1 := by
  cases c with
  | createOffer =>
    obtain ⟨hs, hp, _⟩ := createOffer_frame pc
    intro h; simp only [step] at h ⊢; rw [hs]; exact hi (by rw [← hp]; exact h)
  | createAnswer =>
    obtain ⟨hs, hp, _⟩ := createAnswer_frame pc
    intro h; simp only [step] at h ⊢; rw [hs]; exact hi (by rw [← hp]; exact h)
  | setLocal d =>
    rcases setLocal_cases pc d with ⟨e, h, _⟩ | ⟨s', ht, h⟩
    · simp only [step, h]; exact hi
    · simp only [step, h]
      intro hp
      have hc : pc.sig = .closed := hi (by simpa using hp)
      rw [hc] at ht
      exact absurd ht (closed_no_local_transition _ _)
  | setRemote d =>
    simp only [step]
    obtain ⟨hp, _, _, _, _, hs⟩ := setRemote_frame pc d
    intro hp'
    have hc : pc.sig = .closed := hi (by rw [← hp]; exact hp')
    rcases hs with hs | hs
    · rw [hs]; exact hc
    · rw [hc] at hs; exact absurd hs (closed_no_remote_transition _ _)
  | close =>
    simp only [step, close]
    split
    · exact hi
    · intro _; rfl
  | addTransceiver k d => simp only [step, addTransceiver]; exact hi
  | dtlsStarted => simp only [step]; exact hi

/-- the environment and the transport mode are constant along a run -/
theorem envok_step (pc : Pc) (c : Call) (hb : EnvOk pc) : EnvOk (step pc c).1 := by
  have key : ∀ r : Pc, r.bindFails = pc.bindFails → r.mode = pc.mode → EnvOk r := by
    intro r h1 h2; unfold EnvOk at hb ⊢; rw [h1, h2]; exact hb
  cases c with
  | createOffer => exact key _ (createOffer_frame pc).2.2.2.2.2.2.2 (createOffer_frame pc).2.2.2.2.1
  | createAnswer => exact key _ (createAnswer_frame pc).2.2.2.2.2.2.2 (createAnswer_frame pc).2.2.2.2.1
  | setLocal d =>
    rcases setLocal_cases pc d with ⟨e, h, _⟩ | ⟨s', _, h⟩ <;> simp only [step, h]
    · exact hb
    · exact key _ (by simp) (by simp)
  | setRemote d => exact key _ (setRemote_frame pc d).2.2.2.2.1 (setRemote_frame pc d).2.1
  | close => simp only [step, close]; split <;> exact hb
  | addTransceiver k d => exact key _ rfl rfl
  | dtlsStarted => exact key _ rfl rfl

/-- **accepted_calls_follow_spec** (full; every connection, description, environment):
(1) a call the JSEP machine forbids returns an error;
(2) an accepted call moves the reported state exactly as the machine prescribes. -/
theorem accepted_calls_follow_spec (pc : Pc) (c : Call) (hi : Inv pc) :
    (specStep pc.sig (verbOf c) = none → (step pc c).2.isErr = true) ∧
    ((step pc c).2 = .ok → specStep pc.sig (verbOf c) = some (step pc c).1.sig) := by
  cases c with
  | createOffer =>
    simp only [step, verbOf]
    cases hr : (createOffer pc).2 with
    | ok =>
      have hs := createOffer_ok_stable pc hr
      rw [(createOffer_frame pc).1, hs]; simp [specStep]
    | err e => simp [Res.isErr]
  | createAnswer =>
    simp only [step, verbOf]
    cases hr : (createAnswer pc).2 with
    | ok =>
      have hs := createAnswer_ok_haveRemoteOffer pc hr
      rw [(createAnswer_frame pc).1, hs]; simp [specStep]
    | err e => simp [Res.isErr]
  | setLocal d =>
    simp only [step, verbOf]
    rcases setLocal_cases pc d with ⟨e, h, hno⟩ | ⟨s', ht, h⟩
    · rw [h]; simp [Res.isErr]
    · rw [h]
      refine ⟨fun hf => absurd ht (local_table_forbidden _ _ hf s'), fun _ => ?_⟩
      simpa using local_table_refines_spec _ _ _ ht
  | setRemote d =>
    simp only [step, verbOf]
    cases hr : (setRemote pc d).2 with
    | ok =>
      obtain ⟨s', ht, hs, _⟩ := setRemote_ok pc d hr
      refine ⟨fun hf => absurd ht (remote_table_forbidden _ _ hf s'), fun _ => ?_⟩
      rw [hs]; exact remote_table_refines_spec _ _ _ ht
    | err e => simp [Res.isErr]
  | close =>
    simp only [step, verbOf, close]
    refine ⟨fun hf => by simp [specStep] at hf, fun _ => ?_⟩
    split
    · rename_i hp; simp [specStep, hi hp]
    · simp [specStep]
  | addTransceiver k d => simp [step, verbOf, addTransceiver, specStep]
  | dtlsStarted => simp [step, verbOf, specStep]

/-- **rejected_call_keeps_state** (full; every environment) — a call that returns an error leaves the
reported signaling state unchanged. (Since the round-2 `fix:`; before it the state had already moved
when the transport setup failed — `legacy_state_moved_by_rejected_call`.) -/
theorem rejected_call_keeps_state (pc : Pc) (c : Call)
    (h : (step pc c).2.isErr = true) : (step pc c).1.sig = pc.sig := by
  cases c with
  | createOffer => exact (createOffer_frame pc).1
  | createAnswer => exact (createAnswer_frame pc).1
  | setLocal d =>
    simp only [step] at h ⊢
    rcases setLocal_cases pc d with ⟨e, h', _⟩ | ⟨s', _, h'⟩
    · rw [h']
    · rw [h'] at h; simp [Res.isErr] at h
  | setRemote d =>
    simp only [step] at h ⊢
    cases hr : (setRemote pc d).2 with
    | ok => rw [hr] at h; simp [Res.isErr] at h
    | err e => exact setRemote_err_sig pc d e hr
  | close => simp [step, Res.isErr] at h
  | addTransceiver k d => simp [step, Res.isErr] at h
  | dtlsStarted => simp [step, Res.isErr] at h

/-! ### all call sequences -/

/-- **state_refines_spec** (FULL) — for every call sequence (any length, any descriptions, any
transceiver configuration, any transport mode, any environment): the reported signaling state equals
the state of the JSEP machine driven by the accepted calls, and no accepted call was one the machine
forbids (`specRun` never hits `none`). -/
theorem state_refines_spec (pc : Pc) (cs : List Call) (hi : Inv pc) :
    specRun pc.sig ((cs.map verbOf).zip (trace pc cs)) = some (run pc cs).sig := by
  induction cs generalizing pc with
  | nil => rfl
  | cons c cs ih =>
    have hstep := accepted_calls_follow_spec pc c hi
    have ih' := ih (step pc c).1 (inv_step pc c hi)
    simp only [List.map_cons, trace, List.zip_cons_cons, run, List.foldl_cons] at ih' ⊢
    cases hr : (step pc c).2 with
    | ok =>
      simp only [specRun]
      rw [hstep.2 hr]
      exact ih'
    | err e =>
      simp only [specRun]
      rw [← rejected_call_keeps_state pc c (by simp [hr, Res.isErr])]
      exact ih'

/-- … in particular from a new connection in any transport mode and environment, after any setup. -/
theorem state_refines_spec_new (m : Mode) (env : Bool) (cs : List Call) :
    specRun .stable ((cs.map verbOf).zip (trace (Pc.new m env) cs)) = some (run (Pc.new m env) cs).sig :=
  state_refines_spec (Pc.new m env) cs (inv_new m env)

theorem inv_run (pc : Pc) (cs : List Call) (hi : Inv pc) : Inv (run pc cs) := by
  induction cs generalizing pc with
  | nil => exact hi
  | cons c cs ih => simp only [run, List.foldl_cons]; exact ih _ (inv_step pc c hi)

/-- **forbidden_call_errs** (full) — after any history, in any mode and environment, a call the JSEP
machine forbids in the reached state returns an error. -/
theorem forbidden_call_errs (m : Mode) (env : Bool) (history : List Call) (c : Call)
    (h : specStep (run (Pc.new m env) history).sig (verbOf c) = none) :
    (step (run (Pc.new m env) history) c).2.isErr = true :=
  (accepted_calls_follow_spec _ c (inv_run _ history (inv_new m env))).1 h

/-- provisional answers keep the state (any environment, any outcome) -/
theorem pranswer_keeps_state (pc : Pc) (d : Desc) (hd : d.ty = .pranswer) :
    (setLocal pc d).1.sig = pc.sig ∧ (setRemote pc d).1.sig = pc.sig := by
  constructor
  · rcases setLocal_cases pc d with ⟨e, h, _⟩ | ⟨s', ht, h⟩
    · rw [h]
    · rw [h]; rw [hd] at ht
      cases hs : pc.sig <;> simp [localTransition, hs] at ht ⊢ <;> exact ht.symm
  · rcases (setRemote_frame pc d).2.2.2.2.2 with h | h
    · exact h
    · rw [hd] at h
      cases hs : pc.sig <;> simp [remoteTransition, hs] at h ⊢ <;> exact h.symm

/-- rollback is refused (as documented) and changes nothing at all -/
theorem rollback_refused (pc : Pc) (d : Desc) (hd : d.ty = .rollback) :
    setLocal pc d = (pc, .err .notImplemented) ∧ setRemote pc d = (pc, .err .notImplemented) := by
  simp [setLocal, setRemote, validateType, hd]

/-- `Closed` is terminal: every later state is `Closed`, whatever is called, in any environment. -/
theorem closed_is_terminal (pc : Pc) (cs : List Call) (hc : pc.sig = .closed) :
    (run pc cs).sig = .closed := by
  induction cs generalizing pc with
  | nil => exact hc
  | cons c cs ih =>
    simp only [run, List.foldl_cons]
    refine ih _ ?_
    cases c with
    | createOffer => simp only [step]; rw [(createOffer_frame pc).1]; exact hc
    | createAnswer => simp only [step]; rw [(createAnswer_frame pc).1]; exact hc
    | setLocal d =>
      rcases setLocal_cases pc d with ⟨e, h, _⟩ | ⟨s', ht, h⟩
      · simp only [step, h]; exact hc
      · rw [hc] at ht; exact absurd ht (closed_no_local_transition _ _)
    | setRemote d =>
      simp only [step]
      rcases (setRemote_frame pc d).2.2.2.2.2 with h | h
      · rw [h]; exact hc
      · rw [hc] at h; exact absurd h (closed_no_remote_transition _ _)
    | close => simp only [step, close]; split <;> simp [hc]
    | addTransceiver k d => simpa [step, addTransceiver] using hc
    | dtlsStarted => simpa [step] using hc

/-! ### rejected calls change nothing -/

/-
FULL STATEMENT (false for the current code, see `error_is_atomic_witness`):
  theorem error_is_atomic (pc : Pc) (c : Call) (e : Err) (h : (step pc c).2 = .err e) :
      Obs (step pc c).1 = Obs pc
What is missing: RTP mode configures (binds) the per-section media transports after the description has
been stored and the transceivers updated; SDES-SRTP starts its direct transport after the mid counter /
role were updated, and binds the offer socket after the gathering wait, i.e. after mids were assigned.
Repair = bind first, apply second: a restructuring of `set_remote_description` / `build_description`.
-/

/-- **error_is_atomic_partial** — under `EnvOk` (socket binds succeed, or WebRTC mode), for every
connection state, every call and every description (hence every call/state pair): a call that returns
an error returns the connection EXACTLY as it was — signaling state, both stored descriptions, every
transceiver (mid, direction, payload map, extension map, the list itself), and also the mid counter,
the cached remote fingerprint and the DTLS role. -/
theorem error_is_atomic_partial (pc : Pc) (c : Call) (e : Err) (hb : EnvOk pc)
    (h : (step pc c).2 = .err e) : (step pc c).1 = pc := by
  cases c with
  | createOffer =>
    rcases createOffer_cases pc hb with ⟨e', h', _⟩ | ⟨_, hok, _⟩
    · simp only [step, h']
    · simp only [step] at h; rw [hok] at h; cases h
  | createAnswer =>
    rcases createAnswer_cases pc hb with ⟨e', h'⟩ | ⟨_, hok, _⟩
    · simp only [step, h']
    · simp only [step] at h; rw [hok] at h; cases h
  | setLocal d =>
    rcases setLocal_cases pc d with ⟨e', h', _⟩ | ⟨s', _, h'⟩
    · simp only [step, h']
    · simp only [step, h'] at h; cases h
  | setRemote d => exact setRemote_err pc d e hb h
  | close => simp [step] at h
  | addTransceiver k d => simp [step] at h
  | dtlsStarted => simp [step] at h

/-- the property's own wording, as a corollary -/
theorem error_is_atomic_partial_obs (pc : Pc) (c : Call) (e : Err) (hb : EnvOk pc)
    (h : (step pc c).2 = .err e) : Obs (step pc c).1 = Obs pc := by
  rw [error_is_atomic_partial pc c e hb h]

/-- **error_is_atomic_webrtc** — in WebRTC mode the statement holds in every environment (no socket is
bound inside a signaling call). -/
theorem error_is_atomic_webrtc (pc : Pc) (c : Call) (e : Err) (hm : pc.mode = .webrtc)
    (h : (step pc c).2 = .err e) : (step pc c).1 = pc :=
  error_is_atomic_partial pc c e (Or.inr hm) h

theorem envok_run (pc : Pc) (cs : List Call) (hb : EnvOk pc) : EnvOk (run pc cs) := by
  induction cs generalizing pc with
  | nil => exact hb
  | cons c cs ih => simp only [run, List.foldl_cons]; exact ih _ (envok_step pc c hb)

/-- … and along every call sequence: each rejected call is an identity. -/
theorem error_is_atomic_partial_run (pc : Pc) (cs : List Call) (c : Call) (e : Err) (hb : EnvOk pc)
    (h : (step (run pc cs) c).2 = .err e) : run pc (cs ++ [c]) = run pc cs := by
  simp only [run, List.foldl_append, List.foldl_cons, List.foldl_nil]
  exact error_is_atomic_partial _ c e (envok_run pc cs hb) h

/-- **error_is_atomic_signaling_checks** — whatever the `bindFails` environment: a call rejected with an
error other than `Internal` — in the model: wrong state, rollback, fingerprint missing / unsupported /
malformed / changed, glare, no transceivers — returns the connection exactly as it was.  Scope of the
claim: the model has ONE environment event (a failing socket bind, reported as `Internal`); error sites
of the code that cannot fire today (`build_description`'s "ICE gathering failed", `InvalidState`, placed
after mid assignment but `start_gathering` never returns `Err`) are not modelled and not covered.
(`create_answer`'s own `Internal` "no transceiver for mid" is covered by `error_is_atomic_partial`.) -/
theorem error_is_atomic_signaling_checks (pc : Pc) (c : Call) (e : Err) (he : e ≠ .internal)
    (h : (step pc c).2 = .err e) : (step pc c).1 = pc := by
  cases c with
  | createOffer =>
    rcases createOffer_err_general pc e h with h' | h'
    · simp only [step, h']
    · exact absurd h' he
  | createAnswer =>
    rcases createAnswer_err_general pc e h with h' | h'
    · simp only [step, h']
    · exact absurd h' he
  | setLocal d =>
    rcases setLocal_cases pc d with ⟨e', h', _⟩ | ⟨s', _, h'⟩
    · simp only [step, h']
    · simp only [step, h'] at h; cases h
  | setRemote d =>
    rcases setRemote_err_general pc d e h with h' | h'
    · exact h'
    · exact absurd h' he
  | close => simp [step] at h
  | addTransceiver k d => simp [step] at h
  | dtlsStarted => simp [step] at h

/-- `set_local_description` is atomic in every environment (it never touches the socket layer). -/
theorem set_local_error_is_atomic (pc : Pc) (d : Desc) (e : Err) (h : (setLocal pc d).2 = .err e) :
    setLocal pc d = (pc, .err e) := by
  rcases setLocal_cases pc d with ⟨e', h', _⟩ | ⟨s', _, h'⟩
  · rw [h'] at h ⊢; simp at h; rw [h]
  · rw [h'] at h; cases h

/-- When socket binds succeed: only a successful setter changes a description slot, and then to
exactly the description passed. -/
theorem descriptions_change_only_by_successful_setter_partial (pc : Pc) (c : Call) (hb : EnvOk pc) :
    ((step pc c).1.loc ≠ pc.loc → ∃ d, c = .setLocal d ∧ (step pc c).2 = .ok ∧ (step pc c).1.loc = some d) ∧
    ((step pc c).1.rem ≠ pc.rem → ∃ d, c = .setRemote d ∧ (step pc c).2 = .ok ∧ (step pc c).1.rem = some d) := by
  cases c with
  | createOffer =>
    obtain ⟨_, _, hl, hr, _⟩ := createOffer_frame pc
    exact ⟨fun hne => absurd hl hne, fun hne => absurd hr hne⟩
  | createAnswer =>
    obtain ⟨_, _, hl, hr, _⟩ := createAnswer_frame pc
    exact ⟨fun hne => absurd hl hne, fun hne => absurd hr hne⟩
  | setLocal d =>
    rcases setLocal_cases pc d with ⟨e', h', _⟩ | ⟨s', _, h'⟩ <;> simp only [step] <;> rw [h'] <;> simp
  | setRemote d =>
    simp only [step]
    cases hr : (setRemote pc d).2 with
    | ok =>
      obtain ⟨s', _, _, hrem, hloc, _⟩ := setRemote_ok pc d hr
      exact ⟨fun hne => absurd hloc hne, fun _ => ⟨d, rfl, rfl, hrem⟩⟩
    | err e =>
      rw [setRemote_err pc d e hb hr]
      exact ⟨fun hne => absurd rfl hne, fun hne => absurd rfl hne⟩
  | close => simp only [step, close]; split <;> simp
  | addTransceiver k d => simp [step, addTransceiver]
  | dtlsStarted => simp [step]

/-! ### non-vacuity and witnesses -/

-- (helper definitions `audioSec`, `offerA`, … follow)


def audioSec (mid : String) (rtpmap : String) : Section :=
  { kind := .audio, mid := mid.toList, dir := .sendrecv, formats := [], rtpmaps := [rtpmap.toList], extmaps := [],
    addr4 := true, addrAny := true }
def offerA : Desc := { id := 0, ty := .offer, eqKey := 0, fp := .sha256 0, sections := [audioSec "0" "111 opus/48000/2"] }
def offerB : Desc := { id := 1, ty := .offer, eqKey := 1, fp := .sha256 1, sections := [audioSec "0" "0 PCMU/8000"] }
def answerA : Desc := { id := 2, ty := .answer, eqKey := 2, fp := .sha256 0, sections := [audioSec "0" "111 opus/48000/2"] }
def pcAudio : Pc := addTransceiver (Pc.new .webrtc) .audio .sendrecv
/-- an RTP-mode connection whose configured bind address cannot be bound -/
def pcRtpNoBind : Pc := addTransceiver (Pc.new .rtp true) .audio .sendrecv
def pcSrtpNoBind : Pc := addTransceiver (Pc.new .srtp true) .audio .sendrecv
def answer7 : Desc := { id := 2, ty := .answer, eqKey := 2, fp := .sha256 0, sections := [audioSec "7" "0 PCMU/8000"] }

/-! ### what a first offer leaves behind (hypotheses `KindSynced` / `DirSynced` of C08) -/

/-- **first_offer_syncs_transceivers** — on a connection whose transceivers carry no mid yet (new
connection with any pre-added transceivers), after a successful first `set_remote_description(offer)`
whose sections carry pairwise distinct non-empty mids: every transceiver found under an offered
section's mid has that section's kind and that section's direction.  This is exactly what the
C08 theorems `answer_aligned_partial` / `answer_direction_ok_desc` assume of the state in which
`create_answer` runs. -/
theorem first_offer_syncs_transceivers (pc : Pc) (d : Desc) (hty : d.ty = .offer) (hrem : pc.rem = none)
    (hfresh : ∀ t ∈ pc.trxs, t.mid = none) (hne : ∀ s ∈ d.sections, s.mid ≠ [])
    (hdist : DistinctMids d.sections) (hok : (setRemote pc d).2 = .ok) :
    ∀ o ∈ d.sections, ∀ t ∈ (setRemote pc d).1.trxs, t.mid = some o.mid → t.kind = o.kind ∧ t.dir = o.dir := by
  intro o ho t ht hm
  rw [setRemote_first_trxs pc d hrem hok] at ht
  have hinv : SyncInv [] pc.trxs := by
    intro x hx m hxm; rw [hfresh x hx] at hxm; cases hxm
  have := foldl_remoteOfferSection_sync d.sections [] pc.trxs [] hinv hne
  simp only [List.nil_append] at this
  have ht' : t ∈ (d.sections.foldl remoteOfferSection (pc.trxs, [])).1 := by
    simpa [applyRemote, hty] using ht
  obtain ⟨s, hs, hsm, hk, hd⟩ := this t ht' o.mid hm
  have : s = o := distinct_inj d.sections hdist s o hs ho hsm
  subst this
  exact ⟨hk, hd⟩

def videoSec1 : Section :=
  { kind := .video, mid := "1".toList, dir := .recvonly, formats := [], rtpmaps := ["96 VP8/90000".toList], extmaps := [] }
def offerAV : Desc :=
  { id := 0, ty := .offer, eqKey := 0, fp := .sha256 0, sections := [audioSec "0" "111 opus/48000/2", videoSec1] }
def pcTwo : Pc := addTransceiver (addTransceiver (Pc.new .webrtc) .video .sendonly) .audio .inactive

/-- non-vacuity: two pre-added mid-less transceivers, an audio + video offer with mids 0 / 1 -/
example :
    (setRemote pcTwo offerAV).2 = .ok ∧ DistinctMids offerAV.sections ∧
    (setRemote pcTwo offerAV).1.trxs.map (fun t => (t.kind, t.mid, t.dir)) =
      [(.video, some "1".toList, .recvonly), (.audio, some "0".toList, .sendrecv)] := by
  refine ⟨by decide, ?_, by decide⟩
  unfold DistinctMids offerAV
  simp only [DistinctMids]
  decide

/-- the machine is exercised: a full offer/answer round trip, a rejected call in between -/
example : (trace pcAudio [.createOffer, .setLocal offerA, .setLocal offerB, .setRemote answerA]) =
      [.ok, .ok, .err .invalidState, .ok] ∧
    (run pcAudio [.createOffer, .setLocal offerA, .setLocal offerB, .setRemote answerA]).sig = .stable ∧
    (run pcAudio [.createOffer, .setLocal offerA]).sig = .haveLocalOffer ∧
    Inv pcAudio ∧ EnvOk pcAudio := by
  decide

/-- `error_is_atomic_partial` is not vacuous: this rejected call carries a description that *would*
change the transceiver (payload map 111/opus → 0/PCMU) if it were applied. -/
example : (step (run pcAudio [.createOffer, .setLocal offerA]) (.setLocal offerB)).2 = .err .invalidState ∧
    EnvOk (run pcAudio [.createOffer, .setLocal offerA]) ∧
    (Legacy.setLocal (run pcAudio [.createOffer, .setLocal offerA]) offerB).1.trxs ≠
      (run pcAudio [.createOffer, .setLocal offerA]).trxs := by decide

/-- **Witness: the full atomicity statement is false for the current code.** RTP mode, bind address
unusable: `set_remote_description(offer)` stores the offer and sets the transceiver parameters, then
returns the socket error (the signaling state, since the round-2 fix, stays). Replayed on the
implementation: `r!/a0/srP0o` (known findings `atom:set_remote(…):…:r:rtp-media-transport-bind:…`). -/
theorem error_is_atomic_witness :
    ¬ (∀ (pc : Pc) (c : Call) (e : Err), (step pc c).2 = .err e → Obs (step pc c).1 = Obs pc) := by
  intro h
  have := h pcRtpNoBind (.setRemote offerA) .internal (by decide)
  revert this; decide

/-- … and the state is NOT among what that rejected call changed -/
example : (step pcRtpNoBind (.setRemote offerA)).2 = .err .internal ∧
    (step pcRtpNoBind (.setRemote offerA)).1.sig = pcRtpNoBind.sig ∧
    (step pcRtpNoBind (.setRemote offerA)).1.rem ≠ pcRtpNoBind.rem := by decide

/-- **create_offer_error_is_atomic_partial** — every connection state, transport mode and `bindFails`
environment, PROVIDED every further socket can be bound (`createOffer = createOfferEnv false`, the hidden
hypothesis of this theorem): a rejected `create_offer` returns the connection exactly as it was. Since the
round-2 (RTP) and round-3 (SDES-SRTP) fixes the direct modes obtain their FIRST socket before any mid is
assigned. The full statement is false: `create_offer_error_after_mid_assignment_witness`. -/
theorem create_offer_error_is_atomic_partial (pc : Pc) (e : Err) (h : (step pc .createOffer).2 = .err e) :
    (step pc .createOffer).1 = pc := by
  simp only [step] at h ⊢
  rw [createOffer_err_atomic pc e h]

def pcRtpTwo : Pc := addTransceiver (addTransceiver (Pc.new .rtp) .audio .sendrecv) .video .sendrecv

/-- **create_offer_error_after_mid_assignment_witness** — the atomicity clause is FALSE for `create_offer` of
the current code: direct mode, offer not bundled (LegacySip), the first socket binds, the port range is
exhausted for the second m-line (`createOfferEnv true`): the call returns the bind error AFTER both
transceivers got their mids and the mid counter moved. Reproduced on the implementation by hand
(`vh c09 --replay 'r#/a0,v0/co'`, also `s#`; known finding `atom:create_offer:S:*:section-socket-bind`); the
tiers do not run this environment (it needs exactly one free port on a shared host). -/
theorem create_offer_error_after_mid_assignment_witness :
    (createOfferEnv true pcRtpTwo).2 = .err .internal ∧
    (createOfferEnv true pcRtpTwo).1.trxs ≠ pcRtpTwo.trxs ∧
    (createOfferEnv true pcRtpTwo).1.nextMid ≠ pcRtpTwo.nextMid ∧
    createOfferEnv false pcRtpTwo = ((createOfferEnv true pcRtpTwo).1, .ok) := by decide

/-- SDES-SRTP, unusable bind address (since the round-3 fixes): `create_offer` and a first
`set_remote_description` fail before anything is recorded -/
example : step pcSrtpNoBind .createOffer = (pcSrtpNoBind, .err .internal) ∧
    step pcSrtpNoBind (.setRemote { offerA with sections := [{ audioSec "0" "0 PCMU/8000" with addr4 := true, addrAny := true }] }) =
      (pcSrtpNoBind, .err .internal) := by decide

/-- RTP mode (since the round-2 fix): the bind failure is reported before anything is assigned -/
example : step pcRtpNoBind .createOffer = (pcRtpNoBind, .err .internal) := by decide

/-- **Witness about superseded code** (before the round-2 `fix:` that defers the transition): the call is
rejected, yet the reported state had moved to HaveRemoteOffer while the JSEP machine was in Stable —
`state_refines_spec` was false. -/
theorem legacy_state_moved_by_rejected_call :
    (Legacy.setRemote pcRtpNoBind offerA).2 = .err .internal ∧
    (Legacy.setRemote pcRtpNoBind offerA).1.sig = .haveRemoteOffer ∧ pcRtpNoBind.sig = .stable := by decide

/-- **Witness about superseded code** (before the round-2 `fix:` in `create_offer`): RTP mode assigned the
mids and then reported the bind failure. -/
theorem legacy_create_offer_error_after_mid_assignment :
    (Legacy.createOffer pcRtpNoBind).2 = .err .internal ∧
    (Legacy.createOffer pcRtpNoBind).1.trxs ≠ pcRtpNoBind.trxs := by decide

/-- **Witness about superseded code** (before the first `fix:` commit) — `set_local_description(offer)` in a state other
than `Stable` returned an error *after* rewriting the transceiver's payload map. -/
theorem legacy_set_local_offer_wrong_state_mutates :
    ∃ (pc : Pc) (d : Desc) (e : Err), EnvOk pc ∧
      (Legacy.setLocal pc d).2 = .err e ∧ (Legacy.setLocal pc d).1.trxs ≠ pc.trxs :=
  ⟨run pcAudio [.createOffer, .setLocal offerA], offerB, .invalidState, by decide⟩

/-- **Witness about superseded code** (before the second `fix:` commit) — with the DTLS transport started, a remote re-offer
carrying a different fingerprint was applied (`handle_reinvite`), the state moved to
HaveRemoteOffer, and only then the call failed. -/
theorem legacy_set_remote_fingerprint_error_after_transition :
    ∃ (pc : Pc) (d : Desc) (e : Err), EnvOk pc ∧
      (Legacy.setRemote pc d).2 = .err e ∧ (Legacy.setRemote pc d).1.sig ≠ pc.sig ∧
      (Legacy.setRemote pc d).1.rem ≠ pc.rem ∧ (Legacy.setRemote pc d).1.trxs ≠ pc.trxs :=
  ⟨run pcAudio [.setRemote offerA, .createAnswer, .setLocal answerA, .dtlsStarted], offerB, .invalidState, by decide⟩

/-- the same two inputs on the current code: rejected, nothing changed -/
example :
    step (run pcAudio [.createOffer, .setLocal offerA]) (.setLocal offerB) =
      (run pcAudio [.createOffer, .setLocal offerA], .err .invalidState) ∧
    step (run pcAudio [.setRemote offerA, .createAnswer, .setLocal answerA, .dtlsStarted]) (.setRemote offerB) =
      (run pcAudio [.setRemote offerA, .createAnswer, .setLocal answerA, .dtlsStarted], .err .invalidState) := by
  decide

/-- **Witness about superseded code** (before the round-2 `fix:` that moved the mid-counter update below
the state check): a rejected `set_remote_description` advanced the mid counter. -/
theorem legacy_mid_counter_moved_on_rejected_remote_description :
    (Legacy.setRemote (Pc.new .rtp) answer7).2 = .err .invalidState ∧
    (Legacy.setRemote (Pc.new .rtp) answer7).1.nextMid ≠ (Pc.new .rtp).nextMid ∧
    setRemote (Pc.new .rtp) answer7 = (Pc.new .rtp, .err .invalidState) := by decide

/-- the u16 edge of the mid counter: `a=mid:65535` saturates (`saturating_add`), it does not wrap -/
example : (setRemote (Pc.new .rtp) { offerA with sections := [audioSec "65535" "0 PCMU/8000"] }).1.nextMid = 65535 := by
  decide

end RtcModel.Theorems.C09
