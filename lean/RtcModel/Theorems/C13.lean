/-
C13 — the SCTP sender obeys packet-size, checksum, tag, window and quiescence rules.
Property theorems only; helper lemmas live in `RtcModel/Lemmas/SctpSend.lean`.
-/
import RtcModel.Lemmas.SctpSend
import RtcModel.Lemmas.SctpFrag
import RtcModel.SctpTrace

namespace RtcModel.Theorems.C13
open RtcModel.Sctp RtcModel.Generated

/-! ### packet size -/

/-- generated-constant obligation (`fragment_fits_packet`): a full-size fragment with its DATA and
chunk headers and the common header is exactly within `MAX_SCTP_PACKET_SIZE`, and needs no padding.
Raising `DEFAULT_MAX_PAYLOAD_SIZE` or a header size in the source breaks this. -/
theorem const_fragment_fits_packet :
    sctpCommonHdr + sctpChunkHdr + sctpDataHdr + sctpMaxPayload ≤ sctpMaxPacket ∧
    (sctpChunkHdr + sctpDataHdr + sctpMaxPayload) % 4 = 0 ∧ sctpChunkHdr = 4 := by decide

/-- generated-constant obligation: the literals of the sender model (`SctpSend.lean`, `SctpSack.lean`)
are the source's: default burst of 4 packets, at most 1000 chunks per `transmit()`, 50 ms between
fast retransmissions of one chunk -/
theorem const_sender_literals :
    sctpDefaultBurstPackets = 4 ∧ sctpBatchCap = 1000 ∧ sctpFastRtxCooldownMs = 50 := by decide

/-- a DATA chunk whose user data is at most `DEFAULT_MAX_PAYLOAD_SIZE` fits one packet -/
theorem data_chunk_fits (c : DChunk) (h : c.data.length ≤ sctpMaxPayload) :
    sctpCommonHdr + (encData c).length ≤ sctpMaxPacket := by
  rw [encData_length]
  simp [pad4] at *
  omega

/-- every chunk `send_data_raw` enqueues — any channel configuration (any `max_payload_size`),
any PPID, any message — carries at most `DEFAULT_MAX_PAYLOAD_SIZE` bytes -/
theorem fragment_le_max_payload (cs : List TxChan) (sid : UInt16) (ppid : UInt32) (data : Bytes) :
    ∀ o ∈ (sendDataRaw cs sid ppid data).2, o.payload.length ≤ sctpMaxPayload := by
  intro o ho
  unfold sendDataRaw at ho
  split at ho
  · simp only [List.mem_map] at ho
    obtain ⟨f, hf, rfl⟩ := ho
    have := fragMsg_payload_le _ _ _ f hf
    simp only [ge_iff_le] at this ⊢
    omega
  · simp only [List.mem_map] at ho
    obtain ⟨f, hf, rfl⟩ := ho
    exact fragMsg_payload_le _ _ _ f hf

/-- **packet_le_mtu**: whatever list of encoded chunks `transmit_chunks_with_tag` is given, if
each chunk alone fits a packet then every datagram it emits is at most `MAX_SCTP_PACKET_SIZE`
bytes. -/
theorem packet_le_mtu (src dst : UInt16) (tag : UInt32) (chunks : List Bytes)
    (hfit : ∀ c ∈ chunks, sctpCommonHdr + c.length ≤ sctpMaxPacket) :
    ∀ p ∈ batch chunks, (encPacket src dst tag p).length ≤ sctpMaxPacket := by
  intro p hp
  have h := batchGo_le chunks [] sctpCommonHdr hfit (by simp [chunksLen]) (by decide) p hp
  have hl : (encPacket src dst tag p).length = sctpCommonHdr + chunksLen p := by
    simp [encPacket, be16, be32, le32, chunksLen, List.length_flatten]
    omega
  omega

/-- batching neither loses, duplicates nor reorders chunks -/
theorem batch_preserves_chunks (chunks : List Bytes) : (batch chunks).flatten = chunks := by
  simp [batch, batchGo_flatten]

/-- the new DATA chunks of a `transmit()` call always fit (composition of the two facts above) -/
theorem fresh_data_fits (cs : List TxChan) (sid : UInt16) (ppid : UInt32) (data : Bytes) (t : UInt32) :
    ∀ c ∈ assignTsn t (sendDataRaw cs sid ppid data).2, sctpCommonHdr + (encData c).length ≤ sctpMaxPacket := by
  have key : ∀ (os : List OChunk) (t : UInt32), (∀ o ∈ os, o.payload.length ≤ sctpMaxPayload) →
      ∀ c ∈ assignTsn t os, c.data.length ≤ sctpMaxPayload := by
    intro os
    induction os with
    | nil => intro t _ c hc; simp [assignTsn] at hc
    | cons o rest ih =>
      intro t h c hc
      simp only [assignTsn, List.mem_cons] at hc
      cases hc with
      | inl h1 => subst h1; exact h o (by simp)
      | inr h1 => exact ih (t + 1) (fun o' ho' => h o' (by simp [ho'])) c h1
  intro c hc
  exact data_chunk_fits c (key _ t (fragment_le_max_payload cs sid ppid data) c hc)

/-- **sack_chunk_fits**: the SACK chunk `create_sack_chunk` builds from any receiver state —
at most `MAX_GAP_ACK_BLOCKS` gap blocks and `MAX_DUP_TSNS_PER_SACK` duplicate TSNs — fits a packet
on its own (it is the second kind of chunk, after DATA, that `transmit()` hands to the batching;
`packet_le_mtu` needs each chunk to fit). -/
theorem sack_chunk_fits (s : Rx) : sctpCommonHdr + (encSack (createSack s).1).length ≤ sctpMaxPacket := by
  have hg : (createSack s).1.gaps.length ≤ sctpGapBlocksMax := by
    simp only [createSack, gapBlocks, gapBlocksSorted]
    have h0 := gapLoop_length s.cum (sortKeys (s.rq.map (·.1))) none [] (by decide)
    split
    · next hlt =>
      split
      · next c hc =>
        have : (pushBlock s.cum (gapLoop s.cum (sortKeys (s.rq.map (·.1))) none []).1 c).length ≤
            (gapLoop s.cum (sortKeys (s.rq.map (·.1))) none []).1.length + 1 := by
          simp only [pushBlock]; split <;> simp
        omega
      · exact h0
    · exact h0
  have hd : (createSack s).1.dups.length ≤ sctpSackDupsMax := by
    simp only [createSack, List.length_take]; omega
  generalize (createSack s).1 = k at hg hd
  have flat4 : ∀ {α : Type} (f : α → Bytes), (∀ a, (f a).length = 4) → ∀ l : List α, ((l.map f).flatten).length = 4 * l.length := by
    intro α f hf l
    induction l with
    | nil => rfl
    | cons a r ih => simp only [List.map_cons, List.flatten_cons, List.length_append, hf a, ih, List.length_cons]; omega
  have hgl := flat4 (fun g : UInt16 × UInt16 => be16 g.1 ++ be16 g.2) (by intro a; simp [be16]) k.gaps
  have hdl := flat4 be32 (by intro a; simp [be32]) k.dups
  simp only [encSack, encChunk, List.length_append, List.length_replicate, hgl, hdl, be16, be32, List.length_cons,
    List.length_nil, pad4, sctpChunkHdr_val, sctpCommonHdr_val, sctpMaxPacket_val, sctpGapBlocksMax_val, sctpSackDupsMax_val] at *
  omega

/-! ### checksum and tag -/

/-- **crc_accepts_own** / **vtag_is_peer_tag**: a datagram built by `send_packet_with_tag` passes
`handle_packet`'s CRC-32C check, and what the receiver reads back as ports, verification tag and
chunk bytes is what the sender put in (the tag is the `tag` argument: `remote_verification_tag`
for everything but INIT). Only the composition law of `sctp_crc32c_append` is used, so on its own
this says "sender and receiver use the same function"; that the function is CRC-32C is
`crc_known_answers` below. Which tag each call site passes is not a theorem: it is checked on every
captured datagram by `wireCheck` (tag = the initiate tag the peer announced). -/
theorem crc_accepts_own (src dst : UInt16) (tag : UInt32) (chunks : List Bytes) :
    parsePacket (encPacket src dst tag chunks) =
      some { srcPort := src, dstPort := dst, vtag := tag,
             chunks := parseChunks chunks.flatten.length chunks.flatten } := by
  simp only [encPacket, be16, be32, le32, List.cons_append, List.nil_append, parsePacket]
  rw [crc32c_append, crc32c_append]
  simp only [List.cons_append, List.nil_append, List.append_assoc]
  rw [rd32_le32, rd16_be16, rd16_be16, rd32_be32]
  simp

example : (parsePacket (encPacket 5000 5001 0xDEADBEEF [encChunk 4 0 [1, 2, 3, 4, 5]])).map (·.vtag) = some 0xDEADBEEF := by
  rw [crc_accepts_own]; rfl

set_option maxRecDepth 100000 in
/-- **crc_known_answers**: `crc_accepts_own` alone would hold for any checksum with the append law,
so the model's CRC is pinned to CRC-32C (Castagnoli) by the standard check value (ASCII "123456789") and the four
iSCSI test patterns of RFC 3720 §B.4 (32 bytes of 0x00, of 0xFF, ascending, descending); the table
is derived from the bitwise definition with the reflected polynomial 0x82F63B78, and the harness
compares the code's `sctp_crc32c` with this function on lengths 0..70 and random inputs. -/
theorem crc_known_answers :
    crc32c [0x31, 0x32, 0x33, 0x34, 0x35, 0x36, 0x37, 0x38, 0x39] = 0xE3069283 ∧
    crc32c (List.replicate 32 0) = 0x8A9136AA ∧
    crc32c (List.replicate 32 0xFF) = 0x62A8AB43 ∧
    crc32c ((List.range 32).map UInt8.ofNat) = 0x46DD794E ∧
    crc32c ((List.range 32).reverse.map UInt8.ofNat) = 0x113FDB5C ∧
    crcTable.size = 256 ∧ crcTable[1]! = 0xF26B8303 ∧ crcTable[255]! = 0xAD7D5351 := by
  decide

/-! ### retransmit phase -/

/-- only marked records that are not acknowledged are retransmitted: a `transmit()` re-sends exactly
the records that have `needs_retransmit` set and are not (gap-)acked, once; every mark is cleared —
also the stale mark of a record that was gap-acked after T3 / the tail-loss probe marked it (fix
5ac86b5: that one used to leave as an empty chunk) -/
theorem rexmit_only_marked : ∀ (q : List SRec) (flight now : Nat),
    (rexmitPhase q flight now).2.2 =
      (q.filter (fun r => r.needsRetransmit && !r.acked)).map (fun r => TxItem.rexmit r.tsn r.len) ∧
    ∀ r ∈ (rexmitPhase q flight now).1, r.needsRetransmit = false := by
  intro q
  induction q with
  | nil => intro f n; simp [rexmitPhase]
  | cons r rest ih =>
    intro f n
    unfold rexmitPhase
    by_cases h1 : (r.needsRetransmit && r.acked) = true
    · obtain ⟨a, b⟩ := ih f n
      rw [Bool.and_eq_true] at h1
      simp only [h1.1, h1.2, Bool.and_self, if_true]
      refine ⟨by simp [h1.1, h1.2, a], ?_⟩
      intro x hx
      simp only [List.mem_cons] at hx
      cases hx with
      | inl e => subst e; rfl
      | inr e => exact b x e
    · have h1' : (r.needsRetransmit && r.acked) = false := by simpa using h1
      simp only [h1', Bool.false_eq_true, if_false]
      by_cases h2 : r.needsRetransmit = true
      · have hack : r.acked = false := by
          cases hr : r.acked with
          | false => rfl
          | true => rw [h2, hr] at h1'; cases h1'
        obtain ⟨a, b⟩ := ih (if r.inFlight then f else f + r.len) n
        simp only [h2, if_true]
        refine ⟨by simp [h2, hack, a], ?_⟩
        intro x hx
        simp only [List.mem_cons] at hx
        cases hx with
        | inl e => subst e; rfl
        | inr e => exact b x e
      · have h2' : r.needsRetransmit = false := by simpa using h2
        obtain ⟨a, b⟩ := ih f n
        simp only [h2', Bool.false_eq_true, if_false]
        refine ⟨by simp [h2', a], ?_⟩
        intro x hx
        simp only [List.mem_cons] at hx
        cases hx with
        | inl e => subst e; exact h2'
        | inr e => exact b x e


/-- **wire_oracle_accepts_conforming** (was `model_traces_wireOk`; the audit is right that it
assumes the tag it concludes): this is a *no-false-alarm* lemma about the oracle, not a property
of the sender. A datagram built by `send_packet_with_tag` with the peer's announced tag, within the
MTU and carrying no INIT / INIT-ACK / DATA chunk, is accepted by the decidable wire predicate
`wireStep` that the driver evaluates on every captured datagram (size, CRC-32C, verification tag)
and leaves the per-side TSN bookkeeping untouched. The tag rule itself is established per run by
that predicate on the real wire. -/
theorem wire_oracle_accepts_conforming (w : WireSt) (idx s : Nat) (src dst : UInt16) (tag : UInt32) (chunks : List Bytes)
    (hv : w.viol = none) (hpeer : (w.side (1 - s)).tag = some tag)
    (hlen : (encPacket src dst tag chunks).length ≤ sctpMaxPacket)
    (hk : ∀ c ∈ parseChunks chunks.flatten.length chunks.flatten,
      c.ty.toNat ≠ ctInit ∧ c.ty.toNat ≠ ctInitAck ∧ c.ty.toNat ≠ ctData) :
    (wireStep w idx s (encPacket src dst tag chunks)).viol = none ∧
    (wireStep w idx s (encPacket src dst tag chunks)).a = w.a ∧
    (wireStep w idx s (encPacket src dst tag chunks)).b = w.b := by
  -- the chunk fold changes nothing
  have key : ∀ (cs : List RawChunk) (w0 : WireSt), w0.viol = none →
      (∀ c ∈ cs, c.ty.toNat ≠ ctInit ∧ c.ty.toNat ≠ ctInitAck ∧ c.ty.toNat ≠ ctData) →
      cs.foldl (wireChunk idx s) w0 = w0 := by
    intro cs
    induction cs with
    | nil => intro w0 _ _; rfl
    | cons c rest ih =>
      intro w0 h0 hcs
      obtain ⟨h1, h2, h3⟩ := hcs c (by simp)
      have hstep : wireChunk idx s w0 c = w0 := by
        have e1 : (c.ty.toNat == ctInit) = false := by simpa using h1
        have e2 : (c.ty.toNat == ctInitAck) = false := by simpa using h2
        have e3 : (c.ty.toNat == ctData) = false := by simpa using h3
        simp only [wireChunk, h0, Option.isSome_none, Bool.false_eq_true, if_false, e1, e2, e3, Bool.or_self]
      simp only [List.foldl_cons, hstep]
      exact ih w0 h0 (fun c' hc' => hcs c' (by simp [hc']))
  -- the packet-level step on a state without violation whose peer announced `tag`
  have kp : ∀ (w1 : WireSt), w1.viol = none → (w1.side (1 - s)).tag = some tag →
      wirePacket w1 idx s { srcPort := src, dstPort := dst, vtag := tag, chunks := parseChunks chunks.flatten.length chunks.flatten } = w1 := by
    intro w1 h1 h2
    have hinit : isInitPacket (parseChunks chunks.flatten.length chunks.flatten) = false := by
      cases hc : parseChunks chunks.flatten.length chunks.flatten with
      | nil => rfl
      | cons c rest =>
        have := (hk c (by rw [hc]; simp)).1
        simpa [isInitPacket] using this
    simp only [wirePacket, hinit, Bool.false_eq_true, if_false, h2, beq_self_eq_true, Bool.not_true]
    exact key _ w1 h1 hk
  have hsz : ¬ ((encPacket src dst tag chunks).length > sctpMaxPacket) := by omega
  have hw1 : wireStep w idx s (encPacket src dst tag chunks) =
      { w with packets := w.packets + 1, maxLen := max w.maxLen (encPacket src dst tag chunks).length } := by
    simp only [wireStep, hv, Option.isSome_none, Bool.false_eq_true, if_false, hsz, crc_accepts_own]
    apply kp
    · simpa using hv
    · simpa [WireSt.side] using hpeer
  rw [hw1]
  exact ⟨hv, rfl, rfl⟩

/-! ### TSNs -/

/-- **tsn_consecutive**: the new DATA chunks of one `transmit()` carry `next_tsn, next_tsn+1, …`
in queue order, and the next call continues where this one stopped. -/
theorem tsn_consecutive (s : Tx) (sackNeeded : Bool) (now : Nat) :
    let r := transmit s sackNeeded now
    let fresh := assignTsn s.nextTsn (popBudget s.outQ
      (effectiveWindow s.cwnd s.flight s.peerRwnd s.maxBurst - (rexmitPhase s.sentQ s.flight now).2.1) 0).1
    (∀ i (h : i < fresh.length), fresh[i].tsn = s.nextTsn + UInt32.ofNat i) ∧
    r.1.nextTsn = s.nextTsn + UInt32.ofNat fresh.length ∧
    r.2.filterMap (fun | .fresh c => some c | _ => none) = fresh := by
  refine ⟨fun i h => assignTsn_tsn _ _ i h, ?_, ?_⟩
  · simp [transmit, assignTsn_length]
  · simp only [transmit, (rexmit_only_marked s.sentQ s.flight now).1]
    cases sackNeeded <;>
      simp [List.filterMap_append, List.filterMap_map, Function.comp_def]

/-! ### window -/

/-- the effective window never exceeds the peer's advertised window nor the congestion window —
except for the zero-window probe (window closed, nothing in flight), where it is 1 byte of budget,
i.e. room for exactly one chunk -/
theorem effective_window_le (cwnd flight rwnd mb : Nat) :
    (¬ (rwnd = 0 ∧ flight = 0) → effectiveWindow cwnd flight rwnd mb ≤ rwnd ∧ effectiveWindow cwnd flight rwnd mb ≤ cwnd) ∧
    (rwnd = 0 ∧ flight = 0 → effectiveWindow cwnd flight rwnd mb = 1) := by
  constructor
  · intro h; simp only [effectiveWindow, h, if_false]; omega
  · intro h; simp only [effectiveWindow, h, and_self, if_true]

/-- **window_overshoot_le_one_chunk**: in one `transmit()` the new data taken from the outbound
queue, *not counting the last chunk taken*, is strictly less than the available window
`min(flight+burst, cwnd, rwnd) − flight`; with no available window nothing new is sent. -/
theorem window_overshoot_le_one_chunk (q : List OChunk) (available : Nat) :
    ((popBudget q available 0).1 = [] ∨ paddedSum (popBudget q available 0).1.dropLast < available) ∧
    (available = 0 → (popBudget q available 0).1 = []) ∧
    (popBudget q available 0).1 ++ (popBudget q available 0).2 = q :=
  ⟨popBudget_overshoot q available 0, fun h => by rw [h]; exact popBudget_zero q 0, popBudget_split q available 0⟩

/-- zero window (or `flight ≥ rwnd`): no new DATA leaves, whatever is queued — unless this is the
zero-window probe situation (window closed *and* nothing in flight) -/
theorem closed_window_sends_nothing_new (s : Tx) (sackNeeded : Bool) (now : Nat)
    (hnp : ¬ (s.peerRwnd = 0 ∧ s.flight = 0))
    (h : s.peerRwnd ≤ (rexmitPhase s.sentQ s.flight now).2.1) :
    (transmit s sackNeeded now).1.outQ = s.outQ ∧ (transmit s sackNeeded now).1.nextTsn = s.nextTsn := by
  have hz : effectiveWindow s.cwnd s.flight s.peerRwnd s.maxBurst - (rexmitPhase s.sentQ s.flight now).2.1 = 0 := by
    have := ((effective_window_le s.cwnd s.flight s.peerRwnd s.maxBurst).1 hnp).1; omega
  have h1 := popBudget_zero s.outQ 0
  have h2 := popBudget_split s.outQ 0 0
  rw [h1] at h2
  simp only [transmit, hz, h1, List.length_nil]
  refine ⟨by simpa using h2, ?_⟩
  apply UInt32.toNat_inj.mp; simp

/-- **zero_window_probe** (fix 31af4d4): window closed, nothing in flight, nothing to retransmit,
data queued ⇒ exactly one chunk leaves (one TSN is taken). Without it a lost window update after
everything was acknowledged or abandoned left no timer running: the sender never sent again. -/
theorem zero_window_probe (s : Tx) (now : Nat) (o : OChunk) (rest : List OChunk)
    (hq : s.outQ = o :: rest) (hr : s.peerRwnd = 0) (hf : s.flight = 0) (hs : s.sentQ = []) :
    (transmit s false now).1.outQ = rest ∧ (transmit s false now).1.nextTsn = s.nextTsn + 1 := by
  have he : effectiveWindow s.cwnd s.flight s.peerRwnd s.maxBurst = 1 :=
    (effective_window_le s.cwnd s.flight s.peerRwnd s.maxBurst).2 ⟨hr, hf⟩
  have hp : popBudget (o :: rest) 1 0 = ([o], rest) := by
    have : popBudget rest (1 - paddedSize o.payload.length) 1 = ([], rest) := by
      have hpos : 1 - paddedSize o.payload.length = 0 := by simp [paddedSize]; omega
      rw [hpos]
      cases rest with
      | nil => rfl
      | cons x xs => simp [popBudget]
    simp [popBudget, this]
  have he' : effectiveWindow s.cwnd 0 s.peerRwnd s.maxBurst = 1 := by rw [← hf]; exact he
  simp only [transmit, hs, hf, hq, rexmitPhase, he', Nat.sub_zero, hp, List.length_cons, List.length_nil]
  exact ⟨trivial, rfl⟩

/-! ### retransmission after a covering SACK -/

/-- a record is covered by the cumulative TSN `cum` -/
def Covered (cum : UInt32) (r : SRec) : Bool := i32NonPos (r.tsn - cum)

/-- unless the SACK is discarded by the late-SACK filter, every record whose TSN the cumulative ack covers is *gone from the sent queue*
after `apply_sack_to_sent_queue` — so neither T3, fast retransmit nor the tail-loss probe can
send it again. All queues, SACKs, gap blocks, times. -/
theorem no_rexmit_after_covering_sack_partial (q : List SRec) (cum : UInt32) (gaps : List (UInt16 × UInt16))
    (now : Nat) (cm : Bool) (mx : Nat) (hlate : lateSack q cum gaps = false) :
    ∀ r ∈ (applySack q cum gaps now cm mx).1, Covered cum r = false := by
  intro r hr
  simp only [applySack, hlate, Bool.false_eq_true, if_false] at hr
  have h2 : ∀ (gs : List (UInt16 × UInt16)) (st : List SRec × SackOutcome),
      (gs.foldl (gapBlockApply now cum) st).1.map (·.tsn) = st.1.map (·.tsn) := by
    intro gs
    induction gs with
    | nil => intro st; rfl
    | cons g rest ih => intro st; simp only [List.foldl_cons]; rw [ih]; exact gapBlockApply_tsns now cum g st
  have hmem : r.tsn ∈ (q.filter (fun r => !i32NonPos (r.tsn - cum))).map (·.tsn) := by
    have e1 := missingPass_tsns now cm mx (maxReportedOf cum gaps)
      (gaps.foldl (gapBlockApply now cum) (q.filter (fun r => !i32NonPos (r.tsn - cum)),
        (q.filter (fun r => i32NonPos (r.tsn - cum))).foldl (cumAckRec now) { maxReported := maxReportedOf cum gaps })).1
      (gaps.foldl (gapBlockApply now cum) (q.filter (fun r => !i32NonPos (r.tsn - cum)),
        (q.filter (fun r => i32NonPos (r.tsn - cum))).foldl (cumAckRec now) { maxReported := maxReportedOf cum gaps })).2
    have e2 := h2 gaps (q.filter (fun r => !i32NonPos (r.tsn - cum)),
        (q.filter (fun r => i32NonPos (r.tsn - cum))).foldl (cumAckRec now) { maxReported := maxReportedOf cum gaps })
    have := List.mem_map_of_mem (f := (·.tsn)) hr
    rw [e1, e2] at this
    exact this
  obtain ⟨r0, hr0, heq⟩ := List.mem_map.mp hmem
  have := (List.mem_filter.mp hr0).2
  simp only [Covered, ← heq]
  simpa using this

/-- **no_rexmit_after_covering_sack** (full): once `apply_sack_to_sent_queue` has processed a
SACK, no record whose TSN the cumulative ack covers is left in the sent queue — so neither T3, fast
retransmit nor the tail-loss probe can send it again. For every queue (TSN wrap inside the queue
included), SACK, gap blocks and time, under the serial-number window: the cumulative TSN is less
than 2^31 − 1 beyond any outstanding chunk it covers. -/
theorem no_rexmit_after_covering_sack (q : List SRec) (cum : UInt32) (gaps : List (UInt16 × UInt16))
    (now : Nat) (cm : Bool) (mx : Nat)
    (hwin : ∀ r ∈ q, Covered cum r = true → (cum - r.tsn).toNat < 2147483647) :
    ∀ r ∈ (applySack q cum gaps now cm mx).1, Covered cum r = false := by
  by_cases hlate : lateSack q cum gaps = false
  · exact no_rexmit_after_covering_sack_partial q cum gaps now cm mx hlate
  · have hl : lateSack q cum gaps = true := by simpa using hlate
    intro r hr
    simp only [applySack, hl, if_true] at hr
    -- the filter fired: show that then nothing in the queue is covered
    cases hc : Covered cum r with
    | false => rfl
    | true =>
      exfalso
      have hne : q ≠ [] := by intro h; rw [h] at hr; simp at hr
      obtain ⟨lo, hlo, hmem, hle⟩ := serialMin_spec cum q hne
      have hkr := (i32NonPos_iff_key (r.tsn - cum)).mp hc
      have hklo : i32Key (lo.tsn - cum) ≤ 2147483648 := Nat.le_trans (hle r hr) hkr
      have hclo : Covered cum lo = true := (i32NonPos_iff_key (lo.tsn - cum)).mpr hklo
      have hw := hwin lo hmem hclo
      have hneg : i32Neg (cum - (lo.tsn - 1)) = false := by
        simp only [i32Neg, ge_iff_le, decide_eq_false_iff_not, UInt32.le_iff_toNat_le, Nat.not_le]
        have e : (cum - (lo.tsn - 1)).toNat = ((cum - lo.tsn).toNat + 1) % 4294967296 := by
          have h1 := lo.tsn.toNat_lt
          have h2 := cum.toNat_lt
          simp only [UInt32.toNat_sub, UInt32.toNat_one]
          omega
        rw [e]
        show _ < 2147483648
        omega
      simp [lateSack, hlo, hneg] at hl

/-- non-vacuity, across the TSN wrap: the queue `{0xFFFFFFFE, 0}` and a SACK with cumulative TSN
`0xFFFFFFFE` (the history on which the code used to retransmit the covered chunk) -/
example : (∀ r ∈ [({ tsn := 0, len := 100 } : SRec), { tsn := 0xFFFFFFFE, len := 100 }],
      Covered 0xFFFFFFFE r = true → ((0xFFFFFFFE : UInt32) - r.tsn).toNat < 2147483647) ∧
    (applySack [{ tsn := 0, len := 100 }, { tsn := 0xFFFFFFFE, len := 100 }] 0xFFFFFFFE [] 10 true 8).1.map (·.tsn) = [0] := by
  decide

/-! ### the advertised window against what is really unacknowledged -/

/-- bytes sent and not acknowledged (what occupies, or is on its way to, the peer's buffer) -/
def outstanding (q : List SRec) : Nat := ((q.filter (fun r => !r.acked)).map (·.len)).sum

/-- **window_rule_partial** (a corollary of `closed_window_sends_nothing_new`, kept as the statement
of *what part* of the window clause holds; its hypothesis `hcount` is exactly what the two recorded
findings violate, so it says nothing new about the code): as long as the code's `flight_size` (after the retransmit phase)
still counts every unacknowledged byte, no new DATA leaves once the unacknowledged bytes reach the
advertised window. Partial: a T3 expiry sets `flight_size := 0` and a stale SACK with the newest
cumulative TSN rewrites `peer_rwnd`; the two witnesses below show new data leaving beyond the
window in exactly these two situations (recorded findings
`window:new-data-beyond-advertised-window-plus-one-packet:after-t3-restarted-flight-size` and
`…:older-sack-with-same-cumulative-tsn`). -/
theorem window_rule_partial (s : Tx) (sackNeeded : Bool) (now : Nat)
    (hnp : ¬ (s.peerRwnd = 0 ∧ s.flight = 0))
    (hcount : outstanding s.sentQ ≤ (rexmitPhase s.sentQ s.flight now).2.1)
    (hfull : s.peerRwnd ≤ outstanding s.sentQ) :
    (transmit s sackNeeded now).1.outQ = s.outQ ∧ (transmit s sackNeeded now).1.nextTsn = s.nextTsn :=
  closed_window_sends_nothing_new s sackNeeded now hnp (Nat.le_trans hfull hcount)

def exRec (t : UInt32) : SRec := { tsn := t, len := 1200 }
/-- six full chunks unacknowledged = the whole advertised window; one more chunk queued -/
def exFull : Tx :=
  { sentQ := [exRec 10, exRec 11, exRec 12, exRec 13, exRec 14, exRec 15],
    outQ := [{ sid := 1, ppid := 53, payload := [1, 2, 3, 4, 5, 6, 7, 8], flags := 3, ssn := 0 }],
    flight := 7200, cwnd := 100000, peerRwnd := 7200, nextTsn := 16, maxBurst := 16 }

/-- **t3_restarts_flight_witness**: with the window full `transmit()` sends nothing new; after a T3
expiry (nothing was acknowledged, the same 7200 bytes are still unacknowledged) the very next
`transmit()` takes new data: `flight_size` was reset to 0 and only the 4 marked records are counted
again. RFC 4960 §6.3.3/§6.2.1 treats data marked for retransmission as no longer occupying the
peer's window, so the code follows the RFC; against the wire it exceeds the newest `a_rwnd`. -/
theorem t3_restarts_flight_witness :
    outstanding exFull.sentQ = exFull.peerRwnd ∧
    (transmit exFull false 100).1.nextTsn = 16 ∧
    outstanding (t3Fire exFull 200 8).sentQ = exFull.peerRwnd ∧
    (transmit (t3Fire exFull 200 8) false 200).1.nextTsn = 17 ∧
    outstanding (transmit (t3Fire exFull 200 8) false 200).1.sentQ > exFull.peerRwnd := by
  decide

/-- **stale_sack_same_cum_witness**: two SACKs with the same cumulative TSN 9 — the receiver first
said "window 9000", then (more data queued out of order) "window 0 + gap block". Delivered in the
opposite order the older one is taken at face value: `peer_rwnd` goes back to 9000 and new data
leaves although the newest advertisement is 0. -/
theorem stale_sack_same_cum_witness :
    let s0 : Tx := { exFull with peerRwnd := 9000 }
    let a := handleSackTx s0 { peerCumAck := 9 } 9 0 [(3, 3)] 100 8        -- newest: window closed
    let b := handleSackTx a.1 a.2.1 9 9000 [] 100 8                         -- older one arrives late
    a.1.peerRwnd = 0 ∧ a.1.nextTsn = 16 ∧ b.1.peerRwnd = 9000 ∧ b.1.nextTsn = 17 := by
  decide

/-! ### quiescence -/

/-- what can happen to a sender: a `transmit()` (run loop, `send_data`), the T3 check, the TLP
probe, an incoming SACK (any content) -/
inductive SOp where
  | transmit (sackOwed : Bool) (now : Nat)
  | timeout (sackOwed : Bool) (now rto : Nat)
  | tlp (sackOwed : Bool) (now : Nat)
  | sack (cum : UInt32) (arwnd : Nat) (gaps : List (UInt16 × UInt16)) (now : Nat)

def sopStep (mx : Nat) (st : Tx × SackHist) : SOp → (Tx × SackHist) × List TxItem
  | .transmit so now => let r := transmit st.1 so now; ((r.1, st.2), r.2)
  | .timeout so now rto => let r := transmit (handleTimeout st.1 now rto mx) so now; ((r.1, st.2), r.2)
  | .tlp so now => let r := transmit (tlpProbe st.1 now) so now; ((r.1, st.2), r.2)
  | .sack cum arwnd gaps now => let r := handleSackTx st.1 st.2 cum arwnd gaps now mx; ((r.1, r.2.1), r.2.2)

def sopRun (mx : Nat) (st : Tx × SackHist) : List SOp → List TxItem
  | [] => []
  | o :: rest => (sopStep mx st o).2 ++ sopRun mx (sopStep mx st o).1 rest

/-- how many of the events had a SACK owed to the peer (`sack_needed` set by received DATA) -/
def sacksOwed : List SOp → Nat
  | [] => 0
  | .transmit so _ :: r => sacksOwed r + (if so then 1 else 0)
  | .timeout so _ _ :: r => sacksOwed r + (if so then 1 else 0)
  | .tlp so _ :: r => sacksOwed r + (if so then 1 else 0)
  | .sack .. :: r => sacksOwed r

/-- **quiescent_stays**: from a state with nothing unacknowledged and nothing queued, *no sequence*
of run-loop transmits, T3 checks, TLP probes (each with or without a SACK owed to the peer) and
incoming SACKs of any content (stale, duplicated, with gap blocks) makes the sender put a DATA chunk
or a retransmission on the wire: everything emitted is a SACK, one per event at which one was owed.
Outside this model, and watched only by the trace oracle
`quiescence:<CT>-after-everything-acknowledged`: the PR tail of `transmit` (FORWARD-TSN re-armed by
a SACK behind the advanced point), T1 (INIT / COOKIE-ECHO), HEARTBEAT, RE-CONFIG. -/
theorem quiescent_stays (mx : Nat) (ops : List SOp) :
    ∀ (st : Tx × SackHist), st.1.sentQ = [] → st.1.outQ = [] →
      sopRun mx st ops = List.replicate (sacksOwed ops) TxItem.sack := by
  have tr : ∀ (s : Tx) (so : Bool) (now : Nat), s.sentQ = [] → s.outQ = [] →
      (transmit s so now).2 = (if so then [TxItem.sack] else []) ∧ (transmit s so now).1.sentQ = [] ∧ (transmit s so now).1.outQ = [] := by
    intro s so now h1 h2
    cases so <;> simp [transmit, h1, h2, rexmitPhase, popBudget, assignTsn]
  induction ops with
  | nil => intro st _ _; rfl
  | cons o rest ih =>
    intro st h1 h2
    cases o with
    | transmit so now =>
      obtain ⟨k1, k2, k3⟩ := tr st.1 so now h1 h2
      simp only [sopRun, sopStep, k1, sacksOwed]
      rw [ih _ k2 k3]
      cases so <;> simp [List.replicate_succ]
    | timeout so now rto =>
      have e : handleTimeout st.1 now rto mx = st.1 := by simp [handleTimeout, h1]
      obtain ⟨k1, k2, k3⟩ := tr st.1 so now h1 h2
      simp only [sopRun, sopStep, e, k1, sacksOwed]
      rw [ih _ k2 k3]
      cases so <;> simp [List.replicate_succ]
    | tlp so now =>
      have e : tlpProbe st.1 now = st.1 := by simp [tlpProbe, tlpTail, h1]
      obtain ⟨k1, k2, k3⟩ := tr st.1 so now h1 h2
      simp only [sopRun, sopStep, e, k1, sacksOwed]
      rw [ih _ k2 k3]
      cases so <;> simp [List.replicate_succ]
    | sack cum arwnd gaps now =>
      have tr0 : ∀ (s : Tx) (now : Nat), s.sentQ = [] → s.outQ = [] →
          (transmit s false now).2 = [] ∧ (transmit s false now).1.sentQ = [] ∧ (transmit s false now).1.outQ = [] := by
        intro s now a b; simpa using tr s false now a b
      have key : (sopStep mx st (.sack cum arwnd gaps now)).2 = [] ∧ (sopStep mx st (.sack cum arwnd gaps now)).1.1.sentQ = [] ∧
          (sopStep mx st (.sack cum arwnd gaps now)).1.1.outQ = [] := by
        simp only [sopStep, handleSackTx]
        apply tr0
        · simp only [h1]; exact applySack_nil cum gaps now _ mx
        · exact h2
      simp only [sopRun, key.1, sacksOwed, List.nil_append]
      exact ih _ key.2.1 key.2.2

end RtcModel.Theorems.C13
