/-
C13 — the SCTP sender obeys packet-size, checksum, tag, window and quiescence rules.
Property theorems only; helper lemmas live in `RtcModel/Lemmas/SctpSend.lean`.
-/
import RtcModel.Lemmas.SctpSend
import RtcModel.Lemmas.SctpFrag
import RtcModel.SctpTrace

namespace RtcModel.Theorems.C13
open RtcModel.Sctp RtcModel.Generated

/-! ### packet size -/

/-- generated-constant obligation (`fragment_fits_packet`): a full-size fragment with its DATA and
chunk headers and the common header is exactly within `MAX_SCTP_PACKET_SIZE`, and needs no padding.
Raising `DEFAULT_MAX_PAYLOAD_SIZE` or a header size in the source breaks this. -/
theorem const_fragment_fits_packet :
    sctpCommonHdr + sctpChunkHdr + sctpDataHdr + sctpMaxPayload ≤ sctpMaxPacket ∧
    (sctpChunkHdr + sctpDataHdr + sctpMaxPayload) % 4 = 0 ∧ sctpChunkHdr = 4 := by decide

/-- a DATA chunk whose user data is at most `DEFAULT_MAX_PAYLOAD_SIZE` fits one packet -/
theorem data_chunk_fits (c : DChunk) (h : c.data.length ≤ sctpMaxPayload) :
    sctpCommonHdr + (encData c).length ≤ sctpMaxPacket := by
  rw [encData_length]
  simp [pad4] at *
  omega

/-- every chunk `send_data_raw` enqueues — any channel configuration (any `max_payload_size`),
any PPID, any message — carries at most `DEFAULT_MAX_PAYLOAD_SIZE` bytes -/
theorem fragment_le_max_payload (cs : List TxChan) (sid : UInt16) (ppid : UInt32) (data : Bytes) :
    ∀ o ∈ (sendDataRaw cs sid ppid data).2, o.payload.length ≤ sctpMaxPayload := by
  intro o ho
  unfold sendDataRaw at ho
  split at ho
  · simp only [List.mem_map] at ho
    obtain ⟨f, hf, rfl⟩ := ho
    have := fragMsg_payload_le _ _ _ f hf
    simp only [ge_iff_le] at this ⊢
    omega
  · simp only [List.mem_map] at ho
    obtain ⟨f, hf, rfl⟩ := ho
    exact fragMsg_payload_le _ _ _ f hf

/-- **packet_le_mtu**: whatever list of encoded chunks `transmit_chunks_with_tag` is given, if
each chunk alone fits a packet then every datagram it emits is at most `MAX_SCTP_PACKET_SIZE`
bytes. -/
theorem packet_le_mtu (src dst : UInt16) (tag : UInt32) (chunks : List Bytes)
    (hfit : ∀ c ∈ chunks, sctpCommonHdr + c.length ≤ sctpMaxPacket) :
    ∀ p ∈ batch chunks, (encPacket src dst tag p).length ≤ sctpMaxPacket := by
  intro p hp
  have h := batchGo_le chunks [] sctpCommonHdr hfit (by simp [chunksLen]) (by decide) p hp
  have hl : (encPacket src dst tag p).length = sctpCommonHdr + chunksLen p := by
    simp [encPacket, be16, be32, le32, chunksLen, List.length_flatten]
    omega
  omega

/-- batching neither loses, duplicates nor reorders chunks -/
theorem batch_preserves_chunks (chunks : List Bytes) : (batch chunks).flatten = chunks := by
  simp [batch, batchGo_flatten]

/-- the new DATA chunks of a `transmit()` call always fit (composition of the two facts above) -/
theorem fresh_data_fits (cs : List TxChan) (sid : UInt16) (ppid : UInt32) (data : Bytes) (t : UInt32) :
    ∀ c ∈ assignTsn t (sendDataRaw cs sid ppid data).2, sctpCommonHdr + (encData c).length ≤ sctpMaxPacket := by
  have key : ∀ (os : List OChunk) (t : UInt32), (∀ o ∈ os, o.payload.length ≤ sctpMaxPayload) →
      ∀ c ∈ assignTsn t os, c.data.length ≤ sctpMaxPayload := by
    intro os
    induction os with
    | nil => intro t _ c hc; simp [assignTsn] at hc
    | cons o rest ih =>
      intro t h c hc
      simp only [assignTsn, List.mem_cons] at hc
      cases hc with
      | inl h1 => subst h1; exact h o (by simp)
      | inr h1 => exact ih (t + 1) (fun o' ho' => h o' (by simp [ho'])) c h1
  intro c hc
  exact data_chunk_fits c (key _ t (fragment_le_max_payload cs sid ppid data) c hc)

/-! ### checksum and tag -/

/-- **crc_accepts_own** / **vtag_is_peer_tag**: a datagram built by `send_packet_with_tag` passes
`handle_packet`'s CRC-32C check, and what the receiver reads back as ports, verification tag and
chunk bytes is what the sender put in (the tag is the `tag` argument: `remote_verification_tag`
for everything but INIT). Holds for every step function of the CRC (only the composition law of
`sctp_crc32c_append` is used). -/
theorem crc_accepts_own (src dst : UInt16) (tag : UInt32) (chunks : List Bytes) :
    parsePacket (encPacket src dst tag chunks) =
      some { srcPort := src, dstPort := dst, vtag := tag,
             chunks := parseChunks chunks.flatten.length chunks.flatten } := by
  simp only [encPacket, be16, be32, le32, List.cons_append, List.nil_append, parsePacket]
  rw [crc32c_append, crc32c_append]
  simp only [List.cons_append, List.nil_append, List.append_assoc]
  rw [rd32_le32, rd16_be16, rd16_be16, rd32_be32]
  simp

example : (parsePacket (encPacket 5000 5001 0xDEADBEEF [encChunk 4 0 [1, 2, 3, 4, 5]])).map (·.vtag) = some 0xDEADBEEF := by
  rw [crc_accepts_own]; rfl

/-! ### retransmit phase -/

/-- only marked records are retransmitted: a `transmit()` re-sends exactly the records that have
`needs_retransmit` set, once, and clears the mark -/
theorem rexmit_only_marked : ∀ (q : List SRec) (flight now : Nat),
    (rexmitPhase q flight now).2.2 = (q.filter (·.needsRetransmit)).map (fun r => TxItem.rexmit r.tsn r.len) ∧
    ∀ r ∈ (rexmitPhase q flight now).1, r.needsRetransmit = false := by
  intro q
  induction q with
  | nil => intro f n; simp [rexmitPhase]
  | cons r rest ih =>
    intro f n
    unfold rexmitPhase
    split
    · next h =>
      obtain ⟨a, b⟩ := ih (if r.inFlight then f else f + r.len) n
      refine ⟨by simp [h, a], ?_⟩
      intro x hx
      simp only [List.mem_cons] at hx
      cases hx with
      | inl e => subst e; rfl
      | inr e => exact b x e
    · next h =>
      obtain ⟨a, b⟩ := ih f n
      refine ⟨by simp [h, a], ?_⟩
      intro x hx
      simp only [List.mem_cons] at hx
      cases hx with
      | inl e => subst e; simpa using h
      | inr e => exact b x e


/-- **model_traces_wireOk** (control packets): a datagram the model's `send_packet_with_tag`
builds with the peer's announced tag, within the MTU and carrying no INIT / INIT-ACK / DATA chunk,
passes the decidable wire predicate `wireStep` that the driver evaluates on every captured datagram
(size, CRC-32C, verification tag) and leaves the per-side TSN bookkeeping untouched. -/
theorem model_traces_wireOk (w : WireSt) (idx s : Nat) (src dst : UInt16) (tag : UInt32) (chunks : List Bytes)
    (hv : w.viol = none) (hpeer : (w.side (1 - s)).tag = some tag)
    (hlen : (encPacket src dst tag chunks).length ≤ sctpMaxPacket)
    (hk : ∀ c ∈ parseChunks chunks.flatten.length chunks.flatten,
      c.ty.toNat ≠ ctInit ∧ c.ty.toNat ≠ ctInitAck ∧ c.ty.toNat ≠ ctData) :
    (wireStep w idx s (encPacket src dst tag chunks)).viol = none ∧
    (wireStep w idx s (encPacket src dst tag chunks)).a = w.a ∧
    (wireStep w idx s (encPacket src dst tag chunks)).b = w.b := by
  -- the chunk fold changes nothing
  have key : ∀ (cs : List RawChunk) (w0 : WireSt), w0.viol = none →
      (∀ c ∈ cs, c.ty.toNat ≠ ctInit ∧ c.ty.toNat ≠ ctInitAck ∧ c.ty.toNat ≠ ctData) →
      cs.foldl (wireChunk idx s) w0 = w0 := by
    intro cs
    induction cs with
    | nil => intro w0 _ _; rfl
    | cons c rest ih =>
      intro w0 h0 hcs
      obtain ⟨h1, h2, h3⟩ := hcs c (by simp)
      have hstep : wireChunk idx s w0 c = w0 := by
        have e1 : (c.ty.toNat == ctInit) = false := by simpa using h1
        have e2 : (c.ty.toNat == ctInitAck) = false := by simpa using h2
        have e3 : (c.ty.toNat == ctData) = false := by simpa using h3
        simp only [wireChunk, h0, Option.isSome_none, Bool.false_eq_true, if_false, e1, e2, e3, Bool.or_self]
      simp only [List.foldl_cons, hstep]
      exact ih w0 h0 (fun c' hc' => hcs c' (by simp [hc']))
  -- the packet-level step on a state without violation whose peer announced `tag`
  have kp : ∀ (w1 : WireSt), w1.viol = none → (w1.side (1 - s)).tag = some tag →
      wirePacket w1 idx s { srcPort := src, dstPort := dst, vtag := tag, chunks := parseChunks chunks.flatten.length chunks.flatten } = w1 := by
    intro w1 h1 h2
    have hinit : isInitPacket (parseChunks chunks.flatten.length chunks.flatten) = false := by
      cases hc : parseChunks chunks.flatten.length chunks.flatten with
      | nil => rfl
      | cons c rest =>
        have := (hk c (by rw [hc]; simp)).1
        simpa [isInitPacket] using this
    simp only [wirePacket, hinit, Bool.false_eq_true, if_false, h2, beq_self_eq_true, Bool.not_true]
    exact key _ w1 h1 hk
  have hsz : ¬ ((encPacket src dst tag chunks).length > sctpMaxPacket) := by omega
  have hw1 : wireStep w idx s (encPacket src dst tag chunks) =
      { w with packets := w.packets + 1, maxLen := max w.maxLen (encPacket src dst tag chunks).length } := by
    simp only [wireStep, hv, Option.isSome_none, Bool.false_eq_true, if_false, hsz, crc_accepts_own]
    apply kp
    · simpa using hv
    · simpa [WireSt.side] using hpeer
  rw [hw1]
  exact ⟨hv, rfl, rfl⟩

/-! ### TSNs -/

/-- **tsn_consecutive**: the new DATA chunks of one `transmit()` carry `next_tsn, next_tsn+1, …`
in queue order, and the next call continues where this one stopped. -/
theorem tsn_consecutive (s : Tx) (sackNeeded : Bool) (now : Nat) :
    let r := transmit s sackNeeded now
    let fresh := assignTsn s.nextTsn (popBudget s.outQ
      (effectiveWindow s.cwnd s.flight s.peerRwnd s.maxBurst - (rexmitPhase s.sentQ s.flight now).2.1) 0).1
    (∀ i (h : i < fresh.length), fresh[i].tsn = s.nextTsn + UInt32.ofNat i) ∧
    r.1.nextTsn = s.nextTsn + UInt32.ofNat fresh.length ∧
    r.2.filterMap (fun | .fresh c => some c | _ => none) = fresh := by
  refine ⟨fun i h => assignTsn_tsn _ _ i h, ?_, ?_⟩
  · simp [transmit, assignTsn_length]
  · simp only [transmit, (rexmit_only_marked s.sentQ s.flight now).1]
    cases sackNeeded <;>
      simp [List.filterMap_append, List.filterMap_map, Function.comp_def]

/-! ### window -/

/-- the effective window never exceeds the peer's advertised window nor the congestion window -/
theorem effective_window_le (cwnd flight rwnd mb : Nat) :
    effectiveWindow cwnd flight rwnd mb ≤ rwnd ∧ effectiveWindow cwnd flight rwnd mb ≤ cwnd := by
  simp only [effectiveWindow]; omega

/-- **window_overshoot_le_one_chunk**: in one `transmit()` the new data taken from the outbound
queue, *not counting the last chunk taken*, is strictly less than the available window
`min(flight+burst, cwnd, rwnd) − flight`; with no available window nothing new is sent. -/
theorem window_overshoot_le_one_chunk (q : List OChunk) (available : Nat) :
    ((popBudget q available 0).1 = [] ∨ paddedSum (popBudget q available 0).1.dropLast < available) ∧
    (available = 0 → (popBudget q available 0).1 = []) ∧
    (popBudget q available 0).1 ++ (popBudget q available 0).2 = q :=
  ⟨popBudget_overshoot q available 0, fun h => by rw [h]; exact popBudget_zero q 0, popBudget_split q available 0⟩

/-- zero window (or `flight ≥ rwnd`): no new DATA leaves, whatever is queued -/
theorem closed_window_sends_nothing_new (s : Tx) (sackNeeded : Bool) (now : Nat)
    (h : s.peerRwnd ≤ (rexmitPhase s.sentQ s.flight now).2.1) :
    (transmit s sackNeeded now).1.outQ = s.outQ ∧ (transmit s sackNeeded now).1.nextTsn = s.nextTsn := by
  have hz : effectiveWindow s.cwnd s.flight s.peerRwnd s.maxBurst - (rexmitPhase s.sentQ s.flight now).2.1 = 0 := by
    have := (effective_window_le s.cwnd s.flight s.peerRwnd s.maxBurst).1; omega
  have h1 := popBudget_zero s.outQ 0
  have h2 := popBudget_split s.outQ 0 0
  rw [h1] at h2
  simp only [transmit, hz, h1, List.length_nil]
  refine ⟨by simpa using h2, ?_⟩
  apply UInt32.toNat_inj.mp; simp

/-! ### retransmission after a covering SACK -/

/-- a record is covered by the cumulative TSN `cum` -/
def Covered (cum : UInt32) (r : SRec) : Bool := i32NonPos (r.tsn - cum)

/-- unless the SACK is discarded by the late-SACK filter, every record whose TSN the cumulative ack covers is *gone from the sent queue*
after `apply_sack_to_sent_queue` — so neither T3, fast retransmit nor the tail-loss probe can
send it again. All queues, SACKs, gap blocks, times. -/
theorem no_rexmit_after_covering_sack_partial (q : List SRec) (cum : UInt32) (gaps : List (UInt16 × UInt16))
    (now : Nat) (cm : Bool) (mx : Nat) (hlate : lateSack q cum gaps = false) :
    ∀ r ∈ (applySack q cum gaps now cm mx).1, Covered cum r = false := by
  intro r hr
  simp only [applySack, hlate, Bool.false_eq_true, if_false] at hr
  have h2 : ∀ (gs : List (UInt16 × UInt16)) (st : List SRec × SackOutcome),
      (gs.foldl (gapBlockApply now cum) st).1.map (·.tsn) = st.1.map (·.tsn) := by
    intro gs
    induction gs with
    | nil => intro st; rfl
    | cons g rest ih => intro st; simp only [List.foldl_cons]; rw [ih]; exact gapBlockApply_tsns now cum g st
  have hmem : r.tsn ∈ (q.filter (fun r => !i32NonPos (r.tsn - cum))).map (·.tsn) := by
    have e1 := missingPass_tsns now cm mx (maxReportedOf cum gaps)
      (gaps.foldl (gapBlockApply now cum) (q.filter (fun r => !i32NonPos (r.tsn - cum)),
        (q.filter (fun r => i32NonPos (r.tsn - cum))).foldl (cumAckRec now) { maxReported := maxReportedOf cum gaps })).1
      (gaps.foldl (gapBlockApply now cum) (q.filter (fun r => !i32NonPos (r.tsn - cum)),
        (q.filter (fun r => i32NonPos (r.tsn - cum))).foldl (cumAckRec now) { maxReported := maxReportedOf cum gaps })).2
    have e2 := h2 gaps (q.filter (fun r => !i32NonPos (r.tsn - cum)),
        (q.filter (fun r => i32NonPos (r.tsn - cum))).foldl (cumAckRec now) { maxReported := maxReportedOf cum gaps })
    have := List.mem_map_of_mem (f := (·.tsn)) hr
    rw [e1, e2] at this
    exact this
  obtain ⟨r0, hr0, heq⟩ := List.mem_map.mp hmem
  have := (List.mem_filter.mp hr0).2
  simp only [Covered, ← heq]
  simpa using this

/-- **no_rexmit_after_covering_sack** (full): once `apply_sack_to_sent_queue` has processed a
SACK, no record whose TSN the cumulative ack covers is left in the sent queue — so neither T3, fast
retransmit nor the tail-loss probe can send it again. For every queue (TSN wrap inside the queue
included), SACK, gap blocks and time, under the serial-number window: the cumulative TSN is less
than 2^31 − 1 beyond any outstanding chunk it covers. -/
theorem no_rexmit_after_covering_sack (q : List SRec) (cum : UInt32) (gaps : List (UInt16 × UInt16))
    (now : Nat) (cm : Bool) (mx : Nat)
    (hwin : ∀ r ∈ q, Covered cum r = true → (cum - r.tsn).toNat < 2147483647) :
    ∀ r ∈ (applySack q cum gaps now cm mx).1, Covered cum r = false := by
  by_cases hlate : lateSack q cum gaps = false
  · exact no_rexmit_after_covering_sack_partial q cum gaps now cm mx hlate
  · have hl : lateSack q cum gaps = true := by simpa using hlate
    intro r hr
    simp only [applySack, hl, if_true] at hr
    -- the filter fired: show that then nothing in the queue is covered
    cases hc : Covered cum r with
    | false => rfl
    | true =>
      exfalso
      have hne : q ≠ [] := by intro h; rw [h] at hr; simp at hr
      obtain ⟨lo, hlo, hmem, hle⟩ := serialMin_spec cum q hne
      have hkr := (i32NonPos_iff_key (r.tsn - cum)).mp hc
      have hklo : i32Key (lo.tsn - cum) ≤ 2147483648 := Nat.le_trans (hle r hr) hkr
      have hclo : Covered cum lo = true := (i32NonPos_iff_key (lo.tsn - cum)).mpr hklo
      have hw := hwin lo hmem hclo
      have hneg : i32Neg (cum - (lo.tsn - 1)) = false := by
        simp only [i32Neg, ge_iff_le, decide_eq_false_iff_not, UInt32.le_iff_toNat_le, Nat.not_le]
        have e : (cum - (lo.tsn - 1)).toNat = ((cum - lo.tsn).toNat + 1) % 4294967296 := by
          have h1 := lo.tsn.toNat_lt
          have h2 := cum.toNat_lt
          simp only [UInt32.toNat_sub, UInt32.toNat_one]
          omega
        rw [e]
        show _ < 2147483648
        omega
      simp [lateSack, hlo, hneg] at hl

/-- non-vacuity, across the TSN wrap: the queue `{0xFFFFFFFE, 0}` and a SACK with cumulative TSN
`0xFFFFFFFE` (the history on which the code used to retransmit the covered chunk) -/
example : (∀ r ∈ [({ tsn := 0, len := 100 } : SRec), { tsn := 0xFFFFFFFE, len := 100 }],
      Covered 0xFFFFFFFE r = true → ((0xFFFFFFFE : UInt32) - r.tsn).toNat < 2147483647) ∧
    (applySack [{ tsn := 0, len := 100 }, { tsn := 0xFFFFFFFE, len := 100 }] 0xFFFFFFFE [] 10 true 8).1.map (·.tsn) = [0] := by
  decide

/-! ### quiescence -/

/-- **quiescent_when_all_acked**: with nothing unacknowledged, nothing queued and no SACK owed, a
`transmit()` puts nothing on the wire, and a T3 expiry has nothing to mark. -/
theorem quiescent_when_all_acked (s : Tx) (now mx : Nat) (h1 : s.sentQ = []) (h2 : s.outQ = []) :
    (transmit s false now).2 = [] ∧ (t3Fire s now mx).sentQ = [] := by
  simp [transmit, h1, h2, rexmitPhase, popBudget, assignTsn, t3Fire, t3Mark]

end RtcModel.Theorems.C13
