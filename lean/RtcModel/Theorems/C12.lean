/-
C12 — data channel messages keep their boundaries, channel and delivery mode; Open exactly once
before the first message, Close at most once; DCEP parameters survive the wire.
Property theorems only; helper lemmas live in `RtcModel/Lemmas/Sctp{Multi,Open}.lean`.
-/
import RtcModel.Lemmas.SctpMulti
import RtcModel.Lemmas.SctpOpen
import RtcModel.Lemmas.SctpPr
import RtcModel.Lemmas.SctpDcepRun

import RtcModel.SctpSend
import RtcModel.Lemmas.SctpPrE2E
import RtcModel.Lemmas.SctpReconfig
namespace RtcModel.Theorems.C12
open RtcModel.Sctp RtcModel.Generated

/-! ### messages -/

/-- **delivered_is_submitted / ordered_in_order** (reliable channels, any number of them, ordered
or unordered): for every list of submissions `(channel, message)` — the order in which concurrent
senders got the outbound-queue lock — on channels both sides agree on, every initial TSN and every
arrival history of the resulting DATA chunks (loss, duplication, reordering, delay), what each
channel has delivered is what it had before followed by a *prefix of that channel's own
submissions, in submission order, bytes-exact*: no message is merged, split, altered, duplicated,
fabricated or handed to another channel. -/
theorem delivered_is_submitted (ppid : UInt32) (hp : ppid.toNat ≠ dcPpidDcep)
    (cs : List TxChan) (subs : List (UInt16 × Bytes)) (tsn0 : UInt32) (s0 : Rx)
    (hsync : Sync cs s0.pl) (hreg : ∀ s ∈ subs, ∃ tc, findTx cs s.1 = some tc)
    (hcum : s0.cum = tsn0 - 1) (hrq : s0.rq = [])
    (hlen : (assignTsn tsn0 (sendMany cs ppid subs).2).length < 2147483648)
    (arr : List (Fin (assignTsn tsn0 (sendMany cs ppid subs).2).length))
    (sid : UInt16) (dc0 : Chan) (h0 : findChan s0.pl.chans sid = some dc0) :
    ∃ dc' j, findChan (arr.foldl (fun s i => handleData s (assignTsn tsn0 (sendMany cs ppid subs).2)[i]) s0).pl.chans sid
        = some dc' ∧ j ≤ (msgsOn subs sid).length ∧ dc'.events = dc0.events ++ (msgsOn subs sid).take j := by
  obtain ⟨k, _, hpl, _⟩ := recv_any _ ppid hp (sendMany_ppid ppid subs cs) tsn0 s0 hcum hrq hlen arr
  obtain ⟨dcF, hF, hFe⟩ := sendMany_run ppid hp subs cs s0.pl tsn0 hsync hreg sid dc0 h0
  obtain ⟨dck, hk1, hk2⟩ := plRun_mono ((assignTsn tsn0 (sendMany cs ppid subs).2).take k) s0.pl sid dc0 h0
  have hsplit : plRun procDataP s0.pl (assignTsn tsn0 (sendMany cs ppid subs).2) =
      plRun procDataP (plRun procDataP s0.pl ((assignTsn tsn0 (sendMany cs ppid subs).2).take k))
        ((assignTsn tsn0 (sendMany cs ppid subs).2).drop k) := by
    rw [← plRun_append, List.take_append_drop]
  obtain ⟨dcF', hF1, hF2⟩ := plRun_mono ((assignTsn tsn0 (sendMany cs ppid subs).2).drop k) _ sid dck hk1
  have : dcF' = dcF := by
    have := hF1
    rw [← hsplit] at this
    exact Option.some.inj (this.symm.trans hF)
  subst this
  rw [hFe] at hF2
  obtain ⟨j, hj, hje⟩ := prefix_sandwich dc0.events dck.events (msgsOn subs sid) hk2 hF2
  exact ⟨dck, j, by rw [hpl]; exact hk1, hj, hje⟩

/-- if every chunk arrives at least once, every channel has delivered all of its submissions -/
theorem delivered_complete (ppid : UInt32) (hp : ppid.toNat ≠ dcPpidDcep)
    (cs : List TxChan) (subs : List (UInt16 × Bytes)) (tsn0 : UInt32) (s0 : Rx)
    (hsync : Sync cs s0.pl) (hreg : ∀ s ∈ subs, ∃ tc, findTx cs s.1 = some tc)
    (hcum : s0.cum = tsn0 - 1) (hrq : s0.rq = [])
    (hlen : (assignTsn tsn0 (sendMany cs ppid subs).2).length < 2147483648)
    (arr : List (Fin (assignTsn tsn0 (sendMany cs ppid subs).2).length)) (hall : ∀ i, i ∈ arr)
    (sid : UInt16) (dc0 : Chan) (h0 : findChan s0.pl.chans sid = some dc0) :
    ∃ dc', findChan (arr.foldl (fun s i => handleData s (assignTsn tsn0 (sendMany cs ppid subs).2)[i]) s0).pl.chans sid
        = some dc' ∧ dc'.events = dc0.events ++ msgsOn subs sid := by
  obtain ⟨k, _, hpl, hk⟩ := recv_any _ ppid hp (sendMany_ppid ppid subs cs) tsn0 s0 hcum hrq hlen arr
  obtain ⟨dcF, hF, hFe⟩ := sendMany_run ppid hp subs cs s0.pl tsn0 hsync hreg sid dc0 h0
  refine ⟨dcF, ?_, hFe⟩
  rw [hpl, hk hall, List.take_length]
  exact hF

set_option maxRecDepth 100000 in
/-- non-vacuity: two channels (one ordered, one unordered), interleaved submissions across the TSN wrap -/
example :
    let cs : List TxChan := [{ id := 1, ordered := true, maxPayload := 2 }, { id := 2, ordered := false, maxPayload := 3 }]
    let s0 : Rx := { cum := 0xFFFFFFFE, pl := { chans := [{ id := 1, ordered := true, state := 1 }, { id := 2, ordered := false, state := 1 }] } }
    let subs : List (UInt16 × Bytes) := [(1, [1, 2, 3]), (2, [9, 9, 9, 9]), (1, []), (2, [7])]
    let ch := assignTsn 0xFFFFFFFF (sendMany cs 53 subs).2
    ch.length = 6 ∧
    ((ch.reverse ++ ch).foldl handleData s0).pl.chans.map (·.events) =
      [[.msg [1, 2, 3], .msg []], [.msg [9, 9, 9, 9], .msg [7]]] := by decide

/-! ### partial reliability: skipped fragments never yield a message -/

/-- a fragment without the B bit that finds the reassembly buffer empty (its beginning was skipped
by a FORWARD-TSN) changes nothing: no event, no buffer content -/
theorem orphan_fragment_dropped (pl : Pl) (dc : Chan) (c : DChunk) (hb : c.bBit = false) (hr : dc.reasm = []) :
    deliverTo' pl dc c = pl := by
  simp [deliverTo', hb, hr]

/-- the step of `handle_forward_tsn` that advances the cumulative point empties every reassembly
buffer: what was collected of a partly skipped message is forgotten -/
theorem forward_tsn_clears_reassembly (s : Rx) (n : UInt32) (ps : List (UInt16 × UInt16)) :
    ∀ c ∈ (forwardTo s n ps).pl.chans, c.reasm = [] := by
  have key : ∀ (ps : List (UInt16 × UInt16)) (pl : Pl), (∀ c ∈ pl.chans, c.reasm = []) →
      ∀ c ∈ (ps.foldl fwdStream pl).chans, c.reasm = [] := by
    intro ps
    induction ps with
    | nil => intro pl h; exact h
    | cons p rest ih =>
      intro pl hpl
      apply ih
      unfold fwdStream
      simp only []
      split
      · exact hpl
      · split
        · next dc hf =>
          intro c hc
          cases mem_setChan _ _ _ hc with
          | inl h1 => exact hpl c h1
          | inr h1 => rw [h1]; simp [Chan.emitAll]; exact hpl dc (findChan_mem _ _ _ hf)
        · exact hpl
  simp only [forwardTo]
  apply key
  intro c hc
  simp only [List.mem_map] at hc
  obtain ⟨c0, _, rfl⟩ := hc
  rfl

/-- the history that used to fabricate `[1,3]` out of the submitted `[1,2,3]` (middle fragment
abandoned and skipped by a FORWARD-TSN while the last one was still on its way) now delivers
nothing — and the next complete message is delivered intact -/
example :
    let s0 : Rx := { cum := 9, pl := { chans := [{ id := 2, ordered := false, state := 1 }] } }
    let f0 : DChunk := { tsn := 10, flags := 6, sid := 2, ssn := 0, ppid := 53, data := [1] }
    let f2 : DChunk := { tsn := 12, flags := 5, sid := 2, ssn := 0, ppid := 53, data := [3] }
    let g : DChunk := { tsn := 13, flags := 7, sid := 2, ssn := 0, ppid := 53, data := [8, 9] }
    ((handleData (handleData (handleForwardTsn (handleData s0 f0) 11 [(2, 0)]) f2) g).pl.chans.map (·.events))
      = [[.msg [8, 9]]] := by decide

/-- **pr_no_fabrication** (partially reliable, unordered channel; payload layer): take any
workload, fragment it as `send_data_raw` does, and let *any* set of the resulting chunks be skipped
(abandoned and passed over by FORWARD-TSN — each skip forgets the reassembly buffers, as
`handle_forward_tsn` does) while the others are processed in TSN order. Then the channel's new
events are exactly the messages none of whose fragments was skipped: a sublist of the submitted
messages — nothing merged, split, truncated, fabricated, duplicated or reordered. -/
theorem pr_no_fabrication (keep : Nat → Bool) (sid : UInt16) (ppid : UInt32) (hp : ppid.toNat ≠ dcPpidDcep)
    (msgs : List Bytes) (cs : List TxChan) (tc : TxChan) (pl : Pl) (dc : Chan) (t : UInt32) (i : Nat)
    (hf : findTx cs sid = some tc) (ho : tc.ordered = false) (hmp : 0 < tc.maxPayload)
    (hfind : findChan pl.chans sid = some dc) (hst : dc.state = 1) :
    ∃ dc' delivered, findChan (procKeep keep i pl (assignTsn t (sendAll cs sid ppid msgs).2)).chans sid = some dc' ∧
      dc'.events = dc.events ++ delivered.map ChanEv.msg ∧ List.Sublist delivered msgs ∧
      delivered = deliveredSpec (min tc.maxPayload sctpMaxPayload) keep i msgs := by
  obtain ⟨dc', h1, h2⟩ := pr_workload keep sid ppid hp msgs cs tc pl dc t i hf ho hmp hfind hst
  exact ⟨dc', _, h1, h2, deliveredSpec_sublist _ keep msgs i, rfl⟩

/-- the skip step of `procKeep` is what an effective FORWARD-TSN does to the channels when no
ordered stream holds anything and nothing is queued behind the skipped TSNs: every reassembly
buffer is forgotten, nothing is delivered. (The stream table gains an entry per named stream id
since fix ec94f14; an unordered channel never reads it.) -/
theorem forward_tsn_is_reset (s : Rx) (n : UInt32) (h : tsnGt n s.cum = true)
    (hs : ∀ e ∈ s.pl.streams, e.2.pending = []) (hq : s.rq = [])
    (ps : List (UInt16 × UInt16)) :
    (handleForwardTsn s n ps).pl.chans = (resetPl s.pl).chans ∧
    ∀ e ∈ (handleForwardTsn s n ps).pl.streams, e.2.pending = [] := by
  have hstep : ∀ (pl : Pl) (p : UInt16 × UInt16), (∀ e ∈ pl.streams, e.2.pending = []) →
      (fwdStream pl p).chans = pl.chans ∧ ∀ e ∈ (fwdStream pl p).streams, e.2.pending = [] := by
    intro pl p hp
    have hg : (getStream pl.streams p.1).pending = [] := by
      unfold getStream
      split
      · next e he => exact hp e (List.mem_of_find?_eq_some he)
      · rfl
    have ha : ((getStream pl.streams p.1).advanceSsnTo p.2).pending = [] := by
      unfold InStream.advanceSsnTo; split <;> simp [hg]
    have hd : ((getStream pl.streams p.1).advanceSsnTo p.2).drainReady =
        ((getStream pl.streams p.1).advanceSsnTo p.2, []) := by
      simp [InStream.drainReady, ha, InStream.drainGo]
    simp only [fwdStream, hd, List.isEmpty_nil, if_true]
    refine ⟨trivial, ?_⟩
    intro e he
    simp only [setStream, List.mem_cons, List.mem_filter] at he
    cases he with
    | inl h1 => rw [h1]; exact ha
    | inr h1 => exact hp e h1.1
  have hfold : ∀ (ps : List (UInt16 × UInt16)) (pl : Pl), (∀ e ∈ pl.streams, e.2.pending = []) →
      (ps.foldl fwdStream pl).chans = pl.chans ∧ ∀ e ∈ (ps.foldl fwdStream pl).streams, e.2.pending = [] := by
    intro ps
    induction ps with
    | nil => intro pl hp; exact ⟨rfl, hp⟩
    | cons p rest ih =>
      intro pl hp
      obtain ⟨h1, h2⟩ := hstep pl p hp
      obtain ⟨h3, h4⟩ := ih (fwdStream pl p) h2
      exact ⟨by simp only [List.foldl_cons]; rw [h3, h1], by simpa only [List.foldl_cons] using h4⟩
  have := hfold ps { s.pl with chans := s.pl.chans.map (fun c => { c with reasm := [] }) } hs
  simp only [handleForwardTsn, handleForwardTsnWith, h, if_true, forwardTo, hq, List.filter_nil, List.length_nil, fwdDrain,
    scheduleSackImmediate, resetPl, List.map_nil, List.sum_nil]
  exact this

/-- non-vacuity: three messages, the middle fragment of the first one and the whole second one
skipped — only the third is delivered -/
example :
    let cs : List TxChan := [{ id := 2, ordered := false, maxPayload := 1, maxRetransmits := some 0 }]
    let pl : Pl := { chans := [{ id := 2, ordered := false, state := 1 }] }
    (procKeep (fun i => i != 1 && i != 3) 0 pl (assignTsn 10 (sendAll cs 2 53 [[1, 2, 3], [4], [5, 6]]).2)).chans.map (·.events)
      = [[.msg [5, 6]]] := by decide

/-- **forward_tsn_serial**: `handle_forward_tsn` acts exactly when the new cumulative TSN is
*serially* ahead (a FORWARD-TSN across the 2^32 wrap included), is a no-op otherwise, and then the
cumulative point is at least the announced one — exactly it when nothing was queued behind it. -/
theorem forward_tsn_serial (s : Rx) (n : UInt32) (ps : List (UInt16 × UInt16)) :
    (tsnGt n s.cum = false → handleForwardTsn s n ps = s) ∧
    (tsnGt n s.cum = true → s.rq = [] → (handleForwardTsn s n ps).cum = n) := by
  constructor
  · intro h; simp [handleForwardTsn, handleForwardTsnWith, h]
  · intro h hq
    simp [handleForwardTsn, handleForwardTsnWith, h, forwardTo, hq, fwdDrain, scheduleSackImmediate]

/-- the history on which the code used to ignore the FORWARD-TSN (cumulative point `0xFFFFFFFF`,
FORWARD-TSN to `0`): it now takes effect and the chunks queued behind it (TSN 1, 2 of a reliable
sibling channel) are delivered at once -/
example :
    let q : List (UInt32 × DChunk) := [(1, { tsn := 1, flags := 3, sid := 1, ssn := 0, ppid := 53, data := [7] }), (2, { tsn := 2, flags := 3, sid := 1, ssn := 1, ppid := 53, data := [8] })]
    let s0 : Rx := { cum := 0xFFFFFFFF, pl := { chans := [{ id := 1, ordered := true, state := 1 }] }, rq := q }
    (handleForwardTsn s0 0 []).cum = 2 ∧ (handleForwardTsn s0 0 []).rq = [] ∧
    (handleForwardTsn s0 0 []).pl.chans.map (·.events) = [[.msg [7], .msg [8]]] := by decide

/-! ### DCEP -/

/-- **dcep_roundtrip**: what `DataChannelOpen::marshal` writes, `unmarshal` reads back unchanged
(channel type, priority, reliability parameter, label, protocol), for every well-formed UTF-8
label / protocol shorter than 64 KiB. -/
theorem dcep_roundtrip (o : DcepOpen) (hl : o.label.length < 65536) (hp : o.protocol.length < 65536)
    (hul : utf8Valid o.label = true) (hup : utf8Valid o.protocol = true) :
    DcepOpen.unmarshal o.marshal = some o := dcep_unmarshal_marshal o hl hp hul hup

example : DcepOpen.unmarshal (openOf false (some 3) none [0x63, 0xC3, 0xA9] []).marshal =
    some (openOf false (some 3) none [0x63, 0xC3, 0xA9] []) := by decide

/-- **chantype_roundtrip**: the channel `handle_dcep` creates from the OPEN that `send_dcep_open`
built for a channel has the same ordering and the same reliability mode and parameter — provided at
most one of `max_retransmits` / `max_packet_life_time` is set (W3C forbids both). -/
theorem chantype_roundtrip (sid : UInt16) (ordered : Bool) (mr ml : Option UInt16) (label proto : Bytes)
    (h : ¬ (mr.isSome ∧ ml.isSome)) :
    let c := chanOfOpen sid (openOf ordered mr ml label proto)
    c.ordered = ordered ∧ c.maxRetransmits = mr ∧ c.maxLifetime = ml ∧ c.label = label ∧ c.protocol = proto ∧
    c.id = sid ∧ c.events = [ChanEv.open_] := by
  cases ordered <;> cases mr <;> cases ml <;>
    simp_all [chanOfOpen, openOf, chanTypeOf, reliabilityOf] <;> (try decide) <;>
    (apply UInt16.toNat_inj.mp; simp)

/-- with both parameters set the reliability mode does not survive (the creator's
`max_packet_life_time` is dropped) — why the hypothesis above is needed -/
theorem chantype_both_set_witness :
    (chanOfOpen 1 (openOf true (some 3) (some 100) [] [])).maxLifetime = none := by decide

/-- **dcep_open_any_size** (round 2; was the unrecorded defect W1): the DCEP OPEN `send_dcep_open`
builds for a channel — label and protocol of *any* length up to the protocol's 65 535 bytes, so
possibly many DATA chunks after `send_data_raw`'s fragmentation — processed in order by the peer's
`process_data_payload` creates exactly one channel there, with the creator's ordering, reliability
mode and parameter, label and protocol, announces Open on it, hands it to the application and
answers with a DCEP ACK. Composition of fragmentation, per-stream DCEP reassembly, the codec round
trip and the channel-type mapping. -/
theorem dcep_open_any_size (cs : List TxChan) (sid : UInt16) (tc : TxChan) (hf : findTx cs sid = some tc)
    (hmp : 0 < tc.maxPayload) (ordered : Bool) (mr ml : Option UInt16) (label proto : Bytes)
    (hboth : ¬ (mr.isSome ∧ ml.isSome)) (hl : label.length < 65536) (hp : proto.length < 65536)
    (hul : utf8Valid label = true) (hup : utf8Valid proto = true)
    (pl : Pl) (hnew : pl.chans.any (fun c => c.id == sid) = false) (t : UInt32) :
    let pl' := plRun procPayload pl (assignTsn t (sendDataRaw cs sid (UInt32.ofNat dcPpidDcep) (openOf ordered mr ml label proto).marshal).2)
    (∃ c, pl'.chans = pl.chans ++ [c] ∧ c.id = sid ∧ c.ordered = ordered ∧ c.maxRetransmits = mr ∧ c.maxLifetime = ml ∧
      c.label = label ∧ c.protocol = proto ∧ c.state = 1 ∧ c.events = [ChanEv.open_]) ∧
    pl'.acts = pl.acts ++ [Act.newChannel sid, Act.dcepAck sid] := by
  have hne : (openOf ordered mr ml label proto).marshal ≠ [] := by simp [DcepOpen.marshal]
  obtain ⟨x, hx⟩ := dcepMsgRun cs sid tc hf hmp _ hne pl t
  have hrt := dcep_unmarshal_marshal (openOf ordered mr ml label proto) (by simpa [openOf] using hl)
    (by simpa [openOf] using hp) (by simpa [openOf] using hul) (by simpa [openOf] using hup)
  have hcore : (handleDcep pl sid (openOf ordered mr ml label proto).marshal).1 =
      { pl with chans := pl.chans ++ [chanOfOpen sid (openOf ordered mr ml label proto)],
                acts := pl.acts ++ [Act.newChannel sid, Act.dcepAck sid] } := by
    have hhead : ∃ rest, (openOf ordered mr ml label proto).marshal = 0x03 :: rest := ⟨_, rfl⟩
    obtain ⟨rest, hr⟩ := hhead
    simp only [handleDcep, dcepCore]
    rw [hr] at hrt ⊢
    simp only [beq_self_eq_true, if_true, hrt, hnew, Bool.false_eq_true, if_false]
  obtain ⟨h1, h2, h3, h4, h5, h6, h7⟩ := chantype_roundtrip sid ordered mr ml label proto hboth
  simp only []
  rw [hx, hcore]
  exact ⟨⟨_, rfl, h6, h1, h2, h3, h4, h5, by simp [chanOfOpen], h7⟩, rfl⟩

/-- non-vacuity: a 40-byte label over a 16-byte fragment size (four DATA chunks) creates the channel -/
example :
    let cs : List TxChan := [{ id := 2, ordered := true, maxPayload := 16 }]
    let os := (sendDataRaw cs 2 50 (openOf false (some 3) none (List.replicate 40 0x4C) [0x70]).marshal).2
    os.length = 4 ∧ (plRun procPayload {} (assignTsn 7 os)).chans.map (fun c => (c.id, c.ordered, c.maxRetransmits, c.label.length, c.events))
      = [(2, false, some 3, 40, [ChanEv.open_])] := by decide

/-! ### Open / Close -/

/-- **open_once_before_first**: if every channel's event list is well-shaped (nothing announced
while Connecting, else exactly one `Open` and it comes first), it stays so after
`process_data_payload` of any chunk (data or DCEP) and after the channel loop of
`handle_cookie_ack` / `handle_cookie_echo` — provided user data is never processed for an in-band
channel that is still Connecting (`DataOk`: the peer's DCEP ACK has the lower TSN). -/
theorem open_once_before_first (pl : Pl) (hall : ∀ x ∈ pl.chans, Shape x) :
    (∀ c : DChunk, (c.ppid.toNat ≠ dcPpidDcep → DataOk pl c) → ∀ x ∈ (procPayload pl c).1.chans, Shape x) ∧
    (∀ x ∈ (openChannels pl).chans, Shape x) :=
  ⟨fun c hok => shape_procPayload pl c hall hok, shape_openChannels pl hall⟩

/-- the hypothesis `DataOk` always holds for pre-negotiated channels and for channels created from
a received OPEN -/
theorem dataOk_negotiated (pl : Pl) (c : DChunk) (h : ∀ x ∈ pl.chans, x.negotiated = true ∨ x.state ≠ 0) :
    DataOk pl c := fun dc hf => h dc (findChan_mem _ _ _ hf)

example : Shape { id := 1, ordered := true } ∧
    (∀ x ∈ (procPayload { chans := [{ id := 1, ordered := true }] }
      { tsn := 1, flags := 3, sid := 1, ssn := 0, ppid := 53, data := [5] }).1.chans,
      x.events = [ChanEv.open_, ChanEv.msg [5]]) := by
  refine ⟨Or.inl ⟨rfl, rfl⟩, by decide⟩

/-- **close_at_most_once** (round 2: all three emitters, all schedules): `Close` is announced by
`close_data_channel` (two atomic steps around the RE-CONFIG it sends), by the association's cleanup
guard and by `PeerConnection::close`. For *every* interleaving of any number of these steps on a
channel — the application closing twice, closing while the association is torn down, the guard
running between the two halves of `close_data_channel`, … — the channel has announced `Close` at
most once, and only together with entering state Closed. (Before fix 66eace2 `close_data_channel`
stored Closed and emitted unconditionally: two calls gave `Open, Close, Close`.) -/
theorem close_at_most_once (c : Chan) (steps : List CloseStep) (h : CloseInv c) :
    CloseInv (steps.foldl closeStep c) ∧ closes (steps.foldl closeStep c) ≤ 1 := by
  have key : ∀ (steps : List CloseStep) (c : Chan), CloseInv c → CloseInv (steps.foldl closeStep c) := by
    intro steps
    induction steps with
    | nil => intro c h; exact h
    | cons s rest ih => intro c h; exact ih _ (closeInv_step c s h)
  exact ⟨key steps c h, (key steps c h).1⟩

/-- the model's whole-endpoint operations are such interleavings: the teardown guard is a `guard`
step on every channel (and idempotent), `close_data_channel` is `cdcBegin; cdcEnd` on the channel
it names -/
theorem close_ops_are_steps (e : Ep) (hall : ∀ x ∈ e.rx.pl.chans, CloseInv x) :
    (∀ x ∈ (cleanup e).rx.pl.chans, CloseInv x ∧ x.state = 3) ∧
    (cleanup (cleanup e)).rx.pl.chans = (cleanup e).rx.pl.chans ∧
    (∀ dc, closeStep (closeStep dc .cdcBegin) .cdcEnd = if dc.state == 3 then dc else ({ dc with state := 3 }.emit .close)) := by
  refine ⟨closeInv_cleanup e hall, ?_, ?_⟩
  · simp only [cleanup, List.map_map]
    apply List.map_congr_left
    intro c _
    by_cases hs : c.state = 3
    · simp [swapClosed, hs]
    · simp [swapClosed, hs, Chan.emit]
  · intro dc
    by_cases hs : dc.state = 3
    · simp [closeStep, swapClosed, hs]
    · simp [closeStep, swapClosed, hs]

example : closes (([CloseStep.cdcBegin, .cdcBegin, .guard, .cdcEnd, .pcClose, .cdcEnd].foldl closeStep
    { id := 1, ordered := true, state := 1, events := [.open_] })) = 1 := by decide

/-! ### partial reliability end to end: any arrival history, any FORWARD-TSNs -/

/-- **tsn_layer_with_forward_tsn**: the TSN layer under histories that mix DATA arrivals (lost,
duplicated, reordered, delayed — any list of stream indices) with FORWARD-TSN chunks (any new
cumulative TSN inside the stream, any stream/SSN pairs, at any moment): the payload layer has been
fed exactly the first `k` chunks of the stream, in order, each once — either *processed* or
*skipped* (`procA`: a skip forgets every reassembly buffer and advances the named streams; this is
where `forward_tsn_clears_reassembly` enters the TSN-layer statement) — and a chunk is never
processed after it was skipped. -/
theorem tsn_layer_with_forward_tsn (chunks : List DChunk) (tsn0 : UInt32)
    (hts : ∀ i (h : i < chunks.length), chunks[i].tsn = tsn0 + UInt32.ofNat i)
    (hlen : chunks.length < 2147483648) (s0 : Rx) (hcum : s0.cum = tsn0 - 1) (hrq : s0.rq = [])
    (hist : List (Arrv chunks.length)) :
    ∃ (act : SkipAct) (k : Nat), k ≤ chunks.length ∧ (∀ i, k ≤ i → act i = none) ∧
      (hist.foldl (arrvStep procPayload chunks tsn0) s0).pl = plRun (procA procPayload act tsn0) s0.pl (chunks.take k) ∧
      (hist.foldl (arrvStep procPayload chunks tsn0) s0).cum = tsn0 + UInt32.ofNat k - 1 := by
  have inv0 : Inv (procA procPayload (fun _ => none) tsn0) chunks tsn0 s0.pl 0 s0 :=
    ⟨Nat.zero_le _, by rw [hcum, u32_add_zero], rfl, by intro e he; rw [hrq] at he; cases he⟩
  obtain ⟨act, k, _, hact, inv⟩ := arrv_fold procPayload chunks tsn0 s0.pl hts hlen
    (fun pl c _ => procPayload_ok pl c) hist (fun _ => none) 0 s0 (fun _ _ => rfl) inv0
  exact ⟨act, k, inv.hk, hact, inv.pl, inv.cum⟩

/-- **pr_no_fabrication_any_history** (composition; no correspondence step in between): an
unordered partially reliable channel, any workload fragmented as `send_data_raw` does, TSNs from
`tsn0`; at the receiver *any* arrival history of those chunks interleaved with *any* FORWARD-TSNs.
The channel's new events are messages of the workload, each at most once, in submission order
(`delivered` is a sublist of `msgs`): nothing merged, split, truncated, fabricated or duplicated,
whatever was lost, skipped, reordered or retransmitted. -/
theorem pr_no_fabrication_any_history (sid : UInt16) (ppid : UInt32) (hp : ppid.toNat ≠ dcPpidDcep)
    (msgs : List Bytes) (cs : List TxChan) (tc : TxChan) (tsn0 : UInt32) (s0 : Rx) (dc : Chan)
    (hf : findTx cs sid = some tc) (ho : tc.ordered = false) (hmp : 0 < tc.maxPayload)
    (hfind : findChan s0.pl.chans sid = some dc) (hord : dc.ordered = false) (hst : dc.state = 1)
    (hstream : (getStream s0.pl.streams sid).pending = [])
    (hcum : s0.cum = tsn0 - 1) (hrq : s0.rq = [])
    (hlen : (assignTsn tsn0 (sendAll cs sid ppid msgs).2).length < 2147483648)
    (hist : List (Arrv (assignTsn tsn0 (sendAll cs sid ppid msgs).2).length)) :
    ∃ dc' delivered,
      findChan (hist.foldl (arrvStep procPayload (assignTsn tsn0 (sendAll cs sid ppid msgs).2) tsn0) s0).pl.chans sid = some dc' ∧
      dc'.events = dc.events ++ delivered.map ChanEv.msg ∧ List.Sublist delivered msgs := by
  generalize hch : assignTsn tsn0 (sendAll cs sid ppid msgs).2 = chunks at hlen hist
  have hts : ∀ i (h : i < chunks.length), chunks[i].tsn = tsn0 + UInt32.ofNat i := by
    intro i h; subst hch; exact assignTsn_tsn _ _ i h
  have hsid : ∀ c ∈ chunks, c.sid = sid := by
    subst hch; exact assignTsn_sid _ _ sid (sendAll_sid sid ppid msgs cs)
  have hppid : ∀ c ∈ chunks, c.ppid.toNat ≠ dcPpidDcep := by
    subst hch
    intro c hc
    have : c.ppid = ppid := assignTsn_ppid _ _ ppid (sendAll_ppid sid ppid msgs cs) c hc
    rw [this]; exact hp
  obtain ⟨act, k, hk, _, hpl, _⟩ := tsn_layer_with_forward_tsn chunks tsn0 hts hlen s0 hcum hrq hist
  -- the full payload processor is the data processor on these chunks
  have hproc : plRun (procA procPayload act tsn0) s0.pl (chunks.take k) = plRun (procA procDataP act tsn0) s0.pl (chunks.take k) := by
    apply plRun_congr
    intro c hc pl
    have hcm : c ∈ chunks := List.mem_of_mem_take hc
    simp only [procA, procPayload_data pl c (hppid c hcm)]
  -- channel `sid` as the payload-layer run with plain skips shows it
  have hidx : ∀ x (h : x < (chunks.take k).length), ((chunks.take k)[x].tsn - tsn0).toNat = 0 + x := by
    intro x h
    have hx : x < chunks.length := by simp only [List.length_take] at h; omega
    rw [List.getElem_take, hts x hx, idx_of_tsn tsn0 x (by omega)]; omega
  have hb := bridge act tsn0 sid (chunks.take k) 0 s0.pl s0.pl rfl
    (fun d hd => by rw [hfind] at hd; cases hd; exact hord) hstream
    (fun c hc => hsid c (List.mem_of_mem_take hc)) hidx
  -- extend the keep function by "skipped" beyond k and use the payload-layer theorem on the whole stream
  let keep' : Nat → Bool := fun i => decide (i < k) && keepOf act i
  have hcongr : procKeep keep' 0 s0.pl (chunks.take k) = procKeep (keepOf act) 0 s0.pl (chunks.take k) := by
    apply procKeep_congr
    intro x hx
    have : x < k := by simp only [List.length_take] at hx; omega
    simp [keep', this]
  have hsplit : procKeep keep' 0 s0.pl chunks = procKeep keep' (0 + (chunks.take k).length) (procKeep keep' 0 s0.pl (chunks.take k)) (chunks.drop k) := by
    rw [← procKeep_append, List.take_append_drop]
  have htail := procKeep_allskip keep' sid (chunks.drop k) (0 + (chunks.take k).length) (procKeep keep' 0 s0.pl (chunks.take k))
    (fun x => by
      have hl : (chunks.take k).length = k := by simp only [List.length_take]; omega
      have : decide (0 + (chunks.take k).length + x < k) = false := by rw [hl]; simp
      simp only [keep', this, Bool.false_and])
  obtain ⟨dc2, h2a, h2b⟩ := pr_workload keep' sid ppid hp msgs cs tc s0.pl dc tsn0 0 hf ho hmp hfind hst
  rw [hch] at h2a
  -- assemble
  have hev : (findChan (hist.foldl (arrvStep procPayload chunks tsn0) s0).pl.chans sid).map (·.events) = some dc2.events := by
    rw [hpl, hproc, hb, ← hcongr, ← htail, ← hsplit, h2a]; rfl
  cases hfin : findChan (hist.foldl (arrvStep procPayload chunks tsn0) s0).pl.chans sid with
  | none => rw [hfin] at hev; cases hev
  | some dc' =>
    rw [hfin] at hev
    simp only [Option.map_some, Option.some.injEq] at hev
    exact ⟨dc', _, rfl, by rw [hev, h2b], deliveredSpec_sublist _ keep' msgs 0⟩

/-! ### closing a channel: the RE-CONFIG parameter walk -/

/-- **reconfig_resets_exactly_listed**: an Outgoing SSN Reset Request as `send_reconfig_ssn_reset`
builds it — any serial numbers, any list of stream ids (odd or even count, so with or without two
pad bytes) — with a request number the receiver has not seen makes `handle_reconfig` perform exactly
one reset, for **exactly the listed stream ids**: the pad bytes are not read as a stream (a walk that
hands the padded value on would add stream 0 for every odd count — closing any channel would reset
channel 0). -/
theorem reconfig_resets_exactly_listed (fuel : Nat) (peerSn reqSn respSn nextTsn : UInt32) (ids : List UInt16)
    (hn : 16 + 2 * ids.length < 65536) (hfresh : (reqSn ≤ peerSn && peerSn != 0xFFFFFFFF) = false) :
    rcRun peerSn (rcParams (fuel + 1) (encSsnReset reqSn respSn nextTsn ids)) = (reqSn, [RcEv.performed reqSn ids]) := by
  rw [rcParams_encSsnReset fuel reqSn respSn nextTsn ids hn]
  simp only [rcRun, be32, List.cons_append, List.nil_append, beq_self_eq_true, if_true, rd32_be32, hfresh, Bool.false_eq_true, if_false,
    parseU16s_enc]

/-- several parameters in one chunk (a request naming one stream — padded —, a response parameter,
a request naming two streams), a duplicate request number, and a truncated tail -/
example :
    rcRun 4 (rcParams 8 (encSsnReset 5 0 0 [3] ++ [0, 16, 0, 12, 0, 0, 0, 9, 0, 0, 0, 1] ++ encSsnReset 6 0 0 [1, 2] ++ encSsnReset 6 0 0 [7] ++ [0, 13, 0, 18, 0, 0]))
      = (6, [RcEv.performed 5 [3], RcEv.performed 6 [1, 2], RcEv.duplicate 6]) := by
  decide

/-! ### the sending side of partial reliability -/

/-- **abandon_only_with_cause_partial**: `update_advanced_peer_ack_point` abandons a record only if
it is partially reliable itself (max-retransmits or lifetime set) **and** an unacknowledged record
with the same (stream, SSN) key has exhausted its retransmissions or its lifetime. In particular a
reliable chunk — the channel's DCEP OPEN / ACK, which travel on the channel's stream with SSN 0 —
is never abandoned (`reliable_chunk_never_abandoned`; before fix W3 it was, by proxy of the first
message). Partial: the key identifies the *message* only on ordered channels; on an unordered
channel every message has SSN 0 (witness below). -/
theorem abandon_only_with_cause_partial (expired : List UInt32) (q : List SRec) (flight : Nat) :
    ∀ r' ∈ (abandonMark (abandonSet expired q) q flight).1,
      (r' ∈ q) ∨ ((r'.maxRetransmits.isSome || r'.hasExpiry) = true ∧
        ∃ c ∈ q, c.sid = r'.sid ∧ c.ssn = r'.ssn ∧ c.acked = false ∧ shouldAbandon expired c = true) := by
  have key : ∀ (set : List (UInt16 × UInt16)) (l : List SRec) (fl : Nat),
      ∀ r' ∈ (abandonMark set l fl).1, r' ∈ l ∨
        ((r'.maxRetransmits.isSome || r'.hasExpiry) = true ∧ set.contains (r'.sid, r'.ssn) = true) := by
    intro set l
    induction l with
    | nil => intro fl r' h; simp [abandonMark] at h
    | cons r rest ih =>
      intro fl r' h
      unfold abandonMark at h
      split at h
      · next hc =>
        rw [Bool.and_eq_true] at hc
        simp only [List.mem_cons] at h
        cases h with
        | inl h1 => right; rw [h1]; exact ⟨hc.1, hc.2⟩
        | inr h1 =>
          cases ih _ r' h1 with
          | inl h2 => left; simp [h2]
          | inr h2 => right; exact h2
      · simp only [List.mem_cons] at h
        cases h with
        | inl h1 => left; simp [h1]
        | inr h1 =>
          cases ih _ r' h1 with
          | inl h2 => left; simp [h2]
          | inr h2 => right; exact h2
  intro r' hr'
  cases key _ q flight r' hr' with
  | inl h => exact Or.inl h
  | inr h =>
    right
    refine ⟨h.1, ?_⟩
    have hm : (r'.sid, r'.ssn) ∈ abandonSet expired q := by simpa using h.2
    simp only [abandonSet, List.mem_map, List.mem_filter, Bool.and_eq_true, Bool.not_eq_true'] at hm
    obtain ⟨c, ⟨hc, ⟨⟨h1, _⟩, h3⟩⟩, heq⟩ := hm
    have e1 : c.sid = r'.sid := congrArg Prod.fst heq
    have e2 : c.ssn = r'.ssn := congrArg Prod.snd heq
    exact ⟨c, hc, e1, e2, h1, h3⟩

/-- **reliable_chunk_never_abandoned** (fix W3): the marking pass leaves every reliable record
(no max-retransmits, no lifetime — user data of reliable channels, DCEP OPEN / ACK of any channel)
exactly as it was, whatever else shares its stream and SSN. -/
theorem reliable_chunk_never_abandoned (expired : List UInt32) (q : List SRec) (flight : Nat) :
    ∀ r' ∈ (abandonMark (abandonSet expired q) q flight).1,
      r'.maxRetransmits = none → r'.hasExpiry = false → r' ∈ q := by
  intro r' hr' h1 h2
  cases abandon_only_with_cause_partial expired q flight r' hr' with
  | inl h => exact h
  | inr h => simp [h1, h2] at h

/-- the history of W3: the DCEP OPEN (TSN 10, reliable) and the first message of an in-band
max-retransmits-0 channel (TSN 11, same stream, SSN 0) are outstanding and the message is to be
abandoned: the OPEN stays, unabandoned, and the advanced peer ack point does not move past it -/
example :
    let q : List SRec := [{ tsn := 10, len := 40, transmitCount := 1, sid := 2, ssn := 0, flags := 7 },
                           { tsn := 11, len := 100, transmitCount := 1, sid := 2, ssn := 0, flags := 3, maxRetransmits := some 0 }]
    (updateAdvanced [] q 140 9 9 false []).advanced = 9 ∧
    (updateAdvanced [] q 140 9 9 false []).sentQ.map (fun r => (r.tsn, r.abandoned)) = [(10, false), (11, true)] := by
  decide

/-- **unordered_abandon_collateral_witness** (recorded finding
`pr:message-abandoned-without-cause:unordered-channel-ssn-always-0`): two one-chunk messages on the
unordered max-retransmits-2 channel 2; the first was sent three times (so it is to be
abandoned), the second was sent once and is still in flight. Both are abandoned, the advanced peer
ack point moves past both and the FORWARD-TSN makes the peer skip the second message too — although
nothing was wrong with it (it may even have arrived). -/
theorem unordered_abandon_collateral_witness :
    let q : List SRec := [{ tsn := 10, len := 100, transmitCount := 3, sid := 2, ssn := 0, flags := 7, maxRetransmits := some 2 },
                           { tsn := 11, len := 100, transmitCount := 1, sid := 2, ssn := 0, flags := 7, maxRetransmits := some 2 }]
    shouldAbandon [] q[0] = true ∧ shouldAbandon [] q[1] = false ∧
    (updateAdvanced [] q 200 9 9 false []).advanced = 11 ∧ (updateAdvanced [] q 200 9 9 false []).sentQ = [] ∧
    encForwardTsn 11 9 [(2, 0)] = some [192, 0, 0, 12, 0, 0, 0, 11, 0, 2, 0, 0] := by
  decide

end RtcModel.Theorems.C12
