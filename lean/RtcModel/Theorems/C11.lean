/-
C11 — DTLS handshakes converge: both sides agree on keys or neither connects.
Property theorems only.  The endpoint model is `RtcModel/DtlsHs.lean` (one endpoint; the network and
its faults are *histories*: any list of `Op`s — datagrams in any order, any number of times, or never,
ticks of the 1 s retransmission timer, the deadline).

What is proved, and from what:
* `agree_or_not_both_connected` — safety for every pair of histories (so every fault pattern and
  schedule): two Connected endpoints hold the same key block (master secret, randoms, record keys)
  and export the same keying material.  Named hypotheses, both about cryptography only:
  `VdInjective` (VerifyDataBinding as a law of `calculate_verify_data`), the network hypothesis
  `AcceptedFinishedWasSent` (an accepted verify_data value was put on the wire by the peer; its negation
  is what "no forgery" means) and `MasterSecretDeterminesKeys` (two derived key
  blocks with the same master secret are the same key block: PRF collision resistance; `expand_keys`
  is a function of (master secret, randoms)).  SRTP-profile agreement is *not* derived here: it needs
  the ServerHello builder, whose bytes are an input (`Loc.shBody`) of this model; the harness checks
  it on every run instead (oracle `conv:both-connected-different-profile`).
* `app_data_readable` — what one Connected side seals the other opens and hands up.
* liveness: the full statement `ConvergeIfDelivered` needs an invariant over all reachable states of
  the two-endpoint system with symbolic crypto and is not proved; it is kept visible below.  Proved
  instead (`converge_partial_*`): the retransmission rules that recovery rests on, for all states —
  the client's retransmitted flight contains ClientKeyExchange, ChangeCipherSpec and Finished, a
  server that sees the client's Finished again re-sends its final flight, ticks re-send the last
  flight exactly while Handshaking, fragments delivered in order reassemble to the message, and
  duplicated / early fragments are ignored without disturbing the buffer.  The three defects these
  rules repair (lost ClientKeyExchange, lost server Finished, duplicated fragment) are recorded in
  `known_findings.d/C11.json` as fixed; the harness replays them.
-/
import RtcModel.Theorems.C02
import RtcModel.Lemmas.DtlsFlights

namespace RtcModel.Theorems.C11
open RtcModel.Generated RtcModel.DtlsRecord RtcModel.DtlsHs RtcModel.Theorems.C02

/-! ### safety -/

/-- PRF collision resistance, as used: among key blocks produced by the key derivation, the master
secret determines the block. -/
def MasterSecretDeterminesKeys (C : Crypto) : Prop :=
  ∀ p1 q1 a1 b1 e1 t1 p2 q2 a2 b2 e2 t2 k1 k2,
    C.derive p1 q1 a1 b1 e1 t1 = some k1 → C.derive p2 q2 a2 b2 e2 t2 = some k2 → k1.ms = k2.ms → k1 = k2

/-- **VerifyDataBinding**, as a law of the primitive: `calculate_verify_data` (PRF over the transcript
hash) is collision free — equal outputs come from equal master secret, label and transcript. 
**Idealisation**: no function with a bounded output (the code's verify_data is 12 bytes) is injective, so this
hypothesis holds for no real PRF — only for the free (symbolic) interpretation, for which it is proved
(`agreement_hypotheses_satisfiable`).  Read `agree_or_not_both_connected` as: *unless a verify_data collision
occurred* (two different (master secret, label, transcript) triples with the same 12 bytes) or a Finished was
forged, both-Connected endpoints hold the same keys.  -/
def VdInjective (C : Crypto) : Prop :=
  ∀ m l t m' l' t', C.vd m l t = C.vd m' l' t' → m = m' ∧ l = l' ∧ t = t'

/-- The network carries, it does not invent: every verify_data value the client *accepted* is, byte for
byte, one the server *put on the wire* in some Finished of this handshake.  (The alternative — somebody
else produced that value — is the primitive-level event "verify_data forged", which `VdInjective` plus
secrecy of the master secret rule out; it is not assumed away silently: see
its contrapositive.) -/
def AcceptedFinishedWasSent (c s : Ep) : Prop :=
  ∀ k tr body, Ev.finished k tr body ∈ c.evs → ∃ k' tr', Ev.sentFinished k' tr' body ∈ s.evs

theorem after_isClient (C : Crypto) (L : Loc) (isClient : Bool) (fp : Option Bytes) (ops : List Op) :
    (after C L isClient fp ops).isClient = isClient := by
  have h := VSteps.isClient_eq (runOps_vstep C L ops (start L isClient fp).1)
  have h0 : (start L isClient fp).1.isClient = isClient := by unfold start; split <;> rfl
  exact h.trans h0

/-- **agree_or_not_both_connected.**  `c` is a client after any history `opsC`, `s` a server after any
history `opsS` (their own random values `Lc`, `Ls`, any expected fingerprints).  From the two
primitive-level hypotheses — `VdInjective C` and `MasterSecretDeterminesKeys C` — and the network
hypothesis `AcceptedFinishedWasSent c s`: if both are Connected they hold the identical key block
(master secret, both randoms, the four record keys/IVs), their `export_keying_material` agrees, and the
transcript the client verified the server's Finished against is the transcript the server computed it
over.  The master secrets are *derived* equal from the equality of the verify_data bytes (the client's
check `body = C.vd k_c.ms false tr_c`, proved for every accepted Finished, and the server's
`body = C.vd k_s.ms label tr_s`, proved for every emitted one), not assumed. -/
theorem agree_or_not_both_connected (C : Crypto) (hV : VdInjective C) (hM : MasterSecretDeterminesKeys C) (Lc Ls : Loc)
    (fc fs : Option Bytes) (opsC opsS : List Op)
    (hN : AcceptedFinishedWasSent (after C Lc true fc opsC) (after C Ls false fs opsS))
    (hc : (after C Lc true fc opsC).conn = .connected) (hs : (after C Ls false fs opsS).conn = .connected) :
    (after C Lc true fc opsC).connKeys = (after C Ls false fs opsS).connKeys ∧
    exporter (after C Lc true fc opsC) = exporter (after C Ls false fs opsS) ∧
    ∃ k tr body, Ev.finished k tr body ∈ (after C Lc true fc opsC).evs ∧
      Ev.sentFinished k tr body ∈ (after C Ls false fs opsS).evs := by
  have vc := runOps_vstep C Lc opsC (start Lc true fc).1
  have vs := runOps_vstep C Ls opsS (start Ls false fs).1
  have bc := (start_base C Lc true fc).steps vc
  have bs := (start_base C Ls false fs).steps vs
  obtain ⟨kc, trc, body, hkc, hfc⟩ := bc.conn hc
  obtain ⟨ks, trs, bodys, hks, hfs⟩ := bs.conn hs
  obtain ⟨hkeyc, hvdc⟩ := bc.fins kc trc body hfc
  obtain ⟨k', tr', hsent⟩ := hN kc trc body hfc
  obtain ⟨hk's, label, hvds⟩ := bs.sents k' tr' body hsent
  have hkss := (bs.fins ks trs bodys hfs).1
  have hkeq : k' = ks := by rw [hk's] at hkss; exact Option.some.inj hkss
  have hinj := hV _ _ _ _ _ _ (hvdc.symm.trans hvds)
  obtain ⟨p1, a1, b1, e1, t1, hev1⟩ := bc.keys kc hkeyc
  obtain ⟨p2, a2, b2, e2, t2, hev2⟩ := bs.keys k' hk's
  have hd1 := (bc.keysEv _ _ _ _ _ _ _ hev1).2
  have hd2 := (bs.keysEv _ _ _ _ _ _ _ hev2).2
  have heq : kc = k' := hM _ _ _ _ _ _ _ _ _ _ _ _ _ _ hd1 hd2 hinj.1
  have h1 : (after C Lc true fc opsC).connKeys = some kc := hkc
  have h2 : (after C Ls false fs opsS).connKeys = some kc := by rw [heq, hkeq]; exact hks
  refine ⟨by rw [h1, h2], by simp [exporter, hc, hs, h1, h2], kc, trc, body, hfc, ?_⟩
  rw [heq, hinj.2.2]
  exact hsent

/-- the network hypothesis is needed: without `AcceptedFinishedWasSent` nothing relates the two histories (an
endpoint pair fed by two unrelated parties connects on unrelated keys) -/
def mCrypto : Crypto :=
  { cCrypto with chDecode := wCrypto.chDecode, ckeDecode := wCrypto.ckeDecode,
                 derive := fun p _ _ _ _ _ => some { wKeys with ms := p } }

set_option maxRecDepth 8000 in
example : ¬ (∀ (C : Crypto) (Lc Ls : Loc) (opsC opsS : List Op),
    (after C Lc true none opsC).conn = .connected → (after C Ls false none opsS).conn = .connected →
    (after C Lc true none opsC).connKeys = (after C Ls false none opsS).connKeys) := by
  intro h
  have := h mCrypto { wLoc with pub := [1] } { wLoc with pub := [2] } cOps wOps (by decide) (by decide)
  revert this
  decide

/-! ### application data between Connected peers -/

theorem readKeys_peer (isClient : Bool) (k : Keys) : readKeys (!isClient) k = writeKeys isClient k := by
  cases isClient <;> rfl

theorem beVal_byteAt2 (n : Nat) (h : n < 65536) : beVal [byteAt n 1, byteAt n 0] = n := by
  simp [beVal, byteAt, UInt8.toNat_ofNat']
  omega

theorem beVal_byteAt6 (n : Nat) (h : n < 2 ^ 48) :
    beVal [byteAt n 5, byteAt n 4, byteAt n 3, byteAt n 2, byteAt n 1, byteAt n 0] = n := by
  simp [beVal, byteAt, UInt8.toNat_ofNat']
  omega

/-- `DtlsRecord::decode (encode r) = r` for records within the field ranges -/
theorem decodeRec_encodeRec (r : Rec) (rest : Bytes) (ht : validCtype r.ctype = true) (hc : r.ctype < 256)
    (he : r.epoch < 65536) (hs : r.seq < 2 ^ 48) (hl : r.body.length < 65536) :
    decodeRec (encodeRec r ++ rest) = .ok r rest := by
  have hct : (UInt8.ofNat r.ctype).toNat = r.ctype := by simp [UInt8.toNat_ofNat']; omega
  simp only [encodeRec, be16, be48, List.cons_append, List.nil_append, decodeRec, hct, ht, if_true]
  rw [beVal_byteAt2 _ hl, beVal_byteAt2 _ he, beVal_byteAt6 _ hs]
  simp

/-- **app_data_readable.**  A Connected endpoint that is sent (by anyone holding the peer's write
key — in particular its Connected peer, which by `agree_or_not_both_connected` has that key block) an
ApplicationData record sealed under sequence number `seq` of a non-zero epoch hands exactly the
plaintext up. -/
theorem app_data_readable (A : Aead) (C : Crypto) (L : Loc) (e : Ep) (k : Keys) (epoch seq : Nat) (p : Bytes)
    (halive : e.alive = true) (hconn : e.conn = .connected) (hk : e.ctx.keys = some k)
    (he : 0 < epoch ∧ epoch < 65536) (hs : seq < 2 ^ 48) (hp : p.length ≤ dtlsMaxAppDataRecordSize) :
    (onPacket A.dec C L e (encodeRec (sealedRec A (writeKeys (!e.isClient) k) dtlsCtApplicationData epoch seq p))).2
      = [.deliver p] := by
  have hbody := sealed_body_length A (writeKeys (!e.isClient) k) dtlsCtApplicationData (fullSeq epoch seq) p
  have hdec := decodeRec_encodeRec (sealedRec A (writeKeys (!e.isClient) k) dtlsCtApplicationData epoch seq p) []
    (show validCtype dtlsCtApplicationData = true by decide) (show dtlsCtApplicationData < 256 by decide) he.2 hs (by
      show (sealPayload A _ dtlsCtApplicationData (fullSeq epoch seq) p).length < 65536
      rw [hbody]; simp only [dtlsMaxAppDataRecordSize_val] at hp; omega)
  rw [List.append_nil] at hdec
  have hopen := open_sealed A (writeKeys (!e.isClient) k) dtlsCtApplicationData epoch seq p
  have hrk : readKeys e.isClient k = writeKeys (!e.isClient) k := by
    have := readKeys_peer (!e.isClient) k
    simpa using this
  have hne : ¬ (encodeRec (sealedRec A (writeKeys (!e.isClient) k) dtlsCtApplicationData epoch seq p)).isEmpty = true := by
    simp [encodeRec]
  have hep : (sealedRec A (writeKeys (!e.isClient) k) dtlsCtApplicationData epoch seq p).epoch = epoch := rfl
  have hct : (sealedRec A (writeKeys (!e.isClient) k) dtlsCtApplicationData epoch seq p).ctype = dtlsCtApplicationData := rfl
  have hne0 : (epoch == 0) = false := by simp; omega
  have hdrop : dropClear e (sealedRec A (writeKeys (!e.isClient) k) dtlsCtApplicationData epoch seq p) = false := by
    unfold dropClear; rw [hep, hne0]; rfl
  have htry : tryDecrypt A.dec (rxKeys e) (sealedRec A (writeKeys (!e.isClient) k) dtlsCtApplicationData epoch seq p) = some p := by
    simp only [tryDecrypt, rxKeys, hk, Option.map_some, hrk, hep]
    rw [if_neg (by omega)]
    exact hopen
  have hrec : onRecord C L e dtlsCtApplicationData (epoch != 0) p = ok e [.deliver p] := by
    simp [onRecord, hconn]
  have hnil : ∀ fuel, onDatagram A.dec C L fuel e [] = ok e := by
    intro fuel; cases fuel <;> simp [onDatagram]
  have hdg : onDatagram A.dec C L
      ((encodeRec (sealedRec A (writeKeys (!e.isClient) k) dtlsCtApplicationData epoch seq p)).length + 1) e
      (encodeRec (sealedRec A (writeKeys (!e.isClient) k) dtlsCtApplicationData epoch seq p)) = ⟨e, [.deliver p], false⟩ := by
    rw [onDatagram]
    simp only [hne, if_false, hdec, hdrop, htry, hct, hep, hrec, hnil, ok, Bool.false_eq_true, List.append_nil]
  unfold onPacket
  simp only [halive, Bool.not_true, Bool.false_eq_true, if_false, hdg, Bool.false_and]

/-! ### liveness -/

/- The full liveness statement `converge_if_delivered` (NOT proved; kept visible):

     a two-endpoint system in which every datagram an endpoint emits is eventually delivered
     (possibly after loss, duplication, reordering of earlier copies) and both retransmission timers
     keep ticking reaches `conn = .connected` on both sides before the deadline.

   Formally: define the closed system `Sys = (client, server, in-flight multiset)` with steps deliver /
   drop / duplicate / tick; claim: from every reachable `Sys` state the fair round "tick both, deliver
   everything in flight in emission order", repeated a bounded number of times, ends with both
   Connected.  Missing: a characterisation of all reachable pairs of endpoint states under symbolic
   crypto (consistent `Crypto`/`Loc` hypotheses: decoders accept what the peer's builders emit, ECDH
   agreement, …).  What the recovery argument rests on is proved below, for all states. -/

/-- converge_partial (1): once the client has derived keys, the flight it keeps for retransmission
is ClientKeyExchange, ChangeCipherSpec, Finished — exactly the records it just sent — so a server that
lost the ClientKeyExchange gets it again with the next tick. -/
theorem converge_partial_client_flight (C : Crypto) (L : Loc) (e : Ep) (k : Keys)
    (hc : e.isClient = true) (hk : e.ctx.keys.isSome = false) (hv : e.ctx.skeVerified = true)
    (hd : deriveKeys C L (emitMsg e.ctx dtlsHtClientKeyExchange L.ckeBody false).2 = some k) :
    ∃ cke ccs fin,
      (handleServerHelloDone C L e).out = sends [cke, ccs, fin] ∧
      (handleServerHelloDone C L e).ep.ctx.lastFlight = some [cke, ccs, fin] ∧
      cke.ctype = dtlsCtHandshake ∧ cke.sealed = false ∧ cke.plain = rawMsg dtlsHtClientKeyExchange e.ctx.msgSeq L.ckeBody ∧
      ccs.ctype = dtlsCtChangeCipherSpec ∧ fin.ctype = dtlsCtHandshake ∧ fin.sealed = true ∧ fin.epoch = e.ctx.epoch + 1 := by
  unfold handleServerHelloDone
  simp only [hc, Bool.not_true, hk, Bool.false_eq_true, if_false, hv, Bool.and_false, hd]
  refine ⟨_, _, _, rfl, rfl, rfl, ?_, rfl, rfl, rfl, ?_, rfl⟩ <;> simp [clientFinalFlight, emitMsg, hsRecord, ccsRecord]

/-- converge_partial (4a'): a fragment with offset 0 *restarts* reassembly whatever the buffer held —
also for the same `message_seq` (a retransmitted flight that the path re-fragmented differently after
the tail of the first transmission was lost must not be blocked by the stale partial message). -/
theorem converge_partial_first_fragment_restarts (C : Crypto) (L : Loc) (e : Ep) (m : HsMsg)
    (hfrag : m.body.length < m.totalLen) (hoff : m.fragOff = 0) (hp : e.ctx.postHvr = false) :
    acceptMsg C L e m = ok (withCtx e { e.ctx with incomplete := m.body, incompleteSeq := m.msgSeq }) := by
  unfold acceptMsg
  have h0 : clearPostHvr e = e := by simp [clearPostHvr, hp]
  have h1 : resetFrag e.ctx m = { e.ctx with incomplete := [], incompleteSeq := m.msgSeq } := by simp [resetFrag, hoff]
  simp only [h0, h1]
  rw [if_pos (by omega)]
  by_cases hb : m.body = []
  · simp [fragUseful, hoff, hb]
  · have : 0 < m.body.length := List.length_pos_iff.mpr hb
    simp [fragUseful, appendFrag, hoff, this, hfrag]

/-- converge_partial (4b): two fragments delivered in order reassemble to the whole message, also when
their ranges **overlap** (`[0, |a|+|b|)` then `[|a|, |a|+|b|+|c|)`; `b = []` is the exact-boundary case):
the handler runs on `a ++ b ++ c` with the transcript entry of the unfragmented message.  (RFC 6347 §4.2.3
lets a sender or a re-fragmenting path choose overlapping ranges; before `fix: accept overlapping
handshake fragments` the second fragment was ignored for ever.) -/
theorem converge_partial_fragments_reassemble (C : Crypto) (L : Loc) (e : Ep) (typ msgSeq : Nat) (a b c : Bytes)
    (ha : a ≠ []) (hc : c ≠ []) (hp : e.ctx.postHvr = false) (hseq : e.ctx.recvSeq < 65535) :
    let total := a.length + b.length + c.length
    let m1 : HsMsg := ⟨typ, total, msgSeq, 0, a ++ b⟩
    let m2 : HsMsg := ⟨typ, total, msgSeq, a.length, b ++ c⟩
    let e1 := (acceptMsg C L e m1).ep
    (acceptMsg C L e m1).out = [] ∧ (acceptMsg C L e m1).err = false ∧
    e1.ctx.incomplete = a ++ b ∧ e1.ctx.recvSeq = e.ctx.recvSeq ∧ e1.ctx.transcript = e.ctx.transcript ∧
    acceptMsg C L e1 m2 =
      handleMsg C L (withCtx e1 (noteMsg (takeBuffer (appendFrag e1.ctx m2)) typ (rawMsg typ msgSeq (a ++ b ++ c)))) typ (a ++ b ++ c)
        (rawMsg typ msgSeq (a ++ b ++ c)) := by
  intro total m1 m2 e1
  have hla : 0 < a.length := List.length_pos_iff.mpr ha
  have hlc : 0 < c.length := List.length_pos_iff.mpr hc
  have s1 := converge_partial_first_fragment_restarts C L e m1 (by simp [m1, total]; omega) rfl hp
  have he1 : e1 = withCtx e { e.ctx with incomplete := a ++ b, incompleteSeq := msgSeq } := by
    show (acceptMsg C L e m1).ep = _
    rw [s1]; rfl
  refine ⟨by rw [s1]; rfl, by rw [s1]; rfl, by rw [he1]; rfl, by rw [he1]; rfl, by rw [he1]; rfl, ?_⟩
  have hp1 : clearPostHvr e1 = e1 := by rw [he1]; simp [clearPostHvr, withCtx, hp]
  have hres : resetFrag e1.ctx m2 = e1.ctx := by
    have h1 : e1.ctx.incompleteSeq = m2.msgSeq := by rw [he1]; rfl
    have h2 : m2.fragOff ≠ 0 := by show a.length ≠ 0; omega
    simp [resetFrag, h1, h2]
  have hinc : e1.ctx.incomplete = a ++ b := by rw [he1]; rfl
  have hrs : e1.ctx.recvSeq = e.ctx.recvSeq := by rw [he1]; rfl
  have happ : (appendFrag e1.ctx m2).incomplete = a ++ b ++ c := by
    simp [appendFrag, hinc, m2]
  unfold acceptMsg
  simp only [hp1, hres]
  rw [if_pos (by simp [m2, total]; omega)]
  rw [if_neg (by simp [fragUseful, hinc, m2]; omega)]
  rw [if_neg (by simp [happ, m2, total]; omega)]
  rw [if_neg (by simp only [appendFrag, hrs]; omega)]
  simp only [happ]
  simp [rawMsg, m2, total, encodeHs, List.append_assoc, Nat.add_assoc]

/-! ### liveness and agreement in the closed system, for every fault schedule

`RtcModel/DtlsFlights.lean` closes the model: a client and a server endpoint and a network that may
deliver *any datagram either side ever emitted*, to the peer, at any time, any number of times, or
never (loss, duplication, reordering, delay — `Act.toS i`, `Act.toC i`), and fire either retransmission
timer at any time (`tickC`, `tickS`).  A schedule is any list of such actions.  The cryptography is
interpreted *freely* (`W0`, Dolev–Yao style: distinct tokens for message bodies, decoders accept exactly
the peer's tokens, ECDH succeeds exactly for the two genuine shares, verify_data and the AEAD tag are
injective-by-construction functions of their arguments), so no test in the handshake succeeds or fails
by accident of concrete values; the control flow is that of any consistent real instantiation.  The set
of reachable states (`reach0`, 9 states — out-of-order datagrams are ignored, so the adversary can only
delay) is computed by the kernel and shown closed; the theorems then hold for schedules of any length. -/

open RtcModel.DtlsFlights in
/-- **converge_if_delivered** (closed system, free crypto): after *any* fault schedule whatsoever, two
fair rounds — both timers tick, then everything each side ever emitted is delivered in emission order —
leave both endpoints Connected.  Two rounds are two seconds of the 1 s retransmission timer, far inside
the 30 s handshake deadline. -/
theorem converge_if_delivered (acts : List Act) :
    bothConnected (fairRound W0 (fairRound W0 ((Sys.init W0).run W0 acts))) = true := by
  have hmem := closed_run reach0_closed acts (Sys.init W0) reach0_init
  have := reach0_good
  rw [List.all_eq_true] at this
  exact this _ hmem

open RtcModel.DtlsFlights in
/-- **agreement in the closed system** (no hypothesis needed here: the binding of verify_data to its
inputs holds by construction in the free interpretation): after any fault schedule, if both endpoints
are Connected they hold the same key block *and the same SRTP profile*; and no schedule of an honest
network drives an endpoint to Failed or Closed. -/
theorem closed_system_agreement (acts : List Act) :
    let σ := (Sys.init W0).run W0 acts
    ((σ.c.conn = .connected ∧ σ.s.conn = .connected) → σ.c.connKeys = σ.s.connKeys ∧ σ.c.connSrtp = σ.s.connSrtp ∧ σ.c.connKeys.isSome = true) ∧
    σ.c.conn ≠ .failed ∧ σ.s.conn ≠ .failed ∧ σ.c.conn ≠ .closed ∧ σ.s.conn ≠ .closed := by
  intro σ
  have hmem : σ ∈ reach0 := closed_run reach0_closed acts (Sys.init W0) reach0_init
  have h1 := reach0_agree
  have h2 := reach0_no_failure
  rw [List.all_eq_true] at h1 h2
  have a := h1 σ hmem
  have b := h2 σ hmem
  simp only [Bool.or_eq_true, Bool.not_eq_true', Bool.and_eq_true, beq_iff_eq, decide_eq_true_eq, bne_iff_ne, ne_eq,
    Bool.and_eq_false_iff, beq_eq_false_iff_ne] at a b
  refine ⟨?_, b.1.1.1.1.1, b.1.1.1.1.2, b.1.1.1.2, b.1.1.2⟩
  intro ⟨hc, hs⟩
  rcases a with a | a
  · rcases a with a | a
    · exact absurd hc a
    · exact absurd hs a
  · exact ⟨a.1.1, a.1.2, a.2⟩

open RtcModel.DtlsFlights in
/-- the same two statements in a second free world (`W1`: no extended master secret, no SRTP profile,
no expected fingerprint at the client, an — unchecked, see C02 — expected fingerprint at the server) -/
theorem converge_if_delivered_w1 (acts : List Act) :
    bothConnected (fairRound W1 (fairRound W1 ((Sys.init W1).run W1 acts))) = true ∧
    (((Sys.init W1).run W1 acts).c.conn = .connected → ((Sys.init W1).run W1 acts).s.conn = .connected →
      ((Sys.init W1).run W1 acts).c.connKeys = ((Sys.init W1).run W1 acts).s.connKeys ∧
      ((Sys.init W1).run W1 acts).c.connSrtp = ((Sys.init W1).run W1 acts).s.connSrtp) := by
  have hmem := closed_run reach1_closed acts (Sys.init W1) reach1_init
  have h1 := reach1_good
  have h2 := reach1_agree
  rw [List.all_eq_true] at h1 h2
  refine ⟨h1 _ hmem, ?_⟩
  intro hc hs
  have a := h2 _ hmem
  simp only [Bool.or_eq_true, Bool.not_eq_true', Bool.and_eq_true, beq_iff_eq, decide_eq_true_eq,
    Bool.and_eq_false_iff, beq_eq_false_iff_ne] at a
  rcases a with a | a
  · rcases a with a | a
    · exact absurd hc a
    · exact absurd hs a
  · exact ⟨a.1.1, a.1.2⟩

open RtcModel.DtlsFlights in
/-- the two primitive-level hypotheses of `agree_or_not_both_connected` are satisfiable (by the free
interpretation) … -/
theorem agreement_hypotheses_satisfiable : VdInjective freeCrypto ∧ MasterSecretDeterminesKeys freeCrypto :=
  ⟨freeCrypto_vd_injective, freeCrypto_ms_determines_keys⟩

open RtcModel.DtlsFlights in
/-- … and its network hypothesis holds in the closed system after every fault schedule (both
directions): what an endpoint accepted as verify_data is something its peer emitted. -/
theorem closed_system_accepted_was_sent (acts : List Act) :
    AcceptedFinishedWasSent ((Sys.init W0).run W0 acts).c ((Sys.init W0).run W0 acts).s ∧
    AcceptedFinishedWasSent ((Sys.init W0).run W0 acts).s ((Sys.init W0).run W0 acts).c := by
  have hmem := closed_run reach0_closed acts (Sys.init W0) reach0_init
  have h := reach0_accepted_was_sent
  rw [List.all_eq_true] at h
  have hσ := h _ hmem
  simp only [Bool.and_eq_true, List.all_eq_true] at hσ
  have conv : ∀ (a b : List Ev), (∀ ev ∈ a, (match ev with
      | .finished _ _ body => b.any fun ev' => match ev' with | .sentFinished _ _ x => x == body | _ => false
      | _ => true) = true) → ∀ k tr body, Ev.finished k tr body ∈ a → ∃ k' tr', Ev.sentFinished k' tr' body ∈ b := by
    intro a b hab k tr body hm
    have := hab _ hm
    simp only [List.any_eq_true] at this
    obtain ⟨ev', hm', he⟩ := this
    cases ev' with
    | sentFinished k' tr' x => simp only [beq_iff_eq] at he; subst he; exact ⟨k', tr', hm'⟩
    | _ => simp at he
  exact ⟨conv _ _ hσ.1, conv _ _ hσ.2⟩

/-! ### non-vacuity / recovery on a concrete instance -/

/-- the clean run of C02's toy instance connects (already shown there); after it, a repeated client
Finished makes the server re-send its final flight -/
example : (after wCrypto wLoc false none wOps).ctx.lastFlight.isSome = true := by decide

/-! ## the handshake deadline (closed system with clocks) -/

open RtcModel.DtlsFlights in
theorem converge_before_deadline_gen (D : Nat) (faults rest : List TAct) (τ0 : TSys) (h0 : τ0.σ ∈ reach0)
    (hc : τ0.kc + ticksC faults + 3 < D) (hs : τ0.ks + ticksS faults + 3 < D) :
    (tFairRound W0 (tFairRound W0 (τ0.run W0 D faults))).kc + 1 < D ∧
    (tFairRound W0 (tFairRound W0 (τ0.run W0 D faults))).ks + 1 < D ∧
    bothConnected (tFairRound W0 (tFairRound W0 (τ0.run W0 D faults))).σ = true ∧
    bothConnected ((tFairRound W0 (tFairRound W0 (τ0.run W0 D faults))).run W0 D rest).σ = true := by
  obtain ⟨h1, h2, h3⟩ := TSys.run_before_deadline W0 D faults τ0 (by omega) (by omega)
  generalize τ0.run W0 D faults = τ at h1 h2 h3 ⊢
  have hmem : τ.σ ∈ reach0 := by rw [h1]; exact closed_run reach0_closed _ _ h0
  have hgood := reach0_good
  rw [List.all_eq_true] at hgood
  have e : (tFairRound W0 (tFairRound W0 τ)).σ = fairRound W0 (fairRound W0 τ.σ) := by simp only [tFairRound]
  have ekc : (tFairRound W0 (tFairRound W0 τ)).kc = τ.kc + 1 + 1 := by simp only [tFairRound]
  have eks : (tFairRound W0 (tFairRound W0 τ)).ks = τ.ks + 1 + 1 := by simp only [tFairRound]
  have hb : bothConnected (tFairRound W0 (tFairRound W0 τ)).σ = true := by rw [e]; exact hgood _ hmem
  have hmem2 : (tFairRound W0 (tFairRound W0 τ)).σ ∈ reach0 := by
    rw [e]; exact fairRound_mem reach0_closed (fairRound_mem reach0_closed hmem)
  refine ⟨?_, ?_, hb, connected_trun D rest _ hmem2 hb⟩
  · rw [ekc]; omega
  · rw [eks]; omega

open RtcModel.DtlsFlights in
/-- **"before the handshake deadline"** (closed system with clocks, free crypto).  Each endpoint has its
own retransmission timer and its own deadline, `deadlineTicks = 30` periods after its start (from the
generated constants: 30 s timeout, first tick after 1 s, period 1 s); a deadline action may fire as soon as
29 ticks of that endpoint were processed (it races with the 30th), and does whatever `onDeadline` does
(Handshaking → Failed).  Take any fault schedule `faults` — loss, duplication, reordering, delay, ticks, and
deadline actions wherever the adversary likes — during which each endpoint's timer ticked at most
`deadlineTicks - 4 = 26` times.  If the network then delivers everything for two periods, both endpoints
are Connected, no deadline was enabled up to that point, and **whatever happens afterwards** (`rest`: any
network behaviour, both deadlines firing) they stay Connected — in particular neither ever ends Failed.
(No deadline action is interleaved inside the two fair rounds: none is enabled there, first two conjuncts.) -/
theorem converge_before_deadline (faults rest : List TAct)
    (hc : ticksC faults + 3 < deadlineTicks) (hs : ticksS faults + 3 < deadlineTicks) :
    let τ2 := tFairRound W0 (tFairRound W0 ((TSys.mk (Sys.init W0) 0 0).run W0 deadlineTicks faults))
    τ2.kc + 1 < deadlineTicks ∧ τ2.ks + 1 < deadlineTicks ∧
    bothConnected τ2.σ = true ∧ bothConnected (τ2.run W0 deadlineTicks rest).σ = true :=
  converge_before_deadline_gen deadlineTicks faults rest (TSys.mk (Sys.init W0) 0 0) reach0_init
    (by show 0 + _ + 3 < _; omega) (by show 0 + _ + 3 < _; omega)

open RtcModel.DtlsFlights in
/-- A test (one schedule, evaluated by the kernel — not a general statement): "otherwise … Failed", the other half: if the network delivers nothing at all, each endpoint keeps
retransmitting and is Failed — dead — once its deadline fires; the deadline does nothing before the
endpoint's 29th tick. -/
example :
    let ticks := (List.replicate (deadlineTicks - 1) [TAct.net .tickC, TAct.net .tickS]).flatten
    let early := (TSys.mk (Sys.init W0) 0 0).run W0 deadlineTicks (ticks.take 56 ++ [.deadlineC, .deadlineS])
    let τ := (TSys.mk (Sys.init W0) 0 0).run W0 deadlineTicks (ticks ++ [.deadlineC, .deadlineS])
    (early.σ.c.conn = .handshaking ∧ early.σ.s.conn = .handshaking) ∧
    (τ.σ.c.conn = .failed ∧ τ.σ.c.alive = false ∧ τ.σ.s.conn = .failed ∧ τ.σ.s.alive = false) := by
  decide +kernel
end RtcModel.Theorems.C11
