/-
C11 — DTLS handshakes converge: both sides agree on keys or neither connects.
Property theorems only.  The endpoint model is `RtcModel/DtlsHs.lean` (one endpoint; the network and
its faults are *histories*: any list of `Op`s — datagrams in any order, any number of times, or never,
ticks of the 1 s retransmission timer, the deadline).

What is proved, and from what:
* `agree_or_not_both_connected` — safety for every pair of histories (so every fault pattern and
  schedule): two Connected endpoints hold the same key block (master secret, randoms, record keys)
  and export the same keying material.  Named hypotheses, both about cryptography only:
  `FinishedFromPeer` (= VerifyDataBinding: a verify_data value the client accepted was computed by the
  server for the same master secret and transcript) and `MasterSecretDeterminesKeys` (two derived key
  blocks with the same master secret are the same key block: PRF collision resistance; `expand_keys`
  is a function of (master secret, randoms)).  SRTP-profile agreement is *not* derived here: it needs
  the ServerHello builder, whose bytes are an input (`Loc.shBody`) of this model; the harness checks
  it on every run instead (oracle `conv:both-connected-different-profile`).
* `app_data_readable` — what one Connected side seals the other opens and hands up.
* liveness: the full statement `ConvergeIfDelivered` needs an invariant over all reachable states of
  the two-endpoint system with symbolic crypto and is not proved; it is kept visible below.  Proved
  instead (`converge_partial_*`): the retransmission rules that recovery rests on, for all states —
  the client's retransmitted flight contains ClientKeyExchange, ChangeCipherSpec and Finished, a
  server that sees the client's Finished again re-sends its final flight, ticks re-send the last
  flight exactly while Handshaking, fragments delivered in order reassemble to the message, and
  duplicated / early fragments are ignored without disturbing the buffer.  The three defects these
  rules repair (lost ClientKeyExchange, lost server Finished, duplicated fragment) are recorded in
  `known_findings.d/C11.json` as fixed; the harness replays them.
-/
import RtcModel.Theorems.C02
import RtcModel.Lemmas.DtlsFlights

namespace RtcModel.Theorems.C11
open RtcModel.Generated RtcModel.DtlsRecord RtcModel.DtlsHs RtcModel.Theorems.C02

/-! ### safety -/

/-- PRF collision resistance, as used: among key blocks produced by the key derivation, the master
secret determines the block. -/
def MasterSecretDeterminesKeys (C : Crypto) : Prop :=
  ∀ p1 q1 a1 b1 e1 t1 p2 q2 a2 b2 e2 t2 k1 k2,
    C.derive p1 q1 a1 b1 e1 t1 = some k1 → C.derive p2 q2 a2 b2 e2 t2 = some k2 → k1.ms = k2.ms → k1 = k2

/-- VerifyDataBinding: every "server finished" verify_data the client accepted (under keys `k`, for
transcript `tr`) was computed by the server for the same transcript under a key block with the same
master secret. -/
def FinishedFromPeer (c s : Ep) : Prop :=
  ∀ k tr, Ev.finished k tr ∈ c.evs → ∃ k', Ev.sentFinished k' tr ∈ s.evs ∧ k'.ms = k.ms

/-- own Finished messages are computed under the endpoint's (write-once) keys -/
structure SentInv (v : View) : Prop where
  sent : ∀ k tr, Ev.sentFinished k tr ∈ v.evs → v.keys = some k
  conn : v.conn = .connected → v.connKeys = v.keys

theorem SentInv.step {C : Crypto} {L : Loc} {a b : View} (h : SentInv a) (hb : BaseInv C L a) (s : VStep C L a b) : SentInv b := by
  obtain ⟨h1, h2⟩ := h
  cases s with
  | conn c hc => exact ⟨h1, fun hh => absurd hh hc⟩
  | cert leaf hfp hpk => exact ⟨by intro k tr hm; simp at hm; exact h1 k tr hm, h2⟩
  | ske leaf cr sr body share hc hcert hcr hdec hsig => exact ⟨by intro k tr hm; simp at hm; exact h1 k tr hm, h2⟩
  | peerPub pk hs => exact ⟨h1, h2⟩
  | clientRandom cr hs => exact ⟨h1, h2⟩
  | keys pk cr sr tr ems k hnone hver hpk hcr hd =>
    refine ⟨?_, ?_⟩
    · intro k' tr' hm
      simp at hm
      have := h1 k' tr' hm
      rw [hnone] at this
      cases this
    · intro hc
      obtain ⟨k', tr', _, hf⟩ := hb.conn hc
      have := hb.fins k' tr' hf
      rw [hnone] at this
      cases this
  | connect k tr hk => exact ⟨by intro k' tr' hm; simp at hm; exact h1 k' tr' hm, fun _ => hk.symm⟩
  | sent k tr hk =>
    refine ⟨?_, h2⟩
    intro k' tr' hm
    simp at hm
    rcases hm with ⟨rfl, rfl⟩ | hm
    · exact hk
    · exact h1 k' tr' hm

theorem SentInv.steps {C : Crypto} {L : Loc} {a b : View} (h : SentInv a) (hb : BaseInv C L a) (s : VSteps C L a b) : SentInv b := by
  induction s with
  | refl => exact h
  | step s0 s1 ih => exact ih.step (hb.steps s0) s1

theorem start_sent (L : Loc) (isClient : Bool) (fp : Option Bytes) : SentInv (view (start L isClient fp).1) := by
  unfold start
  split <;> exact ⟨by simp [view], by simp [view]⟩

/-- **agree_or_not_both_connected.**  `c` is a client after any history `opsC`, `s` a server after any
history `opsS` (their own random values `Lc`, `Ls`, any expected fingerprints): if both are Connected
they hold the identical key block — master secret, both randoms, the four record keys/IVs — hence
`export_keying_material` (a function of master secret and randoms) agrees as well.  Equivalently: a
Connected endpoint's peer is Connected on the same keys, or not Connected. -/
theorem agree_or_not_both_connected (C : Crypto) (hM : MasterSecretDeterminesKeys C) (Lc Ls : Loc)
    (fc fs : Option Bytes) (opsC opsS : List Op)
    (hB : FinishedFromPeer (after C Lc true fc opsC) (after C Ls false fs opsS))
    (hc : (after C Lc true fc opsC).conn = .connected) (hs : (after C Ls false fs opsS).conn = .connected) :
    (after C Lc true fc opsC).connKeys = (after C Ls false fs opsS).connKeys ∧
    exporter (after C Lc true fc opsC) = exporter (after C Ls false fs opsS) := by
  have vc := runOps_vstep C Lc opsC (start Lc true fc).1
  have vs := runOps_vstep C Ls opsS (start Ls false fs).1
  have bc := (start_base C Lc true fc).steps vc
  have bs := (start_base C Ls false fs).steps vs
  have ss := (start_sent Ls false fs).steps (start_base C Ls false fs) vs
  obtain ⟨kc, trc, hkc, hfc⟩ := bc.conn hc
  obtain ⟨ks, trs, hks, hfs⟩ := bs.conn hs
  obtain ⟨k', hsent, hms⟩ := hB kc trc hfc
  have hk's : (view (after C Ls false fs opsS)).keys = some k' := ss.sent k' trc hsent
  have hkss : (view (after C Ls false fs opsS)).keys = some ks := bs.fins ks trs hfs
  have hkeq : k' = ks := by rw [hk's] at hkss; exact Option.some.inj hkss
  obtain ⟨p1, a1, b1, e1, t1, hev1⟩ := bc.keys kc (bc.fins kc trc hfc)
  obtain ⟨p2, a2, b2, e2, t2, hev2⟩ := bs.keys k' hk's
  have hd1 := (bc.keysEv _ _ _ _ _ _ _ hev1).2
  have hd2 := (bs.keysEv _ _ _ _ _ _ _ hev2).2
  have heq : kc = k' := hM _ _ _ _ _ _ _ _ _ _ _ _ _ _ hd1 hd2 hms.symm
  have h1 : (after C Lc true fc opsC).connKeys = some kc := hkc
  have h2 : (after C Ls false fs opsS).connKeys = some kc := by rw [heq, hkeq]; exact hks
  refine ⟨by rw [h1, h2], ?_⟩
  simp [exporter, hc, hs, h1, h2]

/-- the hypothesis is needed: without `FinishedFromPeer` nothing relates the two histories (an
endpoint pair fed by two unrelated parties connects on unrelated keys) -/
def mCrypto : Crypto :=
  { cCrypto with chDecode := wCrypto.chDecode, ckeDecode := wCrypto.ckeDecode,
                 derive := fun p _ _ _ _ _ => some { wKeys with ms := p } }

set_option maxRecDepth 8000 in
example : ¬ (∀ (C : Crypto) (Lc Ls : Loc) (opsC opsS : List Op),
    (after C Lc true none opsC).conn = .connected → (after C Ls false none opsS).conn = .connected →
    (after C Lc true none opsC).connKeys = (after C Ls false none opsS).connKeys) := by
  intro h
  have := h mCrypto { wLoc with pub := [1] } { wLoc with pub := [2] } cOps wOps (by decide) (by decide)
  revert this
  decide

/-! ### application data between Connected peers -/

theorem readKeys_peer (isClient : Bool) (k : Keys) : readKeys (!isClient) k = writeKeys isClient k := by
  cases isClient <;> rfl

theorem beVal_byteAt2 (n : Nat) (h : n < 65536) : beVal [byteAt n 1, byteAt n 0] = n := by
  simp [beVal, byteAt, UInt8.toNat_ofNat']
  omega

theorem beVal_byteAt6 (n : Nat) (h : n < 2 ^ 48) :
    beVal [byteAt n 5, byteAt n 4, byteAt n 3, byteAt n 2, byteAt n 1, byteAt n 0] = n := by
  simp [beVal, byteAt, UInt8.toNat_ofNat']
  omega

/-- `DtlsRecord::decode (encode r) = r` for records within the field ranges -/
theorem decodeRec_encodeRec (r : Rec) (rest : Bytes) (ht : validCtype r.ctype = true) (hc : r.ctype < 256)
    (he : r.epoch < 65536) (hs : r.seq < 2 ^ 48) (hl : r.body.length < 65536) :
    decodeRec (encodeRec r ++ rest) = .ok r rest := by
  have hct : (UInt8.ofNat r.ctype).toNat = r.ctype := by simp [UInt8.toNat_ofNat']; omega
  simp only [encodeRec, be16, be48, List.cons_append, List.nil_append, decodeRec, hct, ht, if_true]
  rw [beVal_byteAt2 _ hl, beVal_byteAt2 _ he, beVal_byteAt6 _ hs]
  simp

/-- **app_data_readable.**  A Connected endpoint that is sent (by anyone holding the peer's write
key — in particular its Connected peer, which by `agree_or_not_both_connected` has that key block) an
ApplicationData record sealed under sequence number `seq` of a non-zero epoch hands exactly the
plaintext up. -/
theorem app_data_readable (A : Aead) (C : Crypto) (L : Loc) (e : Ep) (k : Keys) (epoch seq : Nat) (p : Bytes)
    (halive : e.alive = true) (hconn : e.conn = .connected) (hk : e.ctx.keys = some k)
    (he : 0 < epoch ∧ epoch < 65536) (hs : seq < 2 ^ 48) (hp : p.length ≤ dtlsMaxAppDataRecordSize) :
    (onPacket A.dec C L e (encodeRec (sealedRec A (writeKeys (!e.isClient) k) dtlsCtApplicationData epoch seq p))).2
      = [.deliver p] := by
  have hbody := sealed_body_length A (writeKeys (!e.isClient) k) dtlsCtApplicationData (fullSeq epoch seq) p
  have hdec := decodeRec_encodeRec (sealedRec A (writeKeys (!e.isClient) k) dtlsCtApplicationData epoch seq p) []
    (show validCtype dtlsCtApplicationData = true by decide) (show dtlsCtApplicationData < 256 by decide) he.2 hs (by
      show (sealPayload A _ dtlsCtApplicationData (fullSeq epoch seq) p).length < 65536
      rw [hbody]; simp only [dtlsMaxAppDataRecordSize_val] at hp; omega)
  rw [List.append_nil] at hdec
  have hopen := open_sealed A (writeKeys (!e.isClient) k) dtlsCtApplicationData epoch seq p
  have hrk : readKeys e.isClient k = writeKeys (!e.isClient) k := by
    have := readKeys_peer (!e.isClient) k
    simpa using this
  have hne : ¬ (encodeRec (sealedRec A (writeKeys (!e.isClient) k) dtlsCtApplicationData epoch seq p)).isEmpty = true := by
    simp [encodeRec]
  have hep : (sealedRec A (writeKeys (!e.isClient) k) dtlsCtApplicationData epoch seq p).epoch = epoch := rfl
  have hct : (sealedRec A (writeKeys (!e.isClient) k) dtlsCtApplicationData epoch seq p).ctype = dtlsCtApplicationData := rfl
  have hne0 : (epoch == 0) = false := by simp; omega
  have hdrop : dropClear e (sealedRec A (writeKeys (!e.isClient) k) dtlsCtApplicationData epoch seq p) = false := by
    unfold dropClear; rw [hep, hne0]; rfl
  have htry : tryDecrypt A.dec (rxKeys e) (sealedRec A (writeKeys (!e.isClient) k) dtlsCtApplicationData epoch seq p) = some p := by
    simp only [tryDecrypt, rxKeys, hk, Option.map_some, hrk, hep]
    rw [if_neg (by omega)]
    exact hopen
  have hrec : onRecord C L e dtlsCtApplicationData (epoch != 0) p = ok e [.deliver p] := by
    simp [onRecord, hconn]
  have hnil : ∀ fuel, onDatagram A.dec C L fuel e [] = ok e := by
    intro fuel; cases fuel <;> simp [onDatagram]
  have hdg : onDatagram A.dec C L
      ((encodeRec (sealedRec A (writeKeys (!e.isClient) k) dtlsCtApplicationData epoch seq p)).length + 1) e
      (encodeRec (sealedRec A (writeKeys (!e.isClient) k) dtlsCtApplicationData epoch seq p)) = ⟨e, [.deliver p], false⟩ := by
    rw [onDatagram]
    simp only [hne, if_false, hdec, hdrop, htry, hct, hep, hrec, hnil, ok, Bool.false_eq_true, List.append_nil]
  unfold onPacket
  simp only [halive, Bool.not_true, Bool.false_eq_true, if_false, hdg, Bool.false_and]

/-! ### liveness -/

/- The full liveness statement `converge_if_delivered` (NOT proved; kept visible):

     a two-endpoint system in which every datagram an endpoint emits is eventually delivered
     (possibly after loss, duplication, reordering of earlier copies) and both retransmission timers
     keep ticking reaches `conn = .connected` on both sides before the deadline.

   Formally: define the closed system `Sys = (client, server, in-flight multiset)` with steps deliver /
   drop / duplicate / tick; claim: from every reachable `Sys` state the fair round "tick both, deliver
   everything in flight in emission order", repeated a bounded number of times, ends with both
   Connected.  Missing: a characterisation of all reachable pairs of endpoint states under symbolic
   crypto (consistent `Crypto`/`Loc` hypotheses: decoders accept what the peer's builders emit, ECDH
   agreement, …).  What the recovery argument rests on is proved below, for all states. -/

/-- converge_partial (1): once the client has derived keys, the flight it keeps for retransmission
is ClientKeyExchange, ChangeCipherSpec, Finished — exactly the records it just sent — so a server that
lost the ClientKeyExchange gets it again with the next tick. -/
theorem converge_partial_client_flight (C : Crypto) (L : Loc) (e : Ep) (k : Keys)
    (hk : e.ctx.keys.isSome = false) (hv : (e.isClient && !e.ctx.skeVerified) = false)
    (hd : deriveKeys C L (emitMsg e.ctx dtlsHtClientKeyExchange L.ckeBody false).2 = some k) :
    ∃ cke ccs fin,
      (handleServerHelloDone C L e).out = sends [cke, ccs, fin] ∧
      (handleServerHelloDone C L e).ep.ctx.lastFlight = some [cke, ccs, fin] ∧
      cke.ctype = dtlsCtHandshake ∧ cke.sealed = false ∧ cke.plain = rawMsg dtlsHtClientKeyExchange e.ctx.msgSeq L.ckeBody ∧
      ccs.ctype = dtlsCtChangeCipherSpec ∧ fin.ctype = dtlsCtHandshake ∧ fin.sealed = true ∧ fin.epoch = e.ctx.epoch + 1 := by
  unfold handleServerHelloDone
  simp only [hk, Bool.false_eq_true, if_false, hv, hd]
  refine ⟨_, _, _, rfl, rfl, rfl, ?_, rfl, rfl, rfl, ?_, rfl⟩ <;> simp [clientFinalFlight, emitMsg, hsRecord, ccsRecord]

/-- converge_partial (2): the retransmission tick re-sends the last flight exactly while the endpoint
is Handshaking (and alive); a Connected, Failed or Closed endpoint stays silent on ticks. -/
theorem converge_partial_tick (e : Ep) :
    onTick e = (if e.alive = true ∧ e.conn = .handshaking then (match e.ctx.lastFlight with | some fl => sends fl | none => []) else []) := by
  unfold onTick
  by_cases h1 : e.alive = true <;> by_cases h2 : e.conn = .handshaking <;> simp [h1, h2] <;> rfl

/-- converge_partial (3): a server (in any state, in particular Connected) that receives the client's
Finished again — a duplicate `message_seq`, in a record that authenticated — re-sends its last flight
(ChangeCipherSpec + Finished once it has completed), and nothing else changes. -/
theorem converge_partial_server_resends (C : Crypto) (L : Loc) (e : Ep) (m : HsMsg) (fl : List WRec)
    (hs : e.isClient = false) (ht : m.typ = dtlsHtFinished) (hdup : m.msgSeq < e.ctx.recvSeq)
    (hfl : e.ctx.lastFlight = some fl) :
    procMsg C L e true m = ok e (sends fl) := by
  unfold procMsg
  simp [hdup, hs, ht, hfl]

/-- … while the same message in a clear-text record (anybody can send that) triggers nothing. -/
theorem unauthenticated_duplicate_finished_ignored (C : Crypto) (L : Loc) (e : Ep) (m : HsMsg)
    (hs : e.isClient = false) (ht : m.typ = dtlsHtFinished) (hdup : m.msgSeq < e.ctx.recvSeq) :
    procMsg C L e false m = ok e := by
  unfold procMsg
  simp [hdup, hs, ht]

/-- converge_partial (4a): a fragment that does not continue the reassembly buffer (a duplicate, or
one that arrives before its predecessor) is ignored: the buffer keeps what it had for that message. -/
theorem converge_partial_fragment_ignored (C : Crypto) (L : Loc) (e : Ep) (m : HsMsg)
    (hfrag : m.totalLen ≠ m.body.length) (hsame : e.ctx.incompleteSeq = m.msgSeq) (hoff : m.fragOff ≠ 0)
    (hnc : m.fragOff ≠ e.ctx.incomplete.length) (hp : e.ctx.postHvr = false) :
    acceptMsg C L e m = ok e := by
  unfold acceptMsg
  have h0 : clearPostHvr e = e := by simp [clearPostHvr, hp]
  have h1 : resetFrag e.ctx m = e.ctx := by simp [resetFrag, hsame, hoff]
  simp [h0, h1, hfrag, hnc, withCtx]

/-- converge_partial (4a'): a fragment with offset 0 *restarts* reassembly whatever the buffer held —
also for the same `message_seq` (a retransmitted flight that the path re-fragmented differently after
the tail of the first transmission was lost must not be blocked by the stale partial message). -/
theorem converge_partial_first_fragment_restarts (C : Crypto) (L : Loc) (e : Ep) (m : HsMsg)
    (hfrag : m.body.length < m.totalLen) (hoff : m.fragOff = 0) (hp : e.ctx.postHvr = false) :
    acceptMsg C L e m = ok (withCtx e { e.ctx with incomplete := m.body, incompleteSeq := m.msgSeq }) := by
  unfold acceptMsg
  have h0 : clearPostHvr e = e := by simp [clearPostHvr, hp]
  have h1 : resetFrag e.ctx m = { e.ctx with incomplete := [], incompleteSeq := m.msgSeq } := by simp [resetFrag, hoff]
  simp only [h0, h1]
  rw [if_pos (by omega), if_neg (by simp [hoff])]
  simp only [appendFrag, List.nil_append]
  simp [hfrag]

/-- converge_partial (4b): two fragments delivered in order reassemble to the whole message: the
handler runs on `a ++ b` with the transcript entry of the unfragmented message. -/
theorem converge_partial_fragments_reassemble (C : Crypto) (L : Loc) (e : Ep) (typ msgSeq : Nat) (a b : Bytes)
    (ha : a ≠ []) (hb : b ≠ []) (hp : e.ctx.postHvr = false) :
    let m1 : HsMsg := ⟨typ, a.length + b.length, msgSeq, 0, a⟩
    let m2 : HsMsg := ⟨typ, a.length + b.length, msgSeq, a.length, b⟩
    let e1 := (acceptMsg C L e m1).ep
    (acceptMsg C L e m1).out = [] ∧ (acceptMsg C L e m1).err = false ∧
    e1.ctx.incomplete = a ∧ e1.ctx.recvSeq = e.ctx.recvSeq ∧ e1.ctx.transcript = e.ctx.transcript ∧
    acceptMsg C L e1 m2 =
      handleMsg C L (withCtx e1 (noteMsg (takeBuffer (appendFrag e1.ctx m2)) typ (rawMsg typ msgSeq (a ++ b)))) typ (a ++ b)
        (rawMsg typ msgSeq (a ++ b)) := by
  have hla : 0 < a.length := List.length_pos_iff.mpr ha
  have hlb : 0 < b.length := List.length_pos_iff.mpr hb
  have h0 : clearPostHvr e = e := by simp [clearPostHvr, hp]
  have hr : (resetFrag e.ctx ⟨typ, a.length + b.length, msgSeq, 0, a⟩).incomplete = [] := by simp [resetFrag]
  have hrs : (resetFrag e.ctx ⟨typ, a.length + b.length, msgSeq, 0, a⟩).incompleteSeq = msgSeq := by
    simp [resetFrag]
  have step1 : acceptMsg C L e ⟨typ, a.length + b.length, msgSeq, 0, a⟩ =
      ok (withCtx e (appendFrag (resetFrag e.ctx ⟨typ, a.length + b.length, msgSeq, 0, a⟩) ⟨typ, a.length + b.length, msgSeq, 0, a⟩)) := by
    unfold acceptMsg
    simp only [h0]
    rw [if_pos (by simp; omega), if_neg (by simp [hr])]
    simp only [appendFrag, hr, List.nil_append]
    rw [if_pos (by simp; omega)]
  refine ⟨by rw [step1]; rfl, by rw [step1]; rfl, ?_, ?_, ?_, ?_⟩
  · rw [step1]; simp [ok, withCtx, appendFrag, hr]
  · rw [step1]; simp [ok, withCtx, appendFrag, resetFrag]
  · rw [step1]; simp [ok, withCtx, appendFrag, resetFrag]
  · rw [step1]
    simp only [ok]
    unfold acceptMsg
    have hp1 : clearPostHvr (withCtx e (appendFrag (resetFrag e.ctx ⟨typ, a.length + b.length, msgSeq, 0, a⟩) ⟨typ, a.length + b.length, msgSeq, 0, a⟩))
        = withCtx e (appendFrag (resetFrag e.ctx ⟨typ, a.length + b.length, msgSeq, 0, a⟩) ⟨typ, a.length + b.length, msgSeq, 0, a⟩) := by
      simp [clearPostHvr, withCtx, appendFrag, resetFrag, hp]
    simp only [hp1]
    have hres : resetFrag (withCtx e (appendFrag (resetFrag e.ctx ⟨typ, a.length + b.length, msgSeq, 0, a⟩) ⟨typ, a.length + b.length, msgSeq, 0, a⟩)).ctx
        ⟨typ, a.length + b.length, msgSeq, a.length, b⟩
        = (withCtx e (appendFrag (resetFrag e.ctx ⟨typ, a.length + b.length, msgSeq, 0, a⟩) ⟨typ, a.length + b.length, msgSeq, 0, a⟩)).ctx := by
      simp [resetFrag, withCtx, appendFrag]
    rw [if_pos (by simp; omega)]
    simp only [hres]
    rw [if_neg (by simp [withCtx, appendFrag, hr])]
    rw [if_neg (by simp [withCtx, appendFrag, hr])]
    simp [withCtx, appendFrag, hr, rawMsg, encodeHs]

/-! ### liveness and agreement in the closed system, for every fault schedule

`RtcModel/DtlsFlights.lean` closes the model: a client and a server endpoint and a network that may
deliver *any datagram either side ever emitted*, to the peer, at any time, any number of times, or
never (loss, duplication, reordering, delay — `Act.toS i`, `Act.toC i`), and fire either retransmission
timer at any time (`tickC`, `tickS`).  A schedule is any list of such actions.  The cryptography is
interpreted *freely* (`W0`, Dolev–Yao style: distinct tokens for message bodies, decoders accept exactly
the peer's tokens, ECDH succeeds exactly for the two genuine shares, verify_data and the AEAD tag are
injective-by-construction functions of their arguments), so no test in the handshake succeeds or fails
by accident of concrete values; the control flow is that of any consistent real instantiation.  The set
of reachable states (`reach0`, 9 states — out-of-order datagrams are ignored, so the adversary can only
delay) is computed by the kernel and shown closed; the theorems then hold for schedules of any length. -/

open RtcModel.DtlsFlights in
/-- **converge_if_delivered** (closed system, free crypto): after *any* fault schedule whatsoever, two
fair rounds — both timers tick, then everything each side ever emitted is delivered in emission order —
leave both endpoints Connected.  Two rounds are two seconds of the 1 s retransmission timer, far inside
the 30 s handshake deadline. -/
theorem converge_if_delivered (acts : List Act) :
    bothConnected (fairRound W0 (fairRound W0 ((Sys.init W0).run W0 acts))) = true := by
  have hmem := closed_run reach0_closed acts (Sys.init W0) reach0_init
  have := reach0_good
  rw [List.all_eq_true] at this
  exact this _ hmem

open RtcModel.DtlsFlights in
/-- **agreement in the closed system** (no hypothesis needed here: the binding of verify_data to its
inputs holds by construction in the free interpretation): after any fault schedule, if both endpoints
are Connected they hold the same key block *and the same SRTP profile*; and no schedule of an honest
network drives an endpoint to Failed or Closed. -/
theorem closed_system_agreement (acts : List Act) :
    let σ := (Sys.init W0).run W0 acts
    ((σ.c.conn = .connected ∧ σ.s.conn = .connected) → σ.c.connKeys = σ.s.connKeys ∧ σ.c.connSrtp = σ.s.connSrtp ∧ σ.c.connKeys.isSome = true) ∧
    σ.c.conn ≠ .failed ∧ σ.s.conn ≠ .failed ∧ σ.c.conn ≠ .closed ∧ σ.s.conn ≠ .closed := by
  intro σ
  have hmem : σ ∈ reach0 := closed_run reach0_closed acts (Sys.init W0) reach0_init
  have h1 := reach0_agree
  have h2 := reach0_no_failure
  rw [List.all_eq_true] at h1 h2
  have a := h1 σ hmem
  have b := h2 σ hmem
  simp only [Bool.or_eq_true, Bool.not_eq_true', Bool.and_eq_true, beq_iff_eq, decide_eq_true_eq, bne_iff_ne, ne_eq,
    Bool.and_eq_false_iff, beq_eq_false_iff_ne] at a b
  refine ⟨?_, b.1.1.1.1.1, b.1.1.1.1.2, b.1.1.1.2, b.1.1.2⟩
  intro ⟨hc, hs⟩
  rcases a with a | a
  · rcases a with a | a
    · exact absurd hc a
    · exact absurd hs a
  · exact ⟨a.1.1, a.1.2, a.2⟩

open RtcModel.DtlsFlights in
/-- the same two statements in a second free world (`W1`: no extended master secret, no SRTP profile,
no expected fingerprint at the client, an — unchecked, see C02 — expected fingerprint at the server) -/
theorem converge_if_delivered_w1 (acts : List Act) :
    bothConnected (fairRound W1 (fairRound W1 ((Sys.init W1).run W1 acts))) = true ∧
    (((Sys.init W1).run W1 acts).c.conn = .connected → ((Sys.init W1).run W1 acts).s.conn = .connected →
      ((Sys.init W1).run W1 acts).c.connKeys = ((Sys.init W1).run W1 acts).s.connKeys ∧
      ((Sys.init W1).run W1 acts).c.connSrtp = ((Sys.init W1).run W1 acts).s.connSrtp) := by
  have hmem := closed_run reach1_closed acts (Sys.init W1) reach1_init
  have h1 := reach1_good
  have h2 := reach1_agree
  rw [List.all_eq_true] at h1 h2
  refine ⟨h1 _ hmem, ?_⟩
  intro hc hs
  have a := h2 _ hmem
  simp only [Bool.or_eq_true, Bool.not_eq_true', Bool.and_eq_true, beq_iff_eq, decide_eq_true_eq,
    Bool.and_eq_false_iff, beq_eq_false_iff_ne] at a
  rcases a with a | a
  · rcases a with a | a
    · exact absurd hc a
    · exact absurd hs a
  · exact ⟨a.1.1, a.1.2⟩

/-! ### non-vacuity / recovery on a concrete instance -/

/-- the clean run of C02's toy instance connects (already shown there); after it, a repeated client
Finished makes the server re-send its final flight -/
example : (after wCrypto wLoc false none wOps).ctx.lastFlight.isSome = true := by decide

end RtcModel.Theorems.C11
